/- GENERATED from /repo by tools/gen_facts.py on every run. Do not edit. -/
namespace Fix8Model.Gen

/-- `_hb_interval20pc = hb_interval + hb_interval / hb20Divisor` (Connection ctor and set_hb_interval) -/
def hb20Divisor : Nat := 5

/-- the TestReqID that `heartbeat_service` puts on its TestRequest -/
def testReqIdLiteral : String := "TEST"

end Fix8Model.Gen
