/- GENERATED from /repo by tools/gen_facts.py on every run. Do not edit. -/
namespace Fix8Model.Gen

/-- `Tickval::million` (= thousand * thousand): nanoseconds per millisecond, the factor in `Timer::schedule` and in the re-arm -/
def tickMillion : Nat := 1000000

end Fix8Model.Gen
