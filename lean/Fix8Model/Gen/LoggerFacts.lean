/- GENERATED from /repo by tools/gen_facts.py on every run. Do not edit. -/
namespace Fix8Model.Gen

/-- `Logger::_level_names` -/
def levelNames : List String := ["Debug", "Info ", "Warn ", "Error", "Fatal"]

/-- `setw(..)` of the sequence column -/
def seqWidth : Nat := 7

/-- texts of the direction column: (value non-zero, value zero) -/
def dirIn : String := " in"
def dirOut : String := "out"

/-- the statements of `Logger::stop()` in order, blanks removed -/
def stopBody : List String := ["_stopping.request_stop()", "enqueue(std::string())", "_thread.join()"]

end Fix8Model.Gen
