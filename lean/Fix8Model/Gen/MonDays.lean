/- GENERATED from /repo by tools/gen_facts.py on every run. Do not edit. -/
namespace Fix8Model.Gen

/-- `mon_days[]` of `time_to_epoch` -/
def monDays : List Nat := [0, 31, 59, 90, 120, 151, 181, 212, 243, 273, 304, 334, 365]

def secsPerDay : Nat := 86400
def secsPerHour : Nat := 3600
def secsPerMin : Nat := 60

end Fix8Model.Gen
