/- GENERATED from /repo by tools/gen_facts.py on every run. Do not edit. -/
namespace Fix8Model.Gen

/-- `msgLen < a ? k : …` steps of the `hlen` computation in `Message::encode(char**)` (runtime/message.cpp), in source order -/
def encodeLadder : List (Nat × Nat) := [(10, 1), (100, 2), (1000, 3), (10000, 4), (100000, 5), (1000000, 6)]

/-- the final alternative of the ladder -/
def encodeLadderDefault : Nat := 7

/-- `_preamble_sz - _beginStr.size()` (include/fix8/message.hpp: `2 + _beginStr.size() + 1 + 3`) -/
def preambleExtra : Nat := 6

end Fix8Model.Gen
