/- GENERATED from /repo by tools/gen_facts.py on every run. Do not edit. -/
namespace Fix8Model.Gen

/-- `Tickval::second` -/
def tickSecond : Int := 1000000000
/-- `Tickval::minute` -/
def tickMinute : Int := 60000000000
/-- `Tickval::hour` -/
def tickHour : Int := 3600000000000
/-- `Tickval::day` -/
def tickDay : Int := 86400000000000
/-- `Tickval::week` -/
def tickWeek : Int := 604800000000000

/-- `day_names[]` of `decode_dow` (character codes) -/
def dowNames : List (List Nat) := [[115, 117], [109, 111], [116, 117], [119, 101], [116, 104], [102, 114], [115, 97]]

/-- `days[]`: the (first letter, weekday) pairs the `Daymap` multimap is built from, in source order -/
def dowPairs : List (Nat × Nat) := [(115, 0), (109, 1), (116, 2), (119, 3), (116, 4), (102, 5), (115, 6)]

end Fix8Model.Gen
