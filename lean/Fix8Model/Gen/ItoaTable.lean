/- GENERATED from /repo by tools/gen_facts.py on every run. Do not edit. -/
namespace Fix8Model.Gen

/-- the digit string indexed by `35 + (tmp_value - value * base)` in `itoa<T>` -/
def itoaTable : List Nat := [122, 121, 120, 119, 118, 117, 116, 115, 114, 113, 112, 111, 110, 109, 108, 107, 106, 105, 104, 103, 102, 101, 100, 99, 98, 97, 57, 56, 55, 54, 53, 52, 51, 50, 49, 48, 49, 50, 51, 52, 53, 54, 55, 56, 57, 97, 98, 99, 100, 101, 102, 103, 104, 105, 106, 107, 108, 109, 110, 111, 112, 113, 114, 115, 116, 117, 118, 119, 120, 121, 122]

def itoaMid : Nat := 35

end Fix8Model.Gen
