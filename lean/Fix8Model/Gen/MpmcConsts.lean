/- GENERATED from /repo by tools/gen_facts.py on every run. Do not edit. -/
namespace Fix8Model.Gen

/-- `uMPMC_Ptr_Queue::DEFAULT_NUM_QUEUES`, `DEFAULT_uSPSC_SIZE`, and the lower bound `init` applies to `nqueues` -/
def mpmcDefaultQueues : Nat := 4
def mpmcDefaultInner : Nat := 2048
def mpmcMinQueues : Nat := 2

end Fix8Model.Gen
