/- GENERATED from /repo by tools/gen_facts.py on every run. Do not edit. -/
namespace Fix8Model.Gen

/-- `Logger::max_rotation` -/
def maxRotation : Nat := 1024

def maxFldLength : Nat := 2048
def maxMsgLength : Nat := 8192
def defaultPrecision : Nat := 2
def maxMsgTypeFieldLen : Nat := 32
def headerCalcOffset : Nat := 32

end Fix8Model.Gen
