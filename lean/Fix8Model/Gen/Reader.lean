/- GENERATED from /repo by tools/gen_facts.py on every run. Do not edit. -/
namespace Fix8Model.Gen

/-- `FIXReader::_max_msg_len`, `_chksum_sz`; `char tag[MAX_MSGTYPE_FIELD_LEN], val[FIX8_MAX_FLD_LENGTH]` in `FIXReader::read` -/
def readerMaxMsgLen : Nat := 8192
def readerChksumSz : Nat := 7
def readerTagBuf : Nat := 32
def readerValBuf : Nat := 2048

/-- bound of the BodyLength digit loop: `none` = `offs < _max_msg_len`, `some k` = `offs < _bg_sz + k` (source: `_bg_sz + max_len_chrs`) -/
def readerLoopExtra : Option Nat := some 9

/-- is `msg_buf[_bg_sz - 1]` (first BodyLength character) tested with isdigit before the loop -/
def readerFirstCheck : Bool := true

/-- does `MessageBase::extract_element` test `tag == tag_last` / `val == val_last` before each store -/
def extractBounded : Bool := true

/-- `_beginStr` of the metadata context the harness session runs on (FIX42UTEST) -/
def readerBeginStr : List Nat := [70, 73, 88, 46, 52, 46, 50]

end Fix8Model.Gen
