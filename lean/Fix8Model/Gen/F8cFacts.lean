/- GENERATED from /repo by tools/gen_facts.py on every run. Do not edit. -/
namespace Fix8Model.Gen

/-- `FieldTrait::FieldType` enumerators in order -/
def ftNames : List (String × Nat) := [("ft_untyped", 0), ("ft_int", 1), ("ft_Length", 2), ("ft_TagNum", 3), ("ft_SeqNum", 4), ("ft_NumInGroup", 5), ("ft_DayOfMonth", 6), ("ft_char", 7), ("ft_Boolean", 8), ("ft_float", 9), ("ft_Qty", 10), ("ft_Price", 11), ("ft_PriceOffset", 12), ("ft_Amt", 13), ("ft_Percentage", 14), ("ft_string", 15), ("ft_MultipleCharValue", 16), ("ft_MultipleStringValue", 17), ("ft_Country", 18), ("ft_Currency", 19), ("ft_Exchange", 20), ("ft_MonthYear", 21), ("ft_UTCTimestamp", 22), ("ft_UTCTimeOnly", 23), ("ft_UTCDateOnly", 24), ("ft_LocalMktDate", 25), ("ft_TZTimeOnly", 26), ("ft_TZTimestamp", 27), ("ft_data", 28), ("ft_XMLData", 29), ("ft_pattern", 30), ("ft_Tenor", 31), ("ft_Reserved100Plus", 32), ("ft_Reserved1000Plus", 33), ("ft_Reserved4000Plus", 34), ("ft_Language", 35)]

def ftInt : Nat := 1
def ftEndInt : Nat := 6
def ftChar : Nat := 7
def ftEndChar : Nat := 8
def ftFloat : Nat := 9
def ftEndFloat : Nat := 14
def ftString : Nat := 15
def ftEndString : Nat := 35

/-- `FieldSpec::_baseTypeMap` of f8c: upper-cased type attribute -> FieldType -/
def baseTypeMap : List (String × Nat) := [
  ("INT", 1),
  ("LENGTH", 2),
  ("TAGNUM", 3),
  ("SEQNUM", 4),
  ("NUMINGROUP", 5),
  ("DAYOFMONTH", 6),
  ("FLOAT", 9),
  ("QTY", 10),
  ("QUANTITY", 10),
  ("PRICE", 11),
  ("PRICEOFFSET", 12),
  ("AMT", 13),
  ("PERCENTAGE", 14),
  ("CHAR", 7),
  ("BOOLEAN", 8),
  ("STRING", 15),
  ("MULTIPLEVALUECHAR", 16),
  ("MULTIPLECHARVALUE", 16),
  ("MULTIPLESTRINGVALUE", 17),
  ("MULTIPLEVALUESTRING", 17),
  ("COUNTRY", 18),
  ("CURRENCY", 19),
  ("EXCHANGE", 20),
  ("MONTHYEAR", 21),
  ("UTCTIMESTAMP", 22),
  ("UTCTIME", 23),
  ("UTCTIMEONLY", 23),
  ("UTCDATE", 24),
  ("UTCDATEONLY", 24),
  ("LOCALMKTDATE", 25),
  ("TZTIMEONLY", 26),
  ("TZTIMESTAMP", 27),
  ("XMLDATA", 29),
  ("DATA", 28),
  ("PATTERN", 30),
  ("LANGUAGE", 35),
  ("TENOR", 31),
  ("RESERVED100PLUS", 32),
  ("RESERVED1000PLUS", 33),
  ("RESERVED4000PLUS", 34)]

def bitMandatory : Nat := 0
def bitPresent : Nat := 1
def bitPosition : Nat := 2
def bitGroup : Nat := 3
def bitComponent : Nat := 4
def bitSuppress : Nat := 5
def bitAutomatic : Nat := 6

def tagBeginString : Nat := 8
def tagBodyLength : Nat := 9
def tagCheckSum : Nat := 10
def tagMsgType : Nat := 35

/-- `rothash`: result ^= (result >> 2) ^ (result << 5) ^ (result << 13) ^ value ^ 0x80001801 -/
def rhShr : Nat := 2
def rhShl1 : Nat := 5
def rhShl2 : Nat := 13
def rhConst : Nat := 2147489793

end Fix8Model.Gen
