/- GENERATED from /repo by tools/gen_facts.py on every run. Do not edit. -/
namespace Fix8Model.Gen

/-- `pow10_[]` of runtime/modp_numtoa.c -/
def dtoaPow10 : List Nat := [1, 10, 100, 1000, 10000, 100000, 1000000, 10000000, 100000000, 1000000000]

/-- `thres_max`: above it modp_dtoa reverts to `sprintf("%e")` -/
def dtoaThresMax : Nat := 2147483647

/-- upper clamp of `prec` in modp_dtoa -/
def dtoaMaxPrec : Nat := 9

/-- clamp of the decimal exponent in fast_atof (double build) -/
def atofMaxExp : Nat := 308

end Fix8Model.Gen
