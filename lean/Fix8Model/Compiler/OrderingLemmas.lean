import Fix8Model.Compiler.Compile
/-! `process_ordering`: the rank in `_pos` order. -/
namespace Fix8Model.Compiler

def PosLE (a b : Trait) : Prop := a.pos ≤ b.pos
def PosLT (a b : Trait) : Prop := a.pos < b.pos

theorem insertByPos_perm (t : Trait) : ∀ (l : List Trait), (insertByPos t l).Perm (t :: l)
  | [] => List.Perm.refl _
  | x :: xs => by
    simp only [insertByPos]
    by_cases h : t.pos < x.pos
    · simp [h]
    · simp only [h, if_false]
      exact (List.Perm.cons x (insertByPos_perm t xs)).trans (List.Perm.swap t x xs)

theorem insertByPos_sorted (t : Trait) : ∀ (l : List Trait), l.Pairwise PosLE → (insertByPos t l).Pairwise PosLE
  | [], _ => by simp [insertByPos]
  | x :: xs, h => by
    simp only [insertByPos]
    have hx := List.pairwise_cons.mp h
    by_cases ht : t.pos < x.pos
    · simp only [ht, if_true]
      refine List.pairwise_cons.mpr ⟨?_, h⟩
      intro a ha
      rcases List.mem_cons.mp ha with rfl | ha
      · exact Nat.le_of_lt ht
      · exact Nat.le_trans (Nat.le_of_lt ht) (hx.1 a ha)
    · simp only [ht, if_false]
      refine List.pairwise_cons.mpr ⟨?_, insertByPos_sorted t xs hx.2⟩
      intro a ha
      have := (insertByPos_perm t xs).mem_iff.mp ha
      rcases List.mem_cons.mp this with rfl | ha
      · exact Nat.le_of_not_lt ht
      · exact hx.1 a ha

theorem foldl_insert_perm : ∀ (ts acc : List Trait), (ts.foldl (fun acc t => insertByPos t acc) acc).Perm (ts ++ acc)
  | [], acc => by simp
  | t :: ts, acc => by
    simp only [List.foldl_cons]
    refine (foldl_insert_perm ts (insertByPos t acc)).trans ?_
    have h1 : (ts ++ insertByPos t acc).Perm (ts ++ t :: acc) := List.Perm.append_left ts (insertByPos_perm t acc)
    refine h1.trans ?_
    simpa using (List.perm_middle (a := t) (l₁ := ts) (l₂ := acc))

theorem foldl_insert_sorted : ∀ (ts acc : List Trait), acc.Pairwise PosLE →
    (ts.foldl (fun acc t => insertByPos t acc) acc).Pairwise PosLE
  | [], _, h => h
  | t :: ts, acc, h => by
    simp only [List.foldl_cons]
    exact foldl_insert_sorted ts _ (insertByPos_sorted t acc h)

theorem sortByPos_perm (ts : List Trait) : (sortByPos ts).Perm ts := by
  have := foldl_insert_perm ts []
  simpa [sortByPos] using this

theorem sortByPos_sorted (ts : List Trait) : (sortByPos ts).Pairwise PosLE :=
  foldl_insert_sorted ts [] List.Pairwise.nil

/-- number of traits placed strictly before `t` -/
def before (l : List Trait) (t : Trait) : Nat := l.countP (fun u => decide (u.pos < t.pos))

/-- on a list sorted strictly by position with unique tags the index of a member's tag is the number of members before it -/
theorem idxOf_eq_before : ∀ (mo : List Trait), mo.Pairwise PosLT → (mo.map (·.tag)).Nodup → ∀ t ∈ mo,
    (mo.map (·.tag)).idxOf t.tag = before mo t
  | [], _, _, t, ht => by simp at ht
  | x :: xs, hs, hn, t, ht => by
    have hx := List.pairwise_cons.mp hs
    simp only [List.map_cons, List.nodup_cons] at hn
    simp only [List.map_cons, List.idxOf_cons, before, List.countP_cons]
    rcases List.mem_cons.mp ht with rfl | ht'
    · -- t is the head: nothing is before it
      have h0 : List.countP (fun u => decide (u.pos < t.pos)) xs = 0 := by
        apply List.countP_eq_zero.mpr
        intro a ha
        have := hx.1 a ha
        simp only [PosLT] at this
        simp; omega
      simp [h0]
    · have hne : x.tag ≠ t.tag := by
        intro h
        exact hn.1 (by rw [h]; exact List.mem_map.mpr ⟨t, ht', rfl⟩)
      have hlt : x.pos < t.pos := hx.1 t ht'
      have ih := idxOf_eq_before xs hx.2 hn.2 t ht'
      simp only [before] at ih
      have hb : (x.tag == t.tag) = false := by simpa using hne
      simp [hb, ih, hlt]

theorem before_perm {l1 l2 : List Trait} (h : l1.Perm l2) (t : Trait) : before l1 t = before l2 t :=
  List.Perm.countP_eq _ h

/-- distinct positions: sorted is strictly sorted -/
theorem strict_of_nodup : ∀ (l : List Trait), l.Pairwise PosLE → (l.map (·.pos)).Nodup → l.Pairwise PosLT
  | [], _, _ => List.Pairwise.nil
  | x :: xs, hs, hn => by
    have hx := List.pairwise_cons.mp hs
    simp only [List.map_cons, List.nodup_cons] at hn
    refine List.pairwise_cons.mpr ⟨?_, strict_of_nodup xs hx.2 hn.2⟩
    intro a ha
    have h1 := hx.1 a ha
    have h2 : x.pos ≠ a.pos := fun h => hn.1 (by rw [h]; exact List.mem_map.mpr ⟨a, ha, rfl⟩)
    simp only [PosLE] at h1
    simp only [PosLT]; omega

/-- `process_ordering` on a presence set with unique tags and distinct positions: every trait keeps tag, type, component and
flags, its new position is 1 + the number of traits that were placed before it -/
theorem processOrdering_rank (ts : List Trait) (htags : (ts.map (·.tag)).Nodup) (hpos : (ts.map (·.pos)).Nodup) :
    processOrdering ts = ts.map (fun t => { t with pos := before ts t + 1 }) := by
  unfold processOrdering
  apply List.map_congr_left
  intro t ht
  have hp := sortByPos_perm ts
  have hs := strict_of_nodup (sortByPos ts) (sortByPos_sorted ts) ((hp.map _).nodup_iff.mpr hpos)
  have hn : ((sortByPos ts).map (·.tag)).Nodup := (hp.map _).nodup_iff.mpr htags
  have := idxOf_eq_before (sortByPos ts) hs hn t (hp.mem_iff.mpr ht)
  rw [this, before_perm hp]

/-- the renumbering is strictly increasing in the old positions -/
theorem before_lt (ts : List Trait) (a b : Trait) (ha : a ∈ ts) (h : a.pos < b.pos) : before ts a < before ts b := by
  induction ts with
  | nil => simp at ha
  | cons x xs ih =>
    simp only [before, List.countP_cons]
    rcases List.mem_cons.mp ha with rfl | ha'
    · have h1 : List.countP (fun u => decide (u.pos < a.pos)) xs ≤ List.countP (fun u => decide (u.pos < b.pos)) xs := by
        apply List.countP_mono_left
        intro u _ hu
        simp only [decide_eq_true_eq] at hu ⊢; omega
      have h2 : ¬ a.pos < a.pos := Nat.lt_irrefl _
      simp [h2, h]; omega
    · have := ih ha'
      simp only [before] at this
      by_cases hxa : x.pos < a.pos
      · have hxb : x.pos < b.pos := by omega
        simp [hxa, hxb]; omega
      · by_cases hxb : x.pos < b.pos
        · simp [hxa, hxb]; omega
        · simp [hxa, hxb]; omega

theorem before_lt_iff (ts : List Trait) (a b : Trait) (ha : a ∈ ts) (hb : b ∈ ts) :
    before ts a < before ts b ↔ a.pos < b.pos := by
  constructor
  · intro h
    apply Classical.byContradiction
    intro hn
    have hle : b.pos ≤ a.pos := Nat.le_of_not_lt hn
    rcases Nat.lt_or_eq_of_le hle with h1 | h1
    · have := before_lt ts b a hb h1; omega
    · simp only [before, h1] at h; omega
  · exact before_lt ts a b ha

/-- on a strictly sorted list the ranks are 1, 2, …, n -/
theorem ranks_sorted : ∀ (mo : List Trait), mo.Pairwise PosLT →
    mo.map (fun t => before mo t + 1) = List.range' 1 mo.length
  | [], _ => rfl
  | x :: xs, hs => by
    have hx := List.pairwise_cons.mp hs
    have ih := ranks_sorted xs hx.2
    simp only [List.map_cons, List.length_cons, List.range'_succ]
    have h0 : before (x :: xs) x = 0 := by
      simp only [before, List.countP_cons]
      have : List.countP (fun u => decide (u.pos < x.pos)) xs = 0 := by
        apply List.countP_eq_zero.mpr
        intro a ha; have := hx.1 a ha; simp only [PosLT] at this; simp; omega
      simp [this]
    have htail : xs.map (fun t => before (x :: xs) t + 1) = xs.map (fun t => 1 + (before xs t + 1)) := by
      apply List.map_congr_left
      intro t ht
      have : x.pos < t.pos := hx.1 t ht
      simp only [before, List.countP_cons]; simp [this]; omega
    rw [h0, htail]
    have : xs.map (fun t => 1 + (before xs t + 1)) = (xs.map (fun t => before xs t + 1)).map (fun n => 1 + n) := by
      simp [List.map_map, Function.comp_def]
    rw [this, ih, List.map_add_range']

/-- the new positions of a message are exactly 1..n -/
theorem processOrdering_positions (ts : List Trait) (htags : (ts.map (·.tag)).Nodup) (hpos : (ts.map (·.pos)).Nodup) :
    ((processOrdering ts).map (·.pos)).Perm (List.range' 1 ts.length) := by
  rw [processOrdering_rank ts htags hpos]
  have hp := sortByPos_perm ts
  have hs := strict_of_nodup (sortByPos ts) (sortByPos_sorted ts) ((hp.map _).nodup_iff.mpr hpos)
  have h1 : (ts.map (fun t => { t with pos := before ts t + 1 })).map (·.pos) = ts.map (fun t => before ts t + 1) := by
    simp [List.map_map, Function.comp_def]
  rw [h1]
  have h2 : (ts.map (fun t => before ts t + 1)).Perm ((sortByPos ts).map (fun t => before ts t + 1)) := (hp.map _).symm
  refine h2.trans ?_
  have h3 : (sortByPos ts).map (fun t => before ts t + 1) = (sortByPos ts).map (fun t => before (sortByPos ts) t + 1) := by
    apply List.map_congr_left
    intro t _
    rw [before_perm hp]
  rw [h3, ranks_sorted _ hs, hp.length_eq]

end Fix8Model.Compiler
