import Fix8Model.Compiler.OrderingLemmas
import Fix8Model.Compiler.GroupHashLemmas
/-! Invariants of the pass-2 model: presence sets stay ordered by tag, every trait row is the image of one child element of
the (expanded) body with its 1-based child index as position, the group insertion sequence is closed under nesting. -/
namespace Fix8Model.Compiler
open Fix8Model.Gen

def SortedTags (ts : List Trait) : Prop := (ts.map (·.tag)).Pairwise (· < ·)

theorem hasTag_false (ts : List Trait) (tag : Nat) : hasTag ts tag = false ↔ ∀ t ∈ ts, t.tag ≠ tag := by
  simp [hasTag]

theorem insertTrait_perm (t : Trait) : ∀ (ts : List Trait), (insertTrait t ts).Perm (t :: ts)
  | [] => List.Perm.refl _
  | x :: xs => by
    simp only [insertTrait]
    by_cases h : t.tag < x.tag
    · simp [h]
    · simp only [h, if_false]
      exact (List.Perm.cons x (insertTrait_perm t xs)).trans (List.Perm.swap t x xs)

theorem mem_insertTrait (t u : Trait) (ts : List Trait) : u ∈ insertTrait t ts ↔ u = t ∨ u ∈ ts := by
  rw [(insertTrait_perm t ts).mem_iff]; simp

theorem insertTrait_sorted (t : Trait) : ∀ (ts : List Trait), SortedTags ts → (∀ u ∈ ts, u.tag ≠ t.tag) → SortedTags (insertTrait t ts)
  | [], _, _ => by simp [insertTrait, SortedTags]
  | x :: xs, hs, hn => by
    simp only [SortedTags, List.map_cons] at hs
    have hx := List.pairwise_cons.mp hs
    simp only [insertTrait]
    by_cases h : t.tag < x.tag
    · simp only [h, if_true, SortedTags, List.map_cons]
      refine List.pairwise_cons.mpr ⟨?_, hs⟩
      intro a ha
      rcases List.mem_cons.mp ha with rfl | ha
      · exact h
      · exact Nat.lt_trans h (hx.1 a ha)
    · simp only [h, if_false, SortedTags, List.map_cons]
      have ih := insertTrait_sorted t xs hx.2 (fun u hu => hn u (by simp [hu]))
      refine List.pairwise_cons.mpr ⟨?_, ih⟩
      intro a ha
      obtain ⟨u, hu, rfl⟩ := List.mem_map.mp ha
      rcases (mem_insertTrait t u xs).mp hu with rfl | hu
      · have := hn x (by simp); omega
      · exact hx.1 u.tag (List.mem_map.mpr ⟨u, hu, rfl⟩)

/-- flags of a row after `process_special_traits` for its own tag -/
def specialFlags (tag f : Nat) : Nat :=
  if tag = tagBeginString ∨ tag = tagBodyLength ∨ tag = tagCheckSum then clearBit (setBit (setBit f bitSuppress) bitAutomatic) bitMandatory
  else if tag = tagMsgType then clearBit (setBit f bitAutomatic) bitMandatory
  else f

theorem special_eq (tag : Nat) (ts : List Trait) :
    special tag ts = ts.map (fun t => if t.tag = tag then { t with flags := specialFlags tag t.flags } else t) := by
  unfold special specialFlags
  by_cases h1 : tag = tagBeginString ∨ tag = tagBodyLength ∨ tag = tagCheckSum
  · simp only [h1, if_true]
  · simp only [h1, if_false]
    by_cases h2 : tag = tagMsgType
    · simp only [h2, if_true]
    · simp only [h2, if_false]
      induction ts with
      | nil => rfl
      | cons x xs ih => simp only [List.map_cons]; rw [← ih]; split <;> rfl

theorem special_tags (tag : Nat) (ts : List Trait) : (special tag ts).map (·.tag) = ts.map (·.tag) := by
  rw [special_eq, List.map_map]
  apply List.map_congr_left
  intro t _
  simp only [Function.comp]
  split <;> rfl

/-- `special` right after the insertion of the (new) tag only rewrites the inserted row -/
theorem special_insert (t : Trait) (ts : List Trait) (hn : ∀ u ∈ ts, u.tag ≠ t.tag) :
    special t.tag (insertTrait t ts) = insertTrait { t with flags := specialFlags t.tag t.flags } ts := by
  rw [special_eq]
  induction ts with
  | nil => simp [insertTrait]
  | cons x xs ih =>
    have hx : x.tag ≠ t.tag := hn x (by simp)
    have ih' := ih (fun u hu => hn u (by simp [hu]))
    simp only [insertTrait]
    by_cases h : t.tag < x.tag
    · simp only [h, if_true, List.map_cons, if_true]
      have : xs.map (fun u => if u.tag = t.tag then { u with flags := specialFlags t.tag u.flags } else u) = xs := by
        rw [List.map_congr_left (g := id)]
        · simp
        · intro u hu; have := hn u (by simp [hu]); simp [this]
      simp [hx, this]
    · simp only [h, if_false, List.map_cons, hx, ih']

/-! ### rows -/

theorem drop_cons_get {α : Type} : ∀ (l : List α) (k : Nat) (e : α) (rest : List α), l.drop k = e :: rest →
    l[k]? = some e ∧ l.drop (k + 1) = rest
  | [], k, e, rest, h => by simp at h
  | x :: xs, 0, e, rest, h => by simp at h; simp [h]
  | x :: xs, k + 1, e, rest, h => by
    simp only [List.drop_succ_cons] at h
    have := drop_cons_get xs k e rest h
    simp [this]

/-- the trait `t` is the image of the child with 1-based index `t.pos` of `body` -/
def RowOf (c : Ctx) (body : List PElem) (t : Trait) : Prop :=
  1 ≤ t.pos ∧
  match body[t.pos - 1]? with
  | some (.field name req comp) =>
    ∃ fs, c.find name = some fs ∧
      t = ⟨fs.number, fs.ftype, t.pos, c.compIdx comp, specialFlags fs.number (mkFlags (req == "Y") false t.pos (c.compIdx comp))⟩
  | some (.group name req comp _) =>
    ∃ fs, c.find name = some fs ∧ t = ⟨fs.number, ftInt, t.pos, c.compIdx comp, mkFlags (req == "Y") true t.pos (c.compIdx comp)⟩
  | none => False

theorem pfList_rows (c : Ctx) (body : List PElem) : ∀ (rest : List PElem) (idx : Nat) (ts ts' : List Trait),
    body.drop (idx - 1) = rest → 1 ≤ idx → pfList c rest idx ts = some ts' → SortedTags ts → (∀ t ∈ ts, RowOf c body t) →
    SortedTags ts' ∧ (∀ t ∈ ts', RowOf c body t)
  | [], _, ts, ts', _, _, h, hs, hr => by
    simp only [pfList, Option.some.injEq] at h; subst h; exact ⟨hs, hr⟩
  | .group n r cm b :: rest, idx, ts, ts', hd, hi, h, hs, hr => by
    simp only [pfList] at h
    have := drop_cons_get body (idx - 1) _ _ hd
    exact pfList_rows c body rest (idx + 1) ts ts' (by rw [← this.2]; congr 1; omega) (by omega) h hs hr
  | .field name req comp :: rest, idx, ts, ts', hd, hi, h, hs, hr => by
    have hg := drop_cons_get body (idx - 1) _ _ hd
    have hd' : body.drop (idx + 1 - 1) = rest := by rw [← hg.2]; congr 1; omega
    simp only [pfList] at h
    cases hf : c.find name with
    | none => simp [hf] at h
    | some fs =>
      simp only [hf] at h
      by_cases hh : hasTag ts fs.number = true
      · simp only [hh, if_true] at h
        exact pfList_rows c body rest (idx + 1) ts ts' hd' (by omega) h hs hr
      · have hhf : hasTag ts fs.number = false := by simpa using hh
        simp only [hhf] at h
        have hn := (hasTag_false ts fs.number).mp hhf
        let t0 : Trait := ⟨fs.number, fs.ftype, idx, c.compIdx comp, mkFlags (req == "Y") false idx (c.compIdx comp)⟩
        have hsp := special_insert t0 ts hn
        simp only [t0] at hsp
        simp only [Bool.false_eq_true, if_false] at h
        rw [hsp] at h
        refine pfList_rows c body rest (idx + 1) _ ts' hd' (by omega) h ?_ ?_
        · exact insertTrait_sorted _ ts hs hn
        · intro t ht
          rcases (mem_insertTrait _ t ts).mp ht with rfl | ht
          · refine ⟨hi, ?_⟩
            simp only [hg.1]
            exact ⟨fs, hf, rfl⟩
          · exact hr t ht

/-- the group's own level: fields first, then nested groups (f8c.cpp:665-669) -/
def parseGroupBody (c : Ctx) (body : List PElem) : Option Lvl :=
  match pfList c body 1 [] with
  | none => none
  | some gts => pgList c body 1 ⟨gts, [], []⟩

/-- one step of the group pass, unfolded -/
theorem pgElem_group (c : Ctx) (name req comp : String) (body : List PElem) (idx : Nat) (l l' : Lvl)
    (h : pgElem c (.group name req comp body) idx l = some l') :
    ∃ fs, c.find name = some fs ∧
      ((hasTag l.ts fs.number = true ∧ l' = l) ∨
       (hasTag l.ts fs.number = false ∧ ∃ g, parseGroupBody c body = some g ∧
          l' = ⟨insertTrait ⟨fs.number, ftInt, idx, c.compIdx comp, mkFlags (req == "Y") true idx (c.compIdx comp)⟩ l.ts,
                insertGroup (fs.number, GSpec.mk g.ts g.gs) l.gs, l.oc ++ g.oc ++ [(fs.number, GSpec.mk g.ts g.gs)]⟩)) := by
  simp only [pgElem] at h
  cases hf : c.find name with
  | none => simp [hf] at h
  | some fs =>
    refine ⟨fs, rfl, ?_⟩
    simp only [hf] at h
    by_cases hh : hasTag l.ts fs.number = true
    · simp only [hh, if_true, Option.some.injEq] at h
      exact Or.inl ⟨hh, h.symm⟩
    · have hhf : hasTag l.ts fs.number = false := by simpa using hh
      simp only [hhf, Bool.false_eq_true, if_false] at h
      refine Or.inr ⟨hhf, ?_⟩
      cases hp : pfList c body 1 [] with
      | none => simp [hp] at h
      | some gts =>
        simp only [hp] at h
        cases hq : pgList c body 1 ⟨gts, [], []⟩ with
        | none => simp [hq] at h
        | some g =>
          simp only [hq, Option.some.injEq] at h
          exact ⟨g, by simp [parseGroupBody, hp, hq], h.symm⟩

theorem pgList_rows (c : Ctx) (body : List PElem) : ∀ (rest : List PElem) (idx : Nat) (l l' : Lvl),
    body.drop (idx - 1) = rest → 1 ≤ idx → pgList c rest idx l = some l' → SortedTags l.ts → (∀ t ∈ l.ts, RowOf c body t) →
    SortedTags l'.ts ∧ (∀ t ∈ l'.ts, RowOf c body t)
  | [], _, l, l', _, _, h, hs, hr => by
    simp only [pgList, Option.some.injEq] at h; subst h; exact ⟨hs, hr⟩
  | e :: rest, idx, l, l', hd, hi, h, hs, hr => by
    have hg := drop_cons_get body (idx - 1) _ _ hd
    have hd' : body.drop (idx + 1 - 1) = rest := by rw [← hg.2]; congr 1; omega
    simp only [pgList] at h
    cases he : pgElem c e idx l with
    | none => simp [he] at h
    | some l1 =>
      simp only [he] at h
      have key : SortedTags l1.ts ∧ (∀ t ∈ l1.ts, RowOf c body t) := by
        cases e with
        | field n r cm => simp only [pgElem, Option.some.injEq] at he; subst he; exact ⟨hs, hr⟩
        | group name req comp gb =>
          obtain ⟨fs, hf, hcase⟩ := pgElem_group c name req comp gb idx l l1 he
          rcases hcase with ⟨_, rfl⟩ | ⟨hhf, g, _, rfl⟩
          · exact ⟨hs, hr⟩
          · have hn := (hasTag_false l.ts fs.number).mp hhf
            refine ⟨insertTrait_sorted _ l.ts hs hn, ?_⟩
            intro t ht
            rcases (mem_insertTrait _ t l.ts).mp ht with rfl | ht
            · refine ⟨hi, ?_⟩
              simp only [hg.1]
              exact ⟨fs, hf, rfl⟩
            · exact hr t ht
      exact pgList_rows c body rest (idx + 1) l1 l' hd' (by omega) h key.1 key.2

/-- C13 (positions, flags, membership) for one message / header / trailer level -/
theorem parseMsgBody_rows (c : Ctx) (body : List PElem) (l : Lvl) (h : parseMsgBody c body = some l) :
    SortedTags l.ts ∧ ∀ t ∈ l.ts, RowOf c body t := by
  simp only [parseMsgBody] at h
  cases hp : pgList c body 1 ⟨[], [], []⟩ with
  | none => simp [hp] at h
  | some l1 =>
    simp only [hp] at h
    cases hq : pfList c body 1 l1.ts with
    | none => simp [hq] at h
    | some ts =>
      simp only [hq, Option.some.injEq] at h
      subst h
      have h1 := pgList_rows c body body 1 ⟨[], [], []⟩ l1 rfl (Nat.le_refl 1) hp (by simp [SortedTags]) (by simp)
      exact pfList_rows c body body 1 l1.ts ts rfl (Nat.le_refl 1) hq h1.1 h1.2

/-- … and for one repeating-group level -/
theorem parseGroupBody_rows (c : Ctx) (body : List PElem) (g : Lvl) (h : parseGroupBody c body = some g) :
    SortedTags g.ts ∧ ∀ t ∈ g.ts, RowOf c body t := by
  simp only [parseGroupBody] at h
  cases hp : pfList c body 1 [] with
  | none => simp [hp] at h
  | some gts =>
    simp only [hp] at h
    have h1 := pfList_rows c body body 1 [] gts rfl (Nat.le_refl 1) hp (by simp [SortedTags]) (by simp)
    exact pgList_rows c body body 1 ⟨gts, [], []⟩ g rfl (Nat.le_refl 1) h h1.1 h1.2

/-- rows of one level have distinct tags and distinct positions (two rows at one position are the same row) -/
theorem rows_pos_inj (c : Ctx) (body : List PElem) (a b : Trait) (ha : RowOf c body a) (hb : RowOf c body b) (h : a.pos = b.pos) : a = b := by
  obtain ⟨_, ha⟩ := ha
  obtain ⟨_, hb⟩ := hb
  rw [h] at ha
  cases hk : body[b.pos - 1]? with
  | none => simp [hk] at hb
  | some e =>
    cases e with
    | field n r cm =>
      simp only [hk] at ha hb
      obtain ⟨fa, hfa, ea⟩ := ha
      obtain ⟨fb, hfb, eb⟩ := hb
      rw [hfa] at hfb; cases hfb
      exact ea.trans eb.symm
    | group n r cm gb =>
      simp only [hk] at ha hb
      obtain ⟨fa, hfa, ea⟩ := ha
      obtain ⟨fb, hfb, eb⟩ := hb
      rw [hfa] at hfb; cases hfb
      exact ea.trans eb.symm

theorem sorted_nodup_tags (ts : List Trait) (h : SortedTags ts) : (ts.map (·.tag)).Nodup := by
  unfold SortedTags at h
  exact h.imp (fun hlt => Nat.ne_of_lt hlt)

theorem rows_nodup_pos (c : Ctx) (body : List PElem) : ∀ (ts : List Trait), SortedTags ts → (∀ t ∈ ts, RowOf c body t) → (ts.map (·.pos)).Nodup
  | [], _, _ => by simp
  | x :: xs, hs, hr => by
    simp only [SortedTags, List.map_cons] at hs
    have hx := List.pairwise_cons.mp hs
    simp only [List.map_cons, List.nodup_cons]
    refine ⟨?_, rows_nodup_pos c body xs hx.2 (fun t ht => hr t (by simp [ht]))⟩
    intro hmem
    obtain ⟨u, hu, hpu⟩ := List.mem_map.mp hmem
    have := rows_pos_inj c body u x (hr u (by simp [hu])) (hr x (by simp)) hpu
    subst this
    have := hx.1 u.tag (List.mem_map.mpr ⟨u, hu, rfl⟩)
    omega

/-! ### the insertion sequence of `parse_groups` is closed under nesting, every stored spec is ordered by tag -/

theorem insertGroup_perm (g : Nat × GSpec) : ∀ (gs : List (Nat × GSpec)), (insertGroup g gs).Perm (g :: gs)
  | [] => List.Perm.refl _
  | x :: xs => by
    simp only [insertGroup]
    by_cases h : g.1 < x.1
    · simp [h]
    · simp only [h, if_false]
      exact (List.Perm.cons x (insertGroup_perm g xs)).trans (List.Perm.swap g x xs)

theorem mem_insertGroup (g u : Nat × GSpec) (gs : List (Nat × GSpec)) : u ∈ insertGroup g gs ↔ u = g ∨ u ∈ gs := by
  rw [(insertGroup_perm g gs).mem_iff]; simp

mutual
/-- a property of the trait array of every level of a spec -/
def AllLevels (P : List Trait → Prop) : GSpec → Prop
  | .mk ts gs => P ts ∧ AllLevelsL P gs
def AllLevelsL (P : List Trait → Prop) : List (Nat × GSpec) → Prop
  | [] => True
  | (_, g) :: rest => AllLevels P g ∧ AllLevelsL P rest
end

theorem allLevelsL_iff (P : List Trait → Prop) : ∀ (gs : List (Nat × GSpec)), AllLevelsL P gs ↔ ∀ g ∈ gs, AllLevels P g.2
  | [] => by simp [AllLevelsL]
  | (t, g) :: rest => by
    simp only [AllLevelsL, List.mem_cons, forall_eq_or_imp, allLevelsL_iff P rest]

/-- every level of a spec is ordered by tag -/
def SortedSpec (g : GSpec) : Prop := AllLevels SortedTags g
def SortedSpecs (gs : List (Nat × GSpec)) : Prop := AllLevelsL SortedTags gs

theorem sortedSpecs_iff (gs : List (Nat × GSpec)) : SortedSpecs gs ↔ ∀ g ∈ gs, SortedSpec g.2 := allLevelsL_iff SortedTags gs

/-- the tag is the number of a field of the field table -/
def KnownTag (c : Ctx) (tag : Nat) : Prop := ∃ fs ∈ c.fspec, fs.number = tag

theorem rowOf_known (c : Ctx) (body : List PElem) (t : Trait) (h : RowOf c body t) : KnownTag c t.tag := by
  obtain ⟨_, h⟩ := h
  cases hk : body[t.pos - 1]? with
  | none => simp [hk] at h
  | some e =>
    cases e with
    | field n r cm =>
      simp only [hk] at h
      obtain ⟨fs, hf, e⟩ := h
      exact ⟨fs, List.mem_of_find?_eq_some hf, by rw [e]⟩
    | group n r cm gb =>
      simp only [hk] at h
      obtain ⟨fs, hf, e⟩ := h
      exact ⟨fs, List.mem_of_find?_eq_some hf, by rw [e]⟩

/-- per stored spec: ordered at every level, all member tags known -/
def GoodSpec (c : Ctx) (g : GSpec) : Prop := SortedSpec g ∧ ∀ t ∈ g.traits, KnownTag c t.tag

/-- what the group pass adds to a level -/
def Added (c : Ctx) (l l' : Lvl) : Prop :=
  ∃ ocn, l'.oc = l.oc ++ ocn ∧ Closed ocn ∧ (∀ o ∈ ocn, GoodSpec c o.2) ∧ (∀ g ∈ l'.gs, g ∈ l.gs ∨ g ∈ ocn)

mutual
theorem pgElem_added (c : Ctx) : ∀ (e : PElem) (idx : Nat) (l l' : Lvl), pgElem c e idx l = some l' → Added c l l'
  | .field _ _ _, _, l, l', h => by
    simp only [pgElem, Option.some.injEq] at h; subst h
    exact ⟨[], by simp, by intro o ho; simp at ho, by intro o ho; simp at ho, fun g hg => Or.inl hg⟩
  | .group name req comp body, idx, l, l', h => by
    obtain ⟨fs, hf, hcase⟩ := pgElem_group c name req comp body idx l l' h
    rcases hcase with ⟨_, rfl⟩ | ⟨hhf, g, hg, rfl⟩
    · exact ⟨[], by simp, by intro o ho; simp at ho, by intro o ho; simp at ho, fun g hg => Or.inl hg⟩
    · -- the nested level
      simp only [parseGroupBody] at hg
      cases hp : pfList c body 1 [] with
      | none => simp [hp] at hg
      | some gts =>
        simp only [hp] at hg
        obtain ⟨ocn, hoc, hcl, hso, hgs⟩ := pgList_added c body 1 ⟨gts, [], []⟩ g hg
        simp only [List.nil_append] at hoc
        have hrows := parseGroupBody_rows c body g (by simp [parseGroupBody, hp, hg])
        have hgs' : ∀ x ∈ g.gs, x ∈ ocn := fun x hx => (hgs x hx).resolve_left (by simp)
        refine ⟨g.oc ++ [(fs.number, GSpec.mk g.ts g.gs)], by simp [List.append_assoc], ?_, ?_, ?_⟩
        · intro o ho x hx
          rcases List.mem_append.mp ho with ho | ho
          · rw [hoc] at ho
            exact List.mem_append.mpr (Or.inl (hoc ▸ hcl o ho x hx))
          · simp only [List.mem_singleton] at ho
            subst ho
            simp only [GSpec.groups] at hx
            exact List.mem_append.mpr (Or.inl (hoc ▸ hgs' x hx))
        · intro o ho
          rcases List.mem_append.mp ho with ho | ho
          · rw [hoc] at ho; exact hso o ho
          · simp only [List.mem_singleton] at ho
            subst ho
            refine ⟨?_, fun t ht => rowOf_known c body t (hrows.2 t ht)⟩
            simp only [SortedSpec, AllLevels]
            exact ⟨hrows.1, (sortedSpecs_iff g.gs).mpr (fun x hx => (hso x (hgs' x hx)).1)⟩
        · intro x hx
          rcases (mem_insertGroup _ x l.gs).mp hx with rfl | hx
          · exact Or.inr (by simp)
          · exact Or.inl hx
theorem pgList_added (c : Ctx) : ∀ (es : List PElem) (idx : Nat) (l l' : Lvl), pgList c es idx l = some l' → Added c l l'
  | [], _, l, l', h => by
    simp only [pgList, Option.some.injEq] at h; subst h
    exact ⟨[], by simp, by intro o ho; simp at ho, by intro o ho; simp at ho, fun g hg => Or.inl hg⟩
  | e :: rest, idx, l, l', h => by
    simp only [pgList] at h
    cases he : pgElem c e idx l with
    | none => simp [he] at h
    | some l1 =>
      simp only [he] at h
      obtain ⟨o1, h1, c1, s1, g1⟩ := pgElem_added c e idx l l1 he
      obtain ⟨o2, h2, c2, s2, g2⟩ := pgList_added c rest (idx + 1) l1 l' h
      refine ⟨o1 ++ o2, by rw [h2, h1, List.append_assoc], ?_, ?_, ?_⟩
      · intro o ho x hx
        rcases List.mem_append.mp ho with ho | ho
        · exact List.mem_append.mpr (Or.inl (c1 o ho x hx))
        · exact List.mem_append.mpr (Or.inr (c2 o ho x hx))
      · intro o ho
        rcases List.mem_append.mp ho with ho | ho
        · exact s1 o ho
        · exact s2 o ho
      · intro x hx
        rcases g2 x hx with hx | hx
        · rcases g1 x hx with hx | hx
          · exact Or.inl hx
          · exact Or.inr (List.mem_append.mpr (Or.inl hx))
        · exact Or.inr (List.mem_append.mpr (Or.inr hx))
end

/-- a message level: its insertion sequence is closed, holds every group of the message, all specs ordered by tag -/
theorem parseMsgBody_closed (c : Ctx) (body : List PElem) (l : Lvl) (h : parseMsgBody c body = some l) :
    Closed l.oc ∧ (∀ o ∈ l.oc, GoodSpec c o.2) ∧ (∀ g ∈ l.gs, g ∈ l.oc) := by
  simp only [parseMsgBody] at h
  cases hp : pgList c body 1 ⟨[], [], []⟩ with
  | none => simp [hp] at h
  | some l1 =>
    simp only [hp] at h
    cases hq : pfList c body 1 l1.ts with
    | none => simp [hq] at h
    | some ts =>
      simp only [hq, Option.some.injEq] at h
      subst h
      obtain ⟨ocn, hoc, hcl, hso, hgs⟩ := pgList_added c body 1 ⟨[], [], []⟩ l1 hp
      simp only [List.nil_append] at hoc
      simp only
      rw [hoc]
      exact ⟨hcl, hso, fun g hg => (hgs g hg).resolve_left (by simp)⟩

/-! ### tables -/

theorem fspecInsert_mem (f g : FSpec) : ∀ (l : List FSpec), g ∈ fspecInsert f l → g = f ∨ g ∈ l
  | [], h => by simp [fspecInsert] at h; exact Or.inl h
  | x :: xs, h => by
    simp only [fspecInsert] at h
    by_cases h1 : f.number < x.number
    · simp only [h1, if_true, List.mem_cons] at h
      rcases h with h | h | h
      · exact Or.inl h
      · exact Or.inr (by simp [h])
      · exact Or.inr (by simp [h])
    · simp only [h1, if_false] at h
      by_cases h2 : x.number < f.number
      · simp only [h2, if_true, List.mem_cons] at h
        rcases h with h | h
        · exact Or.inr (by simp [h])
        · rcases fspecInsert_mem f g xs h with h | h
          · exact Or.inl h
          · exact Or.inr (by simp [h])
      · simp only [h2, if_false] at h
        exact Or.inr h

def SortedNums (l : List FSpec) : Prop := (l.map (·.number)).Pairwise (· < ·)

theorem fspecInsert_sorted (f : FSpec) : ∀ (l : List FSpec), SortedNums l → SortedNums (fspecInsert f l)
  | [], _ => by simp [fspecInsert, SortedNums]
  | x :: xs, hs => by
    simp only [SortedNums, List.map_cons] at hs
    have hx := List.pairwise_cons.mp hs
    simp only [fspecInsert]
    by_cases h1 : f.number < x.number
    · simp only [h1, if_true, SortedNums, List.map_cons]
      refine List.pairwise_cons.mpr ⟨?_, hs⟩
      intro a ha
      rcases List.mem_cons.mp ha with rfl | ha
      · exact h1
      · exact Nat.lt_trans h1 (hx.1 a ha)
    · simp only [h1, if_false]
      by_cases h2 : x.number < f.number
      · simp only [h2, if_true, SortedNums, List.map_cons]
        refine List.pairwise_cons.mpr ⟨?_, fspecInsert_sorted f xs hx.2⟩
        intro a ha
        obtain ⟨g, hg, rfl⟩ := List.mem_map.mp ha
        rcases fspecInsert_mem f g xs hg with rfl | hg
        · exact h2
        · exact hx.1 g.number (List.mem_map.mpr ⟨g, hg, rfl⟩)
      · simp only [h2, if_false]
        exact hs

theorem loadFields_sorted : ∀ (ds : List FieldDef) (acc acc' : List FSpec), loadFields ds acc = some acc' → SortedNums acc → SortedNums acc'
  | [], acc, acc', h, hs => by simp only [loadFields, Option.some.injEq] at h; subst h; exact hs
  | d :: rest, acc, acc', h, hs => by
    simp only [loadFields] at h
    cases hb : baseTypeMap.lookup (upperA d.type) with
    | none => simp only [hb] at h; exact loadFields_sorted rest acc acc' h hs
    | some ft =>
      simp only [hb] at h
      cases hr : mkRealm ft d.values with
      | none => simp [hr] at h
      | some rl =>
        simp only [hr] at h
        exact loadFields_sorted rest _ acc' h (fspecInsert_sorted _ acc hs)

/-- every field of the table was declared with a known type, under that number and name -/
theorem loadFields_from : ∀ (ds : List FieldDef) (acc acc' : List FSpec), loadFields ds acc = some acc' →
    ∀ f ∈ acc', f ∈ acc ∨ ∃ d ∈ ds, f.number = d.number ∧ f.name = d.name ∧ baseTypeMap.lookup (upperA d.type) = some f.ftype ∧ mkRealm f.ftype d.values = some f.realm
  | [], acc, acc', h, f, hf => by simp only [loadFields, Option.some.injEq] at h; subst h; exact Or.inl hf
  | d :: rest, acc, acc', h, f, hf => by
    simp only [loadFields] at h
    cases hb : baseTypeMap.lookup (upperA d.type) with
    | none =>
      simp only [hb] at h
      rcases loadFields_from rest acc acc' h f hf with h1 | ⟨d', hd', h2⟩
      · exact Or.inl h1
      · exact Or.inr ⟨d', by simp [hd'], h2⟩
    | some ft =>
      simp only [hb] at h
      cases hr : mkRealm ft d.values with
      | none => simp [hr] at h
      | some rl =>
        simp only [hr] at h
        rcases loadFields_from rest _ acc' h f hf with h1 | ⟨d', hd', h2⟩
        · rcases fspecInsert_mem _ f acc h1 with rfl | h1
          · exact Or.inr ⟨d, by simp, rfl, rfl, hb, hr⟩
          · exact Or.inl h1
        · exact Or.inr ⟨d', by simp [hd'], h2⟩

theorem msgInsert_spec (m : MsgSpec) : ∀ (ms ms' : List MsgSpec), msgInsert m ms = some ms' →
    (∀ x, x ∈ ms' ↔ x = m ∨ x ∈ ms) ∧ ((ms.map (·.key)).Pairwise (· < ·) → (ms'.map (·.key)).Pairwise (· < ·))
  | [], ms', h => by
    simp only [msgInsert, Option.some.injEq] at h; subst h; simp
  | x :: xs, ms', h => by
    simp only [msgInsert] at h
    by_cases h1 : m.key < x.key
    · simp only [h1, if_true, Option.some.injEq] at h; subst h
      refine ⟨by intro y; simp, ?_⟩
      intro hs
      simp only [List.map_cons] at hs
      have hx := List.pairwise_cons.mp hs
      simp only [List.map_cons]
      refine List.pairwise_cons.mpr ⟨?_, hs⟩
      intro a ha
      rcases List.mem_cons.mp ha with rfl | ha
      · exact h1
      · exact String.lt_trans h1 (hx.1 a ha)
    · simp only [h1, if_false] at h
      by_cases h2 : x.key < m.key
      · simp only [h2, if_true] at h
        cases hr : msgInsert m xs with
        | none => simp [hr] at h
        | some r =>
          simp only [hr, Option.map_some, Option.some.injEq] at h; subst h
          obtain ⟨hm, hsrt⟩ := msgInsert_spec m xs r hr
          refine ⟨?_, ?_⟩
          · intro y; simp only [List.mem_cons, hm y]
            constructor
            · rintro (h | h | h)
              · exact Or.inr (Or.inl h)
              · exact Or.inl h
              · exact Or.inr (Or.inr h)
            · rintro (h | h | h)
              · exact Or.inr (Or.inl h)
              · exact Or.inl h
              · exact Or.inr (Or.inr h)
          · intro hs
            simp only [List.map_cons] at hs
            have hx := List.pairwise_cons.mp hs
            simp only [List.map_cons]
            refine List.pairwise_cons.mpr ⟨?_, hsrt hx.2⟩
            intro a ha
            obtain ⟨y, hy, rfl⟩ := List.mem_map.mp ha
            rcases (hm y).mp hy with rfl | hy
            · exact h2
            · exact hx.1 y.key (List.mem_map.mpr ⟨y, hy, rfl⟩)
      · simp [h2] at h

/-! ### load_messages -/

/-- where a loaded entry of the message table comes from -/
def Src (s : Schema) (key name : String) (admin : Bool) (depth : Nat) (body : List Elem) : Prop :=
  (key = "header" ∧ name = "header" ∧ admin = false ∧ depth = 2 ∧ body = s.header) ∨
  (key = "trailer" ∧ name = "trailer" ∧ admin = false ∧ depth = 2 ∧ body = s.trailer) ∨
  (∃ d ∈ s.msgs, key = d.msgtype ∧ name = d.name ∧ admin = (lowerA d.msgcat == "admin") ∧ depth = 3 ∧ body = d.body)

def MsgOrigin (s : Schema) (c : Ctx) (m : MsgSpec) : Prop :=
  ∃ depth body pb, expBody s depth body = some pb ∧ parseMsgBody c pb = some m.lvl ∧ Src s m.key m.name m.admin depth body

def AccInv (s : Schema) (c : Ctx) (acc : List MsgSpec × List (Nat × GSpec)) : Prop :=
  (acc.1.map (·.key)).Pairwise (· < ·) ∧ Closed acc.2 ∧ (∀ o ∈ acc.2, GoodSpec c o.2) ∧
    ∀ m ∈ acc.1, MsgOrigin s c m ∧ ∀ g ∈ m.lvl.gs, g ∈ acc.2

theorem closed_append (a b : List (Nat × GSpec)) (ha : Closed a) (hb : Closed b) : Closed (a ++ b) := by
  intro o ho x hx
  rcases List.mem_append.mp ho with ho | ho
  · exact List.mem_append.mpr (Or.inl (ha o ho x hx))
  · exact List.mem_append.mpr (Or.inr (hb o ho x hx))

theorem loadOne_inv (s : Schema) (c : Ctx) (rl : Realm) (acc acc' : List MsgSpec × List (Nat × GSpec))
    (key name : String) (admin isMsg : Bool) (depth : Nat) (body : List Elem)
    (h : loadOne s c rl (some acc) key name admin isMsg depth body = some acc')
    (hsrc : Src s key name admin depth body) (hinv : AccInv s c acc) : AccInv s c acc' := by
  obtain ⟨ms, oc⟩ := acc
  simp only [loadOne] at h
  split at h
  · simp at h
  · cases he : expBody s depth body with
    | none => simp [he] at h
    | some pb =>
      simp only [he] at h
      cases hp : parseMsgBody c pb with
      | none => simp [hp] at h
      | some l =>
        simp only [hp] at h
        cases hm : msgInsert ⟨key, name, admin, l⟩ ms with
        | none => simp [hm] at h
        | some ms' =>
          simp only [hm, Option.some.injEq] at h
          subst h
          obtain ⟨hmem, hsrt⟩ := msgInsert_spec _ ms ms' hm
          obtain ⟨h1, h2, h3, h4⟩ := hinv
          obtain ⟨c1, c2, c3⟩ := parseMsgBody_closed c pb l hp
          refine ⟨hsrt h1, closed_append _ _ h2 c1, ?_, ?_⟩
          · intro o ho
            rcases List.mem_append.mp ho with ho | ho
            · exact h3 o ho
            · exact c2 o ho
          · intro m hmm
            rcases (hmem m).mp hmm with rfl | hmm
            · exact ⟨⟨depth, body, pb, he, hp, hsrc⟩, fun g hg => List.mem_append.mpr (Or.inr (c3 g hg))⟩
            · exact ⟨(h4 m hmm).1, fun g hg => List.mem_append.mpr (Or.inl ((h4 m hmm).2 g hg))⟩

theorem loadOne_none (s : Schema) (c : Ctx) (rl : Realm) (key name : String) (admin isMsg : Bool) (depth : Nat) (body : List Elem) :
    loadOne s c rl none key name admin isMsg depth body = none := rfl

theorem foldl_loadOne_none (s : Schema) (c : Ctx) (rl : Realm) : ∀ (ds : List MsgDef),
    ds.foldl (fun acc m => loadOne s c rl acc m.msgtype m.name (lowerA m.msgcat == "admin") true 3 m.body) none = none
  | [] => rfl
  | d :: rest => by simp only [List.foldl_cons, loadOne_none]; exact foldl_loadOne_none s c rl rest

theorem foldl_loadOne_inv (s : Schema) (c : Ctx) (rl : Realm) : ∀ (ds : List MsgDef) (acc : Option (List MsgSpec × List (Nat × GSpec)))
    (acc' : List MsgSpec × List (Nat × GSpec)), (∀ d ∈ ds, d ∈ s.msgs) →
    ds.foldl (fun acc m => loadOne s c rl acc m.msgtype m.name (lowerA m.msgcat == "admin") true 3 m.body) acc = some acc' →
    (∀ a, acc = some a → AccInv s c a) → AccInv s c acc'
  | [], acc, acc', _, h, hinv => by simp only [List.foldl_nil] at h; exact hinv acc' h
  | d :: rest, acc, acc', hds, h, hinv => by
    simp only [List.foldl_cons] at h
    cases acc with
    | none => rw [loadOne_none, foldl_loadOne_none] at h; simp at h
    | some a =>
      refine foldl_loadOne_inv s c rl rest _ acc' (fun x hx => hds x (by simp [hx])) h ?_
      intro a1 ha1
      exact loadOne_inv s c rl a a1 _ _ _ _ _ _ ha1
        (Or.inr (Or.inr ⟨d, hds d (by simp), rfl, rfl, rfl, rfl, rfl⟩)) (hinv a rfl)

/-- what `load` establishes -/
theorem load_spec (s : Schema) (l : Loaded) (h : load s = some l) :
    SortedNums l.ctx.fspec ∧ loadFields s.fields [] = some l.ctx.fspec ∧ AccInv s l.ctx (l.msgs, l.occs) := by
  unfold load at h
  split at h
  · simp at h
  · split at h
    · simp at h
    · cases hf : loadFields s.fields [] with
      | none => simp [hf] at h
      | some fspec =>
        simp only [hf] at h
        split at h
        · simp at h
        · cases h35 : List.find? (fun f => f.number == tagMsgType) fspec with
          | none => simp [h35] at h
          | some f35 =>
            simp only [h35] at h
            cases hrl : f35.realm with
            | none => simp [hrl] at h
            | some rl =>
              simp only [hrl] at h
              split at h
              · simp at h
              · simp only [Option.map_eq_some_iff] at h
                obtain ⟨r, hr, rfl⟩ := h
                have hsorted := loadFields_sorted s.fields [] fspec hf (by simp [SortedNums])
                refine ⟨hsorted, rfl, ?_⟩
                generalize hc : (⟨fspec, s.comps.foldl (fun acc p => strInsert p.1 acc) []⟩ : Ctx) = c at hr
                -- header, trailer, messages
                cases h0 : loadOne s c rl (some ([], [])) "header" "header" false false 2 s.header with
                | none => rw [h0, loadOne_none, foldl_loadOne_none] at hr; simp at hr
                | some a0 =>
                  rw [h0] at hr
                  have i0 : AccInv s c a0 := loadOne_inv s c rl ([], []) a0 _ _ _ _ _ _ h0 (Or.inl ⟨rfl, rfl, rfl, rfl, rfl⟩)
                    ⟨by simp, by intro o ho; simp at ho, by intro o ho; simp at ho, by intro m hm; simp at hm⟩
                  cases h1 : loadOne s c rl (some a0) "trailer" "trailer" false false 2 s.trailer with
                  | none => rw [h1, foldl_loadOne_none] at hr; simp at hr
                  | some a1 =>
                    rw [h1] at hr
                    have i1 : AccInv s c a1 := loadOne_inv s c rl a0 a1 _ _ _ _ _ _ h1 (Or.inr (Or.inl ⟨rfl, rfl, rfl, rfl, rfl⟩)) i0
                    exact foldl_loadOne_inv s c rl s.msgs (some a1) r (fun d hd => hd) hr (fun a ha => by cases ha; exact i1)

/-! ### emission -/

theorem findGroup_mem (occs : List (Nat × GSpec)) (t : Nat) (k : W) (e : CGEntry) (h : findGroup (buildMap occs) t k = some e) :
    (t, e.spec) ∈ occs :=
  findSpec_buildMap_mem occs t k e.spec (by simp [findSpec, h])

theorem optMapGroups_forall (f : Nat → GSpec → Option GSpec) : ∀ (gs r : List (Nat × GSpec)), optMapGroups f gs = some r →
    ∀ x ∈ r, ∃ g ∈ gs, x.1 = g.1 ∧ f g.1 g.2 = some x.2
  | [], r, h, x, hx => by simp only [optMapGroups, Option.some.injEq] at h; subst h; simp at hx
  | (t, g) :: rest, r, h, x, hx => by
    simp only [optMapGroups] at h
    cases h1 : f t g with
    | none => simp [h1] at h
    | some g' =>
      cases h2 : optMapGroups f rest with
      | none => simp [h1, h2] at h
      | some r' =>
        simp only [h1, h2, Option.some.injEq] at h
        subst h
        rcases List.mem_cons.mp hx with rfl | hx
        · exact ⟨(t, g), by simp, rfl, h1⟩
        · obtain ⟨y, hy, h3⟩ := optMapGroups_forall f rest r' h2 x hx
          exact ⟨y, by simp [hy], h3⟩

/-- every level of what is generated for a group is the trait array of some stored definition -/
theorem resolve_levels (occs : List (Nat × GSpec)) (P : List Trait → Prop) (hP : ∀ o ∈ occs, P o.2.traits) :
    ∀ (fuel t : Nat) (s r : GSpec), resolve (buildMap occs) fuel t s = some r → AllLevels P r
  | 0, _, _, _, h => by simp [resolve] at h
  | fuel + 1, t, s, r, h => by
    simp only [resolve] at h
    cases hf : findGroup (buildMap occs) t (probeKey (buildMap occs) t s) with
    | none => simp [hf] at h
    | some e =>
      simp only [hf, Option.map_eq_some_iff] at h
      obtain ⟨gs', hgs, rfl⟩ := h
      have hm := findGroup_mem occs t _ e hf
      simp only [AllLevels]
      refine ⟨hP _ hm, (allLevelsL_iff P gs').mpr ?_⟩
      intro x hx
      obtain ⟨g, _, _, hr⟩ := optMapGroups_forall _ _ _ hgs x hx
      exact resolve_levels occs P hP fuel g.1 g.2 x.2 hr

/-- element-wise relation of two lists -/
inductive Rel2 {α β : Type} (R : α → β → Prop) : List α → List β → Prop
  | nil : Rel2 R [] []
  | cons {a b l r} : R a b → Rel2 R l r → Rel2 R (a :: l) (b :: r)

theorem optMapM_forall {α β : Type} (f : α → Option β) : ∀ (l : List α) (r : List β), optMapM f l = some r →
    Rel2 (fun a b => f a = some b) l r
  | [], r, h => by simp only [optMapM, Option.some.injEq] at h; subst h; exact Rel2.nil
  | a :: rest, r, h => by
    simp only [optMapM] at h
    cases h1 : f a with
    | none => simp [h1] at h
    | some b =>
      cases h2 : optMapM f rest with
      | none => simp [h1, h2] at h
      | some r' =>
        simp only [h1, h2, Option.some.injEq] at h
        subst h
        exact Rel2.cons h1 (optMapM_forall f rest r' h2)

theorem forall₂_mem_right {α β : Type} {R : α → β → Prop} : ∀ {l : List α} {r : List β}, Rel2 R l r → ∀ b ∈ r, ∃ a ∈ l, R a b
  | _, _, .nil, b, hb => by simp at hb
  | _, _, .cons h t, b, hb => by
    rcases List.mem_cons.mp hb with rfl | hb
    · exact ⟨_, by simp, h⟩
    · obtain ⟨a, ha, hr⟩ := forall₂_mem_right t b hb
      exact ⟨a, by simp [ha], hr⟩

theorem forall₂_mem_left {α β : Type} {R : α → β → Prop} : ∀ {l : List α} {r : List β}, Rel2 R l r → ∀ a ∈ l, ∃ b ∈ r, R a b
  | _, _, .nil, a, ha => by simp at ha
  | _, _, .cons h t, a, ha => by
    rcases List.mem_cons.mp ha with rfl | ha
    · exact ⟨_, by simp, h⟩
    · obtain ⟨b, hb, hr⟩ := forall₂_mem_left t a ha
      exact ⟨b, by simp [hb], hr⟩

theorem forall₂_map_eq {α β γ : Type} {R : α → β → Prop} (f : α → γ) (g : β → γ) (hfg : ∀ a b, R a b → f a = g b) :
    ∀ {l : List α} {r : List β}, Rel2 R l r → l.map f = r.map g
  | _, _, .nil => rfl
  | _, _, .cons h t => by simp [hfg _ _ h, forall₂_map_eq f g hfg t]

theorem le_maxDepth_aux : ∀ (occs : List (Nat × GSpec)) (d : Nat), d ≤ occs.foldl (fun d o => max d o.2.depth) d ∧
    ∀ o ∈ occs, o.2.depth ≤ occs.foldl (fun d o => max d o.2.depth) d
  | [], d => by simp
  | x :: xs, d => by
    simp only [List.foldl_cons]
    have ih := le_maxDepth_aux xs (max d x.2.depth)
    refine ⟨Nat.le_trans (Nat.le_max_left _ _) ih.1, ?_⟩
    intro o ho
    rcases List.mem_cons.mp ho with rfl | ho
    · exact Nat.le_trans (Nat.le_max_right _ _) ih.1
    · exact ih.2 o ho

theorem le_maxDepth (occs : List (Nat × GSpec)) (o : Nat × GSpec) (h : o ∈ occs) : o.2.depth ≤ maxDepth occs :=
  (le_maxDepth_aux occs 0).2 o h

theorem processOrdering_tags (ts : List Trait) : (processOrdering ts).map (·.tag) = ts.map (·.tag) := by
  simp [processOrdering, List.map_map, Function.comp_def]

/-! ### enumerated domains -/

theorem RVal.lt_trans (a b c : RVal) (h1 : a.lt b = true) (h2 : b.lt c = true) : a.lt c = true := by
  cases a <;> cases b <;> cases c <;> simp [RVal.lt] at h1 h2 ⊢
  · omega
  · exact String.lt_trans h1 h2

/-- domain tables are strictly ordered by value -/
def SortedR (l : List (RVal × String)) : Prop := l.Pairwise (fun a b => a.1.lt b.1 = true)

theorem realmInsert_mem (v : RVal) (d : String) : ∀ (l : List (RVal × String)) (x : RVal × String), x ∈ realmInsert v d l → x = (v, d) ∨ x ∈ l
  | [], x, h => by simp [realmInsert] at h; exact Or.inl h
  | (w, dw) :: rest, x, h => by
    simp only [realmInsert] at h
    split at h
    · simp only [List.mem_cons] at h
      rcases h with h | h | h
      · exact Or.inl h
      · exact Or.inr (by simp [h])
      · exact Or.inr (by simp [h])
    · split at h
      · simp only [List.mem_cons] at h
        rcases h with h | h
        · exact Or.inr (by simp [h])
        · rcases realmInsert_mem v d rest x h with h | h
          · exact Or.inl h
          · exact Or.inr (by simp [h])
      · exact Or.inr h

theorem realmInsert_sorted (v : RVal) (d : String) : ∀ (l : List (RVal × String)), SortedR l → SortedR (realmInsert v d l)
  | [], _ => by simp [realmInsert, SortedR]
  | (w, dw) :: rest, hs => by
    have hx := List.pairwise_cons.mp hs
    simp only [realmInsert]
    split
    · rename_i hvw
      refine List.pairwise_cons.mpr ⟨?_, hs⟩
      intro a ha
      rcases List.mem_cons.mp ha with rfl | ha
      · exact hvw
      · exact RVal.lt_trans _ _ _ hvw (hx.1 a ha)
    · split
      · rename_i _ hwv
        refine List.pairwise_cons.mpr ⟨?_, realmInsert_sorted v d rest hx.2⟩
        intro a ha
        rcases realmInsert_mem v d rest a ha with rfl | ha
        · exact hwv
        · exact hx.1 a ha
      · exact hs

theorem mkRealm_sorted (ft : Nat) (vs : List ValueDef) (r : Realm) (h : mkRealm ft vs = some (some r)) : SortedR r.vals := by
  cases vs with
  | nil => simp [mkRealm] at h
  | cons v0 rest =>
    simp only [mkRealm, Option.map_eq_some_iff] at h
    obtain ⟨r', hr, he⟩ := h
    cases he
    -- invariant of the fold
    have key : ∀ (vs : List ValueDef) (acc : Option Realm) (r : Realm),
        (∀ a, acc = some a → SortedR a.vals) →
        vs.foldl (fun (acc : Option Realm) (v : ValueDef) =>
          match acc, mkRVal ft v.enum with
          | some r, some rv =>
            some { r with isRange := r.isRange || (v.range == "lower" || v.range == "upper"),
                          vals := realmInsert rv (if v.desc.isEmpty then v.enum else v.desc) r.vals }
          | _, _ => none) acc = some r → SortedR r.vals := by
      intro vs
      induction vs with
      | nil => intro acc r hacc h; simp only [List.foldl_nil] at h; exact hacc r h
      | cons v rest ih =>
        intro acc r hacc h
        simp only [List.foldl_cons] at h
        refine ih _ r ?_ h
        intro a ha
        cases acc with
        | none => simp at ha
        | some a0 =>
          cases hm : mkRVal ft v.enum with
          | none => simp [hm] at ha
          | some rv =>
            simp only [hm, Option.some.injEq] at ha
            subst ha
            exact realmInsert_sorted _ _ _ (hacc a0 rfl)
    exact key (v0 :: rest) (some ⟨false, ft, []⟩) r (by intro a ha; cases ha; simp [SortedR]) hr

end Fix8Model.Compiler
