import Fix8Model.Gen.F8cFacts
/-!
Model of the group-sharing machinery of the schema compiler f8c (C14; used by the C13 pipeline model).

* `rothash`            include/fix8/f8utils.hpp:230  on 32-bit words (`unsigned`)
* `groupHash`          compiler/f8c.cpp:1539 `group_hash`: fold of `rothash` over the field numbers of the presence set
                       (a `presorted_set` ordered by tag), then over the hashes of the nested groups (`GroupMap` = `std::map`
                       ordered by count tag), each nested hash computed separately from 0
* `CGMap`              `CommonGroupMap` = map count tag -> (`CommonGroups` = map hash -> MessageSpec).  `std::map` is modelled as
                       an association list with unique keys (iteration order is not observable in the generated metadata;
                       it only numbers the `V<n>` names of shared trait arrays)
* `goodSlot`, `probeLoop`, `probe`   the probing loop of the fixed `parse_groups` (f8c.cpp:674-679):
                       `for (hv = group_hash(spec); find(hv) != end && !same_group_definition(found, spec); ++hv);` on `uint32_t`
                       (wraps).  `same_group_definition` (deep comparison of the presence rows fnum/ftype/pos/component/bits and,
                       recursively, of the nested groups with their count tags) is `GSpec.beq`, which is equality (`beq_eq`, `beq_refl`).
                       The C++ loop has no bound; the model gives it `entries + 1` steps of fuel and `probe_exits`
                       (GroupHashLemmas) shows that a table with fewer than 2^32 entries never exhausts it.
* `cgInsert`           f8c.cpp:671-686: the spec is inserted under the probed key (no-op when the key already holds the
                       identical definition), then the reference count of that entry is incremented
* `probeKey`           the `_hash` member of a group spec.  f8c stores the probed key in the spec (`_hash = hv`, line 680) and
                       `generate_group_bodies` looks the group up under that stored key.  The model does not carry the member: it
                       recomputes the key against the FINAL map; `probe_stable` (GroupHashLemmas) proves that the key a definition
                       received when it was inserted is the key the probe finds in every later state of the map.
* `findGroup`          f8c.cpp `find_group`
* `resolve`            what `generate_group_bodies` emits for one group of one message: the traits of
                       `find_group(count tag, _hash)` and, for its nested groups, recursively the looked-up specs of the nested
                       groups OF THE LOOKED-UP SPEC (`generate_group_bodies(*tgroup, ...)`)

This is the compiler AFTER the fix "f8c shares generated group traits only between identical definitions" (before it the key was
the bare `group_hash` and the first definition stored under a hash was generated for every colliding one).
The option `--noshared` (every hash unique) is not modelled: the checks never pass it.
-/
namespace Fix8Model.Compiler
open Fix8Model.Gen

/-- one row of a generated `FieldTrait` array: `{ fnum, ftype, pos, component, trait bits }` -/
structure Trait where
  tag : Nat
  ftype : Nat
  pos : Nat
  comp : Nat
  flags : Nat
deriving DecidableEq, Repr, Inhabited

/-- a group (or message body) as the compiler holds it after parsing (`MessageSpec`): the presence set ordered by tag and
the nested groups ordered by count tag -/
inductive GSpec where
  | mk (traits : List Trait) (groups : List (Nat × GSpec))
deriving Repr, Inhabited

namespace GSpec
def traits : GSpec → List Trait | .mk t _ => t
def groups : GSpec → List (Nat × GSpec) | .mk _ g => g
end GSpec

mutual
def GSpec.beq : GSpec → GSpec → Bool
  | .mk t1 g1, .mk t2 g2 => decide (t1 = t2) && GSpec.beqList g1 g2
def GSpec.beqList : List (Nat × GSpec) → List (Nat × GSpec) → Bool
  | [], [] => true
  | (n1, a) :: r1, (n2, b) :: r2 => decide (n1 = n2) && GSpec.beq a b && GSpec.beqList r1 r2
  | _, _ => false
end

mutual
theorem GSpec.beq_eq : ∀ (a b : GSpec), GSpec.beq a b = true → a = b
  | .mk t1 g1, .mk t2 g2, h => by
    simp only [GSpec.beq, Bool.and_eq_true, decide_eq_true_eq] at h
    rw [h.1, GSpec.beqList_eq g1 g2 h.2]
theorem GSpec.beqList_eq : ∀ (a b : List (Nat × GSpec)), GSpec.beqList a b = true → a = b
  | [], [], _ => rfl
  | (n1, a) :: r1, (n2, b) :: r2, h => by
    simp only [GSpec.beqList, Bool.and_eq_true, decide_eq_true_eq] at h
    rw [h.1.1, GSpec.beq_eq a b h.1.2, GSpec.beqList_eq r1 r2 h.2]
  | [], _ :: _, h => by simp [GSpec.beqList] at h
  | _ :: _, [], h => by simp [GSpec.beqList] at h
end

mutual
theorem GSpec.beq_refl : ∀ (a : GSpec), GSpec.beq a a = true
  | .mk t g => by simp [GSpec.beq, GSpec.beqList_refl g]
theorem GSpec.beqList_refl : ∀ (a : List (Nat × GSpec)), GSpec.beqList a a = true
  | [] => rfl
  | (n, a) :: r => by simp [GSpec.beqList, GSpec.beq_refl a, GSpec.beqList_refl r]
end

instance : DecidableEq GSpec := fun a b =>
  if h : GSpec.beq a b = true then isTrue (GSpec.beq_eq a b h)
  else isFalse (fun e => h (e ▸ GSpec.beq_refl a))

abbrev W := BitVec 32

/-- the GF(2)-linear part of `rothash`: `r ^ (r >> 2) ^ (r << 5) ^ (r << 13)` -/
def rhLin (r : W) : W := r ^^^ (r >>> rhShr) ^^^ (r <<< rhShl1) ^^^ (r <<< rhShl2)

/-- `rothash(result, value)`: `result ^= (result >> 2) ^ (result << 5) ^ (result << 13) ^ value ^ 0x80001801` -/
def rothash (r v : W) : W :=
  r ^^^ ((r >>> rhShr) ^^^ (r <<< rhShl1) ^^^ (r <<< rhShl2) ^^^ v ^^^ BitVec.ofNat 32 rhConst)

/-- the first loop of `group_hash`: fold over field numbers (`_fnum` is an `unsigned short` widened to `unsigned`) -/
def foldTags (r : W) (tags : List Nat) : W := tags.foldl (fun r t => rothash r (BitVec.ofNat 32 t)) r

/-- the last member tag that makes the plain definition `ys ++ [·]` collide with `xs ++ [x]`
(`Props.C14.C14_key_collision_any`); used by the check to manufacture colliding definitions -/
def partner (xs ys : List Nat) (x : Nat) : Nat :=
  (BitVec.ofNat 32 x ^^^ rhLin (foldTags 0 xs ^^^ foldTags 0 ys)).toNat

mutual
/-- `group_hash(const MessageSpec&)` -/
def groupHash : GSpec → W
  | .mk ts gs => groupsFold (foldTags 0 (ts.map (·.tag))) gs
/-- the second loop of `group_hash`: `result = rothash(result, group_hash(nested))` in `GroupMap` order -/
def groupsFold (r : W) : List (Nat × GSpec) → W
  | [] => r
  | (_, g) :: rest => groupsFold (rothash r (groupHash g)) rest
end

/-- entry of `CommonGroups`: the stored spec (a copy made at insertion time), its key and `_group_refcnt` -/
structure CGEntry where
  key : W
  spec : GSpec
  refcnt : Nat
deriving Repr

abbrev CommonGroups := List CGEntry
/-- `CommonGroupMap`: count tag -> variants -/
abbrev CGMap := List (Nat × CommonGroups)

def cgFind (cg : CommonGroups) (k : W) : Option CGEntry := cg.find? (fun e => e.key == k)

/-- `cgitr->second.insert(make_pair(hv, spec))` followed by `find(hv)->_group_refcnt++` -/
def cgInsertVariants (cg : CommonGroups) (k : W) (s : GSpec) : CommonGroups :=
  match cg with
  | [] => [⟨k, s, 1⟩]
  | e :: rest => if e.key == k then { e with refcnt := e.refcnt + 1 } :: rest else e :: cgInsertVariants rest k s

/-- the spec stored under key `k`, if any -/
def cgSpec (cg : CommonGroups) (k : W) : Option GSpec := (cgFind cg k).map (·.spec)

/-- exit condition of the probing loop at key `k`: the slot is free or holds the identical definition
(`find(hv) == end || same_group_definition(found, spec)`) -/
def goodSlot (cg : CommonGroups) (s : GSpec) (k : W) : Bool :=
  match cgSpec cg k with
  | none => true
  | some x => GSpec.beq x s

/-- `for (; !good(hv); ++hv);` with fuel -/
def probeLoop (good : W → Bool) : Nat → W → W
  | 0, k => k
  | n + 1, k => if good k then k else probeLoop good n (k + 1)

/-- the key under which `s` is stored in / found in the variants `cg` of its count tag -/
def probe (cg : CommonGroups) (s : GSpec) : W := probeLoop (goodSlot cg s) (cg.length + 1) (groupHash s)

/-- the variants recorded for a count tag (`globmap.find(tag)`, empty when absent) -/
def variants (m : CGMap) (tag : Nat) : CommonGroups :=
  match m.find? (fun p => p.1 = tag) with
  | none => []
  | some p => p.2

/-- f8c.cpp:671-686 of `parse_groups` for one parsed group with count tag `tag` -/
def cgInsert (m : CGMap) (tag : Nat) (s : GSpec) : CGMap :=
  match m with
  | [] => [(tag, cgInsertVariants [] (probe [] s) s)]
  | (t, cg) :: rest => if t = tag then (t, cgInsertVariants cg (probe cg s) s) :: rest else (t, cg) :: cgInsert rest tag s

/-- `find_group(globmap, vers, tp, key)` (the version number only names the shared arrays) -/
def findGroup (m : CGMap) (tag : Nat) (k : W) : Option CGEntry := cgFind (variants m tag) k

/-- the `_hash` member of the spec `s` of a group with count tag `tag` (see the header) -/
def probeKey (m : CGMap) (tag : Nat) (s : GSpec) : W := probe (variants m tag) s

mutual
/-- all groups of a spec in the order `parse_groups` inserts them: nested groups first (post-order) -/
def occsOf : Nat → GSpec → List (Nat × GSpec)
  | tag, .mk ts gs => occsOfList gs ++ [(tag, .mk ts gs)]
def occsOfList : List (Nat × GSpec) → List (Nat × GSpec)
  | [] => []
  | (t, g) :: rest => occsOf t g ++ occsOfList rest
end

/-- the common group map after all groups `occs` (count tag, parsed spec) were inserted in this order -/
def buildMap (occs : List (Nat × GSpec)) : CGMap := occs.foldl (fun m o => cgInsert m o.1 o.2) []

/-- nesting depth of a spec -/
def GSpec.depth : GSpec → Nat
  | .mk _ gs => 1 + depthList gs
where depthList : List (Nat × GSpec) → Nat
  | [] => 0
  | (_, g) :: rest => max g.depth (depthList rest)

/-- `mapM` over the nested groups of a stored spec -/
def optMapGroups (f : Nat → GSpec → Option GSpec) : List (Nat × GSpec) → Option (List (Nat × GSpec))
  | [] => some []
  | (t, g) :: rest =>
    match f t g, optMapGroups f rest with
    | some g', some r' => some ((t, g') :: r')
    | _, _ => none

/-- what the generated code contains for the group `(tag, s)` of some message: the definition stored under
`(tag, _hash of s)`, nested groups resolved the same way from the STORED definition.  `none` = "not found" branch
(f8c.cpp:758, the group class is not generated).  Fuel bounds the nesting depth. -/
def resolve (m : CGMap) : Nat → Nat → GSpec → Option GSpec
  | 0, _, _ => none
  | fuel + 1, tag, s =>
    match findGroup m tag (probeKey m tag s) with
    | none => none
    | some e => (optMapGroups (resolve m fuel) e.spec.groups).map (GSpec.mk e.spec.traits)

end Fix8Model.Compiler
