import Fix8Model.Compiler.GroupHash
/-! Lemmas about `rothash` (GF(2)-affine in both arguments), the common group map and `resolve`. -/
namespace Fix8Model.Compiler
open Fix8Model.Gen

/-! ### rothash is affine over xor -/

theorem rhLin_xor (a b : W) : rhLin (a ^^^ b) = rhLin a ^^^ rhLin b := by
  unfold rhLin
  rw [BitVec.shiftLeft_xor_distrib, BitVec.shiftLeft_xor_distrib, BitVec.ushiftRight_xor_distrib]
  ac_rfl

theorem rhLin_zero : rhLin 0 = 0 := by decide

theorem rothash_eq (r v : W) : rothash r v = rhLin r ^^^ v ^^^ BitVec.ofNat 32 rhConst := by
  unfold rothash rhLin
  ac_rfl

/-- the constant cancels: the difference of two hashes is a linear image of the differences of the inputs -/
theorem rothash_xor (r r' v v' : W) : rothash r v ^^^ rothash r' v' = rhLin (r ^^^ r') ^^^ (v ^^^ v') := by
  rw [rothash_eq, rothash_eq, rhLin_xor]
  generalize rhLin r = a
  generalize rhLin r' = b
  generalize BitVec.ofNat 32 rhConst = c
  have : a ^^^ v ^^^ c ^^^ (b ^^^ v' ^^^ c) = (a ^^^ b ^^^ (v ^^^ v')) ^^^ (c ^^^ c) := by ac_rfl
  rw [this, BitVec.xor_self, BitVec.xor_zero]

theorem xor_eq_zero_iff (a b : W) : a ^^^ b = 0 ↔ a = b := BitVec.xor_eq_zero_iff

theorem xor_cancel_left (a b c : W) : a ^^^ b = c ↔ b = a ^^^ c := by
  constructor
  · intro h; rw [← h, ← BitVec.xor_assoc, BitVec.xor_self]; simp
  · intro h; rw [h, ← BitVec.xor_assoc, BitVec.xor_self]; simp

/-- THE collision lemma: whatever two running hashes `r r'` were reached (any prefixes, any nested groups folded so far)
and whatever value `v` is folded into the first, there is exactly one value `v'` that makes the second collide, and it is
computed by a shift-and-xor formula.  The check uses it to manufacture colliding definitions for the tags of a schema. -/
theorem rothash_collide (r r' v v' : W) : rothash r v = rothash r' v' ↔ v' = v ^^^ rhLin (r ^^^ r') := by
  rw [← xor_eq_zero_iff (rothash r v), rothash_xor]
  have e : rhLin (r ^^^ r') ^^^ (v ^^^ v') = (v ^^^ rhLin (r ^^^ r')) ^^^ v' := by ac_rfl
  rw [e, xor_cancel_left]
  simp

theorem foldTags_append (r : W) (xs ys : List Nat) : foldTags (foldTags r xs) ys = foldTags r (xs ++ ys) := by
  simp [foldTags, List.foldl_append]

theorem foldTags_snoc (r : W) (xs : List Nat) (x : Nat) : foldTags r (xs ++ [x]) = rothash (foldTags r xs) (BitVec.ofNat 32 x) := by
  simp [foldTags, List.foldl_append]

/-- difference of the hashes of two tag lists of the same length: linear in the tag differences (no constant) -/
def linFold (r : W) : List W → W
  | [] => r
  | d :: ds => linFold (rhLin r ^^^ d) ds

theorem foldTags_xor : ∀ (xs ys : List Nat) (r r' : W), xs.length = ys.length →
    foldTags r xs ^^^ foldTags r' ys = linFold (r ^^^ r') (List.zipWith (fun x y => BitVec.ofNat 32 x ^^^ BitVec.ofNat 32 y) xs ys)
  | [], [], r, r', _ => by simp [foldTags, linFold]
  | x :: xs, y :: ys, r, r', h => by
    have hl : xs.length = ys.length := by simpa using h
    have := foldTags_xor xs ys (rothash r (BitVec.ofNat 32 x)) (rothash r' (BitVec.ofNat 32 y)) hl
    simp only [foldTags, List.foldl_cons, List.zipWith_cons_cons, linFold] at this ⊢
    rw [this, rothash_xor]
  | [], _ :: _, _, _, h => by simp at h
  | _ :: _, [], _, _, h => by simp at h

/-! ### the hash sees only tags and nested hashes -/

theorem groupsFold_congr : ∀ (gs1 gs2 : List (Nat × GSpec)) (r : W),
    gs1.map (fun g => groupHash g.2) = gs2.map (fun g => groupHash g.2) → groupsFold r gs1 = groupsFold r gs2
  | [], [], _, _ => rfl
  | (_, a) :: r1, (_, b) :: r2, r, h => by
    simp only [List.map_cons, List.cons.injEq] at h
    simp only [groupsFold]
    rw [h.1]
    exact groupsFold_congr r1 r2 _ h.2
  | [], _ :: _, _, h => by simp at h
  | _ :: _, [], _, h => by simp at h

/-- `group_hash` is a function of the member TAGS (in tag order) and of the nested hashes only: types, positions
(= order of the members in the schema), component indices and all flags (mandatory!) of every member are invisible to it -/
theorem groupHash_congr (ts1 ts2 : List Trait) (gs1 gs2 : List (Nat × GSpec))
    (ht : ts1.map (·.tag) = ts2.map (·.tag)) (hg : gs1.map (fun g => groupHash g.2) = gs2.map (fun g => groupHash g.2)) :
    groupHash (.mk ts1 gs1) = groupHash (.mk ts2 gs2) := by
  simp only [groupHash]
  rw [ht]
  exact groupsFold_congr gs1 gs2 _ hg

/-- two strictly increasing lists with the same members are equal -/
theorem sorted_eq_of_mem (l1 l2 : List Nat) (h1 : l1.Pairwise (· < ·)) (h2 : l2.Pairwise (· < ·)) (h : ∀ x, x ∈ l1 ↔ x ∈ l2) : l1 = l2 := by
  have p : l1.Perm l2 := (List.perm_ext_iff_of_nodup (h1.imp (fun h => Nat.ne_of_lt h)) (h2.imp (fun h => Nat.ne_of_lt h))).mpr h
  exact List.Perm.eq_of_pairwise (le := (· < ·)) (fun a b _ _ hab hba => absurd hab (Nat.lt_asymm hba)) h1 h2 p

/-- presence sets are ordered by tag (`Props.C13.C13_group_rows`): the hash of a plain group is a function of its member SET -/
theorem groupHash_member_set (ts1 ts2 : List Trait) (gs : List (Nat × GSpec))
    (h1 : (ts1.map (·.tag)).Pairwise (· < ·)) (h2 : (ts2.map (·.tag)).Pairwise (· < ·))
    (h : ∀ x, x ∈ ts1.map (·.tag) ↔ x ∈ ts2.map (·.tag)) :
    groupHash (.mk ts1 gs) = groupHash (.mk ts2 gs) :=
  groupHash_congr ts1 ts2 gs gs (sorted_eq_of_mem _ _ h1 h2 h) rfl

/-! ### the common group map -/

theorem cgFind_cons (e : CGEntry) (rest : CommonGroups) (k' : W) :
    cgFind (e :: rest) k' = if e.key == k' then some e else cgFind rest k' := by
  simp only [cgFind, List.find?]
  cases e.key == k' <;> rfl

/-- effect of one `insert` + `refcnt++` on what is stored under each key -/
theorem cgSpec_insertVariants (cg : CommonGroups) (k : W) (s : GSpec) (k' : W) :
    cgSpec (cgInsertVariants cg k s) k' =
      match cgSpec cg k' with
      | some x => some x
      | none => if k = k' then some s else none := by
  unfold cgSpec
  induction cg with
  | nil =>
    simp only [cgInsertVariants, cgFind_cons]
    by_cases h : k = k'
    · simp [h, cgFind]
    · have : (k == k') = false := by simpa using h
      simp [this, h, cgFind]
  | cons e rest ih =>
    by_cases hk : (e.key == k) = true
    · have hins : cgInsertVariants (e :: rest) k s = { e with refcnt := e.refcnt + 1 } :: rest := by
        simp [cgInsertVariants, hk]
      have hek : e.key = k := by simpa using hk
      rw [hins, cgFind_cons, cgFind_cons]
      by_cases hk' : (e.key == k') = true
      · simp [hk']
      · have hk'f : (e.key == k') = false := by simpa using hk'
        have hne : k ≠ k' := by
          intro h; rw [← hek] at h; rw [h] at hk'f; simp at hk'f
        simp only [hk'f]
        cases hfind : cgFind rest k' with
        | some x => simp
        | none => simp [hne]
    · have hkf : (e.key == k) = false := by simpa using hk
      have hins : cgInsertVariants (e :: rest) k s = e :: cgInsertVariants rest k s := by
        simp [cgInsertVariants, hkf]
      rw [hins, cgFind_cons, cgFind_cons]
      by_cases hk' : (e.key == k') = true
      · simp [hk']
      · have hk'f : (e.key == k') = false := by simpa using hk'
        simp only [hk'f]
        exact ih

theorem cgInsertVariants_length (cg : CommonGroups) (k : W) (s : GSpec) :
    cg.length ≤ (cgInsertVariants cg k s).length ∧ (cgInsertVariants cg k s).length ≤ cg.length + 1 := by
  induction cg with
  | nil => simp [cgInsertVariants]
  | cons e rest ih =>
    simp only [cgInsertVariants]
    split
    · simp
    · simp only [List.length_cons]; omega

/-- an occupied key is the key of an entry -/
theorem cgFind_key_mem (cg : CommonGroups) (k : W) (e : CGEntry) (h : cgFind cg k = some e) : k ∈ cg.map (·.key) := by
  have hm := List.mem_of_find?_eq_some h
  have hp := List.find?_some h
  simp only [beq_iff_eq] at hp
  exact List.mem_map.mpr ⟨e, hm, hp⟩

/-! ### the probing loop -/

theorem probeLoop_spec (good : W → Bool) : ∀ (n : Nat) (k : W),
    ∃ j, j ≤ n ∧ probeLoop good n k = k + BitVec.ofNat 32 j ∧ (∀ i, i < j → good (k + BitVec.ofNat 32 i) = false) ∧
      (good (probeLoop good n k) = true ∨ j = n)
  | 0, k => ⟨0, Nat.le_refl 0, by simp [probeLoop], by intro i hi; omega, Or.inr rfl⟩
  | n + 1, k => by
    by_cases hg : good k = true
    · exact ⟨0, Nat.zero_le _, by simp [probeLoop, hg], by intro i hi; omega, Or.inl (by simp [probeLoop, hg])⟩
    · obtain ⟨j, hj, he, hb, hx⟩ := probeLoop_spec good n (k + 1)
      have hstep : probeLoop good (n + 1) k = probeLoop good n (k + 1) := by simp [probeLoop, hg]
      have hadd : ∀ i : Nat, k + 1 + BitVec.ofNat 32 i = k + BitVec.ofNat 32 (i + 1) := by
        intro i
        rw [BitVec.ofNat_add, BitVec.add_assoc, BitVec.add_comm (BitVec.ofNat 32 i)]
        rfl
      refine ⟨j + 1, by omega, by rw [hstep, he, hadd], ?_, ?_⟩
      · intro i hi
        cases i with
        | zero => simpa using hg
        | succ i => rw [← hadd]; exact hb i (by omega)
      · rw [hstep]
        rcases hx with hx | hx
        · exact Or.inl hx
        · exact Or.inr (by omega)

/-- the loop result is determined by the exit condition along the path -/
theorem probeLoop_eq (good : W → Bool) : ∀ (n : Nat) (k : W) (j : Nat), j < n →
    (∀ i, i < j → good (k + BitVec.ofNat 32 i) = false) → good (k + BitVec.ofNat 32 j) = true →
    probeLoop good n k = k + BitVec.ofNat 32 j
  | 0, _, _, hj, _, _ => by omega
  | n + 1, k, 0, _, _, hg => by
    have : good k = true := by simpa using hg
    simp [probeLoop, this]
  | n + 1, k, j + 1, hj, hb, hg => by
    have h0 : good k = false := by simpa using hb 0 (by omega)
    have hadd : ∀ i : Nat, k + 1 + BitVec.ofNat 32 i = k + BitVec.ofNat 32 (i + 1) := by
      intro i
      rw [BitVec.ofNat_add, BitVec.add_assoc, BitVec.add_comm (BitVec.ofNat 32 i)]
      rfl
    have := probeLoop_eq good n (k + 1) j (by omega) (fun i hi => by rw [hadd]; exact hb (i + 1) (by omega)) (by rw [hadd]; exact hg)
    simp only [probeLoop, h0, Bool.false_eq_true, if_false]
    rw [this, hadd]

/-- a list without duplicates that is contained in another is not longer -/
theorem nodup_subset_length {α : Type} [DecidableEq α] : ∀ (a b : List α), a.Nodup → (∀ x ∈ a, x ∈ b) → a.length ≤ b.length
  | [], _, _, _ => Nat.zero_le _
  | x :: xs, b, hn, hs => by
    have hx := List.nodup_cons.mp hn
    have hxb : x ∈ b := hs x (by simp)
    have ih := nodup_subset_length xs (b.erase x) hx.2 (by
      intro y hy
      have hyb := hs y (by simp [hy])
      have hne : y ≠ x := fun h => hx.1 (h ▸ hy)
      exact (List.mem_erase_of_ne hne).mpr hyb)
    rw [List.length_erase_of_mem hxb] at ih
    have : 0 < b.length := List.length_pos_of_mem hxb
    simp only [List.length_cons]; omega

theorem offsets_nodup (k : W) (n : Nat) (hn : n ≤ 2 ^ 32) :
    ((List.range n).map (fun i => k + BitVec.ofNat 32 i)).Nodup := by
  rw [List.Nodup, List.pairwise_map]
  have hr : (List.range n).Pairwise (· < ·) := List.pairwise_lt_range
  refine List.Pairwise.imp_of_mem ?_ hr
  intro a b ha hb hab heq
  have hb' : b < n := List.mem_range.mp hb
  have h1 := congrArg BitVec.toNat heq
  simp only [BitVec.toNat_add, BitVec.toNat_ofNat] at h1
  have hk := k.isLt
  omega

/-- BOUNDEDNESS of the probe: in a table with fewer than 2^32 entries the loop leaves through its own exit condition
(a free slot or the identical definition) after at most `entries` increments -/
theorem probe_exits (cg : CommonGroups) (s : GSpec) (hlen : cg.length < 2 ^ 32) :
    ∃ j, j ≤ cg.length ∧ probe cg s = groupHash s + BitVec.ofNat 32 j ∧
      (∀ i, i < j → goodSlot cg s (groupHash s + BitVec.ofNat 32 i) = false) ∧ goodSlot cg s (probe cg s) = true := by
  obtain ⟨j, hj, he, hb, hx⟩ := probeLoop_spec (goodSlot cg s) (cg.length + 1) (groupHash s)
  rcases hx with hx | hx
  · -- left through the exit condition; j ≤ length because otherwise all length+1 offsets were occupied
    by_cases hjl : j ≤ cg.length
    · exact ⟨j, hjl, he, hb, hx⟩
    · exfalso
      have hjn : j = cg.length + 1 := by omega
      have hsub : ∀ x ∈ (List.range (cg.length + 1)).map (fun i => groupHash s + BitVec.ofNat 32 i), x ∈ cg.map (·.key) := by
        intro x hxm
        obtain ⟨i, hi, rfl⟩ := List.mem_map.mp hxm
        have hbad := hb i (by rw [hjn]; exact List.mem_range.mp hi)
        unfold goodSlot cgSpec at hbad
        cases hf : cgFind cg (groupHash s + BitVec.ofNat 32 i) with
        | none => simp [hf] at hbad
        | some e => exact cgFind_key_mem cg _ e hf
      have := nodup_subset_length _ _ (offsets_nodup (groupHash s) (cg.length + 1) (by omega)) hsub
      simp at this
      omega
  · exfalso
    have hsub : ∀ x ∈ (List.range (cg.length + 1)).map (fun i => groupHash s + BitVec.ofNat 32 i), x ∈ cg.map (·.key) := by
      intro x hxm
      obtain ⟨i, hi, rfl⟩ := List.mem_map.mp hxm
      have hbad := hb i (by rw [hx]; exact List.mem_range.mp hi)
      unfold goodSlot cgSpec at hbad
      cases hf : cgFind cg (groupHash s + BitVec.ofNat 32 i) with
      | none => simp [hf] at hbad
      | some e => exact cgFind_key_mem cg _ e hf
    have := nodup_subset_length _ _ (offsets_nodup (groupHash s) (cg.length + 1) (by omega)) hsub
    simp at this
    omega

theorem goodSlot_true_iff (cg : CommonGroups) (s : GSpec) (k : W) :
    goodSlot cg s k = true ↔ (cgSpec cg k = none ∨ cgSpec cg k = some s) := by
  unfold goodSlot
  cases h : cgSpec cg k with
  | none => simp
  | some x =>
    simp only [false_or, reduceCtorEq, Option.some.injEq]
    constructor
    · exact GSpec.beq_eq x s
    · intro e; rw [e]; exact GSpec.beq_refl s

theorem goodSlot_false_iff (cg : CommonGroups) (s : GSpec) (k : W) :
    goodSlot cg s k = false ↔ ∃ x, cgSpec cg k = some x ∧ x ≠ s := by
  constructor
  · intro h
    cases hc : cgSpec cg k with
    | none => have := (goodSlot_true_iff cg s k).mpr (Or.inl hc); rw [h] at this; simp at this
    | some x =>
      refine ⟨x, rfl, ?_⟩
      intro e
      have := (goodSlot_true_iff cg s k).mpr (Or.inr (by rw [hc, e])); rw [h] at this; simp at this
  · intro ⟨x, hx, hne⟩
    cases hg : goodSlot cg s k with
    | false => rfl
    | true =>
      rcases (goodSlot_true_iff cg s k).mp hg with h | h
      · rw [hx] at h; simp at h
      · rw [hx] at h; exact absurd (Option.some.inj h) hne

/-- one insertion under a count tag -/
def ins (cg : CommonGroups) (s : GSpec) : CommonGroups := cgInsertVariants cg (probe cg s) s

/-- STABILITY of the key (this is what justifies recomputing `_hash` against the final map): a definition that is found
under its probed key keeps that key, and stays there, when any definition is inserted -/
theorem probe_stable (cg : CommonGroups) (s s' : GSpec) (hlen : cg.length < 2 ^ 32)
    (hs : cgSpec cg (probe cg s) = some s) :
    probe (ins cg s') s = probe cg s ∧ cgSpec (ins cg s') (probe cg s) = some s := by
  obtain ⟨j, hj, he, hb, _⟩ := probe_exits cg s hlen
  have hF : ∀ x, cgSpec (ins cg s') x = match cgSpec cg x with
      | some y => some y
      | none => if probe cg s' = x then some s' else none := cgSpec_insertVariants cg (probe cg s') s'
  have hkeep : ∀ x y, cgSpec cg x = some y → cgSpec (ins cg s') x = some y := by
    intro x y hxy; rw [hF x, hxy]
  have hlen' := (cgInsertVariants_length cg (probe cg s') s').1
  have h2 : cgSpec (ins cg s') (probe cg s) = some s := hkeep _ _ hs
  refine ⟨?_, h2⟩
  unfold probe
  have := probeLoop_eq (goodSlot (ins cg s') s) ((ins cg s').length + 1) (groupHash s) j
    (by unfold ins; omega)
    (by
      intro i hi
      obtain ⟨x, hx, hne⟩ := (goodSlot_false_iff cg s _).mp (hb i hi)
      exact (goodSlot_false_iff _ s _).mpr ⟨x, hkeep _ _ hx, hne⟩)
    (by
      rw [← he]
      exact (goodSlot_true_iff _ s _).mpr (Or.inr h2))
  rw [this]
  unfold probe at he
  exact he.symm

/-- the inserted definition is found under its probed key afterwards -/
theorem probe_inserted (cg : CommonGroups) (s : GSpec) (hlen : cg.length < 2 ^ 32) :
    probe (ins cg s) s = probe cg s ∧ cgSpec (ins cg s) (probe cg s) = some s := by
  obtain ⟨j, hj, he, hb, hg⟩ := probe_exits cg s hlen
  have hF : ∀ x, cgSpec (ins cg s) x = match cgSpec cg x with
      | some y => some y
      | none => if probe cg s = x then some s else none := cgSpec_insertVariants cg (probe cg s) s
  have hkeep : ∀ x y, cgSpec cg x = some y → cgSpec (ins cg s) x = some y := by
    intro x y hxy; rw [hF x, hxy]
  have hlen' := (cgInsertVariants_length cg (probe cg s) s).1
  have h2 : cgSpec (ins cg s) (probe cg s) = some s := by
    rcases (goodSlot_true_iff cg s _).mp hg with h | h
    · rw [hF, h]; simp
    · exact hkeep _ _ h
  refine ⟨?_, h2⟩
  unfold probe
  have := probeLoop_eq (goodSlot (ins cg s) s) ((ins cg s).length + 1) (groupHash s) j
    (by unfold ins; omega)
    (by
      intro i hi
      obtain ⟨x, hx, hne⟩ := (goodSlot_false_iff cg s _).mp (hb i hi)
      exact (goodSlot_false_iff _ s _).mpr ⟨x, hkeep _ _ hx, hne⟩)
    (by
      rw [← he]
      exact (goodSlot_true_iff _ s _).mpr (Or.inr h2))
  rw [this]
  unfold probe at he
  exact he.symm

/-- whatever is stored was inserted or was there before -/
theorem cgSpec_ins_mem (cg : CommonGroups) (s' : GSpec) (k : W) (x : GSpec) (h : cgSpec (ins cg s') k = some x) :
    cgSpec cg k = some x ∨ x = s' := by
  have hF := cgSpec_insertVariants cg (probe cg s') s' k
  unfold ins at h
  rw [hF] at h
  cases hc : cgSpec cg k with
  | some y => rw [hc] at h; exact Or.inl (by simpa using h)
  | none =>
    rw [hc] at h
    simp only at h
    split at h
    · exact Or.inr (Option.some.inj h).symm
    · simp at h

/-! ### the map of all count tags -/

theorem variants_insert (m : CGMap) (tag : Nat) (s : GSpec) (t : Nat) :
    variants (cgInsert m tag s) t = if t = tag then ins (variants m tag) s else variants m t := by
  induction m with
  | nil =>
    simp only [cgInsert, variants, List.find?]
    by_cases h : t = tag
    · subst h; simp [ins]
    · have : decide (tag = t) = false := by simpa using (fun e : tag = t => h e.symm)
      simp [this, h]
  | cons p rest ih =>
    obtain ⟨t0, cg⟩ := p
    simp only [cgInsert]
    by_cases h0 : t0 = tag
    · subst h0
      simp only [if_true]
      by_cases h : t = t0
      · subst h; simp [variants, List.find?, ins]
      · have hd : decide (t0 = t) = false := by simpa using (fun e : t0 = t => h e.symm)
        simp [variants, List.find?, hd, h]
    · simp only [h0, if_false]
      by_cases h1 : t0 = t
      · subst h1
        have hne : ¬ t0 = tag := h0
        simp [variants, List.find?, hne]
      · have hd : decide (t0 = t) = false := by simpa using h1
        have := ih
        simp only [variants, List.find?, hd] at this ⊢
        by_cases h2 : t = tag
        · subst h2
          simp only [if_true] at this ⊢
          have hd2 : decide (t0 = t) = false := hd
          simp only [hd2] at this ⊢
          exact this
        · simp only [h2, if_false] at this ⊢
          exact this

/-- spec stored under `(tag, key)` -/
def findSpec (m : CGMap) (tag : Nat) (k : W) : Option GSpec := (findGroup m tag k).map (·.spec)

theorem findSpec_eq (m : CGMap) (tag : Nat) (k : W) : findSpec m tag k = cgSpec (variants m tag) k := rfl

/-- fold of insertions starting from any map -/
def buildFrom (m : CGMap) (occs : List (Nat × GSpec)) : CGMap := occs.foldl (fun m o => cgInsert m o.1 o.2) m

/-- every count tag has at most as many variants as there were insertions -/
theorem variants_length_buildFrom : ∀ (occs : List (Nat × GSpec)) (m : CGMap) (n : Nat),
    (∀ t, (variants m t).length ≤ n) → ∀ t, (variants (buildFrom m occs) t).length ≤ n + occs.length
  | [], m, n, h, t => by simpa [buildFrom] using h t
  | o :: rest, m, n, h, t => by
    have := variants_length_buildFrom rest (cgInsert m o.1 o.2) (n + 1) (by
      intro t'
      rw [variants_insert]
      split
      · have := (cgInsertVariants_length (variants m o.1) (probe (variants m o.1) o.2) o.2).2
        have := h o.1
        unfold ins; omega
      · have := h t'; omega) t
    simp only [buildFrom, List.foldl_cons, List.length_cons] at this ⊢
    omega

/-- what is stored after the insertions was stored before or is one of the inserted definitions -/
theorem findSpec_buildFrom_mem : ∀ (occs : List (Nat × GSpec)) (m : CGMap) (t : Nat) (k : W) (x : GSpec),
    findSpec (buildFrom m occs) t k = some x → findSpec m t k = some x ∨ (t, x) ∈ occs
  | [], m, t, k, x, h => Or.inl (by simpa [buildFrom] using h)
  | o :: rest, m, t, k, x, h => by
    have := findSpec_buildFrom_mem rest (cgInsert m o.1 o.2) t k x (by simpa [buildFrom] using h)
    rcases this with h1 | h1
    · rw [findSpec_eq, variants_insert] at h1
      split at h1
      · rename_i ht
        rcases cgSpec_ins_mem _ _ _ _ h1 with h2 | h2
        · exact Or.inl (by rw [findSpec_eq, ht]; exact h2)
        · exact Or.inr (by rw [h2, ht]; simp)
      · exact Or.inl h1
    · exact Or.inr (by simp [h1])

theorem findSpec_buildMap_mem (occs : List (Nat × GSpec)) (t : Nat) (k : W) (x : GSpec)
    (h : findSpec (buildMap occs) t k = some x) : (t, x) ∈ occs := by
  rcases findSpec_buildFrom_mem occs [] t k x (by simpa [buildFrom, buildMap] using h) with h1 | h1
  · simp [findSpec, findGroup, variants, cgFind] at h1
  · exact h1

/-- INVARIANT of the fold: every definition inserted so far is found under its own probed key -/
theorem own_slot_buildFrom : ∀ (occs : List (Nat × GSpec)) (m : CGMap) (seen : List (Nat × GSpec)) (n : Nat),
    (∀ t, (variants m t).length ≤ n) → n + occs.length < 2 ^ 32 →
    (∀ o ∈ seen, findSpec m o.1 (probeKey m o.1 o.2) = some o.2) →
    ∀ o, (o ∈ seen ∨ o ∈ occs) → findSpec (buildFrom m occs) o.1 (probeKey (buildFrom m occs) o.1 o.2) = some o.2
  | [], m, seen, n, _, _, hinv, o, ho => by
    rcases ho with ho | ho
    · simpa [buildFrom] using hinv o ho
    · simp at ho
  | p :: rest, m, seen, n, hlen, hb, hinv, o, ho => by
    have hl1 : ∀ t, (variants (cgInsert m p.1 p.2) t).length ≤ n + 1 := by
      intro t'
      rw [variants_insert]
      split
      · have := (cgInsertVariants_length (variants m p.1) (probe (variants m p.1) p.2) p.2).2
        have := hlen p.1
        unfold ins; omega
      · have := hlen t'; omega
    have hcg : (variants m p.1).length < 2 ^ 32 := by
      have := hlen p.1; simp only [List.length_cons] at hb; omega
    have hinv' : ∀ q ∈ p :: seen, findSpec (cgInsert m p.1 p.2) q.1 (probeKey (cgInsert m p.1 p.2) q.1 q.2) = some q.2 := by
      intro q hq
      simp only [findSpec_eq, probeKey, variants_insert]
      rcases List.mem_cons.mp hq with rfl | hq
      · simp only [if_true]
        have := probe_inserted (variants m q.1) q.2 hcg
        rw [this.1]; exact this.2
      · by_cases ht : q.1 = p.1
        · simp only [ht, if_true]
          have h0 := hinv q hq
          simp only [findSpec_eq, probeKey, ht] at h0
          have := probe_stable (variants m p.1) q.2 p.2 hcg h0
          rw [this.1]; exact this.2
        · simp only [ht, if_false]
          exact hinv q hq
    have := own_slot_buildFrom rest (cgInsert m p.1 p.2) (p :: seen) (n + 1) hl1
      (by simp only [List.length_cons] at hb; omega) hinv' o (by
        rcases ho with ho | ho
        · exact Or.inl (by simp [ho])
        · rcases List.mem_cons.mp ho with rfl | ho
          · exact Or.inl (by simp)
          · exact Or.inr ho)
    simpa [buildFrom] using this

/-- after all insertions every definition is found under its own key – no hypothesis on the hash -/
theorem findSpec_own (occs : List (Nat × GSpec)) (hb : occs.length < 2 ^ 32) (o : Nat × GSpec) (ho : o ∈ occs) :
    findSpec (buildMap occs) o.1 (probeKey (buildMap occs) o.1 o.2) = some o.2 := by
  have := own_slot_buildFrom occs [] [] 0 (by intro t; simp [variants]) (by omega) (by intro o ho; simp at ho) o (Or.inr ho)
  simpa [buildFrom, buildMap] using this

/-! ### resolve -/

/-- every nested group of a listed group is listed (true of the insertion sequence of `parse_groups`) -/
def Closed (occs : List (Nat × GSpec)) : Prop := ∀ o ∈ occs, ∀ g ∈ o.2.groups, g ∈ occs

/-- the bare hash separates the definitions of every count tag (no longer needed for anything; kept to state what the
key alone does and does not guarantee) -/
def HashInjOn (occs : List (Nat × GSpec)) : Prop :=
  ∀ a ∈ occs, ∀ b ∈ occs, a.1 = b.1 → groupHash a.2 = groupHash b.2 → a.2 = b.2

theorem findGroup_of_findSpec (m : CGMap) (t : Nat) (k : W) (s : GSpec) (h : findSpec m t k = some s) :
    ∃ e, findGroup m t k = some e ∧ e.spec = s := by
  unfold findSpec at h
  cases hg : findGroup m t k with
  | none => rw [hg] at h; simp at h
  | some e => rw [hg] at h; simp at h; exact ⟨e, rfl, h⟩

theorem optMapGroups_id (f : Nat → GSpec → Option GSpec) : ∀ (gs : List (Nat × GSpec)),
    (∀ g ∈ gs, f g.1 g.2 = some g.2) → optMapGroups f gs = some gs
  | [], _ => rfl
  | (t, g) :: rest, h => by
    have h1 := h (t, g) (by simp)
    have h2 := optMapGroups_id f rest (fun x hx => h x (by simp [hx]))
    simp only [optMapGroups]
    simp only at h1
    rw [h1, h2]

theorem depthList_le : ∀ (gs : List (Nat × GSpec)) (g : Nat × GSpec), g ∈ gs → g.2.depth ≤ GSpec.depth.depthList gs
  | [], _, h => by simp at h
  | (t, x) :: rest, g, h => by
    simp only [GSpec.depth.depthList]
    rcases List.mem_cons.mp h with h | h
    · subst h; exact Nat.le_max_left _ _
    · exact Nat.le_trans (depthList_le rest g h) (Nat.le_max_right _ _)

theorem depth_nested (s : GSpec) (g : Nat × GSpec) (h : g ∈ s.groups) : g.2.depth + 1 ≤ s.depth := by
  cases s with
  | mk ts gs =>
    simp only [GSpec.groups] at h
    simp only [GSpec.depth]
    have := depthList_le gs g h
    omega

theorem GSpec.eta (s : GSpec) : GSpec.mk s.traits s.groups = s := by cases s; rfl

/-- every group of every message is generated from its own definition, at every nesting depth, for every closed insertion
sequence of fewer than 2^32 groups -/
theorem resolve_own (occs : List (Nat × GSpec)) (hcl : Closed occs) (hb : occs.length < 2 ^ 32) :
    ∀ (fuel : Nat) (o : Nat × GSpec), o ∈ occs → o.2.depth ≤ fuel → resolve (buildMap occs) fuel o.1 o.2 = some o.2
  | 0, o, _, hd => by
    cases hs : o.2 with
    | mk ts gs => rw [hs] at hd; simp [GSpec.depth] at hd
  | fuel + 1, o, ho, hd => by
    obtain ⟨e, he, hes⟩ := findGroup_of_findSpec _ _ _ _ (findSpec_own occs hb o ho)
    simp only [resolve, he]
    rw [hes]
    have : optMapGroups (resolve (buildMap occs) fuel) o.2.groups = some o.2.groups := by
      apply optMapGroups_id
      intro g hg
      have hgo := hcl o ho g hg
      have := depth_nested o.2 g hg
      exact resolve_own occs hcl hb fuel g hgo (by omega)
    rw [this]
    simp [GSpec.eta]

end Fix8Model.Compiler
