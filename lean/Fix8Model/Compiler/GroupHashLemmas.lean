import Fix8Model.Compiler.GroupHash
/-! Lemmas about `rothash` (GF(2)-affine in both arguments), the common group map and `resolve`. -/
namespace Fix8Model.Compiler
open Fix8Model.Gen

/-! ### rothash is affine over xor -/

theorem rhLin_xor (a b : W) : rhLin (a ^^^ b) = rhLin a ^^^ rhLin b := by
  unfold rhLin
  rw [BitVec.shiftLeft_xor_distrib, BitVec.shiftLeft_xor_distrib, BitVec.ushiftRight_xor_distrib]
  ac_rfl

theorem rhLin_zero : rhLin 0 = 0 := by decide

theorem rothash_eq (r v : W) : rothash r v = rhLin r ^^^ v ^^^ BitVec.ofNat 32 rhConst := by
  unfold rothash rhLin
  ac_rfl

/-- the constant cancels: the difference of two hashes is a linear image of the differences of the inputs -/
theorem rothash_xor (r r' v v' : W) : rothash r v ^^^ rothash r' v' = rhLin (r ^^^ r') ^^^ (v ^^^ v') := by
  rw [rothash_eq, rothash_eq, rhLin_xor]
  generalize rhLin r = a
  generalize rhLin r' = b
  generalize BitVec.ofNat 32 rhConst = c
  have : a ^^^ v ^^^ c ^^^ (b ^^^ v' ^^^ c) = (a ^^^ b ^^^ (v ^^^ v')) ^^^ (c ^^^ c) := by ac_rfl
  rw [this, BitVec.xor_self, BitVec.xor_zero]

theorem xor_eq_zero_iff (a b : W) : a ^^^ b = 0 ↔ a = b := BitVec.xor_eq_zero_iff

theorem xor_cancel_left (a b c : W) : a ^^^ b = c ↔ b = a ^^^ c := by
  constructor
  · intro h; rw [← h, ← BitVec.xor_assoc, BitVec.xor_self]; simp
  · intro h; rw [h, ← BitVec.xor_assoc, BitVec.xor_self]; simp

/-- THE collision lemma: whatever two running hashes `r r'` were reached (any prefixes, any nested groups folded so far)
and whatever value `v` is folded into the first, there is exactly one value `v'` that makes the second collide, and it is
computed by a shift-and-xor formula.  The check uses it to manufacture colliding definitions for the tags of a schema. -/
theorem rothash_collide (r r' v v' : W) : rothash r v = rothash r' v' ↔ v' = v ^^^ rhLin (r ^^^ r') := by
  rw [← xor_eq_zero_iff (rothash r v), rothash_xor]
  have e : rhLin (r ^^^ r') ^^^ (v ^^^ v') = (v ^^^ rhLin (r ^^^ r')) ^^^ v' := by ac_rfl
  rw [e, xor_cancel_left]
  simp

theorem foldTags_append (r : W) (xs ys : List Nat) : foldTags (foldTags r xs) ys = foldTags r (xs ++ ys) := by
  simp [foldTags, List.foldl_append]

theorem foldTags_snoc (r : W) (xs : List Nat) (x : Nat) : foldTags r (xs ++ [x]) = rothash (foldTags r xs) (BitVec.ofNat 32 x) := by
  simp [foldTags, List.foldl_append]

/-- difference of the hashes of two tag lists of the same length: linear in the tag differences (no constant) -/
def linFold (r : W) : List W → W
  | [] => r
  | d :: ds => linFold (rhLin r ^^^ d) ds

theorem foldTags_xor : ∀ (xs ys : List Nat) (r r' : W), xs.length = ys.length →
    foldTags r xs ^^^ foldTags r' ys = linFold (r ^^^ r') (List.zipWith (fun x y => BitVec.ofNat 32 x ^^^ BitVec.ofNat 32 y) xs ys)
  | [], [], r, r', _ => by simp [foldTags, linFold]
  | x :: xs, y :: ys, r, r', h => by
    have hl : xs.length = ys.length := by simpa using h
    have := foldTags_xor xs ys (rothash r (BitVec.ofNat 32 x)) (rothash r' (BitVec.ofNat 32 y)) hl
    simp only [foldTags, List.foldl_cons, List.zipWith_cons_cons, linFold] at this ⊢
    rw [this, rothash_xor]
  | [], _ :: _, _, _, h => by simp at h
  | _ :: _, [], _, _, h => by simp at h

/-! ### the hash sees only tags and nested hashes -/

theorem groupsFold_congr : ∀ (gs1 gs2 : List (Nat × GSpec)) (r : W),
    gs1.map (fun g => groupHash g.2) = gs2.map (fun g => groupHash g.2) → groupsFold r gs1 = groupsFold r gs2
  | [], [], _, _ => rfl
  | (_, a) :: r1, (_, b) :: r2, r, h => by
    simp only [List.map_cons, List.cons.injEq] at h
    simp only [groupsFold]
    rw [h.1]
    exact groupsFold_congr r1 r2 _ h.2
  | [], _ :: _, _, h => by simp at h
  | _ :: _, [], _, h => by simp at h

/-- `group_hash` is a function of the member TAGS (in tag order) and of the nested hashes only: types, positions
(= order of the members in the schema), component indices and all flags (mandatory!) of every member are invisible to it -/
theorem groupHash_congr (ts1 ts2 : List Trait) (gs1 gs2 : List (Nat × GSpec))
    (ht : ts1.map (·.tag) = ts2.map (·.tag)) (hg : gs1.map (fun g => groupHash g.2) = gs2.map (fun g => groupHash g.2)) :
    groupHash (.mk ts1 gs1) = groupHash (.mk ts2 gs2) := by
  simp only [groupHash]
  rw [ht]
  exact groupsFold_congr gs1 gs2 _ hg

/-- two strictly increasing lists with the same members are equal -/
theorem sorted_eq_of_mem (l1 l2 : List Nat) (h1 : l1.Pairwise (· < ·)) (h2 : l2.Pairwise (· < ·)) (h : ∀ x, x ∈ l1 ↔ x ∈ l2) : l1 = l2 := by
  have p : l1.Perm l2 := (List.perm_ext_iff_of_nodup (h1.imp (fun h => Nat.ne_of_lt h)) (h2.imp (fun h => Nat.ne_of_lt h))).mpr h
  exact List.Perm.eq_of_pairwise (le := (· < ·)) (fun a b _ _ hab hba => absurd hab (Nat.lt_asymm hba)) h1 h2 p

/-- presence sets are ordered by tag (`Props.C13.C13_group_rows`): the hash of a plain group is a function of its member SET -/
theorem groupHash_member_set (ts1 ts2 : List Trait) (gs : List (Nat × GSpec))
    (h1 : (ts1.map (·.tag)).Pairwise (· < ·)) (h2 : (ts2.map (·.tag)).Pairwise (· < ·))
    (h : ∀ x, x ∈ ts1.map (·.tag) ↔ x ∈ ts2.map (·.tag)) :
    groupHash (.mk ts1 gs) = groupHash (.mk ts2 gs) :=
  groupHash_congr ts1 ts2 gs gs (sorted_eq_of_mem _ _ h1 h2 h) rfl

/-! ### the common group map -/

/-- spec stored under `(tag, key)` -/
def findSpec (m : CGMap) (tag : Nat) (k : W) : Option GSpec := (findGroup m tag k).map (·.spec)

theorem cgFind_cons (e : CGEntry) (rest : CommonGroups) (k' : W) :
    cgFind (e :: rest) k' = if e.key == k' then some e else cgFind rest k' := by
  simp only [cgFind, List.find?]
  cases e.key == k' <;> rfl

theorem cgFind_insertVariants (cg : CommonGroups) (k : W) (s : GSpec) (k' : W) :
    (cgFind (cgInsertVariants cg k s) k').map (·.spec) =
      match (cgFind cg k').map (·.spec) with
      | some x => some x
      | none => if k = k' then some s else none := by
  induction cg with
  | nil =>
    simp only [cgInsertVariants, cgFind_cons]
    by_cases h : k = k'
    · simp [h, cgFind]
    · have : (k == k') = false := by simpa using h
      simp [this, h, cgFind]
  | cons e rest ih =>
    by_cases hk : (e.key == k) = true
    · have hins : cgInsertVariants (e :: rest) k s = { e with refcnt := e.refcnt + 1 } :: rest := by
        simp [cgInsertVariants, hk]
      have hek : e.key = k := by simpa using hk
      rw [hins, cgFind_cons, cgFind_cons]
      by_cases hk' : (e.key == k') = true
      · simp [hk']
      · have hk'f : (e.key == k') = false := by simpa using hk'
        have hne : k ≠ k' := by
          intro h; rw [← hek] at h; rw [h] at hk'f; simp at hk'f
        simp only [hk'f]
        cases hfind : cgFind rest k' with
        | some x => simp
        | none => simp [hne]
    · have hkf : (e.key == k) = false := by simpa using hk
      have hins : cgInsertVariants (e :: rest) k s = e :: cgInsertVariants rest k s := by
        simp [cgInsertVariants, hkf]
      rw [hins, cgFind_cons, cgFind_cons]
      by_cases hk' : (e.key == k') = true
      · simp [hk']
      · have hk'f : (e.key == k') = false := by simpa using hk'
        simp only [hk'f]
        exact ih

theorem findSpec_insert (m : CGMap) (tag : Nat) (s : GSpec) (t : Nat) (k : W) :
    findSpec (cgInsert m tag s) t k =
      match findSpec m t k with
      | some x => some x
      | none => if tag = t ∧ groupHash s = k then some s else none := by
  induction m with
  | nil =>
    simp only [cgInsert, findSpec, findGroup, List.find?]
    by_cases h : tag = t
    · subst h
      simp only [decide_true]
      have := cgFind_insertVariants [] (groupHash s) s k
      simp only [cgFind, List.find?] at this
      simp only [cgFind]
      rw [this]
      simp
    · have : decide (tag = t) = false := by simpa using h
      simp [this, h]
  | cons p rest ih =>
    obtain ⟨t0, cg⟩ := p
    simp only [cgInsert]
    by_cases h0 : t0 = tag
    · simp only [h0, if_true]
      by_cases ht : tag = t
      · subst ht
        simp only [findSpec, findGroup, List.find?, decide_true]
        have := cgFind_insertVariants cg (groupHash s) s k
        rw [this]
        cases (cgFind cg k).map (·.spec) <;> simp
      · have hd : decide (tag = t) = false := by simpa using ht
        simp only [findSpec, findGroup, List.find?, hd]
        cases hf : (List.find? (fun p => decide (p.1 = t)) rest) with
        | none => simp [ht]
        | some q =>
          cases hq : (cgFind q.2 k).map (·.spec) with
          | none => simp [hq, ht]
          | some x => simp [hq]
    · simp only [h0, if_false]
      by_cases ht : t0 = t
      · have hne : tag ≠ t := by intro h; exact h0 (ht.trans h.symm)
        simp only [findSpec, findGroup, List.find?, ht, decide_true]
        cases hq : (cgFind cg k).map (·.spec) with
        | none => simp [hq, hne]
        | some x => simp [hq]
      · have hd : decide (t0 = t) = false := by simpa using ht
        simp only [findSpec, findGroup, List.find?, hd] at ih ⊢
        exact ih

/-- fold of insertions starting from any map -/
def buildFrom (m : CGMap) (occs : List (Nat × GSpec)) : CGMap := occs.foldl (fun m o => cgInsert m o.1 o.2) m

/-- `find_group` after all insertions returns the FIRST definition inserted under that (count tag, hash) -/
theorem findSpec_buildFrom (occs : List (Nat × GSpec)) : ∀ (m : CGMap) (t : Nat) (k : W),
    findSpec (buildFrom m occs) t k =
      match findSpec m t k with
      | some x => some x
      | none => (occs.find? (fun o => decide (o.1 = t ∧ groupHash o.2 = k))).map (·.2) := by
  induction occs with
  | nil => intro m t k; simp [buildFrom]; cases findSpec m t k <;> rfl
  | cons o rest ih =>
    intro m t k
    simp only [buildFrom, List.foldl_cons]
    have := ih (cgInsert m o.1 o.2) t k
    simp only [buildFrom] at this
    rw [this, findSpec_insert]
    cases hm : findSpec m t k with
    | some x => simp
    | none =>
      by_cases hc : o.1 = t ∧ groupHash o.2 = k
      · simp [hc, List.find?]
      · simp [hc, List.find?]

theorem findSpec_buildMap (occs : List (Nat × GSpec)) (t : Nat) (k : W) :
    findSpec (buildMap occs) t k = (occs.find? (fun o => decide (o.1 = t ∧ groupHash o.2 = k))).map (·.2) := by
  have := findSpec_buildFrom occs [] t k
  simpa [buildFrom, buildMap, findSpec, findGroup] using this

/-! ### resolve -/

/-- the hash separates the definitions of every count tag -/
def HashInjOn (occs : List (Nat × GSpec)) : Prop :=
  ∀ a ∈ occs, ∀ b ∈ occs, a.1 = b.1 → groupHash a.2 = groupHash b.2 → a.2 = b.2

/-- every nested group of a listed group is listed (true of the insertion sequence of `parse_groups`) -/
def Closed (occs : List (Nat × GSpec)) : Prop := ∀ o ∈ occs, ∀ g ∈ o.2.groups, g ∈ occs

theorem findSpec_own (occs : List (Nat × GSpec)) (hinj : HashInjOn occs) (o : Nat × GSpec) (ho : o ∈ occs) :
    findSpec (buildMap occs) o.1 (groupHash o.2) = some o.2 := by
  rw [findSpec_buildMap]
  cases hf : occs.find? (fun o' => decide (o'.1 = o.1 ∧ groupHash o'.2 = groupHash o.2)) with
  | none =>
    have := List.find?_eq_none.mp hf o ho
    simp at this
  | some o' =>
    have hp := List.find?_some hf
    have hm := List.mem_of_find?_eq_some hf
    simp only [decide_eq_true_eq] at hp
    simp only [Option.map_some]
    rw [hinj o' hm o ho hp.1 hp.2]

theorem findGroup_of_findSpec (m : CGMap) (t : Nat) (k : W) (s : GSpec) (h : findSpec m t k = some s) :
    ∃ e, findGroup m t k = some e ∧ e.spec = s := by
  unfold findSpec at h
  cases hg : findGroup m t k with
  | none => rw [hg] at h; simp at h
  | some e => rw [hg] at h; simp at h; exact ⟨e, rfl, h⟩

theorem optMapGroups_id (f : Nat → GSpec → Option GSpec) : ∀ (gs : List (Nat × GSpec)),
    (∀ g ∈ gs, f g.1 g.2 = some g.2) → optMapGroups f gs = some gs
  | [], _ => rfl
  | (t, g) :: rest, h => by
    have h1 := h (t, g) (by simp)
    have h2 := optMapGroups_id f rest (fun x hx => h x (by simp [hx]))
    simp only [optMapGroups]
    simp only at h1
    rw [h1, h2]

theorem depthList_le : ∀ (gs : List (Nat × GSpec)) (g : Nat × GSpec), g ∈ gs → g.2.depth ≤ GSpec.depth.depthList gs
  | [], _, h => by simp at h
  | (t, x) :: rest, g, h => by
    simp only [GSpec.depth.depthList]
    rcases List.mem_cons.mp h with h | h
    · subst h; exact Nat.le_max_left _ _
    · exact Nat.le_trans (depthList_le rest g h) (Nat.le_max_right _ _)

theorem depth_nested (s : GSpec) (g : Nat × GSpec) (h : g ∈ s.groups) : g.2.depth + 1 ≤ s.depth := by
  cases s with
  | mk ts gs =>
    simp only [GSpec.groups] at h
    simp only [GSpec.depth]
    have := depthList_le gs g h
    omega

theorem GSpec.eta (s : GSpec) : GSpec.mk s.traits s.groups = s := by cases s; rfl

/-- with a separating hash every group of every message is generated from its own definition, at every nesting depth -/
theorem resolve_own (occs : List (Nat × GSpec)) (hcl : Closed occs) (hinj : HashInjOn occs) :
    ∀ (fuel : Nat) (o : Nat × GSpec), o ∈ occs → o.2.depth ≤ fuel → resolve (buildMap occs) fuel o.1 o.2 = some o.2
  | 0, o, _, hd => by
    cases hs : o.2 with
    | mk ts gs => rw [hs] at hd; simp [GSpec.depth] at hd
  | fuel + 1, o, ho, hd => by
    obtain ⟨e, he, hes⟩ := findGroup_of_findSpec _ _ _ _ (findSpec_own occs hinj o ho)
    simp only [resolve, he]
    rw [hes]
    have : optMapGroups (resolve (buildMap occs) fuel) o.2.groups = some o.2.groups := by
      apply optMapGroups_id
      intro g hg
      have hgo := hcl o ho g hg
      have := depth_nested o.2 g hg
      exact resolve_own occs hcl hinj fuel g hgo (by omega)
    rw [this]
    simp [GSpec.eta]

end Fix8Model.Compiler
