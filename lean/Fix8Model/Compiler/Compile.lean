import Fix8Model.Compiler.GroupHash
/-!
Model of the metadata pipeline of the schema compiler f8c (C13).

    Schema  --precomp (f8precomp.cpp: component expansion, `required` rewriting)-->  PSchema (.p1 document)
            --load_fields / load_messages / parse_groups / process_message_fields / process_ordering-->  specs + common group map
            --emission (f8c.cpp:928-1502, generate_group_bodies)-->  Metadata

`Metadata` has exactly the shape that the generic dumper (harness/f8cdump.cpp) reads back from the generated code
through `F8MetaCntx`: field table, message table with admin flag, per-message trait rows
`{fnum, ftype, pos, component, bits}` and, recursively, the trait rows of every repeating group.

What is NOT modelled (validated per schema by the translation-validation run instead): the XML reader, the text
emission and the C++ compiler.  Attributes that the generator always writes (`name`, `required`, `number`, `type`,
`msgtype`, `msgcat`, `enum`) are taken as present; an absent `description` is the empty string (f8c then uses the enum text).
Duplicate field numbers are outside `WF` (the model keeps the first definition; f8c additionally merges the value lists).
The `<header>`, `<trailer>` and `<messages>` elements are taken as present (possibly empty).  `load_fields` trims number, name and
type; the front end (tools/f8ctv.py) hands the trimmed text to the model.  `none` = f8c reports errors and leaves no output files.
-/
namespace Fix8Model.Compiler
open Fix8Model.Gen

/-! ### schema as written -/

/-- child element of a message / component / group, as written in the schema -/
inductive Elem where
  | field (name req : String)
  | comp (name req : String)
  | group (name req : String) (body : List Elem)
deriving Repr, Inhabited

/-- child element of a message / group in the precompiled document: components are gone, their name is an attribute -/
inductive PElem where
  | field (name req comp : String)
  | group (name req comp : String) (body : List PElem)
deriving Repr, Inhabited

structure ValueDef where
  enum : String
  desc : String
  range : String
deriving Repr, DecidableEq

structure FieldDef where
  number : Nat
  name : String
  type : String
  values : List ValueDef
deriving Repr

structure MsgDef where
  name : String
  msgtype : String
  msgcat : String
  body : List Elem
deriving Repr

structure Schema where
  kind : String          -- `type` attribute of <fix>, default "FIX"
  major : Nat
  minor : Nat
  revision : Nat
  fields : List FieldDef
  comps : List (String × List Elem)
  header : List Elem
  trailer : List Elem
  msgs : List MsgDef
deriving Repr

/-! ### text helpers (kernel-reducible: the property file evaluates the model on examples by `decide`) -/

/-- `InPlaceStrToUpper` / the case-insensitive compare `%`: ASCII only -/
def upperA (s : String) : String := String.ofList (s.toList.map fun c => if 'a' ≤ c ∧ c ≤ 'z' then Char.ofNat (c.toNat - 32) else c)
def lowerA (s : String) : String := String.ofList (s.toList.map fun c => if 'A' ≤ c ∧ c ≤ 'Z' then Char.ofNat (c.toNat + 32) else c)

def digitsVal : List Char → Option Nat
  | [] => none
  | cs => cs.foldl (fun acc c => match acc with
      | none => none
      | some n => if c.isDigit then some (n * 10 + (c.toNat - '0'.toNat)) else none) (some 0)

/-- `stoi` on the texts the generator writes: optional sign, digits -/
def parseInt (s : String) : Option Int :=
  match s.toList with
  | '-' :: ds => (digitsVal ds).map fun n => - Int.ofNat n
  | '+' :: ds => (digitsVal ds).map Int.ofNat
  | ds => (digitsVal ds).map Int.ofNat

/-! ### pass 1: f8precomp.cpp -/

/-- `get_value<bool>` (f8utils.hpp:605, non-strict variant) used for `required` of a component reference -/
def reqBool (s : String) : Bool :=
  let l := lowerA s
  l == "true" || l == "yes" || l == "y" || s == "1"

/-- `output_attributes`: `required='Y'` is written as `'N'` below a non-required component -/
def rwReq (req : String) (required : Bool) : String := if req == "Y" && !required then "N" else req

mutual
/-- `process_elements` (f8precomp.cpp:239).  `look name required depth` expands a component reference. -/
def expElem (look : String → Bool → Nat → Option (List PElem)) (depth : Nat) (compon : String) (required : Bool) :
    Elem → Option (List PElem)
  | .field n r => some [.field n (rwReq r required) compon]
  | .comp n r => look n (if depth == 3 then reqBool r else reqBool r && required) depth     -- process_component:278
  | .group n r body =>
    match expList look (depth + 1) "" required body with                                     -- process_group:293
    | none => none
    | some b => some [.group n (rwReq r required) compon b]
def expList (look : String → Bool → Nat → Option (List PElem)) (depth : Nat) (compon : String) (required : Bool) :
    List Elem → Option (List PElem)
  | [] => some []
  | e :: es =>
    match expElem look depth compon required e, expList look depth compon required es with
    | some a, some b => some (a ++ b)
    | _, _ => none
end

/-- `process_component`: the children of the component definition at the SAME depth, tagged with the component name.
Fuel bounds the reference depth (a cyclic reference makes the real f8c recurse until the stack overflows). -/
def expComp (comps : List (String × List Elem)) : Nat → String → Bool → Nat → Option (List PElem)
  | 0, _, _, _ => none
  | fuel + 1, name, required, depth =>
    match comps.lookup name with
    | none => none                                   -- "Could not find component": ++glob_errors
    | some body => expList (expComp comps fuel) depth name required body

/-- body of a message (children at depth 3) or of header/trailer (children at depth 2) -/
def expBody (s : Schema) (depth : Nat) (body : List Elem) : Option (List PElem) :=
  expList (expComp s.comps (s.comps.length + 1)) depth "" true body

/-! ### pass 2: tables -/

/-- value of an enumerated domain: int / char code / float scaled by 10^4 as `num`, strings as `str` -/
inductive RVal where
  | num (v : Int)
  | str (s : String)
deriving DecidableEq, Repr

def RVal.lt : RVal → RVal → Bool
  | .num a, .num b => a < b
  | .str a, .str b => a < b
  | _, _ => false

structure Realm where
  isRange : Bool
  ftype : Nat
  vals : List (RVal × String)     -- ordered by value, first definition of a value wins (`RealmMap` = std::map)
deriving Repr, DecidableEq

structure FSpec where
  number : Nat
  name : String
  ftype : Nat
  realm : Option Realm
deriving Repr, DecidableEq

def isInt (ft : Nat) : Bool := ftInt ≤ ft && ft ≤ ftEndInt
def isChar (ft : Nat) : Bool := ftChar ≤ ft && ft ≤ ftEndChar
def isFloat (ft : Nat) : Bool := ftFloat ≤ ft && ft ≤ ftEndFloat
def isString (ft : Nat) : Bool := ftString ≤ ft && ft ≤ ftEndString

/-- decimal text with at most four fraction digits -> value * 10^4 -/
def parseDec4 (s : String) : Option Int :=
  let cs := s.toList
  let neg := cs.head? == some '-'
  let body := if neg then cs.drop 1 else cs
  let ip := body.takeWhile (· != '.')
  let rest := body.dropWhile (· != '.')
  let sign : Int := if neg then -1 else 1
  match rest with
  | [] => (digitsVal ip).map fun n => sign * (Int.ofNat n * 10000)
  | _ :: fp =>
    if fp.length > 4 ∨ fp.length = 0 then none else
    match digitsVal ip, digitsVal fp with
    | some n, some m => some (sign * (Int.ofNat n * 10000 + Int.ofNat (m * 10 ^ (4 - fp.length))))
    | _, _ => none

/-- `RealmObject::create` (f8cutils.cpp:362); `none` = the conversion throws (f8c terminates) -/
def mkRVal (ft : Nat) (e : String) : Option RVal :=
  if isInt ft then (parseInt e).map .num
  else if isChar ft then some (.num (Int.ofNat (e.toList.headD (Char.ofNat 0)).toNat))
  else if isFloat ft then (parseDec4 e).map .num
  else some (.str e)

/-- `_dvals->insert({realmval, description})` into a map ordered by value -/
def realmInsert (v : RVal) (d : String) : List (RVal × String) → List (RVal × String)
  | [] => [(v, d)]
  | (w, dw) :: rest =>
    if v.lt w then (v, d) :: (w, dw) :: rest
    else if w.lt v then (w, dw) :: realmInsert v d rest
    else (w, dw) :: rest

/-- the `<value>` loop of `load_fields` (f8c.cpp:501-527) -/
def mkRealm (ft : Nat) : List ValueDef → Option (Option Realm)
  | [] => some none
  | vs =>
    let step (acc : Option Realm) (v : ValueDef) : Option Realm :=
      match acc, mkRVal ft v.enum with
      | some r, some rv =>
        let isR := v.range == "lower" || v.range == "upper"
        some { r with isRange := r.isRange || isR, vals := realmInsert rv (if v.desc.isEmpty then v.enum else v.desc) r.vals }
      | _, _ => none
    (vs.foldl step (some ⟨false, ft, []⟩)).map some

/-- `fspec.insert` into the map ordered by field number (first definition of a number wins) -/
def fspecInsert (f : FSpec) : List FSpec → List FSpec
  | [] => [f]
  | g :: rest =>
    if f.number < g.number then f :: g :: rest
    else if g.number < f.number then g :: fspecInsert f rest
    else g :: rest

/-- `load_fields` (f8c.cpp:453): unknown types are skipped with a warning -/
def loadFields : List FieldDef → List FSpec → Option (List FSpec)
  | [], acc => some acc
  | d :: rest, acc =>
    match baseTypeMap.lookup (upperA d.type) with
    | none => loadFields rest acc
    | some ft =>
      match mkRealm ft d.values with
      | none => none
      | some rl => loadFields rest (fspecInsert ⟨d.number, d.name, ft, rl⟩ acc)

/-- insertion of a string into a list ordered by `<` without duplicates (`std::map<std::string, …>` keys) -/
def strInsert (s : String) : List String → List String
  | [] => [s]
  | t :: rest => if s < t then s :: t :: rest else if t < s then t :: strInsert s rest else t :: rest

/-- compiler context of pass 2 -/
structure Ctx where
  fspec : List FSpec           -- ordered by number
  compNames : List String      -- ordered, without duplicates

/-- `ftonSpec.find(name)` then `fspec.find(number)`: `ftonSpec` is filled in number order and keeps the first number of a name -/
def Ctx.find (c : Ctx) (name : String) : Option FSpec := c.fspec.find? (fun f => f.name == name)

/-- `lookup_component` (f8c.cpp:1532): 1 + rank among the component names, 0 when absent or no `component` attribute -/
def Ctx.compIdx (c : Ctx) (name : String) : Nat :=
  if name.isEmpty then 0 else
  match c.compNames.idxOf? name with
  | some i => i + 1
  | none => 0

/-- `FieldTrait(field, ftype, pos, ismandatory, isgroup, compon)` (traits.hpp:146) -/
def mkFlags (req isGroup : Bool) (pos compidx : Nat) : Nat :=
  (if req then 1 else 0) ||| ((if pos ≠ 0 then 1 else 0) <<< bitPosition) |||
    ((if isGroup then 1 else 0) <<< bitGroup) ||| ((if compidx ≠ 0 then 1 else 0) <<< bitComponent)

def setBit (f b : Nat) : Nat := f ||| (1 <<< b)
def clearBit (f b : Nat) : Nat := f ^^^ (f &&& (1 <<< b))

def hasTag (ts : List Trait) (tag : Nat) : Bool := ts.any (fun t => t.tag == tag)

/-- `Presence::insert` of a tag that is not yet present: the array stays ordered by tag -/
def insertTrait (t : Trait) : List Trait → List Trait
  | [] => [t]
  | x :: xs => if t.tag < x.tag then t :: x :: xs else x :: insertTrait t xs

/-- `process_special_traits` (f8cutils.cpp:159) -/
def special (tag : Nat) (ts : List Trait) : List Trait :=
  if tag = tagBeginString ∨ tag = tagBodyLength ∨ tag = tagCheckSum then
    ts.map fun t => if t.tag = tag then { t with flags := clearBit (setBit (setBit t.flags bitSuppress) bitAutomatic) bitMandatory } else t
  else if tag = tagMsgType then
    ts.map fun t => if t.tag = tag then { t with flags := clearBit (setBit t.flags bitAutomatic) bitMandatory } else t
  else ts

/-- `process_message_fields` (f8cutils.cpp:220) over the children of one element; `idx` = `GetSubIdx()` of the head -/
def pfList (c : Ctx) : List PElem → Nat → List Trait → Option (List Trait)
  | [], _, ts => some ts
  | .group _ _ _ _ :: rest, idx, ts => pfList c rest (idx + 1) ts
  | .field name req comp :: rest, idx, ts =>
    match c.find name with
    | none => none                                                        -- ++glob_errors
    | some fs =>
      if hasTag ts fs.number then pfList c rest (idx + 1) ts              -- "Could not add trait object (duplicate ?)"
      else
        let ci := c.compIdx comp
        pfList c rest (idx + 1) (special fs.number (insertTrait ⟨fs.number, fs.ftype, idx, ci, mkFlags (req == "Y") false idx ci⟩ ts))

/-- `GroupMap::insert` -/
def insertGroup (g : Nat × GSpec) : List (Nat × GSpec) → List (Nat × GSpec)
  | [] => [g]
  | x :: xs => if g.1 < x.1 then g :: x :: xs else x :: insertGroup g xs

/-- result of the group pass over one level: presence set, group map, groups in `globmap` insertion order -/
structure Lvl where
  ts : List Trait
  gs : List (Nat × GSpec)
  oc : List (Nat × GSpec)

mutual
/-- one iteration of the loop of `parse_groups` (f8c.cpp:639-704) -/
def pgElem (c : Ctx) : PElem → Nat → Lvl → Option Lvl
  | .field _ _ _, _, l => some l
  | .group name req comp body, idx, l =>
    match c.find name with
    | none => none                                                        -- "Could not locate group Field"
    | some fs =>
      if hasTag l.ts fs.number then some l                                -- "Could not add group trait object"
      else
        let ci := c.compIdx comp
        let t : Trait := ⟨fs.number, ftInt, idx, ci, mkFlags (req == "Y") true idx ci⟩
        -- the group's own level: fields first (665), then nested groups (669)
        match pfList c body 1 [] with
        | none => none
        | some gts =>
          match pgList c body 1 ⟨gts, [], []⟩ with
          | none => none
          | some g =>
            let spec := GSpec.mk g.ts g.gs
            some ⟨insertTrait t l.ts, insertGroup (fs.number, spec) l.gs, l.oc ++ g.oc ++ [(fs.number, spec)]⟩
def pgList (c : Ctx) : List PElem → Nat → Lvl → Option Lvl
  | [], _, l => some l
  | e :: rest, idx, l =>
    match pgElem c e idx l with
    | none => none
    | some l' => pgList c rest (idx + 1) l'
end

/-- a message / header / trailer level (f8c.cpp:614-621): groups first, then fields -/
def parseMsgBody (c : Ctx) (body : List PElem) : Option Lvl :=
  match pgList c body 1 ⟨[], [], []⟩ with
  | none => none
  | some l =>
    match pfList c body 1 l.ts with
    | none => none
    | some ts => some { l with ts := ts }

/-! ### process_ordering -/

/-- `FieldTraitOrder::insert` = multiset ordered by `_pos`: after every element that is not greater -/
def insertByPos (t : Trait) : List Trait → List Trait
  | [] => [t]
  | x :: xs => if t.pos < x.pos then t :: x :: xs else x :: insertByPos t xs

def sortByPos (ts : List Trait) : List Trait := ts.foldl (fun acc t => insertByPos t acc) []

/-- `process_ordering` (f8cutils.cpp:279): every trait of a message gets its 1-based rank in `_pos` order
(the array itself stays in tag order; elements are identified by their tag, which is unique in the array) -/
def processOrdering (ts : List Trait) : List Trait :=
  let mo := (sortByPos ts).map (·.tag)
  ts.map fun t => { t with pos := mo.idxOf t.tag + 1 }

/-! ### the whole pipeline -/

structure MsgSpec where
  key : String
  name : String
  admin : Bool
  lvl : Lvl

def msgInsert (m : MsgSpec) : List MsgSpec → Option (List MsgSpec)
  | [] => some [m]
  | x :: xs =>
    if m.key < x.key then some (m :: x :: xs)
    else if x.key < m.key then (msgInsert m xs).map (x :: ·)
    else none                                                             -- "Could not add message"

structure FieldMeta where
  number : Nat
  name : String
  realm : Option Realm
deriving Repr, DecidableEq

structure MsgMeta where
  key : String
  name : String
  admin : Bool
  traits : List Trait
  groups : List (Nat × GSpec)      -- what the generated classes contain for each group of this message
deriving Repr

structure Metadata where
  version : Nat
  beginStr : String
  comps : List String
  fields : List FieldMeta
  msgs : List MsgMeta
deriving Repr

mutual
def specTags : GSpec → List Nat
  | .mk ts gs => ts.map (·.tag) ++ specTagsList gs
def specTagsList : List (Nat × GSpec) → List Nat
  | [] => []
  | (_, g) :: rest => specTags g ++ specTagsList rest
end

/-- intermediate result of `load_messages` -/
structure Loaded where
  ctx : Ctx
  msgs : List MsgSpec            -- ordered by key
  occs : List (Nat × GSpec)      -- `globmap` insertion order

/-- the three kinds of entries of `mlist` in document order of the .p1 file: header, trailer, messages -/
def loadOne (s : Schema) (c : Ctx) (rl : Realm) (acc : Option (List MsgSpec × List (Nat × GSpec)))
    (key name : String) (admin : Bool) (isMsg : Bool) (depth : Nat) (body : List Elem) : Option (List MsgSpec × List (Nat × GSpec)) :=
  match acc with
  | none => none
  | some (ms, oc) =>
    if isMsg && !(rl.vals.any (fun v => v.1 == RVal.str key)) then none    -- not in the MsgType realm
    else
      match expBody s depth body with
      | none => none
      | some pb =>
        match parseMsgBody c pb with
        | none => none
        | some l =>
          match msgInsert ⟨key, name, admin, l⟩ ms with
          | none => none
          | some ms' => some (ms', oc ++ l.oc)

def versionOf (s : Schema) : Nat := s.major * 1000 + s.minor * 100 + s.revision

def load (s : Schema) : Option Loaded :=
  if s.kind == "FIX" && versionOf s < 4000 then none
  else if s.kind == "FIX" && versionOf s ≥ 5000 then none
  else
  match loadFields s.fields [] with
  | none => none
  | some fspec =>
    if fspec.isEmpty then none else
    let c : Ctx := ⟨fspec, s.comps.foldl (fun acc p => strInsert p.1 acc) []⟩
    match fspec.find? (fun f => f.number == tagMsgType) with
    | none => none
    | some f35 =>
      match f35.realm with
      | none => none
      | some rl =>
        if s.msgs.isEmpty then none else
        let a0 := loadOne s c rl (some ([], [])) "header" "header" false false 2 s.header
        let a1 := loadOne s c rl a0 "trailer" "trailer" false false 2 s.trailer
        let a2 := s.msgs.foldl (fun acc m => loadOne s c rl acc m.msgtype m.name (lowerA m.msgcat == "admin") true 3 m.body) a1
        a2.map fun r => ⟨c, r.1, r.2⟩

def maxDepth (occs : List (Nat × GSpec)) : Nat := occs.foldl (fun d o => max d o.2.depth) 0

def emitMsg (m : CGMap) (fuel : Nat) (ms : MsgSpec) : Option MsgMeta :=
  (optMapGroups (resolve m fuel) ms.lvl.gs).map fun gs => ⟨ms.key, ms.name, ms.admin, processOrdering ms.lvl.ts, gs⟩

def optMapM {α β : Type} (f : α → Option β) : List α → Option (List β)
  | [] => some []
  | a :: rest => match f a, optMapM f rest with
    | some b, some r => some (b :: r)
    | _, _ => none

/-- tags marked `_used`: every tag of every parsed presence set -/
def usedTags (l : Loaded) : List Nat :=
  (l.msgs.flatMap fun m => m.lvl.ts.map (·.tag)) ++ specTagsList l.occs

def compile (s : Schema) : Option Metadata :=
  match load s with
  | none => none
  | some l =>
    let m := buildMap l.occs
    let used := usedTags l
    match optMapM (emitMsg m (maxDepth l.occs + 1)) l.msgs with
    | none => none
    | some msgs =>
      some ⟨versionOf s, s.kind ++ "." ++ toString s.major ++ "." ++ toString s.minor, l.ctx.compNames,
            (l.ctx.fspec.filter fun f => used.contains f.number).map fun f => ⟨f.number, f.name, f.realm⟩, msgs⟩

/-! ### classes of schemas on which the property is known to fail (computed by the driver for the run) -/

/-- two different definitions of one count tag with the same structural hash (C14) -/
def collides (occs : List (Nat × GSpec)) : Bool :=
  occs.any fun a => occs.any fun b => a.1 == b.1 && groupHash a.2 == groupHash b.2 && !(GSpec.beq a.2 b.2)

end Fix8Model.Compiler
