import Fix8Model.Checksum.Loop
namespace Fix8Model.Checksum

theorem addChar_mod (ret : W) (b : Nat) (hb : b < 256) :
    (addChar ret b).toNat % 256 = (ret.toNat + b) % 256 := by
  have hs : ((BitVec.ofNat 8 b).signExtend 32).toNat % 256 = b := by
    rw [BitVec.toNat_signExtend]
    simp only [BitVec.toNat_ofNat, BitVec.msb_eq_decide]
    have : b % 2^8 = b := Nat.mod_eq_of_lt hb
    simp only [this]
    split <;> simp <;> omega
  unfold addChar
  rw [BitVec.toNat_add]
  generalize ((BitVec.ofNat 8 b).signExtend 32).toNat = e at *
  omega

theorem tailLoop_mod (buf : List Nat) (hwf : WFBytes buf) (off : Nat) :
    ∀ (n ii : Nat) (ret : W) (s : Nat), ret.toNat % 256 = (s + sumBytes buf off ii) % 256 →
      (tailLoop buf off ii n ret).toNat % 256 = (s + sumBytes buf off (ii + n)) % 256
  | 0, ii, ret, s, h => by simpa [tailLoop] using h
  | n+1, ii, ret, s, h => by
      have hb := byteAt_lt buf hwf (off + ii)
      have h1 := addChar_mod ret _ hb
      have := tailLoop_mod buf hwf off n (ii+1) (addChar ret (byteAt buf (off + ii))) s (by
        rw [h1]; simp only [sumBytes]; omega)
      simpa [tailLoop, Nat.add_assoc, Nat.add_comm 1 n] using this

theorem final_arith (r2 o1 ret1 ovf dt sE sL dr : Nat) (ho1 : o1 < 4294967296)
    (hinv : dr % 256 = (sE + ovf + dt) % 256)
    (hret1 : ret1 % 256 = dr % 256)
    (hovf1 : o1 % 256 = (ovf + dt) % 256)
    (htail : r2 % 256 = (ret1 + 255 * sE + sL) % 256) :
    (4294967296 - o1 + r2) % 4294967296 % 256 = sL % 256 := by
  omega

theorem calcChksum_eq (buf : List Nat) (hwf : WFBytes buf) (sz off : Nat) (len : Option Nat) :
    calcChksum buf sz off len = sumBytes buf off (effLen sz off len) % 256 := by
  simp only [calcChksum]
  generalize effLen sz off len = elen
  have h4 : 4 * ((elen - elen % 8) / 4) = elen - elen % 8 := by omega
  have hinv := inv_loop buf hwf off ((elen - elen % 8) / 4) 0 ⟨0,0,0⟩ (inv_init buf off)
  rw [Nat.zero_add] at hinv
  obtain ⟨hsum, -, -, -, -⟩ := hinv
  rw [h4] at hsum
  generalize wordLoop buf off 0 ((elen - elen % 8) / 4) ⟨0,0,0⟩ = r at *
  have hret1 := collapse_low r.ret
  have hovf1 : (r.ovf + collapse r.tmp).toNat % 256 = (r.ovf.toNat + D r.tmp) % 256 := by
    have := collapse_low r.tmp
    rw [BitVec.toNat_add]
    generalize (collapse r.tmp).toNat = c at *
    omega
  have hsplit : elen - elen % 8 + (elen - (elen - elen % 8)) = elen := by omega
  have htail := tailLoop_mod buf hwf off (elen - (elen - elen % 8)) (elen - elen % 8) (collapse r.ret)
    ((collapse r.ret).toNat + 255 * sumBytes buf off (elen - elen % 8)) (by omega)
  rw [hsplit] at htail
  simp only [BitVec.toNat_and, BitVec.toNat_sub, show (0xff#32).toNat = 2^8 - 1 from rfl,
    Nat.and_two_pow_sub_one_eq_mod]
  exact final_arith _ _ _ _ _ _ _ _ (r.ovf + collapse r.tmp).isLt hsum hret1 hovf1 htail

theorem wordReads_bound (off : Nat) : ∀ (n k i : Nat), i ∈ wordReads off k n →
    off + 4*k ≤ i ∧ i < off + 4*(k+n)
  | 0, k, i, h => by simp [wordReads] at h
  | n+1, k, i, h => by
      simp only [wordReads, List.mem_append, List.mem_cons, List.not_mem_nil, or_false] at h
      rcases h with (h | h | h | h) | h
      · omega
      · omega
      · omega
      · omega
      · have := wordReads_bound off n (k+1) i h; omega

theorem tailReads_bound (off : Nat) : ∀ (n ii i : Nat), i ∈ tailReads off ii n →
    off + ii ≤ i ∧ i < off + ii + n
  | 0, ii, i, h => by simp [tailReads] at h
  | n+1, ii, i, h => by
      simp only [tailReads, List.mem_cons] at h
      rcases h with h | h
      · omega
      · have := tailReads_bound off n (ii+1) i h; omega

theorem readIdx_bound (sz off : Nat) (len : Option Nat) (i : Nat) (h : i ∈ readIdx sz off len) :
    off ≤ i ∧ i < off + effLen sz off len := by
  unfold readIdx at h
  generalize effLen sz off len = elen at *
  simp only [List.mem_append] at h
  rcases h with h | h
  · have := wordReads_bound off _ _ _ h; omega
  · have := tailReads_bound off _ _ _ h; omega

end Fix8Model.Checksum
