/-
Model of `Message::calc_chksum` (include/fix8/message.hpp, 64-bit path).

Registers are `BitVec 32` (std::uint32_t), indices are `Nat` (size_t, never near 2^64 for
buffers that exist).  The unaligned `uint32_t` load is modelled as four byte reads, little endian.
Bytes are `Nat` values < 256 (`WFBytes`).  The list of indices read is produced by `readIdx`,
which walks the same two loops.
-/
namespace Fix8Model.Checksum

abbrev W := BitVec 32

/-- `OVERFLOW_MASK` = 1<<8 | 1<<16 | 1<<24 -/
def MASK : W := 0x01010100#32

/-- `fix8pro_collapse_int32` -/
def collapse (x : W) : W := x + (x >>> 8) + (x >>> 16) + (x >>> 24)

def byteAt (buf : List Nat) (i : Nat) : Nat := buf.getD i 0

def WFBytes (buf : List Nat) : Prop := ∀ b ∈ buf, b < 256

instance (buf : List Nat) : Decidable (WFBytes buf) := by unfold WFBytes; infer_instance

/-- `*reinterpret_cast<const std::uint32_t *>(from + ii)` on a little-endian machine -/
def loadWord (buf : List Nat) (i : Nat) : W :=
  BitVec.ofNat 32 (byteAt buf i + 256 * byteAt buf (i+1) + 65536 * byteAt buf (i+2)
    + 16777216 * byteAt buf (i+3))

structure Regs where
  ret : W
  ovf : W
  tmp : W
deriving Repr, DecidableEq

/-- one iteration of the word loop; `ii` is the loop variable (multiple of 4) -/
def wordStep (buf : List Nat) (base : Nat) (r : Regs) (ii : Nat) : Regs :=
  let next := loadWord buf (base + ii)
  let expected := (r.ret &&& MASK) ^^^ (MASK &&& next)
  let ret' := r.ret + next
  let tmp' := r.tmp + ((expected ^^^ ret') &&& MASK)
  if ii ≠ 0 ∧ ii % 256 = 0 then ⟨ret', r.ovf + collapse tmp', 0⟩ else ⟨ret', r.ovf, tmp'⟩

/-- `for (; ii < eeii; ii += 4)` : `n` iterations starting with `ii = 4*k` -/
def wordLoop (buf : List Nat) (base : Nat) : (k n : Nat) → Regs → Regs
  | _, 0, r => r
  | k, n+1, r => wordLoop buf base (k+1) n (wordStep buf base r (4*k))

/-- `ret += from[ii]` with `from[ii]` a (signed) `char` promoted to `int` -/
def addChar (ret : W) (b : Nat) : W := ret + (BitVec.ofNat 8 b).signExtend 32

/-- `for (; ii < elen; ret += from[ii++]);` : `n` iterations starting at `ii` -/
def tailLoop (buf : List Nat) (base : Nat) : (ii n : Nat) → W → W
  | _, 0, ret => ret
  | ii, n+1, ret => tailLoop buf base (ii+1) n (addChar ret (byteAt buf (base + ii)))

/-- effective length: `len != -1 ? len : sz - offset` -/
def effLen (sz off : Nat) (len : Option Nat) : Nat := len.getD (sz - off)

/-- `calc_chksum(from, sz, offset, len)`; `len = none` is the C++ default `-1` -/
def calcChksum (buf : List Nat) (sz off : Nat) (len : Option Nat) : Nat :=
  let elen := effLen sz off len
  let eeii := elen - elen % 8
  let r := wordLoop buf off 0 (eeii / 4) ⟨0, 0, 0⟩
  let ret := collapse r.ret
  let ovf := r.ovf + collapse r.tmp
  let ret := tailLoop buf off eeii (elen - eeii) ret
  ((ret - ovf) &&& 0xff#32).toNat

/-- indices read by the word loop -/
def wordReads (base : Nat) : (k n : Nat) → List Nat
  | _, 0 => []
  | k, n+1 => [base + 4*k, base + 4*k + 1, base + 4*k + 2, base + 4*k + 3] ++ wordReads base (k+1) n

def tailReads (base : Nat) : (ii n : Nat) → List Nat
  | _, 0 => []
  | ii, n+1 => (base + ii) :: tailReads base (ii+1) n

/-- every buffer index the routine reads, in order -/
def readIdx (sz off : Nat) (len : Option Nat) : List Nat :=
  let elen := effLen sz off len
  let eeii := elen - elen % 8
  wordReads off 0 (eeii / 4) ++ tailReads off eeii (elen - eeii)

/-- reference: plain byte sum -/
def sumBytes (buf : List Nat) (off : Nat) : Nat → Nat
  | 0 => 0
  | n+1 => sumBytes buf off n + byteAt buf (off + n)

end Fix8Model.Checksum
