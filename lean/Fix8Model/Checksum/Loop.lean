import Fix8Model.Checksum.Invariant
namespace Fix8Model.Checksum

/-- number of word steps since the last flush, after `k` steps have been done -/
def cnt (k : Nat) : Nat := if k ≤ 64 then k else (k - 1) % 64

theorem cnt_le (k : Nat) : cnt k ≤ 64 := by unfold cnt; split <;> omega

structure Inv (buf : List Nat) (off k : Nat) (r : Regs) : Prop where
  sum : D r.ret % 256 = (sumBytes buf off (4*k) + r.ovf.toNat + D r.tmp) % 256
  l0 : r.tmp.toNat % 256 = 0
  l1 : r.tmp.toNat / 256 % 256 ≤ cnt k
  l2 : r.tmp.toNat / 65536 % 256 ≤ cnt k
  l3 : r.tmp.toNat / 16777216 ≤ cnt k

theorem inv_init (buf : List Nat) (off : Nat) : Inv buf off 0 ⟨0, 0, 0⟩ := by
  constructor <;> simp [D, sumBytes, cnt]

theorem sumBytes_four (buf : List Nat) (off k : Nat) :
    sumBytes buf off (4*(k+1)) = sumBytes buf off (4*k) + byteAt buf (off + 4*k)
      + byteAt buf (off + 4*k + 1) + byteAt buf (off + 4*k + 2) + byteAt buf (off + 4*k + 3) := by
  have : 4*(k+1) = 4*k + 1 + 1 + 1 + 1 := by omega
  rw [this]
  simp only [sumBytes, Nat.add_assoc]

theorem cnt_succ (k : Nat) (hfl : ¬(4 * k ≠ 0 ∧ 4 * k % 256 = 0)) : cnt k + 1 ≤ cnt (k+1) := by
  unfold cnt; split <;> split <;> omega

theorem D_zero : D (0 : W) = 0 := by simp [D]

theorem inv_step (buf : List Nat) (hwf : WFBytes buf) (off k : Nat) (r : Regs)
    (h : Inv buf off k r) : Inv buf off (k+1) (wordStep buf off r (4*k)) := by
  obtain ⟨hsum, l0, l1, l2, l3⟩ := h
  have hD := D_add r.ret (loadWord buf (off + 4*k))
  rw [D_loadWord buf hwf] at hD
  obtain ⟨c1, c2, c3, h1, h2, h3, hC, hx⟩ := carry_word' r.ret (loadWord buf (off + 4*k))
  have hsb := sumBytes_four buf off k
  have hcnt := cnt_le k
  simp only [wordStep]
  generalize ((((r.ret &&& MASK) ^^^ (MASK &&& loadWord buf (off + 4*k))) ^^^
      (r.ret + loadWord buf (off + 4*k))) &&& MASK) = x at *
  obtain ⟨t0, t1, t2, t3⟩ := tmp_add r.tmp x (cnt k) c1 c2 c3 hcnt h1 h2 h3 hx l0 l1 l2 l3
  have hDt := D_tmp_add r.tmp x (cnt k) c1 c2 c3 hcnt h1 h2 h3 hx l0 l1 l2 l3
  split
  · -- flush
    have hcl := collapse_low (r.tmp + x)
    have hovf : (r.ovf + collapse (r.tmp + x)).toNat % 256
        = (r.ovf.toNat + (collapse (r.tmp + x)).toNat) % 256 := by
      rw [BitVec.toNat_add]; exact Nat.mod_mod_of_dvd _ (by decide)
    constructor
    · show D (r.ret + loadWord buf (off + 4*k)) % 256
        = (sumBytes buf off (4*(k+1)) + (r.ovf + collapse (r.tmp + x)).toNat + D (0 : W)) % 256
      rw [D_zero, hsb]
      have := comb_flush (D r.ret) (D (r.ret + loadWord buf (off + 4*k))) (D r.tmp) (D (r.tmp + x))
        r.ovf.toNat (r.ovf + collapse (r.tmp + x)).toNat (collapse (r.tmp + x)).toNat
        (sumBytes buf off (4*k))
        (byteAt buf (off + 4*k) + byteAt buf (off + 4*k + 1) + byteAt buf (off + 4*k + 2)
          + byteAt buf (off + 4*k + 3))
        (C r.ret.toNat (loadWord buf (off + 4*k)).toNat) c1 c2 c3 hsum hD hC hDt hcl hovf
      simpa only [Nat.add_assoc] using this
    · exact Nat.zero_mod _
    · show (0:W).toNat / 256 % 256 ≤ cnt (k+1)
      exact (by decide : (0:W).toNat / 256 % 256 = 0) ▸ Nat.zero_le _
    · show (0:W).toNat / 65536 % 256 ≤ cnt (k+1)
      exact (by decide : (0:W).toNat / 65536 % 256 = 0) ▸ Nat.zero_le _
    · show (0:W).toNat / 16777216 ≤ cnt (k+1)
      exact (by decide : (0:W).toNat / 16777216 = 0) ▸ Nat.zero_le _
  · rename_i hfl
    have hc1 := cnt_succ k hfl
    constructor
    · show D (r.ret + loadWord buf (off + 4*k)) % 256
        = (sumBytes buf off (4*(k+1)) + r.ovf.toNat + D (r.tmp + x)) % 256
      rw [hsb]
      have := comb_noflush (D r.ret) (D (r.ret + loadWord buf (off + 4*k))) (D r.tmp) (D (r.tmp + x))
        r.ovf.toNat (sumBytes buf off (4*k))
        (byteAt buf (off + 4*k) + byteAt buf (off + 4*k + 1) + byteAt buf (off + 4*k + 2)
          + byteAt buf (off + 4*k + 3))
        (C r.ret.toNat (loadWord buf (off + 4*k)).toNat) c1 c2 c3 hsum hD hC hDt
      simpa only [Nat.add_assoc] using this
    · show (r.tmp + x).toNat % 256 = 0
      exact t0
    · show (r.tmp + x).toNat / 256 % 256 ≤ cnt (k+1)
      rw [t1]; exact Nat.le_trans (Nat.add_le_add l1 h1) hc1
    · show (r.tmp + x).toNat / 65536 % 256 ≤ cnt (k+1)
      rw [t2]; exact Nat.le_trans (Nat.add_le_add l2 h2) hc1
    · show (r.tmp + x).toNat / 16777216 ≤ cnt (k+1)
      rw [t3]; exact Nat.le_trans (Nat.add_le_add l3 h3) hc1

theorem inv_loop (buf : List Nat) (hwf : WFBytes buf) (off : Nat) :
    ∀ (n k : Nat) (r : Regs), Inv buf off k r → Inv buf off (k+n) (wordLoop buf off k n r)
  | 0, k, r, h => by simpa [wordLoop] using h
  | n+1, k, r, h => by
      have := inv_loop buf hwf off n (k+1) _ (inv_step buf hwf off k r h)
      simpa [wordLoop, Nat.add_assoc, Nat.add_comm 1 n] using this

end Fix8Model.Checksum
