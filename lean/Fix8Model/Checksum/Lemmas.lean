import Fix8Model.Checksum.Model
/-! Helper lemmas for the checksum proof (property statements are in `Props/C07.lean`). -/
namespace Fix8Model.Checksum

theorem and_split (a b k : Nat) :
    a &&& b = 2^k * ((a / 2^k) &&& (b / 2^k)) + ((a % 2^k) &&& (b % 2^k)) := by
  rw [← Nat.and_mod_two_pow, ← Nat.and_div_two_pow, Nat.div_add_mod]

theorem nat_mask (y : Nat) :
    y &&& 0x01010100 = (y / 2^8 % 2) * 2^8 + (y / 2^16 % 2) * 2^16 + (y / 2^24 % 2) * 2^24 := by
  rw [and_split y _ 8]
  have h0 : (y % 2^8) &&& (0x01010100 % 2^8) = 0 := by simp
  rw [h0, and_split (y / 2^8) _ 8]
  have h1 : (0x01010100 / 2^8 % 2^8) = 1 := by decide
  have h2 : (0x01010100 / 2^8 / 2^8) = 0x0101 := by decide
  rw [h1, h2, Nat.and_one_is_mod, and_split (y / 2^8 / 2^8) _ 8]
  have h3 : (0x0101 % 2^8) = 1 := by decide
  have h4 : (0x0101 / 2^8) = 1 := by decide
  rw [h3, h4, Nat.and_one_is_mod, Nat.and_one_is_mod]
  omega

theorem xor_carry_bit (a b : W) (j : Nat) (hj : j < 32) :
    (a ^^^ b ^^^ (a + b)).getLsbD j = decide (a.toNat % 2^j + b.toNat % 2^j ≥ 2^j) := by
  rw [BitVec.getLsbD_xor, BitVec.getLsbD_xor, BitVec.getLsbD_add hj]
  cases a.getLsbD j <;> cases b.getLsbD j <;> simp [BitVec.carry]

theorem div_mod_two_eq (y j : Nat) : y / 2^j % 2 = (y.testBit j).toNat := by
  rcases Nat.mod_two_eq_zero_or_one (y / 2^j) with h | h <;>
    simp [Nat.testBit, Nat.shiftRight_eq_div_pow, h]

theorem carry_bit_nat (a b : W) (j : Nat) (hj : j < 32) :
    (a ^^^ b ^^^ (a + b)).toNat / 2^j % 2 = (a.toNat % 2^j + b.toNat % 2^j) / 2^j := by
  rw [div_mod_two_eq, ← BitVec.getLsbD, xor_carry_bit a b j hj]
  have h1 : a.toNat % 2^j < 2^j := Nat.mod_lt _ (Nat.two_pow_pos j)
  have h2 : b.toNat % 2^j < 2^j := Nat.mod_lt _ (Nat.two_pow_pos j)
  by_cases h : a.toNat % 2^j + b.toNat % 2^j ≥ 2^j
  · simp only [h, decide_true, Bool.toNat_true]
    have : (a.toNat % 2^j + b.toNat % 2^j) / 2^j = 1 := by
      apply Nat.div_eq_of_lt_le <;> omega
    omega
  · simp only [h, decide_false, Bool.toNat_false]
    rw [Nat.div_eq_of_lt]; omega

theorem mask_expected (a b s : W) :
    (((a &&& MASK) ^^^ (MASK &&& b)) ^^^ s) &&& MASK = (a ^^^ b ^^^ s) &&& MASK := by
  ext i hi
  simp only [BitVec.getElem_and, BitVec.getElem_xor]
  cases a[i] <;> cases b[i] <;> cases s[i] <;> cases MASK[i] <;> rfl

/-- the word accumulated into `overflowtmp` is exactly the carries into bits 8, 16, 24 -/
theorem carry_word (a b : W) :
    ((((a &&& MASK) ^^^ (MASK &&& b)) ^^^ (a + b)) &&& MASK).toNat
      = ((a.toNat % 2^8 + b.toNat % 2^8) / 2^8) * 2^8
        + ((a.toNat % 2^16 + b.toNat % 2^16) / 2^16) * 2^16
        + ((a.toNat % 2^24 + b.toNat % 2^24) / 2^24) * 2^24 := by
  rw [mask_expected, BitVec.toNat_and]
  have hm : MASK.toNat = 0x01010100 := rfl
  rw [hm, nat_mask, carry_bit_nat a b 8 (by omega), carry_bit_nat a b 16 (by omega),
    carry_bit_nat a b 24 (by omega)]

/-- sum of the four base-256 digits -/
def D (x : W) : Nat :=
  x.toNat % 256 + x.toNat / 256 % 256 + x.toNat / 65536 % 256 + x.toNat / 16777216

theorem collapse_low (x : W) : (collapse x).toNat % 256 = D x % 256 := by
  have := x.isLt
  simp only [collapse, D, BitVec.toNat_add, BitVec.toNat_ushiftRight, Nat.shiftRight_eq_div_pow]
  omega

end Fix8Model.Checksum
