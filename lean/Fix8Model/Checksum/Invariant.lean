import Fix8Model.Checksum.Lemmas
namespace Fix8Model.Checksum

theorem byteAt_lt (buf : List Nat) (h : WFBytes buf) (i : Nat) : byteAt buf i < 256 := by
  unfold byteAt
  rw [List.getD_eq_getElem?_getD]
  cases hi : buf[i]? with
  | none => simp
  | some b => simpa using h b (List.mem_of_getElem? hi)

theorem digits (x : Nat) :
    x % 65536 = x % 256 + 256 * (x / 256 % 256) ∧ x % 16777216 = x % 65536 + 65536 * (x / 65536 % 256)
    ∧ x = x % 16777216 + 16777216 * (x / 16777216) := by
  refine ⟨?_, ?_, ?_⟩ <;> omega

theorem digits_unique (n d0 d1 d2 d3 : Nat) (h : n = d0 + 256 * d1 + 65536 * d2 + 16777216 * d3)
    (h0 : d0 < 256) (h1 : d1 < 256) (h2 : d2 < 256) :
    n % 256 = d0 ∧ n / 256 % 256 = d1 ∧ n / 65536 % 256 = d2 ∧ n / 16777216 = d3 := by
  refine ⟨?_, ?_, ?_, ?_⟩ <;> omega

theorem modsum (a b m k : Nat) : ((a + b) % (m * k)) % m = (a % m + b % m) % m := by
  rw [Nat.mod_mul_right_mod, Nat.add_mod]

theorem lane (a b m k : Nat) :
    a % m + b % m = ((a + b) % (m * k)) % m + m * ((a % m + b % m) / m) := by
  rw [modsum]; exact (Nat.mod_add_div _ _).symm

theorem carry_le (a b m : Nat) (hm : 0 < m) : (a % m + b % m) / m ≤ 1 := by
  have h1 := Nat.mod_lt a hm
  have h2 := Nat.mod_lt b hm
  have : (a % m + b % m) / m < 2 := by
    apply Nat.div_lt_of_lt_mul; omega
  omega

/-- the three carries of `a + b` into bits 8, 16 and 24 -/
def C (a b : Nat) : Nat :=
  (a % 256 + b % 256) / 256 + (a % 65536 + b % 65536) / 65536 + (a % 16777216 + b % 16777216) / 16777216

theorem D_add_nat (a b : Nat) :
    ((a + b) % 4294967296 % 256 + (a + b) % 4294967296 / 256 % 256 + (a + b) % 4294967296 / 65536 % 256
        + (a + b) % 4294967296 / 16777216) % 256
      = ((a % 256 + a / 256 % 256 + a / 65536 % 256 + a / 16777216)
        + (b % 256 + b / 256 % 256 + b / 65536 % 256 + b / 16777216) + C a b) % 256 := by
  unfold C
  obtain ⟨da1, da2, da3⟩ := digits a
  obtain ⟨db1, db2, db3⟩ := digits b
  obtain ⟨ds1, ds2, ds3⟩ := digits ((a + b) % 4294967296)
  have e1 := lane a b 256 16777216
  have e2 := lane a b 65536 65536
  have e3 := lane a b 16777216 256
  have e4 : a + b = (a + b) % 4294967296 + 4294967296 * ((a + b) / 4294967296) := (Nat.mod_add_div _ _).symm
  have hc1 := carry_le a b 256 (by decide)
  have hc2 := carry_le a b 65536 (by decide)
  have hc3 := carry_le a b 16777216 (by decide)
  simp only [show 256 * 16777216 = 4294967296 from rfl, show 65536 * 65536 = 4294967296 from rfl,
    show 16777216 * 256 = 4294967296 from rfl] at e1 e2 e3
  generalize (a + b) % 4294967296 = s at *
  generalize (a + b) / 4294967296 = c4 at *
  generalize (a % 256 + b % 256) / 256 = c1 at *
  generalize (a % 65536 + b % 65536) / 65536 = c2 at *
  generalize (a % 16777216 + b % 16777216) / 16777216 = c3 at *
  generalize a % 256 = a0 at *
  generalize a / 256 % 256 = a1 at *
  generalize a / 65536 % 256 = a2 at *
  generalize a / 16777216 = a3 at *
  generalize b % 256 = b0 at *
  generalize b / 256 % 256 = b1 at *
  generalize b / 65536 % 256 = b2 at *
  generalize b / 16777216 = b3 at *
  generalize s % 256 = s0 at *
  generalize s / 256 % 256 = s1 at *
  generalize s / 65536 % 256 = s2 at *
  generalize s / 16777216 = s3 at *
  generalize a % 65536 = a16 at *
  generalize a % 16777216 = a24 at *
  generalize b % 65536 = b16 at *
  generalize b % 16777216 = b24 at *
  generalize s % 65536 = s16 at *
  generalize s % 16777216 = s24 at *
  omega

theorem D_add (a b : W) : D (a + b) % 256 = (D a + D b + C a.toNat b.toNat) % 256 := by
  simp only [D, BitVec.toNat_add]
  exact D_add_nat a.toNat b.toNat

theorem carry_word' (a b : W) :
    ∃ c1 c2 c3 : Nat, c1 ≤ 1 ∧ c2 ≤ 1 ∧ c3 ≤ 1 ∧ C a.toNat b.toNat = c1 + c2 + c3 ∧
      ((((a &&& MASK) ^^^ (MASK &&& b)) ^^^ (a + b)) &&& MASK).toNat
        = 256 * c1 + 65536 * c2 + 16777216 * c3 := by
  refine ⟨_, _, _, carry_le a.toNat b.toNat 256 (by decide), carry_le a.toNat b.toNat 65536 (by decide),
    carry_le a.toNat b.toNat 16777216 (by decide), rfl, ?_⟩
  rw [carry_word]
  simp only [show (2:Nat)^8 = 256 from rfl, show (2:Nat)^16 = 65536 from rfl,
    show (2:Nat)^24 = 16777216 from rfl, Nat.mul_comm]

theorem D_loadWord (buf : List Nat) (h : WFBytes buf) (i : Nat) :
    D (loadWord buf i) = byteAt buf i + byteAt buf (i+1) + byteAt buf (i+2) + byteAt buf (i+3) := by
  have h0 := byteAt_lt buf h i
  have h1 := byteAt_lt buf h (i+1)
  have h2 := byteAt_lt buf h (i+2)
  have h3 := byteAt_lt buf h (i+3)
  have e : (loadWord buf i).toNat = byteAt buf i + 256 * byteAt buf (i+1) + 65536 * byteAt buf (i+2)
      + 16777216 * byteAt buf (i+3) := by
    simp only [loadWord, BitVec.toNat_ofNat]
    apply Nat.mod_eq_of_lt
    omega
  obtain ⟨e0, e1, e2, e3⟩ := digits_unique _ _ _ _ _ e h0 h1 h2
  simp only [D, e0, e1, e2, e3]

/-- adding the carry word to `overflowtmp` whose lanes are small: lanes add up separately -/
theorem tmp_add (t x : W) (c c1 c2 c3 : Nat) (hc : c ≤ 64) (h1 : c1 ≤ 1) (h2 : c2 ≤ 1) (h3 : c3 ≤ 1)
    (hx : x.toNat = 256 * c1 + 65536 * c2 + 16777216 * c3)
    (l0 : t.toNat % 256 = 0) (l1 : t.toNat / 256 % 256 ≤ c) (l2 : t.toNat / 65536 % 256 ≤ c)
    (l3 : t.toNat / 16777216 ≤ c) :
    (t + x).toNat % 256 = 0 ∧ (t + x).toNat / 256 % 256 = t.toNat / 256 % 256 + c1
      ∧ (t + x).toNat / 65536 % 256 = t.toNat / 65536 % 256 + c2
      ∧ (t + x).toNat / 16777216 = t.toNat / 16777216 + c3 := by
  obtain ⟨d1, d2, d3⟩ := digits t.toNat
  have hsum : (t + x).toNat = 0 + 256 * (t.toNat / 256 % 256 + c1) + 65536 * (t.toNat / 65536 % 256 + c2)
      + 16777216 * (t.toNat / 16777216 + c3) := by
    rw [BitVec.toNat_add, hx]
    generalize t.toNat / 256 % 256 = t1 at *
    generalize t.toNat / 65536 % 256 = t2 at *
    generalize t.toNat / 16777216 = t3 at *
    generalize t.toNat % 65536 = t16 at *
    generalize t.toNat % 16777216 = t24 at *
    generalize t.toNat % 256 = t0 at *
    generalize t.toNat = tn at *
    apply Eq.trans (Nat.mod_eq_of_lt (by omega))
    omega
  exact digits_unique _ _ _ _ _ hsum (by decide) (by omega) (by omega)

theorem D_tmp_add (t x : W) (c c1 c2 c3 : Nat) (hc : c ≤ 64) (h1 : c1 ≤ 1) (h2 : c2 ≤ 1) (h3 : c3 ≤ 1)
    (hx : x.toNat = 256 * c1 + 65536 * c2 + 16777216 * c3)
    (l0 : t.toNat % 256 = 0) (l1 : t.toNat / 256 % 256 ≤ c) (l2 : t.toNat / 65536 % 256 ≤ c)
    (l3 : t.toNat / 16777216 ≤ c) : D (t + x) = D t + c1 + c2 + c3 := by
  obtain ⟨t0, t1, t2, t3⟩ := tmp_add t x c c1 c2 c3 hc h1 h2 h3 hx l0 l1 l2 l3
  simp only [D]
  rw [t0, t1, t2, t3, l0]
  generalize t.toNat / 256 % 256 = a1
  generalize t.toNat / 65536 % 256 = a2
  generalize t.toNat / 16777216 = a3
  omega

theorem comb_noflush (dr dr' dt dt' ov sb bs cc c1 c2 c3 : Nat) (hsum : dr % 256 = (sb + ov + dt) % 256)
    (hD : dr' % 256 = (dr + bs + cc) % 256) (hC : cc = c1 + c2 + c3) (hDt : dt' = dt + c1 + c2 + c3) :
    dr' % 256 = (sb + bs + ov + dt') % 256 := by omega

theorem comb_flush (dr dr' dt dt' ov ov' cl sb bs cc c1 c2 c3 : Nat) (hsum : dr % 256 = (sb + ov + dt) % 256)
    (hD : dr' % 256 = (dr + bs + cc) % 256) (hC : cc = c1 + c2 + c3) (hDt : dt' = dt + c1 + c2 + c3)
    (hcl : cl % 256 = dt' % 256) (hovf : ov' % 256 = (ov + cl) % 256) :
    dr' % 256 = (sb + bs + ov' + 0) % 256 := by omega

end Fix8Model.Checksum
