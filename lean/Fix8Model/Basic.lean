def hello := "world"
