import Fix8Model.Store.Model
namespace Fix8Model.Store

/-! ### memory persister ≃ specification -/

def Mem.abs (m : Mem) : Spec := ⟨m.store, m.ctrl⟩

theorem mem_step (m : Mem) (op : Op) :
    (Mem.step m op).2 = (Spec.step m.abs op).2 ∧ (Mem.step m op).1.abs = (Spec.step m.abs op).1 := by
  cases op <;> simp only [Mem.step, Spec.step, Mem.abs]
  case put seq msg =>
    by_cases h0 : seq = 0
    · simp [h0]
    · by_cases hk : hasKey m.store seq = true
      · simp [h0, hk]
      · simp [h0, hk]
  all_goals (first | exact ⟨rfl, rfl⟩ | simp)

theorem mem_run (ops : List Op) : ∀ m : Mem, runWith Mem.step m ops = runWith Spec.step m.abs ops := by
  induction ops with
  | nil => intro m; rfl
  | cons op ops ih =>
    intro m
    obtain ⟨h1, h2⟩ := mem_step m op
    simp only [runWith, h1, ih, h2]

/-! ### file persister ≃ specification -/

def File.slice (f : File) (e : Nat × (Nat × Nat)) : Nat × Bytes := (e.1, (f.data.drop e.2.1).take e.2.2)

def File.abs (f : File) : Spec := ⟨f.index.map f.slice, f.ctrl⟩

/-- every index entry lies inside the data file -/
def File.Inv (f : File) : Prop := ∀ e ∈ f.index, e.2.1 + e.2.2 ≤ f.data.length

theorem lookup_map {α β : Type} (l : List (Nat × α)) (g : Nat × α → Nat × β) (hg : ∀ e, (g e).1 = e.1) (k : Nat) :
    lookup (l.map g) k = (l.find? (fun p => p.1 == k)).map (fun e => (g e).2) := by
  unfold lookup
  induction l with
  | nil => rfl
  | cons a t ih =>
    simp only [List.map_cons, List.find?_cons, hg]
    by_cases h : a.1 == k
    · simp [h]
    · simp only [h]
      exact ih

theorem hasKey_map {α β : Type} (l : List (Nat × α)) (g : Nat × α → Nat × β) (hg : ∀ e, (g e).1 = e.1) (k : Nat) :
    hasKey (l.map g) k = hasKey l k := by
  unfold hasKey
  rw [lookup_map l g hg k]
  unfold lookup
  cases l.find? (fun p => p.1 == k) <;> rfl

theorem hasKey_map_fun {α β : Type} (l : List (Nat × α)) (g : Nat × α → Nat × β) (hg : ∀ e, (g e).1 = e.1) :
    hasKey (l.map g) = hasKey l := funext (hasKey_map l g hg)

theorem maxKey_map {α β : Type} (l : List (Nat × α)) (g : Nat × α → Nat × β) (hg : ∀ e, (g e).1 = e.1) :
    maxKey (l.map g) = maxKey l := by
  unfold maxKey
  suffices h : ∀ m, (l.map g).foldl (fun m p => max m p.1) m = l.foldl (fun m p => max m p.1) m from h 0
  induction l with
  | nil => intro m; rfl
  | cons a t ih => intro m; simp only [List.map_cons, List.foldl_cons, hg, ih]

theorem slice_fst (f : File) (e : Nat × (Nat × Nat)) : (f.slice e).1 = e.1 := rfl

theorem drop_take_append (d m : Bytes) (off sz : Nat) (h : off + sz ≤ d.length) :
    ((d ++ m).drop off).take sz = (d.drop off).take sz := by
  rw [List.drop_append_of_le_length (by omega), List.take_append_of_le_length (by simp; omega)]

theorem file_step (f : File) (hinv : f.Inv) (op : Op) :
    (File.step f op).2 = (Spec.step f.abs op).2 ∧ (File.step f op).1.abs = (Spec.step f.abs op).1 ∧
      (File.step f op).1.Inv := by
  have hk := hasKey_map_fun f.index f.slice (slice_fst f)
  have hm := maxKey_map f.index f.slice (slice_fst f)
  cases op <;> simp only [File.step, Spec.step, File.abs, hk, hm]
  case put seq msg =>
    by_cases h0 : seq = 0
    · simp [h0, hinv]
    · by_cases hkk : hasKey f.index seq = true
      · simp [h0, hkk, hinv]
      · simp only [h0, hkk, if_false, false_or, Bool.false_eq_true]
        refine ⟨trivial, ?_, ?_⟩
        · simp only [List.map_append, List.map_cons, List.map_nil, File.slice]
          congr 1
          · congr 1
            · apply List.map_congr_left
              intro e he
              have := hinv e he
              simp only [File.slice]
              rw [drop_take_append _ _ _ _ this]
            · simp
        · intro e he
          simp only [List.mem_append, List.mem_singleton] at he
          rcases he with he | he
          · have := hinv e he; simp only [List.length_append]; omega
          · subst he; simp
  case get seq =>
    refine ⟨?_, by simp, hinv⟩
    by_cases h0 : seq = 0
    · simp [h0]
    · simp only [h0, if_false]
      rw [lookup_map f.index f.slice (slice_fst f)]
      unfold lookup
      cases hf : f.index.find? (fun p => p.1 == seq) with
      | none => rfl
      | some e =>
        have he := hinv e (List.mem_of_find?_eq_some hf)
        simp [File.read, File.slice, he]
  all_goals (first | exact ⟨rfl, rfl, hinv⟩ | exact ⟨trivial, trivial, hinv⟩ | exact ⟨trivial, rfl, hinv⟩ | exact ⟨rfl, trivial, hinv⟩ | simp [hinv])

theorem file_run (ops : List Op) : ∀ f : File, f.Inv → runWith File.step f ops = runWith Spec.step f.abs ops := by
  induction ops with
  | nil => intro f _; rfl
  | cons op ops ih =>
    intro f hinv
    obtain ⟨h1, h2, h3⟩ := file_step f hinv op
    simp only [runWith, h1, ih _ h3, h2]

end Fix8Model.Store
