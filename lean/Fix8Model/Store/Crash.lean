import Fix8Model.Store.Model
/-!
Crash model of `FilePersister` (runtime/filepersist.cpp after the put-order fix): the two files at
the granularity of completed `write` system calls.  A crash after k completed writes is modelled by a
write budget: once it is used up every later write fails and changes nothing on disk; `reopen`
rebuilds the in-memory index from the index file as `initialise` does.

Index file layout: record 0 is the control record if a control store happened first (`ctrlSlot`);
message records follow in append order (`recs`).  A control store when record 0 is a message
record overwrites that record (the known finding "message stored before any control record").
-/
namespace Fix8Model.Store

structure FS where
  mem : List (Nat × (Nat × Nat))       -- in-memory `_index`, message keys
  memCtrl : Option (Nat × Nat)         -- in-memory `_index[0]`
  ctrlSlot : Option (Nat × Nat)        -- index file record 0 when it is a control record
  recs : List (Nat × (Nat × Nat))      -- index file message records in file order
  data : Bytes                         -- data file
  budget : Option Nat                  -- completed writes still allowed (none = no crash)
  started : List (Nat × Bytes)         -- ghost: puts whose data write completed
  done : List (Nat × Bytes)            -- ghost: puts whose index write completed (store completed)
  ctrlDone : Option (Nat × Nat)        -- ghost: last completed control store
deriving Repr

def FS.init : FS := ⟨[], none, none, [], [], none, [], [], none⟩

/-- try to spend one write; `none` = the write fails -/
def FS.spend (s : FS) : Option FS :=
  match s.budget with
  | none => some s
  | some 0 => none
  | some (n + 1) => some { s with budget := some n }

def FS.put (s : FS) (seq : Nat) (m : Bytes) : FS × Bool :=
  if seq = 0 ∨ hasKey s.mem seq then (s, false)
  else
    match s.spend with                                   -- write(_fod, data)
    | none => (s, false)
    | some s1 =>
      let off := s1.data.length
      let s2 := { s1 with data := s1.data ++ m, started := s1.started ++ [(seq, m)] }
      match s2.spend with                                -- write(_iod, index record)
      | none => (s2, false)
      | some s3 =>
        ({ s3 with recs := s3.recs ++ [(seq, (off, m.length))], mem := s3.mem ++ [(seq, (off, m.length))],
                   done := s3.done ++ [(seq, m)] }, true)

def FS.cput (s : FS) (a b : Nat) : FS × Bool :=
  let s0 := { s with memCtrl := some (a, b) }            -- `_index[0]` is updated before the write
  match s0.spend with                                    -- lseek(_iod, 0); write(_iod, control record)
  | none => (s0, false)
  | some s1 =>
    let recs' := if s1.ctrlSlot.isNone then s1.recs.tail else s1.recs   -- slot 0 held a message record
    ({ s1 with ctrlSlot := some (a, b), recs := recs', ctrlDone := some (a, b) }, true)

/-- `initialise` on existing files: insert-if-absent of every index record in file order -/
def FS.reopen (s : FS) : FS :=
  let mem := s.recs.foldl (fun acc r => if hasKey acc r.1 ∨ r.1 = 0 then acc else acc ++ [r]) []
  { s with mem := mem, memCtrl := s.ctrlSlot, budget := none }

def FS.get (s : FS) (seq : Nat) : Option Bytes :=
  if seq = 0 then none else
  match lookup s.mem seq with
  | some (off, sz) => if off + sz ≤ s.data.length then some ((s.data.drop off).take sz) else none
  | none => none

inductive COp
  | put (seq : Nat) (m : Bytes)
  | cput (a b : Nat)
deriving Repr, DecidableEq

def FS.step (s : FS) : COp → FS
  | .put seq m => (s.put seq m).1
  | .cput a b => (s.cput a b).1

def FS.run (s : FS) (ops : List COp) : FS := ops.foldl FS.step s

end Fix8Model.Store
