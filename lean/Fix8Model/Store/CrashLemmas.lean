import Fix8Model.Store.Crash
namespace Fix8Model.Store

def slice (d : Bytes) (r : Nat × (Nat × Nat)) : Bytes := (d.drop r.2.1).take r.2.2

structure FS.Inv (s : FS) : Prop where
  recs_ok : ∀ r ∈ s.recs, r.1 ≠ 0 ∧ r.2.1 + r.2.2 ≤ s.data.length ∧ (r.1, slice s.data r) ∈ s.started
  nodup : (s.recs.map (·.1)).Nodup
  done_ok : ∀ p ∈ s.done, ∃ r ∈ s.recs, r.1 = p.1 ∧ slice s.data r = p.2
  ctrl_ok : s.ctrlSlot = s.ctrlDone
  ctrl_first : s.ctrlSlot.isSome = true ∨ (s.budget = some 0 ∧ s.recs = [])
  mem_has : ∀ r ∈ s.recs, hasKey s.mem r.1 = true

theorem spend_fields (s s1 : FS) (h : s.spend = some s1) :
    s1.mem = s.mem ∧ s1.memCtrl = s.memCtrl ∧ s1.ctrlSlot = s.ctrlSlot ∧ s1.recs = s.recs ∧ s1.data = s.data ∧
    s1.started = s.started ∧ s1.done = s.done ∧ s1.ctrlDone = s.ctrlDone ∧ s.budget ≠ some 0 := by
  unfold FS.spend at h
  split at h
  · cases h; rename_i hb; simp [hb]
  · cases h
  · cases h; rename_i n hb; simp [hb]

theorem spend_none (s : FS) (h : s.spend = none) : s.budget = some 0 := by
  unfold FS.spend at h
  cases hb : s.budget with
  | none => simp [hb] at h
  | some n =>
    cases n with
    | zero => rfl
    | succ n => simp [hb] at h

theorem spend_budget_zero (s s1 : FS) (h : s.spend = some s1) (hz : s1.budget = some 0) (hr : s.recs = []) :
    s1.recs = [] := by
  have := spend_fields s s1 h; rw [this.2.2.2.1]; exact hr

theorem slice_append (d m : Bytes) (r : Nat × (Nat × Nat)) (h : r.2.1 + r.2.2 ≤ d.length) :
    slice (d ++ m) r = slice d r := by
  unfold slice
  rw [List.drop_append_of_le_length (by omega), List.take_append_of_le_length (by simp; omega)]

theorem slice_new (d m : Bytes) (seq : Nat) : slice (d ++ m) (seq, (d.length, m.length)) = m := by
  simp [slice]

theorem hasKey_append {α : Type} (l : List (Nat × α)) (e : Nat × α) (k : Nat) :
    hasKey (l ++ [e]) k = (hasKey l k || e.1 == k) := by
  unfold hasKey lookup
  rw [List.find?_append]
  cases h : l.find? (fun p => p.1 == k) with
  | some x => simp
  | none =>
    simp only [Option.none_or, List.find?_cons, List.find?_nil]
    by_cases hk : e.1 == k <;> simp [hk]

theorem inv_put (s : FS) (hi : s.Inv) (seq : Nat) (m : Bytes) : (s.put seq m).1.Inv := by
  unfold FS.put
  split
  · exact hi
  · rename_i hc
    have hseq : seq ≠ 0 := fun h => hc (Or.inl h)
    have hnk : hasKey s.mem seq = false := by
      cases hk : hasKey s.mem seq with
      | false => rfl
      | true => exact absurd (Or.inr hk) hc
    cases h1 : s.spend with
    | none => exact hi
    | some s1 =>
      obtain ⟨f1, f2, f3, f4, f5, f6, f7, f8, f9⟩ := spend_fields s s1 h1
      simp only
      have hcf1 : s1.ctrlSlot.isSome = true := by
        rcases hi.ctrl_first with h | ⟨h, _⟩
        · rw [f3]; exact h
        · exact absurd h f9
      -- state after the data write
      have hi2 : FS.Inv { s1 with data := s1.data ++ m, started := s1.started ++ [(seq, m)] } := by
        refine ⟨?_, by simpa [f4] using hi.nodup, ?_, by simp [f3, f8, hi.ctrl_ok], Or.inl (by simpa using hcf1), ?_⟩
        · intro r hr
          simp only [f4] at hr
          obtain ⟨a, b, c⟩ := hi.recs_ok r hr
          refine ⟨a, by simp [f5]; omega, ?_⟩
          simp only [f5, f6]
          rw [slice_append _ _ _ b]
          exact List.mem_append_left _ c
        · intro p hp
          simp only [f7] at hp
          obtain ⟨r, hr, e1, e2⟩ := hi.done_ok p hp
          refine ⟨r, by simpa [f4] using hr, e1, ?_⟩
          simp only [f5]
          rw [slice_append _ _ _ (hi.recs_ok r hr).2.1]; exact e2
        · intro r hr; simp only [f4] at hr; simpa [f1] using hi.mem_has r hr
      cases h2 : FS.spend { s1 with data := s1.data ++ m, started := s1.started ++ [(seq, m)] } with
      | none => exact hi2
      | some s3 =>
        obtain ⟨g1, g2, g3, g4, g5, g6, g7, g8, g9⟩ := spend_fields _ s3 h2
        simp only at g1 g2 g3 g4 g5 g6 g7 g8
        simp only
        have hnotin : seq ∉ s.recs.map (·.1) := by
          intro hmem
          obtain ⟨r, hr, he⟩ := List.mem_map.mp hmem
          have := hi.mem_has r hr
          rw [he, hnk] at this; cases this
        refine ⟨?_, ?_, ?_, by simp [g3, g8, f3, f8, hi.ctrl_ok], Or.inl (by simp [g3, hcf1]), ?_⟩
        · intro r hr
          simp only [g4, f4, List.mem_append, List.mem_singleton] at hr
          rcases hr with hr | hr
          · have := hi2.recs_ok r (by simpa [f4] using hr)
            simpa [g5, g6] using this
          · subst hr
            refine ⟨hseq, by simp [g5, f5], ?_⟩
            simp only [g5, g6, f5]
            rw [slice_new]
            simp
        · simp only [g4, f4, List.map_append, List.map_cons, List.map_nil]
          rw [List.nodup_append]
          refine ⟨hi.nodup, by simp, ?_⟩
          intro a ha b hb
          simp at hb; subst hb
          intro hab; subst hab; exact hnotin ha
        · intro p hp
          simp only [g7, f7, List.mem_append, List.mem_singleton] at hp
          rcases hp with hp | hp
          · obtain ⟨r, hr, e1, e2⟩ := hi2.done_ok p (by simpa [f7] using hp)
            exact ⟨r, by simp only [g4]; exact List.mem_append_left _ hr, e1, by simpa [g5] using e2⟩
          · subst hp
            refine ⟨(seq, (s1.data.length, m.length)), by simp [g4], rfl, ?_⟩
            simp only [g5]; exact slice_new _ _ _
        · intro r hr
          simp only [g4, f4, List.mem_append, List.mem_singleton] at hr
          simp only [g1, f1]
          rw [hasKey_append]
          rcases hr with hr | hr
          · simp [hi.mem_has r hr]
          · subst hr; simp

theorem inv_cput (s : FS) (hi : s.Inv) (a b : Nat) : (s.cput a b).1.Inv := by
  unfold FS.cput
  cases h1 : FS.spend { s with memCtrl := some (a, b) } with
  | none =>
    try simp only [h1]
    try simp only
    exact ⟨hi.recs_ok, hi.nodup, hi.done_ok, hi.ctrl_ok, hi.ctrl_first, hi.mem_has⟩
  | some s1 =>
    try simp only [h1]
    obtain ⟨f1, f2, f3, f4, f5, f6, f7, f8, f9⟩ := spend_fields _ s1 h1
    try simp only at f1 f2 f3 f4 f5 f6 f7 f8 f9
    try simp only
    have hrecs : (if s1.ctrlSlot.isNone then s1.recs.tail else s1.recs) = s.recs := by
      rcases hi.ctrl_first with h | ⟨h, hr⟩
      · have : s1.ctrlSlot.isNone = false := by rw [f3]; cases hs : s.ctrlSlot <;> simp_all
        simp [this, f4]
      · exact absurd h f9
    rw [hrecs]
    exact ⟨by simpa [f5, f6] using hi.recs_ok, hi.nodup, by simpa [f5, f7] using hi.done_ok, rfl, Or.inl rfl,
      by simpa [f1] using hi.mem_has⟩

/-- the first operation is a control store: the invariant is established whatever the budget -/
theorem inv_first_gen (s : FS) (hm : s.mem = []) (hc : s.ctrlSlot = none) (hr : s.recs = []) (hd : s.done = [])
    (hcd : s.ctrlDone = none) (a b : Nat) : (s.cput a b).1.Inv := by
  unfold FS.cput
  cases h1 : FS.spend { s with memCtrl := some (a, b) } with
  | none =>
    try simp only [h1]
    have hb := spend_none _ h1
    try simp only at hb
    try simp only
    exact ⟨by intro r hr'; simp [hr] at hr', by simp [hr], by intro p hp; simp [hd] at hp, by rw [hc, hcd],
      Or.inr ⟨hb, hr⟩, by intro r hr'; simp [hr] at hr'⟩
  | some s1 =>
    try simp only [h1]
    obtain ⟨f1, f2, f3, f4, f5, f6, f7, f8, f9⟩ := spend_fields _ s1 h1
    try simp only at f1 f2 f3 f4 f5 f6 f7 f8 f9
    try simp only
    have hrecs : (if s1.ctrlSlot.isNone then s1.recs.tail else s1.recs) = [] := by
      rw [f3, f4, hc, hr]; simp
    rw [hrecs]
    exact ⟨(by intro r hr'; cases hr'), (by simp), (by intro p hp; simp [f7, hd] at hp), rfl, Or.inl rfl,
      (by intro r hr'; cases hr')⟩

theorem inv_first (k : Option Nat) (a b : Nat) : (({ FS.init with budget := k } : FS).cput a b).1.Inv :=
  inv_first_gen _ rfl rfl rfl rfl rfl a b

theorem inv_run (ops : List COp) : ∀ s : FS, s.Inv → (s.run ops).Inv := by
  induction ops with
  | nil => intro s h; exact h
  | cons op ops ih =>
    intro s h
    apply ih
    cases op with
    | put seq m => exact inv_put s h seq m
    | cput a b => exact inv_cput s h a b

/-- rebuilding the index from duplicate-free non-zero records gives back exactly those records -/
theorem reopen_fold (recs : List (Nat × (Nat × Nat))) (hn : (recs.map (·.1)).Nodup) (hz : ∀ r ∈ recs, r.1 ≠ 0) :
    ∀ acc : List (Nat × (Nat × Nat)), (∀ r ∈ recs, hasKey acc r.1 = false) →
      recs.foldl (fun acc r => if hasKey acc r.1 ∨ r.1 = 0 then acc else acc ++ [r]) acc = acc ++ recs := by
  induction recs with
  | nil => intro acc _; simp
  | cons r t ih =>
    intro acc hacc
    simp only [List.foldl_cons]
    have h1 : hasKey acc r.1 = false := hacc r (by simp)
    have h2 : r.1 ≠ 0 := hz r (by simp)
    simp only [h1, h2, or_self, if_false, Bool.false_eq_true]
    rw [List.map_cons, List.nodup_cons] at hn
    rw [ih hn.2 (fun x hx => hz x (List.mem_cons_of_mem _ hx))]
    · simp
    · intro x hx
      rw [hasKey_append, hacc x (List.mem_cons_of_mem _ hx)]
      have : r.1 ≠ x.1 := fun he => hn.1 (he ▸ List.mem_map_of_mem hx)
      simp [this]

theorem lookup_mem {α : Type} (l : List (Nat × α)) (hn : (l.map (·.1)).Nodup) (e : Nat × α) (he : e ∈ l) :
    lookup l e.1 = some e.2 := by
  induction l with
  | nil => cases he
  | cons a t ih =>
    rw [List.map_cons, List.nodup_cons] at hn
    unfold lookup
    simp only [List.find?_cons]
    rcases List.mem_cons.mp he with h | h
    · subst h; simp
    · have : a.1 ≠ e.1 := fun hh => hn.1 (hh ▸ List.mem_map_of_mem h)
      have hb : (a.1 == e.1) = false := by simpa using this
      simp only [hb]
      exact ih hn.2 h

theorem lookup_some_mem {α : Type} (l : List (Nat × α)) (k : Nat) (v : α) (h : lookup l k = some v) : (k, v) ∈ l := by
  unfold lookup at h
  cases hf : l.find? (fun p => p.1 == k) with
  | none => rw [hf] at h; cases h
  | some e =>
    rw [hf] at h; simp at h
    have hm := List.mem_of_find?_eq_some hf
    have hk := List.find?_some hf
    simp at hk
    have : e = (k, v) := by cases e; simp_all
    exact this ▸ hm

end Fix8Model.Store
