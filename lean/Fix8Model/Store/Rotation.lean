import Fix8Model.Gen.Consts
/-!
Model of `FileLogger::rotate` (runtime/logger.cpp) and of the purge rotation in
`FilePersister::initialise` (runtime/filepersist.cpp).

The directory is a finite map from names to contents (`Dir.get` is the lookup).  A name is a member of one of the
rotation families (family 0: `path`, `path.1`, `path.2`, ...; family 1: the `.idx` chain of the
persister) or any other file.  `rename` fails (and is ignored, as in the code) when the source
does not exist.  The name list is an explicit list and every access into it carries its index, so
"rotation never indexes outside its own bookkeeping" is a statement about the model.
-/
namespace Fix8Model.Store.Rotation

inductive Name where
  | gen (fam : Nat) (k : Nat)     -- k = 0: the live file; k ≥ 1: generation k
  | other (id : Nat)
  deriving DecidableEq, Repr

/-- directory: association list name ↦ content id (first entry wins) -/
abbrev Dir := List (Name × Nat)

def Dir.get (d : Dir) (n : Name) : Option Nat := List.lookup n d

/-- create or overwrite -/
def Dir.set (d : Dir) (n : Name) (c : Nat) : Dir := (n, c) :: d

def Dir.remove (d : Dir) (n : Name) : Dir := d.filter (fun e => e.1 != n)

def rename (d : Dir) (src dst : Name) : Dir :=
  match d.get src with
  | none => d                                   -- ENOENT: ignored
  | some c => (d.remove src).set dst c

/-- the name list `rlst`: the live file followed by `min rotnum max_rotation` generation names -/
def nameList (fam rotnum : Nat) : List Name :=
  Name.gen fam 0 :: (List.range (min rotnum Gen.maxRotation)).map (fun i => Name.gen fam (i + 1))

structure LoopSt where
  dir : Dir
  oob : Bool := false     -- an index outside a name list was used

/-- one iteration `rename(lst[ii-1], lst[ii])` for every list, `ii ≥ 1` -/
def stepLists (lists : List (List Name)) (ii : Nat) (s : LoopSt) : LoopSt :=
  lists.foldl (fun s l =>
    match l[ii - 1]?, l[ii]? with
    | some a, some b => { s with dir := rename s.dir a b }
    | _, _ => { s with oob := true }) s

/-- `for (ii = start; ii; --ii)` -/
def down (lists : List (List Name)) : Nat → LoopSt → LoopSt
  | 0, s => s
  | ii + 1, s => down lists ii (stepLists lists (ii + 1) s)

/-- `FileLogger::rotate(force)`: rename loop, then open the live file (truncating unless append) -/
def logRotate (d : Dir) (rotnum : Nat) (append force : Bool) : LoopSt :=
  let s : LoopSt :=
    if rotnum > 0 ∧ (!append || force) then
      let rl := nameList 0 rotnum
      down [rl] (rl.length - 1) ⟨d, false⟩
    else ⟨d, false⟩
  let live := Name.gen 0 0
  { s with dir := s.dir.set live (if append then (s.dir.get live).getD 0 else 0) }

/-- the purge branch of `FilePersister::initialise`: both chains shifted, then both live files created empty -/
def purgeRotate (d : Dir) (rotnum : Nat) : LoopSt :=
  let s : LoopSt :=
    if rotnum > 0 then
      let dl := nameList 0 rotnum
      let il := nameList 1 rotnum
      down [dl, il] (dl.length - 1) ⟨d, false⟩
    else ⟨d, false⟩
  { s with dir := (s.dir.set (Name.gen 0 0) 0).set (Name.gen 1 0) 0 }

end Fix8Model.Store.Rotation
