/-!
Models of `MemoryPersister` (runtime/persist.cpp) and `FilePersister` (runtime/filepersist.cpp) and the
map-plus-control-record specification they are meant to implement.

`std::map` is modelled as an association list with unique keys (insert-if-absent); ascending
iteration of the map is modelled by filtering an ascending range of keys with the membership test.
The file persister keeps an index (seq -> offset, size) and an append-only data file.
-/
namespace Fix8Model.Store

abbrev Bytes := List Nat

inductive Op
  | put (seq : Nat) (msg : Bytes)
  | cput (s t : Nat)
  | get (seq : Nat)
  | cget
  | last
  | near (req : Nat)
  | range (from_ to_ : Nat)
deriving Repr, DecidableEq

inductive Out
  | bool (b : Bool)
  | msg (m : Option Bytes)
  | ctrl (c : Option (Nat × Nat))
  | num (n : Nat)
  | visit (keys : List Nat) (done : Bool)
deriving Repr, DecidableEq

def lookup {α : Type} (l : List (Nat × α)) (k : Nat) : Option α := (l.find? (fun p => p.1 == k)).map (·.2)

def hasKey {α : Type} (l : List (Nat × α)) (k : Nat) : Bool := (lookup l k).isSome

/-- largest key (0 for the empty map): `rbegin()->first` -/
def maxKey {α : Type} (l : List (Nat × α)) : Nat := l.foldl (fun m p => max m p.1) 0

/-- `find_nearest_highest_seqnum(requested, last)`: probe requested, requested+1, …, last -/
def nearest (has : Nat → Bool) (req last : Nat) : Nat :=
  if last = 0 then 0 else ((List.range' req (last + 1 - req)).find? has).getD 0

/-- `get(from, to, session, callback)`: the keys handed to the callback in order, and whether the
final "no more records" callback was made -/
def rangeVisit (has : Nat → Bool) (last from_ to_ : Nat) : List Nat × Bool :=
  let start := nearest has from_ last
  let finish := if to_ = 0 then last else to_
  if start = 0 ∨ from_ > finish then ([], true)
  else ((List.range' start (finish + 1 - start)).filter has, true)

/-! ### specification -/

structure Spec where
  msgs : List (Nat × Bytes)
  ctrl : Option (Nat × Nat)
deriving Repr

def Spec.step (s : Spec) : Op → Spec × Out
  | .put seq m =>
    if seq = 0 ∨ hasKey s.msgs seq then (s, .bool false) else ({ s with msgs := s.msgs ++ [(seq, m)] }, .bool true)
  | .cput a b => ({ s with ctrl := some (a, b) }, .bool true)
  | .get seq => (s, .msg (if seq = 0 then none else lookup s.msgs seq))
  | .cget => (s, .ctrl s.ctrl)
  | .last => (s, .num (maxKey s.msgs))
  | .near req => (s, .num (nearest (hasKey s.msgs) req (maxKey s.msgs)))
  | .range f t => (s, let r := rangeVisit (hasKey s.msgs) (maxKey s.msgs) f t; .visit r.1 r.2)

/-! ### memory persister: one map, key 0 is the control record -/

structure Mem where
  store : List (Nat × Bytes)           -- message records, keys ≥ 1
  ctrl : Option (Nat × Nat)            -- the record under key 0 (two unsigned as 8 bytes)
deriving Repr

def Mem.step (s : Mem) : Op → Mem × Out
  | .put seq m =>
    if seq = 0 then (s, .bool false)
    else if hasKey s.store seq then (s, .bool false)
    else ({ s with store := s.store ++ [(seq, m)] }, .bool true)
  | .cput a b => ({ s with ctrl := some (a, b) }, .bool true)
  | .get seq => (s, .msg (if seq = 0 then none else lookup s.store seq))
  | .cget => (s, .ctrl s.ctrl)
  | .last => (s, .num (maxKey s.store))
  | .near req => (s, .num (nearest (hasKey s.store) req (maxKey s.store)))
  | .range f t => (s, let r := rangeVisit (hasKey s.store) (maxKey s.store) f t; .visit r.1 r.2)

/-! ### file persister: index + append-only data file -/

structure File where
  index : List (Nat × (Nat × Nat))     -- seq ≥ 1 -> (offset, size)
  ctrl : Option (Nat × Nat)            -- index record 0
  data : Bytes                         -- the data file
deriving Repr

def File.read (s : File) (off sz : Nat) : Option Bytes :=
  if off + sz ≤ s.data.length then some ((s.data.drop off).take sz) else none   -- short read = failure

def File.step (s : File) : Op → File × Out
  | .put seq m =>
    if seq = 0 then (s, .bool false)
    else if hasKey s.index seq then (s, .bool false)
    else ({ s with data := s.data ++ m, index := s.index ++ [(seq, (s.data.length, m.length))] }, .bool true)
  | .cput a b => ({ s with ctrl := some (a, b) }, .bool true)
  | .get seq =>
    (s, .msg (if seq = 0 then none else
      match lookup s.index seq with
      | some (off, sz) => s.read off sz
      | none => none))
  | .cget => (s, .ctrl s.ctrl)
  | .last => (s, .num (maxKey s.index))
  | .near req => (s, .num (nearest (hasKey s.index) req (maxKey s.index)))
  | .range f t => (s, let r := rangeVisit (hasKey s.index) (maxKey s.index) f t; .visit r.1 r.2)

def runWith {σ : Type} (step : σ → Op → σ × Out) : σ → List Op → List Out
  | _, [] => []
  | s, op :: ops => let r := step s op; r.2 :: runWith step r.1 ops

end Fix8Model.Store
