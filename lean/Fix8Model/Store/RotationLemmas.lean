import Fix8Model.Store.Rotation
namespace Fix8Model.Store.Rotation

theorem nameList_length (f r : Nat) : (nameList f r).length = min r Gen.maxRotation + 1 := by
  simp [nameList]

theorem nameList_get (f r i : Nat) (h : i ≤ min r Gen.maxRotation) : (nameList f r)[i]? = some (Name.gen f i) := by
  unfold nameList
  cases i with
  | zero => rfl
  | succ j =>
    have hj : j < min r Gen.maxRotation := by omega
    simp [List.getElem?_cons_succ, hj]

theorem get_set (d : Dir) (n x : Name) (c : Nat) : (d.set n c).get x = if x = n then some c else d.get x := by
  unfold Dir.set Dir.get
  rw [List.lookup_cons]
  by_cases h : x = n
  · simp [h]
  · have : (x == n) = false := by simp [h]
    simp [this, h]

theorem get_remove (d : Dir) (n x : Name) : (d.remove n).get x = if x = n then none else d.get x := by
  unfold Dir.remove Dir.get
  induction d with
  | nil => simp
  | cons e d ih =>
    obtain ⟨k, v⟩ := e
    by_cases hk : k = n
    · subst hk
      simp only [List.filter_cons, bne_self_eq_false, Bool.false_eq_true, if_false, ih, List.lookup_cons]
      by_cases hx : x = k
      · simp [hx]
      · have : (x == k) = false := by simp [hx]
        simp [this, hx]
    · have hkn : (k != n) = true := by simp [hk]
      simp only [List.filter_cons, hkn, if_true, List.lookup_cons, ih]
      by_cases hx : x = k
      · subst hx; simp [hk]
      · have : (x == k) = false := by simp [hx]
        simp [this]

theorem rename_apply (d : Dir) (a b x : Name) :
    (rename d a b).get x = match d.get a with
      | none => d.get x
      | some c => if x = b then some c else if x = a then none else d.get x := by
  unfold rename
  cases h : d.get a with
  | none => rfl
  | some c => simp only [get_set, get_remove]

/-- one family's chain as seen through its generation index -/
def view (f : Nat) (d : Dir) : Nat → Option Nat := fun k => d.get (.gen f k)

def renameV (v : Nat → Option Nat) (a b : Nat) : Nat → Option Nat :=
  match v a with
  | none => v
  | some c => fun k => if k = b then some c else if k = a then none else v k

/-- the chain after the loop has run from `m` down to 1: generation `k ≤ m` holds what `k-1` held;
a missing predecessor leaves `k` empty (it was itself moved up) except for the topmost one, which
keeps its content; the live name is gone; generations above `m` are untouched -/
def shiftedV (v : Nat → Option Nat) (m : Nat) : Nat → Option Nat := fun k =>
  if k = 0 then (if m = 0 then v 0 else none)
  else if k ≤ m then
    match v (k - 1) with
    | some c => some c
    | none => if k = m then v m else none
  else v k

theorem shiftedV_step (v : Nat → Option Nat) (m : Nat) :
    shiftedV (renameV v m (m + 1)) m = shiftedV v (m + 1) := by
  funext k
  unfold shiftedV renameV
  cases h : v m <;> grind

theorem shiftedV_zero (v : Nat → Option Nat) : shiftedV v 0 = v := by
  funext k; unfold shiftedV; grind

theorem view_rename_same (f : Nat) (d : Dir) (a b : Nat) :
    view f (rename d (.gen f a) (.gen f b)) = renameV (view f d) a b := by
  funext k
  have hv : view f d a = d.get (.gen f a) := rfl
  unfold renameV
  rw [hv]
  show (rename d (.gen f a) (.gen f b)).get (.gen f k) = _
  rw [rename_apply]
  cases h : d.get (.gen f a) with
  | none => rfl
  | some c =>
    simp only
    have e1 : (Name.gen f k = Name.gen f b) = (k = b) := by
      apply propext; constructor
      · intro hh; injection hh
      · intro hh; rw [hh]
    have e2 : (Name.gen f k = Name.gen f a) = (k = a) := by
      apply propext; constructor
      · intro hh; injection hh
      · intro hh; rw [hh]
    simp only [e1, e2]; rfl

theorem view_rename_other (f g : Nat) (d : Dir) (a b : Nat) (h : g ≠ f) :
    view g (rename d (.gen f a) (.gen f b)) = view g d := by
  funext k
  unfold view
  rw [rename_apply]
  cases h2 : d.get (.gen f a) with
  | none => rfl
  | some c =>
    have e1 : ¬ (Name.gen g k = Name.gen f b) := by intro hh; injection hh; omega
    have e2 : ¬ (Name.gen g k = Name.gen f a) := by intro hh; injection hh; omega
    simp [e1, e2]

theorem other_rename (f : Nat) (d : Dir) (a b i : Nat) :
    (rename d (.gen f a) (.gen f b)).get (.other i) = d.get (.other i) := by
  rw [rename_apply]
  cases d.get (.gen f a) <;> simp

/-- the logger's loop (one list): no index outside the list, the family-0 chain is shifted,
every other family and every other file is untouched -/
theorem down_single (r : Nat) (m : Nat) (hm : m ≤ min r Gen.maxRotation) (d : Dir) (b : Bool) :
    let s := down [nameList 0 r] m ⟨d, b⟩
    s.oob = b ∧ view 0 s.dir = shiftedV (view 0 d) m ∧ (∀ g, g ≠ 0 → view g s.dir = view g d) ∧
      (∀ i, s.dir.get (.other i) = d.get (.other i)) := by
  induction m generalizing d with
  | zero => simp [down, shiftedV_zero]
  | succ m ih =>
    have h1 : (nameList 0 r)[m + 1 - 1]? = some (Name.gen 0 m) := by
      rw [Nat.add_sub_cancel]; exact nameList_get 0 r m (by omega)
    have h2 : (nameList 0 r)[m + 1]? = some (Name.gen 0 (m + 1)) := nameList_get 0 r (m + 1) hm
    have hs : stepLists [nameList 0 r] (m + 1) ⟨d, b⟩ = ⟨rename d (.gen 0 m) (.gen 0 (m + 1)), b⟩ := by
      simp only [stepLists, List.foldl_cons, List.foldl_nil, h1, h2]
    simp only [down, hs]
    obtain ⟨i1, i2, i3, i4⟩ := ih (by omega) (rename d (.gen 0 m) (.gen 0 (m + 1)))
    refine ⟨i1, ?_, ?_, ?_⟩
    · rw [i2, view_rename_same, shiftedV_step]
    · intro g hg; rw [i3 g hg, view_rename_other 0 g d m (m + 1) hg]
    · intro i; rw [i4 i, other_rename]

/-- the persister's loop (two lists, renames interleaved): both chains are shifted -/
theorem down_double (r : Nat) (m : Nat) (hm : m ≤ min r Gen.maxRotation) (d : Dir) (b : Bool) :
    let s := down [nameList 0 r, nameList 1 r] m ⟨d, b⟩
    s.oob = b ∧ view 0 s.dir = shiftedV (view 0 d) m ∧ view 1 s.dir = shiftedV (view 1 d) m ∧
      (∀ g, g ≠ 0 → g ≠ 1 → view g s.dir = view g d) ∧ (∀ i, s.dir.get (.other i) = d.get (.other i)) := by
  induction m generalizing d with
  | zero => simp [down, shiftedV_zero]
  | succ m ih =>
    have h1 : ∀ f, (nameList f r)[m + 1 - 1]? = some (Name.gen f m) := by
      intro f; rw [Nat.add_sub_cancel]; exact nameList_get f r m (by omega)
    have h2 : ∀ f, (nameList f r)[m + 1]? = some (Name.gen f (m + 1)) := fun f => nameList_get f r (m + 1) hm
    have hs : stepLists [nameList 0 r, nameList 1 r] (m + 1) ⟨d, b⟩ =
        ⟨rename (rename d (.gen 0 m) (.gen 0 (m + 1))) (.gen 1 m) (.gen 1 (m + 1)), b⟩ := by
      simp only [stepLists, List.foldl_cons, List.foldl_nil, h1, h2]
    simp only [down, hs]
    obtain ⟨i1, i2, i3, i4, i5⟩ := ih (by omega) (rename (rename d (.gen 0 m) (.gen 0 (m + 1))) (.gen 1 m) (.gen 1 (m + 1)))
    refine ⟨i1, ?_, ?_, ?_, ?_⟩
    · rw [i2, view_rename_other 1 0 _ m (m + 1) (by decide), view_rename_same, shiftedV_step]
    · rw [i3, view_rename_same, view_rename_other 0 1 _ m (m + 1) (by decide), shiftedV_step]
    · intro g hg0 hg1
      rw [i4 g hg0 hg1, view_rename_other 1 g _ m (m + 1) hg1, view_rename_other 0 g d m (m + 1) hg0]
    · intro i; rw [i5 i, other_rename, other_rename]

end Fix8Model.Store.Rotation
