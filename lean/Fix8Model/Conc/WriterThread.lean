import Fix8Model.Conc.WriterLock
/-!
# Thread model (pm_thread / pm_coro): who gets into `send_process` in which order – the invariant `TInv`

`acct`: per thread, what it has pushed through `send_process` so far followed by what it still holds is exactly what it
submitted, in submission order.  `grantsFree`/`grantsHeld`: the order in which `send_process` was entered is the
concatenation of WHOLE calls in the order the lock was granted (a batch is never interleaved).
-/
namespace Fix8Model.Conc.Writer
open Fix8Model.Session
open Fix8Model.Conc.Mpmc (upd upd_same upd_other)

/-- everything thread `t` has submitted, in submission order -/
def submitted (σ : State) (t : Tid) : List Item := (σ.calls.filter (fun c => c.1 == t)).flatMap (fun c => c.2.items)

/-- messages of the current call that have not yet entered `send_process` / the queue operation -/
def pend : PC → List Item
  | .acq todo => todo
  | .cs cur .enc rest => cur :: rest
  | .cs _ _ rest => rest
  | .push todo _ => todo
  | _ => []

def expand (g : Tid × List Item) : List (Tid × Item) := g.2.map (fun x => (g.1, x))

/-- what thread `t` has brought into `send_process` so far -/
def linOf (σ : State) (t : Tid) : List Item := (σ.lin.filter (fun e => e.1 == t)).map (·.2)

structure TInv (σ : State) : Prop where
  acct : ∀ t, linOf σ t ++ pend (σ.pc t) = submitted σ t
  grantsFree : σ.lock = none → σ.grants.flatMap expand = σ.lin
  grantsHeld : ∀ t, σ.lock = some t → σ.grants.flatMap expand = σ.lin ++ (pend (σ.pc t)).map (fun x => (t, x))
  whole : ∀ g ∈ σ.grants, ∃ c, (g.1, c) ∈ σ.calls ∧ g.2 = c.items
  acqWhole : ∀ t todo, σ.pc t = .acq todo → ∃ c, (t, c) ∈ σ.calls ∧ todo = c.items

theorem tinv_init (s0 : Sess) : TInv (init false s0) := by
  constructor <;> simp [init, linOf, submitted, pend]

theorem submitted_call_self (pl : Bool) (σ : State) (t : Tid) (c : Call) :
    submitted (call pl σ t c) t = submitted σ t ++ c.items := by
  simp [submitted, call, List.filter_append]

theorem submitted_call_other (pl : Bool) (σ : State) {t u : Tid} (c : Call) (h : u ≠ t) :
    submitted (call pl σ t c) u = submitted σ u := by
  have : (t == u) = false := by simpa using fun e => h e.symm
  simp [submitted, call, List.filter_append, this]

theorem pend_startPC (pl : Bool) (c : Call) : pend (startPC pl c) = c.items := by
  unfold startPC
  split
  next h => rw [h]; rfl
  next x h => rw [h]; cases pl <;> rfl
  next x y r h => rw [h]; rfl

theorem tinv_call {σ : State} (linv : LInv false σ) (inv : TInv σ) (t : Tid) (c : Call) (h : σ.pc t = .idle) :
    TInv (call false σ t c) := by
  have hnot : ∀ u, σ.lock = some u → u ≠ t := by
    intro u hu e; subst e
    have := linv.held u hu; rw [h] at this; simp [holds] at this
  constructor
  · intro u
    by_cases hu : u = t
    · subst hu
      rw [submitted_call_self]
      have := inv.acct u
      rw [h] at this; simp only [pend, List.append_nil] at this
      show linOf σ u ++ pend (upd σ.pc u (startPC false c) u) = _
      rw [upd_same, pend_startPC, this]
    · rw [submitted_call_other _ _ _ hu]
      show linOf σ u ++ pend (upd σ.pc t (startPC false c) u) = _
      rw [upd_other _ _ hu]; exact inv.acct u
  · exact inv.grantsFree
  · intro u hu
    show σ.grants.flatMap expand = σ.lin ++ (pend (upd σ.pc t (startPC false c) u)).map _
    rw [upd_other _ _ (hnot u hu)]; exact inv.grantsHeld u hu
  · intro g hg
    obtain ⟨c', h1, h2⟩ := inv.whole g hg
    exact ⟨c', List.mem_append_left _ h1, h2⟩
  · intro u todo hu
    by_cases hut : u = t
    · subst hut
      simp only [call, upd_same] at hu
      refine ⟨c, by simp [call], ?_⟩
      have := pend_startPC false c; rw [hu] at this; exact this
    · simp only [call, upd_other _ _ hut] at hu
      obtain ⟨c', h1, h2⟩ := inv.acqWhole u todo hu
      exact ⟨c', List.mem_append_left _ h1, h2⟩

theorem pend_after_false (rest : List Item) : pend (after false rest) = rest := by
  cases rest <;> rfl

theorem linOf_snoc_self (σ : State) (t : Tid) (x : Item) (l : List (Tid × Item)) :
    ((l ++ [(t, x)]).filter (fun e => e.1 == t)).map (·.2) = (l.filter (fun e => e.1 == t)).map (·.2) ++ [x] := by
  simp [List.filter_append]

theorem linOf_snoc_other {t u : Tid} (h : u ≠ t) (x : Item) (l : List (Tid × Item)) :
    ((l ++ [(t, x)]).filter (fun e => e.1 == u)).map (·.2) = (l.filter (fun e => e.1 == u)).map (·.2) := by
  have : (t == u) = false := by simpa using fun e => h e.symm
  simp [List.filter_append, this]

theorem tinv_next {n : Nat} {σ : State} (linv : LInv false σ) (inv : TInv σ) (t : Tid) : TInv (next false n σ t) := by
  have ht := linv.pcOk t
  cases hp : σ.pc t with
  | idle => simp only [next, hp]; exact inv
  | wdead => simp only [next, hp]; exact inv
  | push todo held => rw [hp] at ht; simp [PcOk] at ht
  | wpop => rw [hp] at ht; simp [PcOk] at ht
  | acq todo =>
    cases hl : σ.lock with
    | some v => simp only [next, hp, hl]; exact inv
    | none =>
      simp only [next, hp, hl, Bool.false_eq_true, ↓reduceIte]
      constructor
      · intro u
        show linOf σ u ++ pend (upd σ.pc t (after false todo) u) = submitted σ u
        by_cases hu : u = t
        · subst hu; rw [upd_same, pend_after_false]; have := inv.acct u; rw [hp] at this; exact this
        · rw [upd_other _ _ hu]; exact inv.acct u
      · intro h; cases h
      · intro u hu
        simp only at hu; injection hu with hu; subst hu
        simp only [upd_same, pend_after_false, List.flatMap_append, List.flatMap_cons, List.flatMap_nil, List.append_nil]
        rw [inv.grantsFree hl]; rfl
      · intro g hg
        rcases List.mem_append.mp hg with hg | hg
        · exact inv.whole g hg
        · rw [List.mem_singleton] at hg; subst hg
          exact inv.acqWhole t todo hp
      · intro u todo' hu
        by_cases hut : u = t
        · subst hut
          simp only [upd_same] at hu
          cases todo <;> simp [after] at hu
        · simp only [upd_other _ _ hut] at hu; exact inv.acqWhole u todo' hu
  | rel =>
    simp only [next, hp]
    have hlt : σ.lock = some t := linv.holder t (by rw [hp]; rfl)
    constructor
    · intro u
      show linOf σ u ++ pend (upd σ.pc t .idle u) = submitted σ u
      by_cases hu : u = t
      · subst hu; rw [upd_same]; have := inv.acct u; rw [hp] at this; exact this
      · rw [upd_other _ _ hu]; exact inv.acct u
    · intro _
      have := inv.grantsHeld t hlt
      rw [hp] at this; simpa [pend] using this
    · intro u hu; cases hu
    · exact inv.whole
    · intro u todo' hu
      by_cases hut : u = t
      · subst hut; simp only [upd_same] at hu; cases hu
      · simp only [upd_other _ _ hut] at hu; exact inv.acqWhole u todo' hu
  | cs cur stage rest =>
    have hlt : σ.lock = some t := linv.holder t (by rw [hp]; rfl)
    have hacq : ∀ (p' : PC), (∀ todo, p' ≠ .acq todo) → ∀ u todo', upd σ.pc t p' u = .acq todo' →
        ∃ c, (u, c) ∈ σ.calls ∧ todo' = c.items := by
      intro p' hp' u todo' hu
      by_cases hut : u = t
      · subst hut; rw [upd_same] at hu; exact absurd hu (hp' _)
      · rw [upd_other _ _ hut] at hu; exact inv.acqWhole u todo' hu
    -- a step that does not change `lin` and keeps `pend` of the acting thread
    have hsame : ∀ (p' : PC) (σ' : State), σ'.pc = upd σ.pc t p' → σ'.lin = σ.lin → σ'.calls = σ.calls → σ'.grants = σ.grants →
        σ'.lock = σ.lock → pend p' = pend (σ.pc t) → (∀ todo, p' ≠ .acq todo) → TInv σ' := by
      intro p' σ' h1 h2 h3 h4 h5 h6 h7
      constructor
      · intro u
        simp only [linOf, submitted, h1, h2, h3]
        by_cases hu : u = t
        · subst hu; rw [upd_same, h6]; exact inv.acct u
        · rw [upd_other _ _ hu]; exact inv.acct u
      · rw [h5, hlt]; intro h; cases h
      · intro u hu
        rw [h5, hlt] at hu; injection hu with hu; subst hu
        rw [h4, h2, h1, upd_same, h6]; exact inv.grantsHeld _ hlt
      · rw [h4, h3]; exact inv.whole
      · intro u todo' hu; rw [h1] at hu; rw [h3]; exact hacq p' h7 u todo' hu
    cases stage with
    | enc =>
      simp only [next, hp]
      constructor
      · intro u
        show ((σ.lin ++ [(owner false σ t, cur)]).filter _).map _ ++ pend (upd σ.pc t _ u) = submitted σ u
        simp only [owner, Bool.false_eq_true, ↓reduceIte]
        by_cases hu : u = t
        · subst hu
          rw [upd_same, linOf_snoc_self σ]
          have := inv.acct u; rw [hp] at this
          simp only [pend, List.append_assoc, List.cons_append, List.nil_append]
          exact this
        · rw [upd_other _ _ hu, linOf_snoc_other hu]; exact inv.acct u
      · rw [hlt]; intro h; cases h
      · intro u hu
        simp only at hu; rw [hlt] at hu; injection hu with hu; subst hu
        simp only [upd_same, owner, Bool.false_eq_true, ↓reduceIte, pend]
        have := inv.grantsHeld _ hlt; rw [hp] at this
        simpa [pend] using this
      · exact inv.whole
      · exact hacq _ (by intro todo h; cases h)
    | put m =>
      simp only [next, hp]
      exact hsame (.cs cur .inc rest) _ rfl rfl rfl rfl rfl (by rw [hp]; rfl) (by intro todo h; cases h)
    | inc =>
      simp only [next, hp]
      refine hsame (after false rest) _ rfl rfl rfl rfl rfl (by rw [hp, pend_after_false]; rfl) ?_
      intro todo h; cases rest <;> simp [after] at h

end Fix8Model.Conc.Writer
