import Fix8Model.Conc.MpmcStep
import Fix8Model.Conc.Writer
/-!
# What one step of a producer / of the single consumer does to the history variables of the queue model

Frame lemmas about `Mpmc.next` used by the pipelined part of the writer model (`WriterPipe.lean`).
-/
namespace Fix8Model.Conc.Writer
open Fix8Model.Conc.Mpmc (upd upd_same upd_other)

def producerPc : Mpmc.PC → Bool
  | .idle | .pStart _ | .pReadPw _ _ | .pCas _ _ | .pWon _ _ | .pPushed _ => true
  | _ => false

def consumerPc : Mpmc.PC → Bool
  | .idle | .cStart | .cReadPr _ | .cTest _ | .cCas _ | .cWon _ | .cPopped _ _ => true
  | _ => false

/-- the message of a `try_push` that has not yet won its ticket -/
def inflight : Mpmc.PC → List Item
  | .pStart d => [decode d]
  | .pReadPw d _ => [decode d]
  | .pCas d _ => [decode d]
  | _ => []

/-- the pointer whose ticket this step wins (the successful CAS on `preadP`) -/
def won (q : Mpmc.State) (t : Tid) : Option Nat :=
  match q.pc t with
  | .pCas d pw => if q.P = pw then some d else none
  | _ => none

theorem encode_decode (d : Nat) : encode (decode d) = d := by
  simp only [encode, decode]
  by_cases h : d % 2 = 1
  · simp [h]; omega
  · have : (d % 2 == 1) = false := by simpa using h
    simp [this]; omega

theorem next_pc_other (n : Nat) (q : Mpmc.State) {t u : Tid} (h : u ≠ t) : (Mpmc.next n q t).pc u = q.pc u := by
  unfold Mpmc.next
  split <;> (try split) <;> simp [upd_other _ _ h]

theorem call_pc_other (q : Mpmc.State) {t u : Tid} (op : Mpmc.Op) (h : u ≠ t) : (Mpmc.call q t op).pc u = q.pc u := by
  simp [Mpmc.call, upd_other _ _ h]

/-- a producer's step: consumer-side history untouched; the push log grows exactly at the winning CAS -/
theorem next_producer (n : Nat) (q : Mpmc.State) (t : Tid) (h : producerPc (q.pc t) = true) :
    (Mpmc.next n q t).rets = q.rets ∧ (Mpmc.next n q t).C = q.C ∧ producerPc ((Mpmc.next n q t).pc t) = true ∧
    (Mpmc.next n q t).pushLog = q.pushLog ++ ((won q t).toList.map fun d => (t, d)) ∧
    inflight ((Mpmc.next n q t).pc t) = (if (won q t).isSome then [] else inflight (q.pc t)) ∧
    (∀ d, won q t = some d → inflight (q.pc t) = [decode d]) := by
  cases hq : q.pc t <;> rw [hq] at h <;> simp [producerPc] at h
  · simp [Mpmc.next, hq, won, producerPc, inflight]
  · simp [Mpmc.next, hq, won, producerPc, inflight]
  · next d pw => simp only [Mpmc.next, hq, won]; split <;> simp [producerPc, inflight]
  · next d pw =>
    simp only [Mpmc.next, hq, won]
    split <;> simp [producerPc, inflight]
  · simp [Mpmc.next, hq, won, producerPc, inflight]
  · simp [Mpmc.next, hq, won, producerPc, inflight]

/-- a consumer's step never touches the push side -/
theorem next_consumer (n : Nat) (q : Mpmc.State) (t : Tid) (h : consumerPc (q.pc t) = true) :
    (Mpmc.next n q t).pushLog = q.pushLog ∧ consumerPc ((Mpmc.next n q t).pc t) = true ∧
    inflight ((Mpmc.next n q t).pc t) = [] ∧ inflight (q.pc t) = [] := by
  cases hq : q.pc t <;> rw [hq] at h <;> simp [consumerPc] at h
  · simp [Mpmc.next, hq, consumerPc, inflight]
  · simp [Mpmc.next, hq, consumerPc, inflight]
  · simp only [Mpmc.next, hq]; split <;> simp [consumerPc, inflight]
  · simp only [Mpmc.next, hq]; split <;> simp [consumerPc, inflight]
  · simp only [Mpmc.next, hq]; split <;> simp [consumerPc, inflight]
  · simp [Mpmc.next, hq, consumerPc, inflight]
  · simp [Mpmc.next, hq, consumerPc, inflight]

end Fix8Model.Conc.Writer
