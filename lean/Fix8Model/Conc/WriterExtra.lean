import Fix8Model.Conc.WriterReach
/-!
# Further invariants of the pipelined model: the writer thread never leaves its loop, it never appears as a producer, and
every message pushed OUTSIDE `write_batch` carries end_of_batch (`XInv`); list facts about the last message of whole calls.
-/
namespace Fix8Model.Conc.Writer
open Fix8Model.Session
open Fix8Model.Conc.Mpmc (upd upd_same upd_other)

structure XInv (σ : State) : Prop where
  alive : σ.pc W ≠ .wdead
  plogNoW : ∀ e ∈ σ.plog, e.1 ≠ W
  singleLog : ∀ e ∈ σ.plog, e.2.2 = false → e.2.1.2 = true
  singlePend : ∀ t todo, σ.pc t = .push todo false → ∀ x ∈ inflight (σ.q.pc t) ++ todo, x.2 = true

theorem xinv_init (s0 : Sess) : XInv (init true s0) := by
  constructor
  · simp [init]
  · intro e he; simp [init] at he
  · intro e he; simp [init] at he
  · intro t todo h; simp only [init] at h; split at h <;> cases h

/-- the last message of a call carries end_of_batch -/
theorem batchItems_last : ∀ ps : List Nat, batchItems ps = [] ∨ ∃ ys p, batchItems ps = ys ++ [(p, true)]
  | [] => .inl rfl
  | [p] => .inr ⟨[], p, rfl⟩
  | p :: q :: r => by
    rcases batchItems_last (q :: r) with h | ⟨ys, p', h⟩
    · cases r <;> simp [batchItems] at h
    · exact .inr ⟨(p, false) :: ys, p', by simp [batchItems, h]⟩

theorem items_last (c : Call) : c.items = [] ∨ ∃ ys p, c.items = ys ++ [(p, true)] := by
  cases c with
  | write p => exact .inr ⟨[], p, rfl⟩
  | batch ps => exact batchItems_last ps

/-- a call of exactly one message: that message carries end_of_batch -/
theorem items_single {c : Call} {x : Item} (h : c.items = [x]) : x.2 = true := by
  rcases items_last c with h0 | ⟨ys, p, h1⟩
  · rw [h0] at h; cases h
  · rw [h1] at h
    cases ys with
    | nil => simp at h; rw [← h]
    | cons y ys => simp at h

theorem flatMap_expand_last (gs : List (Tid × List Item))
    (h : ∀ g ∈ gs, g.2 = [] ∨ ∃ ys p, g.2 = ys ++ [(p, true)]) :
    gs.flatMap expand = [] ∨ ∃ zs t p, gs.flatMap expand = zs ++ [(t, (p, true))] := by
  induction gs with
  | nil => exact .inl rfl
  | cons g gs ih =>
    simp only [List.flatMap_cons]
    rcases ih (fun g' hg' => h g' (List.mem_cons_of_mem _ hg')) with h1 | ⟨zs, t, p, h1⟩
    · rw [h1, List.append_nil]
      rcases h g List.mem_cons_self with h2 | ⟨ys, p, h2⟩
      · left; simp [expand, h2]
      · right; exact ⟨ys.map (fun x => (g.1, x)), g.1, p, by simp [expand, h2]⟩
    · right; exact ⟨expand g ++ zs, t, p, by rw [h1, List.append_assoc]⟩

theorem xinv_call {n : Nat} {σ : State} (linv : LInv true σ) (pinv : PInv n σ) (inv : XInv σ) (t : Tid) (c : Call)
    (h : σ.pc t = .idle) : XInv (call true σ t c) := by
  have htw : t ≠ W := by have := linv.pcOk t; rw [h] at this; exact this rfl
  have hqt : σ.q.pc t = .idle := pinv.qidle t (by rw [h]; intro _ _ e; cases e) (by rw [h]; intro e; cases e)
  constructor
  · show upd σ.pc t (startPC true c) W ≠ _
    rw [upd_other _ _ (fun e => htw e.symm)]; exact inv.alive
  · exact inv.plogNoW
  · exact inv.singleLog
  · intro u todo hu x hx
    by_cases hut : u = t
    · subst hut
      simp only [call, upd_same] at hu
      show x.2 = true
      have hx' : x ∈ inflight (σ.q.pc u) ++ todo := hx
      rw [hqt] at hx'
      simp only [inflight, List.nil_append] at hx'
      unfold startPC at hu
      split at hu
      · cases hu
      · next y hy =>
        simp only [↓reduceIte] at hu
        injection hu with hu1 _
        subst hu1
        rw [List.mem_singleton] at hx'; subst hx'
        exact items_single hy
      · cases hu
    · simp only [call, upd_other _ _ hut] at hu
      exact inv.singlePend u todo hu x hx

theorem xinv_next {n : Nat} (hn : 0 < n) {σ : State} (linv : LInv true σ) (pinv : PInv n σ) (inv : XInv σ) (t : Tid) :
    XInv (next true n σ t) := by
  have ht := linv.pcOk t
  -- steps that change neither the queue nor the log and keep every `push _ false` program counter
  have keep : ∀ (σ' : State) (p' : PC), σ'.pc = upd σ.pc t p' → σ'.q = σ.q → σ'.plog = σ.plog →
      (t = W → p' ≠ .wdead) → (∀ todo, p' ≠ .push todo false) → XInv σ' := by
    intro σ' p' h1 h2 h3 h4 h5
    constructor
    · rw [h1]
      by_cases htw : t = W
      · subst htw; rw [upd_same]; exact h4 rfl
      · rw [upd_other _ _ (fun e => htw e.symm)]; exact inv.alive
    · rw [h3]; exact inv.plogNoW
    · rw [h3]; exact inv.singleLog
    · intro u todo hu x hx
      rw [h1] at hu; rw [h2] at hx
      by_cases hut : u = t
      · subst hut; rw [upd_same] at hu; exact absurd hu (h5 todo)
      · rw [upd_other _ _ hut] at hu; exact inv.singlePend u todo hu x hx
  cases hp : σ.pc t with
  | idle => simp only [next, hp]; exact inv
  | wdead => simp only [next, hp]; exact inv
  | rel => rw [hp] at ht; simp [PcOk] at ht
  | acq todo =>
    cases hl : σ.lock with
    | some v => simp only [next, hp, hl]; exact inv
    | none =>
      simp only [next, hp, hl, ↓reduceIte]
      exact keep _ (.push todo true) rfl rfl rfl (fun _ => by intro e; cases e) (fun _ => by intro e; cases e)
  | cs cur stage rest =>
    cases stage with
    | enc => simp only [next, hp]; exact keep _ _ rfl rfl rfl (fun _ => by intro e; cases e) (fun _ => by intro e; cases e)
    | put m => simp only [next, hp]; exact keep _ _ rfl rfl rfl (fun _ => by intro e; cases e) (fun _ => by intro e; cases e)
    | inc =>
      simp only [next, hp]
      refine keep _ (after true rest) rfl rfl rfl (fun _ => ?_) (fun _ => ?_) <;> cases rest <;> simp [after]
  | push todo held =>
    rw [hp] at ht; simp only [PcOk] at ht
    have htw : t ≠ W := ht.2
    have hWt : W ≠ t := fun e => htw e.symm
    by_cases hq : σ.q.pc t = .idle
    · cases todo with
      | nil =>
        simp only [next, hp, hq]
        exact keep _ .idle rfl rfl rfl (fun e => absurd e htw) (fun _ => by intro e; cases e)
      | cons x r =>
        simp only [next, hp, hq]
        constructor
        · show upd σ.pc t _ W ≠ _; rw [upd_other _ _ hWt]; exact inv.alive
        · exact inv.plogNoW
        · exact inv.singleLog
        · intro u todo' hu y hy
          by_cases hut : u = t
          · subst hut
            simp only [upd_same] at hu
            injection hu with hu1 hu2
            subst hu1; subst hu2
            have hy' : y ∈ inflight ((Mpmc.call σ.q u (.push (encode x))).pc u) ++ r := hy
            have : (Mpmc.call σ.q u (.push (encode x))).pc u = .pStart (encode x) := by simp [Mpmc.call, Mpmc.Op.start]
            rw [this] at hy'
            simp only [inflight, decode_encode, List.cons_append, List.nil_append] at hy'
            exact inv.singlePend u (x :: r) hp y (by rw [hq]; simpa [inflight] using hy')
          · simp only [upd_other _ _ hut] at hu
            have hy' : y ∈ inflight ((Mpmc.call σ.q t (.push (encode x))).pc u) ++ todo' := hy
            rw [call_pc_other _ _ hut] at hy'
            exact inv.singlePend u todo' hu y hy'
    · rw [next_push_run hp hq]
      obtain ⟨_, _, _, hlog, hinf, hwon⟩ := next_producer n σ.q t (pinv.qi.prod t htw)
      have hplog : σ.plog ++ ((Mpmc.next n σ.q t).pushLog.drop σ.q.pushLog.length).map (fun e => (e.1, decode e.2, held)) =
          σ.plog ++ (won σ.q t).toList.map (fun d => (t, decode d, held)) := by
        rw [hlog]; simp [List.map_map]
      rw [hplog]
      constructor
      · exact inv.alive
      · intro e he
        rcases List.mem_append.mp he with he | he
        · exact inv.plogNoW e he
        · cases hw : won σ.q t with
          | none => rw [hw] at he; simp at he
          | some d => rw [hw] at he; simp at he; rw [he]; exact htw
      · intro e he hf
        rcases List.mem_append.mp he with he | he
        · exact inv.singleLog e he hf
        · cases hw : won σ.q t with
          | none => rw [hw] at he; simp at he
          | some d =>
            rw [hw] at he; simp at he; subst he
            simp only at hf; subst hf
            exact inv.singlePend t todo hp (decode d) (by rw [hwon d hw]; simp)
      · intro u todo' hu y hy
        have hu' : σ.pc u = .push todo' false := hu
        have hy' : y ∈ inflight ((Mpmc.next n σ.q t).pc u) ++ todo' := hy
        by_cases hut : u = t
        · subst hut
          rw [hinf] at hy'
          apply inv.singlePend u todo' hu' y
          split at hy'
          · exact List.mem_append_right _ (by simpa using hy')
          · exact hy'
        · rw [next_pc_other n σ.q hut] at hy'
          exact inv.singlePend u todo' hu' y hy'
  | wpop =>
    rw [hp] at ht; simp only [PcOk] at ht
    have htw := ht.2; subst htw
    have hq0 : ∀ (q' : Mpmc.State), (∀ u, u ≠ W → q'.pc u = σ.q.pc u) → XInv { σ with q := q' } := by
      intro q' hoth
      constructor
      · show σ.pc W ≠ _; exact inv.alive
      · exact inv.plogNoW
      · exact inv.singleLog
      · intro u todo hu y hy
        have hu' : σ.pc u = .push todo false := hu
        have huw : u ≠ W := by intro e; subst e; rw [hp] at hu'; cases hu'
        have hy' : y ∈ inflight (q'.pc u) ++ todo := hy
        rw [hoth u huw] at hy'
        exact inv.singlePend u todo hu' y hy'
    cases hq : σ.q.pc W with
    | idle => simp only [next, hp, hq]; exact hq0 _ (fun u hu => call_pc_other _ _ hu)
    | cPopped pr got =>
      have hlast := pinv.qi.wPopped pr got hq
      have minv := Mpmc.inv_reachable hn pinv.qi.reach
      have hmem : (W, pr, got) ∈ σ.q.rets := by
        obtain ⟨ys, hys⟩ := List.getLast?_eq_some_iff.mp hlast
        rw [hys]; simp
      obtain ⟨p, d, hd, _⟩ := (minv.retOk _ hmem).2.2
      simp only at hd; subst hd
      simp only [next, hp, hq]
      constructor
      · show upd σ.pc W _ W ≠ _; rw [upd_same]; intro e; cases e
      · exact inv.plogNoW
      · exact inv.singleLog
      · intro u todo hu y hy
        by_cases huw : u = W
        · subst huw; simp only [upd_same] at hu; cases hu
        · simp only [upd_other _ _ huw] at hu
          have hy' : y ∈ inflight ((Mpmc.next n σ.q W).pc u) ++ todo := hy
          rw [next_pc_other n σ.q huw] at hy'
          exact inv.singlePend u todo hu y hy'
    | _ =>
      have hne : σ.q.pc W ≠ .idle := by rw [hq]; intro e; cases e
      rw [next_wpop_run hp hne (by rw [hq]; intro _ _ e; cases e)]
      exact hq0 _ (fun u hu => next_pc_other n σ.q hu)

theorem xinv_reachable {n : Nat} (hn : 0 < n) {s0 : Sess} {σ : State} (r : Reachable true n s0 σ) : XInv σ := by
  induction r with
  | init => exact xinv_init s0
  | step r' st ih =>
    cases st with
    | call t c h => exact xinv_call (linv_reachable r') (pinv_reachable hn r') ih t c h
    | run t => exact xinv_next hn (linv_reachable r') (pinv_reachable hn r') ih t

/-! ## list lemmas and derived facts used by the property statements -/

/-- two logs whose per-thread parts agree are permutations of each other -/
theorem perm_of_threads {α : Type} [DecidableEq α] (a b : List (Tid × α))
    (h : ∀ t, (a.filter (fun e => e.1 == t)) = (b.filter (fun e => e.1 == t))) : a.Perm b := by
  rw [List.perm_iff_count]
  intro x
  have h1 : ∀ l : List (Tid × α), l.count x = (l.filter (fun e => e.1 == x.1)).count x := by
    intro l
    rw [List.count_filter]; simp
  rw [h1 a, h1 b, h x.1]

/-- everything submitted, tagged with the submitting thread, in call order -/
def allSubmitted (σ : State) : List (Tid × Item) := σ.calls.flatMap (fun c => c.2.items.map (fun x => (c.1, x)))

theorem filter_tag (t t' : Tid) (l : List Item) :
    ((l.map (fun x => (t', x))).filter (fun e => e.1 == t)).map (·.2) = if t' = t then l else [] := by
  rw [List.filter_map, List.map_map]
  by_cases h : t' = t
  · subst h; simp [Function.comp_def]
  · have : (t' == t) = false := by simpa using h
    simp [h, Function.comp_def, this]

theorem filter_allSubmitted (σ : State) (t : Tid) :
    ((allSubmitted σ).filter (fun e => e.1 == t)).map (·.2) = submitted σ t := by
  unfold allSubmitted submitted
  induction σ.calls with
  | nil => rfl
  | cons c cs ih =>
    simp only [List.flatMap_cons, List.filter_append, List.map_append, ih, List.filter_cons, filter_tag]
    by_cases hc : c.1 = t
    · simp [hc]
    · have : (c.1 == t) = false := by simpa using hc
      simp [this, hc]

theorem filter_eq_of_map_snd {α : Type} (t : Tid) (a b : List (Tid × α))
    (h : (a.filter (fun e => e.1 == t)).map (·.2) = (b.filter (fun e => e.1 == t)).map (·.2)) :
    a.filter (fun e => e.1 == t) = b.filter (fun e => e.1 == t) := by
  have key : ∀ l : List (Tid × α), l.filter (fun e => e.1 == t) = ((l.filter (fun e => e.1 == t)).map (·.2)).map (fun x => (t, x)) := by
    intro l
    rw [List.map_map]
    conv => lhs; rw [← List.map_id (l.filter _)]
    apply List.map_congr_left
    intro e he
    have := (List.mem_filter.mp he).2
    simp only [beq_iff_eq] at this
    simp [← this]
  rw [key a, key b, h]

/-- pipelined: the writer thread has no entries of its own in `lin` -/
theorem linOf_writer {n : Nat} (hn : 0 < n) {s0 : Sess} {σ : State} (r : Reachable true n s0 σ) : linOf σ W = [] := by
  have inv := pinv_reachable hn r
  have x := xinv_reachable hn r
  unfold linOf
  rw [List.map_eq_nil_iff, List.filter_eq_nil_iff]
  intro e he
  rw [inv.linOk] at he
  obtain ⟨e', he', rfl⟩ := List.mem_map.mp he
  have := x.plogNoW e' (List.mem_of_mem_take he')
  simpa using this

theorem buf_empty_of_last {s0 : Sess} {σ : State} (inv : SInv s0 σ)
    (h : σ.lin = [] ∨ ∃ zs t p, σ.lin = zs ++ [(t, (p, true))]) : σ.sess.buf = [] ∧ frames σ = σ.wire := by
  have hb : σ.sess.buf = [] := by
    rw [inv.bufEob]
    rcases h with h | ⟨zs, t, p, h⟩ <;> rw [h] <;> simp
  exact ⟨hb, by unfold frames; rw [hb, List.append_nil]⟩


end Fix8Model.Conc.Writer
