import Fix8Model.Session.Step
import Fix8Model.Conc.Mpmc
/-!
# Concurrent senders: `FIXWriter::write` / `write_batch` (include/fix8/connection.hpp 366-413), the pipelined writer
thread `FIXWriter::execute` (runtime/connection.cpp 272-315) and the critical section `Session::send_process`
(runtime/session.cpp 1015-1127)

A transition system with any number of threads, one micro-step per shared access.

    thread model (pm_thread, pm_coro): write(msg) and write_batch(msgs) are
        acq     f8_scoped_spin_lock guard(_con_spl)      test-and-set; a thread that finds the lock taken stays at `acq`
        per message, in order (`send_process`):
          enc   read _next_send_seq into the MsgSeqNum field, encode; end_of_batch: send(_batchmsgs_buffer + frame), clear the
                buffer; otherwise append the frame to _batchmsgs_buffer
          put   _persist->put(_next_send_seq, optr); _persist->put(_next_send_seq + 1, _next_receive_seq)
                (the counter is read AGAIN here; `optr` is the thread-local encoding of `enc`)
          inc   ++_next_send_seq
        rel     ~f8_scoped_spin_lock
    pipelined model (pm_pipeline):
        write(msg)        = _msg_queue.try_push(msg), NO lock: the five shared accesses of `uMPMC_Ptr_Queue::push`
        write_batch(msgs) = acq; for every message set_end_of_batch(last?) and try_push; rel        (size >= 2)
        writer thread W   = forever: _msg_queue.pop (the shared accesses of `uMPMC_Ptr_Queue::pop`, repeated while the
                            queue reports empty); then enc, put, inc of `send_process` for the popped message
    write_batch of an empty vector returns at once, of one message is `write` (both models).

The queue is the model of C30 (`Fix8Model.Conc.Mpmc`, embedded: every step of a sender or of the writer thread inside
`push`/`pop` is a step of that model).  The session is the `Sess` of the session model (C16-C19); `enc`, `put`, `inc`
together are its `sendProcess` for a new application message (`micro_eq_sendProcess`).  A queued pointer is the natural
number `2 * payload id + end_of_batch` (`encode`/`decode`): the `Message` object with its `_end_of_batch` flag.

Modelled, not verified: the spin lock is an atomic test-and-set, every shared access is one indivisible sequentially
consistent step, `send()` of a buffer to the socket is atomic with the `enc` step (frames of one `send` are contiguous
on the wire), all messages are new application messages (NewOrderSingle) sent without custom_seqnum / no_increment, socket
writes succeed, `_per_spl` (taken around the `put`s in pm_thread / pm_pipeline against the INBOUND path) is not modelled:
no inbound traffic, timer or resend handling runs concurrently.

Ghost components (never read by the algorithm): `wire`, `calls`, `lin`, `plog`, `grants`, `uninc`, `unstored`.
-/
namespace Fix8Model.Conc.Writer
open Fix8Model.Session
open Fix8Model.Conc.Mpmc (upd)

abbrev Tid := Nat

/-- a message handed to `send_process`: payload id (ClOrdID) and `_end_of_batch` -/
abbrev Item := Nat × Bool

/-- the pointer value travelling through the queue -/
def encode (x : Item) : Nat := 2 * x.1 + (if x.2 then 1 else 0)
def decode (d : Nat) : Item := (d / 2, d % 2 == 1)

theorem decode_encode (x : Item) : decode (encode x) = x := by
  obtain ⟨p, e⟩ := x
  cases e <;> simp [encode, decode] <;> omega

/-- the writer thread of the pipelined model -/
def W : Tid := 0

inductive Call where
  | write (pid : Nat)
  | batch (pids : List Nat)
  deriving DecidableEq, Repr

/-- `write_batch`: `set_end_of_batch(itr == litr)` -/
def batchItems : List Nat → List Item
  | [] => []
  | [p] => [(p, true)]
  | p :: q :: r => (p, false) :: batchItems (q :: r)

def Call.items : Call → List Item
  | .write p => [(p, true)]
  | .batch ps => batchItems ps

/-- where a thread stands inside `send_process` -/
inductive Stage where
  | enc
  | put (m : Msg)
  | inc
  deriving DecidableEq, Repr

inductive PC where
  | idle
  /-- spinning on `_con_spl` with these messages to send -/
  | acq (todo : List Item)
  /-- inside `send_process(cur)`; `rest` are the remaining messages of the call -/
  | cs (cur : Item) (stage : Stage) (rest : List Item)
  /-- about to leave the scope of the lock guard -/
  | rel
  /-- pipelined sender: the current `try_push` is driven by the queue's program counter, `todo` not yet started;
  `held` = inside `write_batch` (lock taken) -/
  | push (todo : List Item) (held : Bool)
  /-- writer thread inside `_msg_queue.pop` -/
  | wpop
  /-- writer thread after popping a null pointer (loop left; theorem: unreachable) -/
  | wdead
  deriving DecidableEq, Repr

instance : Inhabited PC := ⟨.idle⟩

structure State where
  q : Mpmc.State                     -- _msg_queue
  sess : Sess                        -- _next_send_seq (ns), _batchmsgs_buffer (buf), _persist (store)
  lock : Option Tid                  -- _con_spl
  pc : Tid → PC
  wire : List Msg                    -- ghost: frames handed to the socket, in order
  calls : List (Tid × Call)          -- ghost: calls in the order they were issued
  lin : List (Tid × Item)            -- ghost: (submitting thread, message) in the order `send_process` was entered
  plog : List (Tid × Item × Bool)    -- ghost: the queue's push log with the `held` flag of the pushing call
  grants : List (Tid × List Item)    -- ghost: lock acquisitions (thread, messages of the call)
  uninc : Nat                        -- ghost: frames encoded whose `++_next_send_seq` is still to come
  unstored : Nat                     -- ghost: frames encoded whose `put` is still to come

/-- all frames produced so far: written ones, then the batch buffer -/
def frames (σ : State) : List Msg := σ.wire ++ σ.sess.buf

/-- the frame `send_process` builds for payload `p` in session state `s` -/
def frameOf (s : Sess) (p : Nat) : Msg := { mkOrder s p with seq := s.ns, st := s.now }

def putStep (s : Sess) (m : Msg) : Sess :=
  { s with store := s.store.map fun st => (st.put s.ns (Rec.frame m)).cput (s.ns + 1) s.nr }

def incStep (s : Sess) : Sess := { s with ns := s.ns + 1 }

def encSess (s : Sess) (x : Item) : Sess := { s with buf := if x.2 then [] else s.buf ++ [frameOf s x.1] }
def encWire (s : Sess) (x : Item) : List Msg := if x.2 then s.buf ++ [frameOf s x.1] else []

/-- the three micro-steps are `send_process` of the session model (fixed code, new application message) -/
theorem micro_eq_sendProcess (s : Sess) (x : Item) (hc : s.code.tailFromBuffer = false) :
    incStep (putStep (encSess s x) (frameOf s x.1)) = (sendProcess s { m := mkOrder s x.1, eob := x.2 }).1 ∧
    (encWire s x).map Out.wire = (sendProcess s { m := mkOrder s x.1, eob := x.2 }).2 := by
  obtain ⟨p, e⟩ := x
  cases e <;> simp [incStep, putStep, encSess, encWire, frameOf, sendProcess, mkOrder, Sess.fresh, hc]

/-- program counter after the last micro-step of a message -/
def after (pl : Bool) : List Item → PC
  | x :: r => .cs x .enc r
  | [] => if pl then .wpop else .rel

/-- ghost: who submitted the message entering `send_process` (pipelined: the winner of the ticket being processed) -/
def owner (pl : Bool) (σ : State) (t : Tid) : Tid :=
  if pl then ((σ.plog[σ.lin.length]?).map (·.1)).getD t else t

/-- one micro-step of thread `t` -/
def next (pl : Bool) (n : Nat) (σ : State) (t : Tid) : State :=
  match σ.pc t with
  | .idle => σ
  | .acq todo =>
    match σ.lock with
    | some _ => σ
    | none => { σ with lock := some t, grants := σ.grants ++ [(t, todo)],
                       pc := upd σ.pc t (if pl then .push todo true else after false todo) }
  | .cs cur .enc rest =>
    { σ with sess := encSess σ.sess cur, wire := σ.wire ++ encWire σ.sess cur,
             lin := σ.lin ++ [(owner pl σ t, cur)], uninc := σ.uninc + 1, unstored := σ.unstored + 1,
             pc := upd σ.pc t (.cs cur (.put (frameOf σ.sess cur.1)) rest) }
  | .cs cur (.put m) rest =>
    { σ with sess := putStep σ.sess m, unstored := σ.unstored - 1, pc := upd σ.pc t (.cs cur .inc rest) }
  | .cs _ .inc rest =>
    { σ with sess := incStep σ.sess, uninc := σ.uninc - 1, pc := upd σ.pc t (after pl rest) }
  | .rel => { σ with lock := none, pc := upd σ.pc t .idle }
  | .push todo held =>
    match σ.q.pc t with
    | .idle =>
      match todo with
      | x :: r => { σ with q := Mpmc.call σ.q t (.push (encode x)), pc := upd σ.pc t (.push r held) }
      | [] => { σ with lock := if held then none else σ.lock, pc := upd σ.pc t .idle }
    | _ =>
      { σ with q := Mpmc.next n σ.q t,
               plog := σ.plog ++ ((Mpmc.next n σ.q t).pushLog.drop σ.q.pushLog.length).map
                          (fun e => (e.1, decode e.2, held)) }
  | .wpop =>
    match σ.q.pc t with
    | .idle => { σ with q := Mpmc.call σ.q t .pop }
    | .cPopped _ got =>
      { σ with q := Mpmc.next n σ.q t,
               pc := upd σ.pc t (match got with | some d => .cs (decode d) .enc [] | none => .wdead) }
    | _ => { σ with q := Mpmc.next n σ.q t }
  | .wdead => σ

/-- where a call starts: empty vector: nothing; thread model: take the lock; pipelined: one message is a bare push,
two or more take the lock -/
def startPC (pl : Bool) (c : Call) : PC :=
  match c.items with
  | [] => .idle
  | [x] => if pl then .push [x] false else .acq [x]
  | x :: y :: r => .acq (x :: y :: r)

def call (pl : Bool) (σ : State) (t : Tid) (c : Call) : State :=
  { σ with pc := upd σ.pc t (startPC pl c), calls := σ.calls ++ [(t, c)] }

def init (pl : Bool) (s0 : Sess) : State :=
  { q := Mpmc.init, sess := s0, lock := none, pc := fun t => if pl = true ∧ t = W then .wpop else .idle,
    wire := [], calls := [], lin := [], plog := [], grants := [], uninc := 0, unstored := 0 }

/-- the transition relation: any idle thread may issue any call, any thread may take its next micro-step (a step of
an idle, spinning or dead thread changes nothing).  No fairness, no bound on threads, calls or steps. -/
inductive Step (pl : Bool) (n : Nat) : State → State → Prop where
  | call (σ : State) (t : Tid) (c : Call) : σ.pc t = .idle → Step pl n σ (call pl σ t c)
  | run (σ : State) (t : Tid) : Step pl n σ (next pl n σ t)

inductive Reachable (pl : Bool) (n : Nat) (s0 : Sess) : State → Prop where
  | init : Reachable pl n s0 (init pl s0)
  | step {σ σ' : State} : Reachable pl n s0 σ → Step pl n σ σ' → Reachable pl n s0 σ'

/-- scripts (driver, witnesses) -/
inductive Cmd where
  | call (t : Tid) (c : Call)
  | run (t : Tid)
  deriving Repr

def exec1 (pl : Bool) (n : Nat) (σ : State) : Cmd → Option State
  | .call t c => if σ.pc t = .idle then some (call pl σ t c) else none
  | .run t => some (next pl n σ t)

def exec (pl : Bool) (n : Nat) : State → List Cmd → Option State
  | σ, [] => some σ
  | σ, c :: cs => match exec1 pl n σ c with
    | some σ' => exec pl n σ' cs
    | none => none

theorem reachable_exec1 {pl : Bool} {n : Nat} {s0 : Sess} {σ σ' : State} {c : Cmd}
    (r : Reachable pl n s0 σ) (h : exec1 pl n σ c = some σ') : Reachable pl n s0 σ' := by
  cases c with
  | call t c =>
    simp only [exec1] at h
    split at h
    next hi => injection h with h; subst h; exact .step r (.call σ t c hi)
    next => cases h
  | run t =>
    simp only [exec1] at h
    injection h with h; subst h; exact .step r (.run σ t)

theorem reachable_exec {pl : Bool} {n : Nat} {s0 : Sess} :
    ∀ {cs : List Cmd} {σ σ' : State}, Reachable pl n s0 σ → exec pl n σ cs = some σ' → Reachable pl n s0 σ'
  | [], σ, σ', r, h => by simp only [exec] at h; injection h with h; subst h; exact r
  | c :: cs, σ, σ', r, h => by
      simp only [exec] at h
      split at h
      next σ1 h1 => exact reachable_exec (reachable_exec1 r h1) h
      next => cases h

end Fix8Model.Conc.Writer
