import Fix8Model.Conc.MpmcInv
/-! preservation of `Inv` by the three state-changing steps of `push` -/
namespace Fix8Model.Conc.Mpmc

/-- successful `CAS(preadP, pw, pw+1)` -/
theorem inv_pCas_succ {n : Nat} {σ : State} (hn : 0 < n) (inv : Inv n σ) (u : Tid) (d : Data) (pw : Nat)
    (hpc : σ.pc u = .pCas d pw) (hP : σ.P = pw) :
    Inv n { σ with P := pw + 1, pc := upd σ.pc u (.pWon d pw), pushLog := σ.pushLog ++ [(u, d)] } := by
  have hidx : pw % n < n := Nat.mod_lt _ hn
  have hu := inv.thr u
  rw [hpc] at hu; simp only [ThreadOk] at hu
  have hs : σ.sP (pw % n) = pw := by
    have h1 := inv.sPhi _ hidx
    have h2 := inv.modP _ hidx
    exact (mod_close_eq (n := n) (a := pw) (b := σ.sP (pw % n)) hu.2 (by omega) h2.symm).symm
  have hip : σ.ip (pw % n) = pw := by rw [inv.ipEq _ hidx (by omega), hs]
  have hP1 : holdP (σ.pc u) = none := by rw [hpc]; rfl
  have hC1 : holdC (σ.pc u) = none := by rw [hpc]; rfl
  have hother : ∀ i, i < n → i ≠ pw % n → σ.sP i ≠ pw ∧ σ.sP i + n ≠ pw := by
    intro i hi hne
    have h1 := inv.modP i hi
    constructor
    · intro e; apply hne; rw [← e, h1]
    · intro e; apply hne; rw [← e, add_self_mod, h1]
  refine { inv with sPhi := ?_, sPlo := ?_, ipEq := ?_, bufLog := ?_, logLen := ?_, exP := ?_, exC := ?_,
                    uniqP := ?_, uniqC := ?_, thr := ?_, retOk := ?_ }
  · intro i hi; have := inv.sPhi i hi; show σ.sP i < pw + 1 + n; omega
  · intro i hi
    show pw + 1 ≤ σ.sP i + n
    by_cases h : i = pw % n
    · subst h; omega
    · have := inv.sPlo i hi; have := (hother i hi h).2; omega
  · intro i hi h
    exact inv.ipEq i hi (by show σ.P ≤ σ.sP i; have : pw + 1 ≤ σ.sP i := h; omega)
  · intro i hi e he
    obtain ⟨p, hp⟩ := inv.bufLog i hi e he
    exact ⟨p, getElem?_append_some hp⟩
  · show (σ.pushLog ++ [(u, d)]).length = pw + 1
    simp [inv.logLen, hP]
  · intro i hi h
    have h' : σ.sP i < pw + 1 := h
    show ∃ v, holdP (upd σ.pc u (.pWon d pw) v) = some (σ.sP i)
    by_cases hi' : i = pw % n
    · subst hi'; exact ⟨u, by simp [holdP, hs]⟩
    · have := (hother i hi hi').1
      obtain ⟨v, hv⟩ := inv.exP i hi (by omega)
      have hvu : v ≠ u := by intro e; subst e; simp [hP1] at hv
      exact ⟨v, by rw [upd_other _ _ hvu]; exact hv⟩
  · intro i hi h
    obtain ⟨v, hv⟩ := inv.exC i hi h
    exact ⟨v, by show holdC (upd σ.pc u (.pWon d pw) v) = _; rw [holdC_upd hC1 rfl]; exact hv⟩
  · intro v w t hv hw
    have hv' : holdP (upd σ.pc u (.pWon d pw) v) = some t := hv
    have hw' : holdP (upd σ.pc u (.pWon d pw) w) = some t := hw
    by_cases h1 : v = u <;> by_cases h2 : w = u
    · rw [h1, h2]
    · subst h1; simp [holdP] at hv'; rw [upd_other _ _ h2] at hw'
      have := (holdP_ok inv hw').1; omega
    · subst h2; simp [holdP] at hw'; rw [upd_other _ _ h1] at hv'
      have := (holdP_ok inv hv').1; omega
    · rw [upd_other _ _ h1] at hv'; rw [upd_other _ _ h2] at hw'
      exact inv.uniqP v w t hv' hw'
  · intro v w t hv hw
    have hv' : holdC (upd σ.pc u (.pWon d pw) v) = some t := hv
    have hw' : holdC (upd σ.pc u (.pWon d pw) w) = some t := hw
    rw [holdC_upd hC1 rfl] at hv' hw'
    exact inv.uniqC v w t hv' hw'
  · intro v
    show ThreadOk n _ v (upd σ.pc u (.pWon d pw) v)
    by_cases hv : v = u
    · subst hv
      simp only [upd_same, ThreadOk]
      refine ⟨by omega, hs, hip, ?_⟩
      show (σ.pushLog ++ [(v, d)])[pw]? = some (v, d)
      rw [← hP, ← inv.logLen]; exact List.getElem?_concat_length
    · rw [upd_other _ _ hv]
      have := inv.thr v
      cases hpv : σ.pc v <;> rw [hpv] at this <;> simp only [ThreadOk] at this ⊢
      · omega
      · exact ⟨by omega, this.2⟩
      · exact ⟨by omega, this.2.1, this.2.2.1, getElem?_append_some this.2.2.2⟩
      · exact ⟨by omega, this.2⟩
      all_goals exact this
  · intro e he
    obtain ⟨h1, h2, p, d', h3, h4⟩ := inv.retOk e he
    exact ⟨h1, h2, p, d', h3, getElem?_append_some h4⟩

/-- other push-ticket holders sit on other slots -/
theorem holdP_other_slot {n : Nat} {σ : State} (inv : Inv n σ) {u v : Tid} {pw t : Nat}
    (hu : holdP (σ.pc u) = some pw) (hv : holdP (σ.pc v) = some t) (hne : v ≠ u) : t % n ≠ pw % n := by
  intro e
  have h1 := (holdP_ok inv hv).2
  have h2 := (holdP_ok inv hu).2
  rw [e, h2] at h1
  subst h1
  exact hne (inv.uniqP v u _ hv hu)

/-- `buf[idx]->push(data)` -/
theorem inv_pWon {n : Nat} {σ : State} (hn : 0 < n) (inv : Inv n σ) (u : Tid) (d : Data) (pw : Nat)
    (hpc : σ.pc u = .pWon d pw) :
    Inv n { σ with buf := upd σ.buf (pw % n) (σ.buf (pw % n) ++ [(pw, d)]),
                   ip := upd σ.ip (pw % n) (pw + n),
                   pc := upd σ.pc u (.pPushed pw) } := by
  have hidx : pw % n < n := Nat.mod_lt _ hn
  have hu := inv.thr u
  rw [hpc] at hu; simp only [ThreadOk] at hu
  obtain ⟨hlt, hs, hip, hlog⟩ := hu
  have hP1 : holdP (.pPushed pw) = holdP (σ.pc u) := by rw [hpc]; rfl
  have hPu : holdP (σ.pc u) = some pw := by rw [hpc]; rfl
  have hC1 : holdC (σ.pc u) = none := by rw [hpc]; rfl
  refine { inv with modIp := ?_, ipGe := ?_, ipEq := ?_, chain := ?_, bufLog := ?_, exP := ?_, exC := ?_,
                    uniqP := ?_, uniqC := ?_, thr := ?_ }
  · intro i hi
    show upd σ.ip (pw % n) (pw + n) i % n = i
    by_cases h : i = pw % n
    · subst h; rw [upd_same, add_self_mod]
    · rw [upd_other _ _ h]; exact inv.modIp i hi
  · intro i hi
    show σ.sP i ≤ upd σ.ip (pw % n) (pw + n) i
    by_cases h : i = pw % n
    · subst h; rw [upd_same, hs]; omega
    · rw [upd_other _ _ h]; exact inv.ipGe i hi
  · intro i hi hle
    have hle' : σ.P ≤ σ.sP i := hle
    show upd σ.ip (pw % n) (pw + n) i = σ.sP i
    by_cases h : i = pw % n
    · subst h; omega
    · rw [upd_other _ _ h]; exact inv.ipEq i hi hle'
  · intro i hi
    show Chain n (σ.ic i) ((upd σ.buf (pw % n) (σ.buf (pw % n) ++ [(pw, d)]) i).map (·.1)) (upd σ.ip (pw % n) (pw + n) i)
    by_cases h : i = pw % n
    · subst h
      rw [upd_same, upd_same, List.map_append]
      have := inv.chain _ hidx
      rw [hip] at this
      exact chain_append this
    · rw [upd_other _ _ h, upd_other _ _ h]; exact inv.chain i hi
  · intro i hi e he
    have he' : e ∈ upd σ.buf (pw % n) (σ.buf (pw % n) ++ [(pw, d)]) i := he
    show ∃ p, σ.pushLog[e.1]? = some (p, e.2)
    by_cases h : i = pw % n
    · subst h
      rw [upd_same, List.mem_append, List.mem_singleton] at he'
      rcases he' with h1 | h1
      · exact inv.bufLog _ hidx e h1
      · subst h1; exact ⟨u, hlog⟩
    · rw [upd_other _ _ h] at he'; exact inv.bufLog i hi e he'
  · intro i hi h
    obtain ⟨v, hv⟩ := inv.exP i hi h
    exact ⟨v, by show holdP (upd σ.pc u (.pPushed pw) v) = _; rw [holdP_upd_same hP1]; exact hv⟩
  · intro i hi h
    obtain ⟨v, hv⟩ := inv.exC i hi h
    exact ⟨v, by show holdC (upd σ.pc u (.pPushed pw) v) = _; rw [holdC_upd hC1 rfl]; exact hv⟩
  · intro v w t hv hw
    have hv' : holdP (upd σ.pc u (.pPushed pw) v) = some t := hv
    have hw' : holdP (upd σ.pc u (.pPushed pw) w) = some t := hw
    rw [holdP_upd_same hP1] at hv' hw'
    exact inv.uniqP v w t hv' hw'
  · intro v w t hv hw
    have hv' : holdC (upd σ.pc u (.pPushed pw) v) = some t := hv
    have hw' : holdC (upd σ.pc u (.pPushed pw) w) = some t := hw
    rw [holdC_upd hC1 rfl] at hv' hw'
    exact inv.uniqC v w t hv' hw'
  · intro v
    show ThreadOk n _ v (upd σ.pc u (.pPushed pw) v)
    by_cases hv : v = u
    · subst hv
      simp only [upd_same, ThreadOk]
      exact ⟨hlt, hs, by simp⟩
    · rw [upd_other _ _ hv]
      have := inv.thr v
      cases hpv : σ.pc v <;> rw [hpv] at this <;> simp only [ThreadOk] at this ⊢
      case pWon d' t =>
        have hne := holdP_other_slot inv hPu (show holdP (σ.pc v) = some t by rw [hpv]; rfl) hv
        rw [upd_other _ _ hne]; exact this
      case pPushed t =>
        have hne := holdP_other_slot inv hPu (show holdP (σ.pc v) = some t by rw [hpv]; rfl) hv
        rw [upd_other _ _ hne]; exact this
      all_goals exact this

/-- `seqP[idx] = pw + mask + 1`, `push` returns -/
theorem inv_pPushed {n : Nat} {σ : State} (hn : 0 < n) (inv : Inv n σ) (u : Tid) (pw : Nat)
    (hpc : σ.pc u = .pPushed pw) :
    Inv n { σ with sP := upd σ.sP (pw % n) (pw + n), pc := upd σ.pc u .idle } := by
  have hidx : pw % n < n := Nat.mod_lt _ hn
  have hu := inv.thr u
  rw [hpc] at hu; simp only [ThreadOk] at hu
  obtain ⟨hlt, hs, hip⟩ := hu
  have hPu : holdP (σ.pc u) = some pw := by rw [hpc]; rfl
  have hC1 : holdC (σ.pc u) = none := by rw [hpc]; rfl
  have hmono : ∀ i, σ.sP i ≤ upd σ.sP (pw % n) (pw + n) i := by
    intro i
    by_cases h : i = pw % n
    · subst h; rw [upd_same, hs]; omega
    · rw [upd_other _ _ h]; exact Nat.le_refl _
  have hholdP : ∀ v t, holdP (upd σ.pc u .idle v) = some t → holdP (σ.pc v) = some t ∧ v ≠ u := by
    intro v t h
    by_cases hv : v = u
    · subst hv; simp [holdP] at h
    · rw [upd_other _ _ hv] at h; exact ⟨h, hv⟩
  refine { inv with modP := ?_, sPhi := ?_, sPlo := ?_, ipGe := ?_, ipEq := ?_, icLe := ?_, popReady := ?_,
                    exP := ?_, exC := ?_, uniqP := ?_, uniqC := ?_, thr := ?_ }
  · intro i hi
    show upd σ.sP (pw % n) (pw + n) i % n = i
    by_cases h : i = pw % n
    · subst h; rw [upd_same, add_self_mod]
    · rw [upd_other _ _ h]; exact inv.modP i hi
  · intro i hi
    show upd σ.sP (pw % n) (pw + n) i < σ.P + n
    by_cases h : i = pw % n
    · subst h; rw [upd_same]; omega
    · rw [upd_other _ _ h]; exact inv.sPhi i hi
  · intro i hi
    have := inv.sPlo i hi
    have := hmono i
    show σ.P ≤ upd σ.sP (pw % n) (pw + n) i + n
    omega
  · intro i hi
    show upd σ.sP (pw % n) (pw + n) i ≤ σ.ip i
    by_cases h : i = pw % n
    · subst h; rw [upd_same, hip]; omega
    · rw [upd_other _ _ h]; exact inv.ipGe i hi
  · intro i hi hle
    have hle' : σ.P ≤ upd σ.sP (pw % n) (pw + n) i := hle
    show σ.ip i = upd σ.sP (pw % n) (pw + n) i
    by_cases h : i = pw % n
    · subst h; rw [upd_same, hip]
    · rw [upd_other _ _ h] at hle' ⊢; exact inv.ipEq i hi hle'
  · intro i hi
    have := inv.icLe i hi
    have := hmono i
    show σ.ic i ≤ upd σ.sP (pw % n) (pw + n) i
    omega
  · intro r hr
    have := inv.popReady r hr
    have := hmono (r % n)
    show r < upd σ.sP (pw % n) (pw + n) (r % n)
    omega
  · intro i hi h
    have h' : upd σ.sP (pw % n) (pw + n) i < σ.P := h
    show ∃ v, holdP (upd σ.pc u .idle v) = some (upd σ.sP (pw % n) (pw + n) i)
    by_cases hi' : i = pw % n
    · subst hi'
      have := inv.sPlo _ hidx
      rw [upd_same] at h'; omega
    · rw [upd_other _ _ hi'] at h' ⊢
      obtain ⟨v, hv⟩ := inv.exP i hi h'
      have hvu : v ≠ u := by
        intro e; subst e
        rw [hPu] at hv
        have : pw = σ.sP i := by simpa using hv
        apply hi'; rw [this, inv.modP i hi]
      exact ⟨v, by rw [upd_other _ _ hvu]; exact hv⟩
  · intro i hi h
    obtain ⟨v, hv⟩ := inv.exC i hi h
    exact ⟨v, by show holdC (upd σ.pc u .idle v) = _; rw [holdC_upd hC1 rfl]; exact hv⟩
  · intro v w t hv hw
    exact inv.uniqP v w t (hholdP v t hv).1 (hholdP w t hw).1
  · intro v w t hv hw
    have hv' : holdC (upd σ.pc u .idle v) = some t := hv
    have hw' : holdC (upd σ.pc u .idle w) = some t := hw
    rw [holdC_upd hC1 rfl] at hv' hw'
    exact inv.uniqC v w t hv' hw'
  · intro v
    show ThreadOk n _ v (upd σ.pc u .idle v)
    by_cases hv : v = u
    · subst hv; simp [ThreadOk]
    · rw [upd_other _ _ hv]
      have := inv.thr v
      cases hpv : σ.pc v <;> rw [hpv] at this <;> simp only [ThreadOk] at this ⊢
      case pCas d' t => have hm := hmono (t % n); exact ⟨this.1, by omega⟩
      case cCas t => have hm := hmono (t % n); exact ⟨this.1, this.2.1, by omega⟩
      case pWon d' t =>
        have hne := holdP_other_slot inv hPu (show holdP (σ.pc v) = some t by rw [hpv]; rfl) hv
        rw [upd_other _ _ hne]; exact this
      case pPushed t =>
        have hne := holdP_other_slot inv hPu (show holdP (σ.pc v) = some t by rw [hpv]; rfl) hv
        rw [upd_other _ _ hne]; exact this
      all_goals exact this

end Fix8Model.Conc.Mpmc
