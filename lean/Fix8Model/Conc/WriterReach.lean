import Fix8Model.Conc.WriterSess
import Fix8Model.Conc.WriterPipeStep
/-! the invariants of the writer model hold in every reachable state (induction over `Reachable`) -/
namespace Fix8Model.Conc.Writer
open Fix8Model.Session

theorem linv_reachable {pl : Bool} {n : Nat} {s0 : Sess} {σ : State} (r : Reachable pl n s0 σ) : LInv pl σ := by
  induction r with
  | init => exact linv_init pl s0
  | step _ st ih =>
    cases st with
    | call t c h => exact linv_call ih t c h
    | run t => exact linv_next ih t

theorem sinv_reachable {pl : Bool} {n : Nat} {s0 : Sess} {σ : State} (h0 : Start s0) (r : Reachable pl n s0 σ) : SInv s0 σ := by
  induction r with
  | init => exact sinv_init pl h0
  | step r' st ih =>
    cases st with
    | call t c h => exact sinv_call ih t c
    | run t => exact sinv_next (linv_reachable r') ih t

theorem tinv_reachable {n : Nat} {s0 : Sess} {σ : State} (r : Reachable false n s0 σ) : TInv σ := by
  induction r with
  | init => exact tinv_init s0
  | step r' st ih =>
    cases st with
    | call t c h => exact tinv_call (linv_reachable r') ih t c h
    | run t => exact tinv_next (linv_reachable r') ih t

theorem pinv_reachable {n : Nat} (hn : 0 < n) {s0 : Sess} {σ : State} (r : Reachable true n s0 σ) : PInv n σ := by
  induction r with
  | init => exact pinv_init n s0
  | step r' st ih =>
    cases st with
    | call t c h => exact pinv_call (linv_reachable r') ih t c h
    | run t => exact pinv_next hn (linv_reachable r') ih t

end Fix8Model.Conc.Writer
