import Fix8Model.Conc.WriterPipe
/-! `PInv` is preserved by every micro-step of the pipelined model (given the lock invariant `LInv`) -/
namespace Fix8Model.Conc.Writer
open Fix8Model.Session
open Fix8Model.Conc.Mpmc (upd upd_same upd_other)

/-- a step of the writer thread that only moves its own program counter (inside `send_process`, after `enc`) -/
theorem pinv_w_pc {n : Nat} {σ σ' : State} (linv : LInv true σ) (inv : PInv n σ) (p' : PC)
    (hq : σ'.q = σ.q) (hplog : σ'.plog = σ.plog) (hlin : σ'.lin = σ.lin) (hlock : σ'.lock = σ.lock)
    (hg : σ'.grants = σ.grants) (hcalls : σ'.calls = σ.calls) (hpc : σ'.pc = upd σ.pc W p')
    (hw1 : wp1 p' = wp1 (σ.pc W)) (hidle : σ.q.pc W = .idle) (hnotenc : ∀ cur rest, p' ≠ .cs cur .enc rest)
    (hnotacq : ∀ todo, p' ≠ .acq todo) : PInv n σ' := by
  have hother : ∀ u, u ≠ W → σ'.pc u = σ.pc u := fun u hu => by rw [hpc, upd_other _ _ hu]
  have hself : σ'.pc W = p' := by rw [hpc, upd_same]
  constructor
  · rw [hq]; exact inv.qi
  · intro u h1 h2
    rw [hq]
    by_cases hu : u = W
    · subst hu; exact hidle
    · rw [hother u hu] at h1 h2; exact inv.qidle u h1 h2
  · rw [hplog, hq]; exact inv.plogOk
  · intro cur rest hc; rw [hself] at hc; exact absurd hc (hnotenc cur rest)
  · rw [hlin, hself, hw1, hq]; exact inv.wlen
  · rw [hlin, hplog]; exact inv.linOk
  · intro u hu
    simp only [plogOf, submitted, hplog, hcalls, hq, hother u hu]
    exact inv.acct u hu
  · simp only [submitted, hcalls]; exact inv.noCallW
  · rw [hlock, hg]; simp only [heldLog, hplog]; exact inv.grantsFree
  · intro u hu
    rw [hlock] at hu
    have huw := (holder_push linv hu).1
    rw [hg, hq, hother u huw]; simp only [heldLog, hplog]; exact inv.grantsHeld u hu
  · rw [hg, hcalls]; exact inv.whole
  · intro u todo hu
    rw [hcalls]
    by_cases huw : u = W
    · subst huw; rw [hself] at hu; exact absurd hu (hnotacq todo)
    · rw [hother u huw] at hu; exact inv.acqWhole u todo hu

/-- a step of the writer thread inside `pop` that leaves its writer-level program counter at `wpop` -/
theorem pinv_w_q {n : Nat} {σ : State} (linv : LInv true σ) (inv : PInv n σ) (q' : Mpmc.State) (hp : σ.pc W = .wpop)
    (hqi : QInv n q') (hlog : q'.pushLog = σ.q.pushLog) (hoth : ∀ u, u ≠ W → q'.pc u = σ.q.pc u)
    (hw2 : wp2 (σ.q.pc W) = 0) (hrets : q'.rets.length = σ.q.rets.length + wp2 (q'.pc W)) : PInv n { σ with q := q' } := by
  constructor
  · exact hqi
  · intro u h1 h2
    by_cases hu : u = W
    · subst hu; exact absurd hp h2
    · show q'.pc u = _; rw [hoth u hu]; exact inv.qidle u h1 h2
  · show σ.plog.map _ = q'.pushLog; rw [hlog]; exact inv.plogOk
  · intro cur rest hc; simp only at hc; rw [hp] at hc; cases hc
  · show σ.lin.length + wp1 (σ.pc W) + wp2 (q'.pc W) = q'.rets.length
    have := inv.wlen; rw [hw2] at this; omega
  · exact inv.linOk
  · intro u hu
    show plogOf σ u ++ inflight (q'.pc u) ++ pend (σ.pc u) = submitted σ u
    rw [hoth u hu]; exact inv.acct u hu
  · exact inv.noCallW
  · exact inv.grantsFree
  · intro u hu
    show σ.grants.flatMap expand = heldLog σ ++ (inflight (q'.pc u) ++ pend (σ.pc u)).map _
    rw [hoth u (holder_push linv hu).1]; exact inv.grantsHeld u hu
  · exact inv.whole
  · exact inv.acqWhole

theorem plogOf_append_self (l : List (Tid × Item × Bool)) (t : Tid) (x : Item) (h : Bool) :
    ((l ++ [(t, x, h)]).filter (fun e => e.1 == t)).map (fun e => e.2.1) = (l.filter (fun e => e.1 == t)).map (fun e => e.2.1) ++ [x] := by
  simp [List.filter_append]

theorem plogOf_append_other (l : List (Tid × Item × Bool)) {t u : Tid} (hu : u ≠ t) (x : Item) (h : Bool) :
    ((l ++ [(t, x, h)]).filter (fun e => e.1 == u)).map (fun e => e.2.1) = (l.filter (fun e => e.1 == u)).map (fun e => e.2.1) := by
  have : (t == u) = false := by simpa using fun e => hu e.symm
  simp [List.filter_append, this]

theorem next_push_run {n : Nat} {σ : State} {t : Tid} {todo : List Item} {held : Bool}
    (hp : σ.pc t = .push todo held) (hq : σ.q.pc t ≠ .idle) :
    next true n σ t =
      { σ with q := Mpmc.next n σ.q t,
               plog := σ.plog ++ ((Mpmc.next n σ.q t).pushLog.drop σ.q.pushLog.length).map
                          (fun e => (e.1, decode e.2, held)) } := by
  cases hq' : σ.q.pc t <;> first | exact absurd hq' hq | simp only [next, hp, hq']

theorem next_wpop_run {n : Nat} {σ : State} (hp : σ.pc W = .wpop) (hq : σ.q.pc W ≠ .idle)
    (hq2 : ∀ pr got, σ.q.pc W ≠ .cPopped pr got) : next true n σ W = { σ with q := Mpmc.next n σ.q W } := by
  cases hq' : σ.q.pc W <;> first | exact absurd hq' hq | exact absurd hq' (hq2 _ _) | simp only [next, hp, hq']

theorem pinv_next {n : Nat} (hn : 0 < n) {σ : State} (linv : LInv true σ) (inv : PInv n σ) (t : Tid) :
    PInv n (next true n σ t) := by
  have ht := linv.pcOk t
  cases hp : σ.pc t with
  | idle => simp only [next, hp]; exact inv
  | wdead => simp only [next, hp]; exact inv
  | rel => rw [hp] at ht; simp [PcOk] at ht
  | acq todo =>
    rw [hp] at ht; simp only [PcOk] at ht
    have htw : t ≠ W := ht trivial
    have hqt : σ.q.pc t = .idle := inv.qidle t (by rw [hp]; intro _ _ e; cases e) (by rw [hp]; intro e; cases e)
    cases hl : σ.lock with
    | some v => simp only [next, hp, hl]; exact inv
    | none =>
      simp only [next, hp, hl, ↓reduceIte]
      have hpcW : upd σ.pc t (PC.push todo true) W = σ.pc W := upd_other _ _ (fun e => htw e.symm)
      constructor
      · exact inv.qi
      · intro u h1 h2
        by_cases hu : u = t
        · subst hu; exact hqt
        · simp only [upd_other _ _ hu] at h1 h2; exact inv.qidle u h1 h2
      · exact inv.plogOk
      · intro cur rest hc; simp only [hpcW] at hc; exact inv.wCur cur rest hc
      · show σ.lin.length + wp1 (upd σ.pc t (PC.push todo true) W) + _ = _; rw [hpcW]; exact inv.wlen
      · exact inv.linOk
      · intro u huw
        show plogOf σ u ++ inflight (σ.q.pc u) ++ pend (upd σ.pc t (PC.push todo true) u) = submitted σ u
        by_cases hu : u = t
        · subst hu; rw [upd_same]; have := inv.acct u huw; rw [hp] at this; exact this
        · rw [upd_other _ _ hu]; exact inv.acct u huw
      · exact inv.noCallW
      · intro h; cases h
      · intro u hu
        simp only at hu; injection hu with hu; subst hu
        show (σ.grants ++ [(t, todo)]).flatMap expand = heldLog σ ++ (inflight (σ.q.pc t) ++ pend (upd σ.pc t (PC.push todo true) t)).map _
        rw [upd_same, hqt, List.flatMap_append, inv.grantsFree hl]
        simp [expand, inflight, pend]
      · intro g hg
        rcases List.mem_append.mp hg with hg | hg
        · exact inv.whole g hg
        · rw [List.mem_singleton] at hg; subst hg
          exact inv.acqWhole t todo hp
      · intro u todo' hu
        by_cases hut : u = t
        · subst hut; simp only [upd_same] at hu; cases hu
        · simp only [upd_other _ _ hut] at hu; exact inv.acqWhole u todo' hu
  | cs cur stage rest =>
    rw [hp] at ht; simp only [PcOk] at ht
    obtain ⟨htw, hrest⟩ := ht.1 trivial
    subst htw; subst hrest
    have hqW : σ.q.pc W = .idle := inv.qidle W (by rw [hp]; intro _ _ e; cases e) (by rw [hp]; intro e; cases e)
    cases stage with
    | put m =>
      simp only [next, hp]
      exact pinv_w_pc linv inv (.cs cur .inc []) rfl rfl rfl rfl rfl rfl rfl (by rw [hp]; rfl) hqW
        (by intro _ _ e; cases e) (by intro _ e; cases e)
    | inc =>
      simp only [next, hp, after, ↓reduceIte]
      exact pinv_w_pc linv inv .wpop rfl rfl rfl rfl rfl rfl rfl (by rw [hp]; rfl) hqW
        (by intro _ _ e; cases e) (by intro _ e; cases e)
    | enc =>
      simp only [next, hp]
      have hother : ∀ u, u ≠ W → upd σ.pc W (PC.cs cur (Stage.put (frameOf σ.sess cur.1)) []) u = σ.pc u :=
        fun u hu => upd_other _ _ hu
      have hwl := inv.wlen
      rw [hp, hqW] at hwl; simp only [wp1, wp2] at hwl
      constructor
      · exact inv.qi
      · intro u h1 h2
        by_cases hu : u = W
        · subst hu; exact hqW
        · simp only [hother u hu] at h1 h2; exact inv.qidle u h1 h2
      · exact inv.plogOk
      · intro cur' rest' hc; simp only [upd_same] at hc; cases hc
      · show (σ.lin ++ [_]).length + wp1 (upd σ.pc W _ W) + wp2 (σ.q.pc W) = _
        simp only [upd_same, hqW, List.length_append, List.length_cons, List.length_nil, wp1, wp2]; omega
      · -- the message entering `send_process` is the next entry of the push log
        obtain ⟨pr, d, hlast, hcur⟩ := inv.wCur cur [] hp
        have minv := Mpmc.inv_reachable hn inv.qi.reach
        obtain ⟨ys, hys⟩ := List.getLast?_eq_some_iff.mp hlast
        have htk := inv.qi.tickets
        rw [hys] at htk hwl
        simp only [List.map_append, List.map_cons, List.map_nil, List.length_append, List.length_cons, List.length_nil] at htk hwl
        rw [List.range_succ] at htk
        have hpr : pr = ys.length := by
          have := List.append_inj_right' htk (by simp)
          simpa using this
        have hmem : (W, pr, some d) ∈ σ.q.rets := by rw [hys]; simp
        obtain ⟨p, d', hd', hlog⟩ := (minv.retOk _ hmem).2.2
        simp only at hd' hlog
        injection hd' with hd'; subst hd'
        have hlen : σ.lin.length = pr := by omega
        rw [← inv.plogOk, List.getElem?_map] at hlog
        cases hent : σ.plog[pr]? with
        | none => rw [hent] at hlog; cases hlog
        | some ent =>
          rw [hent] at hlog
          simp only [Option.map_some, Option.some.injEq, Prod.mk.injEq] at hlog
          obtain ⟨h1, h2⟩ := hlog
          have hx : cur = ent.2.1 := by rw [hcur, ← h2, decode_encode]
          show σ.lin ++ [(owner true σ W, cur)] = (σ.plog.take (σ.lin ++ [(owner true σ W, cur)]).length).map _
          simp only [List.length_append, List.length_cons, List.length_nil, owner, ↓reduceIte]
          rw [hlen, List.take_succ, hent]
          simp only [Option.map_some, Option.getD_some, Option.toList_some, List.map_append, List.map_cons, List.map_nil]
          rw [← hlen, ← inv.linOk, hx]
      · intro u hu
        show plogOf σ u ++ inflight (σ.q.pc u) ++ pend (upd σ.pc W _ u) = submitted σ u
        rw [hother u hu]; exact inv.acct u hu
      · exact inv.noCallW
      · exact inv.grantsFree
      · intro u hu
        show σ.grants.flatMap expand = heldLog σ ++ (inflight (σ.q.pc u) ++ pend (upd σ.pc W _ u)).map _
        rw [hother u (holder_push linv hu).1]; exact inv.grantsHeld u hu
      · exact inv.whole
      · intro u todo hu
        by_cases huw : u = W
        · subst huw; simp only [upd_same] at hu; cases hu
        · simp only [hother u huw] at hu; exact inv.acqWhole u todo hu
  | push todo held =>
    rw [hp] at ht; simp only [PcOk] at ht
    have htw : t ≠ W := ht.2
    have hWt : W ≠ t := fun e => htw e.symm
    have hheld : ∀ u, σ.lock = some u → u ≠ t → held = true → False := by
      intro u hu hut hh
      subst hh
      have := linv.holder t (by rw [hp]; rfl)
      rw [hu] at this; injection this with this; exact hut this
    by_cases hq : σ.q.pc t = .idle
    · cases todo with
      | cons x r =>
        simp only [next, hp, hq]
        have hpcW : upd σ.pc t (PC.push r held) W = σ.pc W := upd_other _ _ hWt
        have hqW : (Mpmc.call σ.q t (.push (encode x))).pc W = σ.q.pc W := call_pc_other _ _ hWt
        have hqt : (Mpmc.call σ.q t (.push (encode x))).pc t = .pStart (encode x) := by simp [Mpmc.call, Mpmc.Op.start]
        constructor
        · exact qinv_call_push inv.qi htw _ hq
        · intro u h1 h2
          by_cases hu : u = t
          · subst hu; simp only [upd_same] at h1; exact absurd rfl (h1 r held)
          · simp only [upd_other _ _ hu] at h1 h2
            show (Mpmc.call σ.q t _).pc u = _
            rw [call_pc_other _ _ hu]; exact inv.qidle u h1 h2
        · exact inv.plogOk
        · intro cur rest hc; simp only [hpcW] at hc; exact inv.wCur cur rest hc
        · show σ.lin.length + wp1 (upd σ.pc t (PC.push r held) W) + wp2 ((Mpmc.call σ.q t _).pc W) = σ.q.rets.length
          rw [hpcW, hqW]; exact inv.wlen
        · exact inv.linOk
        · intro u huw
          show plogOf σ u ++ inflight ((Mpmc.call σ.q t _).pc u) ++ pend (upd σ.pc t (PC.push r held) u) = submitted σ u
          by_cases hu : u = t
          · subst hu
            rw [upd_same, hqt]
            have := inv.acct u huw; rw [hp, hq] at this
            simp only [inflight, pend, decode_encode, List.append_nil] at this ⊢
            rw [← this]; simp
          · rw [upd_other _ _ hu, call_pc_other _ _ hu]; exact inv.acct u huw
        · exact inv.noCallW
        · exact inv.grantsFree
        · intro u hu
          show σ.grants.flatMap expand = heldLog σ ++ (inflight ((Mpmc.call σ.q t _).pc u) ++ pend (upd σ.pc t (PC.push r held) u)).map _
          by_cases hut : u = t
          · subst hut
            rw [upd_same, hqt]
            have := inv.grantsHeld u hu; rw [hp, hq] at this
            simp only [inflight, pend, decode_encode, List.nil_append] at this ⊢
            rw [this]; simp
          · rw [upd_other _ _ hut, call_pc_other _ _ hut]; exact inv.grantsHeld u hu
        · exact inv.whole
        · intro u todo' hu
          by_cases hut : u = t
          · subst hut; simp only [upd_same] at hu; cases hu
          · simp only [upd_other _ _ hut] at hu; exact inv.acqWhole u todo' hu
      | nil =>
        simp only [next, hp, hq]
        have hpcW : upd σ.pc t PC.idle W = σ.pc W := upd_other _ _ hWt
        constructor
        · exact inv.qi
        · intro u h1 h2
          by_cases hu : u = t
          · subst hu; exact hq
          · simp only [upd_other _ _ hu] at h1 h2; exact inv.qidle u h1 h2
        · exact inv.plogOk
        · intro cur rest hc; simp only [hpcW] at hc; exact inv.wCur cur rest hc
        · show σ.lin.length + wp1 (upd σ.pc t PC.idle W) + _ = _; rw [hpcW]; exact inv.wlen
        · exact inv.linOk
        · intro u huw
          show plogOf σ u ++ inflight (σ.q.pc u) ++ pend (upd σ.pc t PC.idle u) = submitted σ u
          by_cases hu : u = t
          · subst hu; rw [upd_same]; have := inv.acct u huw; rw [hp] at this; exact this
          · rw [upd_other _ _ hu]; exact inv.acct u huw
        · exact inv.noCallW
        · intro hl
          cases held with
          | true =>
            have hlt := linv.holder t (by rw [hp]; rfl)
            have := inv.grantsHeld t hlt
            rw [hp, hq] at this
            show σ.grants.flatMap expand = heldLog σ
            simpa [inflight, pend] using this
          | false => simp only [Bool.false_eq_true, ↓reduceIte] at hl; exact inv.grantsFree hl
        · intro u hu
          cases held with
          | true => simp at hu
          | false =>
            simp only [Bool.false_eq_true, ↓reduceIte] at hu
            have hut : u ≠ t := by
              intro e; subst e
              have := linv.held u hu; rw [hp] at this; simp [holds] at this
            show σ.grants.flatMap expand = heldLog σ ++ (inflight (σ.q.pc u) ++ pend (upd σ.pc t PC.idle u)).map _
            rw [upd_other _ _ hut]; exact inv.grantsHeld u hu
        · exact inv.whole
        · intro u todo' hu
          by_cases hut : u = t
          · subst hut; simp only [upd_same] at hu; cases hu
          · simp only [upd_other _ _ hut] at hu; exact inv.acqWhole u todo' hu
    · have hne := hq
      rw [next_push_run hp hq]
      obtain ⟨_, _, _, hlog, hinf, hwon⟩ := next_producer n σ.q t (inv.qi.prod t htw)
      have hplog : σ.plog ++ ((Mpmc.next n σ.q t).pushLog.drop σ.q.pushLog.length).map (fun e => (e.1, decode e.2, held)) =
          σ.plog ++ (won σ.q t).toList.map (fun d => (t, decode d, held)) := by
        rw [hlog]; simp [List.map_map]
      rw [hplog]
      have hqW : (Mpmc.next n σ.q t).pc W = σ.q.pc W := next_pc_other n σ.q hWt
      constructor
      · exact qinv_next_prod inv.qi htw hne
      · intro u h1 h2
        by_cases hu : u = t
        · subst hu; exact absurd hp (h1 todo held)
        · show (Mpmc.next n σ.q t).pc u = _; rw [next_pc_other n σ.q hu]; exact inv.qidle u h1 h2
      · show (σ.plog ++ _).map _ = (Mpmc.next n σ.q t).pushLog
        rw [hlog, List.map_append, inv.plogOk]
        cases won σ.q t <;> simp [encode_decode]
      · intro cur rest hc
        show ∃ pr d, (Mpmc.next n σ.q t).rets.getLast? = _ ∧ _
        rw [(next_producer n σ.q t (inv.qi.prod t htw)).1]; exact inv.wCur cur rest hc
      · show σ.lin.length + wp1 (σ.pc W) + wp2 ((Mpmc.next n σ.q t).pc W) = (Mpmc.next n σ.q t).rets.length
        rw [hqW, (next_producer n σ.q t (inv.qi.prod t htw)).1]; exact inv.wlen
      · show σ.lin = ((σ.plog ++ _).take σ.lin.length).map _
        rw [List.take_append_of_le_length (lin_le_plog inv)]; exact inv.linOk
      · intro u huw
        show ((σ.plog ++ _).filter _).map _ ++ inflight ((Mpmc.next n σ.q t).pc u) ++ pend (σ.pc u) = submitted σ u
        by_cases hu : u = t
        · subst hu
          rw [hinf]
          have := inv.acct u huw
          cases hw : won σ.q u with
          | none => simpa [hw, plogOf] using this
          | some d =>
            rw [hwon d hw] at this
            simp only [Option.toList_some, List.map_cons, List.map_nil, Option.isSome_some, ↓reduceIte, List.append_nil]
            rw [plogOf_append_self, ← this]; simp [plogOf]
        · rw [next_pc_other n σ.q hu]
          have := inv.acct u huw
          cases hw : won σ.q t with
          | none => simpa [hw, plogOf] using this
          | some d =>
            simp only [Option.toList_some, List.map_cons, List.map_nil]
            rw [plogOf_append_other _ hu]; exact this
      · exact inv.noCallW
      · intro hl
        have hf : held = false := by
          cases held with
          | false => rfl
          | true => have := linv.holder t (by rw [hp]; rfl); rw [hl] at this; cases this
        subst hf
        show σ.grants.flatMap expand = ((σ.plog ++ _).filter _).map _
        rw [List.filter_append]
        have : ((won σ.q t).toList.map fun d => (t, decode d, false)).filter (fun e => e.2.2) = [] := by
          cases won σ.q t <;> simp
        rw [this, List.append_nil]; exact inv.grantsFree hl
      · intro u hu
        show σ.grants.flatMap expand = ((σ.plog ++ _).filter _).map _ ++ (inflight ((Mpmc.next n σ.q t).pc u) ++ pend (σ.pc u)).map _
        by_cases hut : u = t
        · subst hut
          have hh : held = true := by have := linv.held u hu; rw [hp] at this; simpa [holds] using this
          subst hh
          rw [hinf]
          have := inv.grantsHeld u hu
          cases hw : won σ.q u with
          | none => simpa [hw, heldLog] using this
          | some d =>
            rw [hwon d hw] at this
            simp only [Option.toList_some, List.map_cons, List.map_nil, Option.isSome_some, ↓reduceIte, List.nil_append]
            rw [this]; simp [heldLog, List.filter_append]
        · rw [next_pc_other n σ.q hut]
          have hf : held = false := by
            cases held with
            | false => rfl
            | true => exact (hheld u hu hut rfl).elim
          subst hf
          rw [List.filter_append]
          have : ((won σ.q t).toList.map fun d => (t, decode d, false)).filter (fun e => e.2.2) = [] := by
            cases won σ.q t <;> simp
          rw [this, List.append_nil]; exact inv.grantsHeld u hu
      · exact inv.whole
      · exact inv.acqWhole
  | wpop =>
    rw [hp] at ht; simp only [PcOk] at ht
    have htw := ht.2; subst htw
    cases hq : σ.q.pc W with
    | idle =>
      simp only [next, hp, hq]
      apply pinv_w_q linv inv _ hp (qinv_call_pop inv.qi hq) rfl (fun u hu => call_pc_other _ _ hu) (by rw [hq]; rfl)
      simp [Mpmc.call, Mpmc.Op.start, wp2]
    | cPopped pr got =>
      have hne : σ.q.pc W ≠ .idle := by rw [hq]; intro e; cases e
      obtain ⟨hqi, _, h3⟩ := qinv_next_cons inv.qi hne
      obtain ⟨hrets, hidle⟩ := h3 pr got hq
      have hlast := inv.qi.wPopped pr got hq
      have minv := Mpmc.inv_reachable hn inv.qi.reach
      have hmem : (W, pr, got) ∈ σ.q.rets := by
        obtain ⟨ys, hys⟩ := List.getLast?_eq_some_iff.mp hlast
        rw [hys]; simp
      obtain ⟨p, d, hd, _⟩ := (minv.retOk _ hmem).2.2
      simp only at hd; subst hd
      simp only [next, hp, hq]
      have hother : ∀ u, u ≠ W → upd σ.pc W (PC.cs (decode d) Stage.enc []) u = σ.pc u := fun u hu => upd_other _ _ hu
      have hwl := inv.wlen
      rw [hp, hq] at hwl; simp only [wp1, wp2] at hwl
      constructor
      · exact hqi
      · intro u h1 h2
        by_cases hu : u = W
        · subst hu; exact hidle
        · simp only [hother u hu] at h1 h2
          show (Mpmc.next n σ.q W).pc u = _
          rw [next_pc_other n σ.q hu]; exact inv.qidle u h1 h2
      · show σ.plog.map _ = (Mpmc.next n σ.q W).pushLog
        rw [(next_consumer n σ.q W inv.qi.cons).1]; exact inv.plogOk
      · intro cur rest hc
        simp only [upd_same] at hc
        injection hc with hc1 _ _
        show ∃ pr d, (Mpmc.next n σ.q W).rets.getLast? = _ ∧ _
        rw [hrets]; exact ⟨pr, d, hlast, hc1.symm⟩
      · show σ.lin.length + wp1 (upd σ.pc W _ W) + wp2 ((Mpmc.next n σ.q W).pc W) = (Mpmc.next n σ.q W).rets.length
        simp only [upd_same, hidle, hrets, wp1, wp2]; omega
      · exact inv.linOk
      · intro u hu
        show plogOf σ u ++ inflight ((Mpmc.next n σ.q W).pc u) ++ pend (upd σ.pc W _ u) = submitted σ u
        rw [hother u hu, next_pc_other n σ.q hu]; exact inv.acct u hu
      · exact inv.noCallW
      · exact inv.grantsFree
      · intro u hu
        have huw := (holder_push linv hu).1
        show σ.grants.flatMap expand = heldLog σ ++ (inflight ((Mpmc.next n σ.q W).pc u) ++ pend (upd σ.pc W _ u)).map _
        rw [hother u huw, next_pc_other n σ.q huw]; exact inv.grantsHeld u hu
      · exact inv.whole
      · intro u todo hu
        by_cases huw : u = W
        · subst huw; simp only [upd_same] at hu; cases hu
        · simp only [hother u huw] at hu; exact inv.acqWhole u todo hu
    | _ =>
      have hne : σ.q.pc W ≠ .idle := by rw [hq]; intro e; cases e
      have hw2 : wp2 (σ.q.pc W) = 0 := by rw [hq]; rfl
      rw [next_wpop_run hp hne (by rw [hq]; intro _ _ e; cases e)]
      obtain ⟨hqi, h2, _⟩ := qinv_next_cons inv.qi hne
      exact pinv_w_q linv inv _ hp hqi (next_consumer n σ.q W inv.qi.cons).1 (fun u hu => next_pc_other n σ.q hu) hw2 (h2 hw2)

end Fix8Model.Conc.Writer
