import Fix8Model.Conc.Writer
/-!
# Lock discipline of the writer model: the invariant `LInv` and its preservation

`LInv` says where each thread may stand in which process model, that whoever is inside the scope of the lock guard is
recorded as the holder of `_con_spl` (and vice versa), and what the ghost counters are at each stage of `send_process`.
Mutual exclusion of `send_process` (`mutex`) follows.  The property statements live in `Props/C25.lean`.
-/
namespace Fix8Model.Conc.Writer
open Fix8Model.Session
open Fix8Model.Conc.Mpmc (upd upd_same upd_other)

/-- inside `send_process` -/
def inCS : PC → Bool
  | .cs _ _ _ => true
  | _ => false

/-- inside the scope of an `f8_scoped_spin_lock guard(_con_spl)` (thread model: `send_process` runs inside it; pipelined:
`send_process` runs on the writer thread without the lock) -/
def holds (pl : Bool) : PC → Bool
  | .cs _ _ _ => !pl
  | .rel => true
  | .push _ held => held
  | _ => false

def StageOk (σ : State) : Stage → Prop
  | .enc => σ.uninc = 0 ∧ σ.unstored = 0
  | .put m => σ.uninc = 1 ∧ σ.unstored = 1 ∧ (frames σ).getLast? = some m
  | .inc => σ.uninc = 1 ∧ σ.unstored = 0

def PcOk (pl : Bool) (σ : State) (t : Tid) : PC → Prop
  | .idle => pl = true → t ≠ W
  | .acq _ => pl = true → t ≠ W
  | .cs _ stage rest => (pl = true → t = W ∧ rest = []) ∧ StageOk σ stage
  | .rel => pl = false
  | .push _ _ => pl = true ∧ t ≠ W
  | .wpop => pl = true ∧ t = W
  | .wdead => pl = true ∧ t = W

structure LInv (pl : Bool) (σ : State) : Prop where
  pcOk : ∀ t, PcOk pl σ t (σ.pc t)
  holder : ∀ t, holds pl (σ.pc t) = true → σ.lock = some t
  held : ∀ t, σ.lock = some t → holds pl (σ.pc t) = true
  free : (∀ t, inCS (σ.pc t) = false) → σ.uninc = 0 ∧ σ.unstored = 0

theorem linv_init (pl : Bool) (s0 : Sess) : LInv pl (init pl s0) := by
  constructor
  · intro t
    simp only [init]
    split
    next h => simp [PcOk, h.1, h.2]
    next h => simp only [PcOk]; intro hp; exact fun ht => h ⟨hp, ht⟩
  · intro t h
    simp only [init] at h
    split at h <;> simp [holds] at h
  · intro t h; simp [init] at h
  · intro _; simp [init]

/-- mutual exclusion of `send_process` -/
theorem mutex {pl : Bool} {σ : State} (inv : LInv pl σ) {t u : Tid} (ht : inCS (σ.pc t) = true) (hu : inCS (σ.pc u) = true) :
    t = u := by
  cases pl with
  | true =>
    have h1 := inv.pcOk t
    have h2 := inv.pcOk u
    cases hpt : σ.pc t <;> rw [hpt] at ht h1 <;> simp [inCS] at ht
    cases hpu : σ.pc u <;> rw [hpu] at hu h2 <;> simp [inCS] at hu
    simp only [PcOk] at h1 h2
    rw [(h1.1 trivial).1, (h2.1 trivial).1]
  | false =>
    have h1 : holds false (σ.pc t) = true := by
      cases hpt : σ.pc t <;> rw [hpt] at ht <;> simp [inCS] at ht; simp [holds]
    have h2 : holds false (σ.pc u) = true := by
      cases hpu : σ.pc u <;> rw [hpu] at hu <;> simp [inCS] at hu; simp [holds]
    have := inv.holder t h1
    rw [inv.holder u h2] at this
    injection this with this; exact this.symm

theorem pcOk_not_cs {pl : Bool} {σ σ' : State} {u : Tid} {p : PC} (h : inCS p = false) :
    PcOk pl σ' u p ↔ PcOk pl σ u p := by
  cases p <;> simp [inCS] at h <;> simp [PcOk]

theorem pcOk_congr {pl : Bool} {σ σ' : State} {u : Tid} {p : PC} (hc : σ'.uninc = σ.uninc) (hs : σ'.unstored = σ.unstored)
    (hf : frames σ' = frames σ) : PcOk pl σ' u p ↔ PcOk pl σ u p := by
  cases p with
  | cs cur stage rest => cases stage <;> simp [PcOk, StageOk, hc, hs, hf]
  | _ => simp [PcOk]

/-- a step that keeps the lock word and the acting thread's relation to it -/
theorem linv_keep {pl : Bool} {σ σ' : State} {t : Tid} {p' : PC} (inv : LInv pl σ)
    (hpc : σ'.pc = upd σ.pc t p') (hl : σ'.lock = σ.lock) (hh : holds pl p' = holds pl (σ.pc t))
    (hself : PcOk pl σ' t p')
    (hothers : ∀ u, u ≠ t → PcOk pl σ u (σ.pc u) → PcOk pl σ' u (σ.pc u))
    (hfree : (∀ u, inCS (σ'.pc u) = false) → σ'.uninc = 0 ∧ σ'.unstored = 0) : LInv pl σ' := by
  constructor
  · intro u
    by_cases hu : u = t
    · subst hu; rw [hpc, upd_same]; exact hself
    · rw [hpc, upd_other _ _ hu]; exact hothers u hu (inv.pcOk u)
  · intro u h
    rw [hl]
    by_cases hu : u = t
    · subst hu; rw [hpc, upd_same, hh] at h; exact inv.holder _ h
    · rw [hpc, upd_other _ _ hu] at h; exact inv.holder _ h
  · intro u h
    rw [hl] at h
    by_cases hu : u = t
    · subst hu; rw [hpc, upd_same, hh]; exact inv.held _ h
    · rw [hpc, upd_other _ _ hu]; exact inv.held _ h
  · exact hfree

/-- others are untouched by a step outside `send_process` that leaves counters and frames alone -/
theorem others_congr {pl : Bool} {σ σ' : State} {t : Tid} (hc : σ'.uninc = σ.uninc) (hs : σ'.unstored = σ.unstored)
    (hf : frames σ' = frames σ) : ∀ u, u ≠ t → PcOk pl σ u (σ.pc u) → PcOk pl σ' u (σ.pc u) :=
  fun _ _ h => (pcOk_congr hc hs hf).mpr h

/-- others are outside `send_process` while `t` is inside -/
theorem others_mutex {pl : Bool} {σ σ' : State} {t : Tid} (inv : LInv pl σ) (ht : inCS (σ.pc t) = true) :
    ∀ u, u ≠ t → PcOk pl σ u (σ.pc u) → PcOk pl σ' u (σ.pc u) := by
  intro u hu h
  have : inCS (σ.pc u) = false := by
    cases hc : inCS (σ.pc u) with
    | false => rfl
    | true => exact absurd (mutex inv hc ht) hu
  exact (pcOk_not_cs this).mpr h

/-- `free` for a step outside `send_process` that does not enter it -/
theorem free_keep {pl : Bool} {σ σ' : State} {t : Tid} {p' : PC} (inv : LInv pl σ)
    (hpc : σ'.pc = upd σ.pc t p') (hc : σ'.uninc = σ.uninc) (hs : σ'.unstored = σ.unstored)
    (hold : inCS (σ.pc t) = false) :
    (∀ u, inCS (σ'.pc u) = false) → σ'.uninc = 0 ∧ σ'.unstored = 0 := by
  intro h
  rw [hc, hs]
  apply inv.free
  intro u
  by_cases hu : u = t
  · subst hu; exact hold
  · have := h u; rw [hpc, upd_other _ _ hu] at this; exact this

/-- `free` is vacuous when the acting thread ends up inside `send_process` -/
theorem free_vacuous {σ' : State} {t : Tid} (h : inCS (σ'.pc t) = true) :
    (∀ u, inCS (σ'.pc u) = false) → σ'.uninc = 0 ∧ σ'.unstored = 0 := by
  intro h2; rw [h2 t] at h; cases h

theorem frames_enc (σ : State) (x : Item) :
    (σ.wire ++ encWire σ.sess x) ++ (encSess σ.sess x).buf = frames σ ++ [frameOf σ.sess x.1] := by
  obtain ⟨p, e⟩ := x
  cases e <;> simp [encWire, encSess, frames]

/-- nobody is inside `send_process` when the lock is free (thread model) / the writer thread is popping (pipelined) -/
theorem nobody_in_cs_of_lock_free {σ : State} (inv : LInv false σ) (h : σ.lock = none) : ∀ u, inCS (σ.pc u) = false := by
  intro u
  cases hc : inCS (σ.pc u) with
  | false => rfl
  | true =>
    have : holds false (σ.pc u) = true := by
      cases hpu : σ.pc u <;> rw [hpu] at hc <;> simp [inCS] at hc; simp [holds]
    rw [inv.holder u this] at h; cases h

theorem nobody_in_cs_of_writer_out {σ : State} (inv : LInv true σ) (h : inCS (σ.pc W) = false) : ∀ u, inCS (σ.pc u) = false := by
  intro u
  cases hc : inCS (σ.pc u) with
  | false => rfl
  | true =>
    have h1 := inv.pcOk u
    cases hpu : σ.pc u <;> rw [hpu] at hc h1 <;> simp [inCS] at hc
    simp only [PcOk] at h1
    have := (h1.1 trivial).1; subst this
    rw [hpu] at h; simp [inCS] at h

theorem linv_call {pl : Bool} {σ : State} (inv : LInv pl σ) (t : Tid) (c : Call) (h : σ.pc t = .idle) :
    LInv pl (call pl σ t c) := by
  have ht := inv.pcOk t
  rw [h] at ht; simp only [PcOk] at ht
  apply linv_keep (t := t) (p' := startPC pl c) inv
  · rfl
  · rfl
  · rw [h]; unfold startPC; split <;> (try split) <;> rfl
  · unfold startPC; split
    · exact ht
    · split
      next hp => exact ⟨hp, ht hp⟩
      next => exact ht
    · exact ht
  · exact others_congr rfl rfl rfl
  · exact free_keep (t := t) (p' := startPC pl c) inv rfl rfl rfl (by rw [h]; rfl)

theorem linv_next {pl : Bool} {n : Nat} {σ : State} (inv : LInv pl σ) (t : Tid) : LInv pl (next pl n σ t) := by
  have ht := inv.pcOk t
  cases hp : σ.pc t with
  | idle => simp only [next, hp]; exact inv
  | wdead => simp only [next, hp]; exact inv
  | acq todo =>
    rw [hp] at ht; simp only [PcOk] at ht
    cases hl : σ.lock with
    | some v => simp only [next, hp, hl]; exact inv
    | none =>
      simp only [next, hp, hl]
      have hno : pl = false → ∀ u, inCS (σ.pc u) = false := by
        intro h; subst h; exact nobody_in_cs_of_lock_free inv hl
      have hnone : ∀ u, holds pl (σ.pc u) = true → False := by
        intro u hu; have := inv.holder u hu; rw [hl] at this; cases this
      constructor
      · intro u
        by_cases hu : u = t
        · subst hu
          simp only [upd_same]
          cases pl with
          | true => exact ⟨rfl, ht rfl⟩
          | false =>
            cases todo with
            | nil => simp [after, PcOk]
            | cons x r => simp only [after, Bool.false_eq_true, ↓reduceIte, PcOk, false_implies, true_and, StageOk]; exact inv.free (hno rfl)
        · simp only [upd_other _ _ hu]; exact (pcOk_congr rfl rfl rfl).mpr (inv.pcOk u)
      · intro u hu
        by_cases hut : u = t
        · subst hut; rfl
        · simp only [upd_other _ _ hut] at hu; exact (hnone u hu).elim
      · intro u hu
        simp only at hu; injection hu with hu; subst hu
        simp only [upd_same]
        cases pl with
        | true => rfl
        | false => cases todo <;> rfl
      · intro hall
        simp only
        apply inv.free
        intro u
        by_cases hu : u = t
        · subst hu; rw [hp]; rfl
        · have := hall u; simp only [upd_other _ _ hu] at this; exact this
  | cs cur stage rest =>
    rw [hp] at ht; simp only [PcOk] at ht
    have hin : inCS (σ.pc t) = true := by rw [hp]; rfl
    cases stage with
    | enc =>
      simp only [next, hp]
      simp only [StageOk] at ht
      apply linv_keep (t := t) (p' := .cs cur (.put (frameOf σ.sess cur.1)) rest) inv
      · rfl
      · rfl
      · rw [hp]; rfl
      · refine ⟨ht.1, ?_, ?_, ?_⟩
        · simp [ht.2.1]
        · simp [ht.2.2]
        · show (frames _).getLast? = _
          unfold frames; simp only
          rw [frames_enc]; simp
      · exact others_mutex inv hin
      · exact free_vacuous (t := t) (by simp [inCS])
    | put m =>
      simp only [next, hp]
      simp only [StageOk] at ht
      apply linv_keep (t := t) (p' := .cs cur .inc rest) inv
      · rfl
      · rfl
      · rw [hp]; rfl
      · refine ⟨ht.1, ?_, ?_⟩
        · exact ht.2.1
        · simp [ht.2.2.1]
      · exact others_mutex inv hin
      · exact free_vacuous (t := t) (by simp [inCS])
    | inc =>
      simp only [next, hp]
      simp only [StageOk] at ht
      apply linv_keep (t := t) (p' := after pl rest) inv
      · rfl
      · rfl
      · rw [hp]
        cases rest with
        | cons x r => rfl
        | nil =>
          cases pl with
          | true => rfl
          | false => rfl
      · cases rest with
        | cons x r =>
          simp only [after, PcOk, StageOk]
          refine ⟨fun h => ?_, by simp [ht.2.1], ht.2.2⟩
          have := (ht.1 h).2; cases this
        | nil =>
          cases pl with
          | true => simp only [after, ↓reduceIte, PcOk, true_and]; exact (ht.1 rfl).1
          | false => simp [after, PcOk]
      · exact others_mutex inv hin
      · intro _; simp [ht.2.1, ht.2.2]
  | rel =>
    rw [hp] at ht; simp only [PcOk] at ht
    simp only [next, hp]
    have hlt : σ.lock = some t := inv.holder t (by rw [hp]; rfl)
    constructor
    · intro u
      by_cases hu : u = t
      · subst hu; simp only [upd_same, PcOk]; intro h; rw [ht] at h; cases h
      · simp only [upd_other _ _ hu]; exact (pcOk_congr rfl rfl rfl).mpr (inv.pcOk u)
    · intro u hu
      by_cases hut : u = t
      · subst hut; simp [holds] at hu
      · simp only [upd_other _ _ hut] at hu
        have := inv.holder u hu; rw [hlt] at this; injection this with this; exact absurd this.symm hut
    · intro u hu; cases hu
    · exact free_keep (t := t) (p' := .idle) inv rfl rfl rfl (by rw [hp]; rfl)
  | push todo held =>
    rw [hp] at ht; simp only [PcOk] at ht
    cases hq : σ.q.pc t with
    | idle =>
      cases todo with
      | cons x r =>
        simp only [next, hp, hq]
        apply linv_keep (t := t) (p' := .push r held) inv
        · rfl
        · rfl
        · rw [hp]; rfl
        · exact ht
        · exact others_congr rfl rfl rfl
        exact free_keep (t := t) (p' := .push r held) inv rfl rfl rfl (by rw [hp]; rfl)
      | nil =>
        simp only [next, hp, hq]
        cases held with
        | false =>
          simp only [Bool.false_eq_true, ↓reduceIte]
          apply linv_keep (t := t) (p' := .idle) inv
          · rfl
          · rfl
          · rw [hp]; rfl
          · exact fun _ => ht.2
          · exact others_congr rfl rfl rfl
          exact free_keep (t := t) (p' := .idle) inv rfl rfl rfl (by rw [hp]; rfl)
        | true =>
          simp only [↓reduceIte]
          have hlt : σ.lock = some t := inv.holder t (by rw [hp]; rfl)
          constructor
          · intro u
            by_cases hu : u = t
            · subst hu; simp only [upd_same, PcOk]; exact fun _ => ht.2
            · simp only [upd_other _ _ hu]; exact (pcOk_congr rfl rfl rfl).mpr (inv.pcOk u)
          · intro u hu
            by_cases hut : u = t
            · subst hut; simp [holds] at hu
            · simp only [upd_other _ _ hut] at hu
              have := inv.holder u hu; rw [hlt] at this; injection this with this; exact absurd this.symm hut
          · intro u hu; cases hu
          · exact free_keep (t := t) (p' := .idle) inv rfl rfl rfl (by rw [hp]; rfl)
    | _ =>
      simp only [next, hp, hq]
      have hpc : (σ.pc) = upd σ.pc t (.push todo held) := by
        funext u; by_cases hu : u = t
        · subst hu; simp [hp]
        · simp [upd_other _ _ hu]
      apply linv_keep (t := t) (p' := .push todo held) inv
      · exact hpc
      · rfl
      · rw [hp]
      · exact ht
      · exact others_congr rfl rfl rfl
      exact free_keep (t := t) (p' := .push todo held) inv hpc rfl rfl (by rw [hp]; rfl)
  | wpop =>
    rw [hp] at ht; simp only [PcOk] at ht
    have hpl := ht.1; subst hpl
    have htw := ht.2; subst htw
    have hpc : (σ.pc) = upd σ.pc W .wpop := by
      funext u; by_cases hu : u = W
      · subst hu; simp [hp]
      · simp [upd_other _ _ hu]
    have hkeep : ∀ q', LInv true { σ with q := q' } := by
      intro q'
      apply linv_keep (t := W) (p' := .wpop) inv
      · exact hpc
      · rfl
      · rw [hp]
      · exact ht
      · exact others_congr rfl rfl rfl
      exact free_keep (t := W) (p' := .wpop) inv hpc rfl rfl (by rw [hp]; rfl)
    cases hq : σ.q.pc W with
    | cPopped pr got =>
      simp only [next, hp, hq]
      cases got with
      | none =>
        simp only
        apply linv_keep (t := W) (p' := .wdead) inv
        · rfl
        · rfl
        · rw [hp]; rfl
        · exact ⟨rfl, rfl⟩
        · exact others_congr rfl rfl rfl
        exact free_keep (t := W) (p' := .wdead) inv rfl rfl rfl (by rw [hp]; rfl)
      | some d =>
        simp only
        apply linv_keep (t := W) (p' := .cs (decode d) .enc []) inv
        · rfl
        · rfl
        · rw [hp]; rfl
        · exact ⟨fun _ => ⟨rfl, rfl⟩, inv.free (nobody_in_cs_of_writer_out inv (by rw [hp]; rfl))⟩
        · exact others_congr rfl rfl rfl
        · exact free_vacuous (t := W) (by simp [inCS])
    | _ => simp only [next, hp, hq]; exact hkeep _

end Fix8Model.Conc.Writer
