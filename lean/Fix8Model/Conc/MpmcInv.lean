import Fix8Model.Conc.Mpmc
/-!
# The ticket invariant of the `uMPMC_Ptr_Queue` model and its preservation

`Inv n σ` is inductive: `inv_init`, `inv_call`, `inv_next` (one lemma per atomic step of `push` / `pop`).
The property statements derived from it live in `Props/C30.lean`.
-/
namespace Fix8Model.Conc.Mpmc

/-! ## arithmetic modulo the number of slots -/

theorem mod_add_le {n a b : Nat} (h : a < b) (hm : a % n = b % n) : a + n ≤ b := by
  have h0 : (b - a) % n = 0 := Nat.sub_mod_eq_zero_of_mod_eq hm.symm
  have h1 : n ≤ b - a := Nat.le_of_dvd (by omega) (Nat.dvd_of_mod_eq_zero h0)
  omega

theorem mod_close_eq {n a b : Nat} (h1 : a ≤ b) (h2 : b < a + n) (hm : a % n = b % n) : a = b := by
  rcases Nat.lt_or_ge a b with h | h
  · have := mod_add_le h hm; omega
  · omega

theorem add_self_mod (a n : Nat) : (a + n) % n = a % n := Nat.add_mod_right a n

/-- `idx = t & mask` of the code is `t % (mask+1)` for the power-of-two slot counts `init` creates -/
theorem and_mask_eq_mod (t k : Nat) : t &&& (2 ^ k - 1) = t % 2 ^ k := Nat.and_two_pow_sub_one_eq_mod t k

/-! ## tickets of one slot FIFO: an arithmetic progression with difference `n` -/

def Chain (n : Nat) : Nat → List Nat → Nat → Prop
  | a, [], b => a = b
  | a, x :: l, b => x = a ∧ Chain n (a + n) l b

theorem chain_append {n : Nat} : ∀ {a : Nat} {l : List Nat} {b : Nat}, Chain n a l b → Chain n a (l ++ [b]) (b + n)
  | a, [], b, h => by simp [Chain] at h ⊢; omega
  | a, x :: l, b, h => by
      simp only [Chain, List.cons_append] at h ⊢
      exact ⟨h.1, chain_append h.2⟩

theorem chain_head {n : Nat} {a b : Nat} {l : List Nat} (h : Chain n a l b) (hlt : a < b) :
    ∃ l', l = a :: l' ∧ Chain n (a + n) l' b := by
  cases l with
  | nil => simp [Chain] at h; omega
  | cons x l' => simp only [Chain] at h; exact ⟨l', by rw [h.1], h.2⟩

theorem chain_mem {n : Nat} : ∀ {l : List Nat} {a b t : Nat}, Chain n a l b → a ≤ t → t < b → t % n = a % n → t ∈ l
  | [], a, b, t, h, h1, h2, _ => by simp [Chain] at h; omega
  | x :: l, a, b, t, h, h1, h2, hm => by
      simp only [Chain] at h
      rcases Nat.lt_or_ge a t with hlt | hge
      · have h3 : a + n ≤ t := mod_add_le hlt hm.symm
        exact List.mem_cons_of_mem _ (chain_mem h.2 h3 h2 (by rw [add_self_mod]; exact hm))
      · have : t = a := by omega
        rw [this, ← h.1]; exact List.mem_cons_self

theorem getElem?_append_some {α : Type} {l l' : List α} {i : Nat} {x : α} (h : l[i]? = some x) :
    (l ++ l')[i]? = some x := by
  have hi : i < l.length := (List.getElem?_eq_some_iff.mp h).1
  rw [List.getElem?_append_left hi]; exact h

/-! ## the invariant -/

/-- push ticket held by a thread between its successful CAS and its `seqP` store -/
def holdP : PC → Option Nat
  | .pWon _ t => some t
  | .pPushed t => some t
  | _ => none

/-- pop ticket held by a thread between its successful CAS and its `seqC` store -/
def holdC : PC → Option Nat
  | .cWon r => some r
  | .cPopped r _ => some r
  | _ => none

/-- what a thread at a given program point knows (all facts are stable under the other threads' steps) -/
def ThreadOk (n : Nat) (σ : State) (u : Tid) : PC → Prop
  | .idle => True
  | .pStart _ => True
  | .pReadPw _ pw => pw ≤ σ.P
  | .pCas _ pw => pw ≤ σ.P ∧ pw ≤ σ.sP (pw % n)
  | .pWon d pw => pw < σ.P ∧ σ.sP (pw % n) = pw ∧ σ.ip (pw % n) = pw ∧ σ.pushLog[pw]? = some (u, d)
  | .pPushed pw => pw < σ.P ∧ σ.sP (pw % n) = pw ∧ σ.ip (pw % n) = pw + n
  | .cStart => True
  | .cReadPr pr => pr ≤ σ.C
  | .cTest pr => pr ≤ σ.C ∧ pr ≤ σ.sC (pr % n)
  | .cCas pr => pr ≤ σ.C ∧ pr ≤ σ.sC (pr % n) ∧ pr < σ.sP (pr % n)
  | .cWon pr => pr < σ.C ∧ σ.sC (pr % n) = pr ∧ σ.ic (pr % n) = pr ∧ ∀ e ∈ σ.rets, e.1 = u → e.2.1 < pr
  | .cPopped pr _ => pr < σ.C ∧ σ.sC (pr % n) = pr ∧ σ.ic (pr % n) = pr + n

theorem threadOk_congr {n : Nat} {σ σ' : State} {u : Tid} {p : PC}
    (hP : σ'.P = σ.P) (hC : σ'.C = σ.C) (hsP : σ'.sP = σ.sP) (hsC : σ'.sC = σ.sC)
    (hip : σ'.ip = σ.ip) (hic : σ'.ic = σ.ic) (hl : σ'.pushLog = σ.pushLog) (hr : σ'.rets = σ.rets) :
    ThreadOk n σ' u p ↔ ThreadOk n σ u p := by
  cases p <;> simp [ThreadOk, hP, hC, hsP, hsC, hip, hic, hl, hr]

structure Inv (n : Nat) (σ : State) : Prop where
  modP : ∀ i, i < n → σ.sP i % n = i
  modC : ∀ i, i < n → σ.sC i % n = i
  modIp : ∀ i, i < n → σ.ip i % n = i
  modIc : ∀ i, i < n → σ.ic i % n = i
  sPhi : ∀ i, i < n → σ.sP i < σ.P + n
  sPlo : ∀ i, i < n → σ.P ≤ σ.sP i + n
  sChi : ∀ i, i < n → σ.sC i < σ.C + n
  sClo : ∀ i, i < n → σ.C ≤ σ.sC i + n
  ipGe : ∀ i, i < n → σ.sP i ≤ σ.ip i
  ipEq : ∀ i, i < n → σ.P ≤ σ.sP i → σ.ip i = σ.sP i
  icGe : ∀ i, i < n → σ.sC i ≤ σ.ic i
  icEq : ∀ i, i < n → σ.C ≤ σ.sC i → σ.ic i = σ.sC i
  icLe : ∀ i, i < n → σ.ic i ≤ σ.sP i
  chain : ∀ i, i < n → Chain n (σ.ic i) ((σ.buf i).map (·.1)) (σ.ip i)
  bufLog : ∀ i, i < n → ∀ e ∈ σ.buf i, ∃ p, σ.pushLog[e.1]? = some (p, e.2)
  logLen : σ.pushLog.length = σ.P
  popReady : ∀ r, r < σ.C → r < σ.sP (r % n)
  exP : ∀ i, i < n → σ.sP i < σ.P → ∃ u, holdP (σ.pc u) = some (σ.sP i)
  exC : ∀ i, i < n → σ.sC i < σ.C → ∃ u, holdC (σ.pc u) = some (σ.sC i)
  uniqP : ∀ u v t, holdP (σ.pc u) = some t → holdP (σ.pc v) = some t → u = v
  uniqC : ∀ u v t, holdC (σ.pc u) = some t → holdC (σ.pc v) = some t → u = v
  thr : ∀ u, ThreadOk n σ u (σ.pc u)
  retOk : ∀ e ∈ σ.rets, e.2.1 < σ.C ∧ e.2.1 < σ.ic (e.2.1 % n) ∧
            ∃ p d, e.2.2 = some d ∧ σ.pushLog[e.2.1]? = some (p, d)
  retOrd : σ.rets.Pairwise (fun a b => a.2.1 ≠ b.2.1 ∧ (a.1 = b.1 → a.2.1 < b.2.1))
  retAll : ∀ t, t < σ.ic (t % n) → ∃ e ∈ σ.rets, e.2.1 = t

theorem inv_init (n : Nat) : Inv n init := by
  constructor <;> simp [init, Chain, holdP, holdC, ThreadOk]
  · intro i hi; exact Nat.mod_eq_of_lt hi
  · intro i hi; exact Nat.mod_eq_of_lt hi
  · intro i hi; exact Nat.mod_eq_of_lt hi
  · intro i hi; exact Nat.mod_eq_of_lt hi
  · intro t; exact Nat.mod_le t n

/-! ## holders -/

theorem holdP_ok {n : Nat} {σ : State} (inv : Inv n σ) {w : Tid} {t : Nat} (h : holdP (σ.pc w) = some t) :
    t < σ.P ∧ σ.sP (t % n) = t := by
  have := inv.thr w
  cases hw : σ.pc w <;> rw [hw] at h this <;> simp [holdP] at h <;> simp only [ThreadOk] at this <;> subst h
  · exact ⟨this.1, this.2.1⟩
  · exact ⟨this.1, this.2.1⟩

theorem holdC_ok {n : Nat} {σ : State} (inv : Inv n σ) {w : Tid} {r : Nat} (h : holdC (σ.pc w) = some r) :
    r < σ.C ∧ σ.sC (r % n) = r := by
  have := inv.thr w
  cases hw : σ.pc w <;> rw [hw] at h this <;> simp [holdC] at h <;> simp only [ThreadOk] at this <;> subst h
  · exact ⟨this.1, this.2.1⟩
  · exact ⟨this.1, this.2.1⟩

/-- the acting thread is not a pop-ticket holder before or after: pop-side holders are unchanged -/
theorem holdC_upd {σ : State} {u : Tid} {q : PC} (h2 : holdC (σ.pc u) = none) (q2 : holdC q = none) (v : Tid) :
    holdC (upd σ.pc u q v) = holdC (σ.pc v) := by
  by_cases hv : v = u
  · subst hv; simp [h2, q2]
  · rw [upd_other _ _ hv]

theorem holdP_upd {σ : State} {u : Tid} {q : PC} (h1 : holdP (σ.pc u) = none) (q1 : holdP q = none) (v : Tid) :
    holdP (upd σ.pc u q v) = holdP (σ.pc v) := by
  by_cases hv : v = u
  · subst hv; simp [h1, q1]
  · rw [upd_other _ _ hv]

/-- the acting thread keeps its push ticket (`pWon d t -> pPushed t`) -/
theorem holdP_upd_same {σ : State} {u : Tid} {q : PC} (h : holdP q = holdP (σ.pc u)) (v : Tid) :
    holdP (upd σ.pc u q v) = holdP (σ.pc v) := by
  by_cases hv : v = u
  · subst hv; simp [h]
  · rw [upd_other _ _ hv]

theorem holdC_upd_same {σ : State} {u : Tid} {q : PC} (h : holdC q = holdC (σ.pc u)) (v : Tid) :
    holdC (upd σ.pc u q v) = holdC (σ.pc v) := by
  by_cases hv : v = u
  · subst hv; simp [h]
  · rw [upd_other _ _ hv]

/-! ## steps that change only the acting thread's program counter (reads, failed CAS, retries, calls) -/

theorem inv_pc_only {n : Nat} {σ : State} (inv : Inv n σ) (u : Tid) (q : PC)
    (h1 : holdP (σ.pc u) = none) (h2 : holdC (σ.pc u) = none)
    (q1 : holdP q = none) (q2 : holdC q = none) (hq : ThreadOk n σ u q) :
    Inv n { σ with pc := upd σ.pc u q } := by
  have hold : ∀ v t, holdP (upd σ.pc u q v) = some t → holdP (σ.pc v) = some t ∧ v ≠ u := by
    intro v t h
    by_cases hv : v = u
    · subst hv; simp [q1] at h
    · rw [upd_other _ _ hv] at h; exact ⟨h, hv⟩
  have holdc : ∀ v t, holdC (upd σ.pc u q v) = some t → holdC (σ.pc v) = some t ∧ v ≠ u := by
    intro v t h
    by_cases hv : v = u
    · subst hv; simp [q2] at h
    · rw [upd_other _ _ hv] at h; exact ⟨h, hv⟩
  refine { inv with exP := ?_, exC := ?_, uniqP := ?_, uniqC := ?_, thr := ?_ }
  · intro i hi h
    obtain ⟨v, hv⟩ := inv.exP i hi h
    have : v ≠ u := by intro e; subst e; simp [h1] at hv
    exact ⟨v, by simpa [upd_other _ _ this] using hv⟩
  · intro i hi h
    obtain ⟨v, hv⟩ := inv.exC i hi h
    have : v ≠ u := by intro e; subst e; simp [h2] at hv
    exact ⟨v, by simpa [upd_other _ _ this] using hv⟩
  · intro v w t hv hw
    exact inv.uniqP v w t (hold v t hv).1 (hold w t hw).1
  · intro v w t hv hw
    exact inv.uniqC v w t (holdc v t hv).1 (holdc w t hw).1
  · intro v
    by_cases hv : v = u
    · subst hv
      exact (threadOk_congr (σ := σ) rfl rfl rfl rfl rfl rfl rfl rfl).mpr (by simpa using hq)
    · exact (threadOk_congr (σ := σ) rfl rfl rfl rfl rfl rfl rfl rfl).mpr (by simpa [upd_other _ _ hv] using inv.thr v)

end Fix8Model.Conc.Mpmc
