import Fix8Model.Gen.LoggerFacts
/-!
# Model of the asynchronous loggers (`runtime/logger.cpp`, `include/fix8/logger.hpp`)

A transition system over the interleavings of any number of producer threads (`send` / `enqueue`), the
logger's own writer thread (`Logger::operator()` + `process_logline`) and one thread calling `stop()`.
Every constructor of `Step` is one atomic step of one thread.

The queue is NOT modelled at the level of `ff::uMPMC_Ptr_Queue`; it is the specification that property
C30 establishes for it: a push takes a *ticket* (the CAS on `preadP`) and completes later (the store to
`seqP[idx]`); a pop returns the elements in ticket order, and reports "empty" exactly when the push
holding the next ticket has not completed (even if pushes with later tickets have).  `queue` is the list
of tickets not yet popped, each with a `done` flag.

`Variant` selects between the code of the base commit and the code with the two proposed `fix:` commits:
* `drain = false`: `while (!_stopping) { ... }`   (base)      `drain = true`: `for (;;) { ... }` (fix)
* `retOk = false`: `return try_push(le) == 0;`    (base)      `retOk = true`: `return try_push(le);` (fix)

Fields marked *ghost* do not exist in the code; they record the history so that the property can be stated.
-/
namespace Fix8Model.Conc.Logger

structure Variant where
  drain : Bool
  retOk : Bool
  deriving DecidableEq, Repr

/-- the code as proposed (both fixes applied): the model the correspondence harness runs against -/
def fixed : Variant := ⟨true, true⟩
/-- the code of the base commit -/
def base : Variant := ⟨false, false⟩

/-- construction parameters of a logger: `_levels`, and the flags that decide how a line is rendered -/
structure Cfg where
  levels : Nat
  seqFlag : Bool
  dirFlag : Bool
  lvlFlag : Bool
  deriving DecidableEq, Repr

/-- `is_loggable(level)` = `_levels & level` = `a_ & 1 << level` -/
def Cfg.loggable (c : Cfg) (lev : Nat) : Bool := c.levels.testBit lev

/-- one `LogElement`.  `pid`, `k` (the number of earlier calls of the same producer), `viaSend` and `isStop`
are ghost; the writer thread looks at `text` (empty = leave the loop), `val` and `level` only -/
structure Line where
  pid : Nat
  k : Nat
  level : Nat
  val : Nat
  text : List Char
  viaSend : Bool
  isStop : Bool
  deriving DecidableEq, Repr

/-- the element `stop()` enqueues: `enqueue(std::string())` (level `Info`, value 0) -/
def stopLine : Line := ⟨0, 0, 1, 0, [], false, true⟩

structure Slot where
  line : Line
  done : Bool
  deriving DecidableEq, Repr

/-- program counter of the writer thread: `head` = about to evaluate the loop condition, `pop` = about to call
`try_pop`, `got l` = `try_pop` returned `l`, `exited` = left `operator()` -/
inductive CPc
  | head | pop | got (l : Line) | exited
  deriving DecidableEq, Repr

/-- program counter of the thread calling `stop()`: not called yet / `request_stop()` done / ticket of the
empty element taken / `enqueue` returned / `join` returned -/
inductive SPc
  | idle | flagged | pushing | pushed | joined
  deriving DecidableEq, Repr

structure WLine where
  seq : Nat
  line : Line
  deriving DecidableEq, Repr

structure State where
  queue : List Slot := []
  stopping : Bool := false
  cpc : CPc := .head
  spc : SPc := .idle
  /-- `_sequence` -/
  seqIn : Nat := 0
  /-- `_osequence` -/
  seqOut : Nat := 0
  /-- the lines written to the stream, in file order, with the sequence number given to each -/
  written : List WLine := []
  /-- ghost: every call of `send`/`enqueue` by a producer, in the order the calls took effect -/
  subs : List Line := []
  /-- ghost: accepted lines whose ticket was taken before `stop()` took the ticket of its empty element -/
  pre : List Line := []
  /-- ghost: accepted lines whose ticket was taken after that -/
  post : List Line := []
  /-- ghost: everything `try_pop` returned, in order -/
  popped : List Line := []
  /-- ghost: popped elements that ended the loop instead of being written -/
  dropped : List Line := []
  /-- ghost: `send` calls that were not enqueued because the level is disabled -/
  filtered : List Line := []
  /-- ghost: calls whose `try_push` failed -/
  rejected : List Line := []
  /-- ghost: (line, value returned by the call) for every call that returned -/
  rets : List (Line × Bool) := []
  /-- ghost: lines whose `send`/`enqueue` call returned before `stop()` was called -/
  early : List Line := []
  deriving Repr

def init : State := {}

/-- has `stop()` taken the ticket of its empty element -/
def SPc.ticketed : SPc → Bool
  | .idle | .flagged => false
  | _ => true

/-- ghost: all accepted elements in ticket order -/
def State.tickets (s : State) : List Line :=
  s.pre ++ (if s.spc.ticketed then [stopLine] else []) ++ s.post

/-- value of `enqueue` given the value of `try_push` -/
def retOf (V : Variant) (pushed : Bool) : Bool := if V.retOk then pushed else !pushed

def countPid (p : Nat) (ls : List Line) : Nat := ls.countP (fun l => l.pid == p)

/-! ## producers -/

/-- the line a call by producer `p` carries -/
def mkLine (s : State) (p lev val : Nat) (text : List Char) (viaSend : Bool) : Line :=
  ⟨p, countPid p s.subs, lev, val, text, viaSend, false⟩

/-- `send` (`viaSend`) or `enqueue` by producer `p`, up to and including the ticket: the level test of `send`
(a disabled level returns `true` at once), construction of the element, `try_push` up to its linearisation.
`ok = false`: `try_push` fails (it cannot in the FF build: `uMPMC_Ptr_Queue::push` "always returns true"). -/
def submit (V : Variant) (c : Cfg) (p lev val : Nat) (text : List Char) (viaSend ok : Bool) (s : State) : State :=
  let l := mkLine s p lev val text viaSend
  if viaSend && !c.loggable lev then
    { s with subs := s.subs ++ [l], filtered := s.filtered ++ [l], rets := s.rets ++ [(l, true)] }
  else if ok then
    if s.spc.ticketed then { s with subs := s.subs ++ [l], queue := s.queue ++ [⟨l, false⟩], post := s.post ++ [l] }
    else { s with subs := s.subs ++ [l], queue := s.queue ++ [⟨l, false⟩], pre := s.pre ++ [l] }
  else
    { s with subs := s.subs ++ [l], rejected := s.rejected ++ [l], rets := s.rets ++ [(l, retOf V false)] }

/-- the push of the element in queue position `i` completes and the producer's call returns -/
def pushDone (V : Variant) (i : Nat) (l : Line) (s : State) : State :=
  { s with queue := s.queue.set i ⟨l, true⟩, rets := s.rets ++ [(l, retOf V true)],
           early := if s.spc = .idle then s.early ++ [l] else s.early }

/-! ## the writer thread -/

/-- loop head: `while (!_stopping)` (base) / `for (;;)` (fix) -/
def cHead (V : Variant) (s : State) : State :=
  { s with cpc := if V.drain || !s.stopping then .pop else .exited }

/-- `try_pop` succeeds: the element holding the next ticket is complete -/
def cPopSome (l : Line) (q : List Slot) (s : State) : State :=
  { s with queue := q, cpc := .got l, popped := s.popped ++ [l] }

/-- `try_pop` fails: `hypersleep<h_microseconds>(200); continue;` -/
def cPopNone (s : State) : State := { s with cpc := .head }

/-- which counter numbers the line: `_flags & direction ? (msg_ptr->_val ? ++_sequence : ++_osequence) : ++_sequence` -/
def useIn (c : Cfg) (l : Line) : Bool := !c.dirFlag || l.val != 0

/-- `process_logline`: number the line (only if the `sequence` column is printed) and write it -/
def processLine (c : Cfg) (l : Line) (s : State) : State :=
  if c.seqFlag then
    if useIn c l then { s with seqIn := s.seqIn + 1, written := s.written ++ [⟨s.seqIn + 1, l⟩], cpc := .head }
    else { s with seqOut := s.seqOut + 1, written := s.written ++ [⟨s.seqOut + 1, l⟩], cpc := .head }
  else { s with written := s.written ++ [⟨0, l⟩], cpc := .head }

/-- after a successful `try_pop`: `if (msg_ptr->_str.empty()) break; process_logline(msg_ptr);` -/
def cGot (c : Cfg) (l : Line) (s : State) : State :=
  if l.text = [] then { s with cpc := .exited, dropped := s.dropped ++ [l] } else processLine c l s

/-! ## `stop()` = `_stopping.request_stop(); enqueue(std::string()); _thread.join();` -/

theorem stop_statements :
    Gen.stopBody = ["_stopping.request_stop()", "enqueue(std::string())", "_thread.join()"] := by decide

def stFlag (s : State) : State := { s with stopping := true, spc := .flagged }

def stTicket (s : State) : State := { s with queue := s.queue ++ [⟨stopLine, false⟩], spc := .pushing }

def stDone (s : State) : State :=
  { s with queue := s.queue.map (fun sl => if sl.line.isStop then ⟨sl.line, true⟩ else sl), spc := .pushed }

def stJoin (s : State) : State := { s with spc := .joined }

/-! ## the transition relation -/

inductive Step (V : Variant) (c : Cfg) : State → State → Prop
  | submit (s : State) (p lev val : Nat) (text : List Char) (viaSend ok : Bool) :
      Step V c s (submit V c p lev val text viaSend ok s)
  | pushDone (s : State) (i : Nat) (l : Line) :
      s.queue[i]? = some ⟨l, false⟩ → l.isStop = false → Step V c s (pushDone V i l s)
  | cHead (s : State) : s.cpc = .head → Step V c s (cHead V s)
  | cPopSome (s : State) (l : Line) (q : List Slot) :
      s.cpc = .pop → s.queue = ⟨l, true⟩ :: q → Step V c s (cPopSome l q s)
  | cPopNone (s : State) :
      s.cpc = .pop → (∀ l q, s.queue ≠ ⟨l, true⟩ :: q) → Step V c s (cPopNone s)
  | cGot (s : State) (l : Line) : s.cpc = .got l → Step V c s (cGot c l s)
  | stFlag (s : State) : s.spc = .idle → Step V c s (stFlag s)
  | stTicket (s : State) : s.spc = .flagged → Step V c s (stTicket s)
  | stDone (s : State) : s.spc = .pushing → Step V c s (stDone s)
  /-- `pthread_join` returns once the writer thread has left `operator()` -/
  | stJoin (s : State) : s.spc = .pushed → s.cpc = .exited → Step V c s (stJoin s)

/-- reachable from the initial state (logger constructed, writer thread about to evaluate its loop condition) -/
inductive Reach (V : Variant) (c : Cfg) : State → Prop
  | init : Reach V c init
  | step {s s' : State} : Reach V c s → Step V c s s' → Reach V c s'

/-- reflexive-transitive closure of `Step` -/
inductive Steps (V : Variant) (c : Cfg) : State → State → Prop
  | refl (s : State) : Steps V c s s
  | tail {s t u : State} : Steps V c s t → Step V c t u → Steps V c s u

theorem Steps.trans {V : Variant} {c : Cfg} {s t u : State} (h1 : Steps V c s t) (h2 : Steps V c t u) : Steps V c s u := by
  induction h2 with
  | refl => exact h1
  | tail _ st ih => exact .tail ih st

theorem Reach.steps {V : Variant} {c : Cfg} {s t : State} (h : Reach V c s) (h2 : Steps V c s t) : Reach V c t := by
  induction h2 with
  | refl => exact h
  | tail _ st ih => exact .step ih st

/-! ## schedules: an executable presentation of the same relation (used by the driver and the witnesses) -/

inductive Action
  | submit (p lev val : Nat) (text : List Char) (viaSend ok : Bool)
  | pushDone (i : Nat)
  /-- the next atomic step of the writer thread -/
  | consumer
  /-- the next atomic step of the thread calling `stop()` -/
  | stopper
  deriving DecidableEq, Repr

/-- the writer thread's next step (it is deterministic); `none` once it has left `operator()` -/
def consumerStep (V : Variant) (c : Cfg) (s : State) : Option State :=
  match s.cpc with
  | .head => some (cHead V s)
  | .pop =>
    match s.queue with
    | ⟨l, true⟩ :: q => some (cPopSome l q s)
    | _ => some (cPopNone s)
  | .got l => some (cGot c l s)
  | .exited => none

def stopperStep (s : State) : Option State :=
  match s.spc with
  | .idle => some (stFlag s)
  | .flagged => some (stTicket s)
  | .pushing => some (stDone s)
  | .pushed => if s.cpc = .exited then some (stJoin s) else none
  | .joined => none

/-- `none` = the action is not enabled in `s` -/
def exec (V : Variant) (c : Cfg) (a : Action) (s : State) : Option State :=
  match a with
  | .submit p lev val text viaSend ok => some (submit V c p lev val text viaSend ok s)
  | .pushDone i =>
    match s.queue[i]? with
    | some ⟨l, false⟩ => if l.isStop then none else some (pushDone V i l s)
    | _ => none
  | .consumer => consumerStep V c s
  | .stopper => stopperStep s

/-- run a schedule; actions that are not enabled are skipped -/
def execAll (V : Variant) (c : Cfg) : List Action → State → State
  | [], s => s
  | a :: as, s => execAll V c as ((exec V c a s).getD s)

theorem consumerStep_sound {V : Variant} {c : Cfg} {s s' : State} (h : consumerStep V c s = some s') : Step V c s s' := by
  unfold consumerStep at h
  split at h
  · next hp => cases h; exact .cHead s hp
  · next hp =>
    split at h
    · next l q hq => cases h; exact .cPopSome s l q hp hq
    · next hq => cases h; exact .cPopNone s hp (fun l q e => hq l q e)
  · next l hp => cases h; exact .cGot s l hp
  · cases h

theorem stopperStep_sound {V : Variant} {c : Cfg} {s s' : State} (h : stopperStep s = some s') : Step V c s s' := by
  unfold stopperStep at h
  split at h
  · next hp => cases h; exact .stFlag s hp
  · next hp => cases h; exact .stTicket s hp
  · next hp => cases h; exact .stDone s hp
  · next hp =>
    split at h
    · next he => cases h; exact .stJoin s hp he
    · cases h
  · cases h

theorem exec_sound {V : Variant} {c : Cfg} {a : Action} {s s' : State} (h : exec V c a s = some s') : Step V c s s' := by
  cases a with
  | submit p lev val text viaSend ok => simp only [exec] at h; cases h; exact .submit s p lev val text viaSend ok
  | pushDone i =>
    simp only [exec] at h
    split at h
    · next l hq =>
      split at h
      · cases h
      · next hs => cases h; exact .pushDone s i l hq (by simpa using hs)
    · cases h
  | consumer => exact consumerStep_sound h
  | stopper => exact stopperStep_sound h

theorem execAll_steps (V : Variant) (c : Cfg) (as : List Action) (s : State) : Steps V c s (execAll V c as s) := by
  induction as generalizing s with
  | nil => exact .refl s
  | cons a as ih =>
    simp only [execAll]
    cases h : exec V c a s with
    | none => simpa using ih s
    | some s' => exact Steps.trans (.tail (.refl s) (exec_sound h)) (by simpa using ih s')

/-- every state produced by a schedule is reachable -/
theorem execAll_reach (V : Variant) (c : Cfg) (as : List Action) : Reach V c (execAll V c as init) :=
  Reach.init.steps (execAll_steps V c as init)

/-! ## derived runs used by the scripted correspondence -/

/-- a whole call by one thread with nothing in between: ticket, completion -/
def callActions (s : State) (p lev val : Nat) (text : List Char) (viaSend : Bool) : List Action :=
  [.submit p lev val text viaSend true, .pushDone s.queue.length]

/-- the writer thread runs from where it is until `try_pop` fails (it then sleeps) or it has left `operator()` -/
def runWriter (V : Variant) (c : Cfg) : Nat → State → State
  | 0, s => s
  | fuel + 1, s =>
    match s.cpc with
    | .exited => s
    | .pop =>
      match s.queue with
      | ⟨l, true⟩ :: q => runWriter V c fuel (cPopSome l q s)
      | _ => cPopNone s
    | .head => runWriter V c fuel (cHead V s)
    | .got l => runWriter V c fuel (cGot c l s)

def writerFuel (s : State) : Nat := 3 * s.queue.length + 4

/-! ## rendering of a written line (`process_logline`, columns in the default position order) -/

def padLeft (w : Nat) (s : String) : String := String.ofList (List.replicate (w - s.length) '0') ++ s

def render (c : Cfg) (w : WLine) : String :=
  (if c.seqFlag then padLeft Gen.seqWidth (toString w.seq) ++ " " else "") ++
  (if c.dirFlag then (if w.line.val != 0 then Gen.dirIn else Gen.dirOut) ++ " " else "") ++
  (if c.lvlFlag then Gen.levelNames.getD w.line.level "?" ++ " " else "") ++
  String.ofList w.line.text

end Fix8Model.Conc.Logger
