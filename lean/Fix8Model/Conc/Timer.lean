import Fix8Model.Gen.TimerConsts
/-!
Model of `Timer<T>` / `TimerEvent<T>` (include/fix8/timer.hpp).

* Time is the raw tick value of `Tickval` (nanoseconds since the epoch) as a `Nat`; `M = Tickval::million` converts the
  millisecond arguments.  (The C++ arithmetic is `long`; for clock values and delays that fit – anything before the year
  2262 – nothing wraps, and the model does not model wrap-around.)
* `_event_queue` is a `std::priority_queue<TimerEvent<T>>` whose `operator<` is `_t > right._t`: `top()` is an element with
  the smallest `_t`.  Which of several elements with the same `_t` is on top is decided by the heap algorithm and is NOT
  modelled: the queue is a list (a multiset) and `top()`/`pop()` is an arbitrary `Picker` – any function that returns
  some element of minimal due time together with the remaining elements.  Every theorem holds for every `Picker`.
* A `TimerEvent` has no identity in C++ (it is a member-function pointer plus three scalars and is copied in and out of the
  queue).  The model gives every `schedule` call a serial number `sid` (ghost field, never read by the code paths) so that
  "the event that was scheduled by that call" can be named in the theorems; `cb` stands for the member-function pointer.
* The spin lock: the push of `schedule` (its clock read happens before the lock is taken: `lag`), `clear` and ONE iteration of the `while` loop of `Timer::operator()` (lock, top, test, pop,
  callback, re-queue, unlock) are the atomic steps, because all three take `_spin_lock` for their whole critical section and the
  callback is invoked with the lock held.  That is the modelled assumption about concurrency; an execution is any
  interleaving (list) of these steps and of clock advances.
-/
namespace Fix8Model.Conc.Timer

/-- `Tickval::million` -/
abbrev M : Nat := Gen.tickMillion

structure Event where
  sid : Nat            -- ghost: which `schedule` call created it
  cb : Nat             -- `_callback`
  due : Nat            -- `_t` (0 = "empty timeval")
  interval : Nat       -- `_intervalMS`
  rep : Bool           -- `_repeat`
  deriving DecidableEq, Repr

structure State where
  now : Nat                  -- what the clock reads (never decreases)
  pending : List Event       -- contents of `_event_queue`, as a multiset
  nextSid : Nat              -- ghost: number of `schedule` calls so far
  deriving Repr

/-- `top()` + `pop()` of the priority queue: some element of minimal `_t` and the rest (ties: unspecified) -/
structure Picker where
  pick : List Event → Option (Event × List Event)
  pick_nil : pick [] = none
  pick_some : ∀ l, l ≠ [] → ∃ e r, pick l = some (e, r)
  pick_spec : ∀ l e r, pick l = some (e, r) → (e :: r).Perm l ∧ ∀ x ∈ l, e.due ≤ x.due

/-- one atomic step -/
inductive Op where
  | advance (d : Nat)                          -- the clock moves on by `d` ns
  | schedule (cb delayMs : Nat) (rep : Bool) (lag : Nat)
      -- `Timer::schedule(TimerEvent(cb, rep), delayMs)`: the push (under the lock) of an event whose due time was computed from a clock
      -- value read `lag` ns earlier – `schedule` reads the clock BEFORE it takes the lock and may have waited for it
  | clear                                      -- `Timer::clear()`
  | iter (res : Nat → Bool)                    -- one iteration of the loop of `Timer::operator()`; `res c` = what callback `c`
                                               -- returns if it is the one invoked in this iteration
  deriving Inhabited

/-- what a step did -/
inductive Obs where
  | adv (now : Nat)
  | sched (e : Event) (at_ : Nat) (delayMs : Nat)   -- `schedule` sampled the clock at `at_` and pushed `e`
  | cleared (n : Nat)                               -- `clear` returned `n`
  | discard (e : Event)                             -- the loop popped a zero-time event without running it
  | ran (e : Event) (at_ : Nat) (res : Bool)        -- the loop sampled `now = at_`, popped `e`, its callback returned `res`
  | sleep                                           -- the loop found nothing due (`shouldsleep`)
  deriving DecidableEq, Repr

/-- `Timer::schedule` (timer.hpp:209-226): `tofire` stays zero and `_intervalMS` stays 0 when `timeToWait` is 0.  `ts` is the clock
value the caller sampled: `now - lag` (any value not after the moment of the push). -/
def schedule (s : State) (cb delayMs : Nat) (rep : Bool) (lag : Nat) : State × Obs :=
  let ts := s.now - lag
  let due := if delayMs = 0 then 0 else ts + delayMs * M
  let e : Event := ⟨s.nextSid, cb, due, delayMs, rep⟩
  ({ s with pending := e :: s.pending, nextSid := s.nextSid + 1 }, .sched e ts delayMs)

/-- `Timer::clear` (timer.hpp:193-205) -/
def clear (s : State) : State × Obs :=
  ({ s with pending := [] }, .cleared s.pending.length)

/-- one iteration of the loop body of `Timer::operator()` (timer.hpp:150-184) -/
def iter (P : Picker) (s : State) (res : Nat → Bool) : State × Obs :=
  match P.pick s.pending with
  | none => (s, .sleep)                                           -- `_event_queue.size() == 0`
  | some (e, rest) =>
    if e.due = 0 then ({ s with pending := rest }, .discard e)     -- `if (!op._t) { pop(); continue; }`
    else if e.due ≤ s.now then                                     -- `now` sampled here; `if (op._t <= now)`
      let r := res e.cb                                            -- pop, then the callback runs
      if r && e.rep then                                           -- `if (result && op._repeat)`
        ({ s with pending := { e with due := s.now + e.interval * M } :: rest }, .ran e s.now r)
      else ({ s with pending := rest }, .ran e s.now r)
    else (s, .sleep)

def step (P : Picker) (s : State) : Op → State × Obs
  | .advance d => ({ s with now := s.now + d }, .adv (s.now + d))
  | .schedule cb d rep lag => schedule s cb d rep lag
  | .clear => clear s
  | .iter res => iter P s res

/-- state and trace (oldest first) after a list of steps -/
def run (P : Picker) (s : State) (ops : List Op) : State × List Obs :=
  ops.foldl (fun acc op => let r := step P acc.1 op; (r.1, acc.2 ++ [r.2])) (s, [])

/-- a fresh timer whose clock reads `t0` -/
def init (t0 : Nat) : State := ⟨t0, [], 0⟩

/-- one wake-up of the timer thread: iterations until one decides to sleep.  `res now c` is what callback `c` returns when
invoked at sampled time `now`.  The fuel `pending.length + 1` is enough in every reachable state (`tick_ends_asleep`). -/
def tickLoop (P : Picker) (res : Nat → Nat → Bool) : Nat → State → List Obs → State × List Obs
  | 0, s, acc => (s, acc)
  | fuel + 1, s, acc =>
    let r := iter P s (res s.now)
    if r.2 = .sleep then (r.1, acc ++ [r.2]) else tickLoop P res fuel r.1 (acc ++ [r.2])

def tick (P : Picker) (res : Nat → Nat → Bool) (s : State) : State × List Obs :=
  tickLoop P res (s.pending.length + 1) s []

/-! the concrete picker used by the driver: the first element of minimal due time in list order -/

def pickMin : List Event → Option (Event × List Event)
  | [] => none
  | e :: l =>
    match pickMin l with
    | none => some (e, [])
    | some (m, r) => if e.due ≤ m.due then some (e, l) else some (m, e :: r)


theorem pickMin_none : ∀ l, pickMin l = none ↔ l = []
  | [] => by simp [pickMin]
  | e :: l => by
    simp only [pickMin]
    cases h : pickMin l with
    | none => simp
    | some p => obtain ⟨m, r⟩ := p; simp only; split <;> simp

theorem pickMin_spec : ∀ l e r, pickMin l = some (e, r) → (e :: r).Perm l ∧ ∀ x ∈ l, e.due ≤ x.due
  | [], e, r, h => by simp [pickMin] at h
  | a :: l, e, r, h => by
    simp only [pickMin] at h
    cases hp : pickMin l with
    | none =>
      rw [hp] at h
      have hl : l = [] := (pickMin_none l).1 hp
      simp only [Option.some.injEq, Prod.mk.injEq] at h
      obtain ⟨rfl, rfl⟩ := h
      subst hl
      exact ⟨List.Perm.refl _, by simp⟩
    | some p =>
      obtain ⟨m, r'⟩ := p
      rw [hp] at h
      have ih := pickMin_spec l m r' hp
      simp only at h
      split at h
      · rename_i hle
        simp only [Option.some.injEq, Prod.mk.injEq] at h
        obtain ⟨rfl, rfl⟩ := h
        refine ⟨List.Perm.refl _, ?_⟩
        intro x hx
        rcases List.mem_cons.1 hx with rfl | hx
        · exact Nat.le_refl _
        · exact Nat.le_trans hle (ih.2 x hx)
      · rename_i hle
        simp only [Option.some.injEq, Prod.mk.injEq] at h
        obtain ⟨rfl, rfl⟩ := h
        refine ⟨(List.Perm.swap a m r').trans (List.Perm.cons a ih.1), ?_⟩
        intro x hx
        rcases List.mem_cons.1 hx with rfl | hx
        · omega
        · exact ih.2 x hx

/-- the picker of the driver -/
def firstMin : Picker where
  pick := pickMin
  pick_nil := rfl
  pick_some := by
    intro l hl
    cases h : pickMin l with
    | none => exact absurd ((pickMin_none l).1 h) hl
    | some p => exact ⟨p.1, p.2, rfl⟩
  pick_spec := pickMin_spec

end Fix8Model.Conc.Timer
