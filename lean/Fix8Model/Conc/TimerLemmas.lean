import Fix8Model.Conc.Timer
/-! helper lemmas for Props/C31: the concrete picker, the trace of `run`, the invariant -/
namespace Fix8Model.Conc.Timer

theorem M_pos : 0 < M := by decide

/-! ### list helpers -/

theorem getElem?_snoc_some {α} {l : List α} {x y : α} {i : Nat} :
    (l ++ [x])[i]? = some y ↔ l[i]? = some y ∨ (i = l.length ∧ x = y) := by
  rw [List.getElem?_append]
  split
  · rename_i h
    constructor
    · intro h1; exact Or.inl h1
    · rintro (h1 | ⟨h1, _⟩)
      · exact h1
      · omega
  · rename_i h
    have hn : l[i]? = none := List.getElem?_eq_none (by omega)
    constructor
    · intro h1
      right
      cases hk : i - l.length with
      | zero => rw [hk] at h1; simp at h1; exact ⟨by omega, h1⟩
      | succ k => rw [hk] at h1; simp at h1
    · rintro (h1 | ⟨h1, h2⟩)
      · rw [hn] at h1; cases h1
      · subst h1; simp [h2]

theorem getElem?_lt_of_some {α} {l : List α} {y : α} {i : Nat} (h : l[i]? = some y) : i < l.length := by
  rcases Nat.lt_or_ge i l.length with h1 | h1
  · exact h1
  · rw [List.getElem?_eq_none h1] at h; cases h

theorem mem_of_getElem?_some {α} {l : List α} {y : α} {i : Nat} (h : l[i]? = some y) : y ∈ l :=
  List.mem_of_getElem? h

@[elab_as_elim]
theorem snoc_induction {α} {motive : List α → Prop} (nil : motive [])
    (snoc : ∀ l x, motive l → motive (l ++ [x])) : ∀ l, motive l := by
  intro l
  have h : ∀ r : List α, motive r.reverse := by
    intro r
    induction r with
    | nil => exact nil
    | cons x r ih => rw [List.reverse_cons]; exact snoc _ _ ih
  simpa using h l.reverse

end Fix8Model.Conc.Timer

namespace Fix8Model.Conc.Timer

/-! ### the trace of `run` -/

theorem run_nil (P : Picker) (s : State) : run P s [] = (s, []) := rfl

theorem run_snoc (P : Picker) (s : State) (ops : List Op) (op : Op) :
    run P s (ops ++ [op]) =
      ((step P (run P s ops).1 op).1, (run P s ops).2 ++ [(step P (run P s ops).1 op).2]) := by
  simp [run, List.foldl_append]

theorem run_length (P : Picker) (s : State) (ops : List Op) : (run P s ops).2.length = ops.length := by
  induction ops using snoc_induction with
  | nil => rfl
  | snoc ops op ih => rw [run_snoc]; simp [ih]

/-! ### provenance of a pending event / of a run -/

/-- `e` (pending) was created by an earlier `schedule` call that lies after every `clear` so far; its due time is at least
that call's clock value plus the delay -/
def Prov (tr : List Obs) (e : Event) : Prop :=
  ∃ (j : Nat) (e0 : Event) (ts : Nat), tr[j]? = some (Obs.sched e0 ts e.interval) ∧ e0.sid = e.sid ∧ e0.cb = e.cb ∧ e0.rep = e.rep ∧
    (e.interval = 0 → e.due = 0) ∧ (0 < e.interval → ts + e.interval * M ≤ e.due) ∧
    ∀ c n, tr[c]? = some (Obs.cleared n) → c < j

/-- the run recorded at index `i` was created by an earlier `schedule` call (index `j`) with a non-zero delay, lies at or after
that call's clock value plus the delay, and every `clear` before the run lies before that call -/
def RunProv (tr : List Obs) (i : Nat) (e : Event) : Prop :=
  ∃ (j : Nat) (e0 : Event) (ts : Nat), j < i ∧ tr[j]? = some (Obs.sched e0 ts e.interval) ∧ e0.sid = e.sid ∧ e0.cb = e.cb ∧ e0.rep = e.rep ∧
    0 < e.interval ∧ ts + e.interval * M ≤ e.due ∧ ∀ c n, tr[c]? = some (Obs.cleared n) → c < i → c < j

theorem Prov.ext {tr : List Obs} {e : Event} {o : Obs} (h : Prov tr e) (ho : ∀ n, o ≠ .cleared n) : Prov (tr ++ [o]) e := by
  obtain ⟨j, e0, ts, h1, h2, h3, h4, h5, h6, h7⟩ := h
  refine ⟨j, e0, ts, getElem?_snoc_some.2 (Or.inl h1), h2, h3, h4, h5, h6, ?_⟩
  intro c n hc
  rcases getElem?_snoc_some.1 hc with hc | ⟨_, hc⟩
  · exact h7 c n hc
  · exact absurd hc (ho n)

theorem Prov.rearm {tr : List Obs} {e : Event} {now : Nat} (h : Prov tr e) (hd : e.due ≠ 0) (hle : e.due ≤ now) :
    Prov tr { e with due := now + e.interval * M } := by
  obtain ⟨j, e0, ts, h1, h2, h3, h4, h5, h6, h7⟩ := h
  refine ⟨j, e0, ts, h1, h2, h3, h4, ?_, ?_, h7⟩
  · intro hi; exact absurd (h5 hi) hd
  · intro hi; have := h6 hi; show ts + e.interval * M ≤ now + e.interval * M; omega

theorem RunProv.ext {tr : List Obs} {i : Nat} {e : Event} {o : Obs} (h : RunProv tr i e) (hi : i < tr.length) :
    RunProv (tr ++ [o]) i e := by
  obtain ⟨j, e0, ts, h0, h1, h2, h3, h4, h5, h6, h7⟩ := h
  refine ⟨j, e0, ts, h0, getElem?_snoc_some.2 (Or.inl h1), h2, h3, h4, h5, h6, ?_⟩
  intro c n hc hci
  rcases getElem?_snoc_some.1 hc with hc | ⟨hc, _⟩
  · exact h7 c n hc hci
  · omega

/-! ### the invariant -/

/-- the `schedule` call that created `sid` was pushed after index `i` of the trace -/
def SchedAfter (tr : List Obs) (i sid : Nat) : Prop :=
  ∃ (k : Nat) (e0 : Event) (ts d : Nat), i < k ∧ tr[k]? = some (Obs.sched e0 ts d) ∧ e0.sid = sid

theorem SchedAfter.ext {tr : List Obs} {i sid : Nat} {o : Obs} (h : SchedAfter tr i sid) : SchedAfter (tr ++ [o]) i sid := by
  obtain ⟨k, e0, ts, d, h1, h2, h3⟩ := h
  exact ⟨k, e0, ts, d, h1, getElem?_snoc_some.2 (Or.inl h2), h3⟩

/-- two runs of the same scheduled event: the earlier one returned true, the event repeats, and the later one is due (hence
runs) at least one interval after the earlier one was run -/
def RepeatR (o1 o2 : Obs) : Prop :=
  ∀ e1 t1 r1 e2 t2 r2, o1 = .ran e1 t1 r1 → o2 = .ran e2 t2 r2 → e1.sid = e2.sid →
    r1 = true ∧ e1.rep = true ∧ e2.interval = e1.interval ∧ e2.cb = e1.cb ∧ t1 + e1.interval * M ≤ e2.due

structure Inv (s : State) (tr : List Obs) : Prop where
  times : ∀ e t r, Obs.ran e t r ∈ tr → e.due ≤ t ∧ t ≤ s.now ∧ e.due ≠ 0
  ransid : ∀ e t r, Obs.ran e t r ∈ tr → e.sid < s.nextSid
  schedsid : ∀ e t d, Obs.sched e t d ∈ tr → e.sid < s.nextSid
  shape : ∀ e t d, Obs.sched e t d ∈ tr → e.interval = d ∧ e.due = (if d = 0 then 0 else t + d * M) ∧ t ≤ s.now
  sidlt : ∀ e ∈ s.pending, e.sid < s.nextSid
  nodup : (s.pending.map (·.sid)).Nodup
  wfq : ∀ e ∈ s.pending, e.due = 0 ∨ 0 < e.interval
  prov : ∀ e ∈ s.pending, Prov tr e
  order : ∀ e ∈ s.pending, e.due ≠ 0 → ∀ (i : Nat) (e1 : Event) (t1 : Nat) (r1 : Bool), tr[i]? = some (Obs.ran e1 t1 r1) →
    e1.due ≤ e.due ∨ SchedAfter tr i e.sid
  rept : ∀ e ∈ s.pending, ∀ e1 t1 r1, Obs.ran e1 t1 r1 ∈ tr → e1.sid = e.sid →
    r1 = true ∧ e1.rep = true ∧ e.interval = e1.interval ∧ e.cb = e1.cb ∧ t1 + e1.interval * M ≤ e.due
  uniq : ∀ (j1 j2 : Nat) (e1 : Event) (t1 d1 : Nat) (e2 : Event) (t2 d2 : Nat),
    tr[j1]? = some (Obs.sched e1 t1 d1) → tr[j2]? = some (Obs.sched e2 t2 d2) →
    e1.sid = e2.sid → j1 = j2
  trA : ∀ (i : Nat) (e : Event) (t : Nat) (r : Bool), tr[i]? = some (Obs.ran e t r) → RunProv tr i e
  trB : ∀ (i j : Nat) (e1 e2 : Event) (t1 t2 : Nat) (r1 r2 : Bool), i < j → tr[i]? = some (Obs.ran e1 t1 r1) →
    tr[j]? = some (Obs.ran e2 t2 r2) → e1.due ≤ e2.due ∨ SchedAfter tr i e2.sid
  trC : tr.Pairwise RepeatR

theorem inv_init (t0 : Nat) : Inv (init t0) [] := by
  constructor <;> simp [init]

theorem pairwise_snoc {α} {R : α → α → Prop} {l : List α} {x : α} (h : l.Pairwise R) (hx : ∀ a ∈ l, R a x) :
    (l ++ [x]).Pairwise R := by
  rw [List.pairwise_append]
  refine ⟨h, List.pairwise_singleton _ _, ?_⟩
  intro a ha b hb
  rw [List.mem_singleton] at hb
  subst hb
  exact hx a ha

theorem order_ext {tr : List Obs} {o : Obs} {e : Event}
    (h : ∀ (i : Nat) (e1 : Event) (t1 : Nat) (r1 : Bool), tr[i]? = some (Obs.ran e1 t1 r1) → e1.due ≤ e.due ∨ SchedAfter tr i e.sid)
    (hr : ∀ e t r, o ≠ Obs.ran e t r) :
    ∀ (i : Nat) (e1 : Event) (t1 : Nat) (r1 : Bool), (tr ++ [o])[i]? = some (Obs.ran e1 t1 r1) → e1.due ≤ e.due ∨ SchedAfter (tr ++ [o]) i e.sid := by
  intro i e1 t1 r1 hi
  rcases getElem?_snoc_some.1 hi with hi | ⟨_, hi⟩
  · rcases h i e1 t1 r1 hi with h1 | h1
    · exact Or.inl h1
    · exact Or.inr h1.ext
  · exact absurd hi (hr _ _ _)

theorem trB_ext {tr : List Obs} {o : Obs}
    (h : ∀ (i j : Nat) (e1 e2 : Event) (t1 t2 : Nat) (r1 r2 : Bool), i < j → tr[i]? = some (Obs.ran e1 t1 r1) →
      tr[j]? = some (Obs.ran e2 t2 r2) → e1.due ≤ e2.due ∨ SchedAfter tr i e2.sid)
    (hr : ∀ e t r, o ≠ Obs.ran e t r) :
    ∀ (i j : Nat) (e1 e2 : Event) (t1 t2 : Nat) (r1 r2 : Bool), i < j → (tr ++ [o])[i]? = some (Obs.ran e1 t1 r1) →
      (tr ++ [o])[j]? = some (Obs.ran e2 t2 r2) → e1.due ≤ e2.due ∨ SchedAfter (tr ++ [o]) i e2.sid := by
  intro i j e1 e2 t1 t2 r1 r2 hij h1 h2
  rcases getElem?_snoc_some.1 h2 with h2 | ⟨_, h2⟩
  · rcases getElem?_snoc_some.1 h1 with h1 | ⟨hi, _⟩
    · rcases h i j e1 e2 t1 t2 r1 r2 hij h1 h2 with g | g
      · exact Or.inl g
      · exact Or.inr g.ext
    · have := getElem?_lt_of_some h2; omega
  · exact absurd h2 (hr _ _ _)

/-- steps that record no run, no schedule and no clear, do not move the serial counter and only drop pending events -/
theorem inv_inert {s s' : State} {tr : List Obs} {o : Obs} (h : Inv s tr)
    (hsid : s'.nextSid = s.nextSid) (hnow : s.now ≤ s'.now) (hsub : ∀ e ∈ s'.pending, e ∈ s.pending)
    (hnd : (s'.pending.map (·.sid)).Nodup)
    (hr : ∀ e t r, o ≠ .ran e t r) (hs : ∀ e t d, o ≠ .sched e t d) (hc : ∀ n, o ≠ .cleared n) :
    Inv s' (tr ++ [o]) := by
  have memran : ∀ e t r, Obs.ran e t r ∈ tr ++ [o] → Obs.ran e t r ∈ tr := by
    intro e t r hm
    rcases List.mem_append.1 hm with hm | hm
    · exact hm
    · rw [List.mem_singleton] at hm; exact absurd hm.symm (hr e t r)
  constructor
  · intro e t r hm
    have := h.times e t r (memran e t r hm)
    exact ⟨this.1, Nat.le_trans this.2.1 hnow, this.2.2⟩
  · intro e t r hm; rw [hsid]; exact h.ransid e t r (memran e t r hm)
  · intro e t d hm
    rw [hsid]
    rcases List.mem_append.1 hm with hm | hm
    · exact h.schedsid e t d hm
    · rw [List.mem_singleton] at hm; exact absurd hm.symm (hs e t d)
  · intro e t d hm
    rcases List.mem_append.1 hm with hm | hm
    · have := h.shape e t d hm; exact ⟨this.1, this.2.1, Nat.le_trans this.2.2 hnow⟩
    · rw [List.mem_singleton] at hm; exact absurd hm.symm (hs e t d)
  · intro e he; rw [hsid]; exact h.sidlt e (hsub e he)
  · exact hnd
  · intro e he; exact h.wfq e (hsub e he)
  · intro e he; exact (h.prov e (hsub e he)).ext hc
  · intro e he hd; exact order_ext (h.order e (hsub e he) hd) hr
  · intro e he e1 t1 r1 hm; exact h.rept e (hsub e he) e1 t1 r1 (memran _ _ _ hm)
  · intro j1 j2 e1 t1 d1 e2 t2 d2 h1 h2 hs12
    rcases getElem?_snoc_some.1 h1 with h1 | ⟨_, h1⟩
    · rcases getElem?_snoc_some.1 h2 with h2 | ⟨_, h2⟩
      · exact h.uniq j1 j2 e1 t1 d1 e2 t2 d2 h1 h2 hs12
      · exact absurd h2 (hs _ _ _)
    · exact absurd h1 (hs _ _ _)
  · intro i e t r hi
    rcases getElem?_snoc_some.1 hi with hi | ⟨_, hi⟩
    · exact (h.trA i e t r hi).ext (getElem?_lt_of_some hi)
    · exact absurd hi (hr _ _ _)
  · exact trB_ext h.trB hr
  · apply pairwise_snoc h.trC
    intro a _ e1 t1 r1 e2 t2 r2 _ h2
    exact absurd h2 (hr _ _ _)


theorem mem_snoc_ran {tr : List Obs} {o : Obs} {e : Event} {t : Nat} {r : Bool} (hm : Obs.ran e t r ∈ tr ++ [o]) :
    Obs.ran e t r ∈ tr ∨ o = Obs.ran e t r := by
  rcases List.mem_append.1 hm with hm | hm
  · exact Or.inl hm
  · rw [List.mem_singleton] at hm; exact Or.inr hm.symm

theorem inv_schedule {s : State} {tr : List Obs} (h : Inv s tr) (cb d : Nat) (rep : Bool) (lag : Nat) :
    Inv (schedule s cb d rep lag).1 (tr ++ [(schedule s cb d rep lag).2]) := by
  simp only [schedule]
  generalize hts : s.now - lag = ts
  have htsle : ts ≤ s.now := by omega
  generalize hdue : (if d = 0 then 0 else ts + d * M) = due
  have hnr : ∀ e t r, Obs.sched ⟨s.nextSid, cb, due, d, rep⟩ ts d ≠ Obs.ran e t r := by intro _ _ _ hh; cases hh
  have memran : ∀ e t r, Obs.ran e t r ∈ tr ++ [Obs.sched ⟨s.nextSid, cb, due, d, rep⟩ ts d] → Obs.ran e t r ∈ tr := by
    intro e t r hm
    rcases mem_snoc_ran hm with hm | hm
    · exact hm
    · cases hm
  constructor
  · intro e t r hm; exact h.times e t r (memran e t r hm)
  · intro e t r hm; exact Nat.lt_succ_of_lt (h.ransid e t r (memran e t r hm))
  · intro e t d' hm
    rcases List.mem_append.1 hm with hm | hm
    · exact Nat.lt_succ_of_lt (h.schedsid e t d' hm)
    · rw [List.mem_singleton] at hm; cases hm; exact Nat.lt_succ_self _
  · intro e t d' hm
    rcases List.mem_append.1 hm with hm | hm
    · exact h.shape e t d' hm
    · rw [List.mem_singleton] at hm; cases hm; exact ⟨rfl, hdue.symm, htsle⟩
  · intro e he
    rcases List.mem_cons.1 he with rfl | he
    · exact Nat.lt_succ_self _
    · exact Nat.lt_succ_of_lt (h.sidlt e he)
  · show (List.map (·.sid) (_ :: s.pending)).Nodup
    rw [List.map_cons, List.nodup_cons]
    refine ⟨?_, h.nodup⟩
    intro hm
    obtain ⟨x, hx, hxs⟩ := List.mem_map.1 hm
    have := h.sidlt x hx
    simp only at hxs
    omega
  · intro e he
    rcases List.mem_cons.1 he with rfl | he
    · show due = 0 ∨ 0 < d
      rcases Nat.eq_zero_or_pos d with hd | hd
      · left; rw [← hdue, if_pos hd]
      · right; exact hd
    · exact h.wfq e he
  · intro e he
    rcases List.mem_cons.1 he with rfl | he
    · refine ⟨tr.length, ⟨s.nextSid, cb, due, d, rep⟩, ts, getElem?_snoc_some.2 (Or.inr ⟨rfl, rfl⟩), rfl, rfl, rfl, ?_, ?_, ?_⟩
      · intro hd; show due = 0; rw [← hdue]; exact if_pos hd
      · intro hd
        show ts + d * M ≤ due
        have : d ≠ 0 := by show d ≠ 0; exact Nat.pos_iff_ne_zero.1 hd
        rw [← hdue, if_neg this]; exact Nat.le_refl _
      · intro c n hc
        rcases getElem?_snoc_some.1 hc with hc | ⟨_, hc⟩
        · exact getElem?_lt_of_some hc
        · cases hc
    · exact (h.prov e he).ext (by intro n hn; cases hn)
  · intro e he hd
    rcases List.mem_cons.1 he with rfl | he
    · intro i e1 t1 r1 hi
      right
      rcases getElem?_snoc_some.1 hi with hi | ⟨_, hi⟩
      · exact ⟨tr.length, ⟨s.nextSid, cb, due, d, rep⟩, ts, d, getElem?_lt_of_some hi, getElem?_snoc_some.2 (Or.inr ⟨rfl, rfl⟩), rfl⟩
      · cases hi
    · exact order_ext (h.order e he hd) hnr
  · intro e he e1 t1 r1 hm hs
    have hm := memran _ _ _ hm
    rcases List.mem_cons.1 he with rfl | he
    · have := h.ransid e1 t1 r1 hm
      simp only at hs
      omega
    · exact h.rept e he e1 t1 r1 hm hs
  · intro j1 j2 e1 t1 d1 e2 t2 d2 h1 h2 hs12
    rcases getElem?_snoc_some.1 h1 with h1 | ⟨hj1, h1⟩
    · rcases getElem?_snoc_some.1 h2 with h2 | ⟨hj2, h2⟩
      · exact h.uniq j1 j2 e1 t1 d1 e2 t2 d2 h1 h2 hs12
      · have := h.schedsid e1 t1 d1 (mem_of_getElem?_some h1)
        cases h2; simp only at hs12; omega
    · rcases getElem?_snoc_some.1 h2 with h2 | ⟨hj2, h2⟩
      · have := h.schedsid e2 t2 d2 (mem_of_getElem?_some h2)
        cases h1; simp only at hs12; omega
      · omega
  · intro i e t r hi
    rcases getElem?_snoc_some.1 hi with hi | ⟨_, hi⟩
    · exact (h.trA i e t r hi).ext (getElem?_lt_of_some hi)
    · cases hi
  · exact trB_ext h.trB (by intro _ _ _ hh; cases hh)
  · apply pairwise_snoc h.trC
    intro a _ e1 t1 r1 e2 t2 r2 _ h2; cases h2

theorem inv_clear {s : State} {tr : List Obs} (h : Inv s tr) : Inv (clear s).1 (tr ++ [(clear s).2]) := by
  simp only [clear]
  have memran : ∀ e t r, Obs.ran e t r ∈ tr ++ [Obs.cleared s.pending.length] → Obs.ran e t r ∈ tr := by
    intro e t r hm
    rcases mem_snoc_ran hm with hm | hm
    · exact hm
    · cases hm
  constructor
  · intro e t r hm; exact h.times e t r (memran e t r hm)
  · intro e t r hm; exact h.ransid e t r (memran e t r hm)
  · intro e t d' hm
    rcases List.mem_append.1 hm with hm | hm
    · exact h.schedsid e t d' hm
    · rw [List.mem_singleton] at hm; cases hm
  · intro e t d' hm
    rcases List.mem_append.1 hm with hm | hm
    · exact h.shape e t d' hm
    · rw [List.mem_singleton] at hm; cases hm
  · intro e he; cases he
  · exact List.nodup_nil
  · intro e he; cases he
  · intro e he; cases he
  · intro e he; cases he
  · intro e he; cases he
  · intro j1 j2 e1 t1 d1 e2 t2 d2 h1 h2 hs12
    rcases getElem?_snoc_some.1 h1 with h1 | ⟨_, h1⟩
    · rcases getElem?_snoc_some.1 h2 with h2 | ⟨_, h2⟩
      · exact h.uniq j1 j2 e1 t1 d1 e2 t2 d2 h1 h2 hs12
      · cases h2
    · cases h1
  · intro i e t r hi
    rcases getElem?_snoc_some.1 hi with hi | ⟨_, hi⟩
    · exact (h.trA i e t r hi).ext (getElem?_lt_of_some hi)
    · cases hi
  · exact trB_ext h.trB (by intro _ _ _ hh; cases hh)
  · apply pairwise_snoc h.trC
    intro a _ e1 t1 r1 e2 t2 r2 _ h2; cases h2


/-- facts about a successful `pick` -/
theorem pick_facts (P : Picker) {l : List Event} {e : Event} {rest : List Event} (hp : P.pick l = some (e, rest)) :
    e ∈ l ∧ (∀ x ∈ rest, x ∈ l) ∧ (∀ x ∈ l, e.due ≤ x.due) ∧ (∀ x ∈ l, x = e ∨ x ∈ rest) ∧
      ((l.map (·.sid)).Nodup → e.sid ∉ rest.map (·.sid) ∧ (rest.map (·.sid)).Nodup) ∧ rest.length + 1 = l.length := by
  obtain ⟨hperm, hmin⟩ := P.pick_spec l e rest hp
  refine ⟨hperm.mem_iff.1 (List.mem_cons_self ..), ?_, hmin, ?_, ?_, ?_⟩
  · intro x hx; exact hperm.mem_iff.1 (List.mem_cons_of_mem _ hx)
  · intro x hx; exact List.mem_cons.1 (hperm.mem_iff.2 hx)
  · intro hnd
    have h1 : ((e :: rest).map (·.sid)).Nodup := ((hperm.map (·.sid)).nodup_iff).2 hnd
    rw [List.map_cons, List.nodup_cons] at h1
    exact h1
  · have := hperm.length_eq; simpa using this

/-- the iteration that runs a callback -/
theorem inv_ran {s : State} {tr : List Obs} (h : Inv s tr) {e : Event} {rest p' : List Event} {r : Bool}
    (he : e ∈ s.pending) (hrest : ∀ x ∈ rest, x ∈ s.pending) (hmin : ∀ x ∈ s.pending, e.due ≤ x.due)
    (hnotin : e.sid ∉ rest.map (·.sid)) (hd : e.due ≠ 0) (hle : e.due ≤ s.now)
    (hp' : ∀ x ∈ p', x ∈ rest ∨ (x = { e with due := s.now + e.interval * M } ∧ r = true ∧ e.rep = true))
    (hnd : (p'.map (·.sid)).Nodup) :
    Inv { s with pending := p' } (tr ++ [Obs.ran e s.now r]) := by
  have hI : 0 < e.interval := by
    rcases h.wfq e he with h0 | h0
    · exact absurd h0 hd
    · exact h0
  have hsidne : ∀ x ∈ rest, e.sid ≠ x.sid := by
    intro x hx heq
    exact hnotin (List.mem_map.2 ⟨x, hx, heq.symm⟩)
  constructor
  · intro e1 t1 r1 hm
    rcases mem_snoc_ran hm with hm | hm
    · exact h.times e1 t1 r1 hm
    · cases hm; exact ⟨hle, Nat.le_refl _, hd⟩
  · intro e1 t1 r1 hm
    rcases mem_snoc_ran hm with hm | hm
    · exact h.ransid e1 t1 r1 hm
    · cases hm; exact h.sidlt e he
  · intro e1 t1 d1 hm
    rcases List.mem_append.1 hm with hm | hm
    · exact h.schedsid e1 t1 d1 hm
    · rw [List.mem_singleton] at hm; cases hm
  · intro e1 t1 d1 hm
    rcases List.mem_append.1 hm with hm | hm
    · exact h.shape e1 t1 d1 hm
    · rw [List.mem_singleton] at hm; cases hm
  · intro x hx
    rcases hp' x hx with hx | ⟨rfl, _, _⟩
    · exact h.sidlt x (hrest x hx)
    · exact h.sidlt e he
  · exact hnd
  · intro x hx
    rcases hp' x hx with hx | ⟨rfl, _, _⟩
    · exact h.wfq x (hrest x hx)
    · right; exact hI
  · intro x hx
    rcases hp' x hx with hx | ⟨rfl, _, _⟩
    · exact (h.prov x (hrest x hx)).ext (by intro n hn; cases hn)
    · exact ((h.prov e he).rearm hd hle).ext (by intro n hn; cases hn)
  · intro x hx hxd i e1 t1 r1 hi
    rcases hp' x hx with hx | ⟨rfl, _, _⟩
    · rcases getElem?_snoc_some.1 hi with hi | ⟨_, hi⟩
      · rcases h.order x (hrest x hx) hxd i e1 t1 r1 hi with g | g
        · exact Or.inl g
        · exact Or.inr g.ext
      · cases hi; exact Or.inl (hmin x (hrest x hx))
    · left
      show e1.due ≤ s.now + e.interval * M
      rcases getElem?_snoc_some.1 hi with hi | ⟨_, hi⟩
      · have := h.times e1 t1 r1 (mem_of_getElem?_some hi); omega
      · cases hi; omega
  · intro x hx e1 t1 r1 hm hs
    rcases hp' x hx with hx | ⟨rfl, hr, hrep⟩
    · rcases mem_snoc_ran hm with hm | hm
      · exact h.rept x (hrest x hx) e1 t1 r1 hm hs
      · cases hm; exact absurd hs (hsidne x hx)
    · rcases mem_snoc_ran hm with hm | hm
      · obtain ⟨a1, a2, a3, a4, a5⟩ := h.rept e he e1 t1 r1 hm hs
        refine ⟨a1, a2, a3, a4, ?_⟩
        show t1 + e1.interval * M ≤ s.now + e.interval * M
        omega
      · cases hm
        exact ⟨hr, hrep, rfl, rfl, Nat.le_refl _⟩
  · intro j1 j2 e1 t1 d1 e2 t2 d2 h1 h2 hs12
    rcases getElem?_snoc_some.1 h1 with h1 | ⟨_, h1⟩
    · rcases getElem?_snoc_some.1 h2 with h2 | ⟨_, h2⟩
      · exact h.uniq j1 j2 e1 t1 d1 e2 t2 d2 h1 h2 hs12
      · cases h2
    · cases h1
  · intro i e1 t1 r1 hi
    rcases getElem?_snoc_some.1 hi with hi | ⟨hi0, hi⟩
    · exact (h.trA i e1 t1 r1 hi).ext (getElem?_lt_of_some hi)
    · cases hi
      obtain ⟨j, e0, ts, g1, g2, g3, g4, g5, g6, g7⟩ := h.prov e he
      refine ⟨j, e0, ts, by rw [hi0]; exact getElem?_lt_of_some g1, getElem?_snoc_some.2 (Or.inl g1), g2, g3, g4, hI, g6 hI, ?_⟩
      intro c n hc hci
      rcases getElem?_snoc_some.1 hc with hc | ⟨hc, _⟩
      · exact g7 c n hc
      · omega
  · intro i j e1 e2 t1 t2 r1 r2 hij h1 h2
    rcases getElem?_snoc_some.1 h2 with h2 | ⟨hj, h2⟩
    · rcases getElem?_snoc_some.1 h1 with h1 | ⟨hi, _⟩
      · rcases h.trB i j e1 e2 t1 t2 r1 r2 hij h1 h2 with g | g
        · exact Or.inl g
        · exact Or.inr g.ext
      · have := getElem?_lt_of_some h2; omega
    · cases h2
      rcases getElem?_snoc_some.1 h1 with h1 | ⟨hi, _⟩
      · rcases h.order e he hd i e1 t1 r1 h1 with g | g
        · exact Or.inl g
        · exact Or.inr g.ext
      · omega
  · apply pairwise_snoc h.trC
    intro a ha e1 t1 r1 e2 t2 r2 h1 h2 hs
    cases h2; subst h1
    exact h.rept e he e1 t1 r1 ha hs

theorem inv_iter (P : Picker) {s : State} {tr : List Obs} (h : Inv s tr) (res : Nat → Bool) :
    Inv (iter P s res).1 (tr ++ [(iter P s res).2]) := by
  unfold iter
  cases hp : P.pick s.pending with
  | none =>
    exact inv_inert h rfl (Nat.le_refl _) (fun e he => he) h.nodup (by intro _ _ _ hh; cases hh)
      (by intro _ _ _ hh; cases hh) (by intro _ hh; cases hh)
  | some pr =>
    obtain ⟨e, rest⟩ := pr
    obtain ⟨he, hrest, hmin, _, hnd, _⟩ := pick_facts P hp
    obtain ⟨hnotin, hndrest⟩ := hnd h.nodup
    simp only
    split
    · exact inv_inert (s' := { s with pending := rest }) h rfl (Nat.le_refl _) hrest hndrest (by intro _ _ _ hh; cases hh)
        (by intro _ _ _ hh; cases hh) (by intro _ hh; cases hh)
    · rename_i hd
      split
      · rename_i hle
        split
        · rename_i hrr
          have hrr' : res e.cb = true ∧ e.rep = true := by simpa using hrr
          apply inv_ran h he hrest hmin hnotin hd hle
          · intro x hx
            rcases List.mem_cons.1 hx with rfl | hx
            · exact Or.inr ⟨rfl, hrr'.1, hrr'.2⟩
            · exact Or.inl hx
          · rw [List.map_cons, List.nodup_cons]; exact ⟨hnotin, hndrest⟩
        · apply inv_ran h he hrest hmin hnotin hd hle
          · intro x hx; exact Or.inl hx
          · exact hndrest
      · exact inv_inert h rfl (Nat.le_refl _) (fun e he => he) h.nodup (by intro _ _ _ hh; cases hh)
          (by intro _ _ _ hh; cases hh) (by intro _ hh; cases hh)

theorem inv_step (P : Picker) {s : State} {tr : List Obs} (h : Inv s tr) (op : Op) :
    Inv (step P s op).1 (tr ++ [(step P s op).2]) := by
  cases op with
  | advance d =>
    exact inv_inert (s' := { s with now := s.now + d }) h rfl (Nat.le_add_right _ _) (fun e he => he) h.nodup
      (by intro _ _ _ hh; cases hh) (by intro _ _ _ hh; cases hh) (by intro _ hh; cases hh)
  | schedule cb d rep lag => exact inv_schedule h cb d rep lag
  | clear => exact inv_clear h
  | iter res => exact inv_iter P h res

/-- the invariant holds after every execution from a fresh timer -/
theorem inv_run (P : Picker) (t0 : Nat) (ops : List Op) : Inv (run P (init t0) ops).1 (run P (init t0) ops).2 := by
  induction ops using snoc_induction with
  | nil => exact inv_init t0
  | snoc ops op ih => rw [run_snoc]; exact inv_step P ih op


/-! ### one wake-up (`tick`) is a run of `iter` steps and ends asleep -/

theorem run_acc (P : Picker) (ops : List Op) : ∀ (s : State) (acc : List Obs),
    ops.foldl (fun a op => let r := step P a.1 op; (r.1, a.2 ++ [r.2])) (s, acc) =
      ((run P s ops).1, acc ++ (run P s ops).2) := by
  induction ops with
  | nil => intro s acc; simp [run]
  | cons op ops ih =>
    intro s acc
    simp only [List.foldl_cons, run]
    rw [ih, ih (step P s op).1 ([] ++ [(step P s op).2])]
    simp [run]

theorem run_cons (P : Picker) (s : State) (op : Op) (ops : List Op) :
    run P s (op :: ops) = ((run P (step P s op).1 ops).1, (step P s op).2 :: (run P (step P s op).1 ops).2) := by
  show List.foldl _ _ _ = _
  rw [List.foldl_cons, run_acc]
  simp

theorem iter_now (P : Picker) (s : State) (f : Nat → Bool) : (iter P s f).1.now = s.now := by
  unfold iter
  split
  · rfl
  · simp only
    split
    · rfl
    · split
      · split <;> rfl
      · rfl

theorem tickLoop_run (P : Picker) (res : Nat → Nat → Bool) : ∀ (fuel : Nat) (s : State) (acc : List Obs),
    ∃ k, tickLoop P res fuel s acc =
      ((run P s (List.replicate k (Op.iter (res s.now)))).1, acc ++ (run P s (List.replicate k (Op.iter (res s.now)))).2) := by
  intro fuel
  induction fuel with
  | zero => intro s acc; exact ⟨0, by simp [tickLoop, run]⟩
  | succ fuel ih =>
    intro s acc
    simp only [tickLoop]
    split
    · exact ⟨1, by simp [run, step]⟩
    · obtain ⟨k, hk⟩ := ih (iter P s (res s.now)).1 (acc ++ [(iter P s (res s.now)).2])
      refine ⟨k + 1, ?_⟩
      rw [hk, iter_now, List.replicate_succ, run_cons]
      simp [step]

/-- number of pending events that the loop would not sleep on -/
def late (s : State) : Nat := s.pending.countP (fun e => decide (e.due ≤ s.now))

def WFq (s : State) : Prop := ∀ e ∈ s.pending, e.due = 0 ∨ 0 < e.interval

def Quiescent (s : State) : Prop := ∀ e ∈ s.pending, s.now < e.due

theorem iter_cases (P : Picker) (s : State) (f : Nat → Bool) (hw : WFq s) :
    ((iter P s f).2 = Obs.sleep ∧ (iter P s f).1 = s ∧ Quiescent s) ∨
    ((iter P s f).2 ≠ Obs.sleep ∧ late (iter P s f).1 + 1 = late s ∧ WFq (iter P s f).1) := by
  unfold iter
  cases hp : P.pick s.pending with
  | none =>
    left
    refine ⟨rfl, rfl, ?_⟩
    intro e he
    have : s.pending ≠ [] := by intro h; rw [h] at he; cases he
    obtain ⟨e', r', h'⟩ := P.pick_some _ this
    rw [hp] at h'; cases h'
  | some pr =>
    obtain ⟨e, rest⟩ := pr
    obtain ⟨he, hrest, hmin, _, _, _⟩ := pick_facts P hp
    have hperm := (P.pick_spec _ _ _ hp).1
    have hcount : late s = (e :: rest).countP (fun x => decide (x.due ≤ s.now)) := (hperm.countP_eq _).symm
    simp only
    split
    · rename_i hd
      right
      refine ⟨(by intro h; cases h), ?_, ?_⟩
      · rw [hcount, List.countP_cons_of_pos (by simp [hd])]; rfl
      · intro x hx; exact hw x (hrest x hx)
    · rename_i hd
      split
      · rename_i hle
        have hI : 0 < e.interval := by
          rcases hw e he with h0 | h0
          · exact absurd h0 hd
          · exact h0
        have hpos : 0 < e.interval * M := Nat.mul_pos hI M_pos
        split
        · right
          refine ⟨(by intro h; cases h), ?_, ?_⟩
          · rw [hcount, List.countP_cons_of_pos (by simp [hle])]
            show List.countP _ (_ :: rest) + 1 = _
            rw [List.countP_cons_of_neg]
            simp only [decide_eq_true_eq]
            omega
          · intro x hx
            rcases List.mem_cons.1 hx with rfl | hx
            · right; exact hI
            · exact hw x (hrest x hx)
        · right
          refine ⟨(by intro h; cases h), ?_, ?_⟩
          · rw [hcount, List.countP_cons_of_pos (by simp [hle])]; rfl
          · intro x hx; exact hw x (hrest x hx)
      · rename_i hle
        left
        refine ⟨rfl, rfl, ?_⟩
        intro x hx
        have := hmin x hx
        omega

theorem tickLoop_asleep (P : Picker) (res : Nat → Nat → Bool) : ∀ (fuel : Nat) (s : State) (acc : List Obs),
    WFq s → late s < fuel →
    ∃ pre, (tickLoop P res fuel s acc).2 = acc ++ pre ++ [Obs.sleep] ∧ Obs.sleep ∉ pre ∧
      Quiescent (tickLoop P res fuel s acc).1 := by
  intro fuel
  induction fuel with
  | zero => intro s acc _ h; omega
  | succ fuel ih =>
    intro s acc hw hl
    simp only [tickLoop]
    rcases iter_cases P s (res s.now) hw with ⟨h1, h2, h3⟩ | ⟨h1, h2, h3⟩
    · rw [if_pos h1]
      exact ⟨[], by simp [h1], by simp, by rw [h2]; exact h3⟩
    · rw [if_neg h1]
      obtain ⟨pre, g1, g2, g3⟩ := ih (iter P s (res s.now)).1 (acc ++ [(iter P s (res s.now)).2]) h3 (by omega)
      refine ⟨(iter P s (res s.now)).2 :: pre, ?_, ?_, g3⟩
      · rw [g1]; simp
      · intro hm
        rcases List.mem_cons.1 hm with hm | hm
        · exact h1 hm.symm
        · exact g2 hm


/-- the observation at index `i` of a trace is what step `i` did in the state reached by the first `i` steps -/
theorem obs_at (P : Picker) (s : State) : ∀ (ops : List Op) (i : Nat) (o : Obs), (run P s ops).2[i]? = some o →
    ∃ op, ops[i]? = some op ∧ o = (step P (run P s (ops.take i)).1 op).2 := by
  intro ops
  induction ops using snoc_induction with
  | nil => intro i o h; simp [run] at h
  | snoc ops op ih =>
    intro i o h
    rw [run_snoc] at h
    rcases getElem?_snoc_some.1 h with h | ⟨hi, h⟩
    · obtain ⟨op', h1, h2⟩ := ih i o h
      have hlt : i < ops.length := by have := getElem?_lt_of_some h; rwa [run_length] at this
      refine ⟨op', getElem?_snoc_some.2 (Or.inl h1), ?_⟩
      rw [List.take_append_of_le_length (Nat.le_of_lt hlt)]
      exact h2
    · rw [run_length] at hi
      refine ⟨op, getElem?_snoc_some.2 (Or.inr ⟨hi, rfl⟩), ?_⟩
      rw [hi, List.take_append_of_le_length (Nat.le_refl _), List.take_length]
      exact h.symm

end Fix8Model.Conc.Timer
