import Fix8Model.Conc.MpmcPush
import Fix8Model.Conc.MpmcPop
/-! `Inv` is inductive: it holds initially and is preserved by every transition -/
namespace Fix8Model.Conc.Mpmc

theorem inv_call {n : Nat} {σ : State} (inv : Inv n σ) (t : Tid) (op : Op) (h : σ.pc t = .idle) :
    Inv n (call σ t op) := by
  unfold call
  apply inv_pc_only inv t op.start (by rw [h]; rfl) (by rw [h]; rfl)
  · cases op <;> rfl
  · cases op <;> rfl
  · cases op <;> simp [Op.start, ThreadOk]

theorem inv_next {n : Nat} {σ : State} (hn : 0 < n) (inv : Inv n σ) (t : Tid) : Inv n (next n σ t) := by
  have ht := inv.thr t
  unfold next
  split
  next h => exact inv
  next d h =>
    exact inv_pc_only inv t _ (by rw [h]; rfl) (by rw [h]; rfl) rfl rfl (by simp [ThreadOk])
  next d pw h =>
    rw [h] at ht; simp only [ThreadOk] at ht
    by_cases c : σ.sP (pw % n) = pw
    · simp only [c, if_true]
      exact inv_pc_only inv t _ (by rw [h]; rfl) (by rw [h]; rfl) rfl rfl (by simp only [ThreadOk]; omega)
    · simp only [c, if_false]
      exact inv_pc_only inv t _ (by rw [h]; rfl) (by rw [h]; rfl) rfl rfl (by simp [ThreadOk])
  next d pw h =>
    split
    next c => exact inv_pCas_succ hn inv t d pw h c
    next c => exact inv_pc_only inv t _ (by rw [h]; rfl) (by rw [h]; rfl) rfl rfl (by simp [ThreadOk])
  next d pw h => exact inv_pWon hn inv t d pw h
  next pw h => exact inv_pPushed hn inv t pw h
  next h =>
    exact inv_pc_only inv t _ (by rw [h]; rfl) (by rw [h]; rfl) rfl rfl (by simp [ThreadOk])
  next pr h =>
    rw [h] at ht; simp only [ThreadOk] at ht
    by_cases c : σ.sC (pr % n) = pr
    · simp only [c, if_true]
      exact inv_pc_only inv t _ (by rw [h]; rfl) (by rw [h]; rfl) rfl rfl (by simp only [ThreadOk]; omega)
    · simp only [c, if_false]
      exact inv_pc_only inv t _ (by rw [h]; rfl) (by rw [h]; rfl) rfl rfl (by simp [ThreadOk])
  next pr h =>
    rw [h] at ht; simp only [ThreadOk] at ht
    by_cases c : σ.sP (pr % n) ≤ pr
    · simp only [c, if_true]
      exact inv_pc_only inv t _ (by rw [h]; rfl) (by rw [h]; rfl) rfl rfl (by simp [ThreadOk])
    · simp only [c, if_false]
      exact inv_pc_only inv t _ (by rw [h]; rfl) (by rw [h]; rfl) rfl rfl (by simp only [ThreadOk]; omega)
  next pr h =>
    split
    next c => exact inv_cCas_succ hn inv t pr h c
    next c => exact inv_pc_only inv t _ (by rw [h]; rfl) (by rw [h]; rfl) rfl rfl (by simp [ThreadOk])
  next pr h =>
    obtain ⟨e0, rest, hb, _⟩ := cWon_buf hn inv h
    simp only [hb, List.head?_cons, List.tail_cons, Option.map_some]
    exact inv_cWon hn inv t pr e0 rest h hb
  next pr got h => exact inv_cPopped hn inv t pr got h

theorem inv_step {n : Nat} {σ σ' : State} (hn : 0 < n) (inv : Inv n σ) (st : Step n σ σ') : Inv n σ' := by
  cases st with
  | call t op h => exact inv_call inv t op h
  | run t _ => exact inv_next hn inv t

theorem inv_reachable {n : Nat} {σ : State} (hn : 0 < n) (r : Reachable n σ) : Inv n σ := by
  induction r with
  | init => exact inv_init n
  | step _ st ih => exact inv_step hn ih st

/-! ## list lemmas used by the order theorem -/

theorem filterMap_congr' {α β : Type} {f g : α → Option β} : ∀ {l : List α}, (∀ x ∈ l, f x = g x) →
    l.filterMap f = l.filterMap g
  | [], _ => rfl
  | a :: l, h => by
      rw [List.filterMap_cons, List.filterMap_cons, h a List.mem_cons_self,
        filterMap_congr' (fun x hx => h x (List.mem_cons_of_mem _ hx))]

/-- looking up strictly increasing positions of a list gives a subsequence of the list -/
theorem lookup_increasing_sublist {α : Type} : ∀ (L : List α) (k : Nat) (ts : List Nat),
    ts.Pairwise (· < ·) → (∀ t ∈ ts, k ≤ t) → (ts.filterMap (fun t => L[t - k]?)).Sublist L
  | [], k, ts, _, _ => by
      have : ts.filterMap (fun t => ([] : List α)[t - k]?) = [] := by
        induction ts with
        | nil => rfl
        | cons a l ih => simp
      rw [this]; exact List.Sublist.slnil
  | x :: L, k, [], _, _ => by simp
  | x :: L, k, t :: ts, hp, hk => by
      rw [List.pairwise_cons] at hp
      have hrest : ∀ s ∈ ts, k + 1 ≤ s := by
        intro s hs
        have := hp.1 s hs
        have := hk t List.mem_cons_self
        omega
      have hshift : ts.filterMap (fun s => (x :: L)[s - k]?) = ts.filterMap (fun s => L[s - (k + 1)]?) := by
        apply filterMap_congr'
        intro s hs
        have := hrest s hs
        have e : s - k = (s - (k + 1)) + 1 := by omega
        rw [e, List.getElem?_cons_succ]
      rcases Nat.lt_or_ge k t with h | h
      · -- the head position lies beyond `x`: everything comes from `L`
        have hall : ∀ s ∈ t :: ts, k + 1 ≤ s := by
          intro s hs
          rcases List.mem_cons.mp hs with e | e
          · omega
          · exact hrest s e
        have : (t :: ts).filterMap (fun s => (x :: L)[s - k]?) = (t :: ts).filterMap (fun s => L[s - (k + 1)]?) := by
          apply filterMap_congr'
          intro s hs
          have := hall s hs
          have e : s - k = (s - (k + 1)) + 1 := by omega
          rw [e, List.getElem?_cons_succ]
        rw [this]
        exact List.Sublist.cons _ (lookup_increasing_sublist L (k + 1) (t :: ts) (List.pairwise_cons.mpr hp) hall)
      · have htk : t = k := by have := hk t List.mem_cons_self; omega
        subst htk
        rw [List.filterMap_cons]
        simp only [Nat.sub_self, List.getElem?_cons_zero]
        rw [hshift]
        exact List.Sublist.cons_cons _ (lookup_increasing_sublist L (t + 1) ts hp.2 hrest)

end Fix8Model.Conc.Mpmc
