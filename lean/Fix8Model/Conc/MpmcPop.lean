import Fix8Model.Conc.MpmcInv
/-! preservation of `Inv` by the three state-changing steps of `pop` -/
namespace Fix8Model.Conc.Mpmc

/-- other pop-ticket holders sit on other slots -/
theorem holdC_other_slot {n : Nat} {σ : State} (inv : Inv n σ) {u v : Tid} {pr t : Nat}
    (hu : holdC (σ.pc u) = some pr) (hv : holdC (σ.pc v) = some t) (hne : v ≠ u) : t % n ≠ pr % n := by
  intro e
  have h1 := (holdC_ok inv hv).2
  have h2 := (holdC_ok inv hu).2
  rw [e, h2] at h1
  subst h1
  exact hne (inv.uniqC v u _ hv hu)

/-- successful `CAS(preadC, pr, pr+1)` -/
theorem inv_cCas_succ {n : Nat} {σ : State} (hn : 0 < n) (inv : Inv n σ) (u : Tid) (pr : Nat)
    (hpc : σ.pc u = .cCas pr) (hC : σ.C = pr) :
    Inv n { σ with C := pr + 1, pc := upd σ.pc u (.cWon pr) } := by
  have hidx : pr % n < n := Nat.mod_lt _ hn
  have hu := inv.thr u
  rw [hpc] at hu; simp only [ThreadOk] at hu
  have hs : σ.sC (pr % n) = pr := by
    have h1 := inv.sChi _ hidx
    have h2 := inv.modC _ hidx
    exact (mod_close_eq (n := n) (a := pr) (b := σ.sC (pr % n)) hu.2.1 (by omega) h2.symm).symm
  have hic : σ.ic (pr % n) = pr := by rw [inv.icEq _ hidx (by omega), hs]
  have hP1 : holdP (σ.pc u) = none := by rw [hpc]; rfl
  have hC1 : holdC (σ.pc u) = none := by rw [hpc]; rfl
  have hother : ∀ i, i < n → i ≠ pr % n → σ.sC i ≠ pr ∧ σ.sC i + n ≠ pr := by
    intro i hi hne
    have h1 := inv.modC i hi
    constructor
    · intro e; apply hne; rw [← e, h1]
    · intro e; apply hne; rw [← e, add_self_mod, h1]
  refine { inv with sChi := ?_, sClo := ?_, icEq := ?_, popReady := ?_, exP := ?_, exC := ?_,
                    uniqP := ?_, uniqC := ?_, thr := ?_, retOk := ?_ }
  · intro i hi; have := inv.sChi i hi; show σ.sC i < pr + 1 + n; omega
  · intro i hi
    show pr + 1 ≤ σ.sC i + n
    by_cases h : i = pr % n
    · subst h; omega
    · have := inv.sClo i hi; have := (hother i hi h).2; omega
  · intro i hi h
    exact inv.icEq i hi (by show σ.C ≤ σ.sC i; have : pr + 1 ≤ σ.sC i := h; omega)
  · intro r hr
    have hr' : r < pr + 1 := hr
    show r < σ.sP (r % n)
    rcases Nat.lt_or_ge r pr with h | h
    · exact inv.popReady r (by omega)
    · have : r = pr := by omega
      subst this; exact hu.2.2
  · intro i hi h
    obtain ⟨v, hv⟩ := inv.exP i hi h
    exact ⟨v, by show holdP (upd σ.pc u (.cWon pr) v) = _; rw [holdP_upd hP1 rfl]; exact hv⟩
  · intro i hi h
    have h' : σ.sC i < pr + 1 := h
    show ∃ v, holdC (upd σ.pc u (.cWon pr) v) = some (σ.sC i)
    by_cases hi' : i = pr % n
    · subst hi'; exact ⟨u, by simp [holdC, hs]⟩
    · have := (hother i hi hi').1
      obtain ⟨v, hv⟩ := inv.exC i hi (by omega)
      have hvu : v ≠ u := by intro e; subst e; simp [hC1] at hv
      exact ⟨v, by rw [upd_other _ _ hvu]; exact hv⟩
  · intro v w t hv hw
    have hv' : holdP (upd σ.pc u (.cWon pr) v) = some t := hv
    have hw' : holdP (upd σ.pc u (.cWon pr) w) = some t := hw
    rw [holdP_upd hP1 rfl] at hv' hw'
    exact inv.uniqP v w t hv' hw'
  · intro v w t hv hw
    have hv' : holdC (upd σ.pc u (.cWon pr) v) = some t := hv
    have hw' : holdC (upd σ.pc u (.cWon pr) w) = some t := hw
    by_cases h1 : v = u <;> by_cases h2 : w = u
    · rw [h1, h2]
    · subst h1; simp [holdC] at hv'; rw [upd_other _ _ h2] at hw'
      have := (holdC_ok inv hw').1; omega
    · subst h2; simp [holdC] at hw'; rw [upd_other _ _ h1] at hv'
      have := (holdC_ok inv hv').1; omega
    · rw [upd_other _ _ h1] at hv'; rw [upd_other _ _ h2] at hw'
      exact inv.uniqC v w t hv' hw'
  · intro v
    show ThreadOk n _ v (upd σ.pc u (.cWon pr) v)
    by_cases hv : v = u
    · subst hv
      simp only [upd_same, ThreadOk]
      refine ⟨by omega, hs, hic, ?_⟩
      intro e he _
      have := (inv.retOk e he).1
      omega
    · rw [upd_other _ _ hv]
      have := inv.thr v
      cases hpv : σ.pc v <;> rw [hpv] at this <;> simp only [ThreadOk] at this ⊢
      case cReadPr t => omega
      case cTest t => exact ⟨by omega, this.2⟩
      case cCas t => exact ⟨by omega, this.2⟩
      case cWon t => exact ⟨by omega, this.2⟩
      case cPopped t _ => exact ⟨by omega, this.2⟩
      all_goals exact this
  · intro e he
    obtain ⟨h1, h2⟩ := inv.retOk e he
    exact ⟨by show e.2.1 < pr + 1; omega, h2⟩

/-- a thread that holds a pop ticket and has not yet popped finds its slot FIFO non-empty, headed by its ticket -/
theorem cWon_buf {n : Nat} {σ : State} (hn : 0 < n) (inv : Inv n σ) {u : Tid} {pr : Nat}
    (hpc : σ.pc u = .cWon pr) : ∃ e0 rest, σ.buf (pr % n) = e0 :: rest ∧ e0.1 = pr := by
  have hidx : pr % n < n := Nat.mod_lt _ hn
  have hu := inv.thr u
  rw [hpc] at hu; simp only [ThreadOk] at hu
  have h1 := inv.popReady pr hu.1
  have h2 := inv.ipGe _ hidx
  have hch := inv.chain _ hidx
  rw [hu.2.2.1] at hch
  obtain ⟨l', hl, _⟩ := chain_head hch (by omega)
  cases hb : σ.buf (pr % n) with
  | nil => rw [hb] at hl; simp at hl
  | cons e0 rest =>
    rw [hb] at hl
    simp only [List.map_cons, List.cons.injEq] at hl
    exact ⟨e0, rest, rfl, hl.1⟩

/-- `buf[idx]->pop(data)` -/
theorem inv_cWon {n : Nat} {σ : State} (hn : 0 < n) (inv : Inv n σ) (u : Tid) (pr : Nat)
    (e0 : Nat × Data) (rest : List (Nat × Data))
    (hpc : σ.pc u = .cWon pr) (hb : σ.buf (pr % n) = e0 :: rest) :
    Inv n { σ with buf := upd σ.buf (pr % n) rest,
                   ic := upd σ.ic (pr % n) (pr + n),
                   rets := σ.rets ++ [(u, pr, some e0.2)],
                   pc := upd σ.pc u (.cPopped pr (some e0.2)) } := by
  have hidx : pr % n < n := Nat.mod_lt _ hn
  have hu := inv.thr u
  rw [hpc] at hu; simp only [ThreadOk] at hu
  obtain ⟨hlt, hs, hic, hord⟩ := hu
  have hready := inv.popReady pr hlt
  have hch := inv.chain _ hidx
  rw [hic, hb] at hch
  simp only [List.map_cons, Chain] at hch
  obtain ⟨he0, hch'⟩ := hch
  have hC1 : holdC (.cPopped pr (some e0.2)) = holdC (σ.pc u) := by rw [hpc]; rfl
  have hCu : holdC (σ.pc u) = some pr := by rw [hpc]; rfl
  have hP1 : holdP (σ.pc u) = none := by rw [hpc]; rfl
  have hmono : ∀ i, σ.ic i ≤ upd σ.ic (pr % n) (pr + n) i := by
    intro i
    by_cases h : i = pr % n
    · subst h; rw [upd_same, hic]; omega
    · rw [upd_other _ _ h]; exact Nat.le_refl _
  refine { inv with modIc := ?_, icGe := ?_, icEq := ?_, icLe := ?_, chain := ?_, bufLog := ?_, exP := ?_, exC := ?_,
                    uniqP := ?_, uniqC := ?_, thr := ?_, retOk := ?_, retOrd := ?_, retAll := ?_ }
  · intro i hi
    show upd σ.ic (pr % n) (pr + n) i % n = i
    by_cases h : i = pr % n
    · subst h; rw [upd_same, add_self_mod]
    · rw [upd_other _ _ h]; exact inv.modIc i hi
  · intro i hi
    have := inv.icGe i hi
    have := hmono i
    show σ.sC i ≤ upd σ.ic (pr % n) (pr + n) i
    omega
  · intro i hi hle
    have hle' : σ.C ≤ σ.sC i := hle
    show upd σ.ic (pr % n) (pr + n) i = σ.sC i
    by_cases h : i = pr % n
    · subst h; omega
    · rw [upd_other _ _ h]; exact inv.icEq i hi hle'
  · intro i hi
    show upd σ.ic (pr % n) (pr + n) i ≤ σ.sP i
    by_cases h : i = pr % n
    · subst h; rw [upd_same]
      exact mod_add_le hready (by rw [inv.modP _ hidx])
    · rw [upd_other _ _ h]; exact inv.icLe i hi
  · intro i hi
    show Chain n (upd σ.ic (pr % n) (pr + n) i) ((upd σ.buf (pr % n) rest i).map (·.1)) (σ.ip i)
    by_cases h : i = pr % n
    · subst h; rw [upd_same, upd_same]; exact hch'
    · rw [upd_other _ _ h, upd_other _ _ h]; exact inv.chain i hi
  · intro i hi e he
    have he' : e ∈ upd σ.buf (pr % n) rest i := he
    show ∃ p, σ.pushLog[e.1]? = some (p, e.2)
    by_cases h : i = pr % n
    · subst h
      rw [upd_same] at he'
      exact inv.bufLog _ hidx e (by rw [hb]; exact List.mem_cons_of_mem _ he')
    · rw [upd_other _ _ h] at he'; exact inv.bufLog i hi e he'
  · intro i hi h
    obtain ⟨v, hv⟩ := inv.exP i hi h
    exact ⟨v, by show holdP (upd σ.pc u (.cPopped pr (some e0.2)) v) = _; rw [holdP_upd hP1 rfl]; exact hv⟩
  · intro i hi h
    obtain ⟨v, hv⟩ := inv.exC i hi h
    exact ⟨v, by show holdC (upd σ.pc u (.cPopped pr (some e0.2)) v) = _; rw [holdC_upd_same hC1]; exact hv⟩
  · intro v w t hv hw
    have hv' : holdP (upd σ.pc u (.cPopped pr (some e0.2)) v) = some t := hv
    have hw' : holdP (upd σ.pc u (.cPopped pr (some e0.2)) w) = some t := hw
    rw [holdP_upd hP1 rfl] at hv' hw'
    exact inv.uniqP v w t hv' hw'
  · intro v w t hv hw
    have hv' : holdC (upd σ.pc u (.cPopped pr (some e0.2)) v) = some t := hv
    have hw' : holdC (upd σ.pc u (.cPopped pr (some e0.2)) w) = some t := hw
    rw [holdC_upd_same hC1] at hv' hw'
    exact inv.uniqC v w t hv' hw'
  · intro v
    show ThreadOk n _ v (upd σ.pc u (.cPopped pr (some e0.2)) v)
    by_cases hv : v = u
    · subst hv
      simp only [upd_same, ThreadOk]
      exact ⟨hlt, hs, by simp⟩
    · rw [upd_other _ _ hv]
      have := inv.thr v
      cases hpv : σ.pc v <;> rw [hpv] at this <;> simp only [ThreadOk] at this ⊢
      case cWon t =>
        have hne := holdC_other_slot inv hCu (show holdC (σ.pc v) = some t by rw [hpv]; rfl) hv
        rw [upd_other _ _ hne]
        refine ⟨this.1, this.2.1, this.2.2.1, ?_⟩
        intro e he hev
        rw [List.mem_append, List.mem_singleton] at he
        rcases he with h1 | h1
        · exact this.2.2.2 e h1 hev
        · subst h1; exact absurd hev.symm hv
      case cPopped t _ =>
        have hne := holdC_other_slot inv hCu (show holdC (σ.pc v) = some t by rw [hpv]; rfl) hv
        rw [upd_other _ _ hne]; exact this
      all_goals exact this
  · intro e he
    have he' : e ∈ σ.rets ++ [(u, pr, some e0.2)] := he
    show e.2.1 < σ.C ∧ e.2.1 < upd σ.ic (pr % n) (pr + n) (e.2.1 % n) ∧
      ∃ p d, e.2.2 = some d ∧ σ.pushLog[e.2.1]? = some (p, d)
    rw [List.mem_append, List.mem_singleton] at he'
    rcases he' with h1 | h1
    · obtain ⟨a, b, c⟩ := inv.retOk e h1
      have := hmono (e.2.1 % n)
      exact ⟨a, by omega, c⟩
    · subst h1
      refine ⟨hlt, by simp [hn], ?_⟩
      obtain ⟨p, hp⟩ := inv.bufLog _ hidx e0 (by rw [hb]; exact List.mem_cons_self)
      rw [he0] at hp
      exact ⟨p, e0.2, rfl, hp⟩
  · show (σ.rets ++ [(u, pr, some e0.2)]).Pairwise _
    rw [List.pairwise_append]
    refine ⟨inv.retOrd, List.pairwise_singleton _ _, ?_⟩
    intro a ha b hb'
    rw [List.mem_singleton] at hb'
    subst hb'
    refine ⟨?_, fun h => hord a ha h⟩
    intro e
    have h2 := (inv.retOk a ha).2.1
    have e' : a.2.1 = pr := e
    rw [e', hic] at h2
    omega
  · intro t ht
    have ht' : t < upd σ.ic (pr % n) (pr + n) (t % n) := ht
    show ∃ e ∈ σ.rets ++ [(u, pr, some e0.2)], e.2.1 = t
    by_cases h : t % n = pr % n
    · rw [h, upd_same] at ht'
      rcases Nat.lt_or_ge t pr with h1 | h1
      · obtain ⟨e, he, het⟩ := inv.retAll t (by rw [h, hic]; exact h1)
        exact ⟨e, List.mem_append_left _ he, het⟩
      · have : pr = t := mod_close_eq h1 ht' h.symm
        exact ⟨(u, pr, some e0.2), by simp, this⟩
    · rw [upd_other _ _ h] at ht'
      obtain ⟨e, he, het⟩ := inv.retAll t ht'
      exact ⟨e, List.mem_append_left _ he, het⟩

/-- `seqC[idx] = pr + mask + 1`, `pop` returns true -/
theorem inv_cPopped {n : Nat} {σ : State} (hn : 0 < n) (inv : Inv n σ) (u : Tid) (pr : Nat) (got : Option Data)
    (hpc : σ.pc u = .cPopped pr got) :
    Inv n { σ with sC := upd σ.sC (pr % n) (pr + n), pc := upd σ.pc u .idle } := by
  have hidx : pr % n < n := Nat.mod_lt _ hn
  have hu := inv.thr u
  rw [hpc] at hu; simp only [ThreadOk] at hu
  obtain ⟨hlt, hs, hic⟩ := hu
  have hCu : holdC (σ.pc u) = some pr := by rw [hpc]; rfl
  have hP1 : holdP (σ.pc u) = none := by rw [hpc]; rfl
  have hmono : ∀ i, σ.sC i ≤ upd σ.sC (pr % n) (pr + n) i := by
    intro i
    by_cases h : i = pr % n
    · subst h; rw [upd_same, hs]; omega
    · rw [upd_other _ _ h]; exact Nat.le_refl _
  have hholdC : ∀ v t, holdC (upd σ.pc u .idle v) = some t → holdC (σ.pc v) = some t ∧ v ≠ u := by
    intro v t h
    by_cases hv : v = u
    · subst hv; simp [holdC] at h
    · rw [upd_other _ _ hv] at h; exact ⟨h, hv⟩
  refine { inv with modC := ?_, sChi := ?_, sClo := ?_, icGe := ?_, icEq := ?_,
                    exP := ?_, exC := ?_, uniqP := ?_, uniqC := ?_, thr := ?_ }
  · intro i hi
    show upd σ.sC (pr % n) (pr + n) i % n = i
    by_cases h : i = pr % n
    · subst h; rw [upd_same, add_self_mod]
    · rw [upd_other _ _ h]; exact inv.modC i hi
  · intro i hi
    show upd σ.sC (pr % n) (pr + n) i < σ.C + n
    by_cases h : i = pr % n
    · subst h; rw [upd_same]; omega
    · rw [upd_other _ _ h]; exact inv.sChi i hi
  · intro i hi
    have := inv.sClo i hi
    have := hmono i
    show σ.C ≤ upd σ.sC (pr % n) (pr + n) i + n
    omega
  · intro i hi
    show upd σ.sC (pr % n) (pr + n) i ≤ σ.ic i
    by_cases h : i = pr % n
    · subst h; rw [upd_same, hic]; omega
    · rw [upd_other _ _ h]; exact inv.icGe i hi
  · intro i hi hle
    have hle' : σ.C ≤ upd σ.sC (pr % n) (pr + n) i := hle
    show σ.ic i = upd σ.sC (pr % n) (pr + n) i
    by_cases h : i = pr % n
    · subst h; rw [upd_same, hic]
    · rw [upd_other _ _ h] at hle' ⊢; exact inv.icEq i hi hle'
  · intro i hi h
    obtain ⟨v, hv⟩ := inv.exP i hi h
    exact ⟨v, by show holdP (upd σ.pc u .idle v) = _; rw [holdP_upd hP1 rfl]; exact hv⟩
  · intro i hi h
    have h' : upd σ.sC (pr % n) (pr + n) i < σ.C := h
    show ∃ v, holdC (upd σ.pc u .idle v) = some (upd σ.sC (pr % n) (pr + n) i)
    by_cases hi' : i = pr % n
    · subst hi'
      have := inv.sClo _ hidx
      rw [upd_same] at h'; omega
    · rw [upd_other _ _ hi'] at h' ⊢
      obtain ⟨v, hv⟩ := inv.exC i hi h'
      have hvu : v ≠ u := by
        intro e; subst e
        rw [hCu] at hv
        have : pr = σ.sC i := by simpa using hv
        apply hi'; rw [this, inv.modC i hi]
      exact ⟨v, by rw [upd_other _ _ hvu]; exact hv⟩
  · intro v w t hv hw
    have hv' : holdP (upd σ.pc u .idle v) = some t := hv
    have hw' : holdP (upd σ.pc u .idle w) = some t := hw
    rw [holdP_upd hP1 rfl] at hv' hw'
    exact inv.uniqP v w t hv' hw'
  · intro v w t hv hw
    exact inv.uniqC v w t (hholdC v t hv).1 (hholdC w t hw).1
  · intro v
    show ThreadOk n _ v (upd σ.pc u .idle v)
    by_cases hv : v = u
    · subst hv; simp [ThreadOk]
    · rw [upd_other _ _ hv]
      have := inv.thr v
      cases hpv : σ.pc v <;> rw [hpv] at this <;> simp only [ThreadOk] at this ⊢
      case cTest t => have hm := hmono (t % n); exact ⟨this.1, by omega⟩
      case cCas t => have hm := hmono (t % n); exact ⟨this.1, by omega, this.2.2⟩
      case cWon t =>
        have hne := holdC_other_slot inv hCu (show holdC (σ.pc v) = some t by rw [hpv]; rfl) hv
        rw [upd_other _ _ hne]; exact this
      case cPopped t _ =>
        have hne := holdC_other_slot inv hCu (show holdC (σ.pc v) = some t by rw [hpv]; rfl) hv
        rw [upd_other _ _ hne]; exact this
      all_goals exact this

end Fix8Model.Conc.Mpmc
