import Fix8Model.Conc.Logger
/-! Inductive invariants of the logger model (`Fix8Model.Conc.Logger`). -/
namespace Fix8Model.Conc.Logger

/-! ### list helpers -/

theorem set_of_getElem? {α : Type} : ∀ (l : List α) (i : Nat) (a : α), l[i]? = some a → l.set i a = l
  | [], _, _, h => by simp at h
  | x :: xs, 0, a, h => by simp at h; simp [h]
  | x :: xs, i + 1, a, h => by
    simp only [List.getElem?_cons_succ] at h
    simp [set_of_getElem? xs i a h]

/-- the first occurrence of `x` splits a list in one way only -/
theorem split_unique {α : Type} (x : α) : ∀ (a c b d : List α), a ++ x :: b = c ++ x :: d → x ∉ a → x ∉ c → a = c
  | [], [], _, _, _, _, _ => rfl
  | [], y :: c, b, d, h, _, hc => by
    simp only [List.nil_append, List.cons_append, List.cons.injEq] at h
    exact absurd (by simp [h.1]) hc
  | y :: a, [], b, d, h, ha, _ => by
    simp only [List.nil_append, List.cons_append, List.cons.injEq] at h
    exact absurd (by simp [h.1]) ha
  | y :: a, z :: c, b, d, h, ha, hc => by
    simp only [List.cons_append, List.cons.injEq] at h
    have := split_unique x a c b d h.2 (fun m => ha (List.mem_cons_of_mem _ m)) (fun m => hc (List.mem_cons_of_mem _ m))
    rw [h.1, this]

/-! ### queue bookkeeping -/

/-- the element the writer thread holds -/
def hand : CPc → List Line
  | .got l => [l]
  | _ => []

def qlines (s : State) : List Line := s.queue.map (·.line)

structure InvA (s : State) : Prop where
  /-- ticket order = popped elements followed by the queue -/
  a1 : s.tickets = s.popped ++ qlines s
  /-- popped elements = written lines, then what ended the loop, then what the thread holds -/
  a2 : s.popped = s.written.map (·.line) ++ s.dropped ++ hand s.cpc
  a3 : s.dropped ≠ [] → s.cpc = .exited
  a4 : ∀ w ∈ s.written, w.line.text ≠ []
  a5 : ∀ l ∈ s.dropped, l.text = []
  a6 : ∀ l ∈ s.pre ++ s.post, l.isStop = false
  a7 : s.spc.ticketed = false → s.post = []
  a8 : s.spc = .joined → s.cpc = .exited

theorem invA_init : InvA init := by
  refine ⟨rfl, rfl, ?_, ?_, ?_, ?_, ?_, ?_⟩ <;> simp [init]

theorem tickets_untick {s : State} (h : s.spc.ticketed = false) (hp : s.post = []) : s.tickets = s.pre := by
  simp [State.tickets, h, hp]

theorem invA_step {V : Variant} {c : Cfg} {s s' : State} (st : Step V c s s') (h : InvA s) : InvA s' := by
  obtain ⟨a1, a2, a3, a4, a5, a6, a7, a8⟩ := h
  cases st with
  | submit p lev val text viaSend ok =>
    unfold submit
    split
    · exact ⟨a1, a2, a3, a4, a5, a6, a7, a8⟩
    · split
      · split
        · next ht =>
          refine ⟨?_, a2, a3, a4, a5, ?_, ?_, a8⟩
          · simp only [State.tickets, qlines, ht, List.map_append] at a1 ⊢
            simp only [← List.append_assoc] at a1 ⊢
            rw [a1]; simp
          · intro l hl
            simp only [List.mem_append, List.mem_singleton] at hl
            rcases hl with hl | hl | hl
            · exact a6 l (by simp [hl])
            · exact a6 l (by simp [hl])
            · rw [hl]; rfl
          · intro hf; simp [ht] at hf
        · next ht =>
          have ht' : s.spc.ticketed = false := by simpa using ht
          have hp := a7 ht'
          refine ⟨?_, a2, a3, a4, a5, ?_, a7, a8⟩
          · simp only [State.tickets, qlines, ht', hp, List.map_append, List.append_nil] at a1 ⊢
            simp only [Bool.false_eq_true, if_false, List.append_nil] at a1 ⊢
            rw [← List.append_assoc, ← a1]; simp
          · intro l hl
            simp only [List.mem_append, List.mem_singleton] at hl
            rcases hl with (hl | hl) | hl
            · exact a6 l (by simp [hl])
            · rw [hl]; rfl
            · exact a6 l (by simp [hl])
      · exact ⟨a1, a2, a3, a4, a5, a6, a7, a8⟩
  | pushDone i l hq hs =>
    refine ⟨?_, a2, a3, a4, a5, a6, a7, a8⟩
    have : (s.queue.set i ⟨l, true⟩).map (·.line) = s.queue.map (·.line) := by
      rw [List.map_set]
      apply set_of_getElem?
      rw [List.getElem?_map, hq]; rfl
    simp only [State.tickets, qlines, pushDone] at a1 ⊢
    rw [this]; exact a1
  | cHead hp =>
    refine ⟨a1, ?_, ?_, a4, a5, a6, a7, ?_⟩
    · simp only [cHead]
      rw [a2, hp]
      split <;> rfl
    · intro hd; have := a3 hd; rw [hp] at this; cases this
    · intro hj; have := a8 hj; rw [hp] at this; cases this
  | cPopSome l q hp hq =>
    refine ⟨?_, ?_, ?_, a4, a5, a6, a7, ?_⟩
    · have e : (cPopSome l q s).tickets = s.tickets := rfl
      rw [e, a1]; simp [qlines, cPopSome, hq]
    · simp only [cPopSome, hand]
      rw [a2, hp]; simp [hand]
    · intro hd; have := a3 hd; rw [hp] at this; cases this
    · intro hj; have := a8 hj; rw [hp] at this; cases this
  | cPopNone hp hq =>
    refine ⟨a1, ?_, ?_, a4, a5, a6, a7, ?_⟩
    · simp only [cPopNone]
      rw [a2, hp]; rfl
    · intro hd; have := a3 hd; rw [hp] at this; cases this
    · intro hj; have := a8 hj; rw [hp] at this; cases this
  | cGot l hp =>
    have hd : s.dropped = [] := by
      cases hdd : s.dropped with
      | nil => rfl
      | cons x xs => have := a3 (by rw [hdd]; simp); rw [hp] at this; cases this
    have a2' : s.popped = s.written.map (·.line) ++ [l] := by rw [a2, hp, hd]; simp [hand]
    have hj : s.spc ≠ .joined := by intro hj; have := a8 hj; rw [hp] at this; cases this
    unfold cGot
    split
    · next he =>
      refine ⟨a1, ?_, ?_, a4, ?_, a6, a7, ?_⟩
      · simp only [hand]; rw [a2', hd]; simp
      · intro _; rfl
      · intro x hx; rw [hd] at hx; simp at hx; rw [hx]; exact he
      · intro _; rfl
    · next he =>
      unfold processLine
      split
      · split
        · refine ⟨a1, ?_, ?_, ?_, a5, a6, a7, ?_⟩
          · simp only [hand]; rw [a2', hd]; simp
          · intro hdd; exact absurd hd hdd
          · intro w hw; simp only [List.mem_append, List.mem_singleton] at hw
            rcases hw with hw | hw
            · exact a4 w hw
            · rw [hw]; exact he
          · intro hjj; exact absurd hjj hj
        · refine ⟨a1, ?_, ?_, ?_, a5, a6, a7, ?_⟩
          · simp only [hand]; rw [a2', hd]; simp
          · intro hdd; exact absurd hd hdd
          · intro w hw; simp only [List.mem_append, List.mem_singleton] at hw
            rcases hw with hw | hw
            · exact a4 w hw
            · rw [hw]; exact he
          · intro hjj; exact absurd hjj hj
      · refine ⟨a1, ?_, ?_, ?_, a5, a6, a7, ?_⟩
        · simp only [hand]; rw [a2', hd]; simp
        · intro hdd; exact absurd hd hdd
        · intro w hw; simp only [List.mem_append, List.mem_singleton] at hw
          rcases hw with hw | hw
          · exact a4 w hw
          · rw [hw]; exact he
        · intro hjj; exact absurd hjj hj
  | stFlag hp =>
    refine ⟨?_, a2, a3, a4, a5, a6, ?_, ?_⟩
    · simp only [State.tickets, qlines, stFlag] at a1 ⊢
      rw [hp] at a1; exact a1
    · intro _; exact a7 (by rw [hp]; rfl)
    · intro hj; simp [stFlag] at hj
  | stTicket hp =>
    have hpost := a7 (by rw [hp]; rfl)
    refine ⟨?_, a2, a3, a4, a5, a6, ?_, ?_⟩
    · simp only [State.tickets, qlines, stTicket, hp, hpost, SPc.ticketed] at a1 ⊢
      simp only [Bool.false_eq_true, if_false, if_true, List.append_nil, List.map_append] at a1 ⊢
      rw [← List.append_assoc, ← a1]; simp
    · intro hf; simp [stTicket, SPc.ticketed] at hf
    · intro hj; simp [stTicket] at hj
  | stDone hp =>
    refine ⟨?_, a2, a3, a4, a5, a6, ?_, ?_⟩
    · have : (s.queue.map (fun sl => if sl.line.isStop then (⟨sl.line, true⟩ : Slot) else sl)).map (·.line) = s.queue.map (·.line) := by
        rw [List.map_map]
        apply List.map_congr_left
        intro a _
        simp only [Function.comp]
        split <;> rfl
      simp only [State.tickets, qlines, stDone, hp, SPc.ticketed] at a1 ⊢
      rw [this]; exact a1
    · intro hf; simp [stDone, SPc.ticketed] at hf
    · intro hj; simp [stDone] at hj
  | stJoin hp he =>
    refine ⟨?_, a2, a3, a4, a5, a6, ?_, ?_⟩
    · simp only [State.tickets, qlines, stJoin, hp, SPc.ticketed] at a1 ⊢
      exact a1
    · intro hf; simp [stJoin, SPc.ticketed] at hf
    · intro _; exact he

theorem invA_reach {V : Variant} {c : Cfg} {s : State} (h : Reach V c s) : InvA s := by
  induction h with
  | init => exact invA_init
  | step _ st ih => exact invA_step st ih

/-! ### identity and order of the accepted lines -/

/-- lines of one producer are ordered by their call index -/
def ordRel (a b : Line) : Prop := a.pid = b.pid → a.k < b.k

structure InvB (c : Cfg) (s : State) : Prop where
  b1 : ∀ l ∈ s.subs, l.k < countPid l.pid s.subs
  b2 : ∀ l ∈ s.pre ++ s.post, l ∈ s.subs
  b3 : (s.pre ++ s.post).Pairwise ordRel
  b5 : ∀ l ∈ s.filtered ++ s.rejected, l ∈ s.subs ∧ l ∉ s.pre ++ s.post
  b6 : ∀ l ∈ s.filtered, l.viaSend = true ∧ c.loggable l.level = false
  b7 : ∀ l ∈ s.pre ++ s.post, l.viaSend = true → c.loggable l.level = true

theorem invB_init (c : Cfg) : InvB c init := by
  refine ⟨?_, ?_, ?_, ?_, ?_, ?_⟩ <;> simp [init]

theorem countPid_snoc (p : Nat) (ls : List Line) (n : Line) :
    countPid p (ls ++ [n]) = countPid p ls + (if n.pid = p then 1 else 0) := by
  simp [countPid, List.countP_append, List.countP_singleton]

theorem mkLine_fresh {s : State} (b1 : ∀ l ∈ s.subs, l.k < countPid l.pid s.subs) (p lev val : Nat) (text : List Char)
    (viaSend : Bool) : mkLine s p lev val text viaSend ∉ s.subs := by
  intro hm
  have := b1 _ hm
  simp [mkLine] at this

theorem b1_snoc {s : State} (b1 : ∀ l ∈ s.subs, l.k < countPid l.pid s.subs) (p lev val : Nat) (text : List Char)
    (viaSend : Bool) : ∀ l ∈ s.subs ++ [mkLine s p lev val text viaSend], l.k < countPid l.pid (s.subs ++ [mkLine s p lev val text viaSend]) := by
  intro l hl
  rw [countPid_snoc]
  simp only [List.mem_append, List.mem_singleton] at hl
  rcases hl with hl | hl
  · have := b1 l hl; omega
  · rw [hl]; simp [mkLine]

theorem ord_new {c : Cfg} {s : State} (h : InvB c s) (p lev val : Nat) (text : List Char) (viaSend : Bool) :
    ∀ a ∈ s.pre ++ s.post, ordRel a (mkLine s p lev val text viaSend) := by
  intro a ha hp
  have := h.b1 a (h.b2 a ha)
  simp only [mkLine] at hp ⊢
  rw [hp] at this; exact this

theorem invB_step {V : Variant} {c : Cfg} {s s' : State} (st : Step V c s s') (hA : InvA s) (h : InvB c s) : InvB c s' := by
  cases st with
  | submit p lev val text viaSend ok =>
    have fresh := mkLine_fresh h.b1 p lev val text viaSend
    have hb1 := b1_snoc h.b1 p lev val text viaSend
    have hord := ord_new h p lev val text viaSend
    have notin : mkLine s p lev val text viaSend ∉ s.pre ++ s.post := fun hm => fresh (h.b2 _ hm)
    unfold submit
    split
    · next hc =>
      simp only [Bool.and_eq_true, Bool.not_eq_eq_eq_not] at hc
      refine ⟨hb1, ?_, h.b3, ?_, ?_, h.b7⟩
      · intro l hl; exact List.mem_append_left _ (h.b2 l hl)
      · intro l hl
        simp only [List.mem_append, List.mem_singleton] at hl
        rcases hl with (hl | hl) | hl
        · exact ⟨List.mem_append_left _ (h.b5 l (by simp [hl])).1, (h.b5 l (by simp [hl])).2⟩
        · rw [hl]; exact ⟨by simp, notin⟩
        · exact ⟨List.mem_append_left _ (h.b5 l (by simp [hl])).1, (h.b5 l (by simp [hl])).2⟩
      · intro l hl
        simp only [List.mem_append, List.mem_singleton] at hl
        rcases hl with hl | hl
        · exact h.b6 l hl
        · rw [hl]; simp only [mkLine]; exact ⟨hc.1, by simpa using hc.2⟩
    · next hc =>
      have hlog : viaSend = true → c.loggable lev = true := by
        intro hv; rw [hv] at hc; simpa using hc
      split
      · split
        · -- appended to `post`
          refine ⟨hb1, ?_, ?_, ?_, h.b6, ?_⟩
          · intro l hl
            rw [← List.append_assoc] at hl
            simp only [List.mem_append, List.mem_singleton] at hl ⊢
            rcases hl with hl | hl
            · exact Or.inl (h.b2 l (by simpa using hl))
            · exact Or.inr hl
          · show (s.pre ++ (s.post ++ [_])).Pairwise ordRel
            rw [← List.append_assoc, List.pairwise_append]
            exact ⟨h.b3, List.pairwise_singleton _ _, fun a ha b hb => by rw [List.mem_singleton.mp hb]; exact hord a ha⟩
          · intro l hl
            have := h.b5 l hl
            refine ⟨List.mem_append_left _ this.1, ?_⟩
            show l ∉ s.pre ++ (s.post ++ [_])
            rw [← List.append_assoc]
            simp only [List.mem_append, List.mem_singleton, not_or]
            refine ⟨by simpa using this.2, ?_⟩
            intro e; rw [e] at this; exact fresh this.1
          · intro l hl
            change l ∈ s.pre ++ (s.post ++ [_]) at hl
            rw [← List.append_assoc] at hl
            simp only [List.mem_append, List.mem_singleton] at hl
            rcases hl with hl | hl
            · exact h.b7 l (by simpa using hl)
            · rw [hl]; exact hlog
        · next ht =>
          -- appended to `pre`; `post` is still empty
          have hp := hA.a7 (by simpa using ht)
          refine ⟨hb1, ?_, ?_, ?_, h.b6, ?_⟩
          · intro l hl
            change l ∈ (s.pre ++ [_]) ++ s.post at hl
            rw [hp, List.append_nil] at hl
            simp only [List.mem_append, List.mem_singleton] at hl ⊢
            rcases hl with hl | hl
            · exact Or.inl (h.b2 l (by simp [hl]))
            · exact Or.inr hl
          · show ((s.pre ++ [_]) ++ s.post).Pairwise ordRel
            rw [hp, List.append_nil, List.pairwise_append]
            have b3 := h.b3
            rw [hp, List.append_nil] at b3
            exact ⟨b3, List.pairwise_singleton _ _, fun a ha b hb => by rw [List.mem_singleton.mp hb]; exact hord a (by simp [ha])⟩
          · intro l hl
            have := h.b5 l hl
            refine ⟨List.mem_append_left _ this.1, ?_⟩
            show l ∉ (s.pre ++ [_]) ++ s.post
            rw [hp, List.append_nil]
            simp only [List.mem_append, List.mem_singleton, not_or]
            refine ⟨fun hm => this.2 (by simp [hm]), ?_⟩
            intro e; rw [e] at this; exact fresh this.1
          · intro l hl
            change l ∈ (s.pre ++ [_]) ++ s.post at hl
            rw [hp, List.append_nil] at hl
            simp only [List.mem_append, List.mem_singleton] at hl
            rcases hl with hl | hl
            · exact h.b7 l (by simp [hl])
            · rw [hl]; exact hlog
      · -- `try_push` failed
        refine ⟨hb1, ?_, h.b3, ?_, h.b6, h.b7⟩
        · intro l hl; exact List.mem_append_left _ (h.b2 l hl)
        · intro l hl
          rw [← List.append_assoc] at hl
          simp only [List.mem_append, List.mem_singleton] at hl
          rcases hl with hl | hl
          · have := h.b5 l (by simpa using hl)
            exact ⟨List.mem_append_left _ this.1, this.2⟩
          · rw [hl]; exact ⟨by simp, notin⟩
  | pushDone i l hq hs => exact ⟨h.b1, h.b2, h.b3, h.b5, h.b6, h.b7⟩
  | cHead hp => exact ⟨h.b1, h.b2, h.b3, h.b5, h.b6, h.b7⟩
  | cPopSome l q hp hq => exact ⟨h.b1, h.b2, h.b3, h.b5, h.b6, h.b7⟩
  | cPopNone hp hq => exact ⟨h.b1, h.b2, h.b3, h.b5, h.b6, h.b7⟩
  | cGot l hp =>
    have e : ∀ f : State → List Line, (f = State.subs ∨ f = State.pre ∨ f = State.post ∨ f = State.filtered ∨ f = State.rejected) →
        f (cGot c l s) = f s := by
      intro f hf
      unfold cGot processLine
      rcases hf with hf | hf | hf | hf | hf <;> subst hf <;> (repeat' split) <;> rfl
    have e1 := e State.subs (by simp)
    have e2 := e State.pre (by simp)
    have e3 := e State.post (by simp)
    have e4 := e State.filtered (by simp)
    have e5 := e State.rejected (by simp)
    refine ⟨?_, ?_, ?_, ?_, ?_, ?_⟩
    · rw [e1]; exact h.b1
    · rw [e1, e2, e3]; exact h.b2
    · rw [e2, e3]; exact h.b3
    · rw [e1, e2, e3, e4, e5]; exact h.b5
    · rw [e4]; exact h.b6
    · rw [e2, e3]; exact h.b7
  | stFlag hp => exact ⟨h.b1, h.b2, h.b3, h.b5, h.b6, h.b7⟩
  | stTicket hp => exact ⟨h.b1, h.b2, h.b3, h.b5, h.b6, h.b7⟩
  | stDone hp => exact ⟨h.b1, h.b2, h.b3, h.b5, h.b6, h.b7⟩
  | stJoin hp he => exact ⟨h.b1, h.b2, h.b3, h.b5, h.b6, h.b7⟩

/-! ### sequence numbers -/

structure InvC (c : Cfg) (s : State) : Prop where
  c1 : c.seqFlag = true → (s.written.filter (fun w => useIn c w.line)).map (·.seq) = List.range' 1 s.seqIn
  c2 : c.seqFlag = true → (s.written.filter (fun w => !useIn c w.line)).map (·.seq) = List.range' 1 s.seqOut
  c3 : c.seqFlag = false → ∀ w ∈ s.written, w.seq = 0

theorem invC_init (c : Cfg) : InvC c init := by
  refine ⟨?_, ?_, ?_⟩ <;> simp [init]

theorem invC_step {V : Variant} {c : Cfg} {s s' : State} (st : Step V c s s') (h : InvC c s) : InvC c s' := by
  cases st with
  | submit p lev val text viaSend ok =>
    have ew : (submit V c p lev val text viaSend ok s).written = s.written := by
      unfold submit; (repeat' split) <;> rfl
    have ei : (submit V c p lev val text viaSend ok s).seqIn = s.seqIn := by
      unfold submit; (repeat' split) <;> rfl
    have eo : (submit V c p lev val text viaSend ok s).seqOut = s.seqOut := by
      unfold submit; (repeat' split) <;> rfl
    refine ⟨?_, ?_, ?_⟩
    · rw [ew, ei]; exact h.c1
    · rw [ew, eo]; exact h.c2
    · rw [ew]; exact h.c3
  | pushDone i l hq hs => exact ⟨h.c1, h.c2, h.c3⟩
  | cHead hp => exact ⟨h.c1, h.c2, h.c3⟩
  | cPopSome l q hp hq => exact ⟨h.c1, h.c2, h.c3⟩
  | cPopNone hp hq => exact ⟨h.c1, h.c2, h.c3⟩
  | cGot l hp =>
    unfold cGot
    split
    · exact ⟨h.c1, h.c2, h.c3⟩
    · unfold processLine
      split
      · next hs =>
        split
        · next hu =>
          refine ⟨?_, ?_, ?_⟩
          · intro _
            simp only [List.filter_append, List.map_append, h.c1 hs]
            simp only [List.filter_cons, hu, if_true, List.filter_nil, List.map_cons, List.map_nil]
            rw [List.range'_concat]; simp [Nat.add_comm]
          · intro _
            simp only [List.filter_append, List.map_append, h.c2 hs]
            simp [hu]
          · intro hf; rw [hs] at hf; cases hf
        · next hu =>
          have hu' : useIn c l = false := by simpa using hu
          refine ⟨?_, ?_, ?_⟩
          · intro _
            simp only [List.filter_append, List.map_append, h.c1 hs]
            simp [hu']
          · intro _
            simp only [List.filter_append, List.map_append, h.c2 hs]
            simp only [List.filter_cons, hu', Bool.not_false, if_true, List.filter_nil, List.map_cons, List.map_nil]
            rw [List.range'_concat]; simp [Nat.add_comm]
          · intro hf; rw [hs] at hf; cases hf
      · next hs =>
        refine ⟨?_, ?_, ?_⟩
        · intro hf; exact absurd hf hs
        · intro hf; exact absurd hf hs
        · intro _ w hw
          simp only [List.mem_append, List.mem_singleton] at hw
          rcases hw with hw | hw
          · exact h.c3 (by simpa using hs) w hw
          · rw [hw]
  | stFlag hp => exact ⟨h.c1, h.c2, h.c3⟩
  | stTicket hp => exact ⟨h.c1, h.c2, h.c3⟩
  | stDone hp => exact ⟨h.c1, h.c2, h.c3⟩
  | stJoin hp he => exact ⟨h.c1, h.c2, h.c3⟩

/-! ### return values, lines accepted before `stop()` was called -/

structure InvD (V : Variant) (s : State) : Prop where
  d1 : ∀ lr ∈ s.rets, (lr.2 = retOf V true ∧ lr.1 ∈ s.pre ++ s.post) ∨ (lr.2 = retOf V false ∧ lr.1 ∈ s.rejected) ∨
        (lr.2 = true ∧ lr.1 ∈ s.filtered)
  e1 : ∀ l ∈ s.early, l ∈ s.pre

theorem invD_init (V : Variant) : InvD V init := by
  refine ⟨?_, ?_⟩ <;> simp [init]

theorem mem_queue_accepted {s : State} (hA : InvA s) {i : Nat} {l : Line} {d : Bool} (hq : s.queue[i]? = some ⟨l, d⟩)
    (hs : l.isStop = false) : l ∈ s.pre ++ s.post := by
  have hm : l ∈ qlines s := by
    unfold qlines
    exact List.mem_map.mpr ⟨⟨l, d⟩, List.mem_of_getElem? hq, rfl⟩
  have ht : l ∈ s.tickets := by rw [hA.a1]; exact List.mem_append_right _ hm
  unfold State.tickets at ht
  simp only [List.mem_append] at ht ⊢
  rcases ht with (ht | ht) | ht
  · exact Or.inl ht
  · split at ht
    · rw [List.mem_singleton.mp ht] at hs; cases hs
    · cases ht
  · exact Or.inr ht

theorem invD_step {V : Variant} {c : Cfg} {s s' : State} (st : Step V c s s') (hA : InvA s) (h : InvD V s) : InvD V s' := by
  have mono : ∀ (pre' post' rej' filt' : List Line), (∀ l ∈ s.pre ++ s.post, l ∈ pre' ++ post') → (∀ l ∈ s.rejected, l ∈ rej') →
      (∀ l ∈ s.filtered, l ∈ filt') → ∀ lr ∈ s.rets, (lr.2 = retOf V true ∧ lr.1 ∈ pre' ++ post') ∨ (lr.2 = retOf V false ∧ lr.1 ∈ rej') ∨
        (lr.2 = true ∧ lr.1 ∈ filt') := by
    intro pre' post' rej' filt' h1 h2 h3 lr hlr
    rcases h.d1 lr hlr with ⟨e, m⟩ | ⟨e, m⟩ | ⟨e, m⟩
    · exact Or.inl ⟨e, h1 _ m⟩
    · exact Or.inr (Or.inl ⟨e, h2 _ m⟩)
    · exact Or.inr (Or.inr ⟨e, h3 _ m⟩)
  cases st with
  | submit p lev val text viaSend ok =>
    unfold submit
    split
    · refine ⟨?_, h.e1⟩
      intro lr hlr
      simp only [List.mem_append, List.mem_singleton] at hlr
      rcases hlr with hlr | hlr
      · exact mono s.pre s.post s.rejected _ (fun _ m => m) (fun _ m => m) (fun _ m => List.mem_append_left _ m) lr hlr
      · rw [hlr]; exact Or.inr (Or.inr ⟨rfl, by simp⟩)
    · split
      · split
        · refine ⟨?_, h.e1⟩
          exact mono s.pre _ s.rejected s.filtered (fun l m => by
            simp only [List.mem_append] at m ⊢; rcases m with m | m
            · exact Or.inl m
            · exact Or.inr (Or.inl m)) (fun _ m => m) (fun _ m => m)
        · refine ⟨?_, fun l m => List.mem_append_left _ (h.e1 l m)⟩
          exact mono _ s.post s.rejected s.filtered (fun l m => by
            simp only [List.mem_append] at m ⊢; rcases m with m | m
            · exact Or.inl (Or.inl m)
            · exact Or.inr m) (fun _ m => m) (fun _ m => m)
      · refine ⟨?_, h.e1⟩
        intro lr hlr
        simp only [List.mem_append, List.mem_singleton] at hlr
        rcases hlr with hlr | hlr
        · exact mono s.pre s.post _ s.filtered (fun _ m => m) (fun _ m => List.mem_append_left _ m) (fun _ m => m) lr hlr
        · rw [hlr]; exact Or.inr (Or.inl ⟨rfl, by simp⟩)
  | pushDone i l hq hs =>
    have hacc := mem_queue_accepted hA hq hs
    refine ⟨?_, ?_⟩
    · intro lr hlr
      simp only [pushDone, List.mem_append, List.mem_singleton] at hlr
      rcases hlr with hlr | hlr
      · exact h.d1 lr hlr
      · rw [hlr]; exact Or.inl ⟨rfl, hacc⟩
    · intro x hx
      simp only [pushDone] at hx
      split at hx
      · next hi =>
        simp only [List.mem_append, List.mem_singleton] at hx
        rcases hx with hx | hx
        · exact h.e1 x hx
        · have hp := hA.a7 (by rw [hi]; rfl)
          rw [hp, List.append_nil] at hacc
          rw [hx]; exact hacc
      · exact h.e1 x hx
  | cHead hp => exact ⟨h.d1, h.e1⟩
  | cPopSome l q hp hq => exact ⟨h.d1, h.e1⟩
  | cPopNone hp hq => exact ⟨h.d1, h.e1⟩
  | cGot l hp =>
    unfold cGot processLine
    (repeat' split) <;> exact ⟨h.d1, h.e1⟩
  | stFlag hp => exact ⟨h.d1, h.e1⟩
  | stTicket hp => exact ⟨h.d1, h.e1⟩
  | stDone hp => exact ⟨h.d1, h.e1⟩
  | stJoin hp he => exact ⟨h.d1, h.e1⟩

/-! ### the writer thread of the fixed loop leaves only through an empty element -/

theorem exit_by_empty_step {V : Variant} {c : Cfg} {s s' : State} (hV : V.drain = true) (st : Step V c s s')
    (h : s.cpc = .exited → s.dropped ≠ []) : s'.cpc = .exited → s'.dropped ≠ [] := by
  cases st with
  | submit p lev val text viaSend ok =>
    unfold submit
    (repeat' split) <;> exact h
  | pushDone i l hq hs => exact h
  | cHead hp => intro he; simp [cHead, hV] at he
  | cPopSome l q hp hq => intro he; simp [cPopSome] at he
  | cPopNone hp hq => intro he; simp [cPopNone] at he
  | cGot l hp =>
    unfold cGot processLine
    (repeat' split)
    · intro _; simp
    all_goals (intro he; simp at he)
  | stFlag hp => exact h
  | stTicket hp => exact h
  | stDone hp => exact h
  | stJoin hp he => exact h

/-! ### all invariants along a run -/

structure Inv (V : Variant) (c : Cfg) (s : State) : Prop where
  A : InvA s
  B : InvB c s
  C : InvC c s
  D : InvD V s

theorem inv_reach {V : Variant} {c : Cfg} {s : State} (h : Reach V c s) : Inv V c s := by
  induction h with
  | init => exact ⟨invA_init, invB_init c, invC_init c, invD_init V⟩
  | step _ st ih => exact ⟨invA_step st ih.A, invB_step st ih.A ih.B, invC_step st ih.C, invD_step st ih.A ih.D⟩

theorem exit_by_empty {V : Variant} {c : Cfg} {s : State} (hV : V.drain = true) (h : Reach V c s) :
    s.cpc = .exited → s.dropped ≠ [] := by
  induction h with
  | init => intro he; cases he
  | step _ st ih => exact exit_by_empty_step hV st ih

/-- `subs` only grows -/
theorem subs_mono {V : Variant} {c : Cfg} {s s' : State} (st : Step V c s s') : ∀ l ∈ s.subs, l ∈ s'.subs := by
  cases st with
  | submit p lev val text viaSend ok =>
    intro l hl
    unfold submit
    (repeat' split) <;> exact List.mem_append_left _ hl
  | cGot l hp =>
    intro x hx
    unfold cGot processLine
    (repeat' split) <;> exact hx
  | _ => intro l hl; exact hl

end Fix8Model.Conc.Logger
