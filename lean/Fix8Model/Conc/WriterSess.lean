import Fix8Model.Conc.WriterLock
import Fix8Model.Props.C17
/-!
# What the critical section does to the session's shared variables: the invariant `SInv`

All frames produced (written ones, then the batch buffer) carry the numbers `s0.ns, s0.ns+1, …` in order, are the
orders of `lin` in order, and every frame whose `put` has been executed is stored under its own number.  Preserved
by every step GIVEN the lock invariant `LInv` (that is where mutual exclusion enters).
-/
namespace Fix8Model.Conc.Writer
open Fix8Model.Session Fix8Model.Store
open Fix8Model.Conc.Mpmc (upd upd_same upd_other)
open Fix8Model.Props.C17 (lookup_append_left lookup_append_new)

/-- the session state at the moment the senders start: empty batch buffer, a persister whose keys are below the
next send number (true of a session after `start()` over any store that satisfies C17's invariant) -/
structure Start (s0 : Sess) : Prop where
  buf : s0.buf = []
  one : 1 ≤ s0.ns
  store : ∃ st, s0.store = some st ∧ ∀ k r, lookup st.msgs k = some r → k < s0.ns

structure SInv (s0 : Sess) (σ : State) : Prop where
  cfg : σ.sess.cfg = s0.cfg
  now : σ.sess.now = s0.now
  one : 1 ≤ s0.ns
  ns : σ.sess.ns + σ.uninc = s0.ns + (frames σ).length
  seqs : (frames σ).map (·.seq) = List.range' s0.ns (frames σ).length
  pids : (frames σ).map (·.pid) = σ.lin.map (fun x => some x.2.1)
  shape : ∀ m ∈ frames σ, m = { mkOrder s0 (m.pid.getD 0) with seq := m.seq, st := s0.now }
  store : ∃ st, σ.sess.store = some st ∧
    (∀ k r, lookup st.msgs k = some r → k + σ.unstored < σ.sess.ns + σ.uninc) ∧
    (∀ m ∈ frames σ, lookup st.msgs m.seq = some (Rec.frame m) ∨ (σ.unstored = 1 ∧ (frames σ).getLast? = some m))
  /-- the batch buffer is empty exactly when the last message that entered `send_process` had end_of_batch set -/
  bufEob : σ.sess.buf = [] ↔ (σ.lin.getLast?.map (fun e => e.2.2)).getD true = true

theorem sinv_init (pl : Bool) {s0 : Sess} (h : Start s0) : SInv s0 (init pl s0) := by
  obtain ⟨st, hst, hk⟩ := h.store
  constructor <;> simp [init, frames, h.buf, h.one]
  exact ⟨st, hst, fun k r hl => hk k r hl⟩

theorem sinv_congr {s0 : Sess} {σ σ' : State} (h1 : σ'.sess = σ.sess) (h2 : σ'.wire = σ.wire) (h3 : σ'.lin = σ.lin)
    (h4 : σ'.uninc = σ.uninc) (h5 : σ'.unstored = σ.unstored) (inv : SInv s0 σ) : SInv s0 σ' := by
  have hf : frames σ' = frames σ := by unfold frames; rw [h1, h2]
  constructor
  · rw [h1]; exact inv.cfg
  · rw [h1]; exact inv.now
  · exact inv.one
  · rw [h1, h4, hf]; exact inv.ns
  · rw [hf]; exact inv.seqs
  · rw [hf, h3]; exact inv.pids
  · rw [hf]; exact inv.shape
  · rw [h1, h4, h5, hf]; exact inv.store
  · rw [h1, h3]; exact inv.bufEob

/-- a step outside `send_process` touches none of the session's variables (nor the ghost record of its output) -/
theorem next_core {pl : Bool} {n : Nat} {σ : State} {t : Tid} (h : inCS (σ.pc t) = false) :
    (next pl n σ t).sess = σ.sess ∧ (next pl n σ t).wire = σ.wire ∧ (next pl n σ t).lin = σ.lin ∧
    (next pl n σ t).uninc = σ.uninc ∧ (next pl n σ t).unstored = σ.unstored := by
  cases hp : σ.pc t with
  | idle => simp [next, hp]
  | wdead => simp [next, hp]
  | rel => simp [next, hp]
  | cs cur stage rest => rw [hp] at h; simp [inCS] at h
  | acq todo => cases hl : σ.lock <;> simp [next, hp, hl]
  | push todo held =>
    cases hq : σ.q.pc t with
    | idle => cases todo <;> simp [next, hp, hq]
    | _ => simp [next, hp, hq]
  | wpop => cases hq : σ.q.pc t <;> simp [next, hp, hq]

theorem last_seq {s0 : Sess} {σ : State} (inv : SInv s0 σ) {m : Msg} (h : (frames σ).getLast? = some m) :
    m.seq + 1 = s0.ns + (frames σ).length := by
  obtain ⟨ys, hys⟩ := List.getLast?_eq_some_iff.mp h
  have hs := inv.seqs
  rw [hys] at hs ⊢
  simp only [List.map_append, List.map_cons, List.map_nil, List.length_append, List.length_cons, List.length_nil] at hs ⊢
  rw [List.range'_1_concat] at hs
  have := List.append_inj_right' hs (by simp)
  simp at this
  omega

theorem mkOrder_cfg {s s0 : Sess} (h : s.cfg = s0.cfg) (p : Nat) : mkOrder s p = mkOrder s0 p := by
  simp [mkOrder, Sess.fresh, h]

theorem sinv_next {pl : Bool} {n : Nat} {s0 : Sess} {σ : State} (linv : LInv pl σ) (inv : SInv s0 σ) (t : Tid) :
    SInv s0 (next pl n σ t) := by
  cases hin : inCS (σ.pc t) with
  | false =>
    obtain ⟨h1, h2, h3, h4, h5⟩ := next_core (pl := pl) (n := n) hin
    exact sinv_congr h1 h2 h3 h4 h5 inv
  | true =>
    have ht := linv.pcOk t
    cases hp : σ.pc t with
    | cs cur stage rest =>
      rw [hp] at ht; simp only [PcOk] at ht
      obtain ⟨st, hst, hkeys, hfr⟩ := inv.store
      cases stage with
      | enc =>
        simp only [StageOk] at ht
        obtain ⟨_, hu, hs⟩ := ht
        have hfe : frames (next pl n σ t) = frames σ ++ [frameOf σ.sess cur.1] := by
          simp only [next, hp, frames]; exact frames_enc σ cur
        have hns := inv.ns
        rw [hu] at hns
        constructor
        · simp only [next, hp, encSess]; exact inv.cfg
        · simp only [next, hp, encSess]; exact inv.now
        · exact inv.one
        · rw [hfe]; simp only [next, hp, encSess, List.length_append, List.length_cons, List.length_nil]; omega
        · rw [hfe]
          simp only [List.map_append, List.map_cons, List.map_nil, List.length_append, List.length_cons, List.length_nil]
          rw [List.range'_1_concat, inv.seqs]
          simp only [frameOf]; congr 2 <;> omega
        · rw [hfe]; simp only [next, hp, List.map_append, List.map_cons, List.map_nil, inv.pids]; rfl
        · rw [hfe]
          intro m hm
          rcases List.mem_append.mp hm with hm | hm
          · exact inv.shape m hm
          · rw [List.mem_singleton] at hm; subst hm
            simp only [frameOf]
            rw [mkOrder_cfg inv.cfg, inv.now]
            simp [mkOrder, Sess.fresh]
        · refine ⟨st, by simp only [next, hp, encSess]; exact hst, ?_, ?_⟩
          · intro k r hl
            have := hkeys k r hl
            simp only [next, hp, encSess]; omega
          · rw [hfe]
            intro m hm
            rcases List.mem_append.mp hm with hm | hm
            · left
              rcases hfr m hm with h | h
              · exact h
              · rw [hs] at h; cases h.1
            · rw [List.mem_singleton] at hm; subst hm
              right
              refine ⟨by simp only [next, hp]; omega, by simp⟩
        · simp only [next, hp, encSess, List.getLast?_append, List.getLast?_singleton]
          obtain ⟨p, e⟩ := cur
          cases e <;> simp
      | put m =>
        simp only [StageOk] at ht
        obtain ⟨_, hu, hs, hlast⟩ := ht
        have hfe : frames (next pl n σ t) = frames σ := by simp only [next, hp, frames, putStep]
        have hns := inv.ns
        rw [hu] at hns
        have hms := last_seq inv hlast
        have hmseq : m.seq = σ.sess.ns := by omega
        have hpos : σ.sess.ns ≠ 0 := by
          have h1 := inv.one
          have : 0 < (frames σ).length := by
            obtain ⟨ys, hys⟩ := List.getLast?_eq_some_iff.mp hlast
            rw [hys]; simp
          omega
        have hnone : lookup st.msgs σ.sess.ns = none := by
          cases hl : lookup st.msgs σ.sess.ns with
          | none => rfl
          | some r => have := hkeys _ _ hl; omega
        have hnk : hasKey st.msgs σ.sess.ns = false := by simp [hasKey, hnone]
        have hstore' : (next pl n σ t).sess.store =
            some ⟨st.msgs ++ [(σ.sess.ns, Rec.frame m)], some (σ.sess.ns + 1, σ.sess.nr)⟩ := by
          simp [next, hp, putStep, hst, SpecG.put, SpecG.cput, hnk, hpos]
        constructor
        · simp only [next, hp, putStep]; exact inv.cfg
        · simp only [next, hp, putStep]; exact inv.now
        · exact inv.one
        · rw [hfe]; simp only [next, hp, putStep]; exact inv.ns
        · rw [hfe]; exact inv.seqs
        · rw [hfe]; simp only [next, hp]; exact inv.pids
        · rw [hfe]; exact inv.shape
        · refine ⟨_, hstore', ?_, ?_⟩
          · intro k r hl
            simp only [next, hp, putStep]
            rcases Fix8Model.Props.C17.lookup_append_inv _ _ _ _ _ hl with h | ⟨h, _⟩
            · have := hkeys k r h; omega
            · omega
          · rw [hfe]
            intro m' hm'
            left
            rcases hfr m' hm' with h | ⟨_, h⟩
            · exact lookup_append_left _ _ _ _ h
            · rw [hlast] at h; injection h with h; subst h
              rw [hmseq]; exact lookup_append_new _ _ _ hnone
        · simp only [next, hp, putStep]; exact inv.bufEob
      | inc =>
        simp only [StageOk] at ht
        obtain ⟨_, hu, hs⟩ := ht
        have hfe : frames (next pl n σ t) = frames σ := by simp only [next, hp, frames, incStep]
        have hns := inv.ns
        constructor
        · simp only [next, hp, incStep]; exact inv.cfg
        · simp only [next, hp, incStep]; exact inv.now
        · exact inv.one
        · rw [hfe]; simp only [next, hp, incStep]; omega
        · rw [hfe]; exact inv.seqs
        · rw [hfe]; simp only [next, hp]; exact inv.pids
        · rw [hfe]; exact inv.shape
        · refine ⟨st, by simp only [next, hp, incStep]; exact hst, ?_, ?_⟩
          · intro k r hl
            have := hkeys k r hl
            simp only [next, hp, incStep]; omega
          · rw [hfe]
            intro m hm
            left
            rcases hfr m hm with h | ⟨h, _⟩
            · exact h
            · rw [hs] at h; cases h
        · simp only [next, hp, incStep]; exact inv.bufEob
    | _ => rw [hp] at hin; simp [inCS] at hin

theorem sinv_call {pl : Bool} {s0 : Sess} {σ : State} (inv : SInv s0 σ) (t : Tid) (c : Call) : SInv s0 (call pl σ t c) :=
  sinv_congr (σ := σ) (σ' := call pl σ t c) rfl rfl rfl rfl rfl inv

end Fix8Model.Conc.Writer
