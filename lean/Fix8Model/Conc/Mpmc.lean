import Fix8Model.Gen.MpmcConsts
/-!
# Model of `ff::uMPMC_Ptr_Queue` (include/fix8/ff/mpmc/MPMCqueues.hpp, `push` / `pop`)

A transition system with any number of threads.  Every shared-memory access of `push` / `pop` is
one step (the thread-local computation that follows an access – `idx = pw & mask`, the comparison
`pw == seq`, the back-off loop – is folded into the step of the access that precedes it):

    push(data):  L: pw  = read preadP                         pStart   -> pReadPw
                    seq = read seqP[pw & mask]; pw == seq ?   pReadPw  -> pCas | pStart (retry)
                    CAS(preadP, pw, pw+1)                     pCas     -> pWon | pStart (retry)
                    buf[idx]->push(data)                      pWon     -> pPushed
                    seqP[idx] = pw + mask + 1; return true    pPushed  -> idle

    pop(&data):  L: pr  = read preadC                         cStart   -> cReadPr
                    seq = read seqC[pr & mask]; pr == seq ?   cReadPr  -> cTest | cStart (retry)
                    read seqP[idx] <= seq ? return false      cTest    -> idle (empty) | cCas
                    CAS(preadC, pr, pr+1)                     cCas     -> cWon | cStart (retry)
                    buf[idx]->pop(data)                       cWon     -> cPopped
                    seqC[idx] = pr + mask + 1; return true    cPopped  -> idle

Modelled, not verified (trusted base): atomics are sequentially consistent and each access is
one indivisible step; the inner `uSWSR_Ptr_Buffer` is an unbounded FIFO whose `push` and `pop` are
atomic (`pop` on an empty buffer delivers nothing: `none`); counters are unbounded naturals (the
`unsigned long` counters do not wrap: fewer than 2^63 operations); `n = mask + 1` slots and
`idx = t % n` (for the power of two that `init` establishes this is `t & mask`, lemma
`and_mask_eq_mod`).

Ghost (history) components, never read by the algorithm: the ticket stored beside each payload in
the slot FIFOs, `ip` / `ic` (next ticket to be inner-pushed / inner-popped per slot), `pushLog`
(ticket `t` = position `t`: thread and payload of the push that won ticket `t`, appended at the
successful CAS), `rets` (thread, ticket, delivered payload of every inner pop, in time order).

Core Lean only; `next` is executable and is what the correspondence driver runs.
-/
namespace Fix8Model.Conc.Mpmc

abbrev Tid := Nat
abbrev Data := Nat

/-- program counter of one thread (with the thread-local variables that are live there) -/
inductive PC where
  | idle
  | pStart (d : Data)
  | pReadPw (d : Data) (pw : Nat)
  | pCas (d : Data) (pw : Nat)
  | pWon (d : Data) (pw : Nat)
  | pPushed (pw : Nat)
  | cStart
  | cReadPr (pr : Nat)
  | cTest (pr : Nat)
  | cCas (pr : Nat)
  | cWon (pr : Nat)
  | cPopped (pr : Nat) (d : Option Data)
  deriving DecidableEq, Repr, Inhabited

/-- pointwise update -/
def upd {α : Type} (f : Nat → α) (i : Nat) (v : α) : Nat → α := fun j => if j = i then v else f j

@[simp] theorem upd_same {α : Type} (f : Nat → α) (i : Nat) (v : α) : upd f i v i = v := by simp [upd]
theorem upd_other {α : Type} (f : Nat → α) {i j : Nat} (v : α) (h : j ≠ i) : upd f i v j = f j := by simp [upd, h]

structure State where
  P : Nat                         -- preadP
  C : Nat                         -- preadC
  sP : Nat → Nat                  -- seqP[i], i < n
  sC : Nat → Nat                  -- seqC[i], i < n
  buf : Nat → List (Nat × Data)   -- inner FIFO of slot i: (ghost ticket, payload)
  pc : Tid → PC
  ip : Nat → Nat                  -- ghost
  ic : Nat → Nat                  -- ghost
  pushLog : List (Tid × Data)     -- ghost
  rets : List (Tid × Nat × Option Data)  -- ghost

/-- `init(nqueues)`: at least `mpmcMinQueues` (2) slots, rounded up to a power of two -/
def nextPow2 (x : Nat) : Nat := Id.run do
  let mut p := 1
  for _ in [0:64] do
    if p < x then p := 2 * p
  return p

def slotsOf (nqueues : Nat) : Nat := nextPow2 (if nqueues < Gen.mpmcMinQueues then Gen.mpmcMinQueues else nqueues)

def init : State :=
  { P := 0, C := 0, sP := fun i => i, sC := fun i => i, buf := fun _ => [], pc := fun _ => .idle,
    ip := fun i => i, ic := fun i => i, pushLog := [], rets := [] }

/-- the payload part of a slot FIFO (what the real buffer holds) -/
def payloads (l : List (Nat × Data)) : List Data := l.map (·.2)

/-- one step of thread `t` (no-op when the thread is idle) -/
def next (n : Nat) (σ : State) (t : Tid) : State :=
  match σ.pc t with
  | .idle => σ
  | .pStart d => { σ with pc := upd σ.pc t (.pReadPw d σ.P) }
  | .pReadPw d pw =>
      { σ with pc := upd σ.pc t (if σ.sP (pw % n) = pw then .pCas d pw else .pStart d) }
  | .pCas d pw =>
      if σ.P = pw then
        { σ with P := pw + 1, pc := upd σ.pc t (.pWon d pw), pushLog := σ.pushLog ++ [(t, d)] }
      else { σ with pc := upd σ.pc t (.pStart d) }
  | .pWon d pw =>
      { σ with buf := upd σ.buf (pw % n) (σ.buf (pw % n) ++ [(pw, d)]),
               ip := upd σ.ip (pw % n) (pw + n),
               pc := upd σ.pc t (.pPushed pw) }
  | .pPushed pw =>
      { σ with sP := upd σ.sP (pw % n) (pw + n), pc := upd σ.pc t .idle }
  | .cStart => { σ with pc := upd σ.pc t (.cReadPr σ.C) }
  | .cReadPr pr =>
      { σ with pc := upd σ.pc t (if σ.sC (pr % n) = pr then .cTest pr else .cStart) }
  | .cTest pr =>
      { σ with pc := upd σ.pc t (if σ.sP (pr % n) ≤ pr then .idle else .cCas pr) }
  | .cCas pr =>
      if σ.C = pr then { σ with C := pr + 1, pc := upd σ.pc t (.cWon pr) }
      else { σ with pc := upd σ.pc t .cStart }
  | .cWon pr =>
      let got := (σ.buf (pr % n)).head?.map (·.2)
      { σ with buf := upd σ.buf (pr % n) (σ.buf (pr % n)).tail,
               ic := upd σ.ic (pr % n) (pr + n),
               rets := σ.rets ++ [(t, pr, got)],
               pc := upd σ.pc t (.cPopped pr got) }
  | .cPopped pr _ =>
      { σ with sC := upd σ.sC (pr % n) (pr + n), pc := upd σ.pc t .idle }

/-- an idle thread starts an operation -/
inductive Op where
  | push (d : Data)
  | pop

def Op.start : Op → PC
  | .push d => .pStart d
  | .pop => .cStart

def call (σ : State) (t : Tid) (op : Op) : State := { σ with pc := upd σ.pc t op.start }

/-- the transition relation: any idle thread may start any operation, any thread inside an
operation may take its next atomic step.  No fairness, no bound on threads or steps. -/
inductive Step (n : Nat) : State → State → Prop where
  | call (σ : State) (t : Tid) (op : Op) : σ.pc t = .idle → Step n σ (call σ t op)
  | run (σ : State) (t : Tid) : σ.pc t ≠ .idle → Step n σ (next n σ t)

inductive Reachable (n : Nat) : State → Prop where
  | init : Reachable n init
  | step {σ σ' : State} : Reachable n σ → Step n σ σ' → Reachable n σ'

/-- scripts: a schedule is a list of commands; `exec1` refuses a command that is not a transition -/
inductive Cmd where
  | call (t : Tid) (op : Op)
  | run (t : Tid)

def exec1 (n : Nat) (σ : State) : Cmd → Option State
  | .call t op => if σ.pc t = .idle then some (call σ t op) else none
  | .run t => if σ.pc t ≠ .idle then some (next n σ t) else none

def exec (n : Nat) : State → List Cmd → Option State
  | σ, [] => some σ
  | σ, c :: cs => match exec1 n σ c with
    | some σ' => exec n σ' cs
    | none => none

theorem reachable_exec1 {n : Nat} {σ σ' : State} {c : Cmd} (r : Reachable n σ) (h : exec1 n σ c = some σ') :
    Reachable n σ' := by
  cases c with
  | call t op =>
    simp only [exec1] at h
    split at h
    next hi => injection h with h; subst h; exact .step r (.call σ t op hi)
    next => cases h
  | run t =>
    simp only [exec1] at h
    split at h
    next hi => injection h with h; subst h; exact .step r (.run σ t hi)
    next => cases h

theorem reachable_exec {n : Nat} : ∀ {cs : List Cmd} {σ σ' : State}, Reachable n σ → exec n σ cs = some σ' → Reachable n σ'
  | [], σ, σ', r, h => by simp only [exec] at h; injection h with h; subst h; exact r
  | c :: cs, σ, σ', r, h => by
      simp only [exec] at h
      split at h
      next σ1 h1 => exact reachable_exec (reachable_exec1 r h1) h
      next => cases h

/-- what the caller observes when thread `t` takes a step from `σ` (used by the driver and to
state the emptiness clause): `some none` = `pop` returned false, `some (some x)` = `pop` returned
true delivering `x` (`x = none`: nothing was delivered), push completion is `pushed`. -/
inductive Ret where
  | none | pushed | empty | popped (d : Option Data)
  deriving DecidableEq, Repr

def retOf (n : Nat) (σ : State) (t : Tid) : Ret :=
  match σ.pc t with
  | .pPushed _ => .pushed
  | .cTest pr => if σ.sP (pr % n) ≤ pr then .empty else .none
  | .cPopped _ d => .popped d
  | _ => .none

end Fix8Model.Conc.Mpmc
