import Fix8Model.Conc.WriterQueue
import Fix8Model.Conc.WriterThread
/-!
# Pipelined model (pm_pipeline): the invariants `QInv` (queue with ONE consumer) and `PInv`

`QInv`: the embedded queue state is a reachable state of the C30 model, only the writer thread pops, and therefore the
pop tickets are 0, 1, 2, … in the order of the pops (no holes).  With C30's ticket theorem (`Mpmc.Inv.retOk`) the writer
thread receives the push log entry by entry.  `PInv`: `lin` (order of entering `send_process`) is a prefix of the annotated
push log, per thread the log entries + the push in flight + what is still to be pushed are exactly what the thread
submitted, and the entries pushed under the lock are whole batches in the order the lock was granted.
-/
namespace Fix8Model.Conc.Writer
open Fix8Model.Session
open Fix8Model.Conc.Mpmc (upd upd_same upd_other)

def wc : Mpmc.PC → Nat
  | .cWon _ => 1
  | _ => 0

structure QInv (n : Nat) (q : Mpmc.State) : Prop where
  reach : Mpmc.Reachable n q
  prod : ∀ t, t ≠ W → producerPc (q.pc t) = true
  cons : consumerPc (q.pc W) = true
  tickets : q.rets.map (fun e => e.2.1) = List.range q.rets.length
  cval : q.C = q.rets.length + wc (q.pc W)
  wWon : ∀ pr, q.pc W = .cWon pr → pr = q.rets.length
  wPopped : ∀ pr got, q.pc W = .cPopped pr got → q.rets.getLast? = some (W, pr, got)

theorem qinv_init (n : Nat) : QInv n Mpmc.init := by
  constructor <;> simp [Mpmc.init, producerPc, consumerPc, wc]
  exact .init

theorem qinv_call_push {n : Nat} {q : Mpmc.State} (inv : QInv n q) {t : Tid} (ht : t ≠ W) (d : Nat) (h : q.pc t = .idle) :
    QInv n (Mpmc.call q t (.push d)) := by
  have hw : (Mpmc.call q t (.push d)).pc W = q.pc W := call_pc_other q _ (fun e => ht e.symm)
  constructor
  · exact .step inv.reach (.call q t _ h)
  · intro u hu
    by_cases hut : u = t
    · subst hut; simp [Mpmc.call, Mpmc.Op.start, producerPc]
    · rw [call_pc_other q _ hut]; exact inv.prod u hu
  · rw [hw]; exact inv.cons
  · exact inv.tickets
  · rw [hw]; exact inv.cval
  · rw [hw]; exact inv.wWon
  · rw [hw]; exact inv.wPopped

theorem qinv_call_pop {n : Nat} {q : Mpmc.State} (inv : QInv n q) (h : q.pc W = .idle) : QInv n (Mpmc.call q W .pop) := by
  have hw : (Mpmc.call q W .pop).pc W = .cStart := by simp [Mpmc.call, Mpmc.Op.start]
  constructor
  · exact .step inv.reach (.call q W _ h)
  · intro u hu; rw [call_pc_other q _ hu]; exact inv.prod u hu
  · rw [hw]; rfl
  · exact inv.tickets
  · rw [hw]; have := inv.cval; rw [h] at this; exact this
  · rw [hw]; intro pr h; cases h
  · rw [hw]; intro pr got h; cases h

theorem qinv_next_prod {n : Nat} {q : Mpmc.State} (inv : QInv n q) {t : Tid} (ht : t ≠ W) (h : q.pc t ≠ .idle) :
    QInv n (Mpmc.next n q t) := by
  obtain ⟨h1, h2, h3, _, _, _⟩ := next_producer n q t (inv.prod t ht)
  have hw : (Mpmc.next n q t).pc W = q.pc W := next_pc_other n q (fun e => ht e.symm)
  constructor
  · exact .step inv.reach (.run q t h)
  · intro u hu
    by_cases hut : u = t
    · subst hut; exact h3
    · rw [next_pc_other n q hut]; exact inv.prod u hu
  · rw [hw]; exact inv.cons
  · rw [h1]; exact inv.tickets
  · rw [h1, h2, hw]; exact inv.cval
  · rw [h1, hw]; exact inv.wWon
  · rw [h1, hw]; exact inv.wPopped

/-- 1 while the popped element is in the hands of `uMPMC_Ptr_Queue::pop` (before it returns) -/
def wp2 : Mpmc.PC → Nat
  | .cPopped _ _ => 1
  | _ => 0

/-- a consumer step that changes neither `preadC` nor the pop history, between program points outside `cWon`/`cPopped` -/
theorem qinv_quiet {n : Nat} {q q' : Mpmc.State} (inv : QInv n q) (hreach : Mpmc.Reachable n q')
    (hprod : ∀ u, u ≠ W → producerPc (q'.pc u) = true) (hcons : consumerPc (q'.pc W) = true)
    (hr : q'.rets = q.rets) (hC : q'.C = q.C) (hold : wc (q.pc W) = 0) (hnew : wc (q'.pc W) = 0)
    (hnp : wp2 (q'.pc W) = 0) : QInv n q' := by
  refine ⟨hreach, hprod, hcons, by rw [hr]; exact inv.tickets, ?_, ?_, ?_⟩
  · rw [hr, hC, hnew]; have := inv.cval; rw [hold] at this; exact this
  · intro pr h; rw [h] at hnew; simp [wc] at hnew
  · intro pr got h; rw [h] at hnp; simp [wp2] at hnp

theorem qinv_next_cons {n : Nat} {q : Mpmc.State} (inv : QInv n q) (h : q.pc W ≠ .idle) :
    QInv n (Mpmc.next n q W) ∧
    (wp2 (q.pc W) = 0 → (Mpmc.next n q W).rets.length = q.rets.length + wp2 ((Mpmc.next n q W).pc W)) ∧
    (∀ pr got, q.pc W = .cPopped pr got → (Mpmc.next n q W).rets = q.rets ∧ (Mpmc.next n q W).pc W = .idle) := by
  have hreach : Mpmc.Reachable n (Mpmc.next n q W) := .step inv.reach (.run q W h)
  have hprod : ∀ u, u ≠ W → producerPc ((Mpmc.next n q W).pc u) = true := by
    intro u hu; rw [next_pc_other n q hu]; exact inv.prod u hu
  have hc := inv.cons
  have hcv := inv.cval
  cases hq : q.pc W <;> rw [hq] at hc hcv <;> simp [consumerPc] at hc
  · exact absurd hq h
  · -- cStart
    have e : Mpmc.next n q W = { q with pc := upd q.pc W (.cReadPr q.C) } := by simp [Mpmc.next, hq]
    rw [e] at hreach hprod ⊢
    refine ⟨qinv_quiet inv hreach hprod ?_ rfl rfl (by rw [hq]; rfl) ?_ ?_, ?_, ?_⟩ <;> simp [consumerPc, wc, wp2]
  · next pr =>
    have e : Mpmc.next n q W = { q with pc := upd q.pc W (if q.sC (pr % n) = pr then .cTest pr else .cStart) } := by
      simp [Mpmc.next, hq]
    rw [e] at hreach hprod ⊢
    refine ⟨qinv_quiet inv hreach hprod ?_ rfl rfl (by rw [hq]; rfl) ?_ ?_, ?_, ?_⟩ <;> simp only [upd_same] <;>
      split <;> simp [consumerPc, wc, wp2]
  · next pr =>
    have e : Mpmc.next n q W = { q with pc := upd q.pc W (if q.sP (pr % n) ≤ pr then .idle else .cCas pr) } := by
      simp [Mpmc.next, hq]
    rw [e] at hreach hprod ⊢
    refine ⟨qinv_quiet inv hreach hprod ?_ rfl rfl (by rw [hq]; rfl) ?_ ?_, ?_, ?_⟩ <;> simp only [upd_same] <;>
      split <;> simp [consumerPc, wc, wp2]
  · next pr =>
    simp only [wc, Nat.add_zero] at hcv
    by_cases hcas : q.C = pr
    · have e : Mpmc.next n q W = { q with C := pr + 1, pc := upd q.pc W (.cWon pr) } := by simp [Mpmc.next, hq, hcas]
      rw [e] at hreach hprod ⊢
      refine ⟨⟨hreach, hprod, by simp [consumerPc], inv.tickets, ?_, ?_, ?_⟩, ?_, ?_⟩
      · simp only [upd_same, wc]; omega
      · intro pr' h'; simp only [upd_same] at h'; injection h' with h'; show pr' = q.rets.length; omega
      · intro pr' got h'; simp only [upd_same] at h'; cases h'
      · simp [wp2]
      · intro pr' got h'; cases h'
    · have e : Mpmc.next n q W = { q with pc := upd q.pc W .cStart } := by simp [Mpmc.next, hq, hcas]
      rw [e] at hreach hprod ⊢
      refine ⟨qinv_quiet inv hreach hprod ?_ rfl rfl (by rw [hq]; rfl) ?_ ?_, ?_, ?_⟩ <;> simp [consumerPc, wc, wp2]
  · next pr =>
    have hpr := inv.wWon pr hq
    simp only [wc] at hcv
    have e : (Mpmc.next n q W).rets = q.rets ++ [(W, pr, (q.buf (pr % n)).head?.map (·.2))] ∧ (Mpmc.next n q W).C = q.C ∧
        (Mpmc.next n q W).pc W = .cPopped pr ((q.buf (pr % n)).head?.map (·.2)) := by simp [Mpmc.next, hq]
    obtain ⟨e1, e2, e3⟩ := e
    refine ⟨⟨hreach, hprod, by rw [e3]; rfl, ?_, ?_, ?_, ?_⟩, ?_, ?_⟩
    · rw [e1]; simp only [List.map_append, List.map_cons, List.map_nil, List.length_append, List.length_cons, List.length_nil]
      rw [inv.tickets, hpr, List.range_succ]
    · rw [e1, e2, e3]; simp only [List.length_append, List.length_cons, List.length_nil, wc]; omega
    · intro pr' h'; rw [e3] at h'; cases h'
    · intro pr' got h'; rw [e3] at h'; injection h' with h1 h2; subst h1; subst h2; rw [e1]; simp
    · rw [e1, e3]; simp [wp2]
    · intro pr' got h'; cases h'
  · next pr got =>
    simp only [wc, Nat.add_zero] at hcv
    have e : Mpmc.next n q W = { q with sC := upd q.sC (pr % n) (pr + n), pc := upd q.pc W .idle } := by simp [Mpmc.next, hq]
    rw [e] at hreach hprod ⊢
    refine ⟨qinv_quiet inv hreach hprod ?_ rfl rfl (by rw [hq]; rfl) ?_ ?_, ?_, ?_⟩ <;> simp [consumerPc, wc, wp2]

/-! ## the writer-level invariant -/

def wp1 : PC → Nat
  | .cs _ .enc _ => 1
  | _ => 0

/-- log entries of messages pushed inside `write_batch` (lock held) -/
def heldLog (σ : State) : List (Tid × Item) := (σ.plog.filter (fun e => e.2.2)).map (fun e => (e.1, e.2.1))

/-- log entries of thread `t` -/
def plogOf (σ : State) (t : Tid) : List Item := (σ.plog.filter (fun e => e.1 == t)).map (fun e => e.2.1)

structure PInv (n : Nat) (σ : State) : Prop where
  qi : QInv n σ.q
  qidle : ∀ t, (∀ todo held, σ.pc t ≠ .push todo held) → σ.pc t ≠ .wpop → σ.q.pc t = .idle
  plogOk : σ.plog.map (fun e => (e.1, encode e.2.1)) = σ.q.pushLog
  wCur : ∀ cur rest, σ.pc W = .cs cur .enc rest → ∃ pr d, σ.q.rets.getLast? = some (W, pr, some d) ∧ cur = decode d
  wlen : σ.lin.length + wp1 (σ.pc W) + wp2 (σ.q.pc W) = σ.q.rets.length
  linOk : σ.lin = (σ.plog.take σ.lin.length).map (fun e => (e.1, e.2.1))
  acct : ∀ t, t ≠ W → plogOf σ t ++ inflight (σ.q.pc t) ++ pend (σ.pc t) = submitted σ t
  noCallW : submitted σ W = []
  grantsFree : σ.lock = none → σ.grants.flatMap expand = heldLog σ
  grantsHeld : ∀ t, σ.lock = some t →
    σ.grants.flatMap expand = heldLog σ ++ (inflight (σ.q.pc t) ++ pend (σ.pc t)).map (fun x => (t, x))
  whole : ∀ g ∈ σ.grants, ∃ c, (g.1, c) ∈ σ.calls ∧ g.2 = c.items
  acqWhole : ∀ t todo, σ.pc t = .acq todo → ∃ c, (t, c) ∈ σ.calls ∧ todo = c.items

theorem pinv_init (n : Nat) (s0 : Sess) : PInv n (init true s0) := by
  constructor
  · exact qinv_init n
  · intro t _ _; rfl
  · rfl
  · intro cur rest h; simp [init] at h
  · simp [init, wp1, wp2, Mpmc.init]
  · rfl
  · intro t ht
    have : (init true s0).pc t = .idle := by simp [init, ht]
    rw [this]; simp [plogOf, init, submitted, inflight, Mpmc.init, pend]
  · simp [submitted, init]
  · intro _; rfl
  · intro t h; simp [init] at h
  · intro g hg; simp [init] at hg
  · intro t todo h
    simp only [init] at h; split at h <;> cases h

theorem lin_le_plog {n : Nat} {σ : State} (inv : PInv n σ) : σ.lin.length ≤ σ.plog.length := by
  have := congrArg List.length inv.linOk
  simp only [List.length_map, List.length_take] at this
  omega

/-- the holder of the lock in the pipelined model is a sender inside `write_batch` -/
theorem holder_push {σ : State} (linv : LInv true σ) {t : Tid} (h : σ.lock = some t) : t ≠ W ∧ ∃ todo, σ.pc t = .push todo true := by
  have h1 := linv.held t h
  have h2 := linv.pcOk t
  cases hp : σ.pc t <;> rw [hp] at h1 h2 <;> simp [holds] at h1
  · simp [PcOk] at h2
  · next todo held => subst h1; exact ⟨h2.2, todo, rfl⟩

theorem pinv_call {n : Nat} {σ : State} (linv : LInv true σ) (inv : PInv n σ) (t : Tid) (c : Call) (h : σ.pc t = .idle) :
    PInv n (call true σ t c) := by
  have htw : t ≠ W := by have := linv.pcOk t; rw [h] at this; exact this rfl
  have hqt : σ.q.pc t = .idle := inv.qidle t (by rw [h]; intro _ _ e; cases e) (by rw [h]; intro e; cases e)
  have hnot : ∀ u, σ.lock = some u → u ≠ t := by
    intro u hu e; subst e
    obtain ⟨_, todo, hp⟩ := holder_push linv hu; rw [h] at hp; cases hp
  have hpcW : (call true σ t c).pc W = σ.pc W := by simp [call, upd_other _ _ (fun e => htw e.symm)]
  constructor
  · exact inv.qi
  · intro u h1 h2
    by_cases hu : u = t
    · subst hu; exact hqt
    · simp only [call, upd_other _ _ hu] at h1 h2; exact inv.qidle u h1 h2
  · exact inv.plogOk
  · intro cur rest hc; rw [hpcW] at hc; exact inv.wCur cur rest hc
  · rw [hpcW]; exact inv.wlen
  · exact inv.linOk
  · intro u huw
    by_cases hu : u = t
    · subst hu
      rw [submitted_call_self]
      have := inv.acct u huw
      rw [h, hqt] at this; simp only [pend, inflight, List.append_nil] at this
      show plogOf σ u ++ inflight (σ.q.pc u) ++ pend (upd σ.pc u (startPC true c) u) = _
      rw [upd_same, pend_startPC, hqt, ← this]; simp [inflight]
    · rw [submitted_call_other _ _ _ hu]
      show plogOf σ u ++ inflight (σ.q.pc u) ++ pend (upd σ.pc t (startPC true c) u) = _
      rw [upd_other _ _ hu]; exact inv.acct u huw
  · rw [submitted_call_other _ _ _ (fun e => htw e.symm)]; exact inv.noCallW
  · exact inv.grantsFree
  · intro u hu
    show σ.grants.flatMap expand = heldLog σ ++ (inflight (σ.q.pc u) ++ pend (upd σ.pc t (startPC true c) u)).map _
    rw [upd_other _ _ (hnot u hu)]; exact inv.grantsHeld u hu
  · intro g hg
    obtain ⟨c', h1, h2⟩ := inv.whole g hg
    exact ⟨c', List.mem_append_left _ h1, h2⟩
  · intro u todo hu
    by_cases hut : u = t
    · subst hut
      simp only [call, upd_same] at hu
      refine ⟨c, by simp [call], ?_⟩
      have := pend_startPC true c; rw [hu] at this; exact this
    · simp only [call, upd_other _ _ hut] at hu
      obtain ⟨c', h1, h2⟩ := inv.acqWhole u todo hu
      exact ⟨c', List.mem_append_left _ h1, h2⟩

end Fix8Model.Conc.Writer
