import Fix8Model.Conc.LoggerLemmas
/-! Progress: from every reachable state `stop()` can run to completion (the fixed writer loop has no exit but the
empty element, so this is what shows that it cannot be left waiting for ever once the producers' pending pushes
complete). -/
namespace Fix8Model.Conc.Logger

/-- once `stop()`'s `enqueue` has returned its element is complete -/
def StopDone (s : State) : Prop :=
  (s.spc = .pushed ∨ s.spc = .joined) → ∀ sl ∈ s.queue, sl.line.isStop = true → sl.done = true

theorem stopDone_step {V : Variant} {c : Cfg} {s s' : State} (st : Step V c s s') (h : StopDone s) : StopDone s' := by
  cases st with
  | submit p lev val text viaSend ok =>
    unfold submit
    split
    · exact h
    · split
      · split
        all_goals
          intro hp sl hsl hs
          simp only [List.mem_append, List.mem_singleton] at hsl
          rcases hsl with hsl | hsl
          · exact h hp sl hsl hs
          · rw [hsl] at hs; simp [mkLine] at hs
      · exact h
  | pushDone i l hq hs =>
    intro hp sl hsl hst
    rcases List.mem_or_eq_of_mem_set hsl with hm | he
    · exact h hp sl hm hst
    · rw [he]
  | cHead hp => exact h
  | cPopSome l q hp hq =>
    intro hpp sl hsl hst
    exact h hpp sl (by rw [hq]; exact List.mem_cons_of_mem _ hsl) hst
  | cPopNone hp hq => exact h
  | cGot l hp =>
    unfold cGot processLine
    (repeat' split) <;> exact h
  | stFlag hp => intro hpp; simp [stFlag] at hpp
  | stTicket hp => intro hpp; simp [stTicket] at hpp
  | stDone hp =>
    intro _ sl hsl hst
    simp only [stDone, List.mem_map] at hsl
    obtain ⟨a, _, e⟩ := hsl
    split at e
    · rw [← e]
    · next hn => rw [← e] at hst; exact absurd hst hn
  | stJoin hp he =>
    intro _ sl hsl hst
    exact h (Or.inl hp) sl hsl hst

theorem stopDone_reach {V : Variant} {c : Cfg} {s : State} (h : Reach V c s) : StopDone s := by
  induction h with
  | init => intro _ sl hsl; cases hsl
  | step _ st ih => exact stopDone_step st ih

/-! ### phase 1: the thread in `stop()` gets as far as the join -/

theorem stopper_to_pushed (V : Variant) (c : Cfg) (s : State) (h : s.spc ≠ .joined) :
    ∃ s', Steps V c s s' ∧ s'.spc = .pushed ∧ s'.cpc = s.cpc := by
  have p3 : ∀ t : State, t.spc = .pushing → ∃ s', Steps V c t s' ∧ s'.spc = .pushed ∧ s'.cpc = t.cpc :=
    fun t ht => ⟨stDone t, .tail (.refl t) (.stDone t ht), rfl, rfl⟩
  have p2 : ∀ t : State, t.spc = .flagged → ∃ s', Steps V c t s' ∧ s'.spc = .pushed ∧ s'.cpc = t.cpc := by
    intro t ht
    obtain ⟨s', st, e1, e2⟩ := p3 (stTicket t) rfl
    exact ⟨s', Steps.trans (.tail (.refl t) (.stTicket t ht)) st, e1, e2⟩
  cases hs : s.spc with
  | idle =>
    obtain ⟨s', st, e1, e2⟩ := p2 (stFlag s) rfl
    exact ⟨s', Steps.trans (.tail (.refl s) (.stFlag s hs)) st, e1, e2⟩
  | flagged => exact p2 s hs
  | pushing => exact p3 s hs
  | pushed => exact ⟨s, .refl s, hs, rfl⟩
  | joined => exact absurd hs h

/-! ### phase 2: the producers' pending pushes complete -/

def SettledUpTo (k : Nat) (s : State) : Prop :=
  ∀ i, i < k → ∀ sl, s.queue[i]? = some sl → sl.done = true ∨ sl.line.isStop = true

theorem complete_pushes (V : Variant) (c : Cfg) : ∀ (m : Nat) (s : State) (k : Nat), s.queue.length - k = m → SettledUpTo k s →
    ∃ s', Steps V c s s' ∧ s'.spc = s.spc ∧ s'.cpc = s.cpc ∧ SettledUpTo s'.queue.length s' := by
  intro m
  induction m with
  | zero =>
    intro s k hk hset
    refine ⟨s, .refl s, rfl, rfl, ?_⟩
    intro i hi sl hsl
    exact hset i (by omega) sl hsl
  | succ m ih =>
    intro s k hk hset
    have hlt : k < s.queue.length := by omega
    cases hq : s.queue[k]? with
    | none => rw [List.getElem?_eq_none_iff] at hq; omega
    | some sl =>
      by_cases hsettled : sl.done = true ∨ sl.line.isStop = true
      · apply ih s (k + 1) (by omega)
        intro i hi sl' hsl'
        by_cases hik : i = k
        · rw [hik, hq] at hsl'; cases hsl'; exact hsettled
        · exact hset i (by omega) sl' hsl'
      · have hd : sl.done = false := by
          cases hdd : sl.done with
          | false => rfl
          | true => exact absurd (Or.inl hdd) hsettled
        have hs : sl.line.isStop = false := by
          cases hss : sl.line.isStop with
          | false => rfl
          | true => exact absurd (Or.inr hss) hsettled
        have hq' : s.queue[k]? = some ⟨sl.line, false⟩ := by rw [hq, ← hd]
        have st : Step V c s (pushDone V k sl.line s) := .pushDone s k sl.line hq' hs
        have hlen : (pushDone V k sl.line s).queue.length = s.queue.length := by simp [pushDone]
        obtain ⟨s', sts, e1, e2, e3⟩ := ih (pushDone V k sl.line s) (k + 1) (by rw [hlen]; omega) (by
          intro i hi sl' hsl'
          simp only [pushDone, List.getElem?_set] at hsl'
          by_cases hik : k = i
          · rw [if_pos hik, if_pos hlt] at hsl'; cases hsl'; exact Or.inl rfl
          · rw [if_neg hik] at hsl'; exact hset i (by omega) sl' hsl')
        exact ⟨s', Steps.trans (.tail (.refl s) st) sts, e1, e2, e3⟩

/-! ### phase 3: the writer thread runs until it leaves its loop -/

theorem processLine_fields (c : Cfg) (l : Line) (s : State) :
    (processLine c l s).queue = s.queue ∧ (processLine c l s).spc = s.spc ∧ (processLine c l s).cpc = .head := by
  unfold processLine
  (repeat' split) <;> exact ⟨rfl, rfl, rfl⟩

theorem drain_head (V : Variant) (c : Cfg) : ∀ (n : Nat) (s : State), s.queue.length = n → (∀ sl ∈ s.queue, sl.done = true) →
    s.spc = .pushed → s.cpc = .head → stopLine ∈ qlines s → ∃ s', Steps V c s s' ∧ s'.spc = .pushed ∧ s'.cpc = .exited := by
  intro n
  induction n with
  | zero =>
    intro s hn _ _ _ hm
    have : s.queue = [] := List.eq_nil_of_length_eq_zero hn
    simp [qlines, this] at hm
  | succ n ih =>
    intro s hn hdone hsp hcp hm
    have st1 : Step V c s (cHead V s) := .cHead s hcp
    by_cases hcond : (V.drain || !s.stopping) = true
    · have hc1 : (cHead V s).cpc = .pop := by simp only [cHead]; rw [if_pos hcond]
      cases hq : s.queue with
      | nil => rw [hq] at hn; cases hn
      | cons sl q =>
        have hsld : sl.done = true := hdone sl (by rw [hq]; simp)
        have hq1 : (cHead V s).queue = ⟨sl.line, true⟩ :: q := by
          show s.queue = _
          rw [hq, ← hsld]
        have st2 : Step V c (cHead V s) (cPopSome sl.line q (cHead V s)) := .cPopSome _ sl.line q hc1 hq1
        have st3 : Step V c (cPopSome sl.line q (cHead V s)) (cGot c sl.line (cPopSome sl.line q (cHead V s))) :=
          .cGot _ sl.line rfl
        have pre : Steps V c s (cGot c sl.line (cPopSome sl.line q (cHead V s))) :=
          .tail (.tail (.tail (.refl s) st1) st2) st3
        by_cases he : sl.line.text = []
        · refine ⟨_, pre, ?_, ?_⟩
          · unfold cGot; rw [if_pos he]; exact hsp
          · unfold cGot; rw [if_pos he]
        · have hg : cGot c sl.line (cPopSome sl.line q (cHead V s)) = processLine c sl.line (cPopSome sl.line q (cHead V s)) := by
            unfold cGot; rw [if_neg he]
          obtain ⟨f1, f2, f3⟩ := processLine_fields c sl.line (cPopSome sl.line q (cHead V s))
          have hmq : stopLine ∈ q.map (·.line) := by
            simp only [qlines, hq, List.map_cons, List.mem_cons] at hm
            rcases hm with hm | hm
            · rw [← hm] at he; exact absurd rfl he
            · exact hm
          obtain ⟨s', sts, e1, e2⟩ := ih (processLine c sl.line (cPopSome sl.line q (cHead V s)))
            (by rw [f1]; show q.length = n; rw [hq] at hn; simpa using hn)
            (by rw [f1]; intro x hx; exact hdone x (by rw [hq]; exact List.mem_cons_of_mem _ hx))
            (by rw [f2]; exact hsp) f3 (by unfold qlines; rw [f1]; exact hmq)
          exact ⟨s', Steps.trans (hg ▸ pre) sts, e1, e2⟩
    · refine ⟨cHead V s, .tail (.refl s) st1, hsp, ?_⟩
      simp only [cHead]; rw [if_neg hcond]

theorem drain_got (V : Variant) (c : Cfg) (s : State) (l : Line) (hdone : ∀ sl ∈ s.queue, sl.done = true)
    (hsp : s.spc = .pushed) (hcp : s.cpc = .got l) (hm : stopLine ∈ l :: qlines s) :
    ∃ s', Steps V c s s' ∧ s'.spc = .pushed ∧ s'.cpc = .exited := by
  have st : Step V c s (cGot c l s) := .cGot s l hcp
  by_cases he : l.text = []
  · refine ⟨_, .tail (.refl s) st, ?_, ?_⟩
    · unfold cGot; rw [if_pos he]; exact hsp
    · unfold cGot; rw [if_pos he]
  · have hg : cGot c l s = processLine c l s := by unfold cGot; rw [if_neg he]
    obtain ⟨f1, f2, f3⟩ := processLine_fields c l s
    have hmq : stopLine ∈ qlines s := by
      simp only [List.mem_cons] at hm
      rcases hm with hm | hm
      · rw [← hm] at he; exact absurd rfl he
      · exact hm
    obtain ⟨s', sts, e1, e2⟩ := drain_head V c _ (processLine c l s) rfl (by rw [f1]; exact hdone) (by rw [f2]; exact hsp) f3
      (by unfold qlines; rw [f1]; exact hmq)
    exact ⟨s', Steps.trans (hg ▸ .tail (.refl s) st) sts, e1, e2⟩

theorem drain_any (V : Variant) (c : Cfg) (s : State) (hdone : ∀ sl ∈ s.queue, sl.done = true)
    (hsp : s.spc = .pushed) (hm : s.cpc = .exited ∨ stopLine ∈ hand s.cpc ++ qlines s) :
    ∃ s', Steps V c s s' ∧ s'.spc = .pushed ∧ s'.cpc = .exited := by
  cases hc : s.cpc with
  | exited => exact ⟨s, .refl s, hsp, hc⟩
  | head =>
    rcases hm with hm | hm
    · rw [hc] at hm; cases hm
    · rw [hc] at hm; exact drain_head V c _ s rfl hdone hsp hc (by simpa [hand] using hm)
  | got l =>
    rcases hm with hm | hm
    · rw [hc] at hm; cases hm
    · rw [hc] at hm; exact drain_got V c s l hdone hsp hc (by simpa [hand] using hm)
  | pop =>
    rcases hm with hm | hm
    · rw [hc] at hm; cases hm
    · rw [hc] at hm
      have hm' : stopLine ∈ qlines s := by simpa [hand] using hm
      cases hq : s.queue with
      | nil => simp [qlines, hq] at hm'
      | cons sl q =>
        have hsld : sl.done = true := hdone sl (by rw [hq]; simp)
        have hq1 : s.queue = ⟨sl.line, true⟩ :: q := by rw [hq, ← hsld]
        have st : Step V c s (cPopSome sl.line q s) := .cPopSome s sl.line q hc hq1
        obtain ⟨s', sts, e1, e2⟩ := drain_got V c (cPopSome sl.line q s) sl.line
          (fun x hx => hdone x (by rw [hq]; exact List.mem_cons_of_mem _ hx)) hsp rfl
          (by simpa [qlines, hq, cPopSome] using hm')
        exact ⟨s', Steps.trans (.tail (.refl s) st) sts, e1, e2⟩

/-- while `stop()` waits in the join and the writer thread has not left its loop, the empty element is still ahead of it -/
theorem stop_element_ahead {V : Variant} {c : Cfg} {s : State} (h : Reach V c s) (hsp : s.spc = .pushed) :
    s.cpc = .exited ∨ stopLine ∈ hand s.cpc ++ qlines s := by
  have a := invA_reach h
  by_cases he : s.cpc = .exited
  · exact Or.inl he
  · right
    have hd : s.dropped = [] := by
      cases hdd : s.dropped with
      | nil => rfl
      | cons x xs => exact absurd (a.a3 (by rw [hdd]; simp)) he
    have ht : stopLine ∈ s.tickets := by
      unfold State.tickets; rw [hsp]; simp [SPc.ticketed]
    rw [a.a1, a.a2, hd] at ht
    simp only [List.append_nil, List.mem_append] at ht ⊢
    rcases ht with (ht | ht) | ht
    · obtain ⟨w, hw, e⟩ := List.mem_map.mp ht
      have := a.a4 w hw
      rw [e] at this; exact absurd rfl this
    · exact Or.inl ht
    · exact Or.inr ht

/-- from every reachable state there is a continuation in which `stop()` returns -/
theorem stop_can_return (V : Variant) (c : Cfg) (s : State) (h : Reach V c s) :
    ∃ s', Steps V c s s' ∧ s'.spc = .joined := by
  by_cases hj : s.spc = .joined
  · exact ⟨s, .refl s, hj⟩
  · obtain ⟨s1, st1, hp1, _⟩ := stopper_to_pushed V c s hj
    obtain ⟨s2, st2, hp2, _, hset⟩ := complete_pushes V c _ s1 0 rfl (fun i hi => by omega)
    have r2 : Reach V c s2 := (h.steps st1).steps st2
    have hsp2 : s2.spc = .pushed := by rw [hp2, hp1]
    have hdone : ∀ sl ∈ s2.queue, sl.done = true := by
      intro sl hsl
      obtain ⟨i, hi⟩ := List.mem_iff_getElem?.mp hsl
      have hlt : i < s2.queue.length := by
        rcases Nat.lt_or_ge i s2.queue.length with hlt | hge
        · exact hlt
        · rw [List.getElem?_eq_none_iff.mpr hge] at hi; cases hi
      rcases hset i hlt sl hi with hd | hs
      · exact hd
      · exact stopDone_reach r2 (Or.inl hsp2) sl hsl hs
    obtain ⟨s3, st3, hp3, he3⟩ := drain_any V c s2 hdone hsp2 (stop_element_ahead r2 hsp2)
    exact ⟨stJoin s3, .tail (Steps.trans (Steps.trans st1 st2) st3) (.stJoin s3 hp3 he3), rfl⟩

end Fix8Model.Conc.Logger
