/-!
Bytes, character classes and the `std::istream` fragment used by the XML parser (`runtime/xml.cpp`).
A byte is a `Nat` (`0..255`); strings are `List Nat`.
-/
namespace Fix8Model.Xml

abbrev Bytes := List Nat

/-- `isspace` in the "C" locale (the harness runs with `LC_ALL=C`; bytes >= 128 are not spaces) -/
def isSpace (c : Nat) : Bool := c == 32 || (9 ≤ c && c ≤ 13)

def isLower (c : Nat) : Bool := 97 ≤ c && c ≤ 122
def isDigit (c : Nat) : Bool := 48 ≤ c && c ≤ 57
def isDig14 (c : Nat) : Bool := 49 ≤ c && c ≤ 52
def isHex (c : Nat) : Bool := isDigit c || (65 ≤ c && c ≤ 70) || (97 ≤ c && c ≤ 102)

/-- lexicographic `<` on unsigned bytes (`std::string::compare`) -/
def bytesLt : Bytes → Bytes → Bool
  | [], [] => false
  | [], _ :: _ => true
  | _ :: _, [] => false
  | a :: as, b :: bs => if a < b then true else if b < a then false else bytesLt as bs

/-- the stream: remaining bytes plus `eofbit` and `failbit` (an `std::istringstream`) -/
structure Stream where
  rest : Bytes
  eof : Bool := false
  fail : Bool := false
  deriving Repr, DecidableEq

namespace Stream
def good (s : Stream) : Bool := !s.eof && !s.fail

/-- `is >> noskipws >> c`: on a good stream. At the end of the data both `eofbit` and `failbit`
are set and `c` is left untouched (`none`). -/
def get (s : Stream) : Option Nat × Stream :=
  match s.rest with
  | c :: r => (some c, { s with rest := r })
  | [] => (none, { s with eof := true, fail := true })

/-- `is.peek()`: `none` = `EOF`.  On a stream that is not good the sentry fails (failbit). -/
def peek (s : Stream) : Option Nat × Stream :=
  if s.good then
    match s.rest with
    | c :: _ => (some c, s)
    | [] => (none, { s with eof := true })
  else (none, { s with fail := true })

/-- `is.putback(c)` of the byte just read: clears `eofbit`; with `failbit` set nothing is put back -/
def putback (s : Stream) (c : Nat) : Stream :=
  if s.fail then { s with eof := false } else { s with rest := c :: s.rest, eof := false }
end Stream

end Fix8Model.Xml
