import Fix8Model.Xml.ParseLemmas
import Fix8Model.Xml.AttrsLemmas
/-! `parse (print t) = t`: the state machine run over the printed form of a well-formed tree -/
set_option linter.unusedSimpArgs false
set_option linter.unusedVariables false
namespace Fix8Model.Xml

/-! ### well-formed trees (the domain of the round-trip statement) -/

def tagCharOK (c : Nat) : Bool :=
  33 ≤ c && c ≤ 126 && c != 61 && c != 92 && c != 34 && c != 39 && c != 62 && c != 47 && c != 60

/-- tag: printable, no white space, none of `= \ " ' > / <`, not starting with `?` or `!`, not `xi:include` -/
def tagOK (t : Bytes) : Bool :=
  match t with
  | [] => false
  | c :: _ => c != 63 && c != 33 && t.all tagCharOK && t != xiInclude

def printable (c : Nat) : Bool := 32 ≤ c && c ≤ 126

/-- text / attribute value: printable bytes, outside the double-decoding class -/
def textOK (v : Bytes) : Bool := v.all printable && (findNamed v).isNone && (findNum v).isNone

/-- attribute name: printable, no white space, none of `= " ' \ >`, not starting with `/`, not `docpath` -/
def attrNameOK (k : Bytes) : Bool :=
  match k with
  | [] => false
  | c :: _ => c != 47 && k.all (fun x => nameChar x && printable x && x != 62) && k != docpath

def valueOK : Option Bytes → Bool
  | none => true
  | some v => textOK v && !isBlank v

/-- ordered by key (the `std::map`), names and values well formed -/
def attrsOK : Attrs → Bool
  | [] => true
  | (k, v) :: m => attrNameOK k && textOK v && m.all (fun b => bytesLt k b.1) && attrsOK m

mutual
def wfElem : Elem → Bool
  | ⟨tag, attrs, value, decl, ch⟩ => tagOK tag && attrsOK attrs && valueOK value && decl.isNone && wfList ch
def wfList : List Elem → Bool
  | [] => true
  | e :: es => wfElem e && wfList es
end

mutual
/-- nesting below the element: 0 for a leaf -/
def height : Elem → Nat
  | ⟨_, _, _, _, ch⟩ => heightList ch
def heightList : List Elem → Nat
  | [] => 0
  | e :: es => max (height e + 1) (heightList es)
end

/-! ### single iterations on a good stream -/

/-- a stream with both state bits clear -/
def S (r : Bytes) : Stream := { rest := r }

/-- frames that occur while a printed element is read (no declaration) -/
def F (st : PState) (t ct v a tag : Bytes) (val : Option Bytes) (ch : List Elem) : Frame :=
  { state := st, tmpotag := t, tmpctag := ct, tmpval := v, tmpattr := a, tag := tag, value := val, children := ch }

theorem F_init : ({} : Frame) = F .olb [] [] [] [] [] none [] := rfl

def RunAll (d : Nat) (fr : Frame) (s : Stream) (r : Except XErr (Frame × Stream)) : Prop := ∀ lc, Run d lc fr s r

theorem RunAll.cont (d : Nat) (fr fr' : Frame) (c : Nat) (r r' : Bytes) (res)
    (hs : ∀ lc, step d lc fr (S (c :: r)) = .cont c fr' (S r')) (h : RunAll d fr' (S r') res) : RunAll d fr (S (c :: r)) res :=
  fun lc => Run.cont d lc fr _ c fr' _ res (hs lc) (h c)

theorem tagCharOK_facts (c : Nat) (h : tagCharOK c = true) :
    c ≠ 10 ∧ c ≠ 13 ∧ c ≠ 62 ∧ c ≠ 47 ∧ c ≠ 60 ∧ c ≠ 61 ∧ c ≠ 92 ∧ c ≠ 34 ∧ c ≠ 39 ∧ isSpace c = false := by
  simp [tagCharOK] at h
  refine ⟨by omega, by omega, by omega, by omega, by omega, by omega, by omega, by omega, by omega, ?_⟩
  simp [isSpace]; omega

theorem step_olb (d lc : Nat) (r : Bytes) :
    step d lc (F .olb [] [] [] [] [] none []) (S (60 :: r)) = .cont 60 (F .otag [] [] [] [] [] none []) (S r) := by
  simp [step, S, F, Stream.good, Stream.get, needsPeek, trans]

theorem step_otag_char (d lc : Nat) (t r : Bytes) (c : Nat) (hc : tagCharOK c = true) (h1 : t ≠ [] ∨ (c ≠ 63 ∧ c ≠ 33)) :
    step d lc (F .otag t [] [] [] [] none []) (S (c :: r)) = .cont c (F .otag (t ++ [c]) [] [] [] [] none []) (S r) := by
  obtain ⟨h10, h13, h62, h47, h60, h61, h92, h34, h39, hsp⟩ := tagCharOK_facts c hc
  have e1 : ¬ (c = 63 ∧ t = []) := by rintro ⟨a, b⟩; rcases h1 with h | h; exact h b; exact h.1 a
  have e2 : ¬ (c = 33 ∧ t = []) := by rintro ⟨a, b⟩; rcases h1 with h | h; exact h b; exact h.2 a
  simp [step, S, F, Stream.good, Stream.get, needsPeek, trans, h10, h13, h62, h47, h61, h92, h34, h39, hsp, e1, e2]

/-- the tag name accumulates in `tmpotag` -/
theorem run_otag_chars (d : Nat) (r : Bytes) (res) : ∀ (cs t : Bytes), (∀ c ∈ cs, tagCharOK c = true) →
    (t ≠ [] ∨ ∀ c r', cs = c :: r' → c ≠ 63 ∧ c ≠ 33) →
    RunAll d (F .otag (t ++ cs) [] [] [] [] none []) (S r) res → RunAll d (F .otag t [] [] [] [] none []) (S (cs ++ r)) res
  | [], t, _, _, h => by simpa using h
  | c :: cs, t, hc, h1, h => by
    have hcc := hc c (by simp)
    have h1' : t ≠ [] ∨ (c ≠ 63 ∧ c ≠ 33) := h1.imp id (fun f => f c cs rfl)
    apply RunAll.cont d _ _ c _ _ res (fun lc => step_otag_char d lc t (cs ++ r) c hcc h1')
    apply run_otag_chars d r res cs (t ++ [c]) (fun x hx => hc x (by simp [hx])) (Or.inl (by simp))
    simpa using h

theorem step_otag_space (d lc : Nat) (t r : Bytes) (ht : t ≠ []) :
    step d lc (F .otag t [] [] [] [] none []) (S (32 :: r)) = .cont 32 (F .oattr t [] [] [] [] none []) (S r) := by
  simp [step, S, F, Stream.good, Stream.get, needsPeek, trans, isSpace, ht]

theorem step_otag_gt (d lc : Nat) (t r : Bytes) :
    step d lc (F .otag t [] [] [] [] none []) (S (62 :: r)) = .cont 62 (F .value t [] [] [] [] none []) (S r) := by
  simp [step, S, F, Stream.good, Stream.get, needsPeek, trans]

theorem step_oattr_gt (d lc : Nat) (t a r : Bytes) :
    step d lc (F .oattr t [] [] a [] none []) (S (62 :: r)) = .cont 62 (F .value t [] [] a [] none []) (S r) := by
  simp [step, S, F, Stream.good, Stream.get, needsPeek, trans]

theorem step_otag_slash (d lc : Nat) (t r : Bytes) :
    step d lc (F .otag t [] [] [] [] none []) (S (47 :: 62 :: r)) = .cont 47 (F .ctag t t [] [] [] none []) (S (62 :: r)) := by
  simp [step, S, F, Stream.good, Stream.get, Stream.peek, needsPeek, trans]

theorem step_oattr_slash (d lc : Nat) (t a r : Bytes) :
    step d lc (F .oattr t [] [] a [] none []) (S (47 :: 62 :: r)) = .cont 47 (F .ctag t t [] a [] none []) (S (62 :: r)) := by
  simp [step, S, F, Stream.good, Stream.get, Stream.peek, needsPeek, trans]

/-- a byte of the attribute text that is not `/` -/
theorem step_oattr_plain (d lc : Nat) (t a r : Bytes) (c : Nat) (h62 : c ≠ 62) (h10 : c ≠ 10) (h13 : c ≠ 13) (h47 : c ≠ 47) :
    step d lc (F .oattr t [] [] a [] none []) (S (c :: r)) = .cont c (F .oattr t [] [] (a ++ [c]) [] none []) (S r) := by
  simp [step, S, F, Stream.good, Stream.get, needsPeek, trans, h62, h10, h13, h47]

/-- a `/` of the attribute text that is not followed by `>` -/
theorem step_oattr_slash_in (d lc : Nat) (t a r : Bytes) (p : Nat) (hp : p ≠ 62) :
    step d lc (F .oattr t [] [] a [] none []) (S (47 :: p :: r)) = .cont 47 (F .oattr t [] [] (a ++ [47]) [] none []) (S (p :: r)) := by
  simp [step, S, F, Stream.good, Stream.get, Stream.peek, needsPeek, trans, hp]

/-- the attribute text `cs ++ [q]` (no `>`, no line ends, not ending in `/`) accumulates in `tmpattr` -/
theorem run_oattr_chars (d : Nat) (t r : Bytes) (q : Nat) (res) (hq : q ≠ 62 ∧ q ≠ 10 ∧ q ≠ 13 ∧ q ≠ 47) :
    ∀ (cs a : Bytes), (∀ c ∈ cs, c ≠ 62 ∧ c ≠ 10 ∧ c ≠ 13) →
    RunAll d (F .oattr t [] [] (a ++ cs ++ [q]) [] none []) (S r) res →
    RunAll d (F .oattr t [] [] a [] none []) (S (cs ++ q :: r)) res
  | [], a, _, h => by
    apply RunAll.cont d _ _ q _ _ res (fun lc => step_oattr_plain d lc t a r q hq.1 hq.2.1 hq.2.2.1 hq.2.2.2)
    simpa using h
  | c :: cs, a, hc, h => by
    have hcc := hc c (by simp)
    have ih := run_oattr_chars d t r q res hq cs (a ++ [c]) (fun x hx => hc x (by simp [hx])) (by simpa using h)
    by_cases h47 : c = 47
    · subst h47
      -- the byte after the `/`
      cases cs with
      | nil => exact RunAll.cont d _ _ 47 _ _ res (fun lc => step_oattr_slash_in d lc t a r q hq.1) ih
      | cons p cs' =>
        have hp := (hc p (by simp)).1
        exact RunAll.cont d _ _ 47 _ _ res (fun lc => step_oattr_slash_in d lc t a (cs' ++ q :: r) p hp) ih
    · exact RunAll.cont d _ _ c _ _ res (fun lc => step_oattr_plain d lc t a (cs ++ q :: r) c hcc.1 hcc.2.1 hcc.2.2 h47) ih

theorem step_value_char (d lc : Nat) (t a v r : Bytes) (ch : List Elem) (c : Nat) (h60 : c ≠ 60) (h10 : c ≠ 10) (h13 : c ≠ 13) :
    step d lc (F .value t [] v a [] none ch) (S (c :: r)) = .cont c (F .value t [] (v ++ [c]) a [] none ch) (S r) := by
  simp [step, S, F, Stream.good, Stream.get, needsPeek, trans, h60, h10, h13]

theorem run_value_chars (d : Nat) (t a r : Bytes) (ch : List Elem) (res) : ∀ (cs v : Bytes), (∀ c ∈ cs, c ≠ 60 ∧ c ≠ 10 ∧ c ≠ 13) →
    RunAll d (F .value t [] (v ++ cs) a [] none ch) (S r) res → RunAll d (F .value t [] v a [] none ch) (S (cs ++ r)) res
  | [], v, _, h => by simpa using h
  | c :: cs, v, hc, h => by
    have hcc := hc c (by simp)
    apply RunAll.cont d _ _ c _ _ res (fun lc => step_value_char d lc t a v (cs ++ r) ch c hcc.1 hcc.2.1 hcc.2.2)
    apply run_value_chars d t a r ch res cs (v ++ [c]) (fun x hx => hc x (by simp [hx]))
    simpa using h

theorem step_value_close (d lc : Nat) (t a v r : Bytes) (ch : List Elem) :
    step d lc (F .value t [] v a [] none ch) (S (60 :: 47 :: r)) = .cont 60 (F .cls t [] v a [] none ch) (S (47 :: r)) := by
  simp [step, S, F, Stream.good, Stream.get, Stream.peek]

theorem step_cls (d lc : Nat) (t a v r : Bytes) (ch : List Elem) :
    step d lc (F .cls t [] v a [] none ch) (S (47 :: r)) = .cont 47 (F .ctag t [] v a [] none ch) (S r) := by
  simp [step, S, F, Stream.good, Stream.get, needsPeek, trans]

theorem step_ctag_char (d lc : Nat) (t ct a v r : Bytes) (ch : List Elem) (c : Nat) (hc : tagCharOK c = true) :
    step d lc (F .ctag t ct v a [] none ch) (S (c :: r)) = .cont c (F .ctag t (ct ++ [c]) v a [] none ch) (S r) := by
  obtain ⟨h10, h13, h62, h47, h60, h61, h92, h34, h39, hsp⟩ := tagCharOK_facts c hc
  simp [step, S, F, Stream.good, Stream.get, needsPeek, trans, h10, h13, h62, hsp]

theorem run_ctag_chars (d : Nat) (t a v r : Bytes) (ch : List Elem) (res) : ∀ (cs ct : Bytes), (∀ c ∈ cs, tagCharOK c = true) →
    RunAll d (F .ctag t (ct ++ cs) v a [] none ch) (S r) res → RunAll d (F .ctag t ct v a [] none ch) (S (cs ++ r)) res
  | [], ct, _, h => by simpa using h
  | c :: cs, ct, hc, h => by
    apply RunAll.cont d _ _ c _ _ res (fun lc => step_ctag_char d lc t ct a v (cs ++ r) ch c (hc c (by simp)))
    apply run_ctag_chars d t a v r ch res cs (ct ++ [c]) (fun x hx => hc x (by simp [hx]))
    simpa using h

/-- the value stored when the closing tag is complete -/
def closeValue (v : Bytes) : Option Bytes := if v ≠ [] ∧ (!isBlank v) = true then some (xlate v) else none

theorem step_ctag_gt (d lc : Nat) (t a v r : Bytes) (ch : List Elem) (hx : t ≠ xiInclude) :
    step d lc (F .ctag t t v a [] none ch) (S (62 :: r)) = .cont 62 (F .finished t t v a t (closeValue v) ch) (S r) := by
  simp [step, S, F, Stream.good, Stream.get, needsPeek, trans, hx, closeValue]

theorem run_finished (d : Nat) (fr : Frame) (s : Stream) (h : fr.state = .finished) : RunAll d fr s (.ok (fr, s)) :=
  fun lc => Run.done d lc fr s (by simp [h])

theorem step_value_child (d lc : Nat) (t a v r : Bytes) (ch : List Elem) (p : Nat) (hp : p ≠ 47) (hd : d + 1 ≤ maxDepth) :
    step d lc (F .value t [] v a [] none ch) (S (60 :: p :: r)) = .child 60 (S (60 :: p :: r)) := by
  have : ¬ (d + 1 > maxDepth) := by omega
  simp [step, S, F, Stream.good, Stream.get, Stream.peek, Stream.putback, hp, this]

/-! ### what the well-formedness predicates give -/

theorem tagOK_spec (t : Bytes) (h : tagOK t = true) :
    ∃ c t', t = c :: t' ∧ c ≠ 63 ∧ c ≠ 33 ∧ (∀ x ∈ t, tagCharOK x = true) ∧ t ≠ xiInclude := by
  unfold tagOK at h
  cases t with
  | nil => simp at h
  | cons c t' =>
    simp only [Bool.and_eq_true, bne_iff_ne, ne_eq, List.all_eq_true] at h
    exact ⟨c, t', rfl, h.1.1.1, h.1.1.2, h.1.2, h.2⟩

theorem textOK_spec (v : Bytes) (h : textOK v = true) :
    (∀ x ∈ v, 32 ≤ x ∧ x ≤ 126) ∧ findNamed v = none ∧ findNum v = none ∧ 0 ∉ v := by
  simp only [textOK, Bool.and_eq_true, List.all_eq_true, Option.isNone_iff_eq_none] at h
  have hp : ∀ x ∈ v, 32 ≤ x ∧ x ≤ 126 := by
    intro x hx
    have := h.1.1 x hx
    simpa [printable] using this
  refine ⟨hp, h.1.2, h.2, ?_⟩
  intro h0
  have := hp 0 h0
  omega

theorem escape_chars : ∀ (v : Bytes), (∀ x ∈ v, 32 ≤ x ∧ x ≤ 126) → ∀ x ∈ escape v, x ≠ 62 ∧ x ≠ 10 ∧ x ≠ 13 ∧ x ≠ 60
  | [], _, x, hx => by simp [escape] at hx
  | c :: r, hv, x, hx => by
    simp only [escape, List.mem_append] at hx
    rcases hx with hx | hx
    · by_cases hs : isSpecial c = true
      · rcases special_cases c hs with e | e | e | e | e <;> subst e <;> simp [escapeByte] at hx <;> omega
      · rw [escapeByte_not_special c (by simpa using hs)] at hx
        simp at hx; subst hx
        have := hv x (by simp)
        simp [isSpecial] at hs
        omega
    · exact escape_chars r (fun y hy => hv y (by simp [hy])) x hx

theorem attrNameOK_spec (k : Bytes) (h : attrNameOK k = true) :
    NameOK k ∧ ∀ x ∈ k, x ≠ 62 ∧ x ≠ 10 ∧ x ≠ 13 := by
  unfold attrNameOK at h
  cases k with
  | nil => simp at h
  | cons c k' =>
    simp only [Bool.and_eq_true, bne_iff_ne, ne_eq, List.all_eq_true] at h
    have hall : ∀ x ∈ c :: k', nameChar x = true ∧ printable x = true ∧ x ≠ 62 := by
      intro x hx
      have := h.1.2 x hx
      exact ⟨this.1.1, this.1.2, this.2⟩
    refine ⟨⟨h.2, c, k', rfl, h.1.1, fun x hx => (hall x hx).1⟩, ?_⟩
    intro x hx
    have := hall x hx
    have hp := this.2.1
    simp [printable] at hp
    exact ⟨this.2.2, by omega, by omega⟩

theorem attrsOK_spec : ∀ (m : Attrs), attrsOK m = true →
    m.Pairwise (fun a b => bytesLt a.1 b.1 = true) ∧ (∀ a ∈ m, NameOK a.1 ∧ ValOK a.2) ∧
    (∀ x ∈ printAttrs m, x ≠ 62 ∧ x ≠ 10 ∧ x ≠ 13)
  | [], _ => by simp [printAttrs]
  | (k, v) :: m, h => by
    simp only [attrsOK, Bool.and_eq_true, List.all_eq_true] at h
    obtain ⟨ih1, ih2, ih3⟩ := attrsOK_spec m h.2
    have hk := attrNameOK_spec k h.1.1.1
    have hv := textOK_spec v h.1.1.2
    refine ⟨List.pairwise_cons.2 ⟨fun b hb => h.1.2 b hb, ih1⟩, ?_, ?_⟩
    · intro a ha
      rcases List.mem_cons.1 ha with rfl | ha
      · exact ⟨hk.1, hv.2.2.2, hv.2.1, hv.2.2.1⟩
      · exact ih2 a ha
    · have key : ∀ x ∈ printAttr (k, v), x ≠ 62 ∧ x ≠ 10 ∧ x ≠ 13 := by
        intro x hx
        simp only [printAttr, List.mem_append] at hx
        rcases hx with ((hx | hx) | hx) | hx
        · exact hk.2 x hx
        · simp at hx; omega
        · have := escape_chars v hv.1 x hx; exact ⟨this.1, this.2.1, this.2.2.1⟩
        · simp at hx; omega
      intro x hx
      rw [printAttrs] at hx
      rcases List.mem_cons.1 hx with rfl | hx
      · omega
      · rcases List.mem_append.1 hx with hx | hx
        · exact key x hx
        · exact ih3 x hx

/-- a non-empty printed attribute list is a blank, a body and a closing quote -/
theorem printAttrs_shape : ∀ (m : Attrs), m ≠ [] → ∃ body, printAttrs m = 32 :: (body ++ [34])
  | [], h => absurd rfl h
  | a :: m, _ => by
    cases m with
    | nil => exact ⟨a.1 ++ [61, 34] ++ escape a.2, by simp [printAttrs, printAttr]⟩
    | cons b m' =>
      obtain ⟨body, hb⟩ := printAttrs_shape (b :: m') (by simp)
      exact ⟨printAttr a ++ 32 :: body, by rw [printAttrs, hb]; simp⟩

/-- `ParseAttrs` on what the element parser collected (the printed list without its leading blank) -/
theorem parseAttrs_tail (m : Attrs) (h : attrsOK m = true) : parseAttrs (printAttrs m).tail = .ok m := by
  obtain ⟨hp, hok, _⟩ := attrsOK_spec m h
  cases m with
  | nil => rfl
  | cons a m =>
    have full := parseAttrs_printAttrs (a :: m) hp hok
    have e : printAttrs (a :: m) = 32 :: (printAttrs (a :: m)).tail := by simp [printAttrs]
    rw [e] at full
    -- the leading blank is skipped in state `ews`
    unfold parseAttrs parseAttrsFrom at full ⊢
    have hne : (printAttrs (a :: m)).tail ≠ [] := by simp [printAttrs, printAttr]
    cases ht : (printAttrs (a :: m)).tail with
    | nil => exact absurd ht hne
    | cons c r =>
      rw [ht] at full
      simp only at full ⊢
      have s1 : aStep {} 32 = .ok {} := by simp [aStep, isSpace]
      rw [aLoop_cons _ _ _ _ _ s1] at full
      -- the first byte of a non-empty list replaces the stale byte
      have : aLoop {} 32 (c :: r) = aLoop {} 0 (c :: r) := by simp [aLoop]
      rw [this] at full
      exact full

/-! ### assembling the run over a printed element -/

/-- the frame when the constructor's loop ends on a printed element -/
def finalFrame (e : Elem) : Frame :=
  F .finished e.tag e.tag (printText e.value) (printAttrs e.attrs).tail e.tag e.value e.children

/-- `<tag attrs` is consumed: state `otag` without attributes, `oattr` with the attribute text collected -/
theorem run_open (d : Nat) (t : Bytes) (m : Attrs) (ht : tagOK t = true) (hm : attrsOK m = true) (tailr : Bytes) (res)
    (h : RunAll d (F (if m = [] then .otag else .oattr) t [] [] (printAttrs m).tail [] none []) (S tailr) res) :
    RunAll d {} (S (60 :: t ++ printAttrs m ++ tailr)) res := by
  obtain ⟨c, t', rfl, h63, h33, hall, _⟩ := tagOK_spec t ht
  rw [F_init]
  have e0 : (60 :: (c :: t') ++ printAttrs m ++ tailr) = 60 :: ((c :: t') ++ (printAttrs m ++ tailr)) := by simp
  rw [e0]
  apply RunAll.cont d _ _ 60 _ _ res (fun lc => step_olb d lc _)
  apply run_otag_chars d (printAttrs m ++ tailr) res (c :: t') [] hall
    (Or.inr (fun c' r' he => by injection he with h1 _; subst h1; exact ⟨h63, h33⟩))
  simp only [List.nil_append]
  cases m with
  | nil => simpa [printAttrs] using h
  | cons a m' =>
    obtain ⟨body, hb⟩ := printAttrs_shape (a :: m') (by simp)
    have hch := (attrsOK_spec (a :: m') hm).2.2
    simp only [List.cons_ne_nil, if_false, reduceCtorEq] at h
    rw [hb] at h hch ⊢
    simp only [List.tail_cons] at h
    have e1 : (32 :: (body ++ [34]) ++ tailr) = 32 :: (body ++ 34 :: tailr) := by simp
    rw [e1]
    apply RunAll.cont d _ _ 32 _ _ res (fun lc => step_otag_space d lc (c :: t') _ (by simp))
    apply run_oattr_chars d (c :: t') tailr 34 res (by decide) body [] (fun x hx => hch x (by simp [hx]))
    simpa using h

theorem isBlank_escape : ∀ v : Bytes, isBlank v = false → isBlank (escape v) = false
  | [], h => by simp [isBlank] at h
  | c :: r, h => by
    simp only [isBlank, List.all_cons, Bool.and_eq_false_iff] at h
    simp only [escape, isBlank, List.all_append, Bool.and_eq_false_iff]
    rcases h with h | h
    · left
      by_cases hs : isSpecial c = true
      · obtain ⟨tl, htl⟩ := escapeByte_special c hs
        simp [htl]
      · rw [escapeByte_not_special c (by simpa using hs)]
        simpa using h
    · right
      exact isBlank_escape r (by simpa [isBlank] using h)

theorem closeValue_printText (value : Option Bytes) (h : valueOK value = true) : closeValue (printText value) = value := by
  cases value with
  | none => simp [printText, closeValue]
  | some v =>
    simp only [valueOK, Bool.and_eq_true, Bool.not_eq_true'] at h
    have hv := textOK_spec v h.1
    have hb := isBlank_escape v h.2
    have hne : escape v ≠ [] := by
      intro he
      rw [he] at hb
      simp [isBlank] at hb
    simp [printText, closeValue, hne, hb, xlate_escape v hv.2.2.2 hv.2.1 hv.2.2.1]

theorem finishElem_finalFrame (e : Elem) (h : wfElem e = true) : finishElem (finalFrame e) = .ok e := by
  obtain ⟨tag, attrs, value, decl, ch⟩ := e
  simp only [wfElem, Bool.and_eq_true, Option.isNone_iff_eq_none] at h
  obtain ⟨⟨⟨⟨_, ha⟩, _⟩, hd⟩, _⟩ := h
  subst hd
  simp [finishElem, finalFrame, F, parseAttrs_tail attrs ha]

theorem print_head (e : Elem) (h : wfElem e = true) : ∃ p r', print e = 60 :: p :: r' ∧ p ≠ 47 := by
  obtain ⟨tag, attrs, value, decl, ch⟩ := e
  simp only [wfElem, Bool.and_eq_true] at h
  obtain ⟨c, t', rfl, _, _, hall, _⟩ := tagOK_spec tag h.1.1.1.1
  have := (tagCharOK_facts c (hall c (by simp))).2.2.2.1
  unfold print
  split
  · exact ⟨c, t' ++ (printAttrs attrs ++ [47, 62]), by simp, this⟩
  · exact ⟨c, t' ++ (printAttrs attrs ++ 62 :: (printText value ++ (printList ch ++ 60 :: 47 :: c :: (t' ++ [62])))), by simp, this⟩

theorem addChild_F (t a v : Bytes) (ch : List Elem) (e : Elem) (h : e.tag ≠ []) :
    addChild (F .value t [] v a [] none ch) e = F .value t [] v a [] none (ch ++ [e]) := by
  simp [addChild, h, F]

mutual
/-- the loop started at depth `d` in front of a printed well-formed element ends in state `finished` right behind it -/
theorem elemRun : (e : Elem) → wfElem e = true → ∀ (d : Nat) (rest : Bytes), d + height e ≤ maxDepth →
    RunAll d {} (S (print e ++ rest)) (.ok (finalFrame e, S rest))
  | ⟨tag, attrs, value, decl, ch⟩, hwf, d, rest, hd => by
    have hwf' := hwf
    simp only [wfElem, Bool.and_eq_true, Option.isNone_iff_eq_none] at hwf'
    obtain ⟨⟨⟨⟨ht, ha⟩, hv⟩, hdecl⟩, hch⟩ := hwf'
    have hx : tag ≠ xiInclude := (tagOK_spec tag ht).choose_spec.choose_spec.2.2.2.2
    have hall : ∀ x ∈ tag, tagCharOK x = true := (tagOK_spec tag ht).choose_spec.choose_spec.2.2.2.1
    simp only [height] at hd
    unfold print
    split
    · -- `<tag attrs/>`
      rename_i hleaf
      have hval : value = none := by simpa using hleaf.1
      have hkids : ch = [] := by simpa using hleaf.2
      subst hval; subst hkids
      have e0 : ([60] ++ tag ++ printAttrs attrs ++ [47, 62] ++ rest) = 60 :: tag ++ printAttrs attrs ++ (47 :: 62 :: rest) := by simp
      rw [e0]
      apply run_open d tag attrs ht ha
      have fin : RunAll d (F .finished tag tag [] (printAttrs attrs).tail tag (closeValue []) []) (S rest)
          (.ok (finalFrame ⟨tag, attrs, none, decl, []⟩, S rest)) := by
        have : finalFrame ⟨tag, attrs, none, decl, []⟩ = F .finished tag tag [] (printAttrs attrs).tail tag (closeValue []) [] := by
          simp [finalFrame, printText, closeValue]
        rw [this]
        exact run_finished d _ _ rfl
      by_cases hm : attrs = []
      · subst hm
        simp only [if_true]
        apply RunAll.cont d _ _ 47 _ _ _ (fun lc => step_otag_slash d lc tag rest)
        exact RunAll.cont d _ _ 62 _ _ _ (fun lc => step_ctag_gt d lc tag _ [] rest [] hx) fin
      · simp only [hm, if_false]
        apply RunAll.cont d _ _ 47 _ _ _ (fun lc => step_oattr_slash d lc tag _ rest)
        exact RunAll.cont d _ _ 62 _ _ _ (fun lc => step_ctag_gt d lc tag _ [] rest [] hx) fin
    · -- `<tag attrs>text children</tag>`
      have e0 : ([60] ++ tag ++ printAttrs attrs ++ [62] ++ printText value ++ printList ch ++ [60, 47] ++ tag ++ [62] ++ rest) =
          60 :: tag ++ printAttrs attrs ++ (62 :: (printText value ++ (printList ch ++ (60 :: 47 :: (tag ++ 62 :: rest))))) := by simp
      rw [e0]
      apply run_open d tag attrs ht ha
      have htext : ∀ c ∈ printText value, c ≠ 60 ∧ c ≠ 10 ∧ c ≠ 13 := by
        intro c hc
        cases value with
        | none => simp [printText] at hc
        | some v =>
          simp only [valueOK, Bool.and_eq_true] at hv
          have := escape_chars v (textOK_spec v hv.1).1 c (by simpa [printText] using hc)
          exact ⟨this.2.2.2, this.2.1, this.2.2.1⟩
      -- from state `value` with nothing collected yet
      have body : RunAll d (F .value tag [] [] (printAttrs attrs).tail [] none [])
          (S (printText value ++ (printList ch ++ (60 :: 47 :: (tag ++ 62 :: rest)))))
          (.ok (finalFrame ⟨tag, attrs, value, decl, ch⟩, S rest)) := by
        apply run_value_chars d tag _ _ [] _ (printText value) [] htext
        simp only [List.nil_append]
        have := kidsRun ch hch d tag (printAttrs attrs).tail (printText value) [] (60 :: 47 :: (tag ++ 62 :: rest))
          (.ok (finalFrame ⟨tag, attrs, value, decl, ch⟩, S rest)) hd
        apply this
        simp only [List.nil_append]
        apply RunAll.cont d _ _ 60 _ _ _ (fun lc => step_value_close d lc tag _ _ _ ch)
        apply RunAll.cont d _ _ 47 _ _ _ (fun lc => step_cls d lc tag _ _ _ ch)
        apply run_ctag_chars d tag _ _ (62 :: rest) ch _ tag [] hall
        simp only [List.nil_append]
        apply RunAll.cont d _ _ 62 _ _ _ (fun lc => step_ctag_gt d lc tag _ _ rest ch hx)
        have : finalFrame ⟨tag, attrs, value, decl, ch⟩ =
            F .finished tag tag (printText value) (printAttrs attrs).tail tag (closeValue (printText value)) ch := by
          simp [finalFrame, closeValue_printText value hv]
        rw [this]
        exact run_finished d _ _ rfl
      by_cases hm : attrs = []
      · subst hm
        simp only [if_true]
        exact RunAll.cont d _ _ 62 _ _ _ (fun lc => step_otag_gt d lc tag _) body
      · simp only [hm, if_false]
        exact RunAll.cont d _ _ 62 _ _ _ (fun lc => step_oattr_gt d lc tag _ _) body
/-- in state `value`, printed well-formed children are constructed one after the other and appended in order -/
theorem kidsRun : (es : List Elem) → wfList es = true → ∀ (d : Nat) (t a v : Bytes) (ch0 : List Elem) (rest : Bytes) (res),
    d + heightList es ≤ maxDepth →
    RunAll d (F .value t [] v a [] none (ch0 ++ es)) (S rest) res →
    RunAll d (F .value t [] v a [] none ch0) (S (printList es ++ rest)) res
  | [], _, d, t, a, v, ch0, rest, res, _, h => by simpa [printList] using h
  | e :: es, hwf, d, t, a, v, ch0, rest, res, hd, h => by
    simp only [wfList, Bool.and_eq_true] at hwf
    simp only [heightList] at hd
    have hd1 : d + 1 + height e ≤ maxDepth := by omega
    have hd2 : d + heightList es ≤ maxDepth := by omega
    obtain ⟨p, r', hp, hp47⟩ := print_head e hwf.1
    have etag : e.tag ≠ [] := by
      obtain ⟨tag, attrs, value, decl, ch⟩ := e
      have := hwf.1
      simp only [wfElem, Bool.and_eq_true] at this
      obtain ⟨c, t', rfl, _⟩ := tagOK_spec tag this.1.1.1.1
      simp
    have child := elemRun e hwf.1 (d + 1) (printList es ++ rest) hd1
    have ih := kidsRun es hwf.2 d t a v (ch0 ++ [e]) rest res hd2 (by simpa using h)
    intro lc
    have e0 : printList (e :: es) ++ rest = 60 :: p :: (r' ++ (printList es ++ rest)) := by
      simp [printList, hp]
    have e1 : print e ++ (printList es ++ rest) = 60 :: p :: (r' ++ (printList es ++ rest)) := by
      simp [hp]
    rw [e0]
    rw [e1] at child
    refine Run.child d lc _ _ 60 _ _ (finalFrame e) e res (step_value_child d lc t a v _ ch0 p hp47 (by omega)) (child 0)
      (finishElem_finalFrame e hwf.1) ?_
    rw [addChild_F t a v ch0 e etag]
    exact ih 60
end

end Fix8Model.Xml
