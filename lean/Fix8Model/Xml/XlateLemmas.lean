import Fix8Model.Xml.Print
/-! lemmas about `InplaceXlate`: decoding of escaped text, and the loops reach a fixpoint within their fuel -/
set_option linter.unusedSimpArgs false
namespace Fix8Model.Xml

def isSpecial (c : Nat) : Bool := c == 38 || c == 60 || c == 62 || c == 34 || c == 39

theorem escapeByte_not_special (c : Nat) (h : isSpecial c = false) : escapeByte c = [c] := by
  simp [isSpecial] at h
  simp [escapeByte, h]

/-- every escape sequence starts with `&` -/
theorem escapeByte_special (c : Nat) (h : isSpecial c = true) : ∃ tl, escapeByte c = 38 :: tl := by
  simp [isSpecial] at h
  rcases h with (((h | h) | h) | h) | h <;> subst h <;> simp [escapeByte]

/-- a predicate that rejects the five markup characters (all scanner classes do) -/
def Blind (P : Nat → Bool) : Prop := ∀ c, isSpecial c = true → P c = false

theorem blind_lower : Blind isLower := by
  intro c h; simp [isSpecial] at h
  rcases h with (((h | h) | h) | h) | h <;> subst h <;> decide
theorem blind_dig14 : Blind isDig14 := by
  intro c h; simp [isSpecial] at h
  rcases h with (((h | h) | h) | h) | h <;> subst h <;> decide
theorem blind_digit : Blind isDigit := by
  intro c h; simp [isSpecial] at h
  rcases h with (((h | h) | h) | h) | h <;> subst h <;> decide
theorem blind_hex : Blind isHex := by
  intro c h; simp [isSpecial] at h
  rcases h with (((h | h) | h) | h) | h <;> subst h <;> decide

theorem takeWhile_escape (P : Nat → Bool) (hP : Blind P) : ∀ t : Bytes,
    (escape t).takeWhile P = t.takeWhile P ∧
    ∃ t', (escape t).dropWhile P = escape t' ∧ t.dropWhile P = t'
  | [] => by simp [escape]
  | c :: r => by
    by_cases hs : isSpecial c = true
    · obtain ⟨tl, htl⟩ := escapeByte_special c hs
      have h38 : P 38 = false := hP 38 (by decide)
      have hc : P c = false := hP c hs
      refine ⟨by simp [escape, htl, List.takeWhile, h38, hc], c :: r, ?_, by simp [List.dropWhile, hc]⟩
      simp [escape, htl, List.dropWhile, h38]
    · have hs' : isSpecial c = false := by simpa using hs
      have ih := takeWhile_escape P hP r
      by_cases hc : P c = true
      · refine ⟨by simp [escape, escapeByte_not_special c hs', List.takeWhile, hc, ih.1], ?_⟩
        obtain ⟨t', h1, h2⟩ := ih.2
        exact ⟨t', by simp [escape, escapeByte_not_special c hs', List.dropWhile, hc, h1], by simp [List.dropWhile, hc, h2]⟩
      · have hc' : P c = false := by simpa using hc
        refine ⟨by simp [escape, escapeByte_not_special c hs', List.takeWhile, hc'], c :: r, ?_, by simp [List.dropWhile, hc']⟩
        simp [escape, escapeByte_not_special c hs', List.dropWhile, hc']

/-- scanning over `p ++ escape t` sees what scanning over `p ++ t` sees -/
theorem takeWhile_splice (P : Nat → Bool) (hP : Blind P) : ∀ (p t : Bytes),
    (p ++ escape t).takeWhile P = (p ++ t).takeWhile P ∧
    ∃ p' t', (p ++ escape t).dropWhile P = p' ++ escape t' ∧ (p ++ t).dropWhile P = p' ++ t'
  | [], t => by
    obtain ⟨h1, t', h2, h3⟩ := takeWhile_escape P hP t
    exact ⟨by simpa using h1, [], t', by simpa using h2, by simpa using h3⟩
  | c :: p, t => by
    by_cases hc : P c = true
    · obtain ⟨h1, p', t', h2, h3⟩ := takeWhile_splice P hP p t
      exact ⟨by simp [List.takeWhile, hc, h1], p', t', by simp [List.dropWhile, hc, h2], by simp [List.dropWhile, hc, h3]⟩
    · have hc' : P c = false := by simpa using hc
      exact ⟨by simp [List.takeWhile, hc'], c :: p, t, by simp [List.dropWhile, hc'], by simp [List.dropWhile, hc']⟩

theorem startsSemi_splice (p t : Bytes) : startsSemi (p ++ escape t) = startsSemi (p ++ t) := by
  cases p with
  | cons c p => simp [startsSemi]
  | nil =>
    cases t with
    | nil => rfl
    | cons c r =>
      by_cases hs : isSpecial c = true
      · obtain ⟨tl, htl⟩ := escapeByte_special c hs
        have : c ≠ 59 := by intro h; subst h; simp [isSpecial] at hs
        simp [escape, htl, startsSemi, this]
      · have hs' : isSpecial c = false := by simpa using hs
        simp [escape, escapeByte_not_special c hs', startsSemi]

theorem matchNamedAt_none_iff (r : Bytes) : matchNamedAt r = none ↔
    ¬ (2 ≤ (r.takeWhile isLower).length ∧ startsSemi ((r.dropWhile isLower).dropWhile isDig14) = true) := by
  unfold matchNamedAt
  simp only
  split <;> simp_all

/-- no named reference appears at the start because of the escaping -/
theorem matchNamedAt_splice (p t : Bytes) (h : matchNamedAt (p ++ t) = none) : matchNamedAt (p ++ escape t) = none := by
  rw [matchNamedAt_none_iff] at h ⊢
  obtain ⟨h1, p', t', h2, h3⟩ := takeWhile_splice isLower blind_lower p t
  obtain ⟨_, p'', t'', h5, h6⟩ := takeWhile_splice isDig14 blind_dig14 p' t'
  rw [h1, h2, h5, startsSemi_splice]
  rw [h3, h6] at h
  exact h

theorem matchNumAt_none_iff (r : Bytes) : matchNumAt r = none ↔
    ¬ ((∃ r', r = 120 :: r' ∧ 1 ≤ (r'.takeWhile isHex).length ∧ startsSemi (r'.dropWhile isHex) = true) ∨
       ((∀ r', r ≠ 120 :: r') ∧ 1 ≤ (r.takeWhile isDigit).length ∧ startsSemi (r.dropWhile isDigit) = true)) := by
  unfold matchNumAt
  split
  · simp only
    split <;> simp_all
  · rename_i hne
    have hx : ¬ ∃ r', r = 120 :: r' := fun ⟨r', h⟩ => hne r' h
    simp only
    split <;> simp_all

/-- the entity name written for a markup character -/
def entName (c : Nat) : Bytes :=
  if c = 38 then [97, 109, 112] else if c = 60 then [108, 116] else if c = 62 then [103, 116]
  else if c = 34 then [113, 117, 111, 116] else [97, 112, 111, 115]

theorem special_cases (c : Nat) (h : isSpecial c = true) : c = 38 ∨ c = 60 ∨ c = 62 ∨ c = 34 ∨ c = 39 := by
  simp [isSpecial] at h; omega

theorem escapeByte_entName (c : Nat) (h : isSpecial c = true) : escapeByte c = 38 :: entName c ++ [59] := by
  rcases special_cases c h with h | h | h | h | h <;> subst h <;> rfl

/-- generated fact: the five names used by the printer decode to their characters -/
theorem lookupEnt_entName (c : Nat) (h : isSpecial c = true) : lookupEnt (entName c) = c := by
  rcases special_cases c h with h | h | h | h | h <;> subst h <;> decide

theorem matchNamedAt_entName (c : Nat) (h : isSpecial c = true) (x : Bytes) :
    matchNamedAt (entName c ++ 59 :: x) = some (entName c, x) := by
  rcases special_cases c h with h | h | h | h | h <;> subst h <;>
    simp [entName, matchNamedAt, List.takeWhile, List.dropWhile, isLower, isDig14, startsSemi]

theorem findNamed_cons (c : Nat) (r : Bytes) (hc : c ≠ 0) : findNamed (c :: r) =
    match (if c = 38 then matchNamedAt r else none) with
    | some (nm, suf) => some ([], nm, suf)
    | none => match findNamed r with
      | some (pre, nm, suf) => some (c :: pre, nm, suf)
      | none => none := by
  rw [findNamed]; simp only [hc, if_false]
  generalize (if c = 38 then matchNamedAt r else none) = m
  cases m with
  | some x => obtain ⟨nm, suf⟩ := x; rfl
  | none =>
    generalize findNamed r = m2
    cases m2 with
    | some x => obtain ⟨pre, nm, suf⟩ := x; rfl
    | none => rfl

theorem findNamed_cons_none (c : Nat) (r : Bytes) (hc : c ≠ 0) (h : findNamed (c :: r) = none) :
    (c = 38 → matchNamedAt r = none) ∧ findNamed r = none := by
  rw [findNamed_cons c r hc] at h
  by_cases h38 : c = 38
  · simp only [h38, if_true] at h
    cases hm : matchNamedAt r with
    | some x => simp [hm] at h
    | none =>
      simp only [hm] at h
      cases hf : findNamed r with
      | some y => simp [hf] at h
      | none => exact ⟨fun _ => rfl, rfl⟩
  · simp only [h38, if_false] at h
    cases hf : findNamed r with
    | some y => simp [hf] at h
    | none => exact ⟨fun h => absurd h h38, rfl⟩

/-- with `p ++ c :: r` free of named references, the leftmost match in `p ++ escape (c :: r)` is the escape of `c` -/
theorem findNamed_at_escape (c : Nat) (r : Bytes) (hs : isSpecial c = true) : ∀ p : Bytes, 0 ∉ p →
    findNamed (p ++ c :: r) = none → findNamed (p ++ escape (c :: r)) = some (p, entName c, escape r)
  | [], _, _ => by
    simp only [escape, escapeByte_entName c hs, List.nil_append, List.cons_append, List.append_assoc, List.singleton_append]
    rw [findNamed_cons 38 _ (by decide)]
    simp [matchNamedAt_entName c hs]
  | d :: p, h0, hn => by
    have hd : d ≠ 0 := by intro h; subst h; simp at h0
    have h0' : 0 ∉ p := by intro h; exact h0 (by simp [h])
    have hn' := findNamed_cons_none d (p ++ c :: r) hd hn
    have ih := findNamed_at_escape c r hs p h0' hn'.2
    simp only [List.cons_append]
    rw [findNamed_cons d _ hd]
    by_cases h38 : d = 38
    · simp only [h38, if_true]
      rw [matchNamedAt_splice p (c :: r) (hn'.1 h38)]
      simp only
      rw [ih]
    · simp only [h38, if_false]
      rw [ih]

theorem xlateNamed_none (fuel : Nat) (s : Bytes) (h : findNamed s = none) : xlateNamed fuel s = s := by
  cases fuel <;> simp [xlateNamed, h]

theorem xlateNum_none (fuel : Nat) (s : Bytes) (h : findNum s = none) : xlateNum fuel s = s := by
  cases fuel <;> simp [xlateNum, h]

/-- the first loop turns `p ++ escape t` back into `p ++ t` when `p ++ t` holds no named reference -/
theorem xlateNamed_escape : ∀ (t p : Bytes) (fuel : Nat), 0 ∉ p ++ t → findNamed (p ++ t) = none → t.length < fuel →
    xlateNamed fuel (p ++ escape t) = p ++ t
  | [], p, fuel, _, hn, _ => by simpa [escape] using xlateNamed_none fuel p (by simpa using hn)
  | c :: r, p, 0, _, _, hf => by simp at hf
  | c :: r, p, fuel + 1, h0, hn, hf => by
    by_cases hs : isSpecial c = true
    · have h0p : 0 ∉ p := by intro h; exact h0 (by simp [h])
      rw [xlateNamed, findNamed_at_escape c r hs p h0p hn]
      simp only [lookupEnt_entName c hs]
      have := xlateNamed_escape r (p ++ [c]) fuel (by simpa using h0) (by simpa using hn) (by simp at hf; omega)
      simpa using this
    · have hs' : isSpecial c = false := by simpa using hs
      have := xlateNamed_escape r (p ++ [c]) (fuel + 1) (by simpa using h0) (by simpa using hn) (by simp at hf ⊢; omega)
      simpa [escape, escapeByte_not_special c hs'] using this

theorem length_escape_ge : ∀ t : Bytes, t.length ≤ (escape t).length
  | [] => by simp [escape]
  | c :: r => by
    have := length_escape_ge r
    have h1 : 1 ≤ (escapeByte c).length := by
      by_cases hs : isSpecial c = true
      · rw [escapeByte_entName c hs]; simp
      · rw [escapeByte_not_special c (by simpa using hs)]; simp
    simp [escape]; omega

/-- decoding undoes escaping on strings without NUL that contain no named and no numeric reference -/
theorem xlate_escape (s : Bytes) (h0 : 0 ∉ s) (hn : findNamed s = none) (hm : findNum s = none) : xlate (escape s) = s := by
  unfold xlate
  have h1 : xlateNamed ((escape s).length + 1) (escape s) = s := by
    have := xlateNamed_escape s [] ((escape s).length + 1) (by simpa using h0) (by simpa using hn)
      (by have := length_escape_ge s; omega)
    simpa using this
  simp only [h1]
  exact xlateNum_none _ s hm

/-! ### the loops stop because nothing is left to replace (the fuel is never the reason) -/

theorem takeDrop_length (P : Nat → Bool) (r : Bytes) : (r.takeWhile P).length + (r.dropWhile P).length = r.length := by
  rw [← List.length_append, List.takeWhile_append_dropWhile]

theorem startsSemi_length (r : Bytes) (h : startsSemi r = true) : r.tail.length + 1 = r.length := by
  cases r with
  | nil => simp [startsSemi] at h
  | cons c r => simp

theorem matchNamedAt_length (r nm suf : Bytes) (h : matchNamedAt r = some (nm, suf)) : suf.length + 3 ≤ r.length := by
  unfold matchNamedAt at h
  simp only at h
  split at h
  · rename_i hc
    simp only [Option.some.injEq, Prod.mk.injEq] at h
    have h1 := takeDrop_length isLower r
    have h2 := takeDrop_length isDig14 (r.dropWhile isLower)
    have h3 := startsSemi_length _ hc.2
    rw [← h.2]; omega
  · simp at h

theorem findNamed_length : ∀ (s pre nm suf : Bytes), findNamed s = some (pre, nm, suf) → pre.length + suf.length + 4 ≤ s.length
  | [], _, _, _, h => by simp [findNamed] at h
  | c :: r, pre, nm, suf, h => by
    by_cases hc : c = 0
    · simp [findNamed, hc] at h
    · rw [findNamed_cons c r hc] at h
      split at h
      · rename_i nm' suf' hm
        simp only [Option.some.injEq, Prod.mk.injEq] at h
        obtain ⟨rfl, rfl, rfl⟩ := h
        have hm' : matchNamedAt r = some (nm', suf') := by
          by_cases h38 : c = 38
          · simpa [h38] using hm
          · simp [h38] at hm
        have := matchNamedAt_length r nm' suf' hm'
        simp; omega
      · split at h
        · rename_i pre' nm' suf' hf
          simp only [Option.some.injEq, Prod.mk.injEq] at h
          obtain ⟨rfl, rfl, rfl⟩ := h
          have := findNamed_length r pre' nm' suf' hf
          simp; omega
        · simp at h

theorem xlateNamed_done : ∀ (fuel : Nat) (s : Bytes), s.length < fuel → findNamed (xlateNamed fuel s) = none
  | 0, _, h => by omega
  | fuel + 1, s, h => by
    rw [xlateNamed]
    cases hf : findNamed s with
    | none => simpa using hf
    | some x =>
      obtain ⟨pre, nm, suf⟩ := x
      have := findNamed_length s pre nm suf hf
      exact xlateNamed_done fuel _ (by simp; omega)

theorem matchNumAt_length (r : Bytes) (v : Nat) (suf : Bytes) (h : matchNumAt r = some (v, suf)) : suf.length + 2 ≤ r.length := by
  unfold matchNumAt at h
  split at h
  · rename_i r'
    simp only at h
    split at h
    · rename_i hc
      simp only [Option.some.injEq, Prod.mk.injEq] at h
      have h1 := takeDrop_length isHex r'
      have h3 := startsSemi_length _ hc.2
      rw [← h.2]; simp; omega
    · simp at h
  · simp only at h
    split at h
    · rename_i hc
      simp only [Option.some.injEq, Prod.mk.injEq] at h
      have h1 := takeDrop_length isDigit r
      have h3 := startsSemi_length _ hc.2
      rw [← h.2]; omega
    · simp at h

theorem numAt_length (r : Bytes) (v : Nat) (suf : Bytes) (h : numAt r = some (v, suf)) : suf.length + 3 ≤ r.length := by
  unfold numAt at h
  split at h
  · rename_i r'
    have := matchNumAt_length r' v suf h
    simp; omega
  · simp at h

theorem findNum_cons (c : Nat) (r : Bytes) (hc : c ≠ 0) : findNum (c :: r) =
    match (if c = 38 then numAt r else none) with
    | some (v, suf) => some ([], v, suf)
    | none => match findNum r with
      | some (pre, v, suf) => some (c :: pre, v, suf)
      | none => none := by
  rw [findNum]; simp only [hc, if_false]
  generalize (if c = 38 then numAt r else none) = m
  cases m with
  | some x => obtain ⟨nm, suf⟩ := x; rfl
  | none =>
    generalize findNum r = m2
    cases m2 with
    | some x => obtain ⟨pre, nm, suf⟩ := x; rfl
    | none => rfl

theorem findNum_length : ∀ (s pre : Bytes) (v : Nat) (suf : Bytes), findNum s = some (pre, v, suf) → pre.length + suf.length + 4 ≤ s.length
  | [], _, _, _, h => by simp [findNum] at h
  | c :: r, pre, v, suf, h => by
    by_cases hc : c = 0
    · simp [findNum, hc] at h
    · rw [findNum_cons c r hc] at h
      split at h
      · rename_i v' suf' hm
        simp only [Option.some.injEq, Prod.mk.injEq] at h
        obtain ⟨rfl, rfl, rfl⟩ := h
        have hm' : numAt r = some (v', suf') := by
          by_cases h38 : c = 38
          · simpa [h38] using hm
          · simp [h38] at hm
        have := numAt_length r v' suf' hm'
        simp; omega
      · split at h
        · rename_i pre' v' suf' hf
          simp only [Option.some.injEq, Prod.mk.injEq] at h
          obtain ⟨rfl, rfl, rfl⟩ := h
          have := findNum_length r pre' v' suf' hf
          simp; omega
        · simp at h

theorem numBytes_length (v : Nat) : (numBytes v).length ≤ 2 := by
  unfold numBytes; split <;> simp

theorem xlateNum_done : ∀ (fuel : Nat) (s : Bytes), s.length < fuel → findNum (xlateNum fuel s) = none
  | 0, _, h => by omega
  | fuel + 1, s, h => by
    rw [xlateNum]
    cases hf : findNum s with
    | none => simpa using hf
    | some x =>
      obtain ⟨pre, v, suf⟩ := x
      have := findNum_length s pre v suf hf
      have := numBytes_length v
      exact xlateNum_done fuel _ (by simp; omega)

/-! ### the excluded class is exactly "contains a reference" -/

theorem startsSemi_eq (r : Bytes) (h : startsSemi r = true) : r = 59 :: r.tail := by
  cases r with
  | nil => simp [startsSemi] at h
  | cons c r => simp [startsSemi] at h; simp [h]

theorem mem_takeWhile_true (P : Nat → Bool) : ∀ (l : Bytes) (c : Nat), c ∈ l.takeWhile P → P c = true
  | [], c, h => by simp at h
  | x :: l, c, h => by
    by_cases hx : P x = true
    · simp only [List.takeWhile_cons, hx, if_true, List.mem_cons] at h
      rcases h with rfl | h
      · exact hx
      · exact mem_takeWhile_true P l c h
    · simp [List.takeWhile_cons, hx] at h

theorem matchNamedAt_shape (r nm suf : Bytes) (h : matchNamedAt r = some (nm, suf)) :
    r = nm ++ 59 :: suf ∧ ∃ ls ds, nm = ls ++ ds ∧ 2 ≤ ls.length ∧ (∀ c ∈ ls, isLower c = true) ∧ (∀ c ∈ ds, isDig14 c = true) := by
  unfold matchNamedAt at h
  simp only at h
  split at h
  · rename_i hc
    simp only [Option.some.injEq, Prod.mk.injEq] at h
    obtain ⟨rfl, rfl⟩ := h
    refine ⟨?_, _, _, rfl, hc.1, fun c hcm => (mem_takeWhile_true _ _ _ hcm), fun c hcm => (mem_takeWhile_true _ _ _ hcm)⟩
    have h1 := (List.takeWhile_append_dropWhile (p := isLower) (l := r)).symm
    have h2 := (List.takeWhile_append_dropWhile (p := isDig14) (l := r.dropWhile isLower)).symm
    have h3 := startsSemi_eq _ hc.2
    rw [List.append_assoc, ← h3, ← h2, ← h1]
  · simp at h

/-- a string is outside `findNamed = none` exactly when it literally contains `&name;` before any NUL -/
theorem findNamed_shape : ∀ (s pre nm suf : Bytes), findNamed s = some (pre, nm, suf) →
    s = pre ++ 38 :: nm ++ 59 :: suf ∧ 0 ∉ pre
  | [], _, _, _, h => by simp [findNamed] at h
  | c :: r, pre, nm, suf, h => by
    by_cases hc : c = 0
    · simp [findNamed, hc] at h
    · rw [findNamed_cons c r hc] at h
      split at h
      · rename_i nm' suf' hm
        simp only [Option.some.injEq, Prod.mk.injEq] at h
        obtain ⟨rfl, rfl, rfl⟩ := h
        by_cases h38 : c = 38
        · have hm' : matchNamedAt r = some (nm', suf') := by simpa [h38] using hm
          have := (matchNamedAt_shape r nm' suf' hm').1
          subst h38
          simp [this]
        · simp [h38] at hm
      · split at h
        · rename_i pre' nm' suf' hf
          simp only [Option.some.injEq, Prod.mk.injEq] at h
          obtain ⟨rfl, rfl, rfl⟩ := h
          have ih := findNamed_shape r pre' nm' suf' hf
          refine ⟨by rw [ih.1]; simp, ?_⟩
          intro hm
          rcases List.mem_cons.1 hm with h0 | h0
          · exact hc h0.symm
          · exact ih.2 h0
        · simp at h

end Fix8Model.Xml
