import Fix8Model.Xml.Basic
import Fix8Model.Gen.XmlFacts
/-!
`XmlElement::InplaceXlate` (runtime/xml.cpp:764-821) with `noextensions` set.

The two POSIX regular expressions are re-implemented as explicit scanners:
* `rCX_ = &([a-z]{2,}[1-4]{0,});`   – `findNamed`
* `rCE_ = &#(x[A-Fa-f0-9]+|[0-9]+);` – `findNum`
Both patterns have at most one match per start position (the character classes of consecutive
pieces are disjoint), so "leftmost-longest" is "first start position that matches".
`regexec` works on `c_str()`: nothing at or after the first NUL byte is seen.
Each loop searches from the beginning of the string again after every replacement (as coded:
that is the double decoding).  Every replacement shortens the string, so `length + 1` rounds of
fuel always suffice (`xlateNamed_done`, `xlateNum_done` in XlateLemmas).
-/
namespace Fix8Model.Xml

/-- `stringtochar_.find(name)`; a name that is not in the table is replaced by `?` -/
def lookupEnt (nm : Bytes) : Nat :=
  match Gen.xmlEntities.find? (fun e => e.1 == nm) with
  | some e => e.2
  | none => 63

/-- the next byte is `;` -/
def startsSemi (r : Bytes) : Bool := r.head? == some 59

/-- `[a-z]{2,}[1-4]{0,};` at the start of `r`: (group 1, text after the `;`) -/
def matchNamedAt (r : Bytes) : Option (Bytes × Bytes) :=
  let ls := r.takeWhile isLower
  let r1 := r.dropWhile isLower
  let ds := r1.takeWhile isDig14
  let r2 := r1.dropWhile isDig14
  if 2 ≤ ls.length ∧ startsSemi r2 = true then some (ls ++ ds, r2.tail) else none

/-- leftmost match of `rCX_`: (text before `&`, group 1, text after `;`) -/
def findNamed : Bytes → Option (Bytes × Bytes × Bytes)
  | [] => none
  | c :: r =>
    if c = 0 then none
    else
      match (if c = 38 then matchNamedAt r else none) with
      | some (nm, suf) => some ([], nm, suf)
      | none =>
        match findNamed r with
        | some (pre, nm, suf) => some (c :: pre, nm, suf)
        | none => none

/-- first loop of `InplaceXlate` -/
def xlateNamed : Nat → Bytes → Bytes
  | 0, s => s
  | fuel + 1, s =>
    match findNamed s with
    | some (pre, nm, suf) => xlateNamed fuel (pre ++ lookupEnt nm :: suf)
    | none => s

def hexVal (c : Nat) : Nat :=
  if isDigit c then c - 48 else if 65 ≤ c ∧ c ≤ 70 then c - 55 else c - 87

def intMax : Nat := 2147483647

/-- `istr >> hex/dec >> int`: on overflow libstdc++ stores `INT_MAX` -/
def parseSat (base : Nat) (ds : Bytes) : Nat :=
  ds.foldl (fun acc d => min (acc * base + hexVal d) intMax) 0

/-- `(x[A-Fa-f0-9]+|[0-9]+);` at the start of `r`: (value, text after the `;`) -/
def matchNumAt (r : Bytes) : Option (Nat × Bytes) :=
  match r with
  | 120 :: r' =>
    let hs := r'.takeWhile isHex
    let r2 := r'.dropWhile isHex
    if 1 ≤ hs.length ∧ startsSemi r2 = true then some (parseSat 16 hs, r2.tail) else none
  | _ =>
    let ds := r.takeWhile isDigit
    let r2 := r.dropWhile isDigit
    if 1 ≤ ds.length ∧ startsSemi r2 = true then some (parseSat 10 ds, r2.tail) else none

/-- `#(x[A-Fa-f0-9]+|[0-9]+);` at the start of `r` -/
def numAt : Bytes → Option (Nat × Bytes)
  | 35 :: r' => matchNumAt r'
  | _ => none

/-- leftmost match of `rCE_`: (text before `&#`, value, text after `;`) -/
def findNum : Bytes → Option (Bytes × Nat × Bytes)
  | [] => none
  | c :: r =>
    if c = 0 then none
    else
      match (if c = 38 then numAt r else none) with
      | some (v, suf) => some ([], v, suf)
      | none =>
        match findNum r with
        | some (pre, v, suf) => some (c :: pre, v, suf)
        | none => none

/-- the one or two bytes written for a numeric reference -/
def numBytes (v : Nat) : Bytes :=
  if v / 256 % 256 ≠ 0 then [v / 256 % 256, v % 256] else [v % 256]

/-- second loop of `InplaceXlate` -/
def xlateNum : Nat → Bytes → Bytes
  | 0, s => s
  | fuel + 1, s =>
    match findNum s with
    | some (pre, v, suf) => xlateNum fuel (pre ++ numBytes v ++ suf)
    | none => s

/-- `InplaceXlate` with `noextensions` (no `${ENV}` / `!{cmd}` expansion) -/
def xlate (s : Bytes) : Bytes :=
  let s1 := xlateNamed (s.length + 1) s
  xlateNum (s1.length + 1) s1

end Fix8Model.Xml
