import Fix8Model.Xml.Xlate
/-!
`XmlElement::ParseAttrs` (runtime/xml.cpp:542-652) with `noextensions` set: the `/* */` attribute
comments are an extension, so with the flag set state `oc0` always takes its `else` branch and the
states `comment` / `cc0` are unreachable (they are left out).

The loop is `while (istr.good()) { char c; istr >> noskipws >> c; switch ... }`: after the last byte
the stream is still good, the extraction fails and the body runs once more with `c` holding its
previous value (the object code keeps `c` in one stack slot; formally the value is indeterminate).
The model runs that extra iteration with the last byte (`parseAttrs`).
-/
namespace Fix8Model.Xml

abbrev Attrs := List (Bytes × Bytes)

inductive XErr
  | depth | unmatched | incl | illegalChar | dupAttr | fuel
  deriving Repr, DecidableEq

/-- `std::map::insert`: ordered by key, `none` when the key exists -/
def attrInsert (k v : Bytes) : Attrs → Option Attrs
  | [] => some [(k, v)]
  | (k', v') :: r =>
    if k = k' then none
    else if bytesLt k k' then some ((k, v) :: (k', v') :: r)
    else (attrInsert k v r).map ((k', v') :: ·)

inductive AState | ews | tag | es | oq | value | oc0
  deriving Repr, DecidableEq

structure AFrame where
  state : AState := .ews
  tmptag : Bytes := []
  tmpval : Bytes := []
  comchar : Nat := 0
  attrs : Attrs := []
  deriving Repr, DecidableEq

def docpath : Bytes := [100, 111, 99, 112, 97, 116, 104]

/-- `tmptag.find_first_of("\\\'\"=") != npos` -/
def badName (n : Bytes) : Bool := n.any (fun c => c == 92 || c == 39 || c == 34 || c == 61)

/-- body of `case tag:` -/
def aTagCase (fr : AFrame) (c : Nat) : Except XErr AFrame :=
  if isSpace c then .ok { fr with state := .es }
  else if c = 61 then .ok { fr with state := .oq }
  else if c = 34 ∨ c = 39 then .error .illegalChar
  else .ok { fr with tmptag := fr.tmptag ++ [c] }

def aStep (fr : AFrame) (c : Nat) : Except XErr AFrame :=
  match fr.state with
  | .ews =>
    if c = 47 then .ok { fr with state := .oc0 }
    else if !isSpace c then .ok { fr with tmptag := fr.tmptag ++ [c], state := .tag }
    else .ok fr
  | .oc0 => aTagCase { fr with tmptag := fr.tmptag ++ [47, c], state := .tag } c   -- falls through into `case tag`
  | .tag => aTagCase fr c
  | .es =>
    if c = 61 then .ok { fr with state := .oq }
    else if c = 34 ∨ c = 39 then .error .illegalChar
    else .ok fr
  | .oq =>
    if c = 34 ∨ c = 39 then .ok { fr with comchar := c, state := .value }
    else if !isSpace c then .error .illegalChar
    else .ok fr
  | .value =>
    if c ≠ fr.comchar then .ok { fr with tmpval := fr.tmpval ++ [c] }
    else if badName fr.tmptag then .error .illegalChar
    else if fr.tmptag ≠ docpath then
      match attrInsert fr.tmptag (xlate fr.tmpval) fr.attrs with
      | some a => .ok { fr with attrs := a, tmptag := [], tmpval := [], state := .ews, comchar := 0 }
      | none => .error .dupAttr
    else .ok { fr with tmptag := [], tmpval := [], state := .ews, comchar := 0 }

/-- the loop over the bytes of the attribute string; `last` is the byte of the previous iteration -/
def aLoop (fr : AFrame) (last : Nat) : Bytes → Except XErr AFrame
  | [] => aStep fr last                      -- failed extraction: body runs with the stale byte
  | c :: r => match aStep fr c with
    | .ok fr' => aLoop fr' c r
    | .error e => .error e

/-- `ParseAttrs(attlst)` starting from the attribute map `init`; only called with a non-empty string -/
def parseAttrsFrom (init : Attrs) (s : Bytes) : Except XErr Attrs :=
  match s with
  | [] => .ok init
  | _ => (aLoop { attrs := init } 0 s).map (·.attrs)

def parseAttrs (s : Bytes) : Except XErr Attrs := parseAttrsFrom [] s

end Fix8Model.Xml
