import Fix8Model.Xml.Find
/-!
The printer used by the round-trip statements: `& < > " '` are written as the references
`&amp; &lt; &gt; &quot; &apos;`, attributes as ` name="value"`, an element without text and children as
`<tag attrs/>`, otherwise `<tag attrs>text children</tag>` (no white space is added: the parser keeps
every byte of text except `\n` and `\r`).
-/
namespace Fix8Model.Xml

def escapeByte (c : Nat) : Bytes :=
  if c = 38 then [38, 97, 109, 112, 59]
  else if c = 60 then [38, 108, 116, 59]
  else if c = 62 then [38, 103, 116, 59]
  else if c = 34 then [38, 113, 117, 111, 116, 59]
  else if c = 39 then [38, 97, 112, 111, 115, 59]
  else [c]

def escape : Bytes → Bytes
  | [] => []
  | c :: r => escapeByte c ++ escape r

def printAttr (a : Bytes × Bytes) : Bytes := a.1 ++ [61, 34] ++ escape a.2 ++ [34]

def printAttrs : Attrs → Bytes
  | [] => []
  | a :: m => 32 :: printAttr a ++ printAttrs m

def printText (v : Option Bytes) : Bytes :=
  match v with
  | some t => escape t
  | none => []

mutual
def print : Elem → Bytes
  | ⟨tag, attrs, value, _, children⟩ =>
    if value.isNone ∧ children.isEmpty then [60] ++ tag ++ printAttrs attrs ++ [47, 62]
    else [60] ++ tag ++ printAttrs attrs ++ [62] ++ printText value ++ printList children ++ [60, 47] ++ tag ++ [62]
def printList : List Elem → Bytes
  | [] => []
  | e :: es => print e ++ printList es
end

end Fix8Model.Xml
