import Fix8Model.Xml.Find
/-! lemmas relating the string-level `find` of the code to the component-level specification -/
namespace Fix8Model.Xml

mutual
/-- the tag has no path delimiter, and below it every element has a non-empty tag without delimiter -/
def tagsOK : Elem → Bool
  | ⟨tag, _, _, _, ch⟩ => !tag.contains 47 && kidsOK ch
def kidsOK : List Elem → Bool
  | [] => true
  | e :: es => !e.tag.isEmpty && tagsOK e && kidsOK es
end

theorem tagsOK_iff (e : Elem) : tagsOK e = true ↔ 47 ∉ e.tag ∧ kidsOK e.children = true := by
  cases e; simp [tagsOK]

theorem kidsOK_mem : ∀ (es : List Elem), kidsOK es = true → ∀ ch ∈ es, ch.tag ≠ [] ∧ tagsOK ch = true
  | [], _, ch, h => by cases h
  | e :: es, hk, ch, h => by
    simp [kidsOK] at hk
    rcases List.mem_cons.1 h with rfl | h'
    · exact ⟨hk.1.1, hk.1.2⟩
    · exact kidsOK_mem es hk.2 ch h'

/-- strip every leading `//` -/
def stripAll : Bytes → Bytes
  | 47 :: 47 :: r => stripAll r
  | w => w

theorem splitDelim_none : ∀ (w : Bytes), splitDelim w = none → 47 ∉ w ∧ splitPath w = [w]
  | [], _ => by simp [splitPath]
  | c :: r, h => by
    unfold splitDelim at h
    by_cases hc : c = 47
    · simp [hc] at h
    · simp only [hc, if_false] at h
      cases hr : splitDelim r with
      | some ab => simp [hr] at h
      | none =>
        have ih := splitDelim_none r hr
        refine ⟨by simp [hc, ih.1]; exact fun h => hc h.symm, ?_⟩
        simp [splitPath, hc, ih.2]

theorem splitDelim_some : ∀ (w a b : Bytes), splitDelim w = some (a, b) →
    47 ∉ a ∧ w = a ++ 47 :: b ∧ splitPath w = a :: splitPath b
  | [], a, b, h => by simp [splitDelim] at h
  | c :: r, a, b, h => by
    unfold splitDelim at h
    by_cases hc : c = 47
    · simp only [hc, if_true, Option.some.injEq, Prod.mk.injEq] at h
      obtain ⟨rfl, rfl⟩ := h
      simp [hc, splitPath]
    · simp only [hc, if_false] at h
      cases hr : splitDelim r with
      | none => simp [hr] at h
      | some ab =>
        obtain ⟨a', b'⟩ := ab
        simp only [hr, Option.some.injEq, Prod.mk.injEq] at h
        obtain ⟨rfl, rfl⟩ := h
        have ih := splitDelim_some r a' b' hr
        refine ⟨by simp [ih.1]; exact fun h => hc h.symm, by rw [ih.2.1]; simp, ?_⟩
        simp [splitPath, hc, ih.2.2]

theorem splitPath_nextComp (w : Bytes) : ∃ tl, splitPath w = nextComp w :: tl := by
  unfold nextComp
  cases h : splitDelim w with
  | none => exact ⟨[], (splitDelim_none w h).2⟩
  | some ab => obtain ⟨a, b⟩ := ab; exact ⟨splitPath b, (splitDelim_some w a b h).2.2⟩

theorem nextComp_slash (r : Bytes) : nextComp (47 :: r) = [] := by
  simp [nextComp, splitDelim]

theorem splitDelim_of_not_mem (w : Bytes) (h : 47 ∉ w) : splitDelim w = none := by
  cases hs : splitDelim w with
  | none => rfl
  | some ab =>
    obtain ⟨a, b⟩ := ab
    have := (splitDelim_some w a b hs).2.1
    rw [this] at h; simp at h

theorem allIdx_congr (F G : Nat → Elem → List Path) : ∀ (es : List Elem) (k : Nat),
    (∀ i, ∀ ch ∈ es, F i ch = G i ch) → allIdx F k es = allIdx G k es
  | [], _, _ => rfl
  | e :: es, k, h => by
    simp only [allIdx]
    rw [h k e (by simp), allIdx_congr F G es (k + 1) (fun i ch hm => h i ch (by simp [hm]))]

theorem allIdx_map (G : Nat → Elem → List Path) (m : Path → Path) : ∀ (es : List Elem) (k : Nat),
    allIdx (fun i ch => (G i ch).map m) k es = (allIdx G k es).map m
  | [], _ => rfl
  | e :: es, k => by simp only [allIdx, List.map_append, allIdx_map G m es (k + 1)]

theorem firstIdx_head (F1 : Nat → Elem → Option Path) (FA : Nat → Elem → List Path) :
    ∀ (es : List Elem) (k : Nat), (∀ i, ∀ ch ∈ es, F1 i ch = (FA i ch).head?) →
      firstIdx F1 k es = (allIdx FA k es).head?
  | [], _, _ => rfl
  | e :: es, k, h => by
    simp only [firstIdx, allIdx]
    rw [h k e (by simp)]
    cases hh : FA k e with
    | nil => simpa using firstIdx_head F1 FA es (k + 1) (fun i ch hm => h i ch (by simp [hm]))
    | cons a as => simp

/-- find-first is the first element of find-all (no hypothesis on the tree) -/
theorem findFirst_head : ∀ (f : Nat) (root cur : Elem) (p : Path) (what : Bytes) (flt : Filter),
    findFirst f root cur p what flt = (findAll f root cur p what flt).head?
  | 0, _, _, _, _, _ => rfl
  | f + 1, root, cur, p, what, flt => by
    unfold findFirst findAll
    cases stripRoot what with
    | some w => exact findFirst_head f root root [] w flt
    | none =>
      simp only
      split
      · split <;> rfl
      · split
        · rfl
        · cases splitDelim what with
          | none => rfl
          | some ab =>
            simp only
            split
            · apply firstIdx_head
              intro i ch _
              split
              · exact findFirst_head f root ch (p ++ [i]) ab.2 flt
              · rfl
            · rfl

theorem matchPaths_tag_ne (flt : Filter) (e : Elem) (c : Bytes) (cs : List Bytes) (h : e.tag ≠ c) :
    matchPaths flt e (c :: cs) = [] := by
  cases cs <;> simp [matchPaths, h]

/-- the core: a lookup that is not root based, on a tree whose tags are free of the delimiter -/
theorem findAll_spec (root : Elem) (flt : Filter) : ∀ (f : Nat) (cur : Elem) (p : Path) (what : Bytes),
    stripRoot what = none → tagsOK cur = true → what.length < f →
    findAll f root cur p what flt = (matchPaths flt cur (splitPath what)).map (p ++ ·)
  | 0, _, _, _, _, _, hf => by omega
  | f + 1, cur, p, what, hs, hok, hf => by
    have hcur := (tagsOK_iff cur).1 hok
    unfold findAll
    simp only [hs]
    by_cases hw : what = cur.tag
    · have hns := splitDelim_none what (splitDelim_of_not_mem what (hw ▸ hcur.1))
      simp only [hw, if_true]
      rw [← hw, hns.2]
      by_cases hfl : filterOK flt cur = true <;> simp [matchPaths, hw, hfl]
    · simp only [hw, if_false]
      cases hsd : splitDelim what with
      | none =>
        have hns := splitDelim_none what hsd
        rw [hns.2]
        have : cur.tag ≠ what := fun h => hw h.symm
        simp [matchPaths, this]
      | some ab =>
        obtain ⟨hd, lw⟩ := ab
        have hsome := splitDelim_some what hd lw hsd
        obtain ⟨tl, htl⟩ := splitPath_nextComp lw
        rw [hsome.2.2, htl]
        by_cases hhd : hd = cur.tag
        · have hmp : matchPaths flt cur (hd :: nextComp lw :: tl) =
              allIdx (fun i ch => (matchPaths flt ch (nextComp lw :: tl)).map (i :: ·)) 0 cur.children := by
            simp [matchPaths, hhd]
          rw [hmp]
          by_cases hce : cur.children.isEmpty = true
          · have : cur.children = [] := by simpa using hce
            simp [this, allIdx]
          · simp only [hce, hhd, if_true]
            simp only [Bool.false_eq_true, if_false]
            rw [← allIdx_map]
            apply allIdx_congr
            intro i ch hm
            have hch := kidsOK_mem cur.children hcur.2 ch hm
            by_cases ht : ch.tag = nextComp lw
            · simp only [ht, if_true]
              have hlw : stripRoot lw = none := by
                cases lw with
                | nil => rfl
                | cons c r =>
                  by_cases hc : c = 47
                  · subst hc
                    rw [nextComp_slash] at ht
                    exact absurd ht hch.1
                  · cases r <;> simp [stripRoot, hc]
              have hlen : lw.length < f := by
                have := congrArg List.length hsome.2.1
                simp at this; omega
              rw [findAll_spec root flt f ch (p ++ [i]) lw hlw hch.2 hlen, htl, List.map_map]
              apply List.map_congr_left
              intro q _
              simp
            · simp only [ht, if_false]
              rw [matchPaths_tag_ne flt ch _ _ ht]; rfl
        · have : cur.tag ≠ hd := fun h => hhd h.symm
          rw [matchPaths_tag_ne flt cur _ _ this]
          by_cases hce : cur.children.isEmpty = true <;> simp [hce, hhd]

theorem stripRoot_some (what w : Bytes) (h : stripRoot what = some w) : what = 47 :: 47 :: w := by
  unfold stripRoot at h
  split at h
  · simp at h; subst h; rfl
  · simp at h

/-- root-based lookups restart at the root with the prefix removed -/
theorem findAll_root (root cur : Elem) (p : Path) (w : Bytes) (flt : Filter) (f : Nat) :
    findAll (f + 1) root cur p (47 :: 47 :: w) flt = findAll f root root [] w flt := by
  simp [findAll, stripRoot]

theorem stripAll_length : ∀ (n : Nat) (w : Bytes), w.length ≤ n → (stripAll w).length ≤ w.length
  | 0, w, h => by
    have : w = [] := List.eq_nil_of_length_eq_zero (by omega)
    subst this; simp [stripAll]
  | n + 1, w, h => by
    unfold stripAll
    split
    · rename_i r
      have := stripAll_length n r (by simp at h; omega)
      simp; omega
    · exact Nat.le_refl _

theorem stripRoot_stripAll : ∀ (n : Nat) (w : Bytes), w.length ≤ n → stripRoot (stripAll w) = none
  | 0, w, h => by
    have : w = [] := List.eq_nil_of_length_eq_zero (by omega)
    subst this; simp [stripAll, stripRoot]
  | n + 1, w, h => by
    unfold stripAll
    split
    · rename_i r
      exact stripRoot_stripAll n r (by simp at h; omega)
    · rename_i hne
      unfold stripRoot
      split
      · rename_i r; exact absurd rfl (hne r)
      · rfl

/-- full statement for find-all with enough fuel, root based or not -/
theorem findAll_full (root : Elem) (flt : Filter) (hroot : tagsOK root = true) : ∀ (n : Nat) (f : Nat) (cur : Elem) (p : Path) (what : Bytes),
    what.length ≤ n → tagsOK cur = true → what.length < f →
    findAll f root cur p what flt =
      match stripRoot what with
      | some _ => matchPaths flt root (splitPath (stripAll what))
      | none => (matchPaths flt cur (splitPath what)).map (p ++ ·)
  | n, 0, _, _, _, _, _, hf => by omega
  | 0, f + 1, cur, p, what, hn, hok, hf => by
    have : what = [] := List.eq_nil_of_length_eq_zero (by omega)
    subst this
    simpa [stripRoot] using findAll_spec root flt (f + 1) cur p [] rfl hok hf
  | n + 1, f + 1, cur, p, what, hn, hok, hf => by
    cases hs : stripRoot what with
    | none => simpa using findAll_spec root flt (f + 1) cur p what hs hok hf
    | some w =>
      have hw := stripRoot_some what w hs
      subst hw
      rw [findAll_root]
      have hlen : w.length ≤ n := by simp at hn; omega
      have hf' : w.length < f := by simp at hf; omega
      rw [findAll_full root flt hroot n f root [] w hlen hroot hf']
      have hsa : stripAll (47 :: 47 :: w) = stripAll w := by simp [stripAll]
      simp only [hsa]
      cases hs2 : stripRoot w with
      | some w2 => rfl
      | none =>
        have : stripAll w = w := by
          unfold stripAll
          split
          · simp [stripRoot] at hs2
          · rfl
        simp [this]

end Fix8Model.Xml
