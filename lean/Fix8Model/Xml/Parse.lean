import Fix8Model.Xml.Attrs
/-!
The element parser: the `XmlElement` constructor (runtime/xml.cpp:145-520), a byte-at-a-time state
machine that recurses (`new XmlElement(...)`) for every `<` seen in state `value` that is not
followed by `/`.

Modelled as coded:
* `\n` and `\r` are dropped in every state (the `continue` at the top of the loop);
* `while (ifsptr->good() && state != finished) { char c; *ifsptr >> noskipws >> c; ...`: at the end of
  the data the extraction fails and the body runs once more with the previous value of `c`
  (parameter `lc`; for an empty document the real value is indeterminate, the model uses 0 – the only
  effects would be on `line_` and on the state of an element that is never finished);
* `peek()`/`putback()` and their effect on `eofbit`/`failbit` (`Stream`);
* the `cdata*` states exist in the switch but nothing enters `cdata0` (the test is commented out in the
  source), they are kept in `trans` as written; `ccom1` is never assigned;
* a child whose tag is empty (comment, declaration, unfinished element) is deleted by its parent;
* `MaxDepth` is checked before the child is constructed, also for a comment;
* `ParseAttrs` runs after the loop, also for an element that never finished.

Not modelled: `xi:include` – the model raises `XErr.incl` where the code either throws (no
`href`, file cannot be opened) or switches to the included file (hypothesis of the correspondence: no
included file is readable); line counting; `sequence_` numbers (children are kept in a list in
document order: `ordchildren_` is ordered by `sequence_`, which increases in document order; the
multimap `children_` keeps equal keys in insertion order).

Termination: structural recursion on a fuel argument that is decremented at every loop iteration;
`parseDoc` supplies `2 * length + 8`, which is always enough (`ParseLemmas.parseLoop_fuel_ok`).
-/
namespace Fix8Model.Xml

structure Elem where
  tag : Bytes
  attrs : Attrs
  value : Option Bytes
  decl : Option Bytes
  children : List Elem
  deriving Repr

inductive PState
  | olb | otag | ocom0 | ocom1 | comment | ccom0 | ccom1 | ccomment
  | oattr | odec | cdec | value | cls | ctag
  | cdata0 | cdata1 | cdata2 | cdata3 | cdata4 | cdata5 | cdata6 | cdata7
  | vcdata | ecdata0 | ecdata1
  | finished
  deriving Repr, DecidableEq

structure Frame where
  state : PState := .olb
  tmpotag : Bytes := []
  tmpctag : Bytes := []
  tmpval : Bytes := []
  tmpattr : Bytes := []
  tmpdec : Bytes := []
  decl : Option Bytes := none
  tag : Bytes := []
  value : Option Bytes := none
  children : List Elem := []
  deriving Repr

def xiInclude : Bytes := [120, 105, 58, 105, 110, 99, 108, 117, 100, 101]

/-- `tmpval.find_first_not_of(" \t\n\r") == npos` -/
def isBlank (s : Bytes) : Bool := s.all (fun c => c == 32 || c == 9 || c == 10 || c == 13)

/-- the places where the code calls `peek()` besides state `value` -/
def needsPeek (st : PState) (c : Nat) : Bool :=
  (st == .otag || st == .oattr) && c == 47

/-- leave a `cdataN` state on a mismatch: `state = value; tmpval += lit; tmpval += c` -/
def cdataBack (fr : Frame) (lit : Bytes) (c : Nat) : Frame :=
  { fr with state := .value, tmpval := fr.tmpval ++ lit ++ [c] }

/-- one iteration of the switch for byte `c` (`pk` = result of `peek()` where the code peeks); the
recursion case (`value`, `<` not followed by `/`) is handled by `parseLoop` -/
def trans (nested : Bool) (fr : Frame) (c : Nat) (pk : Option Nat) : Except XErr Frame :=
  match fr.state with
  | .olb => if c = 60 then .ok { fr with state := .otag } else .ok fr
  | .otag =>
    if c = 62 then .ok { fr with state := .value }
    else if c = 47 ∧ pk = some 62 then .ok { fr with state := .ctag, tmpctag := fr.tmpotag }
    else if isSpace c ∧ fr.tmpotag ≠ [] then .ok { fr with state := .oattr }
    else if c = 63 ∧ fr.tmpotag = [] then .ok { fr with state := .odec }
    else if c = 33 ∧ fr.tmpotag = [] then .ok { fr with state := .ocom0 }
    else if c = 61 ∨ c = 92 ∨ c = 34 ∨ c = 39 then .error .unmatched
    else if !isSpace c then .ok { fr with tmpotag := fr.tmpotag ++ [c] }
    else .ok fr
  | .ocom0 =>
    if c = 45 then .ok { fr with state := .ocom1 }
    else .ok { fr with tmpotag := fr.tmpotag ++ [33], state := .otag }
  | .ocom1 =>
    if c = 45 then .ok { fr with state := .comment }
    else .ok { fr with tmpotag := fr.tmpotag ++ [33, 45], state := .otag }
  | .odec =>
    if c = 63 then .ok { fr with state := .cdec, decl := if fr.tmpdec ≠ [] then some fr.tmpdec else fr.decl }
    else .ok { fr with tmpdec := fr.tmpdec ++ [c] }
  | .oattr =>
    if c = 47 ∧ pk = some 62 then .ok { fr with state := .ctag, tmpctag := fr.tmpotag }
    else if c = 62 then .ok { fr with state := .value }
    else .ok { fr with tmpattr := fr.tmpattr ++ [c] }
  | .comment => if c = 45 then .ok { fr with state := .ccom0 } else .ok fr
  | .ccom0 => if c = 45 then .ok { fr with state := .ccomment } else .ok { fr with state := .comment }
  | .ccom1 => .ok fr
  | .ccomment =>
    if c = 62 then .ok { fr with state := if nested then .finished else .olb }
    else .ok { fr with state := .comment }
  | .cdec =>
    if c = 62 then .ok { fr with state := if nested then .finished else .olb } else .ok fr
  | .cdata0 => .ok { fr with state := .cdata1 }
  | .cdata1 => if c = 91 then .ok { fr with state := .cdata2 } else .ok (cdataBack fr [33, 91] c)
  | .cdata2 => if c = 67 then .ok { fr with state := .cdata3 } else .ok (cdataBack fr [33, 91] c)
  | .cdata3 => if c = 68 then .ok { fr with state := .cdata4 } else .ok (cdataBack fr [33, 91, 67] c)
  | .cdata4 => if c = 65 then .ok { fr with state := .cdata5 } else .ok (cdataBack fr [33, 91, 67, 68] c)
  | .cdata5 => if c = 84 then .ok { fr with state := .cdata6 } else .ok (cdataBack fr [33, 91, 67, 68, 65] c)
  | .cdata6 => if c = 65 then .ok { fr with state := .cdata7 } else .ok (cdataBack fr [33, 91, 67, 68, 65, 84] c)
  | .cdata7 => if c = 91 then .ok { fr with state := .vcdata } else .ok (cdataBack fr [33, 91, 67, 68, 65, 84, 65] c)
  | .vcdata => if c = 93 then .ok { fr with state := .ecdata0 } else .ok { fr with tmpval := fr.tmpval ++ [c] }
  | .ecdata0 =>
    if c = 93 then .ok { fr with state := .ecdata1 }
    else .ok { fr with tmpval := fr.tmpval ++ [93, c], state := .vcdata }
  | .ecdata1 =>
    if c = 62 then .ok { fr with state := .value }
    else .ok { fr with tmpval := fr.tmpval ++ [93, 93], state := .vcdata }
  | .value =>
    if c = 60 then .ok { fr with state := .cls }       -- `peek() == '/'` (the other case is the recursion)
    else .ok { fr with tmpval := fr.tmpval ++ [c] }
  | .cls => if c = 47 then .ok { fr with state := .ctag } else .ok fr
  | .ctag =>
    if c = 62 then
      if fr.tmpotag ≠ fr.tmpctag then .error .unmatched
      else if fr.tmpotag = xiInclude then .error .incl
      else .ok { fr with state := .finished, tag := fr.tmpotag,
                         value := if fr.tmpval ≠ [] ∧ !isBlank fr.tmpval then some (xlate fr.tmpval) else fr.value }
    else if !isSpace c then .ok { fr with tmpctag := fr.tmpctag ++ [c] }
    else .ok fr
  | .finished => .ok fr

/-- after the loop: `if (!tmpattr.empty()) ParseAttrs(tmpattr);` -/
def finishElem (fr : Frame) : Except XErr Elem :=
  match parseAttrs fr.tmpattr with
  | .error e => .error e
  | .ok a => .ok { tag := fr.tag, attrs := a, value := fr.value, decl := fr.decl, children := fr.children }

/-- the parent keeps a child only if its tag is not empty -/
def addChild (fr : Frame) (ch : Elem) : Frame :=
  if ch.tag = [] then fr else { fr with children := fr.children ++ [ch] }

def maxDepth : Nat := Gen.xmlMaxDepth

/-- what one pass through the loop body does -/
inductive Step
  | done                                       -- `!good() || state == finished`: the loop ends
  | fail (e : XErr)                            -- throw
  | cont (c : Nat) (fr : Frame) (s : Stream)   -- next iteration
  | child (c : Nat) (s : Stream)               -- `<` in state `value`, not followed by `/`: construct a child from `s`

/-- one iteration. `depth` = `depth_`, `lc` = the value `c` holds from the previous iteration. -/
def step (depth lc : Nat) (fr : Frame) (s : Stream) : Step :=
  if !s.good || fr.state == .finished then .done
  else
    let s1 := s.get.2
    let c := s.get.1.getD lc
    if c == 10 || c == 13 then .cont c fr s1
    else if fr.state == .value && c == 60 then
      if s1.peek.1 == some 47 then .cont c { fr with state := .cls } s1.peek.2
      else if depth + 1 > maxDepth then .fail .depth
      else .child c (s1.peek.2.putback c)
    else
      let pk := if needsPeek fr.state c then s1.peek else (none, s1)
      match trans (depth != 0) fr c pk.1 with
      | .error e => .fail e
      | .ok fr' => .cont c fr' pk.2

/-- the constructor's loop; a child is a recursive run at `depth + 1` followed by `ParseAttrs` -/
def parseLoop : Nat → Nat → Nat → Frame → Stream → Except XErr (Frame × Stream)
  | 0, _, _, _, _ => .error .fuel
  | f + 1, depth, lc, fr, s =>
    match step depth lc fr s with
    | .done => .ok (fr, s)
    | .fail e => .error e
    | .cont c fr' s' => parseLoop f depth c fr' s'
    | .child c s3 =>
      match parseLoop f (depth + 1) 0 {} s3 with
      | .error e => .error e
      | .ok (cf, s4) =>
        match finishElem cf with
        | .error e => .error e
        | .ok ch => parseLoop f depth c (addChild fr ch) s4

def docFuel (s : Bytes) : Nat := 2 * s.length + 8

/-- `XmlElement::Factory(istream&)` on a stream holding `s` (no `docpath`) -/
def parseDoc (s : Bytes) : Except XErr Elem :=
  match parseLoop (docFuel s) 0 0 {} { rest := s } with
  | .error e => .error e
  | .ok (fr, _) => finishElem fr

end Fix8Model.Xml
