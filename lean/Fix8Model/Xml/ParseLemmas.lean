import Fix8Model.Xml.Parse
/-! totality of the element parser: the fuel supplied by `parseDoc` is never exhausted; more fuel never changes a result -/
set_option linter.unusedSimpArgs false
namespace Fix8Model.Xml

/-- fuel that is certainly enough from a loop head -/
def need (fr : Frame) (s : Stream) : Nat :=
  if !s.good || fr.state == .finished then 1
  else 2 * s.rest.length + 3 + (if fr.state == .value then 1 else 0)

theorem need_pos (fr : Frame) (s : Stream) : 1 ≤ need fr s := by unfold need; split <;> omega

theorem need_le (fr : Frame) (s : Stream) : need fr s ≤ 2 * s.rest.length + 4 := by
  unfold need; split <;> (try split) <;> omega

theorem need_not_good (fr : Frame) (s : Stream) (h : s.good = false) : need fr s = 1 := by simp [need, h]

/-! facts about the stream operations -/

theorem get_rest (s : Stream) : s.get.2.rest.length ≤ s.rest.length ∧
    (s.get.2.good = false ∨ (s.get.2.rest.length + 1 = s.rest.length ∧ s.get.2.good = s.good)) := by
  unfold Stream.get
  cases h : s.rest with
  | nil => simp [Stream.good]
  | cons c r => simp [Stream.good]

theorem peek_rest (s : Stream) : s.peek.2.rest = s.rest ∧ (s.good = false → s.peek.2.good = false) := by
  unfold Stream.peek
  by_cases hg : s.good = true
  · simp only [hg, if_true]
    split <;> simp_all
  · simp only [hg]
    simp [Stream.good]

theorem putback_rest (s : Stream) (c : Nat) :
    ((s.putback c).good = true ∧ (s.putback c).rest.length = s.rest.length + 1 ∧ s.fail = false) ∨
    ((s.putback c).good = false ∧ (s.putback c).rest = s.rest ∧ s.fail = true) := by
  unfold Stream.putback
  by_cases hf : s.fail = true
  · right; simp [hf, Stream.good]
  · left; simp [hf, Stream.good]

theorem good_fail (s : Stream) (h : s.good = true) : s.fail = false ∧ s.eof = false := by
  simp [Stream.good] at h; exact ⟨h.2, h.1⟩

theorem peek_fail (s : Stream) (h : s.good = true) : s.peek.2.fail = false := by
  unfold Stream.peek
  simp only [h, if_true]
  cases s.rest <;> simp [(good_fail s h).1]

theorem get_fail (s : Stream) (h : s.get.2.good = false) (hg : s.good = true) : s.get.2.fail = true := by
  unfold Stream.get at h ⊢
  cases hr : s.rest with
  | nil => simp
  | cons c r => simp [hr, Stream.good] at h ⊢; simp [Stream.good] at hg; simp [hg] at h

theorem peek_keeps_fail (s : Stream) (h : s.fail = true) : s.peek.2.fail = true := by
  unfold Stream.peek
  have : s.good = false := by simp [Stream.good, h]
  simp [this]

/-! facts about one iteration -/

theorem step_done (d lc : Nat) (fr : Frame) (s : Stream) : step d lc fr s = .done ↔ (!s.good || fr.state == .finished) = true := by
  unfold step
  split
  · simp_all
  · rename_i h
    simp only [h]
    constructor
    · intro h2
      repeat' split at h2
      all_goals simp at h2
    · intro h2; simp at h2

theorem trans_no_fuel (n : Bool) (fr : Frame) (c : Nat) (pk : Option Nat) (h : trans n fr c pk = .error .fuel) : False := by
  unfold trans at h
  repeat' split at h
  all_goals cases h

theorem step_no_fuel (d lc : Nat) (fr : Frame) (s : Stream) (h : step d lc fr s = .fail .fuel) : False := by
  unfold step at h
  split at h
  · cases h
  · simp only at h
    split at h
    · cases h
    · split at h
      · split at h
        · cases h
        · split at h <;> cases h
      · split at h
        · rename_i e ht
          injection h with h; subst h
          exact trans_no_fuel _ _ _ _ ht
        · cases h

theorem aStep_no_fuel (fr : AFrame) (c : Nat) (h : aStep fr c = .error .fuel) : False := by
  unfold aStep aTagCase at h
  repeat' split at h
  all_goals cases h

theorem aLoop_no_fuel : ∀ (r : Bytes) (fr : AFrame) (lc : Nat), aLoop fr lc r = .error .fuel → False
  | [], fr, lc, h => aStep_no_fuel fr lc (by simpa [aLoop] using h)
  | c :: r, fr, lc, h => by
    rw [aLoop] at h
    cases hs : aStep fr c with
    | ok fr' => rw [hs] at h; exact aLoop_no_fuel r fr' c h
    | error e => rw [hs] at h; injection h with h; subst h; exact aStep_no_fuel fr c hs

/-- an ordinary iteration consumes one byte or leaves the stream in a failed state -/
theorem step_cont (d lc : Nat) (fr : Frame) (s : Stream) (c : Nat) (fr' : Frame) (s' : Stream)
    (h : step d lc fr s = .cont c fr' s') :
    s.good = true ∧ s'.rest.length ≤ s.rest.length ∧ (s'.good = false ∨ s'.rest.length + 1 = s.rest.length) := by
  unfold step at h
  split at h
  · cases h
  · rename_i hd
    have hg : s.good = true := by
      cases hgg : s.good <;> simp_all
    have g := get_rest s
    have p := peek_rest s.get.2
    refine ⟨hg, ?_⟩
    have key : ∀ s2 : Stream, (s2 = s.get.2 ∨ s2 = s.get.2.peek.2) →
        s2.rest.length ≤ s.rest.length ∧ (s2.good = false ∨ s2.rest.length + 1 = s.rest.length) := by
      intro s2 h2
      rcases h2 with rfl | rfl
      · exact ⟨g.1, g.2.imp id (fun x => x.1)⟩
      · rw [p.1]
        refine ⟨g.1, ?_⟩
        rcases g.2 with g2 | g2
        · exact Or.inl (p.2 g2)
        · exact Or.inr g2.1
    simp only at h
    split at h
    · injection h with _ _ h3; subst h3; exact key _ (Or.inl rfl)
    · split at h
      · split at h
        · injection h with _ _ h3; subst h3; exact key _ (Or.inr rfl)
        · split at h <;> cases h
      · split at h
        · cases h
        · injection h with _ _ h3; subst h3
          split
          · exact key _ (Or.inr rfl)
          · exact key _ (Or.inl rfl)

/-- the recursion case: only in state `value`; the `<` is back in the stream unless the extraction had failed -/
theorem step_child (d lc : Nat) (fr : Frame) (s : Stream) (c : Nat) (s3 : Stream)
    (h : step d lc fr s = .child c s3) :
    s.good = true ∧ fr.state = .value ∧ s3.rest.length ≤ s.rest.length := by
  unfold step at h
  split at h
  · cases h
  · rename_i hd
    have hg : s.good = true := by
      cases hgg : s.good <;> simp_all
    simp only at h
    split at h
    · cases h
    · split at h
      · rename_i hv
        split at h
        · cases h
        · split at h
          · cases h
          · injection h with _ h3; subst h3
            simp only [Bool.and_eq_true, beq_iff_eq] at hv
            refine ⟨hg, hv.1, ?_⟩
            have g := get_rest s
            have p := peek_rest s.get.2
            rcases putback_rest s.get.2.peek.2 (s.get.1.getD lc) with q | q
            · -- the byte was really read: `get` succeeded
              rcases g.2 with g2 | g2
              · have := get_fail s g2 hg
                have := peek_keeps_fail _ this
                simp [this] at q
              · rw [q.2.1, p.1]; omega
            · rw [q.2.1, p.1]; exact g.1
      · split at h <;> cases h

/-- `ParseAttrs` never raises the fuel error -/
theorem finishElem_no_fuel (cf : Frame) (hfin : finishElem cf = .error .fuel) : False := by
  unfold finishElem at hfin
  split at hfin
  · rename_i e hp
    injection hfin with hfin; subst hfin
    revert hp
    unfold parseAttrs parseAttrsFrom
    split
    · simp
    · intro hp
      cases hl : aLoop {} 0 cf.tmpattr with
      | ok x => simp [hl, Except.map] at hp
      | error e =>
        simp [hl, Except.map] at hp
        subst hp
        exact aLoop_no_fuel _ _ _ hl
  · cases hfin

theorem addChild_state (fr : Frame) (ch : Elem) : (addChild fr ch).state = fr.state := by
  unfold addChild; split <;> rfl

/-- `parseLoop` on a stream that is not good, or in state `finished`, returns at once -/
theorem parseLoop_done (f d lc : Nat) (fr : Frame) (s : Stream) (h : (!s.good || fr.state == .finished) = true) :
    parseLoop (f + 1) d lc fr s = .ok (fr, s) := by
  rw [parseLoop, (step_done d lc fr s).2 h]

/-- the loop never lengthens the stream, and makes progress from a good stream -/
theorem parseLoop_progress : ∀ (f d lc : Nat) (fr : Frame) (s : Stream) (fr' : Frame) (s' : Stream),
    parseLoop f d lc fr s = .ok (fr', s') →
    s'.rest.length ≤ s.rest.length ∧
    (s.good = false → s' = s) ∧
    (s.good = true → fr.state ≠ .finished → s'.good = false ∨ s'.rest.length < s.rest.length)
  | 0, _, _, _, _, _, _, h => by simp [parseLoop] at h
  | f + 1, d, lc, fr, s, fr', s', h => by
    rw [parseLoop] at h
    cases hs : step d lc fr s with
    | done =>
      simp only [hs, Except.ok.injEq, Prod.mk.injEq] at h
      have hd := (step_done d lc fr s).1 hs
      refine ⟨by rw [h.2]; exact Nat.le_refl _, fun _ => h.2.symm, ?_⟩
      intro hg hf
      simp [hg] at hd
      exact absurd hd hf
    | fail e => simp [hs] at h
    | cont c fr1 s1 =>
      simp only [hs] at h
      have sc := step_cont d lc fr s c fr1 s1 hs
      have ih := parseLoop_progress f d c fr1 s1 fr' s' h
      refine ⟨Nat.le_trans ih.1 sc.2.1, fun hg => by simp [sc.1] at hg, ?_⟩
      intro _ _
      rcases sc.2.2 with hb | hb
      · left; rw [ih.2.1 hb]; exact hb
      · right; omega
    | child c s3 =>
      simp only [hs] at h
      have sc := step_child d lc fr s c s3 hs
      cases hc : parseLoop f (d + 1) 0 {} s3 with
      | error e => simp [hc] at h
      | ok r =>
        obtain ⟨cf, s4⟩ := r
        simp only [hc] at h
        cases hfin : finishElem cf with
        | error e => simp [hfin] at h
        | ok ch =>
          simp only [hfin] at h
          have ih1 := parseLoop_progress f (d + 1) 0 {} s3 cf s4 hc
          have ih2 := parseLoop_progress f d c (addChild fr ch) s4 fr' s' h
          refine ⟨by omega, fun hg => by simp [sc.1] at hg, ?_⟩
          intro _ _
          cases hg3 : s3.good with
          | false =>
            have e4 := ih1.2.1 hg3
            subst e4
            left; rw [ih2.2.1 hg3]; exact hg3
          | true =>
            rcases ih1.2.2 hg3 (by simp) with hb | hb
            · left; rw [ih2.2.1 hb]; exact hb
            · right; omega

/-- the supplied fuel is never the reason for a result -/
theorem parseLoop_fuel_ok : ∀ (f d lc : Nat) (fr : Frame) (s : Stream), need fr s ≤ f →
    parseLoop f d lc fr s ≠ .error .fuel
  | 0, _, _, fr, s, h => by have := need_pos fr s; omega
  | f + 1, d, lc, fr, s, h => by
    rw [parseLoop]
    cases hs : step d lc fr s with
    | done => simp
    | fail e =>
      simp only
      intro he
      injection he with he
      subst he
      exact step_no_fuel d lc fr s hs
    | cont c fr1 s1 =>
      simp only
      have sc := step_cont d lc fr s c fr1 s1 hs
      have hnd : ¬ ((!s.good || fr.state == .finished) = true) := by
        intro hh; rw [(step_done d lc fr s).2 hh] at hs; cases hs
      apply parseLoop_fuel_ok f d c fr1 s1
      rcases sc.2.2 with hb | hb
      · rw [need_not_good _ _ hb]
        have : 3 ≤ need fr s := by unfold need; simp only [hnd]; simp; omega
        omega
      · have h1 := need_le fr1 s1
        have : need fr s ≥ 2 * s.rest.length + 3 := by unfold need; simp only [hnd]; simp
        omega
    | child c s3 =>
      simp only
      have sc := step_child d lc fr s c s3 hs
      have hnd : ¬ ((!s.good || fr.state == .finished) = true) := by
        intro hh; rw [(step_done d lc fr s).2 hh] at hs; cases hs
      have hn : need fr s = 2 * s.rest.length + 4 := by
        unfold need; simp only [hnd]; simp [sc.2.1]
      have c1 : need {} s3 ≤ f := by
        have : need {} s3 ≤ 2 * s3.rest.length + 3 := by
          unfold need; split
          · omega
          · simp
        omega
      have i1 := parseLoop_fuel_ok f (d + 1) 0 {} s3 c1
      cases hc : parseLoop f (d + 1) 0 {} s3 with
      | error e =>
        simp only
        intro he; injection he with he; subst he; exact i1 hc
      | ok r =>
        obtain ⟨cf, s4⟩ := r
        simp only
        cases hfin : finishElem cf with
        | error e =>
          simp only
          intro he; injection he with he; subst he
          exact finishElem_no_fuel cf hfin
        | ok ch =>
          simp only
          have pr := parseLoop_progress f (d + 1) 0 {} s3 cf s4 hc
          apply parseLoop_fuel_ok f d c (addChild fr ch) s4
          cases hg3 : s3.good with
          | false =>
            have e4 := pr.2.1 hg3; subst e4
            rw [need_not_good _ _ hg3]; omega
          | true =>
            rcases pr.2.2 hg3 (by simp) with hb | hb
            · rw [need_not_good _ _ hb]; omega
            · have := need_le (addChild fr ch) s4
              omega

/-- more fuel does not change a result that is not the fuel error -/
theorem parseLoop_mono : ∀ (f d lc : Nat) (fr : Frame) (s : Stream) (r : Except XErr (Frame × Stream)),
    parseLoop f d lc fr s = r → r ≠ .error .fuel → parseLoop (f + 1) d lc fr s = r
  | 0, _, _, _, _, r, h, hr => by simp [parseLoop] at h; exact absurd h.symm hr
  | f + 1, d, lc, fr, s, r, h, hr => by
    rw [parseLoop] at h ⊢
    cases hs : step d lc fr s with
    | done => simpa [hs] using h
    | fail e => simpa [hs] using h
    | cont c fr1 s1 =>
      simp only [hs] at h ⊢
      exact parseLoop_mono f d c fr1 s1 r h hr
    | child c s3 =>
      simp only [hs] at h ⊢
      cases hc : parseLoop f (d + 1) 0 {} s3 with
      | error e =>
        simp only [hc] at h
        have : parseLoop (f + 1) (d + 1) 0 {} s3 = .error e :=
          parseLoop_mono f (d + 1) 0 {} s3 _ hc (by intro he; injection he with he; subst he; exact hr h.symm)
        simp only [this]; exact h
      | ok x =>
        obtain ⟨cf, s4⟩ := x
        simp only [hc] at h
        have : parseLoop (f + 1) (d + 1) 0 {} s3 = .ok (cf, s4) := parseLoop_mono f (d + 1) 0 {} s3 _ hc (by simp)
        simp only [this]
        cases hfin : finishElem cf with
        | error e => simpa [hfin] using h
        | ok ch =>
          simp only [hfin] at h ⊢
          exact parseLoop_mono f d c (addChild fr ch) s4 r h hr

theorem parseLoop_mono_le (f g d lc : Nat) (fr : Frame) (s : Stream) (r : Except XErr (Frame × Stream))
    (h : parseLoop f d lc fr s = r) (hr : r ≠ .error .fuel) (hfg : f ≤ g) : parseLoop g d lc fr s = r := by
  induction g with
  | zero =>
    have : f = 0 := by omega
    subst this; exact h
  | succ g ih =>
    by_cases hle : f ≤ g
    · exact parseLoop_mono g d lc fr s r (ih hle) hr
    · have : f = g + 1 := by omega
      subst this; exact h

/-- `Run d lc fr s r`: with any sufficiently large fuel the loop started at `(fr, s)` ends with `r` -/
def Run (d lc : Nat) (fr : Frame) (s : Stream) (r : Except XErr (Frame × Stream)) : Prop :=
  ∃ f0, ∀ f, f0 ≤ f → parseLoop f d lc fr s = r

theorem Run.done (d lc : Nat) (fr : Frame) (s : Stream) (h : (!s.good || fr.state == .finished) = true) :
    Run d lc fr s (.ok (fr, s)) :=
  ⟨1, fun f hf => by
    obtain ⟨g, rfl⟩ : ∃ g, f = g + 1 := ⟨f - 1, by omega⟩
    exact parseLoop_done g d lc fr s h⟩

theorem Run.cont (d lc : Nat) (fr : Frame) (s : Stream) (c : Nat) (fr' : Frame) (s' : Stream) (r)
    (hs : step d lc fr s = .cont c fr' s') (h : Run d c fr' s' r) : Run d lc fr s r := by
  obtain ⟨f0, h0⟩ := h
  refine ⟨f0 + 1, fun f hf => ?_⟩
  obtain ⟨g, rfl⟩ : ∃ g, f = g + 1 := ⟨f - 1, by omega⟩
  rw [parseLoop, hs]
  exact h0 g (by omega)

theorem Run.child (d lc : Nat) (fr : Frame) (s : Stream) (c : Nat) (s3 s4 : Stream) (cf : Frame) (ch : Elem) (r)
    (hs : step d lc fr s = .child c s3) (hc : Run (d + 1) 0 {} s3 (.ok (cf, s4))) (hfin : finishElem cf = .ok ch)
    (h : Run d c (addChild fr ch) s4 r) : Run d lc fr s r := by
  obtain ⟨f0, h0⟩ := h
  obtain ⟨f1, h1⟩ := hc
  refine ⟨max f0 f1 + 1, fun f hf => ?_⟩
  obtain ⟨g, rfl⟩ : ∃ g, f = g + 1 := ⟨f - 1, by omega⟩
  rw [parseLoop, hs]
  simp only [h1 g (by omega), hfin]
  exact h0 g (by omega)

/-- a `Run` result is what the loop returns with any fuel that covers `need` -/
theorem Run.result (d lc : Nat) (fr : Frame) (s : Stream) (r) (h : Run d lc fr s r) (hr : r ≠ .error .fuel)
    (f : Nat) (hf : need fr s ≤ f) : parseLoop f d lc fr s = r := by
  obtain ⟨f0, h0⟩ := h
  have h1 := h0 (max f0 f) (by omega)
  have h2 := parseLoop_fuel_ok f d lc fr s hf
  have h3 := parseLoop_mono_le f (max f0 f) d lc fr s _ rfl h2 (by omega)
  rw [h1] at h3
  exact h3.symm

end Fix8Model.Xml
