import Fix8Model.Xml.XlateLemmas
/-! `ParseAttrs` reads back what `printAttrs` wrote -/
set_option linter.unusedSimpArgs false
namespace Fix8Model.Xml

theorem bytesLt_asymm : ∀ (a b : Bytes), bytesLt a b = true → bytesLt b a = false ∧ a ≠ b
  | [], [], h => by simp [bytesLt] at h
  | [], _ :: _, _ => by simp [bytesLt]
  | _ :: _, [], h => by simp [bytesLt] at h
  | x :: a, y :: b, h => by
    unfold bytesLt at h ⊢
    by_cases h1 : x < y
    · have : ¬ y < x := by omega
      refine ⟨by simp [this, h1], ?_⟩
      intro he; injection he with he1 _; omega
    · by_cases h2 : y < x
      · simp [h1, h2] at h
      · simp only [h1, h2, if_false] at h
        have ih := bytesLt_asymm a b h
        refine ⟨by simp [h1, h2, ih.1], ?_⟩
        intro he; injection he with _ he2; exact ih.2 he2

/-- an attribute name the parser reads back unchanged -/
def nameChar (c : Nat) : Bool := !isSpace c && c != 61 && c != 34 && c != 39 && c != 92

def NameOK (k : Bytes) : Prop :=
  k ≠ docpath ∧ ∃ c k', k = c :: k' ∧ c ≠ 47 ∧ (∀ x ∈ k, nameChar x = true)

/-- inserting a key above all present keys appends -/
theorem attrInsert_append (k v : Bytes) : ∀ acc : Attrs, (∀ a ∈ acc, bytesLt a.1 k = true) →
    attrInsert k v acc = some (acc ++ [(k, v)])
  | [], _ => rfl
  | (k', v') :: r, h => by
    have h1 := bytesLt_asymm k' k (h (k', v') (by simp))
    have ih := attrInsert_append k v r (fun a ha => h a (by simp [ha]))
    have hne : k ≠ k' := fun e => h1.2 e.symm
    simp [attrInsert, hne, h1.1, ih]

theorem aLoop_cons (fr fr' : AFrame) (lc c : Nat) (r : Bytes) (h : aStep fr c = .ok fr') :
    aLoop fr lc (c :: r) = aLoop fr' c r := by
  simp [aLoop, h]

/-- name bytes after the first one accumulate in state `tag` -/
theorem aLoop_name (rest : Bytes) : ∀ (cs : Bytes) (fr : AFrame) (lc : Nat), fr.state = .tag → (∀ x ∈ cs, nameChar x = true) →
    ∃ lc', aLoop fr lc (cs ++ rest) = aLoop { fr with tmptag := fr.tmptag ++ cs } lc' rest
  | [], fr, lc, _, _ => ⟨lc, by simp⟩
  | c :: cs, fr, lc, hs, hc => by
    have hcc := hc c (by simp)
    simp [nameChar] at hcc
    have hstep : aStep fr c = .ok { fr with tmptag := fr.tmptag ++ [c] } := by
      simp [aStep, hs, aTagCase, hcc]
    obtain ⟨lc', h⟩ := aLoop_name rest cs { fr with tmptag := fr.tmptag ++ [c] } c hs (fun x hx => hc x (by simp [hx]))
    exact ⟨lc', by rw [List.cons_append, aLoop_cons _ _ _ _ _ hstep, h]; simp⟩

/-- value bytes other than the quote accumulate in state `value` -/
theorem aLoop_value (rest : Bytes) : ∀ (cs : Bytes) (fr : AFrame) (lc : Nat), fr.state = .value → (∀ x ∈ cs, x ≠ fr.comchar) →
    ∃ lc', aLoop fr lc (cs ++ rest) = aLoop { fr with tmpval := fr.tmpval ++ cs } lc' rest
  | [], fr, lc, _, _ => ⟨lc, by simp⟩
  | c :: cs, fr, lc, hs, hc => by
    have hcc := hc c (by simp)
    have hstep : aStep fr c = .ok { fr with tmpval := fr.tmpval ++ [c] } := by
      simp [aStep, hs, hcc]
    obtain ⟨lc', h⟩ := aLoop_value rest cs { fr with tmpval := fr.tmpval ++ [c] } c hs (fun x hx => hc x (by simp [hx]))
    exact ⟨lc', by rw [List.cons_append, aLoop_cons _ _ _ _ _ hstep, h]; simp⟩

theorem escape_no_quote : ∀ t : Bytes, ∀ x ∈ escape t, x ≠ 34
  | [], x, h => by simp [escape] at h
  | c :: r, x, h => by
    simp only [escape, List.mem_append] at h
    rcases h with h | h
    · by_cases hs : isSpecial c = true
      · rcases special_cases c hs with e | e | e | e | e <;> subst e <;> simp [escapeByte] at h <;> omega
      · rw [escapeByte_not_special c (by simpa using hs)] at h
        simp at h; subst h
        intro e; subst e; simp [isSpecial] at hs
    · exact escape_no_quote r x h

theorem badName_false (k : Bytes) (h : ∀ x ∈ k, nameChar x = true) : badName k = false := by
  simp only [badName, List.any_eq_false]
  intro x hx
  have := h x hx
  simp [nameChar] at this
  simp [this]

/-- decoded value of a well-formed written value -/
def ValOK (v : Bytes) : Prop := 0 ∉ v ∧ findNamed v = none ∧ findNum v = none

/-- one printed attribute is consumed from state `ews` and inserted -/
theorem aLoop_attr (acc : Attrs) (k v rest : Bytes) (lc : Nat) (hk : NameOK k) (hv : ValOK v)
    (hlt : ∀ a ∈ acc, bytesLt a.1 k = true) :
    ∃ lc', aLoop { attrs := acc } lc (32 :: printAttr (k, v) ++ rest) = aLoop { attrs := acc ++ [(k, v)] } lc' rest := by
  obtain ⟨hdoc, c, k', rfl, hc47, hall⟩ := hk
  have hc := hall c (by simp)
  simp [nameChar] at hc
  have s1 : aStep { attrs := acc } 32 = .ok { attrs := acc } := by simp [aStep, isSpace]
  have s2 : aStep { attrs := acc } c = .ok { attrs := acc, tmptag := [c], state := .tag } := by
    simp [aStep, hc47, hc]
  obtain ⟨lc1, h3⟩ := aLoop_name ([61, 34] ++ escape v ++ [34] ++ rest) k' { attrs := acc, tmptag := [c], state := .tag } c rfl
    (fun x hx => hall x (by simp [hx]))
  have s4 : aStep { attrs := acc, tmptag := [c] ++ k', state := .tag } 61 = .ok { attrs := acc, tmptag := [c] ++ k', state := .oq } := by
    simp [aStep, aTagCase, isSpace]
  have s5 : aStep { attrs := acc, tmptag := [c] ++ k', state := .oq } 34 =
      .ok { attrs := acc, tmptag := [c] ++ k', state := .value, comchar := 34 } := by
    simp [aStep]
  obtain ⟨lc2, h6⟩ := aLoop_value ([34] ++ rest) (escape v) { attrs := acc, tmptag := [c] ++ k', state := .value, comchar := 34 } 34 rfl
    (fun x hx => escape_no_quote v x hx)
  have hx : xlate (escape v) = v := xlate_escape v hv.1 hv.2.1 hv.2.2
  have s7 : aStep { attrs := acc, tmptag := [c] ++ k', state := .value, comchar := 34, tmpval := [] ++ escape v } 34 =
      .ok { attrs := acc ++ [(c :: k', v)] } := by
    have hb := badName_false (c :: k') hall
    have hi := attrInsert_append (c :: k') v acc hlt
    simp [aStep, hb, hdoc, hx, hi]
  refine ⟨34, ?_⟩
  have e1 : 32 :: printAttr (c :: k', v) ++ rest = 32 :: c :: (k' ++ ([61, 34] ++ escape v ++ [34] ++ rest)) := by
    simp [printAttr]
  rw [e1, aLoop_cons _ _ _ _ _ s1, aLoop_cons _ _ _ _ _ s2, h3]
  have e2 : [61, 34] ++ escape v ++ [34] ++ rest = 61 :: 34 :: (escape v ++ ([34] ++ rest)) := by simp
  rw [e2, aLoop_cons _ _ _ _ _ s4, aLoop_cons _ _ _ _ _ s5, h6]
  have e3 : [34] ++ rest = 34 :: rest := rfl
  rw [e3, aLoop_cons _ _ _ _ _ s7]

/-- the whole printed map, from any accumulated map whose keys are below -/
theorem aLoop_printAttrs : ∀ (m acc : Attrs) (lc : Nat),
    (acc ++ m).Pairwise (fun a b => bytesLt a.1 b.1 = true) → (∀ a ∈ m, NameOK a.1 ∧ ValOK a.2) →
    (aLoop { attrs := acc } lc (printAttrs m)).map (·.attrs) = .ok (acc ++ m)
  | [], acc, lc, _, _ => by
    have : ∃ fr', aStep { attrs := acc } lc = .ok fr' ∧ fr'.attrs = acc := by
      simp only [aStep]
      by_cases h47 : lc = 47
      · exact ⟨_, by simp only [h47, if_true]; rfl, rfl⟩
      · by_cases hsp : (!isSpace lc) = true
        · exact ⟨_, by simp only [h47, hsp, if_true, if_false]; rfl, rfl⟩
        · exact ⟨_, by simp only [h47, hsp, if_false]; rfl, rfl⟩
    obtain ⟨fr', h1, h2⟩ := this
    simp [printAttrs, aLoop, h1, h2, Except.map]
  | (k, v) :: m, acc, lc, hp, hok => by
    have hkv := hok (k, v) (by simp)
    have hlt : ∀ a ∈ acc, bytesLt a.1 k = true := by
      intro a ha
      exact (List.pairwise_append.1 hp).2.2 a ha (k, v) (by simp)
    obtain ⟨lc', h⟩ := aLoop_attr acc k v (printAttrs m) lc hkv.1 hkv.2 hlt
    have hp' : ((acc ++ [(k, v)]) ++ m).Pairwise (fun a b => bytesLt a.1 b.1 = true) := by simpa using hp
    have ih := aLoop_printAttrs m (acc ++ [(k, v)]) lc' hp' (fun a ha => hok a (by simp [ha]))
    have e : printAttrs ((k, v) :: m) = 32 :: printAttr (k, v) ++ printAttrs m := by simp [printAttrs]
    rw [e, h, ih]; simp

theorem printAttrs_ne_nil (a : Bytes × Bytes) (m : Attrs) : printAttrs (a :: m) ≠ [] := by simp [printAttrs]

/-- `ParseAttrs` on the printed form of a sorted attribute map returns the map -/
theorem parseAttrs_printAttrs (m : Attrs) (hs : m.Pairwise (fun a b => bytesLt a.1 b.1 = true))
    (hok : ∀ a ∈ m, NameOK a.1 ∧ ValOK a.2) : parseAttrs (printAttrs m) = .ok m := by
  cases m with
  | nil => rfl
  | cons a m =>
    unfold parseAttrs parseAttrsFrom
    have := aLoop_printAttrs (a :: m) [] 0 (by simpa using hs) hok
    cases hp : printAttrs (a :: m) with
    | nil => exact absurd hp (printAttrs_ne_nil a m)
    | cons c r => simpa [hp] using this

end Fix8Model.Xml
