import Fix8Model.Xml.Parse
/-!
`XmlElement::find` (first match, runtime/xml.cpp:668-698, and all matches, 701-733), `findAttrByValue`,
`GetAttr`, with the default delimiter `/` and the `nocase` flag off.

An element is identified by its path of child indices (document order) from the root.
`children_->equal_range(nwhat)` is the sub-list of children whose tag equals `nwhat`, in document
order (a `std::multimap` keeps equal keys in insertion order).  The result set of find-all is an
`XmlSet` ordered by `sequence_` (= document order); the traversal visits same-tag children in
document order and never reaches an element twice, so the list is produced in that order (modelled,
not proved; the harness prints the set in its own order and is compared with this list).  Recursion: every recursive call passes a strictly shorter `what`,
the fuel is `what.length + 1`.
-/
namespace Fix8Model.Xml

abbrev Path := List Nat
abbrev Filter := Option (Bytes × Bytes)

def getAttr (e : Elem) (k : Bytes) : Option Bytes :=
  (e.attrs.find? (fun a => a.1 == k)).map (·.2)

/-- `atag && aval && !findAttrByValue(*atag, *aval)` is false -/
def filterOK (flt : Filter) (e : Elem) : Bool :=
  match flt with
  | none => true
  | some (k, v) => getAttr e k == some v

/-- `what.compare(0, 2, "//") == 0` -/
def stripRoot : Bytes → Option Bytes
  | 47 :: 47 :: r => some r
  | _ => none

/-- `find_first_of('/')`: text before and after the first delimiter -/
def splitDelim : Bytes → Option (Bytes × Bytes)
  | [] => none
  | c :: r =>
    if c = 47 then some ([], r)
    else match splitDelim r with
      | some (a, b) => some (c :: a, b)
      | none => none

/-- `nwhat`: the next path component of `lwhat` -/
def nextComp (lwhat : Bytes) : Bytes :=
  match splitDelim lwhat with
  | some (a, _) => a
  | none => lwhat

/-- first result of `f i child` over the children, indices counted from `i` -/
def firstIdx (f : Nat → Elem → Option Path) : Nat → List Elem → Option Path
  | _, [] => none
  | i, e :: es => match f i e with
    | some p => some p
    | none => firstIdx f (i + 1) es

def allIdx (f : Nat → Elem → List Path) : Nat → List Elem → List Path
  | _, [] => []
  | i, e :: es => f i e ++ allIdx f (i + 1) es

/-- `find(what, atag, aval)` called on the element `cur` (at path `p`) of the tree `root` -/
def findFirst : Nat → Elem → Elem → Path → Bytes → Filter → Option Path
  | 0, _, _, _, _, _ => none
  | f + 1, root, cur, p, what, flt =>
    match stripRoot what with
    | some w => findFirst f root root [] w flt
    | none =>
      if what = cur.tag then (if filterOK flt cur then some p else none)
      else if cur.children.isEmpty then none
      else
        match splitDelim what with
        | none => none
        | some (hd, lwhat) =>
          if hd = cur.tag then
            firstIdx (fun i ch => if ch.tag = nextComp lwhat then findFirst f root ch (p ++ [i]) lwhat flt else none)
              0 cur.children
          else none

/-- `find(what, eset, atag, aval)`: the elements inserted into `eset` -/
def findAll : Nat → Elem → Elem → Path → Bytes → Filter → List Path
  | 0, _, _, _, _, _ => []
  | f + 1, root, cur, p, what, flt =>
    match stripRoot what with
    | some w => findAll f root root [] w flt
    | none =>
      if what = cur.tag then (if filterOK flt cur then [p] else [])
      else if cur.children.isEmpty then []
      else
        match splitDelim what with
        | none => []
        | some (hd, lwhat) =>
          if hd = cur.tag then
            allIdx (fun i ch => if ch.tag = nextComp lwhat then findAll f root ch (p ++ [i]) lwhat flt else [])
              0 cur.children
          else []

def find1 (root cur : Elem) (p : Path) (what : Bytes) (flt : Filter) : Option Path :=
  findFirst (what.length + 1) root cur p what flt

def findN (root cur : Elem) (p : Path) (what : Bytes) (flt : Filter) : List Path :=
  findAll (what.length + 1) root cur p what flt

/-- the element at a path -/
def elemAt : Elem → Path → Option Elem
  | e, [] => some e
  | e, i :: p => match e.children[i]? with
    | some c => elemAt c p
    | none => none

/-! ### Specification (independent of the string handling above): recursive descent over path components -/

/-- split at every `/` -/
def splitPath : Bytes → List Bytes
  | [] => [[]]
  | c :: r =>
    if c = 47 then [] :: splitPath r
    else match splitPath r with
      | [] => [[c]]
      | a :: as => (c :: a) :: as

/-- all elements below (and including) `e` that match the components: the first component names `e`
itself, the last one carries the attribute filter -/
def matchPaths (flt : Filter) : Elem → List Bytes → List Path
  | _, [] => []
  | e, [c] => if e.tag = c ∧ filterOK flt e then [[]] else []
  | e, c :: c2 :: cs =>
    if e.tag = c then allIdx (fun i ch => (matchPaths flt ch (c2 :: cs)).map (i :: ·)) 0 e.children else []

end Fix8Model.Xml
