import Fix8Model.Tables.SortedSet
namespace Fix8Model.SortedSet
open Fix8Model.Realm

theorem upperBound_spec (l : List Int) (v : Int) (hs : Sorted l) :
    ∀ (fuel first len : Nat), len ≤ fuel → first + len ≤ l.length →
      (∀ i, i < first → ¬ v < el l i) → (∀ i, first + len ≤ i → i < l.length → v < el l i) →
      let r := upperBound l v first len fuel
      r ≤ l.length ∧ (∀ i, i < r → ¬ v < el l i) ∧ (∀ i, r ≤ i → i < l.length → v < el l i) := by
  intro fuel
  induction fuel with
  | zero =>
    intro first len hl hb hlo hhi
    have : len = 0 := by omega
    subst this
    simp only [upperBound]
    exact ⟨by omega, hlo, fun i h1 h2 => hhi i (by omega) h2⟩
  | succ fuel ih =>
    intro first len hl hb hlo hhi
    simp only [upperBound]
    split
    · rename_i h0; subst h0
      exact ⟨by omega, hlo, fun i h1 h2 => hhi i (by omega) h2⟩
    · rename_i h0
      split
      · rename_i hlt
        apply ih first (len / 2) (by omega) (by omega) hlo
        intro i hi hi2
        by_cases h : i = first + len / 2
        · subst h; exact hlt
        · by_cases h2 : first + len ≤ i
          · exact hhi i h2 hi2
          · have := hs (first + len / 2) i (by omega) hi2; omega
      · rename_i hge
        apply ih (first + len / 2 + 1) (len - len / 2 - 1) (by omega) (by omega)
        · intro i hi
          by_cases h : i = first + len / 2
          · subst h; exact hge
          · by_cases h2 : i < first
            · exact hlo i h2
            · have := hs i (first + len / 2) (by omega) (by omega); omega
        · intro i hi hi2; exact hhi i (by omega) hi2

theorem ub_spec (l : List Int) (v : Int) (hs : Sorted l) :
    ub l v ≤ l.length ∧ (∀ i, i < ub l v → ¬ v < el l i) ∧ (∀ i, ub l v ≤ i → i < l.length → v < el l i) := by
  have := upperBound_spec l v hs l.length 0 l.length (Nat.le_refl _) (by omega) (by intro i h; omega)
    (by intro i h1 h2; omega)
  simpa [ub] using this

/-- `equal_range` is non-empty exactly when the value is present -/
theorem find_found_iff (s : PSet) (v : Int) (hs : Sorted s.arr) : (find s v).2 = true ↔ v ∈ s.arr := by
  obtain ⟨l1, l2, l3⟩ := lb_spec s.arr v hs
  obtain ⟨u1, u2, u3⟩ := ub_spec s.arr v hs
  rw [mem_iff_at]
  simp only [find, bne_iff_ne, ne_eq]
  constructor
  · intro hne
    have hlt : lb s.arr v < ub s.arr v := by
      by_cases h : lb s.arr v < ub s.arr v
      · exact h
      · have hgt : ub s.arr v < lb s.arr v := by omega
        have a := l2 (ub s.arr v) hgt
        have b := u3 (ub s.arr v) (Nat.le_refl _) (by omega)
        omega
    refine ⟨lb s.arr v, by omega, ?_⟩
    have a := l3 (lb s.arr v) (Nat.le_refl _) (by omega)
    have b := u2 (lb s.arr v) hlt
    omega
  · intro ⟨i, hi, he⟩ heq
    by_cases h : i < lb s.arr v
    · have := l2 i h; omega
    · have := u3 i (by omega) hi; omega

theorem sorted_iff_pairwise (l : List Int) : Sorted l ↔ l.Pairwise (· < ·) := by
  rw [List.pairwise_iff_getElem]
  constructor
  · intro h i j hi hj hij
    have := h i j hij hj
    simpa [el, List.getD_eq_getElem?_getD, List.getElem?_eq_getElem hi, List.getElem?_eq_getElem hj] using this
  · intro h i j hij hj
    have hi : i < l.length := by omega
    have := h i j hi hj hij
    simpa [el, List.getD_eq_getElem?_getD, List.getElem?_eq_getElem hi, List.getElem?_eq_getElem hj] using this

theorem mem_take_lt (l : List Int) (p : Nat) (x : Int) (h : x ∈ l.take p) : ∃ i, i < p ∧ i < l.length ∧ el l i = x := by
  obtain ⟨i, hi, he⟩ := List.getElem_of_mem h
  rw [List.length_take] at hi
  rw [List.getElem_take] at he
  exact ⟨i, by omega, by omega, by simp [el, List.getD_eq_getElem?_getD, List.getElem?_eq_getElem (by omega : i < l.length), he]⟩

theorem mem_drop_ge (l : List Int) (p : Nat) (x : Int) (h : x ∈ l.drop p) : ∃ i, p ≤ i ∧ i < l.length ∧ el l i = x := by
  obtain ⟨i, hi, he⟩ := List.getElem_of_mem h
  rw [List.length_drop] at hi
  rw [List.getElem_drop] at he
  exact ⟨p + i, by omega, by omega, by simp [el, List.getD_eq_getElem?_getD, List.getElem?_eq_getElem (by omega : p + i < l.length), he]⟩

/-- the splice performed by `insert` keeps the array strictly sorted and adds exactly `v` -/
theorem splice_sorted (l : List Int) (v : Int) (hs : Sorted l) (hv : v ∉ l) :
    Sorted (l.take (lb l v) ++ v :: l.drop (lb l v)) ∧
      ∀ x, x ∈ (l.take (lb l v) ++ v :: l.drop (lb l v)) ↔ (x ∈ l ∨ x = v) := by
  obtain ⟨l1, l2, l3⟩ := lb_spec l v hs
  have hp := (sorted_iff_pairwise l).mp hs
  constructor
  · rw [sorted_iff_pairwise, List.pairwise_append]
    refine ⟨List.Pairwise.sublist (List.take_sublist _ _) hp, ?_, ?_⟩
    · rw [List.pairwise_cons]
      refine ⟨?_, List.Pairwise.sublist (List.drop_sublist _ _) hp⟩
      intro x hx
      obtain ⟨i, hi1, hi2, he⟩ := mem_drop_ge l _ x hx
      have a := l3 i hi1 hi2
      have : x ≠ v := by
        intro hxv; apply hv; rw [mem_iff_at]; exact ⟨i, hi2, by omega⟩
      omega
    · intro a ha b hb
      obtain ⟨i, hi1, hi2, he⟩ := mem_take_lt l _ a ha
      have h1 := l2 i hi1
      rw [List.mem_cons] at hb
      rcases hb with hb | hb
      · omega
      · obtain ⟨j, hj1, hj2, hej⟩ := mem_drop_ge l _ b hb
        have := hs i j (by omega) hj2
        omega
  · intro x
    rw [List.mem_append, List.mem_cons]
    constructor
    · rintro (h | h | h)
      · left; exact List.mem_of_mem_take h
      · right; exact h
      · left; exact List.mem_of_mem_drop h
    · rintro (h | h)
      · have := List.take_append_drop (lb l v) l
        rw [← this, List.mem_append] at h
        rcases h with h | h
        · left; exact h
        · right; right; exact h
      · right; left; exact h

end Fix8Model.SortedSet
