import Fix8Model.Tables.Realm
namespace Fix8Model.Realm

/-- bisection invariant: everything before `first` is `< v`, everything from `first+len` on is `≥ v` -/
theorem lowerBound_spec (l : List Int) (v : Int) (hs : Sorted l) :
    ∀ (fuel first len : Nat), len ≤ fuel → first + len ≤ l.length →
      (∀ i, i < first → el l i < v) → (∀ i, first + len ≤ i → i < l.length → ¬ el l i < v) →
      let r := lowerBound l v first len fuel
      r ≤ l.length ∧ (∀ i, i < r → el l i < v) ∧ (∀ i, r ≤ i → i < l.length → ¬ el l i < v) := by
  intro fuel
  induction fuel with
  | zero =>
    intro first len hl hb hlo hhi
    have : len = 0 := by omega
    subst this
    simp only [lowerBound]
    exact ⟨by omega, hlo, fun i h1 h2 => hhi i (by omega) h2⟩
  | succ fuel ih =>
    intro first len hl hb hlo hhi
    simp only [lowerBound]
    split
    · rename_i h0; subst h0
      exact ⟨by omega, hlo, fun i h1 h2 => hhi i (by omega) h2⟩
    · rename_i h0
      split
      · rename_i hlt
        apply ih (first + len / 2 + 1) (len - len / 2 - 1) (by omega) (by omega)
        · intro i hi
          by_cases h : i = first + len / 2
          · subst h; exact hlt
          · by_cases h2 : i < first
            · exact hlo i h2
            · have := hs i (first + len / 2) (by omega) (by omega); omega
        · intro i hi hi2; exact hhi i (by omega) hi2
      · rename_i hge
        apply ih first (len / 2) (by omega) (by omega) hlo
        intro i hi hi2
        by_cases h : i = first + len / 2
        · subst h; exact hge
        · by_cases h2 : first + len ≤ i
          · exact hhi i h2 hi2
          · have := hs (first + len / 2) i (by omega) hi2; omega

theorem lb_spec (l : List Int) (v : Int) (hs : Sorted l) :
    lb l v ≤ l.length ∧ (∀ i, i < lb l v → el l i < v) ∧ (∀ i, lb l v ≤ i → i < l.length → ¬ el l i < v) := by
  have := lowerBound_spec l v hs l.length 0 l.length (Nat.le_refl _) (by omega) (by intro i h; omega)
    (by intro i h1 h2; omega)
  simpa [lb] using this

/-- the index exists exactly for members and is the member's own position -/
theorem getRlmIdxSet_iff (l : List Int) (v : Int) (hs : Sorted l) (i : Nat) :
    getRlmIdxSet l v = some i ↔ (i < l.length ∧ el l i = v) := by
  obtain ⟨h1, h2, h3⟩ := lb_spec l v hs
  unfold getRlmIdxSet
  simp only
  constructor
  · intro h
    split at h
    · rename_i hc
      have : lb l v = i := by simpa using h
      subst this
      have := h3 (lb l v) (Nat.le_refl _) (by omega)
      exact ⟨by omega, by omega⟩
    · cases h
  · intro ⟨hi, he⟩
    have hr : lb l v = i := by
      by_cases hlt : i < lb l v
      · have := h2 i hlt; omega
      · by_cases hgt : lb l v < i
        · have := h3 (lb l v) (Nat.le_refl _) (by omega)
          have := hs (lb l v) i hgt hi
          omega
        · omega
    rw [hr, if_pos ⟨by omega, by omega⟩]

theorem mem_iff_at (l : List Int) (v : Int) : v ∈ l ↔ ∃ i, i < l.length ∧ el l i = v := by
  constructor
  · intro h
    obtain ⟨i, hi, he⟩ := List.getElem_of_mem h
    exact ⟨i, hi, by simp [el, List.getD_eq_getElem?_getD, List.getElem?_eq_getElem hi, he]⟩
  · intro ⟨i, hi, he⟩
    have : l[i] = v := by simpa [el, List.getD_eq_getElem?_getD, List.getElem?_eq_getElem hi] using he
    exact this ▸ List.getElem_mem hi

theorem isValidSet_iff (l : List Int) (v : Int) (hs : Sorted l) : isValidSet l v = true ↔ v ∈ l := by
  rw [mem_iff_at]
  have key : isValidSet l v = true ↔ ∃ i, getRlmIdxSet l v = some i := by
    unfold isValidSet getRlmIdxSet
    simp only [decide_eq_true_eq]
    constructor
    · intro h; exact ⟨_, by rw [if_pos h]⟩
    · intro ⟨i, h⟩; split at h
      · assumption
      · cases h
  rw [key]
  constructor
  · intro ⟨i, h⟩; exact ⟨i, (getRlmIdxSet_iff l v hs i).mp h⟩
  · intro ⟨i, h⟩; exact ⟨i, (getRlmIdxSet_iff l v hs i).mpr h⟩

theorem sortedB_sound : ∀ l : List Int, sortedB l = true → Sorted l := by
  intro l
  induction l with
  | nil => intro _ i j _ h; simp at h
  | cons a t ih =>
    intro h i j hij hj
    cases t with
    | nil => simp at hj; omega
    | cons b t' =>
      simp only [sortedB, Bool.and_eq_true, decide_eq_true_eq] at h
      have ht := ih h.2
      have hmono : ∀ k, k < (b :: t').length → a < el (b :: t') k := by
        intro k hk
        by_cases hk0 : k = 0
        · subst hk0; simpa [el] using h.1
        · have := ht 0 k (by omega) hk
          have h0 : el (b :: t') 0 = b := by simp [el]
          omega
      cases i with
      | zero =>
        cases j with
        | zero => omega
        | succ j =>
          have : el (a :: b :: t') 0 = a := by simp [el]
          rw [this]
          have hj' : j < (b :: t').length := by simpa using hj
          have : el (a :: b :: t') (j + 1) = el (b :: t') j := by simp [el]
          rw [this]; exact hmono j hj'
      | succ i =>
        cases j with
        | zero => omega
        | succ j =>
          have e1 : el (a :: b :: t') (i + 1) = el (b :: t') i := by simp [el]
          have e2 : el (a :: b :: t') (j + 1) = el (b :: t') j := by simp [el]
          rw [e1, e2]
          exact ht i j (by omega) (by simpa using hj)

end Fix8Model.Realm
