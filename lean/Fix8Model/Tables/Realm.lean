/-!
Model of `RealmBase::get_rlm_idx`, `RealmBase::is_valid` (include/fix8/field.hpp) over integer-coded
domains (int and char realms).  `std::lower_bound` is modelled by its bisection (libstdc++
`__lower_bound`: halve `len`, compare the middle element), so the model is also defined on unsorted
tables; `std::binary_search` is `lower_bound` followed by `!(val < *it)`.
-/
namespace Fix8Model.Realm

def el (l : List Int) (i : Nat) : Int := l.getD i 0

/-- `std::lower_bound(rng + first, rng + first + len, v) - rng` -/
def lowerBound (l : List Int) (v : Int) : (first len fuel : Nat) → Nat
  | first, _, 0 => first
  | first, len, fuel + 1 =>
    if len = 0 then first
    else
      let half := len / 2
      let mid := first + half
      if el l mid < v then lowerBound l v (mid + 1) (len - half - 1) fuel
      else lowerBound l v first half fuel

def lb (l : List Int) (v : Int) : Nat := lowerBound l v 0 l.length l.length

/-- `get_rlm_idx` for `dt_set` (`none` is -1) -/
def getRlmIdxSet (l : List Int) (v : Int) : Option Nat :=
  let r := lb l v
  if r ≠ l.length ∧ ¬ (v < el l r) then some r else none

/-- `is_valid` for `dt_set` -/
def isValidSet (l : List Int) (v : Int) : Bool :=
  let r := lb l v
  decide (r ≠ l.length ∧ ¬ (v < el l r))

/-- `get_rlm_idx` for `dt_range` with bounds `lo`, `hi` -/
def getRlmIdxRange (lo hi v : Int) : Option Nat :=
  if lo = v then some 0 else if hi = v then some 1 else none

/-- `is_valid` for `dt_range` -/
def isValidRange (lo hi v : Int) : Bool := decide (lo ≤ v ∧ v ≤ hi)

/-- strictly increasing table -/
def Sorted (l : List Int) : Prop := ∀ i j, i < j → j < l.length → el l i < el l j

def sortedB : List Int → Bool
  | [] => true
  | [_] => true
  | a :: b :: t => decide (a < b) && sortedB (b :: t)

end Fix8Model.Realm
