import Fix8Model.Tables.RealmLemmas
/-!
Model of `presorted_set<K, T, Comp>` (include/fix8/f8types.hpp / the FieldTrait specialisation in
traits.hpp) with integer keys, and of the `FieldTrait_Hash_Array` lookup.

The array contents are a `List Int` of length `_sz`; `rsz` is the allocated size.  `find` uses
`std::equal_range` = (`lower_bound`, `upper_bound`), both modelled by their bisection.
-/
namespace Fix8Model.SortedSet
open Fix8Model.Realm

/-- `std::upper_bound` bisection -/
def upperBound (l : List Int) (v : Int) : (first len fuel : Nat) → Nat
  | first, _, 0 => first
  | first, len, fuel + 1 =>
    if len = 0 then first
    else
      let half := len / 2
      let mid := first + half
      if v < el l mid then upperBound l v first half fuel
      else upperBound l v (mid + 1) (len - half - 1) fuel

def ub (l : List Int) (v : Int) : Nat := upperBound l v 0 l.length l.length

structure PSet where
  arr : List Int
  rsz : Nat
  reserve : Nat
deriving Repr, DecidableEq

def calcReserve (sz res : Nat) : Nat :=
  if sz = 0 then res else (if sz * res / 100 = 0 then 1 else sz * res / 100)

/-- `find(what, answer)`: insertion point and whether the element is present -/
def find (s : PSet) (v : Int) : Nat × Bool := (lb s.arr v, lb s.arr v != ub s.arr v)

/-- `insert(what)`: new state and the `bool` of the result -/
def insert (s : PSet) (v : Int) : PSet × Bool :=
  if s.arr.length = 0 then ({ s with arr := [v] }, true)
  else
    let (wh, found) := find s v
    if found then (s, false)
    else if s.arr.length < s.rsz then
      ({ s with arr := s.arr.take wh ++ v :: s.arr.drop wh }, true)
    else
      ({ s with arr := s.arr.take wh ++ v :: s.arr.drop wh,
                rsz := s.arr.length + calcReserve s.arr.length s.reserve }, true)

def clear (s : PSet) : PSet := { s with arr := [] }

/-- `FieldTrait_Hash_Array::_arr[k]`: the last offset whose tag is `k`, 0 when there is none -/
def haCell (tags : List Int) (k : Int) : Nat :=
  (tags.zipIdx.foldl (fun acc p => if p.1 = k then p.2 else acc) 0)

/-- hash-array `find(key)`: `key < _sz && _arr[ha[key]]._fnum == key` -/
def haFind (tags : List Int) (k : Int) : Option Nat :=
  let sz := el tags (tags.length - 1) + 1
  if 0 ≤ k ∧ k < sz ∧ el tags (haCell tags k) = k then some (haCell tags k) else none

end Fix8Model.SortedSet
