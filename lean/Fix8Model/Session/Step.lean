import Fix8Model.Session.Types
/-!
The session step function, path by path after runtime/session.cpp (line numbers of the base commit):
`send_process` (1015-1127), `enforce`/`compid_check`/`sequence_check` (253-265, 415-468), the handlers
(470-769), `process` (278-413), `start`/`recover_seqnums` (167-227, 1130-1143), `update_persist_seqnums` (267-275),
`FIXWriter::write_batch` (connection.hpp 383-411), `Persister::get(from,to,session,callback)` (persist.cpp 322-361,
filepersist.cpp 169-226) through the store specification.
Exceptions are modelled by the `exc` field of `R` (`some true` = an f8Exception with force_logoff, `some false` = any other
f8Exception): the state reached and the frames written up to the throw are kept, as in the code.
-/
namespace Fix8Model.Session
open Fix8Model.Store

/-- request to `send_process` -/
structure Snd where
  m : Msg
  hasSeq : Bool := false     -- the header already carries MsgSeqNum (a message decoded from the store for replay)
  custom : Nat := 0          -- Message::_custom_seqnum
  noInc : Bool := false      -- Message::_no_increment
  eob : Bool := true         -- Message::_end_of_batch
deriving Repr

/-- `create_msg(type)`; SenderCompID / TargetCompID are filled by send_process from `_sid` -/
def Sess.fresh (s : Sess) (t : MT) : Msg := { mtype := t, seq := 0, snd := s.cfg.sender, tgt := s.cfg.target }

def mkHeartbeat (s : Sess) (trq : Option Nat) : Msg := { s.fresh .heartbeat with testReq := trq }
def mkReject (s : Sess) (ref : Nat) : Msg := { s.fresh .reject with refSeq := some ref }
def mkLogon (s : Sess) : Msg := s.fresh .logon
def mkLogout (s : Sess) : Msg := s.fresh .logout
def mkResend (s : Sess) (b e : Nat) : Msg := { s.fresh .resendRequest with beginNo := some b, endNo := some e }
def mkSeqReset (s : Sess) (n : Nat) : Msg := { s.fresh .sequenceReset with newSeq := some n, gapFill := some true }
/-- the application message of the harness: NewOrderSingle ('D' = 68) with ClOrdID = pid -/
def mkOrder (s : Sess) (pid : Nat) : Msg := { s.fresh (.app 68) with pid := some pid, admin := false }

/-- `Session::send_process` (with `_always_seqnum_assign = false`, socket writes succeed) -/
def sendProcess (s : Sess) (q : Snd) : Sess × List Out :=
  let isDup : Bool := if q.hasSeq then true else q.m.possDup.isSome
  let m1 : Msg :=
    if q.hasSeq then { q.m with possDup := (if q.m.possDup.isSome then q.m.possDup else some true), ost := some q.m.st }
    else { q.m with seq := (if q.custom ≠ 0 then q.custom else s.ns) }
  let m : Msg := { m1 with st := s.now }
  let outs : List Out := if q.eob then (s.buf ++ [m]).map Out.wire else []
  let buf' : List Msg := if q.eob then [] else s.buf ++ [m]
  -- row 13: at end_of_batch with a non-empty buffer `ptr` points into the buffer, which is cleared before the store
  let rec_ : Rec := if s.code.tailFromBuffer = true ∧ q.eob = true ∧ s.buf ≠ [] then Rec.empty else Rec.frame m
  let store' : Option (SpecG Rec) :=
    if isDup then s.store
    else s.store.map fun st => ((if m.admin then st else st.put s.ns rec_).cput (s.ns + 1) s.nr)
  let ns' : Nat := if isDup = false ∧ q.custom = 0 ∧ q.noInc = false ∧ m.mtype ≠ .sequenceReset then s.ns + 1 else s.ns
  ({ s with buf := buf', store := store', ns := ns' }, outs)

/-- result of a handler: state, outputs so far, pending exception -/
structure R where
  s : Sess
  outs : List Out := []
  exc : Option Bool := none
deriving Repr

def R.ok (s : Sess) : R := ⟨s, [], none⟩
def R.throw (s : Sess) (force : Bool) : R := ⟨s, [], some force⟩
def R.andThen (r : R) (f : Sess → R) : R :=
  match r.exc with
  | some _ => r
  | none => let r2 := f r.s; ⟨r2.s, r.outs ++ r2.outs, r2.exc⟩
def sendR (s : Sess) (q : Snd) : R := let r := sendProcess s q; ⟨r.1, r.2, none⟩

/-- `sequence_check(seqnum, msg)`: the Bool is its return value -/
def sequenceCheck (s : Sess) (sq : Nat) (m : Msg) : R × Bool :=
  if sq > s.nr then
    if s.state = .continuous then
      let r := sendProcess s { m := mkResend s s.nr 0 }
      (⟨{ r.1 with state := .resendRequestSent }, r.2, none⟩, false)
    else (R.throw s true, false)                       -- InvalidMsgSequence (no SessionConfig)
  else if sq < s.nr then
    if m.possDup ≠ some true then (R.throw s true, false)     -- MsgSequenceTooLow
    else match m.ost with
      | some o => if o > m.st then (R.throw s true, false) else (R.ok s, true)   -- BadSendingTime
      | none => (R.ok s, true)
  else (R.ok s, true)

/-- `compid_check` fails (BadCompidId) -/
def compidBad (s : Sess) (m : Msg) : Prop := s.cfg.enforce = true ∧ (m.tgt ≠ s.cfg.sender ∨ m.snd ≠ s.cfg.target)
instance (s : Sess) (m : Msg) : Decidable (compidBad s m) := by unfold compidBad; infer_instance

/-- `enforce(seqnum, msg)`: the Bool is its return value ("true if the message FAILS the rules") -/
def enforce (s : Sess) (sq : Nat) (m : Msg) : R × Bool :=
  if s.state.established then
    if s.state ≠ .logonReceived ∧ compidBad s m then (R.throw s true, true)
    else if m.mtype ≠ .sequenceReset then
      let c := sequenceCheck s sq m
      (c.1, !c.2)
    else (R.ok s, true)
  else (R.ok s, true)

/-- `handle_application` of every sample application: `enforce(seqnum, msg) || deliver` -/
def handleApplication (s : Sess) (sq : Nat) (m : Msg) : R :=
  let e := enforce s sq m
  match e.1.exc with
  | some _ => e.1
  | none => if e.2 then e.1 else ⟨e.1.s, e.1.outs ++ [Out.deliver sq m], none⟩

def handleHeartbeat (s : Sess) (sq : Nat) (m : Msg) : R :=
  (enforce s sq m).1.andThen fun s =>
    R.ok (if s.state = .testRequestSent then { s with state := .continuous } else s)

def handleTestRequest (s : Sess) (sq : Nat) (m : Msg) : R :=
  (enforce s sq m).1.andThen fun s => sendR s { m := mkHeartbeat s m.testReq }

def handleLogout (s : Sess) (sq : Nat) (m : Msg) : R := (enforce s sq m).1

def handleSequenceReset (s : Sess) (sq : Nat) (m : Msg) : R :=
  (enforce s sq m).1.andThen fun s =>
    let r : R := match m.newSeq with
      | some n => if n ≥ s.nr then R.ok { s with nr := n - 1 } else R.throw s true      -- MsgSequenceTooLow
      | none => R.ok s
    r.andThen fun s => R.ok (if s.state = .resendRequestSent then { s with state := .continuous } else s)

/-- one record callback of `retrans_callback` (scenarios #2/#3, then the replay through send_process) -/
def replayOne (s : Sess) (b last key : Nat) (rc : Rec) : R :=
  let gap : R :=
    if last ≠ 0 then
      (if last + 1 < key then sendR s { m := mkSeqReset s key, custom := (if s.code.gapAtNextSend then s.ns else last + 1) }
       else R.ok s)
    else
      (if key > b then sendR s { m := mkSeqReset s key, custom := (if s.code.gapAtNextSend then 0 else b) }
       else R.ok s)
  gap.andThen fun s =>
    match rc with
    | .empty => R.throw s false                        -- Message::factory("") throws InvalidMessage
    | .frame f => sendR s { m := f, hasSeq := true }

/-- the record loop of `Persister::get(from, to, session, callback)`; returns the result and `rctx._last` -/
def replayLoop (b : Nat) : Sess → Nat → List (Nat × Rec) → R × Nat
  | s, last, [] => (R.ok s, last)
  | s, last, (k, rc) :: rest =>
    let r1 := replayOne s b last k rc
    match r1.exc with
    | some _ => (r1, k)
    | none =>
      let r2 := replayLoop b r1.s k rest
      (⟨r2.1.s, r1.outs ++ r2.1.outs, r2.1.exc⟩, r2.2)

/-- the `_no_more_records` callback (scenarios #4/#5 and #1/#6) -/
def replayFinal (s : Sess) (b interrupted last : Nat) : R :=
  if last = 0 then
    let nseq := if b ≥ interrupted then b + 1 else interrupted
    (sendR s { m := mkSeqReset s nseq, custom := b }).andThen fun s =>
      R.ok { s with ns := nseq, state := .continuous }
  else
    let nseq := if last + 1 ≥ interrupted then last + 2 else interrupted
    (sendR s { m := mkSeqReset s nseq, custom := last + 1 }).andThen fun s =>
      R.ok { s with ns := nseq, state := .continuous }

/-- `_persist->get(begin, end, *this, &Session::retrans_callback)` -/
def retransmit (s : Sess) (st : SpecG Rec) (b e : Nat) : R :=
  let recs := (st.range b e).filterMap fun k => (st.get k).map fun rc => (k, rc)
  let l := replayLoop b s 0 recs
  match l.1.exc with
  | some _ => l.1
  | none => ⟨(replayFinal l.1.s b s.ns l.2).s, l.1.outs ++ (replayFinal l.1.s b s.ns l.2).outs, (replayFinal l.1.s b s.ns l.2).exc⟩

def handleResendRequest (s : Sess) (sq : Nat) (m : Msg) : R :=
  (enforce s sq m).1.andThen fun s =>
    if s.state ≠ .resendRequestReceived then
      let b := m.beginNo.getD 0
      let e := m.endNo.getD 0
      if (b > e ∧ e ≠ 0) ∨ b = 0 then sendR s { m := mkReject s sq }
      else match s.store with
        | none =>
          let nseq := if b ≥ s.ns then b + 1 else s.ns                   -- scenarios #7/#8
          (sendR s { m := mkSeqReset s nseq, custom := b }).andThen fun s => R.ok { s with ns := nseq }
        | some st => retransmit { s with state := .resendRequestReceived } st b e
    else R.ok s

/-- `handle_logon`, initiator branch.  `id != _sid` is `SessionID::operator!=` (either CompID differs). -/
def handleLogon (s : Sess) (sq : Nat) (m : Msg) : R :=
  if s.state = .continuous then sendR s { m := mkReject s sq }
  else
    let s := { s with state := .logonReceived }
    if (m.tgt ≠ s.cfg.sender ∨ m.snd ≠ s.cfg.target) ∧ s.cfg.enforce = true then
      R.ok { s with shutdown := true, state := .terminated }
    else (enforce s sq m).1.andThen fun s => R.ok { s with state := .continuous }

/-- the dispatch of `process` -/
def dispatch (s : Sess) (sq : Nat) (m : Msg) : R :=
  match m.mtype with
  | .app _ => handleApplication s sq m
  | .heartbeat => handleHeartbeat s sq m
  | .testRequest => handleTestRequest s sq m
  | .resendRequest => handleResendRequest s sq m
  | .reject => R.ok s                                   -- Session::handle_reject: no check at all
  | .sequenceReset => handleSequenceReset s sq m
  | .logout => handleLogout s sq m
  | .logon => handleLogon s sq m

/-- `update_persist_seqnums` -/
def updatePersist (s : Sess) : Sess := { s with store := s.store.map fun st => st.cput s.ns s.nr }

/-- catch branch of `process` for an f8Exception without force_logoff -/
def softReject (s : Sess) (sq : Nat) (pre : List Out) : Sess × List Out :=
  let r := sendProcess s { m := mkReject s sq }
  (updatePersist { r.1 with nr := r.1.nr + 1 }, pre ++ r.2)

/-- catch branch of `process` for an f8Exception with force_logoff (not `_reliable`, not `_silent_disconnect`) -/
def logoff (s : Sess) (pre : List Out) : Sess × List Out :=
  if s.state = .logonReceived then
    let r := sendProcess { s with state := .terminated } { m := mkLogout s, noInc := true }
    ({ r.1 with state := .logoffSent, shutdown := true }, pre ++ r.2)
  else ({ s with shutdown := true }, pre)

/-- `Session::process(from)` -/
def process (s : Sess) (scan : Option Nat) (dec : Dec) : Sess × List Out :=
  match scan with
  | none => softReject s 0 []                           -- no "34=" found: InvalidMessage, seqnum still 0
  | some sq =>
    match dec with
    | .null => (s, [])
    | .throws true => logoff s []
    | .throws false => softReject s sq []
    | .ok m =>
      let pre : List Out := if m.admin then [Out.admin sq] else []
      let r := dispatch s sq m
      match r.exc with
      | some true => logoff r.s (pre ++ r.outs)
      | some false => softReject r.s sq (pre ++ r.outs)
      | none =>
        let s2 := updatePersist { r.s with nr := r.s.nr + 1 }
        (if m.mtype = .logout then { s2 with shutdown := true } else s2, pre ++ r.outs)

/-- `write_batch`: a single message is an ordinary write; otherwise only the last one has end_of_batch -/
def sendBatch (s : Sess) : List Nat → Sess × List Out
  | [] => (s, [])
  | [p] => sendProcess s { m := mkOrder s p }
  | p :: q :: rest =>
    let r := sendProcess s { m := mkOrder s p, eob := false }
    let r2 := sendBatch r.1 (q :: rest)
    (r2.1, r.2 ++ r2.2)

/-- a new Session object over the current store + `start(conn, false, ss, rs)` (initiator) -/
def startSession (s : Sess) (ss rs : Nat) : Sess × List Out :=
  let s0 : Sess := { cfg := s.cfg, code := s.code, started := true, state := .notLoggedIn, ns := 1, nr := 1, buf := [],
                     store := s.store, shutdown := false, now := s.now }
  let s1 : Sess := match s.store.bind (·.ctrl) with
    | some (a, b) => { s0 with ns := a, nr := b }          -- recover_seqnums
    | none => s0
  let s2 : Sess := { s1 with ns := (if ss ≠ 0 then ss else s1.ns), nr := (if rs ≠ 0 then rs else s1.nr) }
  let r := sendProcess s2 { m := mkLogon s2 }
  ({ r.1 with state := .logonSent }, r.2)

/-- THE step function -/
def Sess.step (s : Sess) (ev : Ev) : Sess × List Out :=
  match ev with
  | .clock ms => ({ s with now := ms }, [])
  | .start ss rs => startSession s ss rs
  | .inbound scan dec => if s.started = true ∧ s.shutdown = false then process s scan dec else (s, [])
  | .appSend pid custom noInc =>
    if s.started = true ∧ s.shutdown = false then sendProcess s { m := mkOrder s pid, custom := custom, noInc := noInc } else (s, [])
  | .admSend custom noInc =>
    if s.started = true ∧ s.shutdown = false then sendProcess s { m := mkHeartbeat s none, custom := custom, noInc := noInc } else (s, [])
  | .batch pids => if s.started = true ∧ s.shutdown = false then sendBatch s pids else (s, [])

/-- fold over a history: final state and all outputs in order -/
def Sess.run (s : Sess) : List Ev → Sess × List Out
  | [] => (s, [])
  | ev :: rest => let r := s.step ev; let r2 := Sess.run r.1 rest; (r2.1, r.2 ++ r2.2)

/-- the world before any session exists -/
def Sess.init (cfg : Cfg) (code : Code) (persist : Bool) : Sess :=
  { cfg := cfg, code := code, store := if persist then some ⟨[], none⟩ else none }

end Fix8Model.Session
