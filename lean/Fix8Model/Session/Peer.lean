import Fix8Model.Session.Step
/-!
C20: an independent, small model of a FIX-CONFORMANT counterparty, and its composition with the session step function
(`Sess.step`, Fix8Model/Session/Step.lean – reused unchanged).

The counterparty (`Peer`)
* numbers everything it sends consecutively (`ns = |log| + 1`; `log[i]` describes the message it sent with MsgSeqNum `i+1`:
  an application message with its ClOrdID, or an administrative message; with the SendingTime it carried);
* answers a ResendRequest [b, e] (e = 0: "to infinity") by walking exactly the requested numbers: an application message is
  re-sent with its original MsgSeqNum, PossDupFlag=Y and OrigSendingTime = its original SendingTime; every maximal run of
  administrative messages is replaced by ONE SequenceReset-GapFill (MsgSeqNum = first number of the run, NewSeqNo = first
  number after it) – FIX 4.2 vol. 2 "Message recovery"; then it continues with its next number;
* `trailing = true` is the variant that fix8's own replay implements (retrans_callback scenarios #1/#4): the replay is closed
  by a gap fill that burns one fresh number (MsgSeqNum = ns, NewSeqNo = ns + 1);
* its Logon carries its next number – which is ahead of what the session expects when messages were lost before.

The composition (`Comp.step`) is scheduled by the history itself: a history is a list of `CEv`
  `connect`        (re)connection: a new Session object over the persister, `start()`, the counterparty's Logon reply
  `lose k`         the counterparty sends `k` while the connection is down / the frame is dropped on the way: it never arrives
  `peer k infl`    the counterparty sends `k`, which arrives; `infl` are the further frames it has written BEFORE it reads
                   what the session answered (frames in flight when a ResendRequest arrives); then it answers every
                   ResendRequest the session raised, and the session consumes the answer
  `sess pid`       the session's application sends a message
  `tick ms`        the (common, virtual) clock advances
Frames are abstract `Msg` records; the codec is not part of this model: a frame built by the counterparty decodes to
itself and the `34=` scan of `process` finds its MsgSeqNum (`.inbound (some m.seq) (.ok m)`) – in the correspondence run the
harness's peer builds real FIX frames and every one of them is decoded by the real Message::factory.
-/
namespace Fix8Model.Session

/-- new traffic of the counterparty: an application message (NewOrderSingle with this ClOrdID) or an administrative one (Heartbeat) -/
inductive PKind
  | app (pid : Nat)
  | hb
deriving Repr, DecidableEq

/-- one line of the counterparty's outbound log -/
structure Entry where
  app : Option Nat      -- ClOrdID of an application message; `none`: administrative (Logon, Heartbeat, a burnt number)
  st : Nat              -- the SendingTime it was sent with
deriving Repr, DecidableEq

structure Peer where
  me : Nat := 2               -- its CompID (the session's TargetCompID)
  you : Nat := 1              -- the session's CompID
  trailing : Bool := false    -- closes every replay with a gap fill of one fresh number (what fix8 itself does)
  log : List Entry := []
  now : Nat := 0
deriving Repr

namespace Peer

/-- the number its next new message will carry -/
def ns (p : Peer) : Nat := p.log.length + 1

def fApp (p : Peer) (seq pid : Nat) : Msg :=
  { mtype := .app 68, seq := seq, st := p.now, snd := p.me, tgt := p.you, pid := some pid, admin := false }
def fHb (p : Peer) (seq : Nat) : Msg := { mtype := .heartbeat, seq := seq, st := p.now, snd := p.me, tgt := p.you }
def fLogon (p : Peer) (seq : Nat) : Msg := { mtype := .logon, seq := seq, st := p.now, snd := p.me, tgt := p.you }
/-- a retransmission: original number, PossDupFlag=Y, OrigSendingTime = the original SendingTime -/
def fReplay (p : Peer) (seq pid ost : Nat) : Msg :=
  { mtype := .app 68, seq := seq, possDup := some true, st := p.now, ost := some ost, snd := p.me, tgt := p.you, pid := some pid, admin := false }
/-- SequenceReset-GapFill standing for the numbers [seq, newSeq) -/
def fFill (p : Peer) (seq newSeq : Nat) : Msg :=
  { mtype := .sequenceReset, seq := seq, possDup := some true, st := p.now, ost := some p.now, snd := p.me, tgt := p.you,
    newSeq := some newSeq, gapFill := some true }

/-- send a new message: it takes the next number and is logged -/
def emit (p : Peer) (k : PKind) : Peer × Msg :=
  match k with
  | .app pid => ({ p with log := p.log ++ [⟨some pid, p.now⟩] }, p.fApp p.ns pid)
  | .hb => ({ p with log := p.log ++ [⟨none, p.now⟩] }, p.fHb p.ns)

def emitLogon (p : Peer) : Peer × Msg := ({ p with log := p.log ++ [⟨none, p.now⟩] }, p.fLogon p.ns)

def emitAll (p : Peer) : List PKind → Peer × List Msg
  | [] => (p, [])
  | k :: r => let x := p.emit k; let y := x.1.emitAll r; (y.1, x.2 :: y.2)

/-- the replay of the logged entries `es`, the first of which has number `k`; `open_` = first number of the run of
administrative messages that is currently being collected into one gap fill -/
def segs (p : Peer) : List Entry → Nat → Option Nat → List Msg
  | [], _, none => []
  | [], k, some f => [p.fFill f k]
  | e :: r, k, o =>
    match e.app with
    | some pid => (match o with | some f => [p.fFill f k] | none => []) ++ p.fReplay k pid e.st :: p.segs r (k + 1) none
    | none => p.segs r (k + 1) (some (o.getD k))

/-- last number covered by the answer to ResendRequest [b, e] -/
def hiOf (p : Peer) (e : Nat) : Nat := if e = 0 ∨ e ≥ p.ns then p.ns - 1 else e

/-- the answer to ResendRequest [b, e] -/
def answer (p : Peer) (b e : Nat) : Peer × List Msg :=
  let body := if b = 0 then [] else p.segs ((p.log.take (p.hiOf e)).drop (b - 1)) b none
  if p.trailing = true ∧ p.hiOf e = p.ns - 1 then
    ({ p with log := p.log ++ [⟨none, p.now⟩] }, body ++ [p.fFill p.ns (p.ns + 1)])
  else (p, body)

end Peer

/-! ### composition -/

/-- one frame handed to the session (or one call into it) and what came out -/
structure Micro where
  inb : Option Msg
  outs : List Out
  after : Sess
deriving Repr

def outsOf (l : List Micro) : List Out := l.flatMap (·.outs)

/-- the session consumes frames in order -/
def feed (s : Sess) : List Msg → Sess × List Micro
  | [] => (s, [])
  | m :: r =>
    let x := s.step (.inbound (some m.seq) (.ok m))
    let y := feed x.1 r
    (y.1, ⟨some m, x.2, x.1⟩ :: y.2)

/-- the ResendRequests among the session's outputs: (BeginSeqNo, EndSeqNo) -/
def rrOf : List Out → List (Nat × Nat)
  | [] => []
  | .wire m :: r => if m.mtype = .resendRequest then (m.beginNo.getD 0, m.endNo.getD 0) :: rrOf r else rrOf r
  | _ :: r => rrOf r

/-- the ClOrdIDs that reached the application, in order -/
def dlvOf : List Out → List Nat
  | [] => []
  | .deliver _ m :: r => m.pid.getD 0 :: dlvOf r
  | _ :: r => dlvOf r

structure Comp where
  s : Sess
  p : Peer
  dlv : List Nat := []        -- ghost: every ClOrdID delivered so far (`dlvOf` of all outputs, see `run_dlv`)
  unanswered : Nat := 0       -- ghost: ResendRequests raised while the session consumed an answer or a Logon (never answered here)
deriving Repr

inductive CEv
  | connect
  | lose (k : PKind)
  | peer (k : PKind) (infl : List PKind)
  | sess (pid : Nat)
  | tick (ms : Nat)
deriving Repr, DecidableEq

namespace Comp

/-- the counterparty answers the requests one after the other; the session consumes each answer -/
def answerAll (c : Comp) : List (Nat × Nat) → Comp × List Micro
  | [] => (c, [])
  | (b, e) :: r =>
    let a := c.p.answer b e
    let f := feed c.s a.2
    let c1 : Comp := { s := f.1, p := a.1, dlv := c.dlv ++ dlvOf (outsOf f.2), unanswered := c.unanswered + (rrOf (outsOf f.2)).length }
    let y := c1.answerAll r
    (y.1, f.2 ++ y.2)

def step (c : Comp) (ev : CEv) : Comp × List Micro :=
  match ev with
  | .tick ms =>
    let t := c.p.now + ms
    ({ c with s := (c.s.step (.clock t)).1, p := { c.p with now := t } }, [])
  | .connect =>
    let x := c.s.step (.start 0 0)
    let e := c.p.emitLogon
    let f := feed x.1 [e.2]
    ({ s := f.1, p := e.1, dlv := c.dlv ++ dlvOf (x.2 ++ outsOf f.2), unanswered := c.unanswered + (rrOf (outsOf f.2)).length },
     ⟨none, x.2, x.1⟩ :: f.2)
  | .lose k => ({ c with p := (c.p.emit k).1 }, [])
  | .peer k infl =>
    let e := c.p.emit k
    let f1 := feed c.s [e.2]
    let e2 := e.1.emitAll infl
    let f2 := feed f1.1 e2.2
    let c1 : Comp := { c with s := f2.1, p := e2.1, dlv := c.dlv ++ dlvOf (outsOf (f1.2 ++ f2.2)) }
    let y := c1.answerAll (rrOf (outsOf (f1.2 ++ f2.2)))
    (y.1, f1.2 ++ f2.2 ++ y.2)
  | .sess pid =>
    let x := c.s.step (.appSend pid 0 false)
    ({ c with s := x.1, dlv := c.dlv ++ dlvOf x.2 }, [⟨none, x.2, x.1⟩])

def run (c : Comp) : List CEv → Comp × List Micro
  | [] => (c, [])
  | ev :: r => let x := c.step ev; let y := run x.1 r; (y.1, x.2 ++ y.2)

/-- before anything: no Session object yet, an empty persister, the counterparty has sent nothing -/
def init (enforce trailing : Bool) (t0 : Nat := 0) : Comp :=
  { s := { Sess.init ⟨enforce, 1, 2⟩ Code.fixed true with now := t0 }, p := { trailing := trailing, now := t0 } }

end Comp

/-! ### the three ways the composition leaves the property (known-finding classes), as predicates on (state, event) -/

/-- the numbers the counterparty has sent and the session has not yet seen in order -/
def Comp.behind (c : Comp) : Prop := c.s.nr < c.p.ns

/-- class `logon-ahead`: a (re)connection while numbers are missing – the counterparty's Logon carries a MsgSeqNum
above the one the new Session object expects (the number it recovers from the persister) -/
def LogonAhead (c : Comp) (ev : CEv) : Prop :=
  ev = .connect ∧ (c.s.step (.start 0 0)).1.nr < c.p.ns

/-- class `frames-in-flight`: the arriving frame makes the session raise a ResendRequest and the counterparty has
further frames in flight -/
def InFlight (c : Comp) (ev : CEv) : Prop :=
  ∃ k infl, ev = .peer k infl ∧ infl ≠ [] ∧ rrOf (outsOf (feed c.s [(c.p.emit k).2]).2) ≠ []

/-- class `replay-without-gap-fill`: the session raises a ResendRequest and the conformant answer to it consists of
retransmissions only (every requested number is an application message, and the counterparty does not burn a number) -/
def BareReplay (c : Comp) (ev : CEv) : Prop :=
  ∃ k infl, ev = .peer k infl ∧
    ∃ be ∈ rrOf (outsOf (feed c.s [(c.p.emit k).2]).2),
      ∀ m ∈ (((c.p.emit k).1.emitAll infl).1.answer be.1 be.2).2, m.mtype ≠ .sequenceReset

instance (c : Comp) (ev : CEv) : Decidable (LogonAhead c ev) := by unfold LogonAhead; infer_instance
instance (c : Comp) (ev : CEv) : Decidable (InFlight c ev) := by
  unfold InFlight
  cases ev with
  | peer k infl =>
    exact decidable_of_iff (infl ≠ [] ∧ rrOf (outsOf (feed c.s [(c.p.emit k).2]).2) ≠ [])
      ⟨fun h => ⟨k, infl, rfl, h⟩, fun ⟨_, _, he, h⟩ => by cases he; exact h⟩
  | _ => exact isFalse (fun ⟨_, _, he, _⟩ => by cases he)
instance (c : Comp) (ev : CEv) : Decidable (BareReplay c ev) := by
  unfold BareReplay
  cases ev with
  | peer k infl =>
    exact decidable_of_iff (∃ be ∈ rrOf (outsOf (feed c.s [(c.p.emit k).2]).2),
        ∀ m ∈ (((c.p.emit k).1.emitAll infl).1.answer be.1 be.2).2, m.mtype ≠ .sequenceReset)
      ⟨fun h => ⟨k, infl, rfl, h⟩, fun ⟨_, _, he, h⟩ => by cases he; exact h⟩
  | _ => exact isFalse (fun ⟨_, _, he, _⟩ => by cases he)

/-- a history that never meets one of the three classes -/
def Clean : Comp → List CEv → Prop
  | _, [] => True
  | c, ev :: r => ¬ LogonAhead c ev ∧ ¬ InFlight c ev ∧ ¬ BareReplay c ev ∧ Clean (c.step ev).1 r

instance : (c : Comp) → (h : List CEv) → Decidable (Clean c h)
  | _, [] => isTrue trivial
  | c, ev :: r => by
    unfold Clean
    have := instDecidableClean (c.step ev).1 r
    infer_instance

/-- the ClOrdIDs of the application messages among log entries, in order -/
def appsOf : List Entry → List Nat
  | [] => []
  | e :: r => match e.app with | some pid => pid :: appsOf r | none => appsOf r

end Fix8Model.Session
