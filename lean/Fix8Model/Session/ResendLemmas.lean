import Fix8Model.Session.SendLemmas
/-! the answer to a ResendRequest as an explicit list of frames (C18): the record loop of `Persister::get` driving
`retrans_callback` on the FIXED code writes exactly `expectLoop`, the closing callback exactly one gap fill -/
namespace Fix8Model.Session
open Fix8Model.Store

/-- SequenceReset-GapFill with MsgSeqNum `lo` announcing NewSeqNo `hi` -/
def gapFillMsg (s : Sess) (lo hi : Nat) : Msg :=
  { mtype := .sequenceReset, seq := lo, st := s.now, snd := s.cfg.sender, tgt := s.cfg.target, newSeq := some hi, gapFill := some true }

/-- retransmission of the stored frame `f`: same MsgSeqNum and body, PossDupFlag=Y, OrigSendingTime = its SendingTime, new SendingTime -/
def replayOf (s : Sess) (f : Msg) : Msg := { f with possDup := some true, ost := some f.st, st := s.now }

/-- first number not yet covered after `last` (0 = nothing replayed yet: the request's BeginSeqNo) -/
def startOf (b last : Nat) : Nat := if last = 0 then b else last + 1

/-- what the record callbacks write, given the records (number, stored frame) in ascending order -/
def expectLoop (s : Sess) (b : Nat) : Nat → List (Nat × Msg) → List Msg
  | _, [] => []
  | last, (k, f) :: rest =>
    (if startOf b last < k then [gapFillMsg s (startOf b last) k] else []) ++ [replayOf s f] ++ expectLoop s b k rest

/-- `rctx._last` after the record callbacks -/
def lastKey : Nat → List (Nat × Msg) → Nat
  | last, [] => last
  | _, (k, _) :: rest => lastKey k rest

/-- the parts of the state the frames of the answer depend on -/
def SameCtx (s s1 : Sess) : Prop :=
  s1.ns = s.ns ∧ s1.now = s.now ∧ s1.cfg = s.cfg ∧ s1.code = s.code ∧ s1.buf = [] ∧ s1.nr = s.nr ∧ s1.shutdown = s.shutdown ∧
  s1.started = s.started ∧ s1.store.map (·.msgs) = s.store.map (·.msgs) ∧ s1.state = s.state

theorem SameCtx.refl (s : Sess) (hb : s.buf = []) : SameCtx s s := ⟨rfl, rfl, rfl, rfl, hb, rfl, rfl, rfl, rfl, rfl⟩

/-- a gap fill with an explicit MsgSeqNum -/
theorem send_gapfill (s0 s : Sess) (hc : SameCtx s0 s) (lo hi : Nat) (hlo : lo ≠ 0) :
    (sendProcess s { m := mkSeqReset s hi, custom := lo }).2 = [Out.wire (gapFillMsg s0 lo hi)] ∧
    SameCtx s0 (sendProcess s { m := mkSeqReset s hi, custom := lo }).1 := by
  obtain ⟨c1, c2, c3, c4, c5, c6, c7, c8, c9, c10⟩ := hc
  rw [sendProcess_eq s _ c5 rfl]
  refine ⟨?_, ?_⟩
  · simp [builtFrame, mkSeqReset, Sess.fresh, gapFillMsg, hlo, c2, c3]
  · refine ⟨?_, c2, c3, c4, rfl, c6, c7, c8, ?_, c10⟩
    · simp [builtFrame, mkSeqReset, Sess.fresh, c1]
    · simp only [builtFrame, mkSeqReset, Sess.fresh]
      rw [← c9]
      cases s.store <;> simp [SpecG.cput]

/-- the replay of a stored frame -/
theorem send_replay (s0 s : Sess) (hc : SameCtx s0 s) (f : Msg) (hf : f.possDup = none) :
    (sendProcess s { m := f, hasSeq := true }).2 = [Out.wire (replayOf s0 f)] ∧
    SameCtx s0 (sendProcess s { m := f, hasSeq := true }).1 := by
  obtain ⟨c1, c2, c3, c4, c5, c6, c7, c8, c9, c10⟩ := hc
  rw [sendProcess_eq s _ c5 rfl]
  refine ⟨?_, ?_⟩
  · simp [builtFrame, replayOf, hf, c2]
  · exact ⟨by simp [c1], c2, c3, c4, rfl, c6, c7, c8, by simpa using c9, c10⟩

/-- the record loop on the fixed code: exactly `expectLoop`, no exception, context unchanged, `rctx._last` = last record -/
theorem replayLoop_expect (s0 : Sess) (b : Nat) (hb : b ≠ 0) (hcode : s0.code.gapAtNextSend = false) :
    ∀ (recs : List (Nat × Msg)) (s : Sess) (last : Nat), SameCtx s0 s →
      (∀ p ∈ recs, p.2.possDup = none ∧ p.1 ≠ 0) →
      (replayLoop b s last (recs.map fun p => (p.1, Rec.frame p.2))).1.outs = (expectLoop s0 b last recs).map Out.wire ∧
      (replayLoop b s last (recs.map fun p => (p.1, Rec.frame p.2))).1.exc = none ∧
      SameCtx s0 (replayLoop b s last (recs.map fun p => (p.1, Rec.frame p.2))).1.s ∧
      (replayLoop b s last (recs.map fun p => (p.1, Rec.frame p.2))).2 = lastKey last recs := by
  intro recs
  induction recs with
  | nil => intro s last hc _; exact ⟨rfl, rfl, hc, rfl⟩
  | cons x xs ih =>
    intro s last hc hall
    obtain ⟨k, f⟩ := x
    have hf := (hall (k, f) List.mem_cons_self).1
    have hk : k ≠ 0 := (hall (k, f) List.mem_cons_self).2
    have hcode' : s.code.gapAtNextSend = false := by rw [hc.2.2.2.1]; exact hcode
    -- one record callback
    have one : (replayOne s b last k (Rec.frame f)).outs =
          ((if startOf b last < k then [gapFillMsg s0 (startOf b last) k] else []) ++ [replayOf s0 f]).map Out.wire ∧
        (replayOne s b last k (Rec.frame f)).exc = none ∧ SameCtx s0 (replayOne s b last k (Rec.frame f)).s := by
      unfold replayOne
      by_cases hl : last = 0
      · subst hl
        simp only [ne_eq, not_true_eq_false, if_false, hcode', Bool.false_eq_true, startOf, if_true]
        by_cases hg : k > b
        · obtain ⟨g1, g2⟩ := send_gapfill s0 s hc b k hb
          obtain ⟨r1, r2⟩ := send_replay s0 _ g2 f hf
          simp only [hg, if_true, R.andThen, sendR, g1, r1]
          have : b < k := hg
          simp [this, r2]
        · obtain ⟨r1, r2⟩ := send_replay s0 s hc f hf
          have : ¬ b < k := hg
          simp only [hg, if_false, R.andThen, R.ok, sendR, r1, this]
          simp [r2]
      · simp only [ne_eq, hl, not_false_eq_true, if_true, hcode', Bool.false_eq_true, if_false, startOf]
        by_cases hg : last + 1 < k
        · obtain ⟨g1, g2⟩ := send_gapfill s0 s hc (last + 1) k (by omega)
          obtain ⟨r1, r2⟩ := send_replay s0 _ g2 f hf
          simp only [hg, if_true, R.andThen, sendR, g1, r1]
          simp [r2]
        · obtain ⟨r1, r2⟩ := send_replay s0 s hc f hf
          simp only [hg, if_false, R.andThen, R.ok, sendR, r1]
          simp [r2]
    obtain ⟨o1, o2, o3⟩ := one
    obtain ⟨i1, i2, i3, i4⟩ := ih (replayOne s b last k (Rec.frame f)).s k o3 (fun p hp => hall p (List.mem_cons_of_mem _ hp))
    simp only [List.map_cons, replayLoop, o2]
    refine ⟨?_, i2, i3, ?_⟩
    · rw [o1, i1]; simp [expectLoop]
    · rw [i4]; rfl

/-! ### the shape of the answer (pure list facts) -/

/-- the numbers a frame of the answer accounts for: a gap fill (administrative) `[MsgSeqNum, NewSeqNo)`, a replay its own number -/
def spanHi (w : Msg) : Nat := if w.admin then w.newSeq.getD 0 else w.seq + 1

/-- the frames tile `[a, b)` in ascending order without holes or overlaps -/
def Chain : Nat → List Msg → Nat → Prop
  | a, [], b => a = b
  | a, w :: ws, b => w.seq = a ∧ a < spanHi w ∧ Chain (spanHi w) ws b

theorem Chain.append : ∀ {l1 : List Msg} {a m b : Nat} {l2 : List Msg}, Chain a l1 m → Chain m l2 b → Chain a (l1 ++ l2) b
  | [], a, m, b, l2, h1, h2 => by simp only [Chain] at h1; subst h1; exact h2
  | w :: ws, a, m, b, l2, h1, h2 => ⟨h1.1, h1.2.1, Chain.append h1.2.2 h2⟩

/-- the records handed to the callback: ascending, each frame under its own number, none below the first uncovered number -/
structure RecsOK (b last : Nat) (recs : List (Nat × Msg)) : Prop where
  sorted : (recs.map (·.1)).Pairwise (· < ·)
  own : ∀ p ∈ recs, p.2.seq = p.1 ∧ p.2.admin = false
  lower : ∀ p ∈ recs, startOf b last ≤ p.1

theorem RecsOK.tail {b last k : Nat} {f : Msg} {rest : List (Nat × Msg)} (h : RecsOK b last ((k, f) :: rest)) (hk : k ≠ 0) :
    RecsOK b k rest := by
  refine ⟨(List.pairwise_cons.mp h.sorted).2, fun p hp => h.own p (List.mem_cons_of_mem _ hp), fun p hp => ?_⟩
  have : k < p.1 := (List.pairwise_cons.mp h.sorted).1 p.1 (List.mem_map.mpr ⟨p, hp, rfl⟩)
  simp only [startOf, hk, if_false]; omega

theorem startOf_pos (b last : Nat) (hb : b ≠ 0) : startOf b last ≠ 0 := by unfold startOf; split <;> omega

theorem expectLoop_chain (s : Sess) (b : Nat) (hb : b ≠ 0) : ∀ (recs : List (Nat × Msg)) (last : Nat), RecsOK b last recs →
    Chain (startOf b last) (expectLoop s b last recs) (startOf b (lastKey last recs))
  | [], last, _ => rfl
  | (k, f) :: rest, last, h => by
    have hlow : startOf b last ≤ k := h.lower (k, f) List.mem_cons_self
    have hown : f.seq = k ∧ f.admin = false := h.own (k, f) List.mem_cons_self
    have hk : k ≠ 0 := by have := startOf_pos b last hb; omega
    have ih := expectLoop_chain s b hb rest k (h.tail hk)
    have hsk : startOf b k = k + 1 := by simp [startOf, hk]
    have hrep : Chain k (replayOf s f :: expectLoop s b k rest) (startOf b (lastKey k rest)) := by
      refine ⟨hown.1, ?_, ?_⟩
      · simp [spanHi, replayOf, hown.2, hown.1]
      · have : spanHi (replayOf s f) = k + 1 := by simp [spanHi, replayOf, hown.2, hown.1]
        rw [this, ← hsk]; exact ih
    simp only [expectLoop, lastKey]
    by_cases hg : startOf b last < k
    · simp only [hg, if_true, List.cons_append, List.nil_append]
      refine ⟨rfl, ?_, ?_⟩
      · simp [spanHi, gapFillMsg]; exact hg
      · have : spanHi (gapFillMsg s (startOf b last) k) = k := by simp [spanHi, gapFillMsg]
        rw [this]; exact hrep
    · simp only [hg, if_false, List.nil_append, List.cons_append]
      have : startOf b last = k := by omega
      rw [this]; exact hrep

/-- every record is replayed -/
theorem expectLoop_complete (s : Sess) (b : Nat) (recs : List (Nat × Msg)) : ∀ (last : Nat) (p : Nat × Msg), p ∈ recs →
    replayOf s p.2 ∈ expectLoop s b last recs := by
  induction recs with
  | nil => intro last p hp; cases hp
  | cons x rest ih =>
    intro last p hp
    obtain ⟨k, f⟩ := x
    simp only [expectLoop, List.mem_append, List.mem_singleton]
    rcases List.mem_cons.mp hp with hp | hp
    · subst hp; exact Or.inl (Or.inr rfl)
    · exact Or.inr (ih k p hp)

/-- every frame of the loop is the replay of a record, or a gap fill in front of a record that covers no number `Q` holds of,
`Q` being any predicate all of whose instances from the first uncovered number on are records -/
theorem expectLoop_sound (s : Sess) (b : Nat) (hb : b ≠ 0) (Q : Nat → Prop) : ∀ (recs : List (Nat × Msg)) (last : Nat), RecsOK b last recs →
    (∀ n, Q n → startOf b last ≤ n → n ∈ recs.map (·.1)) →
    (∀ w ∈ expectLoop s b last recs,
      (w.admin = false ∧ ∃ p ∈ recs, w = replayOf s p.2) ∨
      (w.admin = true ∧ ∃ lo hi, w = gapFillMsg s lo hi ∧ lo < hi ∧ startOf b last ≤ lo ∧ ∀ n, lo ≤ n → n < hi → ¬ Q n)) ∧
    (∀ n, Q n → startOf b (lastKey last recs) ≤ n → False)
  | [], last, _, hq => by
    refine ⟨fun w hw => ?_, fun n h1 h2 => ?_⟩
    · cases hw
    · have := hq n h1 h2; simp at this
  | (k, f) :: rest, last, h, hq => by
    have hlow : startOf b last ≤ k := h.lower (k, f) List.mem_cons_self
    have hown : f.seq = k ∧ f.admin = false := h.own (k, f) List.mem_cons_self
    have hk : k ≠ 0 := by have := startOf_pos b last hb; omega
    have hsk : startOf b k = k + 1 := by simp [startOf, hk]
    have hq' : ∀ n, Q n → startOf b k ≤ n → n ∈ rest.map (·.1) := by
      intro n h1 h2
      have := hq n h1 (by rw [hsk] at h2; omega)
      simp only [List.map_cons, List.mem_cons] at this
      rcases this with h3 | h3
      · rw [hsk] at h2; omega
      · exact h3
    obtain ⟨ih1, ih2⟩ := expectLoop_sound s b hb Q rest k (h.tail hk) hq'
    refine ⟨fun w hw => ?_, ih2⟩
    simp only [expectLoop, List.mem_append, List.mem_singleton] at hw
    rcases hw with (hw | hw) | hw
    · split at hw
      · rename_i hg
        simp only [List.mem_singleton] at hw
        subst hw
        right
        refine ⟨rfl, _, _, rfl, hg, Nat.le_refl _, fun n h1 h2 hqn => ?_⟩
        have := hq n hqn h1
        simp only [List.map_cons, List.mem_cons] at this
        rcases this with h3 | h3
        · omega
        · have : k < n := (List.pairwise_cons.mp h.sorted).1 n h3; omega
      · cases hw
    · subst hw
      left
      exact ⟨by simp [replayOf, hown.2], (k, f), List.mem_cons_self, rfl⟩
    · rcases ih1 w hw with ⟨a1, p, hp, a2⟩ | ⟨a1, lo, hi, a2, a3, a4, a5⟩
      · exact Or.inl ⟨a1, p, List.mem_cons_of_mem _ hp, a2⟩
      · refine Or.inr ⟨a1, lo, hi, a2, a3, ?_, a5⟩
        rw [hsk] at a4; omega

end Fix8Model.Session
