import Fix8Model.Session.PeerLemmas
/-! C20: the invariant of the composition `Comp.step` along histories that stay outside the three known classes -/
namespace Fix8Model.Session

/-- what holds between events of a clean history -/
structure Inv (c : Comp) : Prop where
  /-- a running session is live, continuous, its control record is current -/
  live : c.s.started = true → ModeC c.s c.p c.s.nr
  /-- before the first connection -/
  idle : c.s.started = false → c.s.nr = 1 ∧ c.s.shutdown = false ∧ c.s.now = c.p.now ∧ c.s.cfg.sender = c.p.you ∧
    c.s.cfg.target = c.p.me ∧ ∃ st, c.s.store = some st ∧ st.ctrl = none
  times : ∀ e ∈ c.p.log, e.st ≤ c.p.now
  /-- the session never expects more than the counterparty's next number -/
  nrle : c.s.nr ≤ c.p.ns
  nr1 : 1 ≤ c.s.nr
  /-- delivered so far: exactly the application messages with a number below the expected one, once each, in order -/
  dlv : c.dlv = appsOf (c.p.log.take (c.s.nr - 1))
  unans : c.unanswered = 0

theorem Inv.alive {c : Comp} (h : Inv c) : c.s.shutdown = false := by
  cases hs : c.s.started with
  | true => exact (h.live hs).1.alive
  | false => exact (h.idle hs).2.1

theorem inv_init (enforce trailing : Bool) (t0 : Nat) : Inv (Comp.init enforce trailing t0) := by
  refine ⟨fun h => by simp [Comp.init, Sess.init] at h, fun _ => ⟨rfl, rfl, rfl, rfl, rfl, ⟨_, rfl, rfl⟩⟩, ?_, ?_, ?_, rfl, rfl⟩
  · intro e he; simp [Comp.init] at he
  · simp [Comp.init, Sess.init, Peer.ns]
  · simp [Comp.init, Sess.init]

theorem take_append_le {α : Type} (a b : List α) (n : Nat) (h : n ≤ a.length) : (a ++ b).take n = a.take n := by
  rw [List.take_append_of_le_length h]

theorem inv_tick {c : Comp} (h : Inv c) (ms : Nat) : Inv (c.step (.tick ms)).1 := by
  refine ⟨?_, ?_, ?_, h.nrle, h.nr1, h.dlv, h.unans⟩
  · intro hs
    obtain ⟨g, a, b⟩ := h.live hs
    exact ⟨⟨g.started, g.alive, g.buf, g.snd, g.tgt, rfl, g.nr1, g.ctrl⟩, a, b⟩
  · intro hs
    obtain ⟨a, b, _, d, e, f⟩ := h.idle hs
    exact ⟨a, b, rfl, d, e, f⟩
  · intro e he
    have := h.times e he
    show e.st ≤ c.p.now + ms
    omega

theorem inv_lose {c : Comp} (h : Inv c) (k : PKind) : Inv (c.step (.lose k)).1 := by
  obtain ⟨hme, hyou, hnow, _⟩ := emit_me c.p k
  refine ⟨?_, ?_, times_emit c.p k h.times, ?_, h.nr1, ?_, h.unans⟩
  · intro hs
    obtain ⟨g, a, b⟩ := h.live hs
    exact ⟨good_peer g hme hyou hnow, a, b⟩
  · intro hs
    obtain ⟨a, b, c', d, e, f⟩ := h.idle hs
    exact ⟨a, b, c'.trans hnow.symm, d.trans hyou.symm, e.trans hme.symm, f⟩
  · show c.s.nr ≤ (c.p.emit k).1.ns
    rw [emit_ns]; have := h.nrle; omega
  · show c.dlv = appsOf ((c.p.emit k).1.log.take (c.s.nr - 1))
    rw [emit_log, take_append_le _ _ _ (by have := h.nrle; simp [Peer.ns] at this; omega)]
    exact h.dlv

theorem inv_sess {c : Comp} (h : Inv c) (pid : Nat) : Inv (c.step (.sess pid)).1 := by
  cases hs : c.s.started with
  | false =>
    have : c.s.step (.appSend pid 0 false) = (c.s, []) := by simp [Sess.step, hs]
    simp only [Comp.step, this]
    exact ⟨fun h' => absurd h' (by simp [hs]), fun _ => h.idle hs, h.times, h.nrle, h.nr1, by simpa [dlvOf] using h.dlv, h.unans⟩
  | true =>
    obtain ⟨g, a, b⟩ := h.live hs
    obtain ⟨g', hst, hnr, hd⟩ := appSend_spec g pid
    simp only [Comp.step]
    refine ⟨fun _ => ⟨g', by rw [hst]; exact a, rfl⟩, fun h' => absurd g'.started (by rw [show (c.s.step (Ev.appSend pid 0 false)).1.started = false from h']; simp), h.times, by rw [hnr]; exact h.nrle,
      by rw [hnr]; exact h.nr1, ?_, h.unans⟩
    simp only [hd, List.append_nil, hnr]; exact h.dlv

theorem inv_connect {c : Comp} (h : Inv c) (hcl : ¬ LogonAhead c .connect) :
    Inv (c.step .connect).1 ∧ (c.step .connect).1.s.nr = (c.step .connect).1.p.ns ∧ (c.step .connect).1.s.started = true := by
  -- what is in the persister, and what a new Session object recovers from it
  have hstore : ∃ st, c.s.store = some st ∧ recovNr st.ctrl = c.s.nr ∧
      c.s.cfg.sender = c.p.you ∧ c.s.cfg.target = c.p.me ∧ c.s.now = c.p.now := by
    cases hs : c.s.started with
    | true =>
      obtain ⟨g, _, _⟩ := h.live hs
      obtain ⟨st, h1, h2⟩ := g.ctrl
      exact ⟨st, h1, by rw [h2]; rfl, g.snd, g.tgt, g.now⟩
    | false =>
      obtain ⟨a, _, c', d, e, st, h1, h2⟩ := h.idle hs
      exact ⟨st, h1, by rw [h2, a]; rfl, d, e, c'⟩
  obtain ⟨st, hs1, hrec, hsnd, htgt, hnow⟩ := hstore
  obtain ⟨x1, x2, x3, x4, x5, x6, x7, x8, x9, x10⟩ := start_spec c.s st hs1
  rw [hrec] at x7
  have hnr : (c.s.step (.start 0 0)).1.nr = c.p.ns := by
    have : ¬ ((c.s.step (.start 0 0)).1.nr < c.p.ns) := fun hh => hcl ⟨rfl, hh⟩
    have := h.nrle; omega
  -- the Logon reply is in sequence
  have hlog := step_logon (c.s.step (.start 0 0)).1 c.p.emitLogon.2 x1 x2 x6 rfl rfl
    (by rw [x4, htgt]; rfl) (by rw [x4, hsnd]; rfl) (by rw [hnr]; rfl)
  have hg : Good (c.s.step (.start 0 0)).1 c.p.emitLogon.1 :=
    ⟨x1, x2, x3, by rw [x4, hsnd]; rfl, by rw [x4, htgt]; rfl, by rw [x5, hnow]; rfl, by rw [x7]; exact h.nr1, x8⟩
  obtain ⟨hf1, hf2, hf3⟩ := Res.single hlog (d := []) (by simp [dlvOf]) (by simp [rrOf])
  have hns : c.p.emitLogon.1.ns = c.p.ns + 1 := by simp [Peer.emitLogon, Peer.ns]
  have e_s : (c.step .connect).1.s = updatePersist { (c.s.step (.start 0 0)).1 with nr := (c.s.step (.start 0 0)).1.nr + 1, state := .continuous } := hf1
  have e_p : (c.step .connect).1.p = c.p.emitLogon.1 := rfl
  have e_d : (c.step .connect).1.dlv = c.dlv ++ dlvOf ((c.s.step (.start 0 0)).2 ++ outsOf (feed (c.s.step (.start 0 0)).1 [c.p.emitLogon.2]).2) := rfl
  have e_u : (c.step .connect).1.unanswered = c.unanswered + (rrOf (outsOf (feed (c.s.step (.start 0 0)).1 [c.p.emitLogon.2]).2)).length := rfl
  have e_nr : (c.step .connect).1.s.nr = c.p.ns + 1 := by rw [e_s]; simp [updatePersist, hnr]
  have e_st : (c.step .connect).1.s.started = true := by rw [e_s]; simpa [updatePersist] using x1
  refine ⟨⟨fun _ => ?_, fun h' => absurd e_st (by simp [h']), ?_, ?_, ?_, ?_, ?_⟩, ?_, e_st⟩
  · rw [e_p]; refine ⟨?_, by rw [e_s]; rfl, rfl⟩
    rw [e_s]; exact good_update hg _ _ (by omega)
  · intro e he
    rw [e_p] at he ⊢
    simp only [Peer.emitLogon] at he ⊢
    rcases List.mem_append.mp he with he | he
    · exact h.times e he
    · simp at he; rw [he]; exact Nat.le_refl _
  · rw [e_nr, e_p, hns]; exact Nat.le_refl _
  · rw [e_nr]; omega
  · rw [e_d, e_nr, e_p, dlvOf_append, x9, hf2]
    simp only [Peer.emitLogon, Peer.ns, Nat.add_sub_cancel, List.append_nil, List.nil_append]
    have hd := h.dlv
    rw [← x7, hnr] at hd
    rw [hd]
    have e1 : c.p.ns - 1 = c.p.log.length := by simp [Peer.ns]
    have e2 : List.take (c.p.log.length + 1) (c.p.log ++ [({ app := none, st := c.p.now } : Entry)]) = c.p.log ++ [{ app := none, st := c.p.now }] :=
      List.take_of_length_le (by simp)
    rw [e1, List.take_length, e2, appsOf_append]
    simp [appsOf]
  · rw [e_u, hf3, h.unans]; rfl
  · rw [e_nr, e_p, hns]

/-- a counterparty that has only logged more entries, stamped now -/
theorem times_ext {p p' : Peer} (h : ∀ e ∈ p.log, e.st ≤ p.now) (ext : List Entry) (hl : p'.log = p.log ++ ext)
    (hs : ∀ e ∈ ext, e.st = p.now) (hn : p'.now = p.now) : ∀ e ∈ p'.log, e.st ≤ p'.now := by
  intro e he
  rw [hl] at he; rw [hn]
  rcases List.mem_append.mp he with he | he
  · exact h e he
  · rw [hs e he]; exact Nat.le_refl _

theorem feed_nil (s : Sess) : feed s [] = (s, []) := rfl
theorem emitAll_nil (p : Peer) : p.emitAll [] = (p, []) := rfl

theorem step_peer_fst (c : Comp) (k : PKind) (infl : List PKind) :
    (c.step (.peer k infl)).1 =
      (({ c with s := (feed (feed c.s [(c.p.emit k).2]).1 ((c.p.emit k).1.emitAll infl).2).1, p := ((c.p.emit k).1.emitAll infl).1,
                 dlv := c.dlv ++ dlvOf (outsOf ((feed c.s [(c.p.emit k).2]).2 ++ (feed (feed c.s [(c.p.emit k).2]).1 ((c.p.emit k).1.emitAll infl).2).2)) } : Comp).answerAll
        (rrOf (outsOf ((feed c.s [(c.p.emit k).2]).2 ++ (feed (feed c.s [(c.p.emit k).2]).1 ((c.p.emit k).1.emitAll infl).2).2)))).1 := rfl

theorem answerAll_single (c : Comp) (b e : Nat) :
    (c.answerAll [(b, e)]).1 =
      { s := (feed c.s (c.p.answer b e).2).1, p := (c.p.answer b e).1, dlv := c.dlv ++ dlvOf (outsOf (feed c.s (c.p.answer b e).2).2),
        unanswered := c.unanswered + (rrOf (outsOf (feed c.s (c.p.answer b e).2).2)).length } := rfl

/-- the arrival of a new frame, outside the classes `frames-in-flight` and `replay-without-gap-fill` -/
theorem inv_peer {c : Comp} (h : Inv c) (k : PKind) (infl : List PKind)
    (hfl : ¬ InFlight c (.peer k infl)) (hbare : ¬ BareReplay c (.peer k infl)) :
    Inv (c.step (.peer k infl)).1 ∧ (c.s.started = true → (c.step (.peer k infl)).1.s.nr = (c.step (.peer k infl)).1.p.ns) ∧
    (c.step (.peer k infl)).1.s.started = c.s.started := by
  obtain ⟨hme, hyou, hnow, _⟩ := emit_me c.p k
  obtain ⟨hme2, hyou2, hnow2, _⟩ := emitAll_me (c.p.emit k).1 infl
  obtain ⟨ext, hext1, hext2, hext3⟩ := emitAll_log (c.p.emit k).1 infl
  have hlen : c.s.nr - 1 ≤ c.p.log.length := by have := h.nrle; simp [Peer.ns] at this; omega
  rw [step_peer_fst]
  cases hs : c.s.started with
  | false =>
    -- nobody is listening
    obtain ⟨d1, d2⟩ := feed_dead c.s [(c.p.emit k).2] (Or.inl hs)
    rw [d1]
    obtain ⟨d3, d4⟩ := feed_dead c.s ((c.p.emit k).1.emitAll infl).2 (Or.inl hs)
    simp only [outsOf_append, d1, d2, d3, d4, List.append_nil, rrOf, dlvOf, Comp.answerAll]
    obtain ⟨a, b, c', d, e, f⟩ := h.idle hs
    refine ⟨⟨fun h' => absurd h' (by simp [hs]), fun _ => ⟨a, b, ?_, ?_, ?_, f⟩, ?_, ?_, h.nr1, ?_, h.unans⟩, (fun h' => by cases h'), hs⟩
    · exact c'.trans (hnow2.trans hnow).symm
    · exact d.trans (hyou2.trans hyou).symm
    · exact e.trans (hme2.trans hme).symm
    · exact times_ext (times_emit c.p k h.times) ext hext1 hext2 hnow2
    · show c.s.nr ≤ ((c.p.emit k).1.emitAll infl).1.ns
      have := h.nrle
      simp only [Peer.ns, hext1, emit_log, List.length_append] at this ⊢; omega
    · show c.dlv = appsOf (((c.p.emit k).1.emitAll infl).1.log.take (c.s.nr - 1))
      rw [hext1, emit_log, List.append_assoc, take_append_le _ _ _ hlen]; exact h.dlv
  | true =>
    have hm := h.live hs
    by_cases hstep : c.s.nr = c.p.ns
    · -- in step: the frame and whatever follows it are consumed in sequence
      obtain ⟨s1, r1, m1⟩ := trigger_instep (p := c.p) (by rw [← hstep]; exact hm) k
      obtain ⟨s2, r2, m2⟩ := emitAll_instep infl (c.p.emit k).1 s1 m1
      obtain ⟨a1, a2, a3⟩ := r1
      obtain ⟨b1, b2, b3⟩ := r2
      rw [a1, b1]
      simp only [outsOf_append, rrOf_append, dlvOf_append, a1, a2, a3, b2, b3, List.append_nil, Comp.answerAll]
      refine ⟨⟨fun _ => ⟨m2.1, m2.2.1, rfl⟩, fun h' => absurd m2.1.started (by simp [show s2.started = false from h']), ?_, ?_, ?_, ?_, h.unans⟩,
        fun _ => m2.2.2, m2.1.started⟩
      · exact times_ext (times_emit c.p k h.times) ext hext1 hext2 hnow2
      · show s2.nr ≤ _; rw [m2.2.2]; exact Nat.le_refl _
      · show 1 ≤ s2.nr; exact m2.1.nr1
      · show c.dlv ++ (kindApps k ++ infl.flatMap kindApps) = appsOf (((c.p.emit k).1.emitAll infl).1.log.take (s2.nr - 1))
        rw [m2.2.2]
        have e1 : ((c.p.emit k).1.emitAll infl).1.ns - 1 = ((c.p.emit k).1.emitAll infl).1.log.length := by simp [Peer.ns]
        rw [e1, List.take_length, hext1, appsOf_append, appsOf_emit, hext3, h.dlv, hstep]
        have e2 : c.p.ns - 1 = c.p.log.length := by simp [Peer.ns]
        rw [e2, List.take_length]
        cases k <;> simp [kindApps]
    · -- numbers are missing: the gap step, then the counterparty's answer
      have hlt : c.s.nr < c.p.ns := by have := h.nrle; omega
      obtain ⟨t1, t2, t3⟩ := trigger_behind hm hlt k
      have hinfl : infl = [] := by
        cases infl with
        | nil => rfl
        | cons x xs => exact absurd ⟨k, x :: xs, rfl, by simp, by rw [t2]; simp⟩ hfl
      subst hinfl
      have hfill : ∃ m ∈ ((c.p.emit k).1.answer c.s.nr 0).2, m.mtype = .sequenceReset := by
        apply Classical.byContradiction
        intro hno
        apply hbare
        refine ⟨k, [], rfl, (c.s.nr, 0), by rw [t2]; simp, ?_⟩
        intro m hm' hmt
        exact hno ⟨m, hm', hmt⟩
      obtain ⟨g1, g2, g3⟩ := good_afterGap hm.1
      have hmr : ModeR (afterGap c.s) (c.p.emit k).1 c.s.nr := ⟨good_peer g1 hme hyou hnow, g2, g3⟩
      obtain ⟨s', ⟨q1, q2, q3⟩, m', pme, pyou, pnow, ext', pl, pa, pst⟩ :=
        answer_consumed hmr h.nr1 (by rw [emit_ns]; omega) (times_emit c.p k h.times) hfill
      simp only [emitAll_nil, feed_nil, t1, outsOf_append, outsOf_nil, List.append_nil, t2, t3, answerAll_single, q1, q2, q3, List.length_nil,
        Nat.add_zero]
      refine ⟨⟨fun _ => ⟨m'.1, m'.2.1, rfl⟩, fun h' => absurd m'.1.started (by simp [show s'.started = false from h']), ?_, ?_, ?_, ?_, h.unans⟩,
        fun _ => m'.2.2, m'.1.started⟩
      · exact times_ext (times_emit c.p k h.times) ext' pl pst pnow
      · show s'.nr ≤ _; rw [m'.2.2]; exact Nat.le_refl _
      · exact m'.1.nr1
      · show c.dlv ++ appsOf ((c.p.emit k).1.log.drop (c.s.nr - 1)) = appsOf (((c.p.emit k).1.answer c.s.nr 0).1.log.take (s'.nr - 1))
        rw [m'.2.2]
        have e1 : ((c.p.emit k).1.answer c.s.nr 0).1.ns - 1 = ((c.p.emit k).1.answer c.s.nr 0).1.log.length := by simp [Peer.ns]
        rw [e1, List.take_length, pl, appsOf_append, pa, List.append_nil, h.dlv]
        have e2 : c.p.log.take (c.s.nr - 1) = (c.p.emit k).1.log.take (c.s.nr - 1) := by
          rw [emit_log, take_append_le _ _ _ hlen]
        rw [e2, ← appsOf_append, List.take_append_drop]

end Fix8Model.Session
