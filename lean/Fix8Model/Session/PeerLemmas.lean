import Fix8Model.Session.Peer
import Fix8Model.Session.SendLemmas
/-!
Lemmas for C20: what `Sess.step` does with each kind of frame a conformant counterparty produces (one lemma per path of
`process` that such a frame can take), how the session consumes a replay, and the invariant of the composition.
-/
namespace Fix8Model.Session

/-! ### one inbound frame -/

/-- the state after the ResendRequest of `sequence_check` has gone out and `process` has counted the frame -/
def afterGap (s : Sess) : Sess :=
  updatePersist { (sendProcess s { m := mkResend s s.nr 0 }).1 with state := .resendRequestSent, nr := s.nr + 1 }

theorem step_app_inseq (s : Sess) (m : Msg) (c : Nat) (h1 : s.started = true) (h2 : s.shutdown = false)
    (hst : s.state = .continuous) (hm : m.mtype = .app c) (hadm : m.admin = false) (hc : ¬ compidBad s m) (hseq : m.seq = s.nr) :
    s.step (.inbound (some m.seq) (.ok m)) = (updatePersist { s with nr := s.nr + 1 }, [Out.deliver m.seq m]) := by
  simp [Sess.step, h1, h2, process, dispatch, hm, handleApplication, enforce, hst, St.established, hc, sequenceCheck, hseq, hadm, R.ok]

theorem step_hb_inseq (s : Sess) (m : Msg) (h1 : s.started = true) (h2 : s.shutdown = false)
    (hst : s.state = .continuous) (hm : m.mtype = .heartbeat) (hadm : m.admin = true) (hc : ¬ compidBad s m) (hseq : m.seq = s.nr) :
    s.step (.inbound (some m.seq) (.ok m)) = (updatePersist { s with nr := s.nr + 1 }, [Out.admin m.seq]) := by
  simp [Sess.step, h1, h2, process, dispatch, hm, handleHeartbeat, enforce, hst, St.established, hc, sequenceCheck, hseq, hadm, R.ok, R.andThen]

theorem step_app_high (s : Sess) (m : Msg) (c : Nat) (h1 : s.started = true) (h2 : s.shutdown = false)
    (hst : s.state = .continuous) (hm : m.mtype = .app c) (hadm : m.admin = false) (hc : ¬ compidBad s m) (hseq : s.nr < m.seq) :
    s.step (.inbound (some m.seq) (.ok m)) = (afterGap s, (sendProcess s { m := mkResend s s.nr 0 }).2) := by
  simp [Sess.step, h1, h2, process, dispatch, hm, handleApplication, enforce, hst, St.established, hc, sequenceCheck, hseq, hadm, afterGap]

theorem step_hb_high (s : Sess) (m : Msg) (h1 : s.started = true) (h2 : s.shutdown = false)
    (hst : s.state = .continuous) (hm : m.mtype = .heartbeat) (hadm : m.admin = true) (hc : ¬ compidBad s m) (hseq : s.nr < m.seq) :
    s.step (.inbound (some m.seq) (.ok m)) = (afterGap s, Out.admin m.seq :: (sendProcess s { m := mkResend s s.nr 0 }).2) := by
  simp [Sess.step, h1, h2, process, dispatch, hm, handleHeartbeat, enforce, hst, St.established, hc, sequenceCheck, hseq, hadm, R.ok, R.andThen, afterGap]

theorem step_replay_low (s : Sess) (m : Msg) (c : Nat) (h1 : s.started = true) (h2 : s.shutdown = false)
    (hst : s.state = .resendRequestSent) (hm : m.mtype = .app c) (hadm : m.admin = false) (hc : ¬ compidBad s m) (hseq : m.seq < s.nr)
    (hpd : m.possDup = some true) (o : Nat) (ho : m.ost = some o) (hot : o ≤ m.st) :
    s.step (.inbound (some m.seq) (.ok m)) = (updatePersist { s with nr := s.nr + 1 }, [Out.deliver m.seq m]) := by
  have : ¬ s.nr < m.seq := by omega
  have hno : ¬ m.st < o := by omega
  simp [Sess.step, h1, h2, process, dispatch, hm, handleApplication, enforce, hst, St.established, hc, sequenceCheck, hseq, hadm, R.ok, this, hpd, ho, hno]

theorem step_fill (s : Sess) (m : Msg) (h1 : s.started = true) (h2 : s.shutdown = false)
    (hst : s.state = .resendRequestSent ∨ s.state = .continuous) (hm : m.mtype = .sequenceReset) (hadm : m.admin = true) (hc : ¬ compidBad s m)
    (j : Nat) (hj : m.newSeq = some j) (hge : s.nr ≤ j) :
    s.step (.inbound (some m.seq) (.ok m)) = (updatePersist { s with nr := j - 1 + 1, state := .continuous }, [Out.admin m.seq]) := by
  rcases hst with hst | hst <;>
  simp [Sess.step, h1, h2, process, dispatch, hm, handleSequenceReset, enforce, hst, St.established, hc, hadm, R.ok, R.andThen, hj, hge]

theorem step_logon (s : Sess) (m : Msg) (h1 : s.started = true) (h2 : s.shutdown = false)
    (hst : s.state = .logonSent) (hm : m.mtype = .logon) (hadm : m.admin = true) (hs : m.snd = s.cfg.target) (ht : m.tgt = s.cfg.sender) (hseq : m.seq = s.nr) :
    s.step (.inbound (some m.seq) (.ok m)) = (updatePersist { s with nr := s.nr + 1, state := .continuous }, [Out.admin m.seq]) := by
  simp [Sess.step, h1, h2, process, dispatch, hm, handleLogon, enforce, hst, St.established, hs, ht, hadm, R.ok, R.andThen, sequenceCheck, hseq]

theorem step_dead (s : Sess) (scan : Option Nat) (dec : Dec) (h : s.started = false ∨ s.shutdown = true) :
    s.step (.inbound scan dec) = (s, []) := by
  rcases h with h | h <;> simp [Sess.step, h]

/-! ### the live session: everything the frames of the counterparty `p` need to find in place -/

/-- a running session object that talks to `p`, with an up-to-date control record -/
structure Good (s : Sess) (p : Peer) : Prop where
  started : s.started = true
  alive : s.shutdown = false
  buf : s.buf = []
  snd : s.cfg.sender = p.you
  tgt : s.cfg.target = p.me
  now : s.now = p.now
  nr1 : 1 ≤ s.nr
  ctrl : ∃ st, s.store = some st ∧ st.ctrl = some (s.ns, s.nr)

theorem good_update {s : Sess} {p : Peer} (h : Good s p) (n : Nat) (x : St) (hn : 1 ≤ n) :
    Good (updatePersist { s with nr := n, state := x }) p := by
  obtain ⟨st, hs, _⟩ := h.ctrl
  exact ⟨h.started, h.alive, h.buf, h.snd, h.tgt, h.now, hn, ⟨st.cput s.ns n, by simp [updatePersist, hs], rfl⟩⟩

theorem good_update_nr {s : Sess} {p : Peer} (h : Good s p) (n : Nat) (hn : 1 ≤ n) :
    Good (updatePersist { s with nr := n }) p := by
  obtain ⟨st, hs, _⟩ := h.ctrl
  exact ⟨h.started, h.alive, h.buf, h.snd, h.tgt, h.now, hn, ⟨st.cput s.ns n, by simp [updatePersist, hs], rfl⟩⟩

theorem good_peer {s : Sess} {p p' : Peer} (h : Good s p) (h1 : p'.me = p.me) (h2 : p'.you = p.you) (h3 : p'.now = p.now) : Good s p' :=
  ⟨h.started, h.alive, h.buf, by rw [h2]; exact h.snd, by rw [h1]; exact h.tgt, by rw [h3]; exact h.now, h.nr1, h.ctrl⟩

theorem not_bad {s : Sess} {p : Peer} (h : Good s p) (m : Msg) (h1 : m.snd = p.me) (h2 : m.tgt = p.you) : ¬ compidBad s m := by
  intro hb; rcases hb.2 with hh | hh
  · exact hh (by rw [h2, h.snd])
  · exact hh (by rw [h1, h.tgt])

/-- the outputs of the gap step: exactly one frame, the ResendRequest from the expected number to infinity -/
theorem gap_outs (s : Sess) (hb : s.buf = []) :
    (sendProcess s { m := mkResend s s.nr 0 }).2 = [Out.wire (builtFrame s { m := mkResend s s.nr 0 })] ∧
    (builtFrame s { m := mkResend s s.nr 0 }).mtype = .resendRequest ∧
    (builtFrame s { m := mkResend s s.nr 0 }).beginNo = some s.nr ∧ (builtFrame s { m := mkResend s s.nr 0 }).endNo = some 0 := by
  refine ⟨(sendProcess_outs s _ hb rfl).1, ?_, ?_, ?_⟩ <;> simp [builtFrame, mkResend, Sess.fresh]

theorem good_afterGap {s : Sess} {p : Peer} (h : Good s p) :
    Good (afterGap s) p ∧ (afterGap s).state = .resendRequestSent ∧ (afterGap s).nr = s.nr + 1 := by
  obtain ⟨st, hs, _⟩ := h.ctrl
  have he := sendProcess_eq s { m := mkResend s s.nr 0 } h.buf rfl
  refine ⟨⟨?_, ?_, ?_, ?_, ?_, ?_, ?_, ?_⟩, ?_, ?_⟩ <;> simp only [afterGap, he, updatePersist]
  · exact h.started
  · exact h.alive
  · exact h.snd
  · exact h.tgt
  · exact h.now
  · omega
  · simp [hs, mkResend, Sess.fresh, builtFrame]
    rfl

/-! ### feeding lists of frames -/

theorem feed_append (s : Sess) (a b : List Msg) :
    feed s (a ++ b) = ((feed (feed s a).1 b).1, (feed s a).2 ++ (feed (feed s a).1 b).2) := by
  induction a generalizing s with
  | nil => simp [feed]
  | cons m r ih => simp [feed, ih]

theorem outsOf_append (a b : List Micro) : outsOf (a ++ b) = outsOf a ++ outsOf b := by simp [outsOf]
theorem outsOf_cons (m : Micro) (r : List Micro) : outsOf (m :: r) = m.outs ++ outsOf r := by simp [outsOf]
theorem outsOf_nil : outsOf [] = [] := rfl

theorem rrOf_append (a b : List Out) : rrOf (a ++ b) = rrOf a ++ rrOf b := by
  induction a with
  | nil => rfl
  | cons x xs ih =>
    cases x with
    | wire m => simp only [List.cons_append, rrOf]; split <;> simp [ih]
    | deliver r m => simpa [rrOf] using ih
    | admin r => simpa [rrOf] using ih

theorem dlvOf_append (a b : List Out) : dlvOf (a ++ b) = dlvOf a ++ dlvOf b := by
  induction a with
  | nil => rfl
  | cons x xs ih => cases x <;> simp [dlvOf, ih]

theorem feed_dead (s : Sess) (fs : List Msg) (h : s.started = false ∨ s.shutdown = true) :
    (feed s fs).1 = s ∧ outsOf (feed s fs).2 = [] := by
  induction fs with
  | nil => exact ⟨rfl, rfl⟩
  | cons m r ih =>
    simp only [feed, step_dead s _ _ h, outsOf_cons]
    exact ⟨ih.1, by simpa using ih.2⟩

/-! ### the counterparty's bookkeeping -/

theorem appsOf_append (a b : List Entry) : appsOf (a ++ b) = appsOf a ++ appsOf b := by
  induction a with
  | nil => rfl
  | cons e r ih => simp only [List.cons_append, appsOf]; split <;> simp [ih]

theorem emit_me (p : Peer) (k : PKind) : (p.emit k).1.me = p.me ∧ (p.emit k).1.you = p.you ∧ (p.emit k).1.now = p.now ∧ (p.emit k).1.trailing = p.trailing := by
  cases k <;> simp [Peer.emit]

theorem emit_log (p : Peer) (k : PKind) :
    (p.emit k).1.log = p.log ++ [⟨(match k with | .app pid => some pid | .hb => none), p.now⟩] := by
  cases k <;> simp [Peer.emit]

theorem emit_ns (p : Peer) (k : PKind) : (p.emit k).1.ns = p.ns + 1 := by
  simp [Peer.ns, emit_log]

theorem emit_frame (p : Peer) (k : PKind) :
    (p.emit k).2.seq = p.ns ∧ (p.emit k).2.snd = p.me ∧ (p.emit k).2.tgt = p.you ∧
    ((∃ pid, k = .app pid ∧ (p.emit k).2.mtype = .app 68 ∧ (p.emit k).2.admin = false ∧ (p.emit k).2.pid = some pid) ∨
     (k = .hb ∧ (p.emit k).2.mtype = .heartbeat ∧ (p.emit k).2.admin = true)) := by
  cases k with
  | app pid => exact ⟨rfl, rfl, rfl, Or.inl ⟨pid, rfl, rfl, rfl, rfl⟩⟩
  | hb => exact ⟨rfl, rfl, rfl, Or.inr ⟨rfl, rfl, rfl⟩⟩

theorem appsOf_emit (p : Peer) (k : PKind) :
    appsOf (p.emit k).1.log = appsOf p.log ++ (match k with | .app pid => [pid] | .hb => []) := by
  rw [emit_log, appsOf_append]; cases k <;> simp [appsOf]

theorem times_emit (p : Peer) (k : PKind) (h : ∀ e ∈ p.log, e.st ≤ p.now) : ∀ e ∈ (p.emit k).1.log, e.st ≤ (p.emit k).1.now := by
  intro e he
  rw [emit_log] at he; rw [(emit_me p k).2.2.1]
  rcases List.mem_append.mp he with he | he
  · exact h e he
  · simp at he; rw [he]; exact Nat.le_refl _

/-! ### how the session consumes a replay -/

/-- in step: continuous, expecting `n` -/
def ModeC (s : Sess) (p : Peer) (n : Nat) : Prop := Good s p ∧ s.state = .continuous ∧ s.nr = n
/-- after a gap: resend_request_sent, and – because `process` counted the frame that revealed the gap – expecting one
more than the next number of the replay -/
def ModeR (s : Sess) (p : Peer) (n : Nat) : Prop := Good s p ∧ s.state = .resendRequestSent ∧ s.nr = n + 1

/-- feeding `fs` leads to `s'`, delivers exactly `d`, raises no ResendRequest -/
def Res (s : Sess) (fs : List Msg) (s' : Sess) (d : List Nat) : Prop :=
  (feed s fs).1 = s' ∧ dlvOf (outsOf (feed s fs).2) = d ∧ rrOf (outsOf (feed s fs).2) = []

theorem Res.nil (s : Sess) : Res s [] s [] := ⟨rfl, rfl, rfl⟩

theorem Res.append {s s1 s2 : Sess} {a b : List Msg} {d1 d2 : List Nat} (h1 : Res s a s1 d1) (h2 : Res s1 b s2 d2) :
    Res s (a ++ b) s2 (d1 ++ d2) := by
  obtain ⟨a1, a2, a3⟩ := h1
  obtain ⟨b1, b2, b3⟩ := h2
  subst a1
  refine ⟨by rw [feed_append]; exact b1, ?_, ?_⟩
  · rw [feed_append]; simp only [outsOf_append, dlvOf_append, a2, b2]
  · rw [feed_append]; simp only [outsOf_append, rrOf_append, a3, b3]; rfl

theorem Res.single {s s' : Sess} {m : Msg} {o : List Out} {d : List Nat}
    (h : s.step (.inbound (some m.seq) (.ok m)) = (s', o)) (hd : dlvOf o = d) (hr : rrOf o = []) : Res s [m] s' d := by
  simp [Res, feed, h, outsOf, hd, hr]

theorem replayC {s : Sess} {p : Peer} {k : Nat} (h : ModeC s p k) (pid ost : Nat) :
    ∃ s', Res s [p.fReplay k pid ost] s' [pid] ∧ ModeC s' p (k + 1) := by
  obtain ⟨g, hst, hnr⟩ := h
  have := step_app_inseq s (p.fReplay k pid ost) 68 g.started g.alive hst rfl rfl (not_bad g _ rfl rfl) (by simp [Peer.fReplay, hnr])
  refine ⟨_, Res.single this (by simp [dlvOf, Peer.fReplay]) (by simp [rrOf]), good_update_nr g _ (by omega), hst, ?_⟩
  simp [updatePersist, hnr]

theorem replayR {s : Sess} {p : Peer} {k : Nat} (h : ModeR s p k) (pid ost : Nat) (hot : ost ≤ p.now) :
    ∃ s', Res s [p.fReplay k pid ost] s' [pid] ∧ ModeR s' p (k + 1) := by
  obtain ⟨g, hst, hnr⟩ := h
  have := step_replay_low s (p.fReplay k pid ost) 68 g.started g.alive hst rfl rfl (not_bad g _ rfl rfl) (by simp [Peer.fReplay, hnr])
    rfl ost rfl hot
  refine ⟨_, Res.single this (by simp [dlvOf, Peer.fReplay]) (by simp [rrOf]), good_update_nr g _ (by omega), hst, ?_⟩
  simp [updatePersist, hnr]

theorem fillC {s : Sess} {p : Peer} {f : Nat} (h : ModeC s p f) (j : Nat) (hj : f ≤ j) (h1 : 1 ≤ j) :
    ∃ s', Res s [p.fFill f j] s' [] ∧ ModeC s' p j := by
  obtain ⟨g, hst, hnr⟩ := h
  have := step_fill s (p.fFill f j) g.started g.alive (Or.inr hst) rfl rfl (not_bad g _ rfl rfl) j rfl (by omega)
  refine ⟨_, Res.single this (by simp [dlvOf]) (by simp [rrOf]), good_update g _ _ (by omega), rfl, ?_⟩
  simp [updatePersist]; omega

theorem fillR {s : Sess} {p : Peer} {f : Nat} (h : ModeR s p f) (j : Nat) (hj : f < j) :
    ∃ s', Res s [p.fFill f j] s' [] ∧ ModeC s' p j := by
  obtain ⟨g, hst, hnr⟩ := h
  have := step_fill s (p.fFill f j) g.started g.alive (Or.inl hst) rfl rfl (not_bad g _ rfl rfl) j rfl (by omega)
  refine ⟨_, Res.single this (by simp [dlvOf]) (by simp [rrOf]), good_update g _ _ (by omega), rfl, ?_⟩
  simp [updatePersist]; omega

/-- a replay consumed by a session that is in step: it stays in step -/
theorem segsC (p : Peer) : ∀ (es : List Entry) (k : Nat) (o : Option Nat) (s : Sess),
    ModeC s p (o.getD k) → (∀ f, o = some f → f < k) → (∀ e ∈ es, e.st ≤ p.now) →
    ∃ s', Res s (p.segs es k o) s' (appsOf es) ∧ ModeC s' p (k + es.length) := by
  intro es
  induction es with
  | nil =>
    intro k o s h ho _
    cases o with
    | none => exact ⟨s, Res.nil s, by simpa using h⟩
    | some f =>
      have hf := ho f rfl
      obtain ⟨s', r, m⟩ := fillC (p := p) (f := f) (by simpa using h) k (by omega) (by omega)
      exact ⟨s', by simpa [Peer.segs, appsOf] using r, by simpa using m⟩
  | cons e r ih =>
    intro k o s h ho ht
    have htr : ∀ e ∈ r, e.st ≤ p.now := fun x hx => ht x (List.mem_cons_of_mem _ hx)
    cases ha : e.app with
    | none =>
      have hpos : ∀ f, some (o.getD k) = some f → f < k + 1 := by
        intro f hf; cases o with
        | none => simp at hf; omega
        | some g => simp at hf; have := ho g rfl; omega
      obtain ⟨s', rr, m⟩ := ih (k + 1) (some (o.getD k)) s (by simpa using h) hpos htr
      refine ⟨s', ?_, ?_⟩
      · simpa [Peer.segs, ha, appsOf] using rr
      · have : k + (e :: r).length = k + 1 + r.length := by simp; omega
        rw [this]; exact m
    | some pid =>
      -- the pending gap fill (if any), the retransmission, the rest
      have hlen : k + (e :: r).length = k + 1 + r.length := by simp; omega
      cases o with
      | some f =>
        have hf := ho f rfl
        obtain ⟨s1, r1, m1⟩ := fillC (p := p) (f := f) (by simpa using h) k (by omega) (by omega)
        obtain ⟨s2, r2, m2⟩ := replayC m1 pid e.st
        obtain ⟨s3, r3, m3⟩ := ih (k + 1) none s2 (by simpa using m2) (by intro f hf; cases hf) htr
        refine ⟨s3, ?_, ?_⟩
        · have := (r1.append r2).append r3
          simpa [Peer.segs, ha, appsOf] using this
        · rw [hlen]; exact m3
      | none =>
        obtain ⟨s2, r2, m2⟩ := replayC (p := p) (k := k) (by simpa using h) pid e.st
        obtain ⟨s3, r3, m3⟩ := ih (k + 1) none s2 (by simpa using m2) (by intro f hf; cases hf) htr
        refine ⟨s3, ?_, ?_⟩
        · have := r2.append r3
          simpa [Peer.segs, ha, appsOf] using this
        · rw [hlen]; exact m3

/-- does the replay of these entries contain a gap fill -/
def hasFill (es : List Entry) (o : Option Nat) : Bool := o.isSome || es.any (·.app.isNone)

/-- a replay consumed after a gap: the first gap fill puts the session back in step; without one it stays one ahead -/
theorem segsR (p : Peer) : ∀ (es : List Entry) (k : Nat) (o : Option Nat) (s : Sess),
    ModeR s p (o.getD k) → (∀ f, o = some f → f < k) → (∀ e ∈ es, e.st ≤ p.now) →
    ∃ s', Res s (p.segs es k o) s' (appsOf es) ∧
      (if hasFill es o then ModeC s' p (k + es.length) else ModeR s' p (k + es.length)) := by
  intro es
  induction es with
  | nil =>
    intro k o s h ho _
    cases o with
    | none => exact ⟨s, Res.nil s, by simpa [hasFill] using h⟩
    | some f =>
      have hf := ho f rfl
      obtain ⟨s', r, m⟩ := fillR (p := p) (f := f) (by simpa using h) k hf
      exact ⟨s', by simpa [Peer.segs, appsOf] using r, by simpa [hasFill] using m⟩
  | cons e r ih =>
    intro k o s h ho ht
    have htr : ∀ e ∈ r, e.st ≤ p.now := fun x hx => ht x (List.mem_cons_of_mem _ hx)
    have hlen : k + (e :: r).length = k + 1 + r.length := by simp; omega
    cases ha : e.app with
    | none =>
      have hpos : ∀ f, some (o.getD k) = some f → f < k + 1 := by
        intro f hf; cases o with
        | none => simp at hf; omega
        | some g => simp at hf; have := ho g rfl; omega
      obtain ⟨s', rr, m⟩ := ih (k + 1) (some (o.getD k)) s (by simpa using h) hpos htr
      refine ⟨s', ?_, ?_⟩
      · simpa [Peer.segs, ha, appsOf] using rr
      · rw [hlen]
        have h1 : hasFill (e :: r) o = true := by simp [hasFill, ha]
        have h2 : hasFill r (some (o.getD k)) = true := by simp [hasFill]
        rw [h1]; rw [h2] at m; exact m
    | some pid =>
      cases o with
      | some f =>
        have hf := ho f rfl
        obtain ⟨s1, r1, m1⟩ := fillR (p := p) (f := f) (by simpa using h) k hf
        obtain ⟨s2, r2, m2⟩ := replayC m1 pid e.st
        obtain ⟨s3, r3, m3⟩ := segsC p r (k + 1) none s2 (by simpa using m2) (by intro f hf; cases hf) htr
        refine ⟨s3, ?_, ?_⟩
        · have := (r1.append r2).append r3
          simpa [Peer.segs, ha, appsOf] using this
        · rw [hlen]; simpa [hasFill] using m3
      | none =>
        obtain ⟨s2, r2, m2⟩ := replayR (p := p) (k := k) (by simpa using h) pid e.st (ht e (List.mem_cons_self ..))
        obtain ⟨s3, r3, m3⟩ := ih (k + 1) none s2 (by simpa using m2) (by intro f hf; cases hf) htr
        refine ⟨s3, ?_, ?_⟩
        · have := r2.append r3
          simpa [Peer.segs, ha, appsOf] using this
        · rw [hlen]
          have : hasFill (e :: r) none = hasFill r none := by simp [hasFill, ha]
          rw [this]; exact m3

theorem segs_no_fill (p : Peer) : ∀ (es : List Entry) (k : Nat) (o : Option Nat), hasFill es o = false →
    ∀ m ∈ p.segs es k o, m.mtype ≠ .sequenceReset := by
  intro es
  induction es with
  | nil => intro k o h; cases o <;> simp [hasFill, Peer.segs] at h ⊢
  | cons e r ih =>
    intro k o h m hm
    cases o with
    | some f => simp [hasFill] at h
    | none =>
      cases ha : e.app with
      | none => simp [hasFill, ha] at h
      | some pid =>
        simp only [Peer.segs, ha, List.nil_append, List.mem_cons] at hm
        rcases hm with hm | hm
        · rw [hm]; simp [Peer.fReplay]
        · exact ih (k + 1) none (by simpa [hasFill, ha] using h) m hm

/-! ### new traffic -/

def kindApps : PKind → List Nat
  | .app pid => [pid]
  | .hb => []

/-- an arriving new frame while the session is in step -/
theorem trigger_instep {s : Sess} {p : Peer} (h : ModeC s p p.ns) (k : PKind) :
    ∃ s', Res s [(p.emit k).2] s' (kindApps k) ∧ ModeC s' (p.emit k).1 (p.emit k).1.ns := by
  obtain ⟨g, hst, hnr⟩ := h
  obtain ⟨hme, hyou, hnow, _⟩ := emit_me p k
  rw [emit_ns]
  cases k with
  | app pid =>
    have := step_app_inseq s (p.emit (.app pid)).2 68 g.started g.alive hst rfl rfl (not_bad g _ rfl rfl) (by simp [Peer.emit, Peer.fApp, hnr])
    refine ⟨_, Res.single this (by simp [dlvOf, Peer.emit, Peer.fApp, kindApps]) (by simp [rrOf]),
      good_peer (good_update_nr g _ (by omega)) hme hyou hnow, hst, ?_⟩
    simp [updatePersist, hnr]
  | hb =>
    have := step_hb_inseq s (p.emit .hb).2 g.started g.alive hst rfl rfl (not_bad g _ rfl rfl) (by simp [Peer.emit, Peer.fHb, hnr])
    refine ⟨_, Res.single this (by simp [dlvOf, kindApps]) (by simp [rrOf]),
      good_peer (good_update_nr g _ (by omega)) hme hyou hnow, hst, ?_⟩
    simp [updatePersist, hnr]

/-- an arriving new frame while numbers are missing: the gap step -/
theorem trigger_behind {s : Sess} {p : Peer} (h : ModeC s p s.nr) (hlt : s.nr < p.ns) (k : PKind) :
    (feed s [(p.emit k).2]).1 = afterGap s ∧ rrOf (outsOf (feed s [(p.emit k).2]).2) = [(s.nr, 0)] ∧
    dlvOf (outsOf (feed s [(p.emit k).2]).2) = [] := by
  obtain ⟨g, hst, _⟩ := h
  obtain ⟨go, gm, gb, ge⟩ := gap_outs s g.buf
  cases k with
  | app pid =>
    have := step_app_high s (p.emit (.app pid)).2 68 g.started g.alive hst rfl rfl (not_bad g _ rfl rfl) (by simpa [Peer.emit, Peer.fApp] using hlt)
    simp [feed, this, outsOf, go, rrOf, gm, gb, ge, dlvOf]
  | hb =>
    have := step_hb_high s (p.emit .hb).2 g.started g.alive hst rfl rfl (not_bad g _ rfl rfl) (by simpa [Peer.emit, Peer.fHb] using hlt)
    simp [feed, this, outsOf, go, rrOf, gm, gb, ge, dlvOf]

theorem emitAll_me (p : Peer) (ks : List PKind) :
    (p.emitAll ks).1.me = p.me ∧ (p.emitAll ks).1.you = p.you ∧ (p.emitAll ks).1.now = p.now ∧ (p.emitAll ks).1.trailing = p.trailing := by
  induction ks generalizing p with
  | nil => exact ⟨rfl, rfl, rfl, rfl⟩
  | cons k r ih =>
    obtain ⟨a, b, c, d⟩ := emit_me p k
    obtain ⟨a', b', c', d'⟩ := ih (p.emit k).1
    exact ⟨a'.trans a, b'.trans b, c'.trans c, d'.trans d⟩

/-- the log only grows, by entries stamped now -/
theorem emitAll_log (p : Peer) (ks : List PKind) :
    ∃ ext, (p.emitAll ks).1.log = p.log ++ ext ∧ (∀ e ∈ ext, e.st = p.now) ∧ appsOf ext = ks.flatMap kindApps := by
  induction ks generalizing p with
  | nil => exact ⟨[], by simp [Peer.emitAll], by simp, rfl⟩
  | cons k r ih =>
    obtain ⟨ext, h1, h2, h3⟩ := ih (p.emit k).1
    have hnow := (emit_me p k).2.2.1
    cases k with
    | app pid =>
      refine ⟨⟨some pid, p.now⟩ :: ext, ?_, ?_, ?_⟩
      · simp only [Peer.emitAll]; rw [h1, emit_log]; simp
      · intro e he
        rcases List.mem_cons.mp he with he | he
        · rw [he]
        · rw [h2 e he, hnow]
      · simp [appsOf, h3, kindApps]
    | hb =>
      refine ⟨⟨none, p.now⟩ :: ext, ?_, ?_, ?_⟩
      · simp only [Peer.emitAll]; rw [h1, emit_log]; simp
      · intro e he
        rcases List.mem_cons.mp he with he | he
        · rw [he]
        · rw [h2 e he, hnow]
      · simp [appsOf, h3, kindApps]

/-- frames in flight behind a frame that arrived in step: consumed in step -/
theorem emitAll_instep : ∀ (ks : List PKind) (p : Peer) (s : Sess), ModeC s p p.ns →
    ∃ s', Res s (p.emitAll ks).2 s' (ks.flatMap kindApps) ∧ ModeC s' (p.emitAll ks).1 (p.emitAll ks).1.ns := by
  intro ks
  induction ks with
  | nil => intro p s h; exact ⟨s, Res.nil s, h⟩
  | cons k r ih =>
    intro p s h
    obtain ⟨s1, r1, m1⟩ := trigger_instep h k
    obtain ⟨s2, r2, m2⟩ := ih (p.emit k).1 s1 m1
    exact ⟨s2, by simpa [Peer.emitAll] using r1.append r2, by simpa [Peer.emitAll] using m2⟩

/-! ### the answer to the session's ResendRequest -/

theorem answer_consumed {s : Sess} {p : Peer} {b : Nat} (h : ModeR s p b) (hb1 : 1 ≤ b) (hb : b ≤ p.ns)
    (ht : ∀ e ∈ p.log, e.st ≤ p.now) (hfill : ∃ m ∈ (p.answer b 0).2, m.mtype = .sequenceReset) :
    ∃ s', Res s (p.answer b 0).2 s' (appsOf (p.log.drop (b - 1))) ∧ ModeC s' (p.answer b 0).1 (p.answer b 0).1.ns ∧
      (p.answer b 0).1.me = p.me ∧ (p.answer b 0).1.you = p.you ∧ (p.answer b 0).1.now = p.now ∧
      ∃ ext, (p.answer b 0).1.log = p.log ++ ext ∧ appsOf ext = [] ∧ ∀ e ∈ ext, e.st = p.now := by
  have hhi : p.hiOf 0 = p.log.length := by simp [Peer.hiOf, Peer.ns]
  have hb0 : b ≠ 0 := by omega
  have hes : (p.log.take (p.hiOf 0)).drop (b - 1) = p.log.drop (b - 1) := by rw [hhi, List.take_length]
  have hte : ∀ e ∈ p.log.drop (b - 1), e.st ≤ p.now := fun e he => ht e (List.mem_of_mem_drop he)
  have hlen : b + (p.log.drop (b - 1)).length = p.ns := by simp [Peer.ns] at hb ⊢; omega
  obtain ⟨s1, r1, m1⟩ := segsR p (p.log.drop (b - 1)) b none s (by simpa using h) (by intro f hf; cases hf) hte
  rw [hlen] at m1
  by_cases htr : p.trailing = true
  · have hans : p.answer b 0 = ({ p with log := p.log ++ [⟨none, p.now⟩] }, p.segs (p.log.drop (b - 1)) b none ++ [p.fFill p.ns (p.ns + 1)]) := by
      simp [Peer.answer, hb0, hes, htr, hhi, Peer.ns]
    rw [hans]
    have hm2 : ∃ s2, Res s1 [p.fFill p.ns (p.ns + 1)] s2 [] ∧ ModeC s2 p (p.ns + 1) := by
      split at m1
      · exact fillC m1 (p.ns + 1) (by omega) (by omega)
      · exact fillR m1 (p.ns + 1) (by omega)
    obtain ⟨s2, r2, m2⟩ := hm2
    refine ⟨s2, by simpa using r1.append r2, ?_, rfl, rfl, rfl, ⟨[⟨none, p.now⟩], rfl, rfl, by simp⟩⟩
    obtain ⟨g, a, b'⟩ := m2
    exact ⟨good_peer g rfl rfl rfl, a, by simpa [Peer.ns] using b'⟩
  · have hans : p.answer b 0 = (p, p.segs (p.log.drop (b - 1)) b none) := by
      simp [Peer.answer, hb0, hes, htr]
    rw [hans] at hfill ⊢
    have hf : hasFill (p.log.drop (b - 1)) none = true := by
      cases hh : hasFill (p.log.drop (b - 1)) none with
      | true => rfl
      | false =>
        obtain ⟨m, hm, hmt⟩ := hfill
        exact absurd hmt (segs_no_fill p _ b none hh m hm)
    rw [hf] at m1
    exact ⟨s1, r1, by simpa using m1, rfl, rfl, rfl, ⟨[], by simp, rfl, by simp⟩⟩

/-! ### start, application send, clock -/

/-- the receive number `recover_seqnums` finds in the control record -/
def recovNr : Option (Nat × Nat) → Nat
  | some (_, b) => b
  | none => 1

theorem start_spec (s : Sess) (st : SpecG Rec) (hs : s.store = some st) :
    let x := s.step (.start 0 0)
    x.1.started = true ∧ x.1.shutdown = false ∧ x.1.buf = [] ∧ x.1.cfg = s.cfg ∧ x.1.now = s.now ∧ x.1.state = .logonSent ∧
    x.1.nr = recovNr st.ctrl ∧
    (∃ st', x.1.store = some st' ∧ st'.ctrl = some (x.1.ns, x.1.nr)) ∧ dlvOf x.2 = [] ∧ rrOf x.2 = [] := by
  cases hc : st.ctrl with
  | none =>
    simp [Sess.step, startSession, hs, hc, sendProcess, mkLogon, Sess.fresh, dlvOf, rrOf, SpecG.cput, recovNr]
  | some ab =>
    obtain ⟨a, b⟩ := ab
    simp [Sess.step, startSession, hs, hc, sendProcess, mkLogon, Sess.fresh, dlvOf, rrOf, SpecG.cput, recovNr]

theorem appSend_spec {s : Sess} {p : Peer} (g : Good s p) (pid : Nat) :
    Good (s.step (.appSend pid 0 false)).1 p ∧ (s.step (.appSend pid 0 false)).1.state = s.state ∧
    (s.step (.appSend pid 0 false)).1.nr = s.nr ∧ dlvOf (s.step (.appSend pid 0 false)).2 = [] := by
  obtain ⟨st, hs, hc⟩ := g.ctrl
  have hx : s.step (.appSend pid 0 false) = sendProcess s { m := mkOrder s pid, custom := 0, noInc := false } := by
    simp [Sess.step, g.started, g.alive]
  rw [hx, sendProcess_eq s _ g.buf rfl]
  refine ⟨⟨g.started, g.alive, rfl, g.snd, g.tgt, g.now, g.nr1, ?_⟩, rfl, rfl, by simp [dlvOf]⟩
  simp [hs, mkOrder, Sess.fresh, builtFrame, SpecG.cput]

end Fix8Model.Session
