import Fix8Model.Session.SupBase
/-!
Model of the supervision of an established session: `Session::heartbeat_service` (one call = one supervision tick),
`handle_test_request`, `handle_heartbeat`, `handle_logout`, an application send, on the virtual clock in ns.
Assumptions of the setting: the connection object exists and `is_connected()` (it stays true after connect); inbound
frames are in sequence and carry the right CompIDs (they pass `enforce`); once the session is shut down its reader is
stopped, so no further inbound frame or application send is processed (`Ev.recv`/`Ev.appSend` are no-ops then).
-/
namespace Fix8Model.SessLH

inductive InKind
  | heartbeat (id : Option String)     -- 35=0, optional 112
  | testRequest (id : String)          -- 35=1, 112
  | app                                -- an application message
  | logout                             -- 35=5
  | gap                                -- an application message AHEAD of the expected number (state continuous: ResendRequest)
  deriving DecidableEq, Repr, Inhabited

inductive Ev
  | tick (now : Nat)                   -- heartbeat_service() at `now`
  | recv (now : Nat) (k : InKind)      -- FIXReader::read (update_received) + process() at `now`
  | appSend (now : Nat)                -- Session::send(application message) at `now`
  deriving DecidableEq, Repr, Inhabited

def Ev.time : Ev → Nat
  | .tick t => t | .recv t _ => t | .appSend t => t

def hbFrame (id : Option String) : Frame := { msgType := "0", seq := 0, sender := "", target := "", testReqId := id }
def trFrame : Frame := { msgType := "1", seq := 0, sender := "", target := "", testReqId := some Gen.testReqIdLiteral }
def logoutFrame (silent : Bool) : Frame :=
  { msgType := "5", seq := 0, sender := "", target := "", text := if silent then none else some "ignored" }
def appFrame : Frame := { msgType := "D", seq := 0, sender := "", target := "" }
def resendFrame (_b : Nat) : Frame := { msgType := "2", seq := 0, sender := "", target := "" }   -- BeginSeqNo (7) is not carried by `Frame`

/-- first half of `heartbeat_service`: `if ((now - _last_sent).secs() >= hb_interval) send(generate_heartbeat(""))` -/
def tickHeartbeat (s : Sess) (now : Nat) : Sess × List Frame :=
  if secsBetween now s.lastSent ≥ s.hb then
    ((s.send now (hbFrame none)).1, [(s.send now (hbFrame none)).2])
  else (s, [])

/-- second half: `now.now(); if ((now - _last_received).secs() > hb_interval20pc) …` -/
def tickSilence (s : Sess) (now : Nat) : Sess × List Frame :=
  if secsBetween now s.lastRecv > hb20 s.hb then
    if s.state == .testRequestSent then                                          -- already sent
      -- send(generate_logout(silent ? 0 : text), true, 0, true); do_state_change(st_logoff_sent); stop(false);
      -- do_state_change(st_session_terminated); return true
      ({ (s.send now (logoutFrame s.cfg.silent) true).1.stop with state := .sessionTerminated },
       [(s.send now (logoutFrame s.cfg.silent) true).2])
    else if s.state != .sessionTerminated then
      ({ (s.send now trFrame).1 with state := .testRequestSent },                 -- send(generate_test_request("TEST"));
       [(s.send now trFrame).2])                                                  -- do_state_change(st_test_request_sent)
    else (s, [])
  else (s, [])

/-- `Session::heartbeat_service()` -/
def tick (s : Sess) (now : Nat) : Sess × List Frame :=
  if s.isShutdown then (s, [])                                                   -- if (is_shutdown()) return false
  else
    ((tickSilence (tickHeartbeat s now).1 now).1, (tickHeartbeat s now).2 ++ (tickSilence (tickHeartbeat s now).1 now).2)

/-- an inbound frame that passes `enforce`: `update_received()`, the handler, `++_next_receive_seq`,
`update_persist_seqnums()`, and `stop()` after a Logout -/
def recv (s : Sess) (now : Nat) (k : InKind) : Sess × List Frame :=
  if s.isShutdown then (s, [])
  else
    let s0 := { s with lastRecv := now }
    match k with
    | .heartbeat _ =>                                                            -- handle_heartbeat
      ((if s0.state == .testRequestSent then { s0 with state := .continuous } else s0).received, [])
    | .testRequest id =>                                                         -- handle_test_request
      ((s0.send now (hbFrame (if id.isEmpty then none else some id))).1.received,
       [(s0.send now (hbFrame (if id.isEmpty then none else some id))).2])
    | .app => (s0.received, [])
    | .logout => (s0.received.stop, [])                                          -- handle_logout; … stop()
    | .gap =>
      -- sequence_check: seqnum > expected; in `continuous` a ResendRequest (BeginSeqNo = expected) goes out and the state becomes
      -- resend_request_sent, the message is not delivered; process() counts it all the same.  In any other established state the
      -- check throws InvalidMsgSequence (force_logoff): the session is stopped without a Logout (state is not logon_received)
      if s0.state == .continuous then
        ({ (s0.send now (resendFrame s0.nextRecv)).1 with state := .resendRequestSent }.received, [(s0.send now (resendFrame s0.nextRecv)).2])
      else (s0.stop, [])

/-- the application sends a message -/
def appSend (s : Sess) (now : Nat) : Sess × List Frame :=
  if s.isShutdown then (s, [])
  else
    ((s.send now appFrame).1, [(s.send now appFrame).2])

def step (s : Sess) : Ev → Sess × List Frame
  | .tick now => tick s now
  | .recv now k => recv s now k
  | .appSend now => appSend s now

/-- state after a timeline -/
def final (s : Sess) : List Ev → Sess
  | [] => s
  | e :: es => final (step s e).1 es

/-- the frames of every step of a timeline -/
def outputs (s : Sess) : List Ev → List (List Frame)
  | [] => []
  | e :: es => (step s e).2 :: outputs (step s e).1 es

/-- event times never go back, starting from `t` -/
def Monotone (t : Nat) : List Ev → Prop
  | [] => True
  | e :: es => t ≤ e.time ∧ Monotone e.time es

/-- time of the last event of the timeline that made the session write something (`dflt` if none) -/
def lastEmit (s : Sess) (dflt : Nat) : List Ev → Nat
  | [] => dflt
  | e :: es => lastEmit (step s e).1 (if (step s e).2.isEmpty then dflt else e.time) es

/-- time of the last inbound frame of the timeline (`dflt` if none) -/
def lastIn (dflt : Nat) : List Ev → Nat
  | [] => dflt
  | .recv t _ :: es => lastIn t es
  | _ :: es => lastIn dflt es

end Fix8Model.SessLH
