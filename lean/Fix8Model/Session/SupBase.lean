import Fix8Model.Gen.SessConsts
/-!
Session state shared by the logon model (C23, `Session/Logon.lean`) and the supervision model (C22,
`Session/Heartbeat.lean`): the members of `FIX8::Session` / `Connection` that `handle_logon`, `start`,
`heartbeat_service`, `handle_test_request`, `handle_heartbeat`, `send_process` and the `process()` epilogue read or
write.  Times are the virtual clock in ns (`Tickval`).  Core Lean only.
-/
namespace Fix8Model.SessLH

/-- `States::SessionStates` (include/fix8/session.hpp) -/
inductive SessState
  | none | continuous | sessionTerminated | waitForLogon | notLoggedIn | logonSent | logonReceived | logoffSent
  | logoffReceived | testRequestSent | sequenceResetSent | sequenceResetReceived | resendRequestSent | resendRequestReceived
  deriving DecidableEq, Repr, Inhabited

def SessState.name : SessState → String
  | .none => "none" | .continuous => "continuous" | .sessionTerminated => "session_terminated"
  | .waitForLogon => "wait_for_logon" | .notLoggedIn => "not_logged_in" | .logonSent => "logon_sent"
  | .logonReceived => "logon_received" | .logoffSent => "logoff_sent" | .logoffReceived => "logoff_received"
  | .testRequestSent => "test_request_sent" | .sequenceResetSent => "sequence_reset_sent"
  | .sequenceResetReceived => "sequence_reset_received" | .resendRequestSent => "resend_request_sent"
  | .resendRequestReceived => "resend_request_received"

/-- `SessionID`: (BeginString, SenderCompID, TargetCompID) -/
structure SessionID where
  beginStr : String
  sender : String
  target : String
  deriving DecidableEq, Repr, Inhabited

/-- `SessionID::operator==` exactly as coded: the BeginString takes no part.  (`this != &that ? … : true`: for the
same object the field comparison is true as well, so the address test does not show in the value.) -/
def SessionID.eq (a b : SessionID) : Bool := b.sender == a.sender && b.target == a.target

/-- `SessionID::operator!=` as coded AFTER `fix: SessionID::operator!= is the negation of operator==` -/
def SessionID.ne (a b : SessionID) : Bool := b.sender != a.sender || b.target != a.target

/-- `SessionID::operator!=` as it was at the base commit (`&&`): true only when BOTH CompIDs differ -/
def SessionID.neAsWas (a b : SessionID) : Bool := b.sender != a.sender && b.target != a.target

inductive Role | initiator | acceptor
  deriving DecidableEq, Repr, Inhabited

/-- what the harness can see of an outbound frame -/
structure Frame where
  msgType : String
  seq : Nat
  sender : String
  target : String
  hbi : Option Int := none          -- 108
  reset : Option Bool := none       -- 141
  testReqId : Option String := none -- 112
  refSeq : Option Nat := none       -- 45
  text : Option String := none      -- 58, as a class: seqhi seqlo badtime already ignored other
  deriving DecidableEq, Repr, Inhabited

/-- `LoginParameters` members and the virtual hooks that `handle_logon` consults -/
structure Cfg where
  role : Role
  enforce : Bool                       -- _enforce_compids
  clients : List (String × Nat)        -- _clients: (CompID, address code; 0 = `IPAddress()` = any)
  peerIp : Nat                         -- _connection->get_peer_socket_address().host() as a code
  silent : Bool                        -- _silent_disconnect
  resetOnStart : Bool                  -- _reset_sequence_numbers
  auth : Bool                          -- result of the virtual `authenticate`
  schedBlocks : Bool                   -- _login_schedule.is_valid() && !_login_schedule.test()
  beginStr : String                    -- _ctx._beginStr
  deriving DecidableEq, Repr, Inhabited

structure Sess where
  cfg : Cfg
  sci : String                         -- _sci (acceptor)
  sid : SessionID                      -- _sid
  state : SessState
  nextSend : Nat
  nextRecv : Nat
  reqSend : Nat                        -- _req_next_send_seq
  reqRecv : Nat
  hasPersist : Bool                    -- _persist != 0
  ctrl : Option (Nat × Nat)            -- the persister's control record
  hb : Nat                             -- Connection::_hb_interval  (`_hb_interval20pc` is always written with it: `hb20`)
  lastSent : Nat                       -- _last_sent, ns
  lastRecv : Nat                       -- _last_received, ns
  shutdown : Bool                      -- _control & shutdown
  deriving DecidableEq, Repr, Inhabited

def wrap32 (n : Nat) : Nat := n % 4294967296

/-- `int` → `unsigned` -/
def toU32 (i : Int) : Nat := (i % 4294967296).toNat

/-- `Connection::_hb_interval20pc = hb_interval + hb_interval / 5` in `unsigned` arithmetic -/
def hb20 (h : Nat) : Nat := wrap32 (h + h / Gen.hb20Divisor)

def nsPerSec : Nat := 1000000000

/-- `(now - last).secs()`: the difference in ns truncated to whole seconds -/
def secsBetween (now last : Nat) : Nat := (now - last) / nsPerSec

/-- `Session::is_shutdown()` -/
def Sess.isShutdown (s : Sess) : Bool := s.shutdown || s.state == .sessionTerminated

/-- `Session::stop()`: sets the shutdown bit (further calls return at once); the connection is stopped -/
def Sess.stop (s : Sess) : Sess := { s with shutdown := true }

/-- `send(msg, destroy, custom_seqnum = 0, no_increment)` → `send_process` for a message without PossDupFlag/MsgSeqNum:
the header gets the session's CompIDs and `_next_send_seq`, `_last_sent` is set, the control record is stored
(`put(_next_send_seq + 1, _next_receive_seq)`), and the number advances unless `no_increment` -/
def Sess.send (s : Sess) (now : Nat) (f : Frame) (noInc : Bool := false) : Sess × Frame :=
  ({ s with lastSent := now,
            ctrl := if s.hasPersist then some (s.nextSend + 1, s.nextRecv) else s.ctrl,
            nextSend := if noInc then s.nextSend else s.nextSend + 1 },
   { f with seq := s.nextSend, sender := s.sid.sender, target := s.sid.target })

/-- the epilogue of `process()` after a handler returned: `++_next_receive_seq; update_persist_seqnums()` -/
def Sess.received (s : Sess) : Sess :=
  let r := s.nextRecv + 1
  { s with nextRecv := r, ctrl := if s.hasPersist then some (s.nextSend, r) else s.ctrl }

end Fix8Model.SessLH
