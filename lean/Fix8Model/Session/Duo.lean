import Fix8Model.Session.Acceptor
/-!
C21: two fix8 sessions – an initiator `a` (CompID 1 = CLI) and an acceptor `b` (CompID 2 = SRV) – each over its own file
persister (the C26/C27 store specification inside `Sess`), joined by two FIFO channels of frames in flight.

A schedule is a list of `DEv`:
  `connect`        (only when down) a new initiator Session object over A's persister, `start()` -> its Logon goes into the channel;
                   a new acceptor Session object over B's persister, waiting for the Logon
  `sendA pid` / `sendB pid`   the application on that side sends NewOrderSingle(ClOrdID = pid)
  `dAB` / `dBA`    the oldest frame in flight A->B (B->A) is delivered: `process()` on the receiving session; what it writes goes
                   into the opposite channel
  `drop`           the connection is lost: frames in flight are lost, both sessions are stopped (`stop()`)
  `restartA` / `restartB`   that process dies and is started again: the connection is lost as by `drop`, the Session object of that
                   side is gone; its state will be rebuilt from its persister files at the next `connect`
                   (re-opening the files gives back the same store: C26/C27)
  `tick ms`        the common clock advances
Frames are abstract `Msg` records (a frame written by one session decodes at the other to itself and its `34=` scan finds
its MsgSeqNum – in the correspondence run every frame is decoded by the real Message::factory).
-/
namespace Fix8Model.Session

structure Duo where
  a : Sess
  b : Sess
  ab : List Msg := []         -- in flight A -> B, oldest first
  ba : List Msg := []
  up : Bool := false
  sentA : List Nat := []      -- ghost: ClOrdIDs the application of A has sent (accepted by a running session)
  sentB : List Nat := []
  dlvA : List Nat := []       -- ghost: ClOrdIDs delivered to the application of A, in order
  dlvB : List Nat := []
  dupA : Nat := 0             -- ghost: deliveries at A that carried PossDupFlag
  dupB : Nat := 0
deriving Repr

inductive DEv
  | connect
  | sendA (pid : Nat)
  | sendB (pid : Nat)
  | dAB
  | dBA
  | drop
  | restartA
  | restartB
  | tick (ms : Nat)
deriving Repr, DecidableEq

/-- the frames among the outputs -/
def wiresOf : List Out → List Msg
  | [] => []
  | .wire m :: r => m :: wiresOf r
  | _ :: r => wiresOf r

/-- the ClOrdIDs that reached the application -/
def dlvPids : List Out → List Nat
  | [] => []
  | .deliver _ m :: r => m.pid.getD 0 :: dlvPids r
  | _ :: r => dlvPids r

/-- how many of the deliveries carried PossDupFlag=Y -/
def dupCount : List Out → Nat
  | [] => 0
  | .deliver _ m :: r => (if m.possDup = some true then 1 else 0) + dupCount r
  | _ :: r => dupCount r

/-- one side's record of a step, for the driver -/
structure DMicro where
  side : Nat                -- 1 = A, 2 = B
  inb : Option Msg
  outs : List Out
deriving Repr

namespace Duo

def accepts (s : Sess) : Bool := s.started && !s.shutdown

/-- connection lost: frames in flight are lost, both sessions stopped -/
def down (d : Duo) : Duo :=
  { d with ab := [], ba := [], up := false, a := { d.a with shutdown := true }, b := { d.b with shutdown := true } }

def step (d : Duo) (ev : DEv) : Duo × List DMicro :=
  match ev with
  | .tick ms =>
    ({ d with a := (d.a.step (.clock (d.a.now + ms))).1, b := (d.b.step (.clock (d.b.now + ms))).1 }, [])
  | .connect =>
    if d.up then (d, []) else
    let x := d.a.step (.start 0 0)
    let y := d.b.stepAcc 2 (.start 0 0)
    ({ d with a := x.1, b := y.1, ab := wiresOf x.2, ba := [], up := true }, [⟨1, none, x.2⟩, ⟨2, none, y.2⟩])
  | .sendA pid =>
    if accepts d.a then
      let x := d.a.step (.appSend pid 0 false)
      ({ d with a := x.1, ab := d.ab ++ wiresOf x.2, sentA := d.sentA ++ [pid] }, [⟨1, none, x.2⟩])
    else (d, [])
  | .sendB pid =>
    if accepts d.b then
      let x := d.b.stepAcc 2 (.appSend pid 0 false)
      ({ d with b := x.1, ba := d.ba ++ wiresOf x.2, sentB := d.sentB ++ [pid] }, [⟨2, none, x.2⟩])
    else (d, [])
  | .dAB =>
    match d.ab with
    | [] => (d, [])
    | m :: r =>
      let x := d.b.stepAcc 2 (.inbound (some m.seq) (.ok m))
      ({ d with b := x.1, ab := r, ba := d.ba ++ wiresOf x.2, dlvB := d.dlvB ++ dlvPids x.2, dupB := d.dupB + dupCount x.2 }, [⟨2, some m, x.2⟩])
  | .dBA =>
    match d.ba with
    | [] => (d, [])
    | m :: r =>
      let x := d.a.step (.inbound (some m.seq) (.ok m))
      ({ d with a := x.1, ba := r, ab := d.ab ++ wiresOf x.2, dlvA := d.dlvA ++ dlvPids x.2, dupA := d.dupA + dupCount x.2 }, [⟨1, some m, x.2⟩])
  | .drop => (d.down, [])
  | .restartA => ({ d.down with a := { d.down.a with started := false } }, [])
  | .restartB => ({ d.down with b := { d.down.b with started := false } }, [])

def run (d : Duo) : List DEv → Duo × List DMicro
  | [] => (d, [])
  | ev :: r => let x := d.step ev; let y := run x.1 r; (y.1, x.2 ++ y.2)

/-- two processes that have never run: empty persisters, no Session objects -/
def init (enforce : Bool) (t0 : Nat := 0) : Duo :=
  { a := { Sess.init ⟨enforce, 1, 2⟩ Code.fixed true with now := t0 },
    b := { Sess.init ⟨enforce, 0, 0⟩ Code.fixed true with now := t0 } }

end Duo

/-! ### the schedule classes outside which the property is proved -/

/-- class `loss-at-disconnect`: the connection is lost (drop or restart) while a frame is in flight -/
def LossAtDrop (d : Duo) (ev : DEv) : Prop :=
  (ev = .drop ∨ ev = .restartA ∨ ev = .restartB) ∧ (d.ab ≠ [] ∨ d.ba ≠ [])

/-- class `send-before-logon`: the application of the ACCEPTOR sends on a session that has not yet processed the initiator's
Logon (the initiator may send as soon as it has written its Logon: its messages queue up behind it) -/
def EarlySend (d : Duo) (ev : DEv) : Prop :=
  ∃ pid, ev = .sendB pid ∧ Duo.accepts d.b = true ∧ d.b.state ≠ .continuous

instance (d : Duo) (ev : DEv) : Decidable (LossAtDrop d ev) := by unfold LossAtDrop; infer_instance
instance (d : Duo) (ev : DEv) : Decidable (EarlySend d ev) := by
  unfold EarlySend
  cases ev with
  | sendB pid =>
    exact decidable_of_iff (Duo.accepts d.b = true ∧ d.b.state ≠ .continuous)
      ⟨fun h => ⟨pid, rfl, h⟩, fun ⟨_, he, h⟩ => by cases he; exact h⟩
  | _ => exact isFalse (fun ⟨_, he, _⟩ => by cases he)

def CleanD : Duo → List DEv → Prop
  | _, [] => True
  | d, ev :: r => ¬ LossAtDrop d ev ∧ ¬ EarlySend d ev ∧ CleanD (d.step ev).1 r

instance : (d : Duo) → (h : List DEv) → Decidable (CleanD d h)
  | _, [] => isTrue trivial
  | d, ev :: r => by
    unfold CleanD
    have := instDecidableCleanD (d.step ev).1 r
    infer_instance

end Fix8Model.Session
