import Fix8Model.Session.Scan
/-! the fixed scan (pattern SOH "34=") returns the value of the first MsgSeqNum FIELD of a frame made of
`tag=value<SOH>` fields whose values contain no SOH – whatever those values contain otherwise (e.g. the text `34=`). -/
namespace Fix8Model.Session

/-- a FIX field as bytes -/
structure Fld where
  tag : List Nat
  val : List Nat

def Fld.render (f : Fld) : List Nat := f.tag ++ 61 :: (f.val ++ [1])
/-- no SOH in tag or value, no `=` in the tag -/
def Fld.WF (f : Fld) : Prop := (∀ c ∈ f.tag, c ≠ 1 ∧ c ≠ 61) ∧ (∀ c ∈ f.val, c ≠ 1)
def renderAll : List Fld → List Nat
  | [] => []
  | f :: fs => f.render ++ renderAll fs
def tag34 : List Nat := [51, 52]

/-- decimal value of a digit string -/
def decimal (ds : List Nat) : Nat := ds.foldl (fun a c => a * 10 + (c - 48)) 0

theorem findAfter_skip (u Y : List Nat) (hu : ∀ c ∈ u, c ≠ 1) (hY : Y ≠ []) : findAfter sohPat (u ++ Y) = findAfter sohPat Y := by
  induction u with
  | nil => rfl
  | cons c cs ih =>
    have hc : c ≠ 1 := hu c List.mem_cons_self
    have : isPrefixOf sohPat (c :: (cs ++ Y)) = false := by
      simp only [sohPat, isPrefixOf]
      have : (1 == c) = false := by simp; omega
      simp [this]
    simp only [List.cons_append, findAfter, this]
    exact ih (fun x hx => hu x (List.mem_cons_of_mem _ hx))

theorem not_prefix_field (g : Fld) (hg : g.WF) (ht : g.tag ≠ tag34) (Z : List Nat) :
    isPrefixOf sohPat (1 :: (g.render ++ Z)) = false := by
  obtain ⟨h1, _⟩ := hg
  unfold Fld.render sohPat
  match htag : g.tag with
  | [] => simp [isPrefixOf]
  | [a] => simp [isPrefixOf]
  | [a, b] =>
    simp only [isPrefixOf, List.cons_append, List.nil_append, beq_self_eq_true, Bool.true_and]
    by_cases ha : a = 51
    · by_cases hb : b = 52
      · exfalso; apply ht; rw [htag, ha, hb]; rfl
      · have : (52 == b) = false := by simp; omega
        simp [this]
    · have : (51 == a) = false := by simp; omega
      simp [this]
  | a :: b :: c :: rest =>
    have hc : c ≠ 61 := (h1 c (by rw [htag]; simp)).2
    have : (61 == c) = false := by simp; omega
    simp [isPrefixOf, this]

theorem findAfter_fields (pre : List Fld) (W : List Nat) (hpre : ∀ f ∈ pre, f.WF ∧ f.tag ≠ tag34) :
    findAfter sohPat (1 :: (renderAll pre ++ W)) = findAfter sohPat (1 :: W) := by
  induction pre with
  | nil => rfl
  | cons g gs ih =>
    obtain ⟨hg, ht⟩ := hpre g List.mem_cons_self
    have hnp := not_prefix_field g hg ht (renderAll gs ++ W)
    have e1 : (1 :: (renderAll (g :: gs) ++ W)) = 1 :: (g.render ++ (renderAll gs ++ W)) := by simp [renderAll]
    rw [e1]
    simp only [findAfter, hnp]
    have e2 : g.render ++ (renderAll gs ++ W) = (g.tag ++ 61 :: g.val) ++ (1 :: (renderAll gs ++ W)) := by simp [Fld.render]
    have hno : ∀ c ∈ g.tag ++ 61 :: g.val, c ≠ 1 := by
      intro c hc
      rcases List.mem_append.mp hc with h | h
      · exact (hg.1 c h).1
      · rcases List.mem_cons.mp h with h | h
        · omega
        · exact hg.2 c h
    simp only [Bool.false_eq_true, if_false]
    rw [e2, findAfter_skip _ _ hno (by simp)]
    exact ih (fun f hf => hpre f (List.mem_cons_of_mem _ hf))

theorem foldl_dec_ge (ds : List Nat) : ∀ acc, acc ≤ ds.foldl (fun a c => a * 10 + (c - 48)) acc := by
  induction ds with
  | nil => intro acc; exact Nat.le_refl _
  | cons d ds ih =>
    intro acc
    have h1 : acc ≤ acc * 10 + (d - 48) := by omega
    exact Nat.le_trans h1 (ih _)

theorem atoiLoop_digits (ds post : List Nat) (hd : ∀ d ∈ ds, 48 ≤ d ∧ d ≤ 57) :
    ∀ acc, ds.foldl (fun a c => a * 10 + (c - 48)) acc < 4294967296 →
      atoiLoop acc (ds ++ 1 :: post) = ds.foldl (fun a c => a * 10 + (c - 48)) acc := by
  induction ds with
  | nil => intro acc _; simp [atoiLoop]
  | cons d ds ih =>
    intro acc hlt
    obtain ⟨d1, d2⟩ := hd d List.mem_cons_self
    have hne : d ≠ 1 := by omega
    have hge := foldl_dec_ge ds (acc * 10 + (d - 48))
    simp only [List.foldl_cons] at hlt ⊢
    have hstep : (acc * 10 + digitTerm d) % 4294967296 = acc * 10 + (d - 48) := by
      unfold digitTerm
      rw [if_pos (by omega)]
      have : acc * 10 + (d + 4294967296 - 48) = (acc * 10 + (d - 48)) + 4294967296 := by omega
      rw [this, Nat.add_mod_right, Nat.mod_eq_of_lt (by omega)]
    simp only [List.cons_append, atoiLoop, hne, if_false, hstep]
    exact ih (fun x hx => hd x (List.mem_cons_of_mem _ hx)) _ hlt

/-- **the fixed scan is faithful on SOH-free field values**: for a frame `f0 pre… 34=<digits> post…` where no field in
front of the MsgSeqNum field has tag 34 (the first field cannot matter: the pattern needs an SOH in front) and no tag/value in
front of it contains SOH, the number `process` extracts is the decimal value of the MsgSeqNum field – even when the
values in front of it contain the text `34=`. -/
theorem scan_fields (f0 : Fld) (pre : List Fld) (digits post : List Nat)
    (h0 : f0.WF) (hpre : ∀ f ∈ pre, f.WF ∧ f.tag ≠ tag34)
    (hd : ∀ d ∈ digits, 48 ≤ d ∧ d ≤ 57) (hv : decimal digits < 4294967296) :
    scanSeq true (f0.render ++ (renderAll pre ++ (tag34 ++ 61 :: (digits ++ 1 :: post)))) = some (decimal digits) := by
  unfold scanSeq
  simp only [if_true]
  have e0 : f0.render ++ (renderAll pre ++ (tag34 ++ 61 :: (digits ++ 1 :: post))) =
      (f0.tag ++ 61 :: f0.val) ++ (1 :: (renderAll pre ++ (tag34 ++ 61 :: (digits ++ 1 :: post)))) := by simp [Fld.render]
  have hno : ∀ c ∈ f0.tag ++ 61 :: f0.val, c ≠ 1 := by
    intro c hc
    rcases List.mem_append.mp hc with h | h
    · exact (h0.1 c h).1
    · rcases List.mem_cons.mp h with h | h
      · omega
      · exact h0.2 c h
  rw [e0, findAfter_skip _ _ hno (by simp), findAfter_fields pre _ hpre]
  have : findAfter sohPat (1 :: (tag34 ++ 61 :: (digits ++ 1 :: post))) = some (digits ++ 1 :: post) := by
    simp [findAfter, sohPat, tag34, isPrefixOf]
  rw [this]
  simp only [Option.map_some]
  congr 1
  have h45 : ∀ rest, digits ++ 1 :: post ≠ 45 :: rest := by
    intro rest h
    cases digits with
    | nil => simp at h
    | cons d ds => simp at h; have := (hd d List.mem_cons_self).1; omega
  have hl := atoiLoop_digits digits post hd 0 hv
  unfold fastAtoiU
  split
  · rename_i rest heq; exact absurd heq (h45 rest)
  · exact hl

end Fix8Model.Session
