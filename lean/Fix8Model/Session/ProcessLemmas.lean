import Fix8Model.Session.NumberLemmas
/-! `dispatch` / `process` / `step`: numbering, forced-logoff exceptions, control record (C16) -/
namespace Fix8Model.Session
open Fix8Model.Store

theorem dispatch_NSJ (s : Sess) (sq : Nat) (m : Msg) (hb : s.buf = []) :
    NSJ s (dispatch s sq m).s (dispatch s sq m).outs ∧
    ((m.mtype ≠ .resendRequest ∨ (dispatch s sq m).exc ≠ none) → NSR s (dispatch s sq m)) := by
  unfold dispatch
  split
  · exact ⟨(handleApplication_NSR s sq m hb).toNSJ, fun _ => handleApplication_NSR s sq m hb⟩
  · exact ⟨(handleHeartbeat_NSR s sq m hb).toNSJ, fun _ => handleHeartbeat_NSR s sq m hb⟩
  · exact ⟨(handleTestRequest_NSR s sq m hb).toNSJ, fun _ => handleTestRequest_NSR s sq m hb⟩
  · rename_i ht
    have := handleResendRequest_NSJ s sq m hb
    refine ⟨this.1, fun h => ?_⟩
    rcases h with h | h
    · exact absurd ht h
    · exact this.2 h
  · exact ⟨(NSR.ok s hb).toNSJ, fun _ => NSR.ok s hb⟩
  · exact ⟨(handleSequenceReset_NSR s sq m hb).toNSJ, fun _ => handleSequenceReset_NSR s sq m hb⟩
  · exact ⟨(enforce_NSR s sq m hb).toNSJ, fun _ => enforce_NSR s sq m hb⟩
  · exact ⟨(handleLogon_NSR s sq m hb).toNSJ, fun _ => handleLogon_NSR s sq m hb⟩

theorem enforce_seqreset (s : Sess) (sq : Nat) (m : Msg) (h : m.mtype = .sequenceReset) :
    (enforce s sq m).1 = R.ok s ∨ (enforce s sq m).1 = R.throw s true := by
  unfold enforce
  split
  · split
    · right; rfl
    · simp [h]
  · left; rfl

theorem andThen_exc_of_none {r : R} {f : Sess → R} (hf : ∀ s, (f s).exc = none) (b : Bool) (h : (r.andThen f).exc = some b) :
    r.exc = some b ∧ r.andThen f = r := by
  unfold R.andThen at h ⊢
  split
  · rename_i x hx; simp only [hx] at h ⊢; exact ⟨h, trivial⟩
  · rename_i hx; simp only [hx] at h; rw [hf] at h; cases h

theorem replayFinal_exc (s : Sess) (b i last : Nat) : (replayFinal s b i last).exc = none := by
  unfold replayFinal; split <;> simp [R.andThen, sendR, R.ok]

theorem retransmit_exc (s : Sess) (st : SpecG Rec) (b e : Nat) : (retransmit s st b e).exc ≠ some true := by
  unfold retransmit
  simp only []
  split
  · exact replayLoop_exc _ _ _ _
  · simp only []; rw [replayFinal_exc]; simp

/-- an exception with force_logoff leaves ns / nr / store / buffer untouched and nothing has been written -/
theorem dispatch_force (s : Sess) (sq : Nat) (m : Msg) (h : (dispatch s sq m).exc = some true) :
    Untouched s (dispatch s sq m).s ∧ (dispatch s sq m).outs = [] := by
  unfold dispatch at h ⊢
  cases hm : m.mtype with
  | app c =>
    simp only [hm] at h ⊢
    unfold handleApplication at h ⊢
    simp only [] at h ⊢
    cases hx : (enforce s sq m).1.exc with
    | some x =>
      simp only [hx] at h ⊢
      have := enforce_exc s sq m true (by rw [hx]; exact h)
      rw [this.2.1, this.2.2]; exact ⟨Untouched.same s, rfl⟩
    | none =>
      simp only [hx] at h
      split at h
      · rw [hx] at h; cases h
      · cases h
  | heartbeat =>
    simp only [hm] at h ⊢
    have := andThen_exc_of_none (r := (enforce s sq m).1) (f := fun s => R.ok (if s.state = .testRequestSent then { s with state := .continuous } else s))
      (fun _ => rfl) true h
    unfold handleHeartbeat
    rw [this.2]
    have := enforce_exc s sq m true this.1
    rw [this.2.1, this.2.2]; exact ⟨Untouched.same s, rfl⟩
  | testRequest =>
    simp only [hm] at h ⊢
    have := andThen_exc_of_none (r := (enforce s sq m).1) (f := fun s => sendR s { m := mkHeartbeat s m.testReq })
      (fun _ => rfl) true h
    unfold handleTestRequest
    rw [this.2]
    have := enforce_exc s sq m true this.1
    rw [this.2.1, this.2.2]; exact ⟨Untouched.same s, rfl⟩
  | resendRequest =>
    simp only [hm] at h ⊢
    -- only enforce can throw with force_logoff
    unfold handleResendRequest R.andThen at h ⊢
    cases hx : (enforce s sq m).1.exc with
    | some x =>
      simp only [hx] at h ⊢
      have := enforce_exc s sq m true (by rw [hx]; exact h)
      rw [this.2.1, this.2.2]; exact ⟨Untouched.same s, rfl⟩
    | none =>
      exfalso
      simp only [hx] at h
      split at h
      · split at h
        · cases h
        · split at h
          · simp [R.andThen, sendR, R.ok] at h
          · exact retransmit_exc _ _ _ _ h
      · cases h
  | reject => simp only [hm] at h; cases h
  | sequenceReset =>
    simp only [hm] at h ⊢
    unfold handleSequenceReset at h ⊢
    rcases enforce_seqreset s sq m hm with he | he
    · rw [he] at h ⊢
      cases hn : m.newSeq with
      | none => simp [R.andThen, R.ok, hn] at h
      | some n =>
        by_cases hge : n ≥ s.nr
        · simp [R.andThen, R.ok, hn, hge] at h
        · simp [R.andThen, R.ok, R.throw, hn, hge]; exact Untouched.same s
    · rw [he]; simp only [R.andThen, R.throw]; exact ⟨Untouched.same s, trivial⟩
  | logout =>
    simp only [hm] at h ⊢
    have := enforce_exc s sq m true h
    unfold handleLogout
    rw [this.2.1, this.2.2]; exact ⟨Untouched.same s, rfl⟩
  | logon =>
    simp only [hm] at h ⊢
    unfold handleLogon at h ⊢
    by_cases h1 : s.state = .continuous
    · rw [if_pos h1] at h; cases h
    · rw [if_neg h1] at h ⊢
      simp only [] at h ⊢
      by_cases h2 : (m.tgt ≠ s.cfg.sender ∨ m.snd ≠ s.cfg.target) ∧ s.cfg.enforce = true
      · rw [if_pos h2] at h; cases h
      · rw [if_neg h2] at h ⊢
        have := andThen_exc_of_none (r := (enforce { s with state := .logonReceived } sq m).1) (f := fun s => R.ok { s with state := .continuous })
          (fun _ => rfl) true h
        rw [this.2]
        have := enforce_exc { s with state := .logonReceived } sq m true this.1
        rw [this.2.1, this.2.2]
        exact ⟨⟨rfl, rfl, rfl, rfl, rfl, rfl, rfl, rfl, rfl⟩, rfl⟩

end Fix8Model.Session
