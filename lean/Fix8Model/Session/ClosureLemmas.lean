import Fix8Model.Session.ProcessLemmas
/-! a generic induction principle over the inbound path: every relation between the state before a block, the state after
it and the outputs of the block that is reflexive, transitive (outputs appended), respected by the session's own sends
(administrative or replayed frames), by its bookkeeping updates and by the callbacks, holds for `process`.
Used for the frame conditions of C17 / C18 (stored messages, configuration, clock untouched; what kind of frames go out). -/
namespace Fix8Model.Session
open Fix8Model.Store

structure Closed (P : Sess → Sess → List Out → Prop) : Prop where
  refl : ∀ s, P s s []
  trans : ∀ {a b c o1 o2}, P a b o1 → P b c o2 → P a c (o1 ++ o2)
  send : ∀ s (q : Snd), q.eob = true → (q.m.admin = true ∨ q.hasSeq = true) → P s (sendProcess s q).1 (sendProcess s q).2
  upd : ∀ s (st : St) (ns nr : Nat) (sd : Bool), P s { s with state := st, ns := ns, nr := nr, shutdown := sd } []
  ctrl : ∀ s (a b : Nat), P s { s with store := s.store.map fun x => x.cput a b } []
  deliver : ∀ {s s' o} (raw : Nat) (m : Msg), P s s' o → P s s' (o ++ [Out.deliver raw m])
  admin : ∀ {s s' o} (raw : Nat), P s s' o → P s s' ([Out.admin raw] ++ o)

variable {P : Sess → Sess → List Out → Prop}

/-- a block followed by a silent update -/
theorem Closed.thenUpd (h : Closed P) {a b c : Sess} {o : List Out} (hp : P a b o) (hu : P b c []) : P a c o := by
  have := h.trans hp hu; rwa [List.append_nil] at this
/-- a silent update followed by a block -/
theorem Closed.updThen (h : Closed P) {a b c : Sess} {o : List Out} (hu : P a b []) (hp : P b c o) : P a c o := h.trans hu hp

theorem Closed.andThen (h : Closed P) {s : Sess} {r : R} {f : Sess → R} (hr : P s r.s r.outs) (hf : ∀ s1, P s1 (f s1).s (f s1).outs) :
    P s (r.andThen f).s (r.andThen f).outs := by
  unfold R.andThen
  split
  · exact hr
  · exact h.trans hr (hf r.s)

theorem Closed.sendR (h : Closed P) (s : Sess) (q : Snd) (h1 : q.eob = true) (h2 : q.m.admin = true ∨ q.hasSeq = true) :
    P s (sendR s q).s (sendR s q).outs := h.send s q h1 h2

theorem Closed.state (h : Closed P) (s : Sess) (st : St) : P s { s with state := st } [] := h.upd s st s.ns s.nr s.shutdown
theorem Closed.nr (h : Closed P) (s : Sess) (n : Nat) : P s { s with nr := n } [] := h.upd s s.state s.ns n s.shutdown

theorem Closed.sequenceCheck (h : Closed P) (s : Sess) (sq : Nat) (m : Msg) :
    P s (sequenceCheck s sq m).1.s (sequenceCheck s sq m).1.outs := by
  unfold Session.sequenceCheck
  split
  · split
    · exact h.thenUpd (h.send s { m := mkResend s s.nr 0 } rfl (Or.inl rfl)) (h.state _ _)
    · exact h.refl s
  · split
    · split
      · exact h.refl s
      · split
        · split <;> exact h.refl s
        · exact h.refl s
    · exact h.refl s

theorem Closed.enforce (h : Closed P) (s : Sess) (sq : Nat) (m : Msg) : P s (enforce s sq m).1.s (enforce s sq m).1.outs := by
  unfold Session.enforce
  split
  · split
    · exact h.refl s
    · split
      · exact h.sequenceCheck s sq m
      · exact h.refl s
  · exact h.refl s

theorem Closed.replayOne (h : Closed P) (s : Sess) (b last key : Nat) (rc : Rec) :
    P s (replayOne s b last key rc).s (replayOne s b last key rc).outs := by
  unfold Session.replayOne
  apply h.andThen
  · split
    · split
      · exact h.sendR s _ rfl (Or.inl rfl)
      · exact h.refl s
    · split
      · exact h.sendR s _ rfl (Or.inl rfl)
      · exact h.refl s
  · intro s1
    cases rc with
    | empty => exact h.refl s1
    | frame f => exact h.sendR s1 _ rfl (Or.inr rfl)

theorem Closed.replayLoop (h : Closed P) (b : Nat) (recs : List (Nat × Rec)) :
    ∀ (s : Sess) (last : Nat), P s (replayLoop b s last recs).1.s (replayLoop b s last recs).1.outs := by
  induction recs with
  | nil => intro s last; exact h.refl s
  | cons x xs ih =>
    intro s last
    obtain ⟨k, rc⟩ := x
    simp only [Session.replayLoop]
    split
    · exact h.replayOne s b last k rc
    · exact h.trans (h.replayOne s b last k rc) (ih _ _)

theorem Closed.replayFinal (h : Closed P) (s : Sess) (b i last : Nat) :
    P s (replayFinal s b i last).s (replayFinal s b i last).outs := by
  unfold Session.replayFinal
  split
  · exact h.andThen (h.sendR s _ rfl (Or.inl rfl)) (fun s1 => h.upd s1 .continuous _ s1.nr s1.shutdown)
  · exact h.andThen (h.sendR s _ rfl (Or.inl rfl)) (fun s1 => h.upd s1 .continuous _ s1.nr s1.shutdown)

theorem Closed.retransmit (h : Closed P) (s : Sess) (st : SpecG Rec) (b e : Nat) :
    P s (retransmit s st b e).s (retransmit s st b e).outs := by
  unfold Session.retransmit
  simp only []
  split
  · exact h.replayLoop _ _ _ _
  · exact h.trans (h.replayLoop _ _ _ _) (h.replayFinal _ _ _ _)

theorem Closed.handleResendRequest (h : Closed P) (s : Sess) (sq : Nat) (m : Msg) :
    P s (handleResendRequest s sq m).s (handleResendRequest s sq m).outs := by
  unfold Session.handleResendRequest
  apply h.andThen (h.enforce s sq m)
  intro s1
  simp only []
  split
  · split
    · exact h.sendR s1 _ rfl (Or.inl rfl)
    · split
      · exact h.andThen (h.sendR s1 _ rfl (Or.inl rfl)) (fun s2 => h.upd s2 s2.state _ s2.nr s2.shutdown)
      · exact h.updThen (h.state s1 .resendRequestReceived) (h.retransmit _ _ _ _)
  · exact h.refl s1

theorem Closed.handleLogon (h : Closed P) (s : Sess) (sq : Nat) (m : Msg) :
    P s (handleLogon s sq m).s (handleLogon s sq m).outs := by
  unfold Session.handleLogon
  split
  · exact h.sendR s _ rfl (Or.inl rfl)
  · simp only []
    split
    · exact h.upd s .terminated s.ns s.nr true
    · exact h.updThen (h.state s .logonReceived) (h.andThen (h.enforce _ sq m) (fun s1 => h.state s1 .continuous))

theorem Closed.dispatch (h : Closed P) (s : Sess) (sq : Nat) (m : Msg) :
    P s (dispatch s sq m).s (dispatch s sq m).outs := by
  unfold Session.dispatch
  split
  · unfold handleApplication
    simp only []
    split
    · exact h.enforce s sq m
    · split
      · exact h.enforce s sq m
      · exact h.deliver _ _ (h.enforce s sq m)
  · exact h.andThen (h.enforce s sq m) (fun s1 => by split; exact h.state s1 .continuous; exact h.refl s1)
  · exact h.andThen (h.enforce s sq m) (fun s1 => h.sendR s1 _ rfl (Or.inl rfl))
  · exact h.handleResendRequest s sq m
  · exact h.refl s
  · unfold handleSequenceReset
    apply h.andThen (h.enforce s sq m)
    intro s1
    apply h.andThen
    · split
      · split
        · exact h.nr s1 _
        · exact h.refl s1
      · exact h.refl s1
    · intro s2; split; exact h.state s2 .continuous; exact h.refl s2
  · exact h.enforce s sq m
  · exact h.handleLogon s sq m

theorem Closed.pre (h : Closed P) {s s' : Sess} {o : List Out} (m : Msg) (sq : Nat) (hp : P s s' o) :
    P s s' ((if m.admin then [Out.admin sq] else []) ++ o) := by
  split
  · exact h.admin sq hp
  · exact hp

theorem Closed.softReject (h : Closed P) {s0 : Sess} (s : Sess) (sq : Nat) (pre : List Out) (hp : P s0 s pre) :
    P s0 (softReject s sq pre).1 (softReject s sq pre).2 :=
  h.trans hp (h.thenUpd (h.send s { m := mkReject s sq } rfl (Or.inl rfl)) (h.thenUpd (h.nr _ _) (h.ctrl _ _ _)))

theorem Closed.logoff (h : Closed P) {s0 : Sess} (s : Sess) (pre : List Out) (hp : P s0 s pre) :
    P s0 (logoff s pre).1 (logoff s pre).2 := by
  unfold Session.logoff
  split
  · exact h.trans hp (h.updThen (h.state s .terminated)
      (h.thenUpd (h.send { s with state := .terminated } { m := mkLogout s, noInc := true } rfl (Or.inl rfl))
        (h.upd _ .logoffSent _ _ true)))
  · exact h.thenUpd hp (h.upd s s.state s.ns s.nr true)

theorem Closed.process (h : Closed P) (s : Sess) (scan : Option Nat) (dec : Dec) :
    P s (process s scan dec).1 (process s scan dec).2 := by
  cases scan with
  | none => exact h.softReject s 0 [] (h.refl s)
  | some sq =>
    cases dec with
    | null => exact h.refl s
    | throws f =>
      cases f with
      | false => exact h.softReject s sq [] (h.refl s)
      | true => exact h.logoff s [] (h.refl s)
    | ok m =>
      have hd := h.pre m sq (h.dispatch s sq m)
      simp only [Session.process]
      split
      · exact h.logoff _ _ hd
      · exact h.softReject _ _ _ hd
      · refine h.thenUpd hd ?_
        have h1 := h.nr (Session.dispatch s sq m).s ((Session.dispatch s sq m).s.nr + 1)
        split
        · exact h.thenUpd h1 (h.thenUpd (h.ctrl _ _ _) (h.upd _ _ _ _ true))
        · exact h.thenUpd h1 (h.ctrl _ _ _)

end Fix8Model.Session
