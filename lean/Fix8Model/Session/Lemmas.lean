import Fix8Model.Session.Step
/-! basic facts about the building blocks of the session step function -/
namespace Fix8Model.Session
open Fix8Model.Store

/-- sequence numbers of the NEW messages among some outputs: frames that are neither a retransmission (PossDupFlag)
nor a SequenceReset / gap fill -/
def newSeqs : List Out → List Nat
  | [] => []
  | .wire m :: rest => if m.possDup = none ∧ m.mtype ≠ .sequenceReset then m.seq :: newSeqs rest else newSeqs rest
  | _ :: rest => newSeqs rest

theorem newSeqs_append (a b : List Out) : newSeqs (a ++ b) = newSeqs a ++ newSeqs b := by
  induction a with
  | nil => rfl
  | cons x xs ih =>
    cases x with
    | wire m => simp only [List.cons_append, newSeqs]; split <;> simp [ih]
    | deliver r m => simp [newSeqs, ih]
    | admin r => simp [newSeqs, ih]

/-- no application delivery among the outputs -/
def NoDeliver (outs : List Out) : Prop := ∀ o ∈ outs, ∀ raw m, o ≠ Out.deliver raw m

theorem NoDeliver.nil : NoDeliver [] := by intro o h; cases h
theorem NoDeliver.append {a b : List Out} (ha : NoDeliver a) (hb : NoDeliver b) : NoDeliver (a ++ b) := by
  intro o h; rcases List.mem_append.mp h with h | h
  · exact ha o h
  · exact hb o h

/-- only frames among the outputs -/
def OnlyWire (outs : List Out) : Prop := ∀ o ∈ outs, ∃ m, o = Out.wire m
theorem OnlyWire.nil : OnlyWire [] := by intro o h; cases h
theorem OnlyWire.append {a b : List Out} (ha : OnlyWire a) (hb : OnlyWire b) : OnlyWire (a ++ b) := by
  intro o h; rcases List.mem_append.mp h with h | h
  · exact ha o h
  · exact hb o h
theorem OnlyWire.noDeliver {a : List Out} (h : OnlyWire a) : NoDeliver a := by
  intro o ho raw m he; obtain ⟨w, hw⟩ := h o ho; rw [hw] at he; cases he

theorem sendProcess_onlyWire (s : Sess) (q : Snd) : OnlyWire (sendProcess s q).2 := by
  unfold sendProcess; simp only []
  intro o ho
  split at ho
  · obtain ⟨m, _, hm⟩ := List.mem_map.mp ho; exact ⟨m, hm.symm⟩
  · cases ho

/-! ### frame fields that `send_process` leaves alone -/
section
variable (s : Sess) (q : Snd)
@[simp] theorem sendProcess_cfg : (sendProcess s q).1.cfg = s.cfg := rfl
@[simp] theorem sendProcess_code : (sendProcess s q).1.code = s.code := rfl
@[simp] theorem sendProcess_started : (sendProcess s q).1.started = s.started := rfl
@[simp] theorem sendProcess_state : (sendProcess s q).1.state = s.state := rfl
@[simp] theorem sendProcess_nr : (sendProcess s q).1.nr = s.nr := rfl
@[simp] theorem sendProcess_shutdown : (sendProcess s q).1.shutdown = s.shutdown := rfl
@[simp] theorem sendProcess_now : (sendProcess s q).1.now = s.now := rfl
end

/-- the frame `send_process` builds -/
def builtFrame (s : Sess) (q : Snd) : Msg :=
  { (if q.hasSeq then { q.m with possDup := (if q.m.possDup.isSome then q.m.possDup else some true), ost := some q.m.st }
     else { q.m with seq := (if q.custom ≠ 0 then q.custom else s.ns) }) with st := s.now }

theorem sendProcess_outs (s : Sess) (q : Snd) (hb : s.buf = []) (he : q.eob = true) :
    (sendProcess s q).2 = [Out.wire (builtFrame s q)] ∧ (sendProcess s q).1.buf = [] := by
  unfold sendProcess builtFrame; simp [hb, he]

end Fix8Model.Session
