import Fix8Model.Session.SupBase
/-!
Model of `Session::start` and of `Session::process` for an inbound Logon frame, i.e. `Session::handle_logon`
(runtime/session.cpp) for both roles, with the parts of `enforce`/`sequence_check` that a Logon reaches and the
exception epilogue of `process()`.  Followed path by path; comments name the C++ statements.
Assumptions of the setting (those of the harness): no `SessionConfig` (`_sf == 0`), `_reliable == false`,
`handle_admin` returns true, process model `pm_thread` (writes are synchronous).
-/
namespace Fix8Model.SessLH

/-- a decoded inbound Logon -/
structure LogonIn where
  sender : String            -- 49 (present; possibly empty)
  target : String            -- 56
  hbi : Int                  -- 108
  reset : Option Bool        -- 141
  possDup : Option Bool      -- 43
  origLater : Bool           -- 122 present and later than 52
  deriving DecidableEq, Repr, Inhabited

/-- outcome of `enforce(seqnum, msg)` in state `logon_received` -/
inductive Enf | ok | seqHigh | seqLow | badTime
  deriving DecidableEq, Repr

/-- `enforce` → `sequence_check` for a Logon: the state is `logon_received` (established, so the check runs;
`compid_check` is skipped in exactly this state).  Too high: the state is not `continuous` and `_sf == 0`, so
`InvalidMsgSequence`; too low: `MsgSequenceTooLow` unless PossDupFlag=Y, then `BadSendingTime` if OrigSendingTime
is later than SendingTime. -/
def enforceLogon (nextRecv seq : Nat) (m : LogonIn) : Enf :=
  if seq > nextRecv then .seqHigh
  else if seq < nextRecv then
    if m.possDup != some true then .seqLow
    else if m.origLater then .badTime
    else .ok
  else .ok

def Enf.text : Enf → String
  | .seqHigh => "seqhi" | .seqLow => "seqlo" | .badTime => "badtime" | .ok => ""

/-- `catch (f8Exception& e)` of `process()` with `e.force_logoff()` thrown out of `handle_logon`: in state
`logon_received` and not silent a Logout (text = e.what(), no increment) goes out between the states
`session_terminated` and `logoff_sent`; then `stop()`.  `_next_receive_seq` is NOT advanced. -/
def forceLogoff (s : Sess) (now : Nat) (text : String) : Sess × List Frame :=
  if s.state == .logonReceived && !s.cfg.silent then
    let (s1, f) := ({ s with state := .sessionTerminated }).send now { msgType := "5", seq := 0, sender := "", target := "", text := some text } true
    (({ s1 with state := .logoffSent }).stop, [f])
  else (s.stop, [])

/-- `recover_seqnums()` followed by the override with requested numbers -/
def recoverSeq (s : Sess) (reqS reqR : Nat) : Sess :=
  let s1 := match s.hasPersist, s.ctrl with
    | true, some (a, b) => { s with nextSend := a, nextRecv := b }
    | _, _ => s
  let s2 := if reqS != 0 then { s1 with nextSend := reqS } else s1
  if reqR != 0 then { s2 with nextRecv := reqR } else s2

/-- the client-list test of the acceptor: `iserr` -/
def clientErr (c : Cfg) (sender : String) : Bool :=
  match c.clients.find? (fun e => e.1 == sender) with
  | none => true
  | some e => e.2 != 0 && e.2 != c.peerIp

/-- `handle_logon` after the `Already logged on` test; result: state, frames, `thrown` (an exception left the handler,
so the epilogue of `process()` is skipped) -/
def handleLogonBody (s0 : Sess) (now seq : Nat) (m : LogonIn) : Sess × List Frame × Bool :=
  let s := { s0 with state := .logonReceived }                                   -- do_state_change(st_logon_received)
  let id : SessionID := ⟨s.cfg.beginStr, m.target, m.sender⟩                      -- SessionID id(_ctx._beginStr, tci(), sci())
  match s.cfg.role with
  | .initiator =>
    if id.ne s.sid && s.cfg.enforce then                                          -- if (id != _sid) … if (_enforce_compids)
      ({ s.stop with state := .sessionTerminated }, [], false)
    else
      match enforceLogon s.nextRecv seq m with                                    -- enforce(seqnum, msg)
      | .ok => ({ s with state := .continuous }, [], false)
      | e => let (s', fs) := forceLogoff s now e.text; (s', fs, true)
  | .acceptor =>
    if s.sci != m.target && s.cfg.enforce then                                    -- if (_sci() != tci()) … if (_enforce_compids)
      ({ s.stop with state := .sessionTerminated }, [], false)
    else if !s.cfg.clients.isEmpty && clientErr s.cfg m.sender then               -- if (!_clients.empty()) … if (iserr)
      ({ s.stop with state := .sessionTerminated }, [], false)
    else
      let s1 := if m.reset == some true then { s with nextSend := 1, nextRecv := 1 }   -- if (reset_given)
                else recoverSeq s s.reqSend s.reqRecv                                   -- else recover_seqnums(); requested
      if s1.cfg.auth then                                                         -- if (authenticate(id, msg))
        let s2 := { s1 with sid := id }                                           -- _sid = id
        match enforceLogon s2.nextRecv seq m with                                 -- enforce(seqnum, msg)
        | .ok =>
          let s3 := { s2 with hb := toU32 m.hbi }                                 -- _connection->set_hb_interval(hbi())
          let (s4, f) := s3.send now { msgType := "A", seq := 0, sender := "", target := "", hbi := some m.hbi,
                                       reset := if s3.cfg.resetOnStart then some true else none }  -- send(generate_logon(hbi(), davi()))
          let s5 := { s4 with state := .continuous }
          if s5.cfg.schedBlocks then ({ s5.stop with state := .sessionTerminated }, [f], false)
          else (s5, [f], false)
        | e => let (s', fs) := forceLogoff s2 now e.text; (s', fs, true)
      else ({ s1.stop with state := .sessionTerminated }, [], false)

/-- `process(raw)` for a frame of type Logon received at `now` (`FIXReader::read` has set `_last_received`);
`m = none`: the frame does not decode (a mandatory field is missing): not a force-logoff exception, so a Reject goes out,
the number is consumed and the state is untouched. -/
def processLogon (s : Sess) (now seq : Nat) (m : Option LogonIn) : Sess × List Frame :=
  let s := { s with lastRecv := now }
  match m with
  | none =>
    let (s1, f) := s.send now { msgType := "3", seq := 0, sender := "", target := "", refSeq := some seq, text := some "other" }
    (s1.received, [f])        -- reject exit: `++_next_receive_seq; update_persist_seqnums()` (persisted since the C16 repair)
  | some m =>
    if s.state == .continuous then                                                -- "Already logged on"
      let (s1, f) := s.send now { msgType := "3", seq := 0, sender := "", target := "", refSeq := some seq, text := some "already" }
      (s1.received, [f])
    else
      let (s1, fs, thrown) := handleLogonBody s now seq m
      if thrown then (s1, fs) else (s1.received, fs)

/-- `Session::start(connection, wait=false, send_seqnum, recv_seqnum)` at time `now` -/
def start (s : Sess) (now reqS reqR : Nat) : Sess × List Frame :=
  match s.cfg.role with
  | .acceptor =>
    ({ s with state := .waitForLogon, nextSend := 1, nextRecv := 1,                -- atomic_init(st_wait_for_logon)
              reqSend := if reqS != 0 then reqS else s.reqSend, reqRecv := if reqR != 0 then reqR else s.reqRecv }, [])
  | .initiator =>
    let s0 := { s with state := .notLoggedIn, nextSend := 1, nextRecv := 1 }       -- atomic_init(st_not_logged_in)
    let s1 := if s0.cfg.resetOnStart then s0 else recoverSeq s0 reqS reqR
    let (s2, f) := s1.send now { msgType := "A", seq := 0, sender := "", target := "", hbi := some (Int.ofNat s1.hb),
                                 reset := if s1.cfg.resetOnStart then some true else none }
    ({ s2 with state := .logonSent }, [f])

/-- a fresh session object before `start` -/
def fresh (c : Cfg) (sci : String) (sid : SessionID) (hb : Nat) (hasPersist : Bool) (ctrl : Option (Nat × Nat)) : Sess :=
  { cfg := c, sci := sci, sid := sid, state := .none, nextSend := 0, nextRecv := 0, reqSend := 0, reqRecv := 0,
    hasPersist := hasPersist, ctrl := ctrl, hb := hb, lastSent := 0, lastRecv := 0, shutdown := false }

end Fix8Model.SessLH
