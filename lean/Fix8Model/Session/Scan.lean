/-!
The sequence-number extraction at the head of `Session::process` (runtime/session.cpp:286-293):
`from.find(pattern)`, then `fast_atoi<unsigned>(from.data() + pos + |pattern|, SOH)`.
`soh = true` models the code after the fix (pattern SOH "34="), `soh = false` the base commit (pattern "34=").
Bytes are `Nat`s < 256.  `fast_atoi` reads up to the next SOH; a frame handed over by the reader always ends in
`10=nnn` SOH, so there is one (the harness refuses other input; reading past the end is C03's business).
-/
namespace Fix8Model.Session

def isPrefixOf : List Nat → List Nat → Bool
  | [], _ => true
  | _ :: _, [] => false
  | p :: ps, c :: cs => p == c && isPrefixOf ps cs

/-- remainder of the text after the first occurrence of `pat` -/
def findAfter (pat : List Nat) : List Nat → Option (List Nat)
  | [] => if pat.isEmpty then some [] else none
  | c :: cs => if isPrefixOf pat (c :: cs) then some ((c :: cs).drop pat.length) else findAfter pat cs

/-- `*str - '0'` as an `int` (plain `char` is signed on this platform), taken modulo 2^32 when added to an unsigned -/
def digitTerm (c : Nat) : Nat := if c < 128 then c + 4294967296 - 48 else c + 4294967296 - 256 - 48

/-- the unsigned loop of `fast_atoi`: `retval = (retval << 3) + (retval << 1) + (*str - '0')` until the terminator -/
def atoiLoop (acc : Nat) : List Nat → Nat
  | [] => acc
  | c :: cs => if c = 1 then acc else atoiLoop ((acc * 10 + digitTerm c) % 4294967296) cs

/-- the `-` branch: `retval = retval * 10 - (*str - '0')` -/
def atoiNegLoop (acc : Nat) : List Nat → Nat
  | [] => acc
  | c :: cs => if c = 1 then acc else atoiNegLoop ((acc * 10 + 4294967296 * 2 - digitTerm c) % 4294967296) cs

def fastAtoiU (s : List Nat) : Nat :=
  match s with
  | 45 :: rest => atoiNegLoop 0 rest
  | _ => atoiLoop 0 s

def sohPat : List Nat := [1, 51, 52, 61]   -- SOH '3' '4' '='
def basePat : List Nat := [51, 52, 61]

/-- what `process` takes as the sequence number of the raw frame; `none` = no pattern found (InvalidMessage) -/
def scanSeq (soh : Bool) (raw : List Nat) : Option Nat :=
  (findAfter (if soh then sohPat else basePat) raw).map fastAtoiU

end Fix8Model.Session
