import Fix8Model.Session.Types
import Fix8Model.Props.C26
/-! facts about the keys `Persister::get(from, to, …)` hands to the callback (`SpecG.range`), from the store specification -/
namespace Fix8Model.Session
open Fix8Model.Store

theorem foldl_max_ge {α : Type} (l : List (Nat × α)) : ∀ (m : Nat), m ≤ l.foldl (fun m p => max m p.1) m := by
  induction l with
  | nil => intro m; exact Nat.le_refl _
  | cons x xs ih => intro m; exact Nat.le_trans (Nat.le_max_left _ _) (ih _)

theorem foldl_max_mem {α : Type} (l : List (Nat × α)) : ∀ (m : Nat) (p : Nat × α), p ∈ l → p.1 ≤ l.foldl (fun m p => max m p.1) m := by
  induction l with
  | nil => intro m p hp; cases hp
  | cons x xs ih =>
    intro m p hp
    rcases List.mem_cons.mp hp with hp | hp
    · subst hp; exact Nat.le_trans (Nat.le_max_right _ _) (foldl_max_ge xs _)
    · exact ih _ p hp

/-- a stored number is at most `get_last_seqnum` -/
theorem le_maxKey {α : Type} (l : List (Nat × α)) (k : Nat) (h : hasKey l k = true) : k ≤ maxKey l := by
  unfold hasKey lookup at h
  cases hf : l.find? (fun p => p.1 == k) with
  | none => rw [hf] at h; cases h
  | some p =>
    have h1 := List.mem_of_find?_eq_some hf
    have h2 := List.find?_some hf
    have : p.1 = k := by simpa using h2
    rw [← this]
    exact foldl_max_mem l 0 p h1

/-- the upper end of the range: EndSeqNo, or the last stored number for 0 -/
def finishOf {α : Type} (st : SpecG α) (e : Nat) : Nat := if e = 0 then maxKey st.msgs else e

theorem range_eq {α : Type} (st : SpecG α) (b e : Nat) :
    st.range b e =
      if nearest (hasKey st.msgs) b (maxKey st.msgs) = 0 ∨ b > finishOf st e then []
      else (List.range' (nearest (hasKey st.msgs) b (maxKey st.msgs)) (finishOf st e + 1 - nearest (hasKey st.msgs) b (maxKey st.msgs))).filter (hasKey st.msgs) := by
  unfold SpecG.range rangeVisit finishOf
  simp only []
  by_cases he : e = 0
  · simp only [he, if_true]; split <;> rfl
  · simp only [he, if_false]; split <;> rfl

/-- the keys of `get(from, to, …)`: exactly the stored numbers in [from, finish], ascending -/
theorem range_mem {α : Type} (st : SpecG α) (b e k : Nat) (h0 : hasKey st.msgs 0 = false) :
    k ∈ st.range b e ↔ (hasKey st.msgs k = true ∧ b ≤ k ∧ k ≤ finishOf st e) := by
  rw [range_eq]
  constructor
  · intro hk
    split at hk
    · cases hk
    · rename_i hc
      have hc1 : nearest (hasKey st.msgs) b (maxKey st.msgs) ≠ 0 := fun h => hc (Or.inl h)
      obtain ⟨_, n2, _, _⟩ := Fix8Model.Props.C26.C26_nearest _ _ _ _ rfl hc1
      rw [List.mem_filter, List.mem_range'_1] at hk
      exact ⟨hk.2, by omega, by omega⟩
  · intro ⟨h1, h2, h3⟩
    have hlast := le_maxKey _ _ h1
    have hk0 : k ≠ 0 := by intro h; subst h; rw [h0] at h1; cases h1
    have hstart : nearest (hasKey st.msgs) b (maxKey st.msgs) ≠ 0 := by
      intro hz
      have := Fix8Model.Props.C26.C26_nearest_zero _ _ _ h0 hz k h2 hlast (by omega)
      rw [this] at h1; cases h1
    obtain ⟨_, n2, n3, n4⟩ := Fix8Model.Props.C26.C26_nearest _ _ _ _ rfl hstart
    have hle : nearest (hasKey st.msgs) b (maxKey st.msgs) ≤ k := by
      by_cases hlt : k < nearest (hasKey st.msgs) b (maxKey st.msgs)
      · have := n4 k h2 hlt; rw [this] at h1; cases h1
      · omega
    rw [if_neg (by
      intro hc
      rcases hc with hc | hc
      · exact hstart hc
      · omega)]
    rw [List.mem_filter, List.mem_range'_1]
    exact ⟨⟨hle, by omega⟩, h1⟩

theorem range_sorted {α : Type} (st : SpecG α) (b e : Nat) : (st.range b e).Pairwise (· < ·) := by
  rw [range_eq]
  split
  · exact List.Pairwise.nil
  · exact List.Pairwise.filter _ List.pairwise_lt_range'

end Fix8Model.Session
