import Fix8Model.Session.Heartbeat
/-! helper lemmas about the supervision model: frame conditions of the two halves of `heartbeat_service`,
shutdown is absorbing, `_last_sent` / `_last_received` are the times of the last write / last inbound frame. -/
namespace Fix8Model.SessLH

theorem tickHeartbeat_frame (s : Sess) (now : Nat) :
    (tickHeartbeat s now).1.state = s.state ∧ (tickHeartbeat s now).1.lastRecv = s.lastRecv ∧
    (tickHeartbeat s now).1.hb = s.hb ∧ (tickHeartbeat s now).1.shutdown = s.shutdown ∧
    (tickHeartbeat s now).1.cfg = s.cfg := by
  unfold tickHeartbeat; split <;> simp [Sess.send]

theorem tickHeartbeat_out (s : Sess) (now : Nat) :
    (tickHeartbeat s now).2 =
      if secsBetween now s.lastSent ≥ s.hb then
        [{ hbFrame none with seq := s.nextSend, sender := s.sid.sender, target := s.sid.target }] else [] := by
  unfold tickHeartbeat; split <;> simp [Sess.send]

theorem tickHeartbeat_lastSent (s : Sess) (now : Nat) :
    (tickHeartbeat s now).1.lastSent = if (tickHeartbeat s now).2.isEmpty then s.lastSent else now := by
  unfold tickHeartbeat
  by_cases h1 : secsBetween now s.lastSent ≥ s.hb <;> simp [h1, Sess.send]

theorem tickSilence_lastSent (s : Sess) (now : Nat) :
    (tickSilence s now).1.lastSent = if (tickSilence s now).2.isEmpty then s.lastSent else now := by
  unfold tickSilence
  by_cases h1 : secsBetween now s.lastRecv > hb20 s.hb
  · by_cases h2 : (s.state == .testRequestSent) = true
    · simp [h1, h2, Sess.send, Sess.stop]
    · by_cases h3 : (s.state != .sessionTerminated) = true
      · simp [h1, h2, h3, Sess.send]
      · simp [h1, h2, h3]
  · simp [h1]

theorem tickSilence_hb (s : Sess) (now : Nat) :
    (tickSilence s now).1.hb = s.hb ∧ (tickSilence s now).1.lastRecv = s.lastRecv ∧ (tickSilence s now).1.cfg = s.cfg := by
  unfold tickSilence; (repeat' split) <;> simp [Sess.send, Sess.stop]

/-- a shut-down session does nothing any more -/
theorem step_shutdown (s : Sess) (e : Ev) (h : s.isShutdown = true) : step s e = (s, []) := by
  cases e <;> simp [step, tick, recv, appSend, h]

theorem final_shutdown (s : Sess) (evs : List Ev) (h : s.isShutdown = true) : final s evs = s := by
  induction evs with
  | nil => rfl
  | cons e es ih => simp [final, step_shutdown s e h, ih]

theorem outputs_shutdown (s : Sess) (evs : List Ev) (h : s.isShutdown = true) : ∀ o ∈ outputs s evs, o = [] := by
  induction evs with
  | nil => simp [outputs]
  | cons e es ih => simp [outputs, step_shutdown s e h]; exact ih

/-- a session that is live at the end was live all along -/
theorem live_of_final_live (s : Sess) (evs : List Ev) (h : (final s evs).isShutdown = false) : s.isShutdown = false := by
  cases hs : s.isShutdown
  · rfl
  · rw [final_shutdown s evs hs] at h; rw [hs] at h; exact absurd h (by decide)

theorem final_append (s : Sess) (a b : List Ev) : final s (a ++ b) = final (final s a) b := by
  induction a generalizing s with
  | nil => rfl
  | cons e es ih => simp [final, ih]

theorem outputs_append (s : Sess) (a b : List Ev) : outputs s (a ++ b) = outputs s a ++ outputs (final s a) b := by
  induction a generalizing s with
  | nil => rfl
  | cons e es ih => simp [final, outputs, ih]

theorem step_hb (s : Sess) (e : Ev) : (step s e).1.hb = s.hb := by
  cases e with
  | tick now =>
    simp only [step, tick]
    split
    · rfl
    · simp [(tickSilence_hb _ _).1, (tickHeartbeat_frame _ _).2.2.1]
  | recv now k =>
    simp only [step, recv]
    split
    · rfl
    · cases k <;> simp [Sess.received, Sess.send, Sess.stop] <;> split <;> simp
  | appSend now =>
    simp only [step, appSend]
    split <;> simp [Sess.send]

theorem final_hb (s : Sess) (evs : List Ev) : (final s evs).hb = s.hb := by
  induction evs generalizing s with
  | nil => rfl
  | cons e es ih => simp [final, ih, step_hb]

/-- `_last_sent` after a step: unchanged if nothing was written, else the step's time -/
theorem step_lastSent (s : Sess) (e : Ev) :
    (step s e).1.lastSent = if (step s e).2.isEmpty then s.lastSent else e.time := by
  cases e with
  | tick now =>
    simp only [step, tick, Ev.time]
    split
    · simp
    · rw [tickSilence_lastSent, tickHeartbeat_lastSent]
      cases h1 : (tickHeartbeat s now).2 <;> cases h2 : (tickSilence (tickHeartbeat s now).1 now).2 <;> simp [h1, h2]
  | recv now k =>
    simp only [step, recv, Ev.time]
    split
    · simp
    · cases k <;> simp [Sess.received, Sess.send, Sess.stop] <;> split <;> simp
  | appSend now =>
    simp only [step, appSend, Ev.time]
    split <;> simp [Sess.send]

/-- `_last_sent` is the time of the last event of the timeline that wrote something -/
theorem final_lastSent (s : Sess) (d : Nat) (evs : List Ev) (hd : s.lastSent = d) :
    (final s evs).lastSent = lastEmit s d evs := by
  induction evs generalizing s d with
  | nil => simpa [final, lastEmit] using hd
  | cons e es ih =>
    simp only [final, lastEmit]
    apply ih
    rw [step_lastSent, hd]

/-- `_last_received` after a step of a live session -/
theorem step_lastRecv (s : Sess) (e : Ev) (h : s.isShutdown = false) :
    (step s e).1.lastRecv = match e with | .recv t _ => t | _ => s.lastRecv := by
  cases e with
  | tick now =>
    simp only [step, tick, h]
    simp [(tickSilence_hb _ _).2.1, (tickHeartbeat_frame _ _).2.1]
  | recv now k =>
    simp only [step, recv, h]
    cases k <;> simp [Sess.received, Sess.send, Sess.stop] <;> split <;> simp
  | appSend now =>
    simp only [step, appSend, h]
    simp [Sess.send]

/-- `_last_received` of a session that is still live is the time of the last inbound frame -/
theorem final_lastRecv (s : Sess) (evs : List Ev) (h : (final s evs).isShutdown = false) :
    (final s evs).lastRecv = lastIn s.lastRecv evs := by
  induction evs generalizing s with
  | nil => rfl
  | cons e es ih =>
    have hs : s.isShutdown = false := live_of_final_live s (e :: es) h
    simp only [final] at h ⊢
    rw [ih _ h, step_lastRecv s e hs]
    cases e <;> simp [lastIn]

theorem secs_ge_iff (now last h : Nat) : secsBetween now last ≥ h ↔ h * nsPerSec ≤ now - last := by
  unfold secsBetween
  exact Nat.le_div_iff_mul_le (by decide)

theorem secs_gt_iff (now last h : Nat) : secsBetween now last > h ↔ (h + 1) * nsPerSec ≤ now - last := by
  unfold secsBetween
  exact Nat.le_div_iff_mul_le (by decide)

theorem secs_mono (t1 t2 last : Nat) (h : t1 ≤ t2) : secsBetween t1 last ≤ secsBetween t2 last := by
  unfold secsBetween
  exact Nat.div_le_div_right (by omega)

end Fix8Model.SessLH
