import Fix8Model.Session.Step
/-!
The acceptor role for the session step function (C21).  `Step.lean` models the initiator only; this file ADDS – without
touching `Step.lean` – what differs for a session behind a `ServerConnection` (runtime/session.cpp):
* the constructor `Session(ctx, sender_comp_id, …)` (131-141): the acceptor knows only its own SenderCompID `_sci`; its SessionID
  `_sid` is EMPTY until a Logon has been accepted (frames written before that carry empty CompIDs – CompID code 0 here);
* `Session::start` (167-227): state `wait_for_logon`, nothing is sent, the numbers are NOT recovered yet;
* `handle_logon`, acceptor branch (502-620): TargetCompID against the own SenderCompID, `recover_seqnums()` only now,
  `_sid = id`, `enforce`, the Logon reply, `continuous`;
everything else (`process`, the other handlers, `send_process`, the exception epilogue) is the code of `Step.lean`:
`processWith` is `process` with the dispatcher as a parameter and `processWith_dispatch` shows that nothing was forked.
Setting, as for the initiator: no SessionConfig (`_sf == nullptr`; the persister is handed to the constructor), no client
list, `authenticate` = true (the default), no login schedule, no ResetSeqNumFlag on the inbound Logon, nothing requested
through `start(…, send_seqnum, recv_seqnum)`.
-/
namespace Fix8Model.Session

/-- `Session::process(from)` with the dispatcher as a parameter -/
def processWith (d : Sess → Nat → Msg → R) (s : Sess) (scan : Option Nat) (dec : Dec) : Sess × List Out :=
  match scan with
  | none => softReject s 0 []
  | some sq =>
    match dec with
    | .null => (s, [])
    | .throws true => logoff s []
    | .throws false => softReject s sq []
    | .ok m =>
      let pre : List Out := if m.admin then [Out.admin sq] else []
      let r := d s sq m
      match r.exc with
      | some true => logoff r.s (pre ++ r.outs)
      | some false => softReject r.s sq (pre ++ r.outs)
      | none =>
        let s2 := updatePersist { r.s with nr := r.s.nr + 1 }
        (if m.mtype = .logout then { s2 with shutdown := true } else s2, pre ++ r.outs)

/-- nothing forked: with the initiator's dispatcher this IS `process` -/
theorem processWith_dispatch : processWith dispatch = process := by
  funext s scan dec; rfl

/-- `recover_seqnums()` -/
def recoverSeq (s : Sess) : Sess :=
  match s.store.bind (·.ctrl) with
  | some (a, b) => { s with ns := a, nr := b }
  | none => s

/-- `handle_logon`, acceptor branch; `sci` = `_sci`, the SenderCompID the acceptor was constructed with -/
def handleLogonAcc (sci : Nat) (s : Sess) (sq : Nat) (m : Msg) : R :=
  if s.state = .continuous then sendR s { m := mkReject s sq }                      -- "Already logged on"
  else
    let s := { s with state := .logonReceived }                                      -- do_state_change(st_logon_received)
    if m.tgt ≠ sci ∧ s.cfg.enforce = true then                                      -- if (_sci() != tci()) … if (_enforce_compids)
      R.ok { s with shutdown := true, state := .terminated }                         --   stop(); st_session_terminated; return false
    else
      let s1 := recoverSeq s                                                         -- recover_seqnums()
      let s2 := { s1 with cfg := { s1.cfg with sender := m.tgt, target := m.snd } }  -- _sid = id  (id = (begin, tci, sci))
      (enforce s2 sq m).1.andThen fun s =>                                           -- enforce(seqnum, msg)
        (sendR s { m := mkLogon s }).andThen fun s =>                                -- send(generate_logon(hbi(), davi()))
          R.ok { s with state := .continuous }                                       -- do_state_change(st_continuous)

/-- the dispatch of `process` for an acceptor -/
def dispatchAcc (sci : Nat) (s : Sess) (sq : Nat) (m : Msg) : R :=
  match m.mtype with
  | .logon => handleLogonAcc sci s sq m
  | _ => dispatch s sq m

/-- a new Session object over the current store (`_sid` empty) + `start(conn, false)` behind a ServerConnection -/
def startAcc (s : Sess) : Sess × List Out :=
  ({ cfg := { s.cfg with sender := 0, target := 0 }, code := s.code, started := true, state := .waitForLogon, ns := 1, nr := 1, buf := [],
     store := s.store, shutdown := false, now := s.now }, [])

/-- the step function of an acceptor session -/
def Sess.stepAcc (sci : Nat) (s : Sess) (ev : Ev) : Sess × List Out :=
  match ev with
  | .start _ _ => startAcc s
  | .inbound scan dec => if s.started = true ∧ s.shutdown = false then processWith (dispatchAcc sci) s scan dec else (s, [])
  | _ => s.step ev

/-- for everything but a Logon the acceptor is the session of `Step.lean` -/
theorem stepAcc_inbound_eq (sci : Nat) (s : Sess) (sq : Nat) (m : Msg) (h : m.mtype ≠ .logon) :
    s.stepAcc sci (.inbound (some sq) (.ok m)) = s.step (.inbound (some sq) (.ok m)) := by
  have hd : dispatchAcc sci s sq m = dispatch s sq m := by
    unfold dispatchAcc; split
    · rename_i hm; exact absurd hm h
    · rfl
  show (if s.started = true ∧ s.shutdown = false then processWith (dispatchAcc sci) s (some sq) (.ok m) else (s, [])) =
    (if s.started = true ∧ s.shutdown = false then process s (some sq) (.ok m) else (s, []))
  have : processWith (dispatchAcc sci) s (some sq) (.ok m) = process s (some sq) (.ok m) := by
    rw [← processWith_dispatch]; simp only [processWith, hd]
  rw [this]

end Fix8Model.Session
