import Fix8Model.Session.SendLemmas
/-! numbering of the handlers and of `process` (C16) -/
namespace Fix8Model.Session
open Fix8Model.Store

theorem NS.same {s s' : Sess} (h1 : s'.ns = s.ns) (h2 : s'.buf = []) (hk : Kept s s' := by exact ⟨rfl, rfl⟩) : NS s s' [] := by
  simp [NS, newSeqs, h1, h2, hk]

theorem newSeqs_deliver (o : List Out) (sq : Nat) (m : Msg) : newSeqs (o ++ [Out.deliver sq m]) = newSeqs o := by
  rw [newSeqs_append]; simp [newSeqs]

theorem handleApplication_NSR (s : Sess) (sq : Nat) (m : Msg) (hb : s.buf = []) : NSR s (handleApplication s sq m) := by
  have he := enforce_NSR s sq m hb
  unfold handleApplication
  simp only []
  split
  · exact he
  · split
    · exact he
    · exact ⟨by rw [newSeqs_deliver]; exact he.1, he.2.1, he.2.2.1, he.2.2.2⟩

theorem handleHeartbeat_NSR (s : Sess) (sq : Nat) (m : Msg) (hb : s.buf = []) : NSR s (handleHeartbeat s sq m) := by
  unfold handleHeartbeat
  apply NSR.andThen (enforce_NSR s sq m hb)
  intro s1 h1 _
  split
  · exact NS.same rfl h1
  · exact NS.refl s1 h1

theorem handleTestRequest_NSR (s : Sess) (sq : Nat) (m : Msg) (hb : s.buf = []) : NSR s (handleTestRequest s sq m) := by
  unfold handleTestRequest
  apply NSR.andThen (enforce_NSR s sq m hb)
  intro s1 h1 _
  exact sendR_plain_NSR s1 _ h1 (plain_heartbeat s1 _)

theorem handleSequenceReset_NSR (s : Sess) (sq : Nat) (m : Msg) (hb : s.buf = []) : NSR s (handleSequenceReset s sq m) := by
  unfold handleSequenceReset
  apply NSR.andThen (enforce_NSR s sq m hb)
  intro s1 h1 _
  simp only []
  apply NSR.andThen
  · split
    · split
      · exact NS.same rfl h1
      · exact NSR.throw s1 h1 _
    · exact NSR.ok s1 h1
  · intro s2 h2 _
    split
    · exact NS.same rfl h2
    · exact NS.refl s2 h2

theorem handleLogon_NSR (s : Sess) (sq : Nat) (m : Msg) (hb : s.buf = []) : NSR s (handleLogon s sq m) := by
  unfold handleLogon
  split
  · exact sendR_plain_NSR s _ hb (plain_reject s _)
  · simp only []
    split
    · exact NS.same rfl hb
    · have : NSR { s with state := .logonReceived } (enforce { s with state := .logonReceived } sq m).1 := enforce_NSR _ sq m hb
      have h2 : NSR s ((enforce { s with state := .logonReceived } sq m).1.andThen fun s => R.ok { s with state := .continuous }) := by
        apply NSR.andThen (s := s) this
        intro s1 h1 _
        exact NS.same rfl h1
      exact h2

/-! ### the resend path: quiet until the closing gap fill -/

/-- no new message, counter and buffer as before -/
def Quiet (s : Sess) (r : R) : Prop := newSeqs r.outs = [] ∧ r.s.ns = s.ns ∧ r.s.buf = [] ∧ Kept s r.s

theorem Quiet.NSR {s : Sess} {r : R} (h : Quiet s r) : NSR s r := by
  obtain ⟨h1, h2, h3, h4⟩ := h
  refine ⟨?_, by omega, h3, h4⟩
  rw [h1, h2]; simp

theorem Quiet.ok (s : Sess) (hb : s.buf = []) : Quiet s (R.ok s) := ⟨rfl, rfl, hb, Kept.refl s⟩

theorem Quiet.andThen {s : Sess} {r : R} {f : Sess → R} (hr : Quiet s r) (hf : ∀ s1, s1.buf = [] → Quiet s1 (f s1)) :
    Quiet s (r.andThen f) := by
  unfold R.andThen
  split
  · exact hr
  · obtain ⟨a1, a2, a3, a4⟩ := hr
    obtain ⟨b1, b2, b3, b4⟩ := hf r.s a3
    exact ⟨by rw [newSeqs_append, a1, b1]; rfl, by simp only []; omega, b3, a4.trans b4⟩

theorem sendR_quiet (s : Sess) (q : Snd) (hb : s.buf = []) (hq : q.quiet) : Quiet s (sendR s q) :=
  ⟨(sendProcess_quiet s q hb hq).1, (sendProcess_quiet s q hb hq).2.1, (sendProcess_quiet s q hb hq).2.2, sendProcess_kept s q⟩

theorem replayOne_quiet (s : Sess) (b last key : Nat) (rc : Rec) (hb : s.buf = []) : Quiet s (replayOne s b last key rc) := by
  unfold replayOne
  apply Quiet.andThen
  · split
    · split
      · exact sendR_quiet s _ hb (quiet_seqreset s _ _)
      · exact Quiet.ok s hb
    · split
      · exact sendR_quiet s _ hb (quiet_seqreset s _ _)
      · exact Quiet.ok s hb
  · intro s1 h1
    cases rc with
    | empty => exact ⟨rfl, rfl, h1, Kept.refl s1⟩
    | frame f => exact sendR_quiet s1 _ h1 (quiet_replay f)

theorem replayLoop_quiet (b : Nat) (recs : List (Nat × Rec)) :
    ∀ (s : Sess) (last : Nat), s.buf = [] → Quiet s (replayLoop b s last recs).1 := by
  induction recs with
  | nil => intro s last hb; exact Quiet.ok s hb
  | cons x xs ih =>
    intro s last hb
    obtain ⟨k, rc⟩ := x
    have h1 := replayOne_quiet s b last k rc hb
    simp only [replayLoop]
    split
    · exact h1
    · obtain ⟨a1, a2, a3, a4⟩ := h1
      obtain ⟨b1, b2, b3, b4⟩ := ih (replayOne s b last k rc).s k a3
      exact ⟨by simp only []; rw [newSeqs_append, a1, b1]; rfl, by simp only []; omega, b3, a4.trans b4⟩

theorem replayLoop_exc (b : Nat) (recs : List (Nat × Rec)) :
    ∀ (s : Sess) (last : Nat), (replayLoop b s last recs).1.exc ≠ some true := by
  induction recs with
  | nil => intro s last; simp [replayLoop, R.ok]
  | cons x xs ih =>
    intro s last
    obtain ⟨k, rc⟩ := x
    simp only [replayLoop]
    have h1 : (replayOne s b last k rc).exc ≠ some true := by
      unfold replayOne R.andThen
      simp only []
      split
      · rename_i x hx
        revert hx
        split
        · split <;> simp [sendR, R.ok]
        · split <;> simp [sendR, R.ok]
      · cases rc <;> simp [R.throw, sendR]
    split
    · exact h1
    · exact ih _ _

/-- relation with a possible jump of the counter at the end (the closing gap fill of a resend answer announces it) -/
def NSJ (s s' : Sess) (outs : List Out) : Prop :=
  ∃ k, newSeqs outs = List.range' s.ns k ∧ s.ns + k ≤ s'.ns ∧ s'.buf = [] ∧ Kept s s'

theorem NS.toNSJ {s s' : Sess} {o : List Out} (h : NS s s' o) : NSJ s s' o := ⟨s'.ns - s.ns, h.1, by have := h.2.1; omega, h.2.2.1, h.2.2.2⟩

theorem NS.transJ {s s1 s2 : Sess} {o1 o2 : List Out} (h1 : NS s s1 o1) (h2 : NSJ s1 s2 o2) : NSJ s s2 (o1 ++ o2) := by
  obtain ⟨a1, b1, _, k1⟩ := h1
  obtain ⟨k, a2, b2, c2, k2⟩ := h2
  obtain ⟨d1, hd1⟩ := Nat.exists_eq_add_of_le b1
  refine ⟨d1 + k, ?_, by omega, c2, k1.trans k2⟩
  rw [newSeqs_append, a1, a2, hd1]
  have e1 : s.ns + d1 - s.ns = d1 := by omega
  rw [e1, List.range'_append_1]

theorem replayFinal_NSJ (s : Sess) (b i last : Nat) (hb : s.buf = []) (hi : i = s.ns) :
    NSJ s (replayFinal s b i last).s (replayFinal s b i last).outs ∧ (replayFinal s b i last).exc = none := by
  unfold replayFinal
  split
  · have hq := sendProcess_quiet s { m := mkSeqReset s (if b ≥ i then b + 1 else i), custom := b } hb (quiet_seqreset s _ _)
    have hk := sendProcess_kept s { m := mkSeqReset s (if b ≥ i then b + 1 else i), custom := b }
    simp only [R.andThen, sendR, R.ok]
    refine ⟨⟨0, by simpa using hq.1, ?_, hq.2.2, ⟨hk.1, hk.2⟩⟩, trivial⟩
    simp only []; split <;> omega
  · have hq := sendProcess_quiet s { m := mkSeqReset s (if last + 1 ≥ i then last + 2 else i), custom := last + 1 } hb (quiet_seqreset s _ _)
    have hk := sendProcess_kept s { m := mkSeqReset s (if last + 1 ≥ i then last + 2 else i), custom := last + 1 }
    simp only [R.andThen, sendR, R.ok]
    refine ⟨⟨0, by simpa using hq.1, ?_, hq.2.2, ⟨hk.1, hk.2⟩⟩, trivial⟩
    simp only []; split <;> omega

/-- `retransmit`: exact numbering if it ended in an exception (no closing gap fill), otherwise possibly a jump -/
theorem retransmit_NSJ (s : Sess) (st : SpecG Rec) (b e : Nat) (hb : s.buf = []) :
    NSJ s (retransmit s st b e).s (retransmit s st b e).outs ∧
    ((retransmit s st b e).exc ≠ none → NSR s (retransmit s st b e)) ∧
    (retransmit s st b e).exc ≠ some true := by
  unfold retransmit
  simp only []
  have hq := replayLoop_quiet b ((st.range b e).filterMap fun k => (st.get k).map fun rc => (k, rc)) s 0 hb
  have hx := replayLoop_exc b ((st.range b e).filterMap fun k => (st.get k).map fun rc => (k, rc)) s 0
  split
  · rename_i x hxx
    refine ⟨hq.NSR.toNSJ, fun _ => hq.NSR, hx⟩
  · rename_i hxx
    have hf := replayFinal_NSJ (replayLoop b s 0 ((st.range b e).filterMap fun k => (st.get k).map fun rc => (k, rc))).1.s b s.ns
      (replayLoop b s 0 ((st.range b e).filterMap fun k => (st.get k).map fun rc => (k, rc))).2 hq.2.2.1 hq.2.1.symm
    refine ⟨hq.NSR.transJ hf.1, fun h => absurd hf.2 h, by rw [hf.2]; simp⟩

theorem handleResendRequest_NSJ (s : Sess) (sq : Nat) (m : Msg) (hb : s.buf = []) :
    NSJ s (handleResendRequest s sq m).s (handleResendRequest s sq m).outs ∧
    ((handleResendRequest s sq m).exc ≠ none → NSR s (handleResendRequest s sq m)) := by
  have he := enforce_NSR s sq m hb
  unfold handleResendRequest R.andThen
  split
  · exact ⟨he.toNSJ, fun _ => he⟩
  · simp only []
    have hb1 := he.2.2.1
    split
    · split
      · have := sendR_plain_NSR (enforce s sq m).1.s { m := mkReject (enforce s sq m).1.s sq } hb1 (plain_reject _ _)
        exact ⟨(NS.trans he this).toNSJ, fun _ => NS.trans he this⟩
      · split
        · -- no persister: one gap fill, then the counter jumps
          rename_i hst
          have hq := sendProcess_quiet (enforce s sq m).1.s
            { m := mkSeqReset (enforce s sq m).1.s (if m.beginNo.getD 0 ≥ (enforce s sq m).1.s.ns then m.beginNo.getD 0 + 1 else (enforce s sq m).1.s.ns),
              custom := m.beginNo.getD 0 } hb1 (quiet_seqreset _ _ _)
          have hk := sendProcess_kept (enforce s sq m).1.s
            { m := mkSeqReset (enforce s sq m).1.s (if m.beginNo.getD 0 ≥ (enforce s sq m).1.s.ns then m.beginNo.getD 0 + 1 else (enforce s sq m).1.s.ns),
              custom := m.beginNo.getD 0 }
          simp only [sendR, R.ok]
          refine ⟨he.transJ ⟨0, by simpa using hq.1, ?_, hq.2.2, ⟨hk.1, hk.2⟩⟩, fun h => absurd rfl h⟩
          simp only []; split <;> omega
        · rename_i st hst
          have hr := retransmit_NSJ { (enforce s sq m).1.s with state := .resendRequestReceived } st (m.beginNo.getD 0) (m.endNo.getD 0) hb1
          have he' : NS s { (enforce s sq m).1.s with state := .resendRequestReceived } (enforce s sq m).1.outs := he
          exact ⟨he'.transJ hr.1, fun h => NS.trans he' (hr.2.1 h)⟩
    · exact ⟨(NS.trans he (NS.refl _ hb1)).toNSJ, fun h => absurd rfl h⟩

end Fix8Model.Session
