import Fix8Model.Session.Duo
import Fix8Model.Session.PeerLemmas
/-! Lemmas for C21: the acceptor's Logon step, frames in flight, sends and starts with their wire frames -/
namespace Fix8Model.Session

/-! ### a live session with CompIDs (me -> you) -/

/-- the counterparty record that `Good` wants, for a session `me -> you` -/
def pp (s : Sess) (me you : Nat) : Peer := { me := you, you := me, now := s.now }

/-- a running session `me -> you` with an empty batch buffer and an up-to-date control record -/
def Live (s : Sess) (me you : Nat) : Prop := Good s (pp s me you)

theorem Live.accepts {s : Sess} {me you : Nat} (h : Live s me you) : Duo.accepts s = true := by
  simp [Duo.accepts, h.started, h.alive]

theorem live_update {s : Sess} {me you : Nat} (h : Live s me you) (n : Nat) (x : St) (hn : 1 ≤ n) :
    Live (updatePersist { s with nr := n, state := x }) me you := good_update h n x hn

theorem live_update_nr {s : Sess} {me you : Nat} (h : Live s me you) (n : Nat) (hn : 1 ≤ n) :
    Live (updatePersist { s with nr := n }) me you := good_update_nr h n hn

theorem live_clock {s : Sess} {me you : Nat} (h : Live s me you) (t : Nat) : Live (s.step (.clock t)).1 me you :=
  ⟨h.started, h.alive, h.buf, h.snd, h.tgt, rfl, h.nr1, h.ctrl⟩

/-! ### frames -/

structure IsLogon (m : Msg) (snd tgt seq : Nat) : Prop where
  mtype : m.mtype = .logon
  admin : m.admin = true
  snd : m.snd = snd
  tgt : m.tgt = tgt
  seq : m.seq = seq

/-- a new application message (NewOrderSingle) from `snd` to `tgt` with number `k` -/
structure IsOrder (m : Msg) (snd tgt k : Nat) : Prop where
  mtype : m.mtype = .app 68
  admin : m.admin = false
  snd : m.snd = snd
  tgt : m.tgt = tgt
  seq : m.seq = k
  fresh : m.possDup = none

/-- frames in flight: new application messages numbered k, k+1, …, e-1 -/
def Flight (snd tgt : Nat) : Nat → List Msg → Nat → Prop
  | k, [], e => k = e
  | k, m :: r, e => IsOrder m snd tgt k ∧ Flight snd tgt (k + 1) r e

def pidsOf (l : List Msg) : List Nat := l.map fun m => m.pid.getD 0

theorem Flight.snoc {snd tgt : Nat} : ∀ {l : List Msg} {k e : Nat} {m : Msg}, Flight snd tgt k l e → IsOrder m snd tgt e →
    Flight snd tgt k (l ++ [m]) (e + 1) := by
  intro l
  induction l with
  | nil => intro k e m h hm; simp only [Flight] at h; subst h; exact ⟨hm, rfl⟩
  | cons x xs ih => intro k e m h hm; exact ⟨h.1, ih h.2 hm⟩

theorem pidsOf_append (a b : List Msg) : pidsOf (a ++ b) = pidsOf a ++ pidsOf b := by simp [pidsOf]

/-! ### sends and starts, with the frame they write -/

theorem wiresOf_single (m : Msg) : wiresOf [Out.wire m] = [m] := rfl

/-- an application send on a live session: one new order with the next number -/
theorem appSend_wire {s : Sess} {me you : Nat} (g : Live s me you) (pid : Nat) :
    ∃ m, wiresOf (s.step (.appSend pid 0 false)).2 = [m] ∧ IsOrder m me you s.ns ∧ m.pid = some pid ∧
      Live (s.step (.appSend pid 0 false)).1 me you ∧ (s.step (.appSend pid 0 false)).1.state = s.state ∧
      (s.step (.appSend pid 0 false)).1.nr = s.nr ∧ (s.step (.appSend pid 0 false)).1.ns = s.ns + 1 := by
  obtain ⟨st, hs, hc⟩ := g.ctrl
  have hx : s.step (.appSend pid 0 false) = sendProcess s { m := mkOrder s pid, custom := 0, noInc := false } := by
    simp [Sess.step, g.started, g.alive]
  rw [hx, sendProcess_eq s _ g.buf rfl]
  refine ⟨builtFrame s { m := mkOrder s pid, custom := 0, noInc := false }, rfl, ?_, ?_, ?_, rfl, rfl, ?_⟩
  · refine ⟨?_, ?_, ?_, ?_, ?_, ?_⟩ <;> simp [builtFrame, mkOrder, Sess.fresh]
    · exact g.snd
    · exact g.tgt
  · simp [builtFrame, mkOrder, Sess.fresh]
  · refine ⟨g.started, g.alive, rfl, g.snd, g.tgt, rfl, g.nr1, ?_⟩
    simp [hs, mkOrder, Sess.fresh, builtFrame, SpecG.cput]
  · simp [builtFrame, mkOrder, Sess.fresh]

/-- what `recover_seqnums` finds -/
def recNs (s : Sess) : Nat := match s.store.bind (·.ctrl) with | some (a, _) => a | none => 1
def recNr (s : Sess) : Nat := match s.store.bind (·.ctrl) with | some (_, b) => b | none => 1

/-- a new initiator Session object over the store: Logon with the recovered send number -/
theorem startA_spec (s : Sess) (st : SpecG Rec) (hs : s.store = some st) :
    ∃ m, wiresOf (s.step (.start 0 0)).2 = [m] ∧ IsLogon m s.cfg.sender s.cfg.target (recNs s) ∧
      (s.step (.start 0 0)).1.started = true ∧ (s.step (.start 0 0)).1.shutdown = false ∧ (s.step (.start 0 0)).1.buf = [] ∧
      (s.step (.start 0 0)).1.cfg = s.cfg ∧ (s.step (.start 0 0)).1.state = .logonSent ∧
      (s.step (.start 0 0)).1.nr = recNr s ∧ (s.step (.start 0 0)).1.ns = recNs s + 1 ∧
      (∃ st', (s.step (.start 0 0)).1.store = some st' ∧ st'.ctrl = some ((s.step (.start 0 0)).1.ns, (s.step (.start 0 0)).1.nr)) ∧
      dlvPids (s.step (.start 0 0)).2 = [] ∧ dupCount (s.step (.start 0 0)).2 = 0 := by
  refine ⟨({ mtype := .logon, seq := recNs s, st := s.now, snd := s.cfg.sender, tgt := s.cfg.target } : Msg), ?_⟩
  cases hc : st.ctrl with
  | none =>
    simp [Sess.step, startSession, hs, hc, sendProcess, mkLogon, Sess.fresh, SpecG.cput, recNs, recNr, dlvPids, dupCount, wiresOf]
    exact ⟨rfl, rfl, rfl, rfl, rfl⟩
  | some ab =>
    obtain ⟨a, b⟩ := ab
    simp [Sess.step, startSession, hs, hc, sendProcess, mkLogon, Sess.fresh, SpecG.cput, recNs, recNr, dlvPids, dupCount, wiresOf]
    exact ⟨rfl, rfl, rfl, rfl, rfl⟩

/-! ### the acceptor's Logon -/

/-- the acceptor after `recover_seqnums` found (a, b) and `_sid` was set from the Logon -/
def accReady (s : Sess) (m : Msg) (a b : Nat) : Sess :=
  { s with state := .logonReceived, ns := a, nr := b, cfg := { s.cfg with sender := m.tgt, target := m.snd } }

/-- the state of the acceptor after an in-sequence Logon -/
def afterLogonAcc (s : Sess) (m : Msg) (a b : Nat) : Sess :=
  updatePersist { (sendProcess (accReady s m a b) { m := mkLogon (accReady s m a b) }).1 with state := .continuous, nr := b + 1 }

theorem stepAcc_logon (sci : Nat) (s : Sess) (m : Msg) (a b : Nat) (h1 : s.started = true) (h2 : s.shutdown = false)
    (hst : s.state = .waitForLogon) (hm : m.mtype = .logon) (hadm : m.admin = true) (ht : m.tgt = sci)
    (hrec : recoverSeq { s with state := .logonReceived } = { s with state := .logonReceived, ns := a, nr := b })
    (hseq : m.seq = b) :
    s.stepAcc sci (.inbound (some m.seq) (.ok m)) =
      (afterLogonAcc s m a b, Out.admin m.seq :: (sendProcess (accReady s m a b) { m := mkLogon (accReady s m a b) }).2) := by
  have hlive : s.started = true ∧ s.shutdown = false := ⟨h1, h2⟩
  simp only [Sess.stepAcc, if_pos hlive, processWith, dispatchAcc, hm, handleLogonAcc, hst]
  simp only [hrec]
  simp [ht, hm, enforce, St.established, sequenceCheck, hseq, hadm, R.ok, R.andThen, sendR, afterLogonAcc, accReady]

/-- `recover_seqnums` on a fresh acceptor object (numbers 1/1) yields exactly `recNs`/`recNr` -/
theorem recoverSeq_fresh (s : Sess) (x : St) (h1 : s.ns = 1) (h2 : s.nr = 1) :
    recoverSeq { s with state := x } = { s with state := x, ns := recNs s, nr := recNr s } := by
  unfold recoverSeq recNs recNr
  cases hc : s.store.bind (·.ctrl) with
  | none => simp [hc, h1, h2]
  | some ab => obtain ⟨a, b⟩ := ab; simp [hc]

/-- everything the invariant needs to know about the acceptor after the Logon -/
theorem afterLogonAcc_spec (s : Sess) (m : Msg) (a b : Nat) (st : SpecG Rec) (hs : s.store = some st) (h1 : s.started = true)
    (h2 : s.shutdown = false) (hb : s.buf = []) :
    ∃ f, wiresOf (Out.admin m.seq :: (sendProcess (accReady s m a b) { m := mkLogon (accReady s m a b) }).2) = [f] ∧
      IsLogon f m.tgt m.snd a ∧ Live (afterLogonAcc s m a b) m.tgt m.snd ∧ (afterLogonAcc s m a b).state = .continuous ∧
      (afterLogonAcc s m a b).nr = b + 1 ∧ (afterLogonAcc s m a b).ns = a + 1 ∧
      dlvPids (Out.admin m.seq :: (sendProcess (accReady s m a b) { m := mkLogon (accReady s m a b) }).2) = [] ∧
      dupCount (Out.admin m.seq :: (sendProcess (accReady s m a b) { m := mkLogon (accReady s m a b) }).2) = 0 := by
  have he := sendProcess_eq (accReady s m a b) { m := mkLogon (accReady s m a b) } hb rfl
  refine ⟨builtFrame (accReady s m a b) { m := mkLogon (accReady s m a b) }, ?_, ?_, ?_, ?_, ?_, ?_, ?_, ?_⟩
  · rw [he]; rfl
  · refine ⟨?_, ?_, ?_, ?_, ?_⟩ <;> simp [builtFrame, mkLogon, Sess.fresh, accReady]
  · simp only [afterLogonAcc, he]
    refine ⟨h1, h2, rfl, rfl, rfl, rfl, by show 1 ≤ b + 1; omega, ?_⟩
    simp [updatePersist, accReady, hs, mkLogon, Sess.fresh, builtFrame, SpecG.cput]
  · simp only [afterLogonAcc, he]; rfl
  · simp only [afterLogonAcc, he]; rfl
  · simp only [afterLogonAcc, he]; simp [updatePersist, accReady, mkLogon, Sess.fresh, builtFrame]
  · rw [he]; rfl
  · rw [he]; rfl

theorem live_rec {s : Sess} {me you : Nat} (h : Live s me you) : recNs s = s.ns ∧ recNr s = s.nr := by
  obtain ⟨st, hs, hc⟩ := h.ctrl
  simp [recNs, recNr, hs, hc]

/-- an in-sequence new application message at a live, continuous session: delivered, counted, persisted -/
theorem app_at {s : Sess} {me you : Nat} (h : Live s me you) (hst : s.state = .continuous) (m : Msg) (ho : IsOrder m you me s.nr) :
    s.step (.inbound (some m.seq) (.ok m)) = (updatePersist { s with nr := s.nr + 1 }, [Out.deliver m.seq m]) :=
  step_app_inseq s m 68 h.started h.alive hst ho.mtype ho.admin (not_bad h m ho.snd ho.tgt) ho.seq

theorem clock_eq (s : Sess) (t : Nat) : (s.step (.clock t)).1 = { s with now := t } := rfl

end Fix8Model.Session
