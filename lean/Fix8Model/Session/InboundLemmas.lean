import Fix8Model.Session.Lemmas
/-! lemmas for C19: which outputs the inbound path can produce -/
namespace Fix8Model.Session
open Fix8Model.Store

theorem sendR_onlyWire (s : Sess) (q : Snd) : OnlyWire (sendR s q).outs := sendProcess_onlyWire s q

theorem andThen_onlyWire {r : R} {f : Sess → R} (hr : OnlyWire r.outs) (hf : ∀ s, OnlyWire (f s).outs) :
    OnlyWire (r.andThen f).outs := by
  unfold R.andThen
  split
  · exact hr
  · exact hr.append (hf _)

theorem sequenceCheck_onlyWire (s : Sess) (sq : Nat) (m : Msg) : OnlyWire (sequenceCheck s sq m).1.outs := by
  unfold sequenceCheck
  split
  · split
    · show OnlyWire (sendProcess s { m := mkResend s s.nr 0 }).2; exact sendProcess_onlyWire _ _
    · exact OnlyWire.nil
  · split
    · split
      · exact OnlyWire.nil
      · split
        · split <;> exact OnlyWire.nil
        · exact OnlyWire.nil
    · exact OnlyWire.nil

theorem enforce_onlyWire (s : Sess) (sq : Nat) (m : Msg) : OnlyWire (enforce s sq m).1.outs := by
  unfold enforce
  split
  · split
    · exact OnlyWire.nil
    · split
      · exact sequenceCheck_onlyWire _ _ _
      · exact OnlyWire.nil
  · exact OnlyWire.nil

theorem replayOne_onlyWire (s : Sess) (b last key : Nat) (rc : Rec) : OnlyWire (replayOne s b last key rc).outs := by
  unfold replayOne
  apply andThen_onlyWire
  · split
    · split
      · exact sendR_onlyWire _ _
      · exact OnlyWire.nil
    · split
      · exact sendR_onlyWire _ _
      · exact OnlyWire.nil
  · intro s'
    cases rc with
    | empty => exact OnlyWire.nil
    | frame f => exact sendR_onlyWire _ _

theorem replayLoop_onlyWire (b : Nat) (recs : List (Nat × Rec)) : ∀ (s : Sess) (last : Nat), OnlyWire (replayLoop b s last recs).1.outs := by
  induction recs with
  | nil => intro s last; exact OnlyWire.nil
  | cons x xs ih =>
    intro s last
    obtain ⟨k, rc⟩ := x
    simp only [replayLoop]
    split
    · exact replayOne_onlyWire _ _ _ _ _
    · exact (replayOne_onlyWire _ _ _ _ _).append (ih _ _)

theorem replayFinal_onlyWire (s : Sess) (b i last : Nat) : OnlyWire (replayFinal s b i last).outs := by
  unfold replayFinal
  split <;> exact andThen_onlyWire (sendR_onlyWire _ _) (fun _ => OnlyWire.nil)

theorem retransmit_onlyWire (s : Sess) (st : SpecG Rec) (b e : Nat) : OnlyWire (retransmit s st b e).outs := by
  unfold retransmit
  simp only []
  split
  · exact replayLoop_onlyWire _ _ _ _
  · exact (replayLoop_onlyWire _ _ _ _).append (replayFinal_onlyWire _ _ _ _)

theorem handleResendRequest_onlyWire (s : Sess) (sq : Nat) (m : Msg) : OnlyWire (handleResendRequest s sq m).outs := by
  unfold handleResendRequest
  apply andThen_onlyWire (enforce_onlyWire _ _ _)
  intro s'
  simp only []
  split
  · split
    · exact sendR_onlyWire _ _
    · split
      · exact andThen_onlyWire (sendR_onlyWire _ _) (fun _ => OnlyWire.nil)
      · exact retransmit_onlyWire _ _ _ _
  · exact OnlyWire.nil

theorem handleLogon_onlyWire (s : Sess) (sq : Nat) (m : Msg) : OnlyWire (handleLogon s sq m).outs := by
  unfold handleLogon
  split
  · exact sendR_onlyWire _ _
  · simp only []
    split
    · exact OnlyWire.nil
    · exact andThen_onlyWire (enforce_onlyWire _ _ _) (fun _ => OnlyWire.nil)

/-- every handler but `handle_application` writes frames only -/
theorem dispatch_onlyWire (s : Sess) (sq : Nat) (m : Msg) (h : ∀ c, m.mtype ≠ .app c) : OnlyWire (dispatch s sq m).outs := by
  unfold dispatch
  split
  · rename_i c hc; exact absurd hc (h c)
  · exact andThen_onlyWire (enforce_onlyWire _ _ _) (fun _ => OnlyWire.nil)
  · exact andThen_onlyWire (enforce_onlyWire _ _ _) (fun _ => sendR_onlyWire _ _)
  · exact handleResendRequest_onlyWire _ _ _
  · exact OnlyWire.nil
  · unfold handleSequenceReset
    apply andThen_onlyWire (enforce_onlyWire _ _ _)
    intro s'
    apply andThen_onlyWire
    · split
      · split <;> exact OnlyWire.nil
      · exact OnlyWire.nil
    · intro _; exact OnlyWire.nil
  · exact enforce_onlyWire _ _ _
  · exact handleLogon_onlyWire _ _ _

theorem softReject_outs (s : Sess) (sq : Nat) (pre : List Out) :
    ∃ w, OnlyWire w ∧ (softReject s sq pre).2 = pre ++ w := ⟨_, sendProcess_onlyWire _ _, rfl⟩

theorem logoff_outs (s : Sess) (pre : List Out) : ∃ w, OnlyWire w ∧ (logoff s pre).2 = pre ++ w := by
  unfold logoff
  split
  · exact ⟨_, sendProcess_onlyWire _ _, rfl⟩
  · exact ⟨[], OnlyWire.nil, by simp⟩

end Fix8Model.Session
