import Fix8Model.Session.InboundLemmas
/-! numbering and control-record lemmas of the send path (C16) -/
namespace Fix8Model.Session
open Fix8Model.Store

/-- `send_process` outside a batch (buffer empty, end_of_batch set): one frame out, buffer stays empty -/
theorem sendProcess_eq (s : Sess) (q : Snd) (hb : s.buf = []) (he : q.eob = true) :
    sendProcess s q =
      ({ s with
          buf := [],
          store := (if (if q.hasSeq then true else q.m.possDup.isSome) = true then s.store
                    else s.store.map fun st => ((if (builtFrame s q).admin then st else st.put s.ns (Rec.frame (builtFrame s q))).cput (s.ns + 1) s.nr)),
          ns := (if (if q.hasSeq then true else q.m.possDup.isSome) = false ∧ q.custom = 0 ∧ q.noInc = false ∧ (builtFrame s q).mtype ≠ .sequenceReset
                 then s.ns + 1 else s.ns) },
       [Out.wire (builtFrame s q)]) := by
  unfold sendProcess builtFrame; simp [hb, he]

theorem builtFrame_mtype (s : Sess) (q : Snd) : (builtFrame s q).mtype = q.m.mtype := by
  unfold builtFrame; split <;> rfl
theorem builtFrame_admin (s : Sess) (q : Snd) : (builtFrame s q).admin = q.m.admin := by
  unfold builtFrame; split <;> rfl
theorem builtFrame_fresh_seq (s : Sess) (q : Snd) (h : q.hasSeq = false) (hc : q.custom = 0) : (builtFrame s q).seq = s.ns := by
  unfold builtFrame; simp [h, hc]
theorem builtFrame_fresh_possDup (s : Sess) (q : Snd) (h : q.hasSeq = false) : (builtFrame s q).possDup = q.m.possDup := by
  unfold builtFrame; simp [h]
theorem builtFrame_replay_possDup (s : Sess) (q : Snd) (h : q.hasSeq = true) : (builtFrame s q).possDup ≠ none := by
  unfold builtFrame; simp only [h, if_true]
  cases hp : q.m.possDup <;> simp

/-- a plain new message: fresh, no PossDup, no custom number, increment allowed, not a SequenceReset -/
def Snd.plain (q : Snd) : Prop :=
  q.eob = true ∧ q.hasSeq = false ∧ q.m.possDup = none ∧ q.custom = 0 ∧ q.noInc = false ∧ q.m.mtype ≠ .sequenceReset

/-- a send that produces no new message and does not move the counter: a replay or a SequenceReset -/
def Snd.quiet (q : Snd) : Prop := q.eob = true ∧ (q.hasSeq = true ∨ q.m.mtype = .sequenceReset)

/-- what no block changes: whether a Session object exists, whether there is a persister -/
def Kept (s s' : Sess) : Prop := s'.started = s.started ∧ s'.store.isSome = s.store.isSome
theorem Kept.refl (s : Sess) : Kept s s := ⟨rfl, rfl⟩
theorem Kept.trans {a b c : Sess} (h1 : Kept a b) (h2 : Kept b c) : Kept a c := ⟨h2.1.trans h1.1, h2.2.trans h1.2⟩
theorem sendProcess_kept (s : Sess) (q : Snd) : Kept s (sendProcess s q).1 := by
  unfold sendProcess
  refine ⟨rfl, ?_⟩
  simp only []
  cases hs : s.store <;> (split <;> simp) <;> (split <;> simp)

/-- numbering relation of a block: its new messages carry `s.ns, s.ns+1, …` and the counter ends right behind them -/
def NS (s s' : Sess) (outs : List Out) : Prop :=
  newSeqs outs = List.range' s.ns (s'.ns - s.ns) ∧ s.ns ≤ s'.ns ∧ s'.buf = [] ∧ Kept s s'

theorem NS.refl (s : Sess) (hb : s.buf = []) : NS s s [] := by simp [NS, newSeqs, hb, Kept.refl]

theorem NS.trans {s s1 s2 : Sess} {o1 o2 : List Out} (h1 : NS s s1 o1) (h2 : NS s1 s2 o2) : NS s s2 (o1 ++ o2) := by
  obtain ⟨a1, b1, _, k1⟩ := h1
  obtain ⟨a2, b2, c2, k2⟩ := h2
  refine ⟨?_, by omega, c2, k1.trans k2⟩
  obtain ⟨d1, hd1⟩ := Nat.exists_eq_add_of_le b1
  obtain ⟨d2, hd2⟩ := Nat.exists_eq_add_of_le b2
  rw [newSeqs_append, a1, a2, hd2, hd1]
  have e1 : s.ns + d1 - s.ns = d1 := by omega
  have e2 : s.ns + d1 + d2 - (s.ns + d1) = d2 := by omega
  have e3 : s.ns + d1 + d2 - s.ns = d1 + d2 := by omega
  rw [e1, e2, e3, List.range'_append_1]

theorem sendProcess_plain (s : Sess) (q : Snd) (hb : s.buf = []) (hq : q.plain) :
    (sendProcess s q).2 = [Out.wire (builtFrame s q)] ∧ (builtFrame s q).seq = s.ns ∧ (builtFrame s q).possDup = none ∧
    (sendProcess s q).1.ns = s.ns + 1 ∧ (sendProcess s q).1.buf = [] ∧
    (sendProcess s q).1.store = s.store.map fun st =>
      ((if q.m.admin then st else st.put s.ns (Rec.frame (builtFrame s q))).cput (s.ns + 1) s.nr) := by
  obtain ⟨he, h1, h2, h3, h4, h5⟩ := hq
  rw [sendProcess_eq s q hb he]
  simp [h1, h2, h3, h4, builtFrame_mtype, h5, builtFrame_admin, builtFrame_fresh_seq, builtFrame_fresh_possDup]

theorem sendProcess_plain_NS (s : Sess) (q : Snd) (hb : s.buf = []) (hq : q.plain) :
    NS s (sendProcess s q).1 (sendProcess s q).2 := by
  obtain ⟨h1, h2, h3, h4, h5, _⟩ := sendProcess_plain s q hb hq
  refine ⟨?_, by omega, h5, sendProcess_kept s q⟩
  rw [h1, h4]
  have : s.ns + 1 - s.ns = 1 := by omega
  rw [this]
  simp [newSeqs, h3, h2, builtFrame_mtype, hq.2.2.2.2.2]

theorem sendProcess_quiet (s : Sess) (q : Snd) (hb : s.buf = []) (hq : q.quiet) :
    newSeqs (sendProcess s q).2 = [] ∧ (sendProcess s q).1.ns = s.ns ∧ (sendProcess s q).1.buf = [] := by
  obtain ⟨he, h⟩ := hq
  rw [sendProcess_eq s q hb he]
  rcases h with h | h
  · have := builtFrame_replay_possDup s q h
    simp [h, newSeqs, this]
  · simp [newSeqs, builtFrame_mtype, h]

theorem sendProcess_quiet_NS (s : Sess) (q : Snd) (hb : s.buf = []) (hq : q.quiet) :
    NS s (sendProcess s q).1 (sendProcess s q).2 := by
  obtain ⟨h1, h2, h3⟩ := sendProcess_quiet s q hb hq
  refine ⟨?_, by omega, h3, sendProcess_kept s q⟩
  rw [h1, h2]; simp

/-! ### handlers -/

/-- the relation for a handler result -/
def NSR (s : Sess) (r : R) : Prop := NS s r.s r.outs

theorem NSR.ok (s : Sess) (hb : s.buf = []) : NSR s (R.ok s) := NS.refl s hb
theorem NSR.throw (s : Sess) (hb : s.buf = []) (f : Bool) : NSR s (R.throw s f) := NS.refl s hb

theorem NSR.andThen {s : Sess} {r : R} {f : Sess → R} (hr : NSR s r) (hf : ∀ s1, s1.buf = [] → s1.ns = r.s.ns → NSR s1 (f s1)) :
    NSR s (r.andThen f) := by
  unfold R.andThen
  split
  · exact hr
  · exact NS.trans hr (hf r.s hr.2.2.1 rfl)

theorem sendR_plain_NSR (s : Sess) (q : Snd) (hb : s.buf = []) (hq : q.plain) : NSR s (sendR s q) :=
  sendProcess_plain_NS s q hb hq
theorem sendR_quiet_NSR (s : Sess) (q : Snd) (hb : s.buf = []) (hq : q.quiet) : NSR s (sendR s q) :=
  sendProcess_quiet_NS s q hb hq

theorem plain_resend (s : Sess) (b e : Nat) : ({ m := mkResend s b e } : Snd).plain := by
  simp [Snd.plain, mkResend, Sess.fresh]
theorem plain_heartbeat (s : Sess) (t : Option Nat) : ({ m := mkHeartbeat s t } : Snd).plain := by
  simp [Snd.plain, mkHeartbeat, Sess.fresh]
theorem plain_reject (s : Sess) (r : Nat) : ({ m := mkReject s r } : Snd).plain := by
  simp [Snd.plain, mkReject, Sess.fresh]
theorem plain_logon (s : Sess) : ({ m := mkLogon s } : Snd).plain := by
  simp [Snd.plain, mkLogon, Sess.fresh]
theorem plain_order (s : Sess) (p : Nat) : ({ m := mkOrder s p } : Snd).plain := by
  simp [Snd.plain, mkOrder, Sess.fresh]
theorem quiet_seqreset (s : Sess) (n c : Nat) : ({ m := mkSeqReset s n, custom := c } : Snd).quiet := by
  simp [Snd.quiet, mkSeqReset, Sess.fresh]
theorem quiet_replay (f : Msg) : ({ m := f, hasSeq := true } : Snd).quiet := by simp [Snd.quiet]

theorem sequenceCheck_NSR (s : Sess) (sq : Nat) (m : Msg) (hb : s.buf = []) : NSR s (sequenceCheck s sq m).1 := by
  unfold sequenceCheck
  split
  · split
    · exact sendProcess_plain_NS s _ hb (plain_resend s _ _)
    · exact NSR.throw s hb _
  · split
    · split
      · exact NSR.throw s hb _
      · split
        · split
          · exact NSR.throw s hb _
          · exact NSR.ok s hb
        · exact NSR.ok s hb
    · exact NSR.ok s hb

theorem enforce_NSR (s : Sess) (sq : Nat) (m : Msg) (hb : s.buf = []) : NSR s (enforce s sq m).1 := by
  unfold enforce
  split
  · split
    · exact NSR.throw s hb _
    · split
      · exact sequenceCheck_NSR s sq m hb
      · exact NSR.ok s hb
  · exact NSR.ok s hb

/-- a forced-logoff exception leaves everything but the state untouched and has written nothing -/
def Untouched (s s' : Sess) : Prop :=
  s'.ns = s.ns ∧ s'.nr = s.nr ∧ s'.store = s.store ∧ s'.buf = s.buf ∧ s'.cfg = s.cfg ∧ s'.started = s.started ∧
  s'.shutdown = s.shutdown ∧ s'.now = s.now ∧ s'.code = s.code

theorem Untouched.same (s : Sess) : Untouched s s := ⟨rfl, rfl, rfl, rfl, rfl, rfl, rfl, rfl, rfl⟩

theorem sequenceCheck_exc (s : Sess) (sq : Nat) (m : Msg) (f : Bool) (h : (sequenceCheck s sq m).1.exc = some f) :
    f = true ∧ (sequenceCheck s sq m).1.s = s ∧ (sequenceCheck s sq m).1.outs = [] := by
  unfold sequenceCheck at h ⊢
  by_cases h1 : sq > s.nr
  · by_cases h2 : s.state = .continuous
    · simp [h1, h2] at h
    · simp [h1, h2, R.throw] at h ⊢; exact h
  · by_cases h2 : sq < s.nr
    · by_cases h3 : m.possDup = some true
      · cases ho : m.ost with
        | none => simp [h1, h2, h3, ho, R.ok] at h
        | some o =>
          by_cases h4 : o > m.st
          · simp [h1, h2, h3, ho, h4, R.throw] at h ⊢; exact h
          · simp [h1, h2, h3, ho, h4, R.ok] at h
      · simp [h1, h2, h3, R.throw] at h ⊢; exact h
    · simp [h1, h2, R.ok] at h

theorem enforce_exc (s : Sess) (sq : Nat) (m : Msg) (f : Bool) (h : (enforce s sq m).1.exc = some f) :
    f = true ∧ (enforce s sq m).1.s = s ∧ (enforce s sq m).1.outs = [] := by
  unfold enforce at h ⊢
  by_cases h0 : s.state.established = true
  · by_cases h1 : s.state ≠ .logonReceived ∧ compidBad s m
    · simp [h0, h1, R.throw] at h ⊢; exact h
    · by_cases h2 : m.mtype ≠ .sequenceReset
      · rw [if_pos h0, if_neg h1, if_pos h2] at h ⊢
        exact sequenceCheck_exc s sq m f h
      · simp [h0, h1, h2, R.ok] at h
  · simp [h0, R.ok] at h

end Fix8Model.Session
