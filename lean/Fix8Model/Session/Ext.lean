import Fix8Model.Session.StepLemmas
/-!
Extension of the step function by three application-side operations that `Ev` does not have (DESIGN 17.5, "X segments"):

* `fwd`    – `Session::send` of an application message that already carries a MsgSeqNum: `send_process` marks it
             PossDupFlag=Y / OrigSendingTime and treats it as a retransmission (no new number, nothing stored or persisted);
* `dbatch` – `send_batch` mixing new orders and such retransmissions in any order (only the last element has end_of_batch);
* `wfail`  – an application send whose socket write fails: `_connection->send` throws inside `send_process`, which returns
             false before anything is stored, persisted or counted.

`Sess.stepX` runs the old events through `Sess.step` unchanged, so every theorem about `step` keeps its meaning.
-/
namespace Fix8Model.Session
open Fix8Model.Store

/-- an element of an application batch -/
inductive BEl
  | new (pid : Nat)            -- a new order
  | dup (pid seq : Nat)        -- an order whose header already carries MsgSeqNum `seq`
deriving Repr, DecidableEq

/-- the forwarded order as the application hands it over: MsgSeqNum and SendingTime are set -/
def mkFwd (s : Sess) (pid seq : Nat) : Msg := { mkOrder s pid with seq := seq, st := s.now }

def sndOf (s : Sess) (e : BEl) (eob : Bool) : Snd :=
  match e with
  | .new p => { m := mkOrder s p, eob := eob }
  | .dup p k => { m := mkFwd s p k, hasSeq := true, eob := eob }

/-- number of new orders among the elements -/
def cntNew : List BEl → Nat
  | [] => 0
  | .new _ :: r => cntNew r + 1
  | .dup _ _ :: r => cntNew r

/-- `write_batch` over mixed elements -/
def sendBatchX (s : Sess) : List BEl → Sess × List Out
  | [] => (s, [])
  | [e] => sendProcess s (sndOf s e true)
  | e :: f :: rest =>
    let r := sendProcess s (sndOf s e false)
    let r2 := sendBatchX r.1 (f :: rest)
    (r2.1, r.2 ++ r2.2)

inductive EvX
  | base (ev : Ev)
  | fwd (pid seq : Nat)
  | dbatch (els : List BEl)
  | wfail (pid : Nat)
deriving Repr

def Sess.stepX (s : Sess) (ev : EvX) : Sess × List Out :=
  match ev with
  | .base ev => s.step ev
  | .fwd p k => if s.started = true ∧ s.shutdown = false then sendProcess s (sndOf s (.dup p k) true) else (s, [])
  | .dbatch els => if s.started = true ∧ s.shutdown = false then sendBatchX s els else (s, [])
  | .wfail _ => (s, [])

def Sess.runX (s : Sess) : List EvX → Sess × List Out
  | [] => (s, [])
  | ev :: rest => let r := s.stepX ev; let r2 := Sess.runX r.1 rest; (r2.1, r.2 ++ r2.2)

/-! ### one element -/

/-- the frame `send_process` builds for a forwarded order -/
def fwdFrame (s : Sess) (p k : Nat) : Msg := { mkOrder s p with seq := k, st := s.now, possDup := some true, ost := some s.now }

theorem fwdFrame_dup (s : Sess) (p k : Nat) : (fwdFrame s p k).possDup ≠ none := by simp [fwdFrame]

/-- a retransmission changes nothing but the batch buffer: no number, no store, no control record -/
theorem sendProcess_dup (s : Sess) (p k : Nat) (eob : Bool) :
    (sendProcess s (sndOf s (.dup p k) eob)).1 = { s with buf := if eob then [] else s.buf ++ [fwdFrame s p k] } ∧
    (sendProcess s (sndOf s (.dup p k) eob)).2 = (if eob then (s.buf ++ [fwdFrame s p k]).map Out.wire else []) := by
  cases eob <;> simp [sendProcess, sndOf, mkFwd, mkOrder, Sess.fresh, fwdFrame]

theorem newSeqs_wire_snoc_dup (l : List Msg) (m : Msg) (h : m.possDup ≠ none) :
    newSeqs ((l ++ [m]).map Out.wire) = newSeqs (l.map Out.wire) := by
  rw [List.map_append, newSeqs_append]; simp [newSeqs, h]

/-! ### the mixed batch: numbering and control record -/

/-- `send_batch` of any mix: the new orders carry `ns, ns+1, …` in order, the counter is right behind them; the control
record is right behind them as soon as one new order was in the batch and untouched otherwise; the buffer is empty
afterwards -/
theorem sendBatchX_spec : ∀ (els : List BEl) (s : Sess), els ≠ [] →
    newSeqs (sendBatchX s els).2 = newSeqs (s.buf.map Out.wire) ++ List.range' s.ns (cntNew els) ∧
    (sendBatchX s els).1.ns = s.ns + cntNew els ∧
    (sendBatchX s els).1.nr = s.nr ∧
    (sendBatchX s els).1.buf = [] ∧
    (∀ st, s.store = some st → ∃ st', (sendBatchX s els).1.store = some st' ∧
        st'.ctrl = if cntNew els = 0 then st.ctrl else some (s.ns + cntNew els, s.nr)) ∧
    Kept s (sendBatchX s els).1 ∧ (sendBatchX s els).1.shutdown = s.shutdown ∧ (sendBatchX s els).1.state = s.state
  | [], _, h => absurd rfl h
  | [.new p], s, _ => by
    simp only [sendBatchX, sndOf, cntNew]
    have := sendProcess_last s p
    refine ⟨by rw [this.1]; rfl, this.2.1, this.2.2.1, this.2.2.2.1, ?_, this.2.2.2.2.2, by simp [sendProcess], by simp [sendProcess]⟩
    intro st hst
    obtain ⟨st', h1, h2⟩ := this.2.2.2.2.1 st hst
    exact ⟨st', h1, by simpa using h2⟩
  | [.dup p k], s, _ => by
    obtain ⟨e1, e2⟩ := sendProcess_dup s p k true
    simp only [sendBatchX, cntNew]
    rw [e1, e2]
    refine ⟨?_, by simp, by simp, by simp, fun st hst => ⟨st, by simpa using hst, by simp⟩, ⟨rfl, rfl⟩, rfl, rfl⟩
    simpa using newSeqs_wire_snoc_dup _ _ (fwdFrame_dup s p k)
  | .new p :: f :: rest, s, _ => by
    obtain ⟨h1, h2, h3, ⟨fr, hf1, hf2, hf3, hf4⟩, h5, h6⟩ := sendProcess_buffered s p
    obtain ⟨i1, i2, i3, i4, i5, i6, i7, i8⟩ := sendBatchX_spec (f :: rest) (sendProcess s { m := mkOrder s p, eob := false }).1 (by simp)
    simp only [sendBatchX, sndOf, cntNew]
    refine ⟨?_, ?_, ?_, i4, ?_, h6.trans i6, by rw [i7]; simp [sendProcess], by rw [i8]; simp [sendProcess]⟩
    · rw [newSeqs_append, h1, i1, hf4, newSeqs_wire_snoc _ _ ⟨hf2, hf3⟩, hf1, h2]
      simp only [newSeqs, List.nil_append, List.append_assoc]
      congr 1
      try (rw [show cntNew (f :: rest) + 1 = 1 + cntNew (f :: rest) by omega, ← List.range'_append_1]; rfl)
    · rw [i2, h2]; omega
    · rw [i3, h3]
    · intro st hst
      obtain ⟨st1, hs1, hc1⟩ := h5 st hst
      obtain ⟨st2, hs2, hc2⟩ := i5 st1 hs1
      refine ⟨st2, hs2, ?_⟩
      rw [hc2, h2, h3, hc1]
      by_cases hz : cntNew (f :: rest) = 0
      · simp [hz]
      · simp [hz]; omega
  | .dup p k :: f :: rest, s, _ => by
    obtain ⟨e1, e2⟩ := sendProcess_dup s p k false
    obtain ⟨i1, i2, i3, i4, i5, i6, i7, i8⟩ := sendBatchX_spec (f :: rest) (sendProcess s (sndOf s (.dup p k) false)).1 (by simp)
    simp only [sendBatchX, cntNew]
    rw [e1] at i1 i2 i3 i4 i5 i6 i7 i8 ⊢
    rw [e2]
    simp only [Bool.false_eq_true, if_false, List.nil_append] at i1 i2 i3 i4 i5 i6 i7 i8 ⊢
    refine ⟨?_, i2, i3, i4, i5, i6, i7, i8⟩
    rw [i1, newSeqs_wire_snoc_dup _ _ (fwdFrame_dup s p k)]

end Fix8Model.Session
