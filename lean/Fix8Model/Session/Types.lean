import Fix8Model.Store.Model
/-!
Session layer (runtime/session.cpp, include/fix8/session.hpp): types of the single step function
`Sess.step : Sess → Ev → Sess × List Out` used by C16–C19.

Messages are abstract records (the codec is not part of this model): the correspondence harness decodes every
real frame with the real `Message::factory` and prints exactly these fields.
The persister inside the session is the map-plus-control-record specification of C26 (`Store.Spec`), made
generic in the payload type (`SpecG`); `SpecG Bytes` is `Store.Spec` (lemmas `specG_*_bytes` below), and by
C26_mem / C26_file both real persisters refine it.
-/
namespace Fix8Model.Session
open Fix8Model.Store

/-- message types the session dispatches on (`Session::process`, switch on the first byte of a one-byte MsgType);
everything else goes to `handle_application` -/
inductive MT
  | heartbeat | testRequest | resendRequest | reject | sequenceReset | logout | logon
  | app (code : Nat)
deriving Repr, DecidableEq

/-- abstract message: the fields of a decoded frame the session layer looks at (header 34 43 52 122 49 56,
body 36 123 7 16 45 112, ClOrdID 11 as the identity of an application payload) -/
structure Msg where
  mtype : MT
  seq : Nat                      -- decoded MsgSeqNum (34)
  possDup : Option Bool := none  -- 43 (absent / N / Y)
  st : Nat := 0                  -- SendingTime (52), ms on the virtual clock
  ost : Option Nat := none       -- OrigSendingTime (122)
  snd : Nat := 0                 -- SenderCompID (49), as a code
  tgt : Nat := 0                 -- TargetCompID (56)
  newSeq : Option Nat := none    -- 36
  gapFill : Option Bool := none  -- 123
  beginNo : Option Nat := none   -- 7
  endNo : Option Nat := none     -- 16
  refSeq : Option Nat := none    -- 45
  testReq : Option Nat := none   -- 112
  pid : Option Nat := none       -- 11
  admin : Bool := true           -- Message::is_admin()
deriving Repr, DecidableEq

/-- `States::SessionStates` -/
inductive St
  | none | continuous | terminated | waitForLogon | notLoggedIn | logonSent | logonReceived | logoffSent
  | logoffReceived | testRequestSent | sequenceResetSent | sequenceResetReceived | resendRequestSent | resendRequestReceived
deriving Repr, DecidableEq

/-- `States::is_established` -/
def St.established : St → Bool
  | .none | .terminated | .waitForLogon | .notLoggedIn | .logonSent => false
  | _ => true

/-! ### the generic store specification (C26) -/

structure SpecG (α : Type) where
  msgs : List (Nat × α)
  ctrl : Option (Nat × Nat)
deriving Repr

namespace SpecG
variable {α : Type}
/-- `put(seqnum, what)`: refused for 0 and for a number already stored -/
def put (s : SpecG α) (k : Nat) (a : α) : SpecG α :=
  if k = 0 ∨ hasKey s.msgs k then s else { s with msgs := s.msgs ++ [(k, a)] }
/-- `put(sender_seqnum, target_seqnum)` -/
def cput (s : SpecG α) (a b : Nat) : SpecG α := { s with ctrl := some (a, b) }
def get (s : SpecG α) (k : Nat) : Option α := if k = 0 then none else lookup s.msgs k
/-- keys handed to the retransmission callback by `get(from, to, session, callback)` -/
def range (s : SpecG α) (f t : Nat) : List Nat := (rangeVisit (hasKey s.msgs) (maxKey s.msgs) f t).1
end SpecG

/-- the generic specification at payload type `Bytes` is the specification C26 is proved against -/
def SpecG.toSpec (s : SpecG Bytes) : Spec := ⟨s.msgs, s.ctrl⟩

theorem specG_put_bytes (s : SpecG Bytes) (k : Nat) (m : Bytes) :
    (s.put k m).toSpec = (Spec.step s.toSpec (.put k m)).1 := by
  simp only [SpecG.put, SpecG.toSpec, Spec.step]; split <;> simp_all
theorem specG_cput_bytes (s : SpecG Bytes) (a b : Nat) :
    (s.cput a b).toSpec = (Spec.step s.toSpec (.cput a b)).1 := rfl
theorem specG_get_bytes (s : SpecG Bytes) (k : Nat) :
    Out.msg (s.get k) = (Spec.step s.toSpec (.get k)).2 := rfl
theorem specG_ctrl_bytes (s : SpecG Bytes) : Out.ctrl s.ctrl = (Spec.step s.toSpec .cget).2 := rfl
theorem rangeVisit_done (has : Nat → Bool) (last f t : Nat) : (rangeVisit has last f t).2 = true := by
  unfold rangeVisit; simp only []; split <;> split <;> rfl
theorem specG_range_bytes (s : SpecG Bytes) (f t : Nat) :
    Out.visit (s.range f t) true = (Spec.step s.toSpec (.range f t)).2 := by
  show Out.visit _ true = Out.visit _ (rangeVisit _ _ f t).2
  rw [rangeVisit_done]; rfl

/-- what the store holds for a number: the bytes of a frame (abstractly: the frame) or the empty string
(only the unfixed batch-tail code stores that) -/
inductive Rec
  | frame (m : Msg)
  | empty
deriving Repr, DecidableEq

/-! ### session -/

/-- configuration: `_loginParameters._enforce_compids`, our CompIDs (`_sid`).  Fixed in this model (and in the
harness): initiator role, `_always_seqnum_assign = false`, `_silent_disconnect = false`, `_reliable = false`,
`_reset_sequence_numbers = false`, no `SessionConfig` (`_sf = nullptr`), no schedule (`_active` stays true). -/
structure Cfg where
  enforce : Bool
  sender : Nat := 1
  target : Nat := 2
deriving Repr, DecidableEq

/-- which code is modelled: the three defects of DESIGN.md section 8 rows 13/14 are switchable so that the
finding witnesses can be stated on the model of the unfixed code; `Code.fixed` is the code after the `fix:` commits -/
structure Code where
  tailFromBuffer : Bool     -- row 13: last message of a batch stored from the cleared batch buffer
  gapAtNextSend : Bool      -- row 14: scenario #2/#3 gap fills carry MsgSeqNum = _next_send_seq
deriving Repr, DecidableEq

def Code.fixed : Code := ⟨false, false⟩
def Code.base : Code := ⟨true, true⟩

structure Sess where
  cfg : Cfg
  code : Code := Code.fixed
  started : Bool := false              -- a Session object exists
  state : St := .none
  ns : Nat := 1                        -- _next_send_seq
  nr : Nat := 1                        -- _next_receive_seq
  buf : List Msg := []                 -- _batchmsgs_buffer (frames not yet written)
  store : Option (SpecG Rec) := none   -- _persist
  shutdown : Bool := false             -- _control & shutdown
  now : Nat := 0                       -- virtual clock (ms)
deriving Repr

/-- result of `Message::factory` on the inbound bytes -/
inductive Dec
  | ok (m : Msg)
  | throws (forceLogoff : Bool)
  | null
deriving Repr, DecidableEq

inductive Ev
  /-- a new Session object over the current store, `start(conn, false, sendSeq, recvSeq)` -/
  | start (sendSeq recvSeq : Nat)
  /-- `process(raw)`: `scan` = what the `34=` search of `process` extracts from the raw bytes, `dec` = what the codec makes of them -/
  | inbound (scan : Option Nat) (dec : Dec)
  /-- `send(new NewOrderSingle(ClOrdID = pid), true, custom, noInc)` -/
  | appSend (pid custom : Nat) (noInc : Bool)
  /-- `send(generate_heartbeat(""), true, custom, noInc)` -/
  | admSend (custom : Nat) (noInc : Bool)
  /-- `send_batch({NewOrderSingle...}, true)` -/
  | batch (pids : List Nat)
  | clock (ms : Nat)
deriving Repr, DecidableEq

inductive Out
  | wire (m : Msg)                     -- a frame handed to Connection::send
  | deliver (raw : Nat) (m : Msg)      -- handle_application reached the application (after enforce)
  | admin (raw : Nat)                  -- handle_admin callback
deriving Repr, DecidableEq

end Fix8Model.Session
