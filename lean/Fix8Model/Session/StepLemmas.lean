import Fix8Model.Session.ProcessLemmas
/-! step-level facts: batches, start, the exits of `process`, the control record (C16) -/
namespace Fix8Model.Session
open Fix8Model.Store

/-- the persisted next-send number (what `recover_seqnums` would restore); 1 without a control record -/
def ctrlS (s : Sess) : Nat := match s.store.bind (·.ctrl) with | some (a, _) => a | none => 1

/-- the control record equals the session's numbers -/
def CtrlOK (s : Sess) : Prop := ∀ st, s.store = some st → st.ctrl = some (s.ns, s.nr)

theorem newSeqs_wire_snoc (l : List Msg) (m : Msg) (h : m.possDup = none ∧ m.mtype ≠ .sequenceReset) :
    newSeqs ((l ++ [m]).map Out.wire) = newSeqs (l.map Out.wire) ++ [m.seq] := by
  rw [List.map_append, newSeqs_append]; simp [newSeqs, h]

/-- `send_process` of an order inside a batch (not the last one): buffered -/
theorem sendProcess_buffered (s : Sess) (p : Nat) :
    (sendProcess s { m := mkOrder s p, eob := false }).2 = [] ∧
    (sendProcess s { m := mkOrder s p, eob := false }).1.ns = s.ns + 1 ∧
    (sendProcess s { m := mkOrder s p, eob := false }).1.nr = s.nr ∧
    (∃ f : Msg, f.seq = s.ns ∧ f.possDup = none ∧ f.mtype ≠ .sequenceReset ∧
      (sendProcess s { m := mkOrder s p, eob := false }).1.buf = s.buf ++ [f]) ∧
    (∀ st, s.store = some st → ∃ st', (sendProcess s { m := mkOrder s p, eob := false }).1.store = some st' ∧ st'.ctrl = some (s.ns + 1, s.nr)) ∧
    Kept s (sendProcess s { m := mkOrder s p, eob := false }).1 := by
  refine ⟨?_, ?_, rfl, ⟨{ mkOrder s p with seq := s.ns, st := s.now }, rfl, rfl, ?_, ?_⟩, ?_, sendProcess_kept _ _⟩
  · simp [sendProcess]
  · simp [sendProcess, mkOrder, Sess.fresh]
  · simp [mkOrder, Sess.fresh]
  · simp [sendProcess, mkOrder, Sess.fresh]
  · intro st hst; simp [sendProcess, mkOrder, Sess.fresh, hst, SpecG.cput]

theorem sendProcess_last (s : Sess) (p : Nat) :
    newSeqs (sendProcess s { m := mkOrder s p }).2 = newSeqs (s.buf.map Out.wire) ++ [s.ns] ∧
    (sendProcess s { m := mkOrder s p }).1.ns = s.ns + 1 ∧
    (sendProcess s { m := mkOrder s p }).1.nr = s.nr ∧
    (sendProcess s { m := mkOrder s p }).1.buf = [] ∧
    (∀ st, s.store = some st → ∃ st', (sendProcess s { m := mkOrder s p }).1.store = some st' ∧ st'.ctrl = some (s.ns + 1, s.nr)) ∧
    Kept s (sendProcess s { m := mkOrder s p }).1 := by
  refine ⟨?_, ?_, rfl, ?_, ?_, sendProcess_kept _ _⟩
  · have : (sendProcess s { m := mkOrder s p }).2 = (s.buf ++ [{ mkOrder s p with seq := s.ns, st := s.now }]).map Out.wire := by
      simp [sendProcess, mkOrder, Sess.fresh]
    rw [this, newSeqs_wire_snoc _ _ (by simp [mkOrder, Sess.fresh])]
  · simp [sendProcess, mkOrder, Sess.fresh]
  · simp [sendProcess]
  · intro st hst; simp [sendProcess, mkOrder, Sess.fresh, hst, SpecG.cput]

/-- `send_batch` of n ≥ 1 orders: numbers ns … ns+n-1, counter and control record right behind them, buffer empty -/
theorem sendBatch_spec : ∀ (pids : List Nat) (s : Sess), pids ≠ [] →
    newSeqs (sendBatch s pids).2 = newSeqs (s.buf.map Out.wire) ++ List.range' s.ns pids.length ∧
    (sendBatch s pids).1.ns = s.ns + pids.length ∧
    (sendBatch s pids).1.nr = s.nr ∧
    (sendBatch s pids).1.buf = [] ∧
    (∀ st, s.store = some st → ∃ st', (sendBatch s pids).1.store = some st' ∧ st'.ctrl = some (s.ns + pids.length, s.nr)) ∧
    Kept s (sendBatch s pids).1
  | [], _, h => absurd rfl h
  | [p], s, _ => by
    simp only [sendBatch, List.length_singleton]
    have := sendProcess_last s p
    exact ⟨by rw [this.1]; rfl, this.2.1, this.2.2.1, this.2.2.2.1, this.2.2.2.2.1, this.2.2.2.2.2⟩
  | p :: q :: rest, s, _ => by
    obtain ⟨h1, h2, h3, ⟨f, hf1, hf2, hf3, hf4⟩, h5, h6⟩ := sendProcess_buffered s p
    obtain ⟨i1, i2, i3, i4, i5, i6⟩ := sendBatch_spec (q :: rest) (sendProcess s { m := mkOrder s p, eob := false }).1 (by simp)
    simp only [sendBatch]
    refine ⟨?_, ?_, ?_, i4, ?_, h6.trans i6⟩
    · rw [newSeqs_append, h1, i1, hf4, newSeqs_wire_snoc _ _ ⟨hf2, hf3⟩, hf1, h2]
      simp only [newSeqs, List.nil_append, List.append_assoc, List.length_cons]
      congr 1
      try (rw [show rest.length + 1 + 1 = 1 + (rest.length + 1) by omega, ← List.range'_append_1]; rfl)
    · rw [i2, h2]; simp only [List.length_cons]; omega
    · rw [i3, h3]
    · intro st hst
      obtain ⟨st1, hs1, _⟩ := h5 st hst
      obtain ⟨st2, hs2, hc2⟩ := i5 st1 hs1
      refine ⟨st2, hs2, ?_⟩
      rw [hc2, h2, h3]; simp only [List.length_cons]; congr 2; omega

/-! ### exits of `process` -/

theorem softReject_spec (s : Sess) (sq : Nat) (pre : List Out) (hb : s.buf = []) :
    (softReject s sq pre).2 = pre ++ [Out.wire (builtFrame s { m := mkReject s sq })] ∧
    (builtFrame s { m := mkReject s sq }).seq = s.ns ∧ (builtFrame s { m := mkReject s sq }).possDup = none ∧
    (builtFrame s { m := mkReject s sq }).mtype = .reject ∧
    (softReject s sq pre).1.ns = s.ns + 1 ∧ (softReject s sq pre).1.nr = s.nr + 1 ∧ (softReject s sq pre).1.buf = [] ∧
    (softReject s sq pre).1.shutdown = s.shutdown ∧ (softReject s sq pre).1.started = s.started ∧
    (softReject s sq pre).1.store = s.store.map (fun st => st.cput (s.ns + 1) (s.nr + 1)) := by
  obtain ⟨h1, h2, h3, h4, h5, h6⟩ := sendProcess_plain s { m := mkReject s sq } hb (plain_reject s sq)
  unfold softReject updatePersist
  simp only []
  refine ⟨by rw [h1], h2, h3, by rw [builtFrame_mtype]; rfl, h4, rfl, h5, rfl, rfl, ?_⟩
  rw [h6, h4]; cases s.store <;> simp [mkReject, Sess.fresh, SpecG.cput, sendProcess_nr]

theorem logoff_spec' (s : Sess) (pre : List Out) (hb : s.buf = []) :
    (logoff s pre).1.shutdown = true ∧ (logoff s pre).1.ns = s.ns ∧ (logoff s pre).1.nr = s.nr ∧ (logoff s pre).1.buf = [] ∧
    (logoff s pre).1.started = s.started ∧
    (s.state = .logonReceived →
      (∃ f : Msg, (logoff s pre).2 = pre ++ [Out.wire f] ∧ f.seq = s.ns ∧ f.possDup = none ∧ f.mtype = .logout) ∧
      (logoff s pre).1.store = s.store.map (fun st => st.cput (s.ns + 1) s.nr)) ∧
    (s.state ≠ .logonReceived → (logoff s pre).2 = pre ∧ (logoff s pre).1.store = s.store) := by
  unfold logoff
  by_cases h : s.state = .logonReceived
  · rw [if_pos h]
    have he := sendProcess_eq { s with state := .terminated } { m := mkLogout s, noInc := true } hb rfl
    simp only [he]
    refine ⟨by simp, by simp [mkLogout, Sess.fresh, builtFrame], by simp, by simp, by simp,
      fun _ => ⟨⟨builtFrame { s with state := .terminated } { m := mkLogout s, noInc := true }, by simp, ?_, ?_, ?_⟩, ?_⟩, fun h2 => absurd h h2⟩
    · simp [builtFrame, mkLogout, Sess.fresh]
    · simp [builtFrame, mkLogout, Sess.fresh]
    · simp [builtFrame, mkLogout, Sess.fresh]
    · simp [builtFrame, mkLogout, Sess.fresh]
  · rw [if_neg h]
    exact ⟨rfl, rfl, rfl, hb, rfl, fun h2 => absurd h2 h, fun _ => ⟨rfl, rfl⟩⟩

theorem newSeqs_pre (m : Msg) (sq : Nat) (o : List Out) :
    newSeqs ((if m.admin then [Out.admin sq] else []) ++ o) = newSeqs o := by
  split <;> simp [newSeqs]

/-- which exit `process` takes -/
inductive Path | ignored | normal | reject | logoffQuiet | logoffLogout
deriving DecidableEq, Repr

def pathOf (s : Sess) (scan : Option Nat) (dec : Dec) : Path :=
  match scan with
  | none => .reject
  | some sq =>
    match dec with
    | .null => .ignored
    | .throws true => if s.state = .logonReceived then .logoffLogout else .logoffQuiet
    | .throws false => .reject
    | .ok m =>
      match (dispatch s sq m).exc with
      | some true => if (dispatch s sq m).s.state = .logonReceived then .logoffLogout else .logoffQuiet
      | some false => .reject
      | none => .normal

theorem updatePersist_ctrl (s : Sess) : ∀ st, (updatePersist s).store = some st → st.ctrl = some (s.ns, s.nr) := by
  intro st h
  unfold updatePersist at h
  cases hs : s.store with
  | none => rw [hs] at h; cases h
  | some st0 => rw [hs] at h; simp at h; rw [← h]; rfl

theorem range'_len_eq {a k k' : Nat} (h : List.range' a k = List.range' a k') : k = k' := by
  have := congrArg List.length h; simpa using this

/-- everything the later proofs need to know about one call of `process` from a state with an empty batch buffer -/
theorem process_spec (s : Sess) (scan : Option Nat) (dec : Dec) (hb : s.buf = []) :
    (process s scan dec).1.buf = [] ∧ Kept s (process s scan dec).1 ∧
    (∃ k, newSeqs (process s scan dec).2 = List.range' s.ns k ∧
      (match pathOf s scan dec with
       | .ignored => k = 0 ∧ process s scan dec = (s, [])
       | .normal => s.ns + k ≤ (process s scan dec).1.ns ∧
            ((∀ m, dec = .ok m → m.mtype ≠ .resendRequest) → (process s scan dec).1.ns = s.ns + k) ∧
            (∀ st, (process s scan dec).1.store = some st → st.ctrl = some ((process s scan dec).1.ns, (process s scan dec).1.nr))
       | .reject => (process s scan dec).1.ns = s.ns + k ∧ 1 ≤ (process s scan dec).1.nr ∧
            ∀ st, (process s scan dec).1.store = some st → st.ctrl = some ((process s scan dec).1.ns, (process s scan dec).1.nr)
       | .logoffQuiet => k = 0 ∧ (process s scan dec).1.shutdown = true ∧ (process s scan dec).1.ns = s.ns ∧
            (process s scan dec).1.nr = s.nr ∧ (process s scan dec).1.store = s.store
       | .logoffLogout => k = 1 ∧ (process s scan dec).1.shutdown = true ∧ (process s scan dec).1.ns = s.ns ∧
            (process s scan dec).1.nr = s.nr ∧ (process s scan dec).1.store = s.store.map (fun st => st.cput (s.ns + 1) s.nr))) := by
  -- the soft-reject exit from a state s1 reached with exact numbering
  have soft : ∀ (s1 : Sess) (sq : Nat) (pre : List Out), NS s s1 pre →
      (softReject s1 sq pre).1.buf = [] ∧ Kept s (softReject s1 sq pre).1 ∧
      ∃ k, newSeqs (softReject s1 sq pre).2 = List.range' s.ns k ∧ (softReject s1 sq pre).1.ns = s.ns + k ∧
        1 ≤ (softReject s1 sq pre).1.nr ∧
        ∀ st, (softReject s1 sq pre).1.store = some st → st.ctrl = some ((softReject s1 sq pre).1.ns, (softReject s1 sq pre).1.nr) := by
    intro s1 sq pre hns
    obtain ⟨n1, n2, n3, n4⟩ := hns
    obtain ⟨h1, h2, h3, h4, h5, h6, h7, h8, h9, h10⟩ := softReject_spec s1 sq pre n3
    refine ⟨h7, ⟨h9.trans n4.1, ?_⟩, s1.ns - s.ns + 1, ?_, by rw [h5]; omega, by omega, ?_⟩
    · rw [h10, ← n4.2]; cases s1.store <;> rfl
    · rw [h1, newSeqs_append, n1]
      simp only [newSeqs, h3, h4, h2, ne_eq, reduceCtorEq, not_false_eq_true, and_self, if_true]
      obtain ⟨d, hd⟩ := Nat.exists_eq_add_of_le n2
      rw [hd, show s.ns + d - s.ns = d by omega, ← List.range'_append_1]; rfl
    · intro st hst; rw [h10] at hst
      cases hs : s1.store with
      | none => rw [hs] at hst; cases hst
      | some st0 => rw [hs] at hst; simp at hst; rw [← hst, h5, h6]; simp [SpecG.cput]
  -- the forced-logoff exit from a state s1 that differs from s at most in `state`
  have hard : ∀ (s1 : Sess) (pre : List Out), Untouched s s1 → newSeqs pre = [] →
      (logoff s1 pre).1.buf = [] ∧ Kept s (logoff s1 pre).1 ∧
      (s1.state = .logonReceived →
           newSeqs (logoff s1 pre).2 = List.range' s.ns 1 ∧ (logoff s1 pre).1.shutdown = true ∧ (logoff s1 pre).1.ns = s.ns ∧ (logoff s1 pre).1.nr = s.nr ∧
           (logoff s1 pre).1.store = s.store.map (fun st => st.cput (s.ns + 1) s.nr)) ∧
      (s1.state ≠ .logonReceived →
           newSeqs (logoff s1 pre).2 = List.range' s.ns 0 ∧ (logoff s1 pre).1.shutdown = true ∧ (logoff s1 pre).1.ns = s.ns ∧ (logoff s1 pre).1.nr = s.nr ∧
           (logoff s1 pre).1.store = s.store) := by
    intro s1 pre hu hpre
    obtain ⟨u1, u2, u3, u4, _, u6, _, _, _⟩ := hu
    obtain ⟨h1, h2, h3, h4, h4', h5, h6⟩ := logoff_spec' s1 pre (by rw [u4]; exact hb)
    have hk : Kept s (logoff s1 pre).1 := by
      refine ⟨h4'.trans u6, ?_⟩
      by_cases hst : s1.state = .logonReceived
      · rw [(h5 hst).2, u3]; cases s.store <;> rfl
      · rw [(h6 hst).2, u3]
    refine ⟨h4, hk, fun hst => ?_, fun hst => ?_⟩
    · obtain ⟨⟨f, hf1, hf2, hf3, hf4⟩, hstore⟩ := h5 hst
      refine ⟨?_, h1, h2.trans u1, h3.trans u2, ?_⟩
      · rw [hf1, newSeqs_append, hpre]; simp [newSeqs, hf2, hf3, hf4, u1]
      · rw [hstore, u3, u1, u2]
    · refine ⟨?_, h1, h2.trans u1, h3.trans u2, by rw [(h6 hst).2, u3]⟩
      rw [(h6 hst).1, hpre]; rfl
  unfold pathOf
  cases scan with
  | none =>
    obtain ⟨a1, a2, k, a3, a4, a6, a7⟩ := soft s 0 [] (NS.refl s hb)
    exact ⟨a1, a2, k, a3, a4, a6, a7⟩
  | some sq =>
    cases dec with
    | null => exact ⟨hb, Kept.refl s, 0, rfl, rfl, rfl⟩
    | throws f =>
      cases f with
      | false =>
        obtain ⟨a1, a2, k, a3, a4, a6, a7⟩ := soft s sq [] (NS.refl s hb)
        exact ⟨a1, a2, k, a3, a4, a6, a7⟩
      | true =>
        obtain ⟨a1, a2, a3, a4⟩ := hard s [] (Untouched.same s) rfl
        have hp : process s (some sq) (.throws true) = logoff s [] := rfl
        rw [hp]
        refine ⟨a1, a2, ?_⟩
        simp only []
        by_cases hst : s.state = .logonReceived
        · rw [if_pos hst]; exact ⟨1, (a3 hst).1, rfl, (a3 hst).2⟩
        · rw [if_neg hst]; exact ⟨0, (a4 hst).1, rfl, (a4 hst).2⟩
    | ok m =>
      obtain ⟨⟨k, hk1, hk2, hk3, hk4⟩, hexact⟩ := dispatch_NSJ s sq m hb
      have hpre : ∀ o, newSeqs ((if m.admin then [Out.admin sq] else []) ++ o) = newSeqs o := newSeqs_pre m sq
      cases hx : (dispatch s sq m).exc with
      | none =>
        have hp : process s (some sq) (.ok m) =
            ((if m.mtype = .logout then { updatePersist { (dispatch s sq m).s with nr := (dispatch s sq m).s.nr + 1 } with shutdown := true }
              else updatePersist { (dispatch s sq m).s with nr := (dispatch s sq m).s.nr + 1 }),
             (if m.admin then [Out.admin sq] else []) ++ (dispatch s sq m).outs) := by
          simp only [process, hx]
        have hstore : (process s (some sq) (.ok m)).1.store = (updatePersist { (dispatch s sq m).s with nr := (dispatch s sq m).s.nr + 1 }).store := by
          rw [hp]; simp only []; split <;> rfl
        have hns : (process s (some sq) (.ok m)).1.ns = (dispatch s sq m).s.ns := by
          rw [hp]; simp only []; split <;> rfl
        have hnr : (process s (some sq) (.ok m)).1.nr = (dispatch s sq m).s.nr + 1 := by
          rw [hp]; simp only []; split <;> rfl
        have hstarted : (process s (some sq) (.ok m)).1.started = (dispatch s sq m).s.started := by
          rw [hp]; simp only []; split <;> rfl
        have hst : ∀ st, (process s (some sq) (.ok m)).1.store = some st →
            st.ctrl = some ((process s (some sq) (.ok m)).1.ns, (process s (some sq) (.ok m)).1.nr) := by
          intro st h
          rw [hstore] at h; rw [hns, hnr]
          exact updatePersist_ctrl _ st h
        have hkept : Kept s (process s (some sq) (.ok m)).1 := by
          refine ⟨hstarted.trans hk4.1, ?_⟩
          rw [hstore, ← hk4.2]; simp only [updatePersist]; cases (dispatch s sq m).s.store <;> rfl
        have hbuf : (process s (some sq) (.ok m)).1.buf = [] := by
          rw [hp]; simp only []; split <;> exact hk3
        have hout : newSeqs (process s (some sq) (.ok m)).2 = newSeqs (dispatch s sq m).outs := by
          rw [hp]; exact hpre _
        by_cases hres : m.mtype = .resendRequest
        · refine ⟨hbuf, hkept, k, by rw [hout]; exact hk1, ?_⟩
          simp only [hx]
          exact ⟨by rw [hns]; exact hk2, fun h => absurd hres (h m rfl), hst⟩
        · obtain ⟨n1, n2, _, _⟩ := hexact (Or.inl hres)
          refine ⟨hbuf, hkept, (dispatch s sq m).s.ns - s.ns, by rw [hout]; exact n1, ?_⟩
          simp only [hx]
          exact ⟨by rw [hns]; omega, fun _ => by rw [hns]; omega, hst⟩
      | some f =>
        cases f with
        | true =>
          obtain ⟨hu, ho⟩ := dispatch_force s sq m hx
          have hp : process s (some sq) (.ok m) = logoff (dispatch s sq m).s ((if m.admin then [Out.admin sq] else []) ++ (dispatch s sq m).outs) := by
            simp only [process, hx]
          obtain ⟨a1, a2, a3, a4⟩ := hard (dispatch s sq m).s ((if m.admin then [Out.admin sq] else []) ++ (dispatch s sq m).outs) hu
            (by rw [hpre, ho]; rfl)
          rw [hp]
          refine ⟨a1, a2, ?_⟩
          simp only [hx]
          by_cases hst : (dispatch s sq m).s.state = .logonReceived
          · rw [if_pos hst]; exact ⟨1, (a3 hst).1, rfl, (a3 hst).2⟩
          · rw [if_neg hst]; exact ⟨0, (a4 hst).1, rfl, (a4 hst).2⟩
        | false =>
          have hns := hexact (Or.inr (by rw [hx]; simp))
          have hp : process s (some sq) (.ok m) = softReject (dispatch s sq m).s sq ((if m.admin then [Out.admin sq] else []) ++ (dispatch s sq m).outs) := by
            simp only [process, hx]
          have hns' : NS s (dispatch s sq m).s ((if m.admin then [Out.admin sq] else []) ++ (dispatch s sq m).outs) :=
            ⟨by rw [hpre]; exact hns.1, hns.2.1, hns.2.2.1, hns.2.2.2⟩
          obtain ⟨a1, a2, k', a3, a4, a6, a7⟩ := soft (dispatch s sq m).s sq _ hns'
          rw [hp]
          refine ⟨a1, a2, k', a3, ?_⟩
          simp only [hx]
          exact ⟨a4, a6, a7⟩

end Fix8Model.Session
