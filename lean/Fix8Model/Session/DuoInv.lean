import Fix8Model.Session.DuoLemmas
/-! C21: the invariant of the two-party composition along schedules outside the two classes -/
namespace Fix8Model.Session

/-- no connection: nothing in flight, no session accepts anything, the persisted numbers of the two sides agree, and
everything that was sent has been delivered -/
def PDown (d : Duo) : Prop :=
  d.up = false ∧ d.ab = [] ∧ d.ba = [] ∧ Duo.accepts d.a = false ∧ Duo.accepts d.b = false ∧
  recNs d.a = recNr d.b ∧ recNs d.b = recNr d.a ∧ d.dlvB = d.sentA ∧ d.dlvA = d.sentB

/-- connected, the initiator's Logon is on its way (possibly followed by application messages of the initiator) -/
def PH1 (d : Duo) : Prop :=
  d.up = true ∧ Live d.a 1 2 ∧ d.a.state = .logonSent ∧
  d.b.started = true ∧ d.b.shutdown = false ∧ d.b.buf = [] ∧ d.b.state = .waitForLogon ∧ d.b.ns = 1 ∧ d.b.nr = 1 ∧
  (∃ lg F, d.ab = lg :: F ∧ IsLogon lg 1 2 (recNr d.b) ∧ Flight 1 2 (recNr d.b + 1) F d.a.ns ∧ d.dlvB ++ pidsOf F = d.sentA) ∧
  d.ba = [] ∧ d.a.nr = recNs d.b ∧ d.dlvA = d.sentB

/-- the acceptor is logged on, its Logon reply is on its way -/
def PH2 (d : Duo) : Prop :=
  d.up = true ∧ Live d.a 1 2 ∧ d.a.state = .logonSent ∧ Live d.b 2 1 ∧ d.b.state = .continuous ∧
  Flight 1 2 d.b.nr d.ab d.a.ns ∧ d.dlvB ++ pidsOf d.ab = d.sentA ∧
  (∃ lg G, d.ba = lg :: G ∧ IsLogon lg 2 1 d.a.nr ∧ Flight 2 1 (d.a.nr + 1) G d.b.ns ∧ d.dlvA ++ pidsOf G = d.sentB)

/-- both established -/
def PH3 (d : Duo) : Prop :=
  d.up = true ∧ Live d.a 1 2 ∧ d.a.state = .continuous ∧ Live d.b 2 1 ∧ d.b.state = .continuous ∧
  Flight 1 2 d.b.nr d.ab d.a.ns ∧ d.dlvB ++ pidsOf d.ab = d.sentA ∧
  Flight 2 1 d.a.nr d.ba d.b.ns ∧ d.dlvA ++ pidsOf d.ba = d.sentB

structure DInv (d : Duo) : Prop where
  dupA : d.dupA = 0
  dupB : d.dupB = 0
  storeA : ∃ st, d.a.store = some st
  storeB : ∃ st, d.b.store = some st
  cfgA : d.a.cfg.sender = 1 ∧ d.a.cfg.target = 2
  recA : 1 ≤ recNr d.a
  phase : PDown d ∨ PH1 d ∨ PH2 d ∨ PH3 d

theorem dinv_init (enforce : Bool) (t0 : Nat) : DInv (Duo.init enforce t0) :=
  ⟨rfl, rfl, ⟨_, rfl⟩, ⟨_, rfl⟩, ⟨rfl, rfl⟩, by simp [recNr, Duo.init, Sess.init],
   Or.inl ⟨rfl, rfl, rfl, rfl, rfl, rfl, rfl, rfl, rfl⟩⟩

theorem live_store {s : Sess} {me you : Nat} (h : Live s me you) : ∃ st, s.store = some st := by
  obtain ⟨st, hs, _⟩ := h.ctrl; exact ⟨st, hs⟩

theorem live_cfg {s : Sess} {me you : Nat} (h : Live s me you) : s.cfg.sender = me ∧ s.cfg.target = you := ⟨h.snd, h.tgt⟩

theorem live_recA {s : Sess} {me you : Nat} (h : Live s me you) : 1 ≤ recNr s := by rw [(live_rec h).2]; exact h.nr1

/-! ### clock -/

theorem dinv_tick {d : Duo} (h : DInv d) (ms : Nat) : DInv (d.step (.tick ms)).1 := by
  have ha : (d.step (.tick ms)).1 = { d with a := { d.a with now := d.a.now + ms }, b := { d.b with now := d.b.now + ms } } := rfl
  rw [ha]
  refine ⟨h.dupA, h.dupB, h.storeA, h.storeB, h.cfgA, h.recA, ?_⟩
  rcases h.phase with p | p | p | p
  · exact Or.inl p
  · obtain ⟨p1, p2, p3, p4, p5, p6, p7, p8, p9, p10, p11, p12, p13⟩ := p
    exact Or.inr (Or.inl ⟨p1, live_clock p2 _, p3, p4, p5, p6, p7, p8, p9, p10, p11, p12, p13⟩)
  · obtain ⟨p1, p2, p3, p4, p5, p6, p7, p8⟩ := p
    exact Or.inr (Or.inr (Or.inl ⟨p1, live_clock p2 _, p3, live_clock p4 _, p5, p6, p7, p8⟩))
  · obtain ⟨p1, p2, p3, p4, p5, p6, p7, p8, p9⟩ := p
    exact Or.inr (Or.inr (Or.inr ⟨p1, live_clock p2 _, p3, live_clock p4 _, p5, p6, p7, p8, p9⟩))

/-! ### losing the connection -/

theorem flight_nil {snd tgt k e : Nat} (h : Flight snd tgt k [] e) : k = e := h

/-- after a disconnection with nothing in flight the two persisters agree -/
theorem pdown_of_quiet {d : Duo} (h : DInv d) (hab : d.ab = []) (hba : d.ba = []) (a' b' : Sess)
    (ha : a'.store = d.a.store ∧ Duo.accepts a' = false) (hb : b'.store = d.b.store ∧ Duo.accepts b' = false) :
    PDown { d with ab := [], ba := [], up := false, a := a', b := b' } := by
  have hrs : ∀ (x y : Sess), x.store = y.store → recNs x = recNs y ∧ recNr x = recNr y := by
    intro x y hxy; simp [recNs, recNr, hxy]
  obtain ⟨ea1, ea2⟩ := hrs a' d.a ha.1
  obtain ⟨eb1, eb2⟩ := hrs b' d.b hb.1
  refine ⟨rfl, rfl, rfl, ha.2, hb.2, ?_⟩
  show recNs a' = recNr b' ∧ recNs b' = recNr a' ∧ d.dlvB = d.sentA ∧ d.dlvA = d.sentB
  rw [ea1, ea2, eb1, eb2]
  rcases h.phase with p | p | p | p
  · exact ⟨p.2.2.2.2.2.1, p.2.2.2.2.2.2.1, p.2.2.2.2.2.2.2.1, p.2.2.2.2.2.2.2.2⟩
  · obtain ⟨_, _, _, _, _, _, _, _, _, ⟨lg, F, e, _⟩, _⟩ := p
    rw [hab] at e; cases e
  · obtain ⟨_, _, _, _, _, _, _, ⟨lg, G, e, _⟩⟩ := p
    rw [hba] at e; cases e
  · obtain ⟨_, la, _, lb, _, f1, d1, f2, d2⟩ := p
    rw [hab] at f1 d1; rw [hba] at f2 d2
    obtain ⟨a1, a2⟩ := live_rec la
    obtain ⟨b1, b2⟩ := live_rec lb
    rw [a1, a2, b1, b2]
    exact ⟨(flight_nil f1).symm, (flight_nil f2).symm, by simpa [pidsOf] using d1, by simpa [pidsOf] using d2⟩

theorem not_accepts_shut (s : Sess) : Duo.accepts { s with shutdown := true } = false := by simp [Duo.accepts]
theorem not_accepts_gone (s : Sess) : Duo.accepts { s with shutdown := true, started := false } = false := by simp [Duo.accepts]

theorem dinv_drop {d : Duo} (h : DInv d) (ev : DEv) (hev : ev = .drop ∨ ev = .restartA ∨ ev = .restartB) (hcl : ¬ LossAtDrop d ev) :
    DInv (d.step ev).1 := by
  have hq : d.ab = [] ∧ d.ba = [] := by
    constructor
    · cases hx : d.ab with
      | nil => rfl
      | cons x xs => exact absurd ⟨hev, Or.inl (by simp [hx])⟩ hcl
    · cases hx : d.ba with
      | nil => rfl
      | cons x xs => exact absurd ⟨hev, Or.inr (by simp [hx])⟩ hcl
  have hrec : ∀ (x : Sess), x.store = d.a.store → recNr x = recNr d.a := by intro x hx; simp [recNr, hx]
  rcases hev with rfl | rfl | rfl
  · exact ⟨h.dupA, h.dupB, h.storeA, h.storeB, h.cfgA, h.recA,
      Or.inl (pdown_of_quiet h hq.1 hq.2 _ _ ⟨rfl, not_accepts_shut _⟩ ⟨rfl, not_accepts_shut _⟩)⟩
  · exact ⟨h.dupA, h.dupB, h.storeA, h.storeB, h.cfgA, h.recA,
      Or.inl (pdown_of_quiet h hq.1 hq.2 _ _ ⟨rfl, not_accepts_gone _⟩ ⟨rfl, not_accepts_shut _⟩)⟩
  · exact ⟨h.dupA, h.dupB, h.storeA, h.storeB, h.cfgA, h.recA,
      Or.inl (pdown_of_quiet h hq.1 hq.2 _ _ ⟨rfl, not_accepts_shut _⟩ ⟨rfl, not_accepts_gone _⟩)⟩

/-! ### connecting -/

theorem dinv_connect {d : Duo} (h : DInv d) : DInv (d.step .connect).1 ∧ (d.up = false → PH1 (d.step .connect).1) := by
  cases hup : d.up with
  | true =>
    have : d.step .connect = (d, []) := by simp [Duo.step, hup]
    rw [this]; exact ⟨h, fun hh => by cases hh⟩
  | false =>
    have hph : PDown d := by
      rcases h.phase with p | p | p | p
      · exact p
      · exact absurd p.1 (by simp [hup])
      · exact absurd p.1 (by simp [hup])
      · exact absurd p.1 (by simp [hup])
    obtain ⟨_, _, _, _, _, s1, s2, d1, d2⟩ := hph
    obtain ⟨st, hs⟩ := h.storeA
    obtain ⟨lg, w, il, x1, x2, x3, x4, x5, x6, x7, x8, _, _⟩ := startA_spec d.a st hs
    have hstep : (d.step .connect).1 = { d with a := (d.a.step (.start 0 0)).1, b := (startAcc d.b).1, ab := wiresOf (d.a.step (.start 0 0)).2, ba := [], up := true } := by
      simp [Duo.step, hup, Sess.stepAcc]
    rw [hstep, w]
    have la : Live (d.a.step (.start 0 0)).1 1 2 :=
      ⟨x1, x2, x3, by rw [x4]; exact h.cfgA.1, by rw [x4]; exact h.cfgA.2, rfl, by rw [x6]; exact h.recA, x8⟩
    have rb : recNr (startAcc d.b).1 = recNr d.b ∧ recNs (startAcc d.b).1 = recNs d.b := ⟨rfl, rfl⟩
    suffices ph : PH1 { d with a := (d.a.step (.start 0 0)).1, b := (startAcc d.b).1, ab := [lg], ba := [], up := true } from
      ⟨⟨h.dupA, h.dupB, live_store la, h.storeB, live_cfg la, live_recA la, Or.inr (Or.inl ph)⟩, fun _ => ph⟩
    refine ⟨rfl, la, x5, rfl, rfl, rfl, rfl, rfl, rfl, ⟨lg, [], rfl, ?_, ?_, ?_⟩, rfl, ?_, d2⟩
    · rw [h.cfgA.1, h.cfgA.2, s1] at il; exact il
    · show recNr d.b + 1 = (d.a.step (.start 0 0)).1.ns
      rw [x7, s1]
    · simpa [pidsOf] using d1
    · show (d.a.step (.start 0 0)).1.nr = recNs d.b
      rw [x6, s2]

/-! ### application sends -/

theorem dinv_sendA {d : Duo} (h : DInv d) (pid : Nat) : DInv (d.step (.sendA pid)).1 := by
  cases hacc : Duo.accepts d.a with
  | false =>
    have : d.step (.sendA pid) = (d, []) := by simp [Duo.step, hacc]
    rw [this]; exact h
  | true =>
    have hstep : (d.step (.sendA pid)).1 = { d with a := (d.a.step (.appSend pid 0 false)).1, ab := d.ab ++ wiresOf (d.a.step (.appSend pid 0 false)).2, sentA := d.sentA ++ [pid] } := by
      simp [Duo.step, hacc]
    rw [hstep]
    have key : ∀ (la : Live d.a 1 2), ∃ m, wiresOf (d.a.step (.appSend pid 0 false)).2 = [m] ∧ IsOrder m 1 2 d.a.ns ∧ pidsOf [m] = [pid] ∧
        Live (d.a.step (.appSend pid 0 false)).1 1 2 ∧ (d.a.step (.appSend pid 0 false)).1.state = d.a.state ∧
        (d.a.step (.appSend pid 0 false)).1.nr = d.a.nr ∧ (d.a.step (.appSend pid 0 false)).1.ns = d.a.ns + 1 := by
      intro la
      obtain ⟨m, w, io, hp, l', e1, e2, e3⟩ := appSend_wire la pid
      exact ⟨m, w, io, by simp [pidsOf, hp], l', e1, e2, e3⟩
    rcases h.phase with p | p | p | p
    · exact absurd hacc (by rw [p.2.2.2.1]; simp)
    · obtain ⟨p1, la, p3, p4, p5, p6, p7, p8, p9, ⟨lg, F, e, il, fl, dd⟩, p11, p12, p13⟩ := p
      obtain ⟨m, w, io, hp, l', e1, e2, e3⟩ := key la
      rw [w]
      refine ⟨h.dupA, h.dupB, live_store l', h.storeB, live_cfg l', live_recA l', Or.inr (Or.inl ?_)⟩
      refine ⟨p1, l', by rw [e1]; exact p3, p4, p5, p6, p7, p8, p9, ⟨lg, F ++ [m], by simp [e], il, ?_, ?_⟩, p11, by rw [e2]; exact p12, p13⟩
      · show Flight 1 2 (recNr d.b + 1) (F ++ [m]) (d.a.step (.appSend pid 0 false)).1.ns
        rw [e3]; exact fl.snoc io
      · show d.dlvB ++ pidsOf (F ++ [m]) = d.sentA ++ [pid]
        rw [pidsOf_append, hp, ← List.append_assoc, dd]
    · obtain ⟨p1, la, p3, lb, p5, fl, dd, p8⟩ := p
      obtain ⟨m, w, io, hp, l', e1, e2, e3⟩ := key la
      rw [w]
      refine ⟨h.dupA, h.dupB, live_store l', h.storeB, live_cfg l', live_recA l', Or.inr (Or.inr (Or.inl ?_))⟩
      refine ⟨p1, l', by rw [e1]; exact p3, lb, p5, ?_, ?_, ?_⟩
      · show Flight 1 2 d.b.nr (d.ab ++ [m]) (d.a.step (.appSend pid 0 false)).1.ns
        rw [e3]; exact fl.snoc io
      · show d.dlvB ++ pidsOf (d.ab ++ [m]) = d.sentA ++ [pid]
        rw [pidsOf_append, hp, ← List.append_assoc, dd]
      · obtain ⟨lg, G, e, il, fg, dg⟩ := p8
        exact ⟨lg, G, e, by rw [e2]; exact il, by rw [e2]; exact fg, dg⟩
    · obtain ⟨p1, la, p3, lb, p5, fl, dd, fg, dg⟩ := p
      obtain ⟨m, w, io, hp, l', e1, e2, e3⟩ := key la
      rw [w]
      refine ⟨h.dupA, h.dupB, live_store l', h.storeB, live_cfg l', live_recA l', Or.inr (Or.inr (Or.inr ?_))⟩
      refine ⟨p1, l', by rw [e1]; exact p3, lb, p5, ?_, ?_, by rw [e2]; exact fg, dg⟩
      · show Flight 1 2 d.b.nr (d.ab ++ [m]) (d.a.step (.appSend pid 0 false)).1.ns
        rw [e3]; exact fl.snoc io
      · show d.dlvB ++ pidsOf (d.ab ++ [m]) = d.sentA ++ [pid]
        rw [pidsOf_append, hp, ← List.append_assoc, dd]

theorem dinv_sendB {d : Duo} (h : DInv d) (pid : Nat) (hcl : ¬ EarlySend d (.sendB pid)) : DInv (d.step (.sendB pid)).1 := by
  cases hacc : Duo.accepts d.b with
  | false =>
    have : d.step (.sendB pid) = (d, []) := by simp [Duo.step, hacc]
    rw [this]; exact h
  | true =>
    have hcont : d.b.state = .continuous := by
      apply Classical.byContradiction
      intro hne
      exact hcl ⟨pid, rfl, hacc, hne⟩
    have hstep : (d.step (.sendB pid)).1 = { d with b := (d.b.step (.appSend pid 0 false)).1, ba := d.ba ++ wiresOf (d.b.step (.appSend pid 0 false)).2, sentB := d.sentB ++ [pid] } := by
      simp [Duo.step, hacc, Sess.stepAcc]
    rw [hstep]
    have key : ∀ (lb : Live d.b 2 1), ∃ m, wiresOf (d.b.step (.appSend pid 0 false)).2 = [m] ∧ IsOrder m 2 1 d.b.ns ∧ pidsOf [m] = [pid] ∧
        Live (d.b.step (.appSend pid 0 false)).1 2 1 ∧ (d.b.step (.appSend pid 0 false)).1.state = d.b.state ∧
        (d.b.step (.appSend pid 0 false)).1.nr = d.b.nr ∧ (d.b.step (.appSend pid 0 false)).1.ns = d.b.ns + 1 := by
      intro lb
      obtain ⟨m, w, io, hp, l', e1, e2, e3⟩ := appSend_wire lb pid
      exact ⟨m, w, io, by simp [pidsOf, hp], l', e1, e2, e3⟩
    rcases h.phase with p | p | p | p
    · exact absurd hacc (by rw [p.2.2.2.2.1]; simp)
    · exact absurd hcont (by rw [p.2.2.2.2.2.2.1]; simp)
    · obtain ⟨p1, la, p3, lb, p5, fl, dd, ⟨lg, G, e, il, fg, dg⟩⟩ := p
      obtain ⟨m, w, io, hp, l', e1, e2, e3⟩ := key lb
      rw [w]
      refine ⟨h.dupA, h.dupB, h.storeA, live_store l', h.cfgA, h.recA, Or.inr (Or.inr (Or.inl ?_))⟩
      refine ⟨p1, la, p3, l', by rw [e1]; exact p5, by rw [e2]; exact fl, dd, ⟨lg, G ++ [m], by simp [e], il, ?_, ?_⟩⟩
      · show Flight 2 1 (d.a.nr + 1) (G ++ [m]) (d.b.step (.appSend pid 0 false)).1.ns
        rw [e3]; exact fg.snoc io
      · show d.dlvA ++ pidsOf (G ++ [m]) = d.sentB ++ [pid]
        rw [pidsOf_append, hp, ← List.append_assoc, dg]
    · obtain ⟨p1, la, p3, lb, p5, fl, dd, fg, dg⟩ := p
      obtain ⟨m, w, io, hp, l', e1, e2, e3⟩ := key lb
      rw [w]
      refine ⟨h.dupA, h.dupB, h.storeA, live_store l', h.cfgA, h.recA, Or.inr (Or.inr (Or.inr ?_))⟩
      refine ⟨p1, la, p3, l', by rw [e1]; exact p5, by rw [e2]; exact fl, dd, ?_, ?_⟩
      · show Flight 2 1 d.a.nr (d.ba ++ [m]) (d.b.step (.appSend pid 0 false)).1.ns
        rw [e3]; exact fg.snoc io
      · show d.dlvA ++ pidsOf (d.ba ++ [m]) = d.sentB ++ [pid]
        rw [pidsOf_append, hp, ← List.append_assoc, dg]

/-! ### deliveries -/

theorem dlvPids_deliver (sq : Nat) (m : Msg) : dlvPids [Out.deliver sq m] = pidsOf [m] := rfl
theorem dupCount_fresh (sq : Nat) (m : Msg) (h : m.possDup = none) : dupCount [Out.deliver sq m] = 0 := by simp [dupCount, h]

theorem dinv_dAB {d : Duo} (h : DInv d) : DInv (d.step .dAB).1 ∧ (PH1 d → PH2 (d.step .dAB).1) := by
  cases hab : d.ab with
  | nil =>
    have : d.step .dAB = (d, []) := by simp [Duo.step, hab]
    rw [this]; exact ⟨h, fun q => by obtain ⟨_, _, _, _, _, _, _, _, _, ⟨lg, F, e, _⟩, _⟩ := q; rw [hab] at e; cases e⟩
  | cons m r =>
    have hstep : (d.step .dAB).1 = { d with b := (d.b.stepAcc 2 (.inbound (some m.seq) (.ok m))).1, ab := r, ba := d.ba ++ wiresOf (d.b.stepAcc 2 (.inbound (some m.seq) (.ok m))).2, dlvB := d.dlvB ++ dlvPids (d.b.stepAcc 2 (.inbound (some m.seq) (.ok m))).2, dupB := d.dupB + dupCount (d.b.stepAcc 2 (.inbound (some m.seq) (.ok m))).2 } := by
      simp [Duo.step, hab]
    rw [hstep]
    -- an application message in sequence at the live, continuous acceptor
    have happ : ∀ (lb : Live d.b 2 1) (hc : d.b.state = .continuous) (io : IsOrder m 1 2 d.b.nr),
        d.b.stepAcc 2 (.inbound (some m.seq) (.ok m)) = (updatePersist { d.b with nr := d.b.nr + 1 }, [Out.deliver m.seq m]) := by
      intro lb hc io
      rw [stepAcc_inbound_eq _ _ _ _ (by rw [io.mtype]; simp)]
      exact app_at lb hc m io
    have excl : ∀ {x : Duo}, PH1 d → PH2 d ∨ PH3 d → x = x → False := by
      intro x q1 q2 _
      have e1 : d.b.state = .waitForLogon := q1.2.2.2.2.2.2.1
      rcases q2 with q | q
      · have e2 : d.b.state = .continuous := q.2.2.2.2.1
        rw [e1] at e2; cases e2
      · have e2 : d.b.state = .continuous := q.2.2.2.2.1
        rw [e1] at e2; cases e2
    rcases h.phase with p | p | p | p
    · exact absurd p.2.1 (by simp [hab])
    · -- the initiator's Logon reaches the acceptor
      obtain ⟨p1, la, p3, p4, p5, p6, p7, p8, p9, ⟨lg, F, e, il, fl, dd⟩, p11, p12, p13⟩ := p
      rw [hab] at e
      obtain ⟨rfl, rfl⟩ := List.cons.inj e
      obtain ⟨st, hs⟩ := h.storeB
      have hrec := recoverSeq_fresh d.b .logonReceived p8 p9
      have hst := stepAcc_logon 2 d.b m (recNs d.b) (recNr d.b) p4 p5 p7 il.mtype il.admin il.tgt hrec il.seq
      obtain ⟨f, w, ifl, lb', c1, c2, c3, c4, c5⟩ := afterLogonAcc_spec d.b m (recNs d.b) (recNr d.b) st hs p4 p5 p6
      rw [il.tgt, il.snd] at ifl lb'
      rw [hst, w, c4, c5, p11]
      suffices ph : PH2 { d with b := afterLogonAcc d.b m (recNs d.b) (recNr d.b), ab := r, ba := [] ++ [f], dlvB := d.dlvB ++ [], dupB := d.dupB + 0 } from
        ⟨⟨h.dupA, h.dupB, h.storeA, live_store lb', h.cfgA, h.recA, Or.inr (Or.inr (Or.inl ph))⟩, fun _ => ph⟩
      refine ⟨p1, la, p3, lb', c1, by rw [c2]; exact fl, by simpa using dd, ⟨f, [], rfl, by rw [p12]; exact ifl, ?_, by simpa [pidsOf] using p13⟩⟩
      show d.a.nr + 1 = (afterLogonAcc d.b m (recNs d.b) (recNr d.b)).ns
      rw [c3, p12]
    · obtain ⟨p1, la, p3, lb, p5, fl, dd, p8⟩ := p
      rw [hab] at fl dd
      obtain ⟨io, fr⟩ := fl
      rw [happ lb p5 io]
      have lb' := live_update_nr lb (d.b.nr + 1) (by omega)
      refine ⟨⟨h.dupA, by simp [dupCount_fresh _ _ io.fresh, h.dupB], h.storeA, live_store lb', h.cfgA, h.recA, Or.inr (Or.inr (Or.inl ?_))⟩,
        fun q => (excl (x := d) q (Or.inl ⟨p1, la, p3, lb, p5, by rw [hab]; exact ⟨io, fr⟩, by rw [hab]; exact dd, p8⟩) rfl).elim⟩
      refine ⟨p1, la, p3, lb', p5, fr, ?_, ?_⟩
      · show d.dlvB ++ dlvPids [Out.deliver m.seq m] ++ pidsOf r = d.sentA
        rw [dlvPids_deliver, List.append_assoc, ← pidsOf_append]; exact dd
      · simpa [wiresOf, updatePersist] using p8
    · obtain ⟨p1, la, p3, lb, p5, fl, dd, fg, dg⟩ := p
      rw [hab] at fl dd
      obtain ⟨io, fr⟩ := fl
      rw [happ lb p5 io]
      have lb' := live_update_nr lb (d.b.nr + 1) (by omega)
      refine ⟨⟨h.dupA, by simp [dupCount_fresh _ _ io.fresh, h.dupB], h.storeA, live_store lb', h.cfgA, h.recA, Or.inr (Or.inr (Or.inr ?_))⟩,
        fun q => (excl (x := d) q (Or.inr ⟨p1, la, p3, lb, p5, by rw [hab]; exact ⟨io, fr⟩, by rw [hab]; exact dd, fg, dg⟩) rfl).elim⟩
      refine ⟨p1, la, p3, lb', p5, fr, ?_, ?_, ?_⟩
      · show d.dlvB ++ dlvPids [Out.deliver m.seq m] ++ pidsOf r = d.sentA
        rw [dlvPids_deliver, List.append_assoc, ← pidsOf_append]; exact dd
      · simpa [wiresOf, updatePersist] using fg
      · simpa [wiresOf, updatePersist] using dg

theorem dinv_dBA {d : Duo} (h : DInv d) : DInv (d.step .dBA).1 ∧ (PH2 d → PH3 (d.step .dBA).1) := by
  cases hba : d.ba with
  | nil =>
    have : d.step .dBA = (d, []) := by simp [Duo.step, hba]
    rw [this]; exact ⟨h, fun q => by obtain ⟨_, _, _, _, _, _, _, ⟨lg, G, e, _⟩⟩ := q; rw [hba] at e; cases e⟩
  | cons m r =>
    have hstep : (d.step .dBA).1 = { d with a := (d.a.step (.inbound (some m.seq) (.ok m))).1, ba := r, ab := d.ab ++ wiresOf (d.a.step (.inbound (some m.seq) (.ok m))).2, dlvA := d.dlvA ++ dlvPids (d.a.step (.inbound (some m.seq) (.ok m))).2, dupA := d.dupA + dupCount (d.a.step (.inbound (some m.seq) (.ok m))).2 } := by
      simp [Duo.step, hba]
    rw [hstep]
    rcases h.phase with p | p | p | p
    · exact absurd p.2.2.1 (by simp [hba])
    · exact absurd p.2.2.2.2.2.2.2.2.2.2.1 (by simp [hba])
    · -- the acceptor's Logon reply reaches the initiator
      obtain ⟨p1, la, p3, lb, p5, fl, dd, ⟨lg, G, e, il, fg, dg⟩⟩ := p
      rw [hba] at e
      obtain ⟨rfl, rfl⟩ := List.cons.inj e
      have hst := step_logon d.a m la.started la.alive p3 il.mtype il.admin (by rw [il.snd]; exact la.tgt.symm) (by rw [il.tgt]; exact la.snd.symm) il.seq
      rw [hst]
      have la' := live_update la (d.a.nr + 1) .continuous (by omega)
      suffices ph : PH3 { d with a := updatePersist { d.a with nr := d.a.nr + 1, state := .continuous }, ba := r, ab := d.ab ++ wiresOf [Out.admin m.seq], dlvA := d.dlvA ++ dlvPids [Out.admin m.seq], dupA := d.dupA + dupCount [Out.admin m.seq] } from
        ⟨⟨by simp [dupCount, h.dupA], h.dupB, live_store la', h.storeB, live_cfg la', live_recA la', Or.inr (Or.inr (Or.inr ph))⟩, fun _ => ph⟩
      refine ⟨p1, la', rfl, lb, p5, by simpa [wiresOf, updatePersist] using fl, by simpa [wiresOf, updatePersist] using dd, fg, by simpa [dlvPids] using dg⟩
    · obtain ⟨p1, la, p3, lb, p5, fl, dd, fg, dg⟩ := p
      rw [hba] at fg dg
      obtain ⟨io, fr⟩ := fg
      rw [app_at la p3 m io]
      have la' := live_update_nr la (d.a.nr + 1) (by omega)
      refine ⟨⟨by simp [dupCount_fresh _ _ io.fresh, h.dupA], h.dupB, live_store la', h.storeB, live_cfg la', live_recA la', Or.inr (Or.inr (Or.inr ?_))⟩,
        fun q => by have e1 : d.a.state = .logonSent := q.2.2.1; rw [p3] at e1; cases e1⟩
      refine ⟨p1, la', p3, lb, p5, by simpa [wiresOf, updatePersist] using fl, by simpa [wiresOf, updatePersist] using dd, fr, ?_⟩
      show d.dlvA ++ dlvPids [Out.deliver m.seq m] ++ pidsOf r = d.sentB
      rw [dlvPids_deliver, List.append_assoc, ← pidsOf_append]; exact dg

/-- the invariant is preserved by every event outside the two classes -/
theorem dinv_step {d : Duo} (h : DInv d) (ev : DEv) (h1 : ¬ LossAtDrop d ev) (h2 : ¬ EarlySend d ev) : DInv (d.step ev).1 := by
  cases ev with
  | connect => exact (dinv_connect h).1
  | sendA pid => exact dinv_sendA h pid
  | sendB pid => exact dinv_sendB h pid h2
  | dAB => exact (dinv_dAB h).1
  | dBA => exact (dinv_dBA h).1
  | drop => exact dinv_drop h _ (Or.inl rfl) h1
  | restartA => exact dinv_drop h _ (Or.inr (Or.inl rfl)) h1
  | restartB => exact dinv_drop h _ (Or.inr (Or.inr rfl)) h1
  | tick ms => exact dinv_tick h ms

end Fix8Model.Session
