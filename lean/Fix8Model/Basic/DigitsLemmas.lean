import Fix8Model.Basic.Digits
namespace Fix8Model.Digits
open Fix8Model.Gen

/-- the generated digit table maps a remainder `d ∈ [-9, 9]` to the character of `|d|` -/
theorem tableChar_spec : ∀ k : Fin 19, tableChar ((k.val : Int) - 9) = 48 + ((k.val : Int) - 9).natAbs := by
  decide

theorem tableChar_nonneg (d : Nat) (h : d < 10) : tableChar (d : Int) = 48 + d := by
  have := tableChar_spec ⟨d + 9, by omega⟩
  simp only at this
  have e : ((d + 9 : Nat) : Int) - 9 = (d : Int) := by omega
  rw [e] at this
  rw [this]; simp

theorem tableChar_neg (d : Nat) (h : d < 10) : tableChar (-(d : Int)) = 48 + d := by
  have := tableChar_spec ⟨9 - d, by omega⟩
  simp only at this
  have e : ((9 - d : Nat) : Int) - 9 = -(d : Int) := by omega
  rw [e] at this
  rw [this]; simp

theorem natDigits_lt (n : Nat) (h : n < 10) : natDigits n = [48 + n] := by
  rw [natDigits]; simp [h]

theorem natDigits_ge (n : Nat) (h : ¬ n < 10) : natDigits n = natDigits (n / 10) ++ [48 + n % 10] := by
  rw [natDigits]; simp [h]

theorem tdiv_ofNat (n : Nat) : (n : Int).tdiv 10 = ((n / 10 : Nat) : Int) := by
  rw [Int.tdiv_eq_ediv_of_nonneg (by omega)]; rfl

theorem tdiv_neg_ofNat (n : Nat) : (-(n : Int)).tdiv 10 = -((n / 10 : Nat) : Int) := by
  rw [Int.neg_tdiv, tdiv_ofNat]

theorem itoaLoop_nonneg : ∀ n : Nat, (itoaLoop (n : Int)).1 = (natDigits n).reverse ∧ 0 ≤ (itoaLoop (n : Int)).2 := by
  intro n
  induction n using Nat.strongRecOn with
  | _ n ih =>
    rw [itoaLoop]
    simp only [tdiv_ofNat]
    have hd : (n : Int) - ((n / 10 : Nat) : Int) * 10 = ((n % 10 : Nat) : Int) := by omega
    rw [hd, tableChar_nonneg _ (Nat.mod_lt _ (by decide))]
    by_cases h : n < 10
    · have h0 : ((n / 10 : Nat) : Int) = 0 := by omega
      simp only [h0, ↓reduceDIte]
      rw [natDigits_lt n h]
      have : n % 10 = n := Nat.mod_eq_of_lt h
      simp [this]
    · have h0 : ¬ ((n / 10 : Nat) : Int) = 0 := by omega
      simp only [h0, ↓reduceDIte]
      obtain ⟨e1, e2⟩ := ih (n / 10) (by omega)
      rw [natDigits_ge n h, e1]
      refine ⟨by simp, ?_⟩
      exact e2

theorem itoaLoop_neg : ∀ n : Nat, 0 < n →
    (itoaLoop (-(n : Int))).1 = (natDigits n).reverse ∧ (itoaLoop (-(n : Int))).2 < 0 := by
  intro n
  induction n using Nat.strongRecOn with
  | _ n ih =>
    intro hpos
    rw [itoaLoop]
    simp only [tdiv_neg_ofNat]
    have hd : -(n : Int) - -((n / 10 : Nat) : Int) * 10 = -((n % 10 : Nat) : Int) := by omega
    rw [hd, tableChar_neg _ (Nat.mod_lt _ (by decide))]
    by_cases h : n < 10
    · have h0 : -((n / 10 : Nat) : Int) = 0 := by omega
      simp only [h0, ↓reduceDIte]
      rw [natDigits_lt n h]
      have : n % 10 = n := Nat.mod_eq_of_lt h
      simp [this]; omega
    · have h0 : ¬ -((n / 10 : Nat) : Int) = 0 := by omega
      simp only [h0, ↓reduceDIte]
      obtain ⟨e1, e2⟩ := ih (n / 10) (by omega) (by omega)
      rw [natDigits_ge n h, e1]
      refine ⟨by simp, ?_⟩
      exact e2

theorem itoa_eq (v : Int) : itoa v = decimalRepr v := by
  unfold itoa decimalRepr
  by_cases hv : v < 0
  · obtain ⟨n, rfl⟩ : ∃ n : Nat, v = -(n : Int) := ⟨v.natAbs, by omega⟩
    obtain ⟨e1, e2⟩ := itoaLoop_neg n (by omega)
    simp [hv, e1, e2]; omega
  · obtain ⟨n, rfl⟩ : ∃ n : Nat, v = (n : Int) := ⟨v.natAbs, by omega⟩
    obtain ⟨e1, e2⟩ := itoaLoop_nonneg n
    have : ¬ (itoaLoop (n : Int)).2 < 0 := by omega
    simp [hv, e1, this]

theorem scan_append (neg : Bool) : ∀ (a b : List Nat) (r : Int),
    scan neg r (a ++ b) = scan neg r a ++ scan neg (a.foldl (atoiStep neg) r) b
  | [], b, r => by simp [scan]
  | c :: cs, b, r => by simp [scan, scan_append neg cs b]

theorem natDigits_head (n : Nat) : ∃ c cs, natDigits n = c :: cs ∧ 48 ≤ c := by
  induction n using Nat.strongRecOn with
  | _ n ih =>
    by_cases h : n < 10
    · exact ⟨48 + n, [], natDigits_lt n h, by omega⟩
    · obtain ⟨c, cs, e, hc⟩ := ih (n / 10) (by omega)
      exact ⟨c, cs ++ [48 + n % 10], by rw [natDigits_ge n h, e]; rfl, hc⟩

theorem foldl_pos (n : Nat) : (natDigits n).foldl (atoiStep false) 0 = (n : Int) := by
  induction n using Nat.strongRecOn with
  | _ n ih =>
    by_cases h : n < 10
    · rw [natDigits_lt n h]; simp [atoiStep]; omega
    · rw [natDigits_ge n h, List.foldl_append, ih (n / 10) (by omega)]
      simp [atoiStep]; omega

theorem foldl_neg (n : Nat) : (natDigits n).foldl (atoiStep true) 0 = -(n : Int) := by
  induction n using Nat.strongRecOn with
  | _ n ih =>
    by_cases h : n < 10
    · rw [natDigits_lt n h]; simp [atoiStep]; omega
    · rw [natDigits_ge n h, List.foldl_append, ih (n / 10) (by omega)]
      simp [atoiStep]; omega

theorem scan_pos (n : Nat) : ∀ x ∈ scan false 0 (natDigits n), 0 ≤ x ∧ x ≤ (n : Int) := by
  induction n using Nat.strongRecOn with
  | _ n ih =>
    by_cases h : n < 10
    · rw [natDigits_lt n h]; simp [scan, atoiStep, atoiSub]; omega
    · rw [natDigits_ge n h, scan_append, foldl_pos]
      intro x hx
      rw [List.mem_append] at hx
      rcases hx with hx | hx
      · have := ih (n / 10) (by omega) x hx; omega
      · simp [scan, atoiStep, atoiSub] at hx; omega

theorem scan_neg (n : Nat) : ∀ x ∈ scan true 0 (natDigits n), -(n : Int) ≤ x ∧ x ≤ 9 := by
  induction n using Nat.strongRecOn with
  | _ n ih =>
    by_cases h : n < 10
    · rw [natDigits_lt n h]; simp [scan, atoiStep, atoiSub]; omega
    · rw [natDigits_ge n h, scan_append, foldl_neg]
      intro x hx
      rw [List.mem_append] at hx
      rcases hx with hx | hx
      · have := ih (n / 10) (by omega) x hx; omega
      · simp [scan, atoiStep, atoiSub] at hx; omega

theorem fastAtoi_repr (v : Int) : fastAtoi (decimalRepr v) = v := by
  unfold decimalRepr
  by_cases hv : v < 0
  · simp only [hv, ↓reduceIte, fastAtoi]
    rw [foldl_neg]; omega
  · simp only [hv, ↓reduceIte]
    obtain ⟨c, cs, e, hc⟩ := natDigits_head v.natAbs
    have h45 : c ≠ 45 := by omega
    have : fastAtoi (natDigits v.natAbs) = (natDigits v.natAbs).foldl (atoiStep false) 0 := by
      rw [e]; unfold fastAtoi; split
      · rename_i heq; cases heq; omega
      · rfl
    rw [this, foldl_pos]; omega

theorem fastAtoiTrace_repr (v : Int) :
    ∀ x ∈ fastAtoiTrace (decimalRepr v), (min 0 v) ≤ x ∧ x ≤ (max 9 v) := by
  unfold decimalRepr
  by_cases hv : v < 0
  · simp only [hv, ↓reduceIte, fastAtoiTrace]
    intro x hx
    have := scan_neg v.natAbs x hx
    omega
  · simp only [hv, ↓reduceIte]
    obtain ⟨c, cs, e, hc⟩ := natDigits_head v.natAbs
    have : fastAtoiTrace (natDigits v.natAbs) = scan false 0 (natDigits v.natAbs) := by
      rw [e]; unfold fastAtoiTrace; split
      · rename_i heq; cases heq; omega
      · rfl
    rw [this]
    intro x hx
    have := scan_pos v.natAbs x hx
    omega

end Fix8Model.Digits
