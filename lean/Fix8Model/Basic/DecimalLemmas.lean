import Fix8Model.Basic.Decimal
import Fix8Model.Basic.DigitsLemmas
namespace Fix8Model.Decimal
open Fix8Model.Digits Fix8Model.Gen

/-! ### constants -/

theorem pow10_table : ∀ p : Fin 10, pow10 p.val = 10 ^ p.val := by decide

theorem pow10_eq (p : Nat) (h : p ≤ 9) : pow10 p = 10 ^ p := pow10_table ⟨p, by omega⟩

theorem clampPrec_ofNat (p : Nat) (h : p ≤ 9) : clampPrec (p : Int) = p := by
  unfold clampPrec dtoaMaxPrec
  have h1 : ¬ ((p : Int) < 0) := by omega
  have h2 : ¬ ((p : Int) > ((9 : Nat) : Int)) := by omega
  rw [if_neg h1, if_neg h2]; rfl

theorem clampPrec_le (prec : Int) : clampPrec prec ≤ 9 := by
  unfold clampPrec dtoaMaxPrec
  split
  · omega
  · split
    · omega
    · omega

theorem ten_pow_pos (p : Nat) : 0 < 10 ^ p := Nat.pow_pos (by decide)

/-! ### digit loops -/

theorem digitsRev_reverse (w : Nat) : (digitsRev w).reverse = natDigits w := by
  induction w using Nat.strongRecOn with
  | _ w ih =>
    rw [digitsRev]
    by_cases h : w < 10
    · have h0 : w / 10 = 0 := by omega
      have h1 : w % 10 = w := by omega
      simp [h0, h1, natDigits_lt w h]
    · have h0 : ¬ w / 10 = 0 := by omega
      simp only [h0, ↓reduceDIte, List.reverse_cons]
      rw [ih (w / 10) (by omega), natDigits_ge w h]

theorem padRev_zero (p : Nat) : padRev p 0 = List.replicate p 48 := by
  induction p with
  | zero => rfl
  | succ p ih => simp [padRev, ih, List.replicate_succ]

theorem padRev_length (p F : Nat) : (padRev p F).length = p := by
  induction p generalizing F with
  | zero => rfl
  | succ p ih => simp [padRev, ih]

/-- once a non-zero digit has been written every digit is written; the zeros added afterwards
complete the `q + 1` digits -/
theorem fracLoop_done (q : Nat) : ∀ (F dn : Nat), F < 10 ^ (q + 1) → dn ≠ 0 →
    (fracLoop F ((q : Int) + 1) dn).1 ++ List.replicate (fracLoop F ((q : Int) + 1) dn).2.1.toNat 48 = padRev (q + 1) F
    ∧ (fracLoop F ((q : Int) + 1) dn).2.2 ≠ 0 := by
  induction q with
  | zero =>
    intro F dn hF hdn
    have h0 : F / 10 = 0 := by omega
    rw [fracLoop]
    simp only [h0, ↓reduceDIte, padRev]
    by_cases hd : F % 10 = 0
    · simp [hd, hdn]
    · simp [hd]
  | succ q ih =>
    intro F dn hF hdn
    rw [fracLoop]
    by_cases h0 : F / 10 = 0
    · simp only [h0, ↓reduceDIte]
      have e : padRev (q + 1 + 1) F = (48 + F % 10) :: List.replicate (q + 1) 48 := by
        rw [padRev, h0, padRev_zero]
      rw [e]
      have ec : ((((q + 1 : Nat) : Int) + 1 - 1)).toNat = q + 1 := by omega
      rw [ec]
      by_cases hd : F % 10 = 0
      · simp [hd, hdn]
      · simp [hd]
    · simp only [h0, ↓reduceDIte]
      have hF' : F / 10 < 10 ^ (q + 1) := by
        rw [Nat.div_lt_iff_lt_mul (by decide)]; rw [Nat.pow_succ] at hF; exact hF
      have ec : (((q + 1 : Nat) : Int) + 1 - 1) = (q : Int) + 1 := by omega
      rw [ec]
      have hdn' : (if F % 10 ≠ 0 then dn + (48 + F % 10) else dn) ≠ 0 := by
        split <;> omega
      obtain ⟨e1, e2⟩ := ih (F / 10) _ hF' hdn'
      refine ⟨?_, e2⟩
      rw [List.append_assoc, e1]
      have e : padRev (q + 1 + 1) F = (48 + F % 10) :: padRev (q + 1) (F / 10) := rfl
      rw [e]
      by_cases hd : F % 10 = 0
      · simp [hd, hdn]
      · simp [hd]

/-- before the first non-zero digit zeros are skipped -/
theorem fracLoop_start (q : Nat) : ∀ (F : Nat), F < 10 ^ (q + 1) →
    (F = 0 → (fracLoop F ((q : Int) + 1) 0).1 = [] ∧ (fracLoop F ((q : Int) + 1) 0).2.2 = 0) ∧
    (F ≠ 0 → (fracLoop F ((q : Int) + 1) 0).1 ++ List.replicate (fracLoop F ((q : Int) + 1) 0).2.1.toNat 48
              = (padRev (q + 1) F).dropWhile (· == 48)
            ∧ (fracLoop F ((q : Int) + 1) 0).1 ≠ []
            ∧ (fracLoop F ((q : Int) + 1) 0).2.2 ≠ 0) := by
  induction q with
  | zero =>
    intro F hF
    have h0 : F / 10 = 0 := by omega
    rw [fracLoop]
    simp only [h0, ↓reduceDIte, padRev]
    constructor
    · intro hz; subst hz; simp
    · intro hz
      have hd : F % 10 ≠ 0 := by omega
      simp [hd]
  | succ q ih =>
    intro F hF
    constructor
    · intro hz; subst hz; rw [fracLoop]; simp
    · intro hz
      by_cases hd : F % 10 = 0
      · -- a zero digit, nothing written yet: skipped
        have h0 : ¬ F / 10 = 0 := by omega
        have hF' : F / 10 < 10 ^ (q + 1) := by
          rw [Nat.div_lt_iff_lt_mul (by decide)]; rw [Nat.pow_succ] at hF; exact hF
        obtain ⟨_, ih2⟩ := ih (F / 10) hF'
        obtain ⟨e1, e2, e3⟩ := ih2 h0
        rw [fracLoop]
        have ec : (((q + 1 : Nat) : Int) + 1 - 1) = (q : Int) + 1 := by omega
        simp only [h0, ↓reduceDIte, hd, ne_eq, not_true_eq_false, ↓reduceIte, List.nil_append, ec]
        refine ⟨?_, e2, e3⟩
        rw [e1]
        have e : padRev (q + 1 + 1) F = (48 + F % 10) :: padRev (q + 1) (F / 10) := rfl
        rw [e]
        simp [hd]
      · -- the first non-zero digit
        have hdn : (0 + (48 + F % 10)) ≠ 0 := by omega
        rw [fracLoop]
        by_cases h0 : F / 10 = 0
        · simp only [h0, ↓reduceDIte, hd, ne_eq, not_false_eq_true, ↓reduceIte]
          have ec : ((((q + 1 : Nat) : Int) + 1 - 1)).toNat = q + 1 := by omega
          rw [ec]
          refine ⟨?_, by simp, by omega⟩
          rw [padRev, h0, padRev_zero]
          have : ((48 + F % 10) == 48) = false := by simp; omega
          rw [List.dropWhile_cons]; simp [this]
        · have hF' : F / 10 < 10 ^ (q + 1) := by
            rw [Nat.div_lt_iff_lt_mul (by decide)]; rw [Nat.pow_succ] at hF; exact hF
          have ec : (((q + 1 : Nat) : Int) + 1 - 1) = (q : Int) + 1 := by omega
          simp only [h0, ↓reduceDIte, hd, ne_eq, not_false_eq_true, ↓reduceIte, ec]
          obtain ⟨e1, e2⟩ := fracLoop_done q (F / 10) (0 + (48 + F % 10)) hF' hdn
          refine ⟨?_, by simp, e2⟩
          rw [List.append_assoc, e1]
          have e : padRev (q + 1 + 1) F = (48 + F % 10) :: padRev (q + 1) (F / 10) := rfl
          rw [e]
          have : ((48 + F % 10) == 48) = false := by simp; omega
          rw [List.dropWhile_cons]; simp [this]


theorem dropWhile_replicate48 (p : Nat) : (List.replicate p 48).dropWhile (· == 48) = [] := by
  induction p with
  | zero => rfl
  | succ p ih => rw [List.replicate_succ, List.dropWhile_cons]; simp [ih]

/-- the fraction characters, after the final reversal, are the canonical fraction digits -/
theorem emitFrac_reverse (p F : Nat) (hp : p ≠ 0) (hF : F < 10 ^ p) : (emitFrac p F).reverse = canonFrac p F := by
  obtain ⟨q, rfl⟩ : ∃ q, p = q + 1 := ⟨p - 1, by omega⟩
  obtain ⟨hz, hnz⟩ := fracLoop_start q F hF
  unfold emitFrac canonFrac
  have ec : (((q + 1 : Nat) : Int)) = (q : Int) + 1 := by omega
  rw [ec]
  by_cases h : F = 0
  · obtain ⟨e1, e2⟩ := hz h
    subst h
    simp [e1, e2, padRev_zero, dropWhile_replicate48]
  · obtain ⟨e1, e2, e3⟩ := hnz h
    simp only [e3, ↓reduceIte, e1]
    have hne : ((padRev (q + 1) F).dropWhile (· == 48)).isEmpty = false := by
      rw [← e1]
      cases hh : (fracLoop F ((q : Int) + 1) 0).1 with
      | nil => exact absurd hh e2
      | cons x xs => rfl
    simp [hne]

/-! ### the rounding stage -/

/-- arithmetic facts about `whole`, `frac`, `diff` -/
theorem stage_arith (a d P : Nat) (hd : 0 < d) (hP : 0 < P) :
    a * P = d * (a / d * P + (a % d) * P / d) + (a % d) * P % d ∧ (a % d) * P / d < P ∧ (a % d) * P % d < d := by
  have h1 : a = d * (a / d) + a % d := (Nat.div_add_mod a d).symm
  have h2 : (a % d) * P = d * ((a % d) * P / d) + (a % d) * P % d := (Nat.div_add_mod _ d).symm
  refine ⟨?_, ?_, Nat.mod_lt _ hd⟩
  · generalize a / d = W at *
    generalize a % d = R at *
    generalize R * P / d = F at *
    generalize R * P % d = r at *
    grind
  · apply Nat.div_lt_of_lt_mul
    have : a % d < d := Nat.mod_lt _ hd
    exact Nat.mul_lt_mul_of_lt_of_le this (Nat.le_refl _) hP


theorem divmod_of_eq (x P W F : Nat) (h : x = P * W + F) (hF : F < P) : x / P = W ∧ x % P = F := by
  have hP : 0 < P := by omega
  rw [Nat.div_mod_unique hP]
  omega

theorem ten_pow_even (p : Nat) (hp : p ≠ 0) : 10 ^ p % 2 = 0 := by
  obtain ⟨q, rfl⟩ : ∃ q, p = q + 1 := ⟨p - 1, by omega⟩
  rw [Nat.pow_succ]; omega

/-- `p > 0`: the pair left by the rounding stage is the whole part and the `p` fraction digits of
`roundK` -/
theorem roundStage_spec (a d p : Nat) (hd : 0 < d) (hp : p ≠ 0) :
    (roundStage a d (10 ^ p) true).2 * 10 ^ p + (roundStage a d (10 ^ p) true).1 = roundK a d p
    ∧ (roundStage a d (10 ^ p) true).1 < 10 ^ p := by
  have hP : 0 < 10 ^ p := ten_pow_pos p
  have hev := ten_pow_even p hp
  obtain ⟨hx, hF, hr⟩ := stage_arith a d (10 ^ p) hd hP
  simp only [roundStage, roundK]
  generalize 10 ^ p = P at *
  generalize a / d = W at *
  generalize a % d * P / d = F at *
  generalize a % d * P % d = r at *
  obtain ⟨hJ, hR⟩ := divmod_of_eq (a * P) d (W * P + F) r hx hr
  rw [hJ, hR]
  have hWP : W * P = P * W := Nat.mul_comm _ _
  obtain ⟨hJP, hJm⟩ := divmod_of_eq (W * P + F) P W F (by omega) hF
  rw [hJm]
  have hpar : (W * P + F) % 2 = F % 2 := by
    have h0 : W * P % 2 = 0 := by rw [Nat.mul_mod, hev]; simp
    have : ∀ M : Nat, M % 2 = 0 → (M + F) % 2 = F % 2 := by intro M h; omega
    exact this _ h0
  rw [hpar]
  simp only [hp, ne_eq, not_false_eq_true, true_and]
  by_cases h1 : 2 * r > d
  · simp only [h1, ↓reduceIte]
    by_cases h2 : F + 1 ≥ P
    · simp only [h2, ↓reduceIte]
      have : F + 1 = P := by omega
      refine ⟨?_, hP⟩
      rw [Nat.add_mul]; omega
    · simp only [h2, ↓reduceIte]
      omega
  · simp only [h1, ↓reduceIte]
    by_cases h2 : 2 * r = d ∧ (F = 0 ∨ F % 2 = 1)
    · have h2' : 2 * r = d ∧ (F % 2 = 1 ∨ F = 0) := ⟨h2.1, h2.2.symm⟩
      rw [if_pos h2, if_pos h2']
      by_cases h3 : F + 1 ≥ P
      · simp only [h3, and_self, ↓reduceIte]
        have : F + 1 = P := by omega
        refine ⟨?_, hP⟩
        rw [Nat.add_mul]; omega
      · simp only [h3, and_false, ↓reduceIte]
        omega
    · have h2' : ¬ (2 * r = d ∧ (F % 2 = 1 ∨ F = 0)) := fun h => h2 ⟨h.1, h.2.symm⟩
      rw [if_neg h2, if_neg h2']
      exact ⟨rfl, hF⟩

/-- `p = 0`: the two rounding steps together round `whole` half to even -/
theorem roundStage_zero (a d : Nat) (hd : 0 < d) :
    roundWhole0 a d (roundStage a d 1 false).2 = roundK a d 0 := by
  obtain ⟨hx, hF, hr⟩ := stage_arith a d 1 hd (by decide)
  have h1 : a = d * (a / d) + a % d := (Nat.div_add_mod a d).symm
  simp only [roundWhole0, roundStage, roundK]
  simp only [Nat.pow_zero, Nat.mul_one] at *
  have hF0 : a % d / d = 0 := Nat.div_eq_of_lt (Nat.mod_lt _ hd)
  have hr0 : a % d % d = a % d := Nat.mod_eq_of_lt (Nat.mod_lt _ hd)
  rw [hF0, hr0]
  generalize a / d = W at *
  generalize a % d = R at *
  have hR : R < d := by omega
  simp only [Nat.zero_add, Nat.le_refl, ↓reduceIte, true_or, and_true, ne_eq, not_true_eq_false, false_and, or_false, ge_iff_le]
  by_cases c1 : 2 * R > d
  · have e : ((a : Int) - ((W + 1 : Nat) : Int) * (d : Int)) = (R : Int) - (d : Int) := by
      subst h1; push_cast; grind
    simp only [c1, ↓reduceIte]
    rw [e]
    have n1 : ¬ (2 * ((R : Int) - (d : Int)) > (d : Int)) := by omega
    have n2 : ¬ (2 * ((R : Int) - (d : Int)) = (d : Int) ∧ (W + 1) % 2 = 1) := by omega
    simp [n1, n2]
  · have e : ((a : Int) - ((W : Nat) : Int) * (d : Int)) = (R : Int) := by
      subst h1; push_cast; grind
    simp only [c1, ↓reduceIte, Bool.false_eq_true, false_and]
    have hs : (if 2 * R = d then ((1 : Nat), W) else ((0 : Nat), W)).snd = W := by split <;> rfl
    rw [hs, e]
    by_cases c2 : 2 * R = d
    · have n1 : ¬ (2 * (R : Int) > (d : Int)) := by omega
      have t2 : (2 * (R : Int) = (d : Int)) := by omega
      simp [c2, n1, t2]
    · have n1 : ¬ (2 * (R : Int) > (d : Int)) := by omega
      have n2 : ¬ (2 * (R : Int) = (d : Int)) := by omega
      simp [c2, n1, n2]

theorem text_pos (neg : Bool) (p W F : Nat) (hp : p ≠ 0) (hF : F < 10 ^ p) :
    (emitFrac p F ++ [46] ++ digitsRev W ++ (if neg then [45] else [])).reverse
      = signedText neg (W * 10 ^ p + F) p := by
  obtain ⟨e1, e2⟩ := divmod_of_eq (W * 10 ^ p + F) (10 ^ p) W F (by rw [Nat.mul_comm]) hF
  unfold signedText canonAbs
  rw [e1, e2]
  simp only [List.reverse_append, emitFrac_reverse p F hp hF, digitsRev_reverse, hp, ↓reduceIte]
  cases neg <;> simp

theorem text_zero (neg : Bool) (W : Nat) :
    (digitsRev W ++ (if neg then [45] else [])).reverse = signedText neg W 0 := by
  unfold signedText canonAbs
  simp only [List.reverse_append, digitsRev_reverse, Nat.pow_zero, Nat.div_one, ↓reduceIte]
  cases neg <;> simp

/-- the model of `modp_dtoa`, inside its domain, prints the canonical text of `roundK` -/
theorem dtoa_eq_round (n : Int) (d p : Nat) (hd : 0 < d) (hp : p ≤ 9)
    (hdom : n.natAbs ≤ dtoaThresMax * d) :
    dtoa n d (p : Int) = some (signedText (decide (n < 0)) (roundK n.natAbs d p) p) := by
  simp only [dtoa]
  rw [clampPrec_ofNat p hp, pow10_eq p hp]
  have hnot : ¬ (n.natAbs > dtoaThresMax * d) := by omega
  simp only [hnot, ↓reduceIte]
  by_cases h0 : p = 0
  · subst h0
    simp only [↓reduceIte, Nat.pow_zero]
    have : decide (0 > 0) = false := by decide
    rw [this, roundStage_zero _ _ hd, text_zero]
  · simp only [h0, ↓reduceIte]
    have : decide (p > 0) = true := by simp; omega
    rw [this]
    obtain ⟨e1, e2⟩ := roundStage_spec n.natAbs d p hd h0
    rw [text_pos _ p _ _ h0 e2, e1]

/-! ### properties of the rounding function -/

/-- `roundK a d p / 10^p` is within half a unit of the last place of `a / d` (cross-multiplied) -/
theorem roundK_nearest (a d p : Nat) (hd : 0 < d) :
    2 * (roundK a d p * d) ≤ 2 * (a * 10 ^ p) + d ∧ 2 * (a * 10 ^ p) ≤ 2 * (roundK a d p * d) + d := by
  have h := (Nat.div_add_mod (a * 10 ^ p) d).symm
  have hr : a * 10 ^ p % d < d := Nat.mod_lt _ hd
  simp only [roundK]
  generalize a * 10 ^ p = x at *
  generalize x / d = J at *
  generalize x % d = r at *
  have hc : J * d = d * J := Nat.mul_comm _ _
  have hs : (J + 1) * d = d * J + d := by rw [Nat.add_mul]; omega
  split
  · omega
  · split <;> omega

/-- a value that is a multiple of `10^-p` is left alone -/
theorem roundK_exact (a d p k : Nat) (hd : 0 < d) (h : a * 10 ^ p = d * k) : roundK a d p = k := by
  obtain ⟨e1, e2⟩ := divmod_of_eq (a * 10 ^ p) d k 0 (by omega) hd
  simp only [roundK, e1, e2]
  have n1 : ¬ (2 * 0 > d) := by omega
  have n2 : ¬ (2 * 0 = d ∧ (k % 2 = 1 ∨ p ≠ 0 ∧ k % 10 ^ p = 0)) := by omega
  rw [if_neg n1, if_neg n2]

/-! ### fast_atof on canonical texts -/

/-- value of a digit string continued from `v` -/
def dfold (v : Nat) (ds : List Nat) : Nat := ds.foldl (fun v c => v * 10 + (c - 48)) v

theorem dfold_append (v : Nat) (a b : List Nat) : dfold v (a ++ b) = dfold (dfold v a) b := by
  simp [dfold, List.foldl_append]

theorem isDigit_digit (x : Nat) : isDigit (48 + x % 10) = true := by
  simp [isDigit]; omega

theorem natDigits_allDigits (n : Nat) : ∀ c ∈ natDigits n, isDigit c = true := by
  induction n using Nat.strongRecOn with
  | _ n ih =>
    by_cases h : n < 10
    · rw [natDigits_lt n h]; intro c hc; simp at hc; subst hc; simp [isDigit]; omega
    · rw [natDigits_ge n h]; intro c hc
      rw [List.mem_append] at hc
      rcases hc with hc | hc
      · exact ih (n / 10) (by omega) c hc
      · simp at hc; subst hc; exact isDigit_digit n

theorem dfold_natDigits (n : Nat) : dfold 0 (natDigits n) = n := by
  induction n using Nat.strongRecOn with
  | _ n ih =>
    by_cases h : n < 10
    · rw [natDigits_lt n h]; simp [dfold]
    · rw [natDigits_ge n h, dfold_append, ih (n / 10) (by omega)]
      simp [dfold]; omega

theorem intLoop_digits (ds rest : List Nat) (hds : ∀ c ∈ ds, isDigit c = true)
    (hrest : rest = [] ∨ ∃ c cs, rest = c :: cs ∧ isDigit c = false) :
    ∀ v, intLoop v (ds ++ rest) = (dfold v ds, rest) := by
  induction ds with
  | nil =>
    intro v
    rcases hrest with h | ⟨c, cs, h, hc⟩
    · subst h; simp [intLoop, dfold]
    · subst h; simp [intLoop, dfold, hc]
  | cons c cs ih =>
    intro v
    have hc : isDigit c = true := hds c (by simp)
    simp only [List.cons_append, intLoop, hc, ↓reduceIte]
    rw [ih (fun x hx => hds x (by simp [hx]))]
    simp [dfold]

theorem fracDigits_digits (ds : List Nat) (hds : ∀ c ∈ ds, isDigit c = true) :
    ∀ m e, fracDigits m e ds = (dfold m ds, e + ds.length, []) := by
  induction ds with
  | nil => intro m e; simp [fracDigits, dfold]
  | cons c cs ih =>
    intro m e
    have hc : isDigit c = true := hds c (by simp)
    simp only [fracDigits, hc, ↓reduceIte]
    rw [ih (fun x hx => hds x (by simp [hx]))]
    simp [dfold]; omega

theorem padRev_allDigits (p F : Nat) : ∀ c ∈ padRev p F, isDigit c = true := by
  induction p generalizing F with
  | zero => intro c hc; simp [padRev] at hc
  | succ p ih =>
    intro c hc
    simp only [padRev, List.mem_cons] at hc
    rcases hc with hc | hc
    · subst hc; exact isDigit_digit F
    · exact ih _ c hc

theorem canonFrac_allDigits (p F : Nat) : ∀ c ∈ canonFrac p F, isDigit c = true := by
  intro c hc
  unfold canonFrac at hc
  simp only [List.mem_reverse] at hc
  split at hc
  · simp at hc; subst hc; rfl
  · exact padRev_allDigits p F c ((List.dropWhile_sublist _).subset hc)

theorem mod_pow_succ (G p : Nat) : G % 10 ^ (p + 1) = (G / 10 % 10 ^ p) * 10 + G % 10 := by
  rw [Nat.pow_succ, Nat.mul_comm (10 ^ p) 10, Nat.mod_mul]; omega

theorem dfold_padRev (p : Nat) : ∀ G v, dfold v (padRev p G).reverse = v * 10 ^ p + G % 10 ^ p := by
  induction p with
  | zero => intro G v; simp [padRev, dfold, Nat.mod_one]
  | succ p ih =>
    intro G v
    simp only [padRev, List.reverse_cons, dfold_append, ih]
    rw [mod_pow_succ, Nat.pow_succ]
    simp only [dfold, List.foldl_cons, List.foldl_nil]
    have : 48 + G % 10 - 48 = G % 10 := by omega
    rw [this, Nat.add_mul, Nat.mul_assoc, Nat.add_assoc]

theorem dfold_strip (p : Nat) : ∀ G v, ∃ z, ((padRev p G).dropWhile (· == 48)).length + z = p ∧
    dfold v ((padRev p G).dropWhile (· == 48)).reverse * 10 ^ z = v * 10 ^ p + G % 10 ^ p := by
  induction p with
  | zero => intro G v; exact ⟨0, by simp [padRev, dfold, Nat.mod_one]⟩
  | succ p ih =>
    intro G v
    by_cases hd : G % 10 = 0
    · obtain ⟨z, e1, e2⟩ := ih (G / 10) v
      refine ⟨z + 1, ?_, ?_⟩
      · simp only [padRev, hd, Nat.add_zero, List.dropWhile_cons, beq_self_eq_true, ↓reduceIte]; omega
      · simp only [padRev, hd, Nat.add_zero, List.dropWhile_cons, beq_self_eq_true, ↓reduceIte]
        rw [Nat.pow_succ, ← Nat.mul_assoc, e2, mod_pow_succ, hd, Nat.pow_succ, Nat.add_mul, Nat.mul_assoc]
        omega
    · refine ⟨0, ?_, ?_⟩
      · have : ((48 + G % 10) == 48) = false := by simp; omega
        simp only [padRev, List.dropWhile_cons, this]
        simp [padRev_length]
      · have : ((48 + G % 10) == 48) = false := by simp; omega
        have e : (padRev (p + 1) G).dropWhile (· == 48) = padRev (p + 1) G := by
          simp only [padRev, List.dropWhile_cons, this]; rfl
        rw [e, dfold_padRev]; simp

/-- the canonical fraction digits carry the value `F / 10^p` with `z` trailing zeros removed -/
theorem dfold_canonFrac (p F v : Nat) (hp : p ≠ 0) (hF : F < 10 ^ p) :
    ∃ z, (canonFrac p F).length + z = p ∧ dfold v (canonFrac p F) * 10 ^ z = v * 10 ^ p + F := by
  obtain ⟨z, e1, e2⟩ := dfold_strip p F v
  rw [Nat.mod_eq_of_lt hF] at e2
  unfold canonFrac
  cases hs : (padRev p F).dropWhile (· == 48) with
  | nil =>
    rw [hs] at e1 e2
    simp only [List.length_nil, Nat.zero_add] at e1
    subst e1
    simp only [List.reverse_nil, dfold, List.foldl_nil] at e2
    have hF0 : F = 0 := by omega
    obtain ⟨q, rfl⟩ : ∃ q, z = q + 1 := ⟨z - 1, by omega⟩
    refine ⟨q, by simp; omega, ?_⟩
    simp [dfold, hF0, Nat.pow_succ, Nat.mul_assoc, Nat.mul_comm 10]
  | cons x xs =>
    rw [hs] at e1 e2
    refine ⟨z, by simpa using e1, ?_⟩
    simpa using e2

theorem dropWhile_head {α} (q : α → Bool) (c : α) (cs : List α) (h : q c = false) :
    (c :: cs).dropWhile q = c :: cs := by
  rw [List.dropWhile_cons]; simp [h]

theorem takeSign_other (c : Nat) (cs : List Nat) (h1 : c ≠ 45) (h2 : c ≠ 43) : takeSign (c :: cs) = (false, c :: cs) := by
  unfold takeSign
  split
  · rename_i heq; cases heq; omega
  · rename_i heq; cases heq; omega
  · rfl

/-- `fast_atof` of an unsigned canonical text: mantissa and number of fraction digits -/
theorem atof_canonAbs_aux (k p : Nat) :
    ∃ M z, z ≤ p ∧ M * 10 ^ z = k ∧
      takeExp (takeFrac (intLoop 0 (canonAbs k p)).1 (intLoop 0 (canonAbs k p)).2).1
              (takeFrac (intLoop 0 (canonAbs k p)).1 (intLoop 0 (canonAbs k p)).2).2.1
              (takeFrac (intLoop 0 (canonAbs k p)).1 (intLoop 0 (canonAbs k p)).2).2.2 = (M, p - z) := by
  unfold canonAbs
  by_cases hp : p = 0
  · subst hp
    simp only [↓reduceIte, Nat.pow_zero, Nat.div_one]
    have := intLoop_digits (natDigits k) [] (natDigits_allDigits k) (Or.inl rfl) 0
    rw [this, dfold_natDigits]
    exact ⟨k, 0, by omega, by simp, by simp [takeFrac, takeExp]⟩
  · simp only [hp, ↓reduceIte]
    have hP := ten_pow_pos p
    have hF : k % 10 ^ p < 10 ^ p := Nat.mod_lt _ hP
    have := intLoop_digits (natDigits (k / 10 ^ p)) (46 :: canonFrac p (k % 10 ^ p)) (natDigits_allDigits _)
      (Or.inr ⟨46, _, rfl, by decide⟩) 0
    rw [this, dfold_natDigits]
    simp only [takeFrac]
    rw [fracDigits_digits _ (canonFrac_allDigits _ _)]
    obtain ⟨z, e1, e2⟩ := dfold_canonFrac p (k % 10 ^ p) (k / 10 ^ p) hp hF
    refine ⟨dfold (k / 10 ^ p) (canonFrac p (k % 10 ^ p)), z, by omega, ?_, ?_⟩
    · rw [e2]
      have := Nat.div_add_mod k (10 ^ p)
      rw [Nat.mul_comm] at this; exact this
    · simp only [takeExp, Nat.zero_add]
      congr 1
      omega

theorem canonAbs_head (k p : Nat) : ∃ c cs, canonAbs k p = c :: cs ∧ 48 ≤ c ∧ c ≤ 57 := by
  obtain ⟨c, cs, e, hc⟩ := natDigits_head (k / 10 ^ p)
  have hd := natDigits_allDigits (k / 10 ^ p) c (by rw [e]; simp)
  refine ⟨c, cs ++ (if p = 0 then [] else 46 :: canonFrac p (k % 10 ^ p)), by unfold canonAbs; rw [e]; rfl, hc, ?_⟩
  simp [isDigit] at hd; omega

/-- `fast_atof` of a canonical text returns the value it denotes, as `M / 10^(p-z)` with `M·10^z = k` -/
theorem atof_signedText (neg : Bool) (k p : Nat) :
    ∃ M z, z ≤ p ∧ M * 10 ^ z = k ∧
      atof (signedText neg k p) = ⟨if neg then -(M : Int) else (M : Int), p - z⟩ := by
  obtain ⟨M, z, hz, hM, h⟩ := atof_canonAbs_aux k p
  obtain ⟨c, cs, e, hc1, hc2⟩ := canonAbs_head k p
  refine ⟨M, z, hz, hM, ?_⟩
  unfold atof signedText
  cases neg with
  | true =>
    simp only [↓reduceIte, List.singleton_append]
    rw [dropWhile_head _ _ _ (by decide)]
    simp only [takeSign]
    rw [h]
    simp
  | false =>
    simp only [Bool.false_eq_true, ↓reduceIte, List.nil_append]
    have hsp : isSpace c = false := by simp [isSpace]; omega
    rw [e, dropWhile_head _ _ _ hsp, takeSign_other c cs (by omega) (by omega), ← e]
    simp only
    rw [h]
    simp


/-! ### no integer overflow inside the domain -/

theorem roundStage_range (a d P : Nat) (p0 : Bool) (hd : 0 < d) (hP : 0 < P) (hdom : a ≤ dtoaThresMax * d) :
    a / d ≤ dtoaThresMax ∧ (roundStage a d P p0).2 ≤ dtoaThresMax ∧ (roundStage a d P p0).1 ≤ (a % d) * P / d + 1
    ∧ (a % d) * P / d < P := by
  obtain ⟨hx, hF, hr⟩ := stage_arith a d P hd hP
  have h1 : a = d * (a / d) + a % d := (Nat.div_add_mod a d).symm
  have hW : a / d ≤ dtoaThresMax := by
    apply Nat.div_le_of_le_mul; rw [Nat.mul_comm]; exact hdom
  have hR : a % d < d := Nat.mod_lt _ hd
  refine ⟨hW, ?_, ?_, hF⟩
  · simp only [roundStage]
    -- a carry needs a non-zero remainder, hence a / d < thres_max
    have hlt : 0 < a % d → a / d + 1 ≤ dtoaThresMax := by
      intro hpos
      apply Nat.succ_le_of_lt
      apply Nat.lt_of_le_of_ne hW
      intro e
      rw [e] at h1
      have : dtoaThresMax * d = d * dtoaThresMax := Nat.mul_comm _ _
      omega
    have hrem : 0 < (a % d) * P % d → 0 < a % d := by
      intro h
      apply Nat.pos_of_ne_zero
      intro e; rw [e] at h; simp at h
    split
    · split
      · exact hlt (hrem (by omega))
      · exact hW
    · split
      · split
        · exact hlt (hrem (by omega))
        · exact hW
      · exact hW
  · simp only [roundStage]
    split
    · split <;> omega
    · split
      · split <;> omega
      · omega

theorem roundK_zero_le (a d : Nat) (hd : 0 < d) (hdom : a ≤ dtoaThresMax * d) : roundK a d 0 ≤ dtoaThresMax := by
  have h1 : a = d * (a / d) + a % d := (Nat.div_add_mod a d).symm
  have hW : a / d ≤ dtoaThresMax := by
    apply Nat.div_le_of_le_mul; rw [Nat.mul_comm]; exact hdom
  have hlt : 0 < a % d → a / d + 1 ≤ dtoaThresMax := by
    intro hpos
    apply Nat.succ_le_of_lt
    apply Nat.lt_of_le_of_ne hW
    intro e
    rw [e] at h1
    have : dtoaThresMax * d = d * dtoaThresMax := Nat.mul_comm _ _
    omega
  simp only [roundK, Nat.pow_zero, Nat.mul_one]
  split
  · exact hlt (by omega)
  · split
    · exact hlt (by omega)
    · exact hW

end Fix8Model.Decimal
