import Fix8Model.Gen.ItoaTable
/-!
Model of `itoa<int>(value, result, 10)` and `fast_atoi<int>` (include/fix8/f8utils.hpp).
Characters are byte values (`Nat`).  `int` arithmetic is modelled on unbounded `Int`; the
theorems state separately that every intermediate value stays inside the 32-bit range, so the
C++ never overflows on the inputs covered.
-/
namespace Fix8Model.Digits
open Fix8Model.Gen

/-- `"zyx…"[35 + d]` -/
def tableChar (d : Int) : Nat := itoaTable.getD ((itoaMid : Int) + d).toNat 0

/-- the do-while loop of `itoa`: characters in the order written (least significant first) and the
last `tmp_value` -/
def itoaLoop (value : Int) : List Nat × Int :=
  let tmp := value
  let value' := value.tdiv 10
  let c := tableChar (tmp - value' * 10)
  if h : value' = 0 then ([c], tmp)
  else
    let r := itoaLoop value'
    (c :: r.1, r.2)
termination_by value.natAbs
decreasing_by
  rw [Int.natAbs_tdiv]
  have h0 : value.natAbs ≠ 0 := by
    intro h0; apply h; rw [Int.natAbs_eq_zero] at h0; subst h0; rfl
  have h10 : (10 : Int).natAbs = 10 := rfl
  rw [h10]
  exact Nat.div_lt_self (Nat.pos_of_ne_zero h0) (by decide)

/-- `itoa(value, result, 10)`: digits, optional '-', then the in-place reversal -/
def itoa (value : Int) : List Nat :=
  let r := itoaLoop value
  (if r.2 < 0 then r.1 ++ [45] else r.1).reverse

/-- one iteration of `fast_atoi<int>`: the negative branch (`retval * 10 - (*str - '0')`) or the
original shift form (`(retval << 3) + (retval << 1) + (*str - '0')`) -/
def atoiStep (neg : Bool) (r : Int) (c : Nat) : Int :=
  if neg then r * 10 - ((c : Int) - 48) else r * 8 + r * 2 + ((c : Int) - 48)

/-- the `int` sub-expressions evaluated by one iteration, in evaluation order -/
def atoiSub (neg : Bool) (r : Int) (c : Nat) : List Int :=
  if neg then [r * 10, (c : Int) - 48, r * 10 - ((c : Int) - 48)]
  else [r * 8, r * 2, r * 8 + r * 2, (c : Int) - 48, r * 8 + r * 2 + ((c : Int) - 48)]

/-- every value an `int` sub-expression takes during the run -/
def scan (neg : Bool) : Int → List Nat → List Int
  | _, [] => []
  | r, c :: cs => atoiSub neg r c ++ scan neg (atoiStep neg r c) cs

/-- `fast_atoi<int>(str)` with terminator NUL on a NUL-free string -/
def fastAtoi (s : List Nat) : Int :=
  match s with
  | 45 :: rest => rest.foldl (atoiStep true) 0
  | _ => s.foldl (atoiStep false) 0

/-- the intermediate accumulator values of the same run -/
def fastAtoiTrace (s : List Nat) : List Int :=
  match s with
  | 45 :: rest => scan true 0 rest
  | _ => scan false 0 s

/-- reference: canonical decimal text -/
def natDigits (n : Nat) : List Nat :=
  if h : n < 10 then [48 + n] else natDigits (n / 10) ++ [48 + n % 10]
termination_by n
decreasing_by omega

def decimalRepr (v : Int) : List Nat :=
  if v < 0 then 45 :: natDigits v.natAbs else natDigits v.natAbs

def inInt32 (v : Int) : Prop := -2147483648 ≤ v ∧ v ≤ 2147483647

end Fix8Model.Digits
