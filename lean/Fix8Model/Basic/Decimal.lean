import Fix8Model.Basic.Digits
import Fix8Model.Gen.DtoaConsts
/-!
Model of `modp_dtoa(double value, char *str, int prec)` (runtime/modp_numtoa.c, with the fix8
modifications) and of `fast_atof` (include/fix8/f8utils.hpp) in EXACT arithmetic.

binary64 is NOT formalised.  A `double` argument is modelled by the exact rational `n / d`
(`n : Int`, `d : Nat`, `0 < d`); the result of `fast_atof` by the scaled decimal `m / 10^e`
(`Dec`).  Every operation of the C code is replaced by the exact operation on these values:
the model says what the routines compute if no floating operation rounds.  In binary64
`value - whole`, `(uint32_t)tmp`, `tmp - frac` and the comparisons are exact for |value| < 2^31, the
only rounding operation of `modp_dtoa` is the product `(value - whole) * pow10_[prec]`; the
correspondence run (tools/props/c08.py) compares the model with the code exactly on the inputs for
which that product is exact and judges the code by an independent oracle everywhere else.

Characters are byte values (`Nat`).
-/
namespace Fix8Model.Decimal
open Fix8Model.Digits Fix8Model.Gen

/-! ### modp_dtoa -/

/-- `pow10_[prec]` -/
def pow10 (p : Nat) : Nat := dtoaPow10.getD p 0

/-- `if (prec < 0) prec = 0; else if (prec > 9) prec = 9;` -/
def clampPrec (prec : Int) : Nat :=
  if prec < 0 then 0 else if prec > (dtoaMaxPrec : Int) then dtoaMaxPrec else prec.toNat

/-- `do *wstr++ = (char)(48 + (x % 10)); while (x /= 10);` – characters in the order written -/
def digitsRev (w : Nat) : List Nat :=
  (48 + w % 10) :: (if h : w / 10 = 0 then [] else digitsRev (w / 10))
termination_by w
decreasing_by omega

/-- the fraction loop of the DD modification
```
do { --count;
     if (frac % 10)  done += (*wstr++ = (char)(48 + (frac % 10)));
     else if (done)  *wstr++ = '0';
} while (frac /= 10);
```
returns the characters written (in order), the final `count` and the final `done` (`int`: the sum of
the character codes written by the first branch) -/
def fracLoop (frac : Nat) (count : Int) (done : Nat) : List Nat × Int × Nat :=
  let count := count - 1
  let dg := frac % 10
  let out : List Nat := if dg ≠ 0 then [48 + dg] else if done ≠ 0 then [48] else []
  let done := if dg ≠ 0 then done + (48 + dg) else done
  if h : frac / 10 = 0 then (out, count, done)
  else
    let r := fracLoop (frac / 10) count done
    (out ++ r.1, r.2.1, r.2.2)
termination_by frac
decreasing_by omega

/-- the fraction loop followed by `if (!done) *wstr++ = '0'; else while (count-- > 0) *wstr++ = '0';` -/
def emitFrac (p frac : Nat) : List Nat :=
  let fl := fracLoop frac (p : Int) 0
  fl.1 ++ (if fl.2.2 = 0 then [48] else List.replicate fl.2.1.toNat 48)

/-- lines 105–127: `whole`, `tmp`, `frac`, `diff` and the rounding of `frac` with the carry into
`whole`.  `a / d` is the (already non-negative) value, `P = pow10_[prec]`, `p0` is `prec > 0`.
`tmp = tn / d`, `diff = r / d`.  Returns `(frac, whole)`. -/
def roundStage (a d P : Nat) (p0 : Bool) : Nat × Nat :=
  let whole := a / d                        -- whole = (int) value
  let tn := (a % d) * P                     -- tmp = (value - whole) * pow10_[prec]
  let frac := tn / d                        -- frac = (uint32_t) tmp
  let r := tn % d                           -- diff = tmp - frac
  if 2 * r > d then                         -- diff > 0.5
    if frac + 1 ≥ P then (0, whole + 1)     -- ++frac; if (frac >= pow10_[prec]) { frac = 0; ++whole; }
    else (frac + 1, whole)
  else if 2 * r = d ∧ (frac = 0 ∨ frac % 2 = 1) then
    -- diff == 0.5 && (frac == 0 || frac & 1): ++frac; if (prec > 0 && frac >= pow10_[prec]) { frac = 0; ++whole; }
    if p0 = true ∧ frac + 1 ≥ P then (0, whole + 1) else (frac + 1, whole)
  else (frac, whole)

/-- `prec == 0` branch: `diff = value - whole` (with the `whole` left by `roundStage`), round half
to even on `whole` -/
def roundWhole0 (a d whole : Nat) : Nat :=
  let df : Int := (a : Int) - (whole : Int) * (d : Int)      -- diff = df / d
  if 2 * df > (d : Int) then whole + 1
  else if 2 * df = (d : Int) ∧ whole % 2 = 1 then whole + 1
  else whole

/-- `modp_dtoa(n/d, str, prec)`: the characters of `str`, or `none` where the code leaves the
modelled path (`value > thres_max`: `sprintf("%e")`).  NaN/±inf are not values of the model. -/
def dtoa (n : Int) (d : Nat) (prec : Int) : Option (List Nat) :=
  let p := clampPrec prec
  let neg : Bool := decide (n < 0)          -- if (value < 0) { neg = 1; value = -value; }
  let a := n.natAbs
  let fw := roundStage a d (pow10 p) (decide (p > 0))
  if a > dtoaThresMax * d then none         -- if (value > thres_max) return sprintf(str, "%e", ...)
  else
    let sign : List Nat := if neg then [45] else []
    if p = 0 then
      some ((digitsRev (roundWhole0 a d fw.2) ++ sign).reverse)
    else
      some ((emitFrac p fw.1 ++ [46] ++ digitsRev fw.2 ++ sign).reverse)   -- strreverse(str, wstr-1)

/-- every value stored into the `int whole` (first list) and the `uint32_t frac` (second list)
during the call -/
def dtoaInts (n : Int) (d : Nat) (prec : Int) : List Nat × List Nat :=
  let p := clampPrec prec
  let a := n.natAbs
  let fw := roundStage a d (pow10 p) (decide (p > 0))
  ([a / d, fw.2] ++ (if p = 0 then [roundWhole0 a d fw.2] else []),
   [(a % d) * pow10 p / d, (a % d) * pow10 p / d + 1, fw.1])

/-! ### fast_atof -/

/-- result of `fast_atof` in exact arithmetic: the decimal `m / 10^e` -/
structure Dec where
  m : Int
  e : Nat
deriving DecidableEq, Repr

/-- the two decimals denote the same number -/
def Dec.eqv (x y : Dec) : Prop := x.m * (10 : Int) ^ y.e = y.m * (10 : Int) ^ x.e

instance (x y : Dec) : Decidable (x.eqv y) := by unfold Dec.eqv; infer_instance

/-- `isspace` in the C locale -/
def isSpace (c : Nat) : Bool := c == 32 || (9 ≤ c && c ≤ 13)
/-- `isdigit` -/
def isDigit (c : Nat) : Bool := 48 ≤ c && c ≤ 57

/-- `while (isdigit(*p)) { value = value * 10. + (*p - '0'); ++p; }` -/
def intLoop : Nat → List Nat → Nat × List Nat
  | v, [] => (v, [])
  | v, c :: cs => if isDigit c then intLoop (v * 10 + (c - 48)) cs else (v, c :: cs)

/-- `while (isdigit(*p)) { value += (*p - '0') / mpow10; mpow10 *= 10.; ++p; }` with
`value = m / 10^e` and `mpow10 = 10^(e+1)` -/
def fracDigits : Nat → Nat → List Nat → Nat × Nat × List Nat
  | m, e, [] => (m, e, [])
  | m, e, c :: cs => if isDigit c then fracDigits (m * 10 + (c - 48)) (e + 1) cs else (m, e, c :: cs)

/-- `while (isdigit(*p)) { expon = expon * 10 + (*p - '0'); ++p; }` on `unsigned int` -/
def expLoop : Nat → List Nat → Nat × List Nat
  | x, [] => (x, [])
  | x, c :: cs => if isDigit c then expLoop ((x * 10 + (c - 48)) % 4294967296) cs else (x, c :: cs)

/-- optional sign: `(negative?, rest)` -/
def takeSign : List Nat → Bool × List Nat
  | 45 :: r => (true, r)
  | 43 :: r => (false, r)
  | s => (false, s)

/-- optional fraction after the integer digits -/
def takeFrac (v : Nat) : List Nat → Nat × Nat × List Nat
  | 46 :: r => fracDigits v 0 r
  | s => (v, 0, s)

/-- optional exponent: `toupper(*p) == 'E'`, sign, digits, clamp to 308, `scale = 10^expon`,
`frac ? value / scale : value * scale` -/
def takeExp (m e : Nat) : List Nat → Nat × Nat
  | c :: r =>
    if c = 69 ∨ c = 101 then
      let sg := takeSign r
      let x := min (expLoop 0 sg.2).1 atofMaxExp
      if sg.1 then (m, e + x) else (m * 10 ^ x, e)
    else (m, e)
  | [] => (m, e)

/-- `fast_atof(p)` on a NUL-free 7-bit string; whatever follows the recognised prefix is ignored -/
def atof (s : List Nat) : Dec :=
  let s := s.dropWhile isSpace
  let sg := takeSign s
  let il := intLoop 0 sg.2
  let fr := takeFrac il.1 il.2
  let me := takeExp fr.1 fr.2.1 fr.2.2
  ⟨if sg.1 then -(me.1 : Int) else (me.1 : Int), me.2⟩

/-! ### reference: canonical decimal text -/

/-- the `p` low decimal digits of `F`, least significant first -/
def padRev : Nat → Nat → List Nat
  | 0, _ => []
  | p + 1, F => (48 + F % 10) :: padRev p (F / 10)

/-- fraction digits of `F / 10^p` without trailing zeros, but at least one digit -/
def canonFrac (p F : Nat) : List Nat :=
  let s := (padRev p F).dropWhile (· == 48)
  (if s.isEmpty then [48] else s).reverse

/-- canonical text of `k / 10^p` at precision `p`: whole part without leading zeros; for `p > 0` a
point and the fraction digits without trailing zeros (`5.0`, `12.25`, `0.5`); for `p = 0` no point -/
def canonAbs (k p : Nat) : List Nat :=
  natDigits (k / 10 ^ p) ++ (if p = 0 then [] else 46 :: canonFrac p (k % 10 ^ p))

def signedText (neg : Bool) (k p : Nat) : List Nat := (if neg then [45] else []) ++ canonAbs k p

/-- canonical text of the decimal `m / 10^p` -/
def canonText (m : Int) (p : Nat) : List Nat := signedText (decide (m < 0)) m.natAbs p

/-- the rounding the code performs, as a function of the exact value `a / d ≥ 0`: `J` is the floor
of `a·10^p / d`, `r` the remainder.  Above a half: up.  Exactly a half: to the even neighbour,
EXCEPT that for `p > 0` a tie whose fraction digits are all zero (`J % 10^p = 0`) goes up. -/
def roundK (a d p : Nat) : Nat :=
  let J := a * 10 ^ p / d
  let r := a * 10 ^ p % d
  if 2 * r > d then J + 1
  else if 2 * r = d ∧ (J % 2 = 1 ∨ (p ≠ 0 ∧ J % 10 ^ p = 0)) then J + 1
  else J

end Fix8Model.Decimal
