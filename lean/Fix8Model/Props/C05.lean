import Fix8Model.Codec.SectionLemmas
import Fix8Model.Codec.Demo
/-!
C05 – Permissive decoding passes unknown fields through unchanged.

The property as stated is FALSE of the code (witnesses at the end): every permissive decode hands the rest of the
message to the header's `_unknown`, so re-encoding duplicates body and trailer; and an unknown field in the header
followed by a known header field moves the start of the body to the end of the message.
Proved: a simulation between the strict and the permissive run of `MessageBase::decode` on the same bytes – the
known fields found in strict mode are found in permissive mode with the same values, in the same order, as a
prefix of each section; and when permissive mode finds no additional known field the three sections are identical.
-/
namespace Fix8Model.Props.C05
open Fix8Model Fix8Model.Codec

/- FULL STATEMENT of C05 (FALSE on the current tree):
     theorem C05_permissive_passthrough (S) (b0 b) (h : b = b0 with unknown tag=value tokens inserted) (m0) (h0 : factory S false b0 = .ok m0) :
       ∃ m, factory S true b = .ok m ∧ knownFields m = knownFields m0 ∧ encodeMsg S _ m = b
   Witnesses: `C05_finding_handover` (re-encoding duplicates body and trailer even with NO unknown token),
   `C05_finding_unknown_in_header` (a message deviating by one unknown tag is rejected), `C05_finding_known_field_lost`
   (permissive mode loses a known field that strict mode decodes).
   Proved instead: on the SAME bytes the permissive run extends the strict run section by section
   (`C05_header_fields_kept`, `C05_body_fields_kept`, `C05_section_simulation`), and `C05_known_fields_same`: equal
   item counts ⇒ identical header, body, trailer.  The count hypotheses cannot be dropped (third witness).
   NOT proved: the comparison of permissive(b with unknown tokens) with strict(b without them) – it needs a token-level
   removal function and its commutation with the offsets; the byte-for-byte re-emission clause is false. -/

/-- simulation, header: on the same bytes the permissive decoder finds every header field the strict decoder finds,
with the same value and in the same order; it may find more (known header fields after the first foreign tag) -/
theorem C05_header_fields_kept (S : Schema) (b : Bytes) (m m' : Msg)
    (hs : factory S false b = .ok m) (hp : factory S true b = .ok m') :
    ∃ extra, m'.header = m.header ++ extra := by
  obtain ⟨run⟩ := factory_ok_inv S false b m hs
  obtain ⟨run'⟩ := factory_ok_inv S true b m' hp
  obtain ⟨a1, a2, a3, a4⟩ := runs_agree run run'
  have dh' := run'.dh
  rw [a1] at dh'
  obtain ⟨extra, e1, _⟩ := section_sim S S.header _ _ _ _ _ none _ _ rfl run.dh dh'
  refine ⟨extra, ?_⟩
  rw [run.hdr, run'.hdr, e1, a2, a3]
  simp

/-- simulation, body: when permissive mode found no additional header field, the body decode starts at the same
offset and finds every body field the strict decoder finds (same values, same order), possibly more -/
theorem C05_body_fields_kept (S : Schema) (b : Bytes) (m m' : Msg)
    (hs : factory S false b = .ok m) (hp : factory S true b = .ok m') (hh : m'.header.length = m.header.length) :
    m'.header = m.header ∧ ∃ extra, m'.body = m.body ++ extra := by
  obtain ⟨run⟩ := factory_ok_inv S false b m hs
  obtain ⟨run'⟩ := factory_ok_inv S true b m' hp
  obtain ⟨a1, a2, a3, a4⟩ := runs_agree run run'
  have dh' := run'.dh
  rw [a1] at dh'
  obtain ⟨extra, e1, e2⟩ := section_sim S S.header _ _ _ _ _ none _ _ rfl run.dh dh'
  have hex : extra = [] := by
    rw [run.hdr, run'.hdr, e1] at hh
    simp only [List.length_append, List.length_cons, List.length_nil] at hh
    exact List.eq_nil_of_length_eq_zero (by omega)
  subst hex
  obtain ⟨k1, _⟩ := e2 rfl
  have db' := run'.db
  rw [a4, k1] at db'
  obtain ⟨extra, f1, _⟩ := section_sim S run.bodyTs _ _ _ _ _ none _ _ rfl run.db db'
  refine ⟨?_, extra, ?_⟩
  · rw [run.hdr, run'.hdr, e1, a2, a3]; simp
  · rw [run.bdy, run'.bdy, f1]

/-- C05, the part that holds: if both modes accept the same bytes and permissive mode finds no additional known
field (same number of items per section), then header, body and trailer of the permissive result equal those of the
strict result – every known field decodes to the same value it has in strict mode, none is lost.
(Without the three count hypotheses the statement is false: `C05_finding_known_field_lost`.) -/
theorem C05_known_fields_same (S : Schema) (b : Bytes) (m m' : Msg)
    (hs : factory S false b = .ok m) (hp : factory S true b = .ok m')
    (hh : m'.header.length = m.header.length) (hb : m'.body.length = m.body.length)
    (ht : m'.trailer.length = m.trailer.length) :
    m'.msgType = m.msgType ∧ m'.header = m.header ∧ m'.body = m.body ∧ m'.trailer = m.trailer := by
  obtain ⟨run⟩ := factory_ok_inv S false b m hs
  obtain ⟨run'⟩ := factory_ok_inv S true b m' hp
  obtain ⟨a1, a2, a3, a4⟩ := runs_agree run run'
  have dh' := run'.dh
  rw [a1] at dh'
  obtain ⟨extra, e1, e2⟩ := section_sim S S.header _ _ _ _ _ none _ _ rfl run.dh dh'
  have hex : extra = [] := by
    rw [run.hdr, run'.hdr, e1] at hh
    simp only [List.length_append, List.length_cons, List.length_nil] at hh
    exact List.eq_nil_of_length_eq_zero (by omega)
  subst hex
  obtain ⟨k1, _⟩ := e2 rfl
  have db' := run'.db
  rw [a4, k1] at db'
  obtain ⟨extra, f1, f2⟩ := section_sim S run.bodyTs _ _ _ _ _ none _ _ rfl run.db db'
  have hex : extra = [] := by
    rw [run.bdy, run'.bdy, f1] at hb
    simp only [List.length_append] at hb
    exact List.eq_nil_of_length_eq_zero (by omega)
  subst hex
  obtain ⟨k2, _⟩ := f2 rfl
  have dt' := run'.dt
  rw [k2] at dt'
  obtain ⟨extra, g1, _⟩ := section_sim S S.trailer _ _ _ _ _ none _ _ rfl run.dt dt'
  have hex : extra = [] := by
    rw [run.trl, run'.trl, g1] at ht
    simp only [List.length_append, List.length_take, List.length_drop, List.length_cons, List.length_nil] at ht
    exact List.eq_nil_of_length_eq_zero (by omega)
  subst hex
  refine ⟨a3, ?_, ?_, ?_⟩
  · rw [run.hdr, run'.hdr, e1, a2, a3]; simp
  · rw [run.bdy, run'.bdy, f1]; simp
  · rw [run.trl, run'.trl, g1]; simp

/-- the section-level simulation the three theorems rest on (one `MessageBase::decode` call): same input, same
state; the permissive result extends the strict one, and if it adds nothing it returns the same offset -/
theorem C05_section_simulation (S : Schema) (ts : List Trait) (fuel : Nat) (inp : Bytes) (items : List Item)
    (seen : List Nat) (unk : Bytes) (r r' : SecResult)
    (hs : decodeSection S ts false fuel inp items seen unk none = .ok r)
    (hp : decodeSection S ts true fuel inp items seen unk none = .ok r') :
    ∃ extra, r'.items = r.items ++ extra ∧ (extra = [] → r'.rest = r.rest ∧ r'.seen = r.seen) :=
  section_sim S ts fuel inp items seen unk none r r' rfl hs hp

/-! ## non-vacuity and witnesses -/

/-- a conforming message: both modes accept, the hypotheses of `C05_known_fields_same` hold -/
example : ∃ m m', factory demoSchema false inPlain = .ok m ∧ factory demoSchema true inPlain = .ok m' ∧
    m'.header.length = m.header.length ∧ m'.body.length = m.body.length ∧ m'.trailer.length = m.trailer.length :=
  ⟨_, _, rfl, rfl, by decide, by decide, by decide⟩

/-- an unknown tag inside the body: permissive mode keeps the known field after it (strict mode drops it – C04) -/
example : decoded (factory demoSchema false inUnkBody) = some ([(49, [65])], [(112, [89])], [(10, [49, 48, 53])]) ∧
    decoded (factory demoSchema true inUnkBody) = some ([(49, [65])], [(112, [89]), (54, [49])], [(10, [49, 48, 53])]) :=
  ⟨by decide, by decide⟩

/-- KNOWN FINDING `permissive-section-handover`: the header's decoder does not stop at the first field foreign to
the header; in permissive mode it takes EVERYTHING that follows as unknown.  For the conforming message
`8=F|9=0|35=0|49=A|112=Y|54=1|10=040|` (no unknown tag at all) the decoded header keeps `112=Y|54=1|10=040|` and the
body keeps `10=040|` as unknown bytes, which `encode` appends again: the re-encoded message is not the input. -/
theorem C05_finding_handover :
    unknowns (factory demoSchema true inPlain) =
      some ([49, 49, 50, 61, 89, 1, 53, 52, 61, 49, 1, 49, 48, 61, 48, 52, 48, 1], [49, 48, 61, 48, 52, 48, 1], []) ∧
    unknowns (factory demoSchema false inPlain) = some ([], [], []) ∧
    -- re-encoded: `8=F|9=46|35=0|49=A|112=Y|54=1|10=040|112=Y|54=1|10=040|10=203|`
    (factory demoSchema true inPlain).toOption.map (encodeMsg demoSchema (demoSchema.msgs.headD ([], [])).2) =
      some [56, 61, 70, 1, 57, 61, 52, 54, 1, 51, 53, 61, 48, 1, 52, 57, 61, 65, 1, 49, 49, 50, 61, 89, 1, 53, 52, 61, 49, 1,
            49, 48, 61, 48, 52, 48, 1, 49, 49, 50, 61, 89, 1, 53, 52, 61, 49, 1, 49, 48, 61, 48, 52, 48, 1, 49, 48, 61, 50, 48, 51, 1] :=
  ⟨by decide, by decide, by decide +kernel⟩

/-- KNOWN FINDING `permissive-unknown-in-header`: an unknown field inside the header followed by a known header
field: the remembered offset is dropped (`last_valid_pos != pos`), the body decode starts at the end of the message,
and a message that only deviates by one unknown tag is REJECTED with MissingMandatoryField (the same message
without `999=X|` is accepted in both modes) -/
theorem C05_finding_unknown_in_header :
    errorOf (factory demoSchema true inUnkHdr1) = some (.missingMandatory 58) ∧
    decoded (factory demoSchema true inHdr1) = some ([(49, [65]), (50, [66])], [(58, [84])], [(10, [48, 49, 48])]) ∧
    decoded (factory demoSchema false inHdr1) = some ([(49, [65]), (50, [66])], [(58, [84])], [(10, [48, 49, 48])]) :=
  ⟨by decide, by decide, by decide⟩

/-- the same class where both modes accept: permissive mode LOSES the known body field `112=Y` that strict mode
decodes (it ends up in the header's unknown bytes) – "permissive mode never causes a known field to be lost" is
false, and `C05_known_fields_same` needs its hypotheses -/
theorem C05_finding_known_field_lost :
    decoded (factory demoSchema false inMisplaced) = some ([(49, [65])], [(112, [89])], [(10, [48, 49, 51])]) ∧
    decoded (factory demoSchema true inMisplaced) = some ([(49, [65]), (50, [66])], [], [(10, [48, 49, 51])]) :=
  ⟨by decide, by decide⟩

/-- KNOWN FINDING `permissive-unknown-in-group`: an unknown field inside a repeating-group element ends the whole
group; the rest of that element (`65=b`) and the following element (`55=c`) are not decoded – they are tags foreign
to the body and go to the unknown bytes: the group keeps 1 of its 2 elements -/
theorem C05_finding_unknown_in_group :
    (factory demoSchema true inUnkGroup).toOption.map (fun m => (m.body.map (·.tag), m.bUnknown)) =
      some ([146, 112], [57, 57, 57, 61, 88, 1, 54, 53, 61, 98, 1, 53, 53, 61, 99, 1, 49, 48, 61, 49, 56, 55, 1]) ∧
    ∃ m, factory demoSchema true inUnkGroup = .ok m ∧
      m.body = [.grp 146 [50] [[.fld 55 [97]]], .fld 112 [89]] :=
  ⟨by decide, _, rfl, rfl⟩
end Fix8Model.Props.C05
