import Fix8Model.Props.C16Base
import Fix8Model.Session.Ext
/-!
C16 for the extended event set (`Sess.stepX`): application retransmissions (alone and anywhere inside a batch, in
particular at its tail) and application sends whose socket write fails.  Same statements as `C16_step` / `C16_run` /
`C16_consecutive` / `C16_control_history`, now for every history over `EvX`.
-/
namespace Fix8Model.Props.C16
open Fix8Model.Session Fix8Model.Store

def PlainEvX : EvX → Prop
  | .base ev => PlainEv ev
  | _ => True

def RenumbersX : EvX → Prop
  | .base ev => Renumbers ev
  | _ => False

private theorem ctrlS_of' {s : Sess} {st : SpecG Rec} {a b : Nat} (h1 : s.store = some st) (h2 : st.ctrl = some (a, b)) : ctrlS s = a := by
  simp [ctrlS, h1, h2]

/-- **C16, one extended step** -/
theorem C16X_step (s : Sess) (ev : EvX) (hg : Good s) (hp : PlainEvX ev) :
    Good (s.stepX ev).1 ∧
    ∃ k, newSeqs (s.stepX ev).2 = List.range' (ctrlS s) k ∧ ctrlS s + k ≤ ctrlS (s.stepX ev).1 ∧
      (¬ RenumbersX ev → ctrlS (s.stepX ev).1 = ctrlS s + k) := by
  have idle : Good s ∧ ∃ k, newSeqs ([] : List Session.Out) = List.range' (ctrlS s) k ∧ ctrlS s + k ≤ ctrlS s ∧ (¬ RenumbersX ev → ctrlS s = ctrlS s + k) :=
    ⟨hg, 0, rfl, by omega, fun _ => rfl⟩
  cases ev with
  | base e => exact C16_step s e hg hp
  | wfail p => exact idle
  | fwd p k =>
    simp only [Sess.stepX]
    split
    · obtain ⟨hb, hs, st, a, b, hst, hctrl, hact⟩ := hg
      obtain ⟨e1, e2⟩ := sendProcess_dup s p k true
      rw [e1, e2]
      refine ⟨⟨rfl, hs, st, a, b, hst, hctrl, hact⟩, 0, ?_, by simp [ctrlS], fun _ => by simp [ctrlS]⟩
      rw [hb]; simp [newSeqs, fwdFrame]
    · exact idle
  | dbatch els =>
    simp only [Sess.stepX]
    split
    · rename_i hact2
      cases els with
      | nil => exact idle
      | cons e es =>
        obtain ⟨hb, hs, st, a, b, hst, hctrl, hact⟩ := hg
        have hns : a = s.ns := hact hact2.2
        have hc : ctrlS s = a := ctrlS_of' hst hctrl
        obtain ⟨h1, h2, h3, h4, h5, h6, h7, h8⟩ := sendBatchX_spec (e :: es) s (by simp)
        obtain ⟨st', hs', hc'⟩ := h5 st hst
        have hcs : ctrlS (sendBatchX s (e :: es)).1 = s.ns + cntNew (e :: es) := by
          by_cases hz : cntNew (e :: es) = 0
          · rw [hz] at hc' ⊢; simp at hc'
            rw [ctrlS_of' hs' (hc'.trans hctrl)]; omega
          · rw [if_neg hz] at hc'; exact ctrlS_of' hs' hc'
        refine ⟨⟨h4, h6.1.trans hs, st', s.ns + cntNew (e :: es), (if cntNew (e :: es) = 0 then b else s.nr), hs', ?_, fun _ => h2.symm⟩,
          cntNew (e :: es), ?_, by rw [hcs, hc, hns]; exact Nat.le_refl _, fun _ => by rw [hcs, hc, hns]⟩
        · by_cases hz : cntNew (e :: es) = 0
          · rw [hz] at hc' ⊢; simp at hc' ⊢; rw [hc', hctrl, hns]
          · rw [if_neg hz] at hc' ⊢; exact hc'
        · rw [h1, hb, hc, hns]; rfl
    · exact idle

/-- **C16 over extended histories, numbering** -/
theorem C16X_run (h : List EvX) : ∀ (s : Sess), Good s → (∀ ev ∈ h, PlainEvX ev) →
    Good (s.runX h).1 ∧
    (newSeqs (s.runX h).2).Pairwise (· < ·) ∧
    (∀ x ∈ newSeqs (s.runX h).2, ctrlS s ≤ x ∧ x < ctrlS (s.runX h).1) ∧
    ctrlS s ≤ ctrlS (s.runX h).1 ∧
    ((∀ ev ∈ h, ¬ RenumbersX ev) →
      newSeqs (s.runX h).2 = List.range' (ctrlS s) (ctrlS (s.runX h).1 - ctrlS s)) := by
  induction h with
  | nil =>
    intro s hg _
    simp only [Sess.runX, newSeqs]
    refine ⟨hg, List.Pairwise.nil, ?_, Nat.le_refl _, ?_⟩
    · intro x hx; cases hx
    · intro _; simp
  | cons ev rest ih =>
    intro s hg hp
    obtain ⟨g1, k, n1, n2, n3⟩ := C16X_step s ev hg (hp ev (List.mem_cons_self))
    obtain ⟨i1, i2, i3, i4, i5⟩ := ih (s.stepX ev).1 g1 (fun e he => hp e (List.mem_cons_of_mem _ he))
    simp only [Sess.runX]
    rw [newSeqs_append, n1]
    refine ⟨i1, ?_, ?_, by omega, ?_⟩
    · rw [List.pairwise_append]
      refine ⟨List.pairwise_lt_range', i2, ?_⟩
      intro x hx y hy
      rw [List.mem_range'_1] at hx
      have := (i3 y hy).1
      omega
    · intro x hx
      rcases List.mem_append.mp hx with hx | hx
      · rw [List.mem_range'_1] at hx; omega
      · have := i3 x hx; omega
    · intro hr
      have e1 := n3 (hr ev (List.mem_cons_self))
      rw [i5 (fun e he => hr e (List.mem_cons_of_mem _ he)), e1]
      obtain ⟨d, hd⟩ := Nat.exists_eq_add_of_le i4
      rw [hd, e1, show ctrlS s + k + d - (ctrlS s + k) = d by omega, show ctrlS s + k + d - ctrlS s = k + d by omega,
        List.range'_append_1]

/-- **C16, consecutive, extended histories**: after the first start over a fresh persister, ANY history of plain sends,
batches, retransmissions alone or inside batches, failing socket writes, inbound traffic and restarts (no ResendRequest
to answer): the new messages of the whole run carry exactly `first, first+1, …`. -/
theorem C16X_consecutive (cfg : Cfg) (code : Code) (ss rs : Nat) (rest : List EvX)
    (hp : ∀ ev ∈ rest, PlainEvX ev) (hr : ∀ ev ∈ rest, ¬ RenumbersX ev) :
    ∃ n, newSeqs ((Sess.init cfg code true).runX (.base (.start ss rs) :: rest)).2 = List.range' (if ss ≠ 0 then ss else 1) n := by
  obtain ⟨g, n, c⟩ := first_start cfg code ss rs
  obtain ⟨_, _, _, i4, i5⟩ := C16X_run rest _ g hp
  have e := i5 hr
  refine ⟨1 + (ctrlS ((((Sess.init cfg code true).step (.start ss rs)).1).runX rest).1 - ((if ss ≠ 0 then ss else 1) + 1)), ?_⟩
  simp only [Sess.runX, Sess.stepX]
  rw [newSeqs_append, n, e, c, ← List.range'_append_1]
  rfl

/-- no two new messages share a number, with ResendRequests allowed -/
theorem C16X_no_repeats (cfg : Cfg) (code : Code) (ss rs : Nat) (rest : List EvX) (hp : ∀ ev ∈ rest, PlainEvX ev) :
    (newSeqs ((Sess.init cfg code true).runX (.base (.start ss rs) :: rest)).2).Pairwise (· < ·) := by
  obtain ⟨g, n, c⟩ := first_start cfg code ss rs
  obtain ⟨_, i2, i3, _, _⟩ := C16X_run rest _ g hp
  simp only [Sess.runX, Sess.stepX]
  rw [newSeqs_append, n, List.pairwise_append]
  refine ⟨List.pairwise_singleton _ _, i2, ?_⟩
  intro x hx y hy
  rw [List.mem_singleton] at hx; subst hx
  have := (i3 y hy).1
  omega

/-! ### the control record -/

def CtrlExcludedX (s : Sess) : EvX → Prop
  | .base ev => CtrlExcluded s ev
  | _ => False

/-- **C16, control record, one extended step**: a retransmission, a batch of any mix (also one ending with retransmissions)
and a failed write leave the control record equal to (next send, next receive) -/
theorem C16X_control_step (s : Sess) (ev : EvX) (hb : s.buf = []) (hc : CtrlOK s) (hx : ¬ CtrlExcludedX s ev) :
    CtrlOK (s.stepX ev).1 ∧ (s.stepX ev).1.buf = [] := by
  cases ev with
  | base e => exact C16_control_step s e hb hc hx
  | wfail p => exact ⟨hc, hb⟩
  | fwd p k =>
    simp only [Sess.stepX]
    split
    · obtain ⟨e1, _⟩ := sendProcess_dup s p k true
      rw [e1]; exact ⟨hc, rfl⟩
    · exact ⟨hc, hb⟩
  | dbatch els =>
    simp only [Sess.stepX]
    split
    · cases els with
      | nil => exact ⟨hc, hb⟩
      | cons e es =>
        obtain ⟨h1, h2, h3, h4, h5, h6, h7, h8⟩ := sendBatchX_spec (e :: es) s (by simp)
        refine ⟨?_, h4⟩
        intro st' hst'
        cases hs : s.store with
        | none => have := h6.2; rw [hs, hst'] at this; cases this
        | some st =>
          obtain ⟨st2, hs2, hc2⟩ := h5 st hs
          rw [hs2] at hst'; cases hst'
          rw [hc2, h2, h3]
          by_cases hz : cntNew (e :: es) = 0
          · simp [hz]; exact hc st hs
          · simp [hz]
    · exact ⟨hc, hb⟩

def AlongX (P : Sess → EvX → Prop) : Sess → List EvX → Prop
  | _, [] => True
  | s, ev :: rest => P s ev ∧ AlongX P (s.stepX ev).1 rest

theorem C16X_control_history (h : List EvX) : ∀ (s : Sess), s.buf = [] → CtrlOK s →
    AlongX (fun s ev => ¬ CtrlExcludedX s ev) s h → CtrlOK (s.runX h).1 := by
  induction h with
  | nil => intro s _ hc _; exact hc
  | cons ev rest ih =>
    intro s hb hc ha
    obtain ⟨c1, b1⟩ := C16X_control_step s ev hb hc ha.1
    exact ih _ b1 c1 ha.2

/-! ### non-vacuity: the history of the missed seed C16-2 (a batch ending with a retransmission, then a restart) -/

example : newSeqs ((Sess.init cfg0 Code.fixed true).runX
    [.base (.start 0 0), .base (.inbound (some 1) (.ok (logonReply 1))), .base (.appSend 7 0 false),
     .dbatch [.new 8, .new 9, .dup 7 2], .wfail 10, .fwd 7 2, .base (.start 0 0), .base (.appSend 11 0 false)]).2
    = [1, 2, 3, 4, 5, 6] := by decide

example : CtrlOK ((Sess.init cfg0 Code.fixed true).runX
    [.base (.start 0 0), .base (.inbound (some 1) (.ok (logonReply 1))), .base (.appSend 7 0 false),
     .dbatch [.new 8, .new 9, .dup 7 2]]).1 := by
  intro st h
  have : ((Sess.init cfg0 Code.fixed true).runX
    [.base (.start 0 0), .base (.inbound (some 1) (.ok (logonReply 1))), .base (.appSend 7 0 false),
     .dbatch [.new 8, .new 9, .dup 7 2]]).1.store.bind (·.ctrl) = some (5, 2) := by decide
  rw [h] at this; simp at this; rw [this]; decide

end Fix8Model.Props.C16
