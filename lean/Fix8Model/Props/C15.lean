import Fix8Model.Net.FramerSafe
/-!
C15 – Socket reader frames the byte stream exactly.

`read P src` is one call of `FIXReader::read` on a socket whose future `recv` results are the chunks `src`;
`readAll P src` is the reader loop (`FIXReader::execute`, pm_thread): `frames` = what is handed to
`Session::process`, `status` = what ended the loop, `unread` = bytes never taken from the socket.
`P : Params` carries the BeginString, the compiled constants and the form of the two guards in which a repair
would differ (`firstCheck`, `loopExtra`); `current bs` is the code as it is now (generated on every run).
`readF` / `readAllF` are the same reader on an unchunked stream (proved equal below, used to state things
about the rest of a stream).
-/
namespace Fix8Model.Props.C15
open Fix8Model Fix8Model.Net.Framer

/-! ## 0. the configuration -/

/-- the compiled constants and any NUL/SOH-free BeginString of up to 64 bytes satisfy the side conditions -/
theorem C15_current_wf (bs : List Nat) (h1 : 1 ∉ bs) (h0 : 0 ∉ bs) (hl : bs.length ≤ 64) : WFParams (current bs) := by
  constructor
  · exact h1
  · exact h0
  · show bs.length < Gen.readerValBuf; unfold Gen.readerValBuf; omega
  · show 1 < Gen.readerTagBuf; decide
  · show 9 < Gen.readerValBuf; decide
  · show 2 + bs.length + 1 + 3 + Gen.readerChksumSz ≤ Gen.readerMaxMsgLen
    unfold Gen.readerChksumSz Gen.readerMaxMsgLen; omega
  · unfold Params.loopLimit Params.bg current
    simp only [Gen.readerLoopExtra, Gen.readerMaxMsgLen]
    first | exact Nat.le_refl _ | omega
  · unfold Params.loopLimit Params.bg current
    simp only [Gen.readerLoopExtra, Gen.readerMaxMsgLen]
    omega
  · show Gen.readerMaxMsgLen < 18446744073709551616; decide

/-- the reader as found at the base commit (no test of the first length character, digit loop bounded by `_max_msg_len`
only, `extract_element` without bounds tests) -/
def asFound (bs : List Nat) : Params := { current bs with loopExtra := none, firstCheck := false, boundedExtract := false }
/-- the reader with the two repairs proposed here (`extract_element` left as found) -/
def repaired (bs : List Nat) : Params := { current bs with loopExtra := some 9, firstCheck := true, boundedExtract := false }
/-- the reader as found, with the bounds tests in `extract_element` only -/
def boundedOnly (bs : List Nat) : Params := { current bs with loopExtra := none, firstCheck := false, boundedExtract := true }

/-- generated fact: which of the forms the source has now -/
theorem C15_current_flags (bs : List Nat) :
    (current bs).loopExtra = Gen.readerLoopExtra ∧ (current bs).firstCheck = Gen.readerFirstCheck ∧
      (current bs).boundedExtract = Gen.extractBounded := ⟨rfl, rfl, rfl⟩

/-! ## 1. chunking independence -/

/-- ALL streams, ALL chunkings: the whole run (frames handed on, terminal status, unread bytes) depends on the
byte stream only, never on how `recv` delivered it -/
theorem C15_chunking_any (P : Params) (src1 src2 : Src) (h : flat src1 = flat src2) :
    readAll P src1 = readAll P src2 := by
  rw [readAll_flat, readAll_flat, h]

/-- one call: reading over any chunking = reading the unchunked stream; the rest is the same bytes -/
theorem C15_read_chunking (P : Params) (src : Src) : (read P src).mapRest flat = readF P (flat src) :=
  read_flat P src

/-- every valid frame list, every chunking of its concatenation: exactly those frames are handed on, byte-identical
and in order; then the reader finds the end of the stream (PeerResetConnection) with nothing unread -/
theorem C15_chunking {P : Params} (h : WFParams P) (fs : List (List Nat)) (hf : ∀ f ∈ fs, WFFrame P f)
    (src : Src) (hsrc : flat src = fs.flatten) :
    readAll P src = ⟨fs, .err .peerReset, 0⟩ := by
  rw [readAll_flat, hsrc]
  have := readAllF_frames h fs hf []
  rw [List.append_nil] at this
  rw [this, readAllF_nil h]
  simp

/-- the same with anything after the valid frames (garbage, a corrupt preamble, a truncated frame): the valid
frames are handed on first, then the run continues exactly as it would on the rest alone -/
theorem C15_chunking_then {P : Params} (h : WFParams P) (fs : List (List Nat)) (hf : ∀ f ∈ fs, WFFrame P f)
    (tail : List Nat) (src : Src) (hsrc : flat src = fs.flatten ++ tail) :
    readAll P src = ⟨fs ++ (readAllF P tail).frames, (readAllF P tail).status, (readAllF P tail).unread⟩ := by
  rw [readAll_flat, hsrc]
  exact readAllF_frames h fs hf tail

/-- for EVERY stream (valid or not): what has been handed on is, concatenated, a prefix of the stream – no frame is
ever altered, re-ordered, duplicated or made up -/
theorem C15_handed_on_is_prefix (P : Params) (src : Src) :
    ∃ t, flat src = (readAll P src).frames.flatten ++ t := by
  rw [readAll_flat]
  exact runLoopF_prefix P _ _

/-- the loop never runs out of rounds: the terminal status is always an exception or an out-of-range index -/
theorem C15_terminates (P : Params) (src : Src) : (readAll P src).status ≠ .fuel := by
  rw [readAll_flat]; exact readAllF_no_fuel P _

/-- non-vacuity: a two-frame stream for FIX.4.2 (`8=FIX.4.2|9=5|35=0|<7 bytes>`, `...9=05|...`) is well-formed -/
def bs42 : List Nat := [70, 73, 88, 46, 52, 46, 50]
def frameA : List Nat := [56, 61] ++ bs42 ++ [1, 57, 61] ++ [53] ++ [1] ++ [51, 53, 61, 48, 1] ++ [49, 48, 61, 48, 48, 48, 1]
def frameB : List Nat := [56, 61] ++ bs42 ++ [1, 57, 61] ++ [48, 53] ++ [1] ++ [51, 53, 61, 49, 1] ++ [49, 48, 61, 49, 50, 51, 1]

example : WFFrame (current bs42) frameA :=
  ⟨[53], [51, 53, 61, 48, 1], [49, 48, 61, 48, 48, 48, 1], by decide, by decide, by decide, by decide, by decide, by decide, by decide, by decide⟩
example : WFFrame (current bs42) frameB :=
  ⟨[48, 53], [51, 53, 61, 49, 1], [49, 48, 61, 49, 50, 51, 1], by decide, by decide, by decide, by decide, by decide, by decide, by decide, by decide⟩
example : WFParams (current bs42) := C15_current_wf bs42 (by decide) (by decide) (by decide)
/-- the model run on a byte-at-a-time and on a straddling chunking of the two frames -/
example : readAll (current bs42) ((frameA ++ frameB).map fun b => [b]) = ⟨[frameA, frameB], .err .peerReset, 0⟩ := by decide
example : readAll (current bs42) [frameA.take 20, frameA.drop 20 ++ frameB.take 3, [], frameB.drop 3] =
    ⟨[frameA, frameB], .err .peerReset, 0⟩ := by decide

/-! ## 2. corrupt preambles -/

/-- the preamble the property calls valid: "8=" configured BeginString SOH "9=" decimal digits SOH, the number non-zero
and within `_max_msg_len - _bg_sz - _chksum_sz` -/
def ValidPreamble (P : Params) (s : List Nat) : Prop :=
  ∃ ds tail, s = preamble P ++ ds ++ [1] ++ tail ∧ ds ≠ [] ∧ digits ds ∧
    1 ≤ decVal ds ∧ decVal ds ≤ P.maxMsgLen - P.bg - P.chksumSz

/-- known-finding class `first-length-char`: canonical "8=..|9=" then a NON-digit first length character
(`9=:5`, `9=x5`, `9=-5`, `9=<NUL>..`), then digits, SOH -/
def FirstCharClass (P : Params) (s : List Nat) : Prop :=
  ∃ c ds tail, s = preamble P ++ [c] ++ ds ++ [1] ++ tail ∧ isDigit c = false ∧ digits ds

/-- known-finding class `shifted-preamble`: tag "8d" / "9d" (only the first tag character is compared) or a NUL
after the BeginString (C-string comparison), which shift "9=" by one byte so that ALL length characters are read by
the digit loop -/
def ShiftedClass (P : Params) (s : List Nat) : Prop :=
  ∃ d ds tail, digits ds ∧
    ((isDigit d = true ∧ s = [56, d, 61] ++ P.beginStr ++ [1, 57, 61] ++ ds ++ [1] ++ tail) ∨
     (s = [56, 61] ++ P.beginStr ++ [0, 1, 57, 61] ++ ds ++ [1] ++ tail) ∨
     (isDigit d = true ∧ s = [56, 61] ++ P.beginStr ++ [1, 57, d, 61] ++ ds ++ [1] ++ tail))

/-- known-finding class `length-wraps`: an all-digit BodyLength of 2^32 or more (`fast_atoi<unsigned>` wraps) -/
def WrapClass (P : Params) (s : List Nat) : Prop :=
  ∃ ds tail, s = preamble P ++ ds ++ [1] ++ tail ∧ digits ds ∧ 4294967296 ≤ decVal ds

/-- the classes that exist for a given form of the code: the first two only without the first-character test,
the third only if the digit loop can collect more than nine digits -/
def Excluded (P : Params) (s : List Nat) : Prop :=
  (P.firstCheck = false ∧ (FirstCharClass P s ∨ ShiftedClass P s)) ∨ (P.bg + 9 < P.loopLimit ∧ WrapClass P s)

private theorem canon_b {b dsb : List Nat} {X Y : List Nat} (hb : b.length = X.length)
    (e : b ++ dsb = X ++ Y) : b = X ∧ dsb = Y := List.append_inj e hb

/-- WHICH inputs the reader lets pass (goes on to read a body for), precisely: a stream passes only if its
preamble is valid or it is in one of the classes that exist for this form of the code -/
theorem C15_passes_only {P : Params} (h : WFParams P) {s b dsb s2 : List Nat} {mlen : Nat}
    (hp : Passes P s b dsb s2 mlen) : ValidPreamble P s ∨ Excluded P s := by
  obtain ⟨v2, sh, es, lb, hm, hm0, hml, hfc, hdl⟩ := passes_shape h hp
  have hpl := preamble_length P
  have hbg : P.bg = P.beginStr.length + 6 := by unfold Params.bg; omega
  cases hfirst : P.firstCheck with
  | true =>
    have hdig := hfc hfirst
    -- only the canonical shape ends the first `_bg_sz` bytes in a digit
    generalize hto : b ++ dsb = to at sh es
    cases sh with
    | canon c ds hc hds =>
      have e' : b ++ dsb = (preamble P ++ [c]) ++ (ds ++ [1]) := by rw [hto]; simp
      obtain ⟨eb, ed⟩ := canon_b (by rw [lb]; simp only [List.length_append, List.length_singleton]; omega) e'
      rw [eb, getLastD_append_singleton] at hdig
      have hdd : digits (c :: ds) := digits_cons.mpr ⟨hdig, hds⟩
      rw [cstr_of_no_zero (digits_no_zero hdd), atoiU_digits _ hdd] at hm
      by_cases hw : decVal (c :: ds) < 4294967296
      · left
        rw [sizeLimit_eq h] at hml
        refine ⟨c :: ds, s2, by rw [es]; simp, by simp, hdd, by omega, by omega⟩
      · right; right
        refine ⟨?_, c :: ds, s2, by rw [es]; simp, hdd, by omega⟩
        apply Nat.lt_of_not_ge
        intro hge
        rw [ed] at hdl
        simp only [List.length_append, List.length_singleton] at hdl
        have := decVal_lt_of_len hdd (by simp only [List.length_cons]; omega)
        omega
    | tag8 d _ hd hds =>
      have e' : b ++ dsb = ([56, d, 61] ++ P.beginStr ++ [1, 57, 61]) ++ (v2 ++ [1]) := by rw [hto]; simp
      obtain ⟨eb, _⟩ := canon_b (by rw [lb, hbg]; simp only [List.length_append, List.length_cons, List.length_nil]; omega) e'
      have : b.getLastD 0 = 61 := by
        rw [eb]
        have : [56, d, 61] ++ P.beginStr ++ [1, 57, 61] = ([56, d, 61] ++ P.beginStr ++ [1, 57]) ++ [61] := by simp
        rw [this, getLastD_append_singleton]
      rw [this] at hdig; exact absurd hdig (by decide)
    | nul _ hds =>
      have e' : b ++ dsb = ([56, 61] ++ P.beginStr ++ [0, 1, 57, 61]) ++ (v2 ++ [1]) := by rw [hto]; simp
      obtain ⟨eb, _⟩ := canon_b (by rw [lb, hbg]; simp only [List.length_append, List.length_cons, List.length_nil]; omega) e'
      have : b.getLastD 0 = 61 := by
        rw [eb]
        have : [56, 61] ++ P.beginStr ++ [0, 1, 57, 61] = ([56, 61] ++ P.beginStr ++ [0, 1, 57]) ++ [61] := by simp
        rw [this, getLastD_append_singleton]
      rw [this] at hdig; exact absurd hdig (by decide)
    | tag9 d _ hd hds =>
      have e' : b ++ dsb = ([56, 61] ++ P.beginStr ++ [1, 57, d, 61]) ++ (v2 ++ [1]) := by rw [hto]; simp
      obtain ⟨eb, _⟩ := canon_b (by rw [lb, hbg]; simp only [List.length_append, List.length_cons, List.length_nil]; omega) e'
      have : b.getLastD 0 = 61 := by
        rw [eb]
        have : [56, 61] ++ P.beginStr ++ [1, 57, d, 61] = ([56, 61] ++ P.beginStr ++ [1, 57, d]) ++ [61] := by simp
        rw [this, getLastD_append_singleton]
      rw [this] at hdig; exact absurd hdig (by decide)
  | false =>
    generalize hto : b ++ dsb = to at sh es
    cases sh with
    | canon c ds hc hds =>
      cases hdig : isDigit c with
      | false =>
        right; left
        exact ⟨hfirst, Or.inl ⟨c, ds, s2, by rw [es], hdig, hds⟩⟩
      | true =>
        have e' : b ++ dsb = (preamble P ++ [c]) ++ (ds ++ [1]) := by rw [hto]; simp
        obtain ⟨eb, ed⟩ := canon_b (by rw [lb]; simp only [List.length_append, List.length_singleton]; omega) e'
        have hdd : digits (c :: ds) := digits_cons.mpr ⟨hdig, hds⟩
        rw [cstr_of_no_zero (digits_no_zero hdd), atoiU_digits _ hdd] at hm
        by_cases hw : decVal (c :: ds) < 4294967296
        · left
          rw [sizeLimit_eq h] at hml
          refine ⟨c :: ds, s2, by rw [es]; simp, by simp, hdd, by omega, by omega⟩
        · right; right
          refine ⟨?_, c :: ds, s2, by rw [es]; simp, hdd, by omega⟩
          apply Nat.lt_of_not_ge
          intro hge
          rw [ed] at hdl
          simp only [List.length_append, List.length_singleton] at hdl
          have := decVal_lt_of_len hdd (by simp only [List.length_cons]; omega)
          omega
    | tag8 d _ hd hds =>
      right; left
      exact ⟨hfirst, Or.inr ⟨d, v2, s2, hds, Or.inl ⟨hd, by rw [es]⟩⟩⟩
    | nul _ hds =>
      right; left
      exact ⟨hfirst, Or.inr ⟨0, v2, s2, hds, Or.inr (Or.inl (by rw [es]))⟩⟩
    | tag9 d _ hd hds =>
      right; left
      exact ⟨hfirst, Or.inr ⟨d, v2, s2, hds, Or.inr (Or.inr ⟨hd, by rw [es]⟩)⟩⟩

/-- corrupt preamble (wrong BeginString, malformed first field, non-numeric / zero / oversized BodyLength – anything
that is not a valid preamble) outside the known classes, over any chunking: nothing is handed on; the call ends
with an exception raised in the header stage – PeerResetConnection only if the stream itself ended there (fewer
than `_bg_sz` bytes, or nothing but digits after them) – or, in the overflow class of section 3, with an
out-of-range index -/
theorem C15_reject {P : Params} (h : WFParams P) (src : Src) (hv : ¬ ValidPreamble P (flat src))
    (hx : ¬ Excluded P (flat src)) :
    (∃ bf i, read P src = .oob bf i) ∨
    (∃ e r, read P src = .err e r ∧
      (e = .peerReset → (flat src).length < P.bg ∨ digits ((flat src).drop P.bg))) := by
  rcases readF_stages P (flat src) with ⟨bf, i, h1⟩ | ⟨e, r', h1, h2⟩ | ⟨b, dsb, s2, mlen, hp⟩
  · exact Or.inl ⟨bf, i, read_oob_iff.mpr h1⟩
  · obtain ⟨r, hr, _⟩ := read_err_of_readF h1
    exact Or.inr ⟨e, r, hr, h2⟩
  · rcases C15_passes_only h hp with hh | hh
    · exact absurd hh hv
    · exact absurd hh hx

/-- the run: valid frames, then a corrupt preamble outside the known classes – exactly the valid frames have been
handed on when the reader stops, and it stops with an exception or (overflow class) an out-of-range index -/
theorem C15_reject_run {P : Params} (h : WFParams P) (fs : List (List Nat)) (hf : ∀ f ∈ fs, WFFrame P f)
    (bad : List Nat) (hv : ¬ ValidPreamble P bad) (hx : ¬ Excluded P bad) (src : Src)
    (hsrc : flat src = fs.flatten ++ bad) :
    (readAll P src).frames = fs ∧ ((∃ e, (readAll P src).status = .err e) ∨ (∃ bf i, (readAll P src).status = .oob bf i)) := by
  rw [C15_chunking_then h fs hf bad src hsrc]
  have hb : ∀ m r, readF P bad ≠ .frame m r := by
    intro m r hfr
    obtain ⟨b, dsb, s2, mlen, hp⟩ := readF_frame_passes hfr
    rcases C15_passes_only h hp with hh | hh
    · exact hv hh
    · exact hx hh
  unfold readAllF
  rw [runLoopF]
  cases hr : readF P bad with
  | frame m r => exact absurd hr (hb m r)
  | err e r => simp
  | oob bf i => simp

/-- non-vacuity: a wrong BeginString and `9=0` are corrupt preambles outside every class -/
def badVersion : List Nat := [56, 61, 70, 73, 88, 46, 52, 46, 52, 1, 57, 61, 53, 1, 51, 53, 61, 48, 1]
def badZero : List Nat := [56, 61] ++ bs42 ++ [1, 57, 61, 48, 1, 51, 53, 61, 48, 1]

example : ¬ ValidPreamble (current bs42) badVersion ∧ ¬ Excluded (current bs42) badVersion := by
  refine ⟨?_, ?_⟩
  · rintro ⟨ds, tail, e, _⟩
    simp [badVersion, preamble, current, bs42] at e
  · rintro (⟨_, ⟨c, ds, tail, e, _⟩ | ⟨d, ds, tail, _, ⟨_, e⟩ | e | ⟨_, e⟩⟩⟩ | ⟨_, ds, tail, e, _⟩) <;>
      simp [badVersion, preamble, current, bs42] at e
example : read (current bs42) [badVersion.take 5, badVersion.drop 5] = .err .invalidVersion [[51, 53, 61, 48, 1]] := by
  decide

/-! ## 3. every index written into the fixed buffers -/

/-- `msg_buf[_max_msg_len]` is never indexed out of range, for any stream and chunking -/
theorem C15_msgbuf_inbounds {P : Params} (h : WFParams P) (src : Src) (i : Nat) : read P src ≠ .oob .msg i := by
  intro hr
  exact (readF_oob h (read_oob_iff.mp hr)).1 rfl

/-- the guard for `tag[]` and `val[]`: if the run of digits that follows the first `_bg_sz` bytes is short enough for
the whole header (`_bg_sz` + run + SOH) to fit into the smaller buffer, no index is out of range -/
theorem C15_tagval_inbounds {P : Params} (h : WFParams P) (src : Src)
    (hrun : P.bg + (((flat src).drop P.bg).takeWhile isDigit).length + 1 < min P.tagSz P.valSz) :
    ∀ bf i, read P src ≠ .oob bf i := by
  intro bf i hr
  obtain ⟨_, b, dsb, s2, ds, es, lb, hds, hcase, _, hlen⟩ := readF_oob h (read_oob_iff.mp hr)
  have edrop : (flat src).drop P.bg = dsb ++ s2 := by
    rw [es, ← lb, List.append_assoc]; exact List.drop_left' rfl
  rw [edrop] at hrun
  have hle : ds.length ≤ ((dsb ++ s2).takeWhile isDigit).length := by
    rcases hcase with hc | hc
    · rw [hc, List.append_assoc]; exact digits_prefix_le_run ds _ hds
    · rw [hc]; exact digits_prefix_le_run ds _ hds
  have hdl : dsb.length ≤ ds.length + 1 := by
    rcases hcase with hc | hc
    · rw [hc]; simp
    · rw [hc]; omega
  simp only [List.length_append] at hlen
  rw [Nat.lt_min] at hrun
  omega

/-- non-vacuity of the guard: an ordinary frame satisfies it (run of one digit after the first 13 bytes) -/
example : (current bs42).bg + (((flat [frameA]).drop (current bs42).bg).takeWhile isDigit).length + 1 <
    min (current bs42).tagSz (current bs42).valSz := by decide

/-- with a digit loop bounded below both buffer sizes no stream at all can drive an index out of range -/
theorem C15_bounded_loop_safe {P : Params} (h : WFParams P) (ht : P.loopLimit < P.tagSz) (hv : P.loopLimit < P.valSz)
    (src : Src) : ∀ bf i, read P src ≠ .oob bf i := by
  intro bf i hr
  obtain ⟨_, b, dsb, s2, ds, _, lb, _, _, hdl, hlen⟩ := readF_oob h (read_oob_iff.mp hr)
  have hge := h.loop_ge
  simp only [List.length_append] at hlen
  omega

/-- with the bounds tests in `extract_element` no stream at all can drive an index out of range -/
theorem C15_bounded_extract_safe {P : Params} (h : WFParams P) (hb : P.boundedExtract = true) (src : Src) :
    ∀ bf i, read P src ≠ .oob bf i := by
  intro bf i hr
  obtain ⟨_, b, dsb, s2, ds, _, _, _, _, _, _, hf⟩ := readF_oob h (read_oob_iff.mp hr)
  rw [hb] at hf; cases hf

/-- the repaired form satisfies the second clause at full strength: no class is excluded and no index can leave
its buffer (BeginString up to 16 bytes, i.e. `_bg_sz + 9 < 32`) -/
theorem C15_reject_repaired {P : Params} (h : WFParams P) (hf : P.firstCheck = true) (hl : P.loopExtra = some 9)
    (ht : P.bg + 9 < P.tagSz) (hv : P.bg + 9 < P.valSz) (src : Src) (hnv : ¬ ValidPreamble P (flat src)) :
    ∃ e r, read P src = .err e r ∧ (e = .peerReset → (flat src).length < P.bg ∨ digits ((flat src).drop P.bg)) := by
  have hlim : P.loopLimit = P.bg + 9 := by unfold Params.loopLimit; rw [hl]
  have hx : ¬ Excluded P (flat src) := by
    rintro (⟨h1, _⟩ | ⟨h1, _⟩)
    · rw [hf] at h1; cases h1
    · omega
  rcases C15_reject h src hnv hx with ⟨bf, i, ho⟩ | he
  · exact absurd ho (C15_bounded_loop_safe h (by omega) (by omega) src bf i)
  · exact he

/-- non-vacuity: the repaired FIX.4.2 reader meets every hypothesis of `C15_reject_repaired`, and of `C15_chunking` -/
example : WFParams (repaired bs42) ∧ (repaired bs42).firstCheck = true ∧ (repaired bs42).loopExtra = some 9 ∧
    (repaired bs42).bg + 9 < (repaired bs42).tagSz ∧ (repaired bs42).bg + 9 < (repaired bs42).valSz :=
  ⟨⟨by decide, by decide, by decide, by decide, by decide, by decide, by decide, by decide, by decide⟩, rfl, rfl, by decide, by decide⟩

/-! ## 4. findings: the second clause is FALSE of the reader as found -/

private theorem not_valid_of_prefix {P : Params} {s : List Nat} (h : s.take (preamble P).length ≠ preamble P) :
    ¬ ValidPreamble P s := by
  rintro ⟨ds, tail, e, _⟩
  apply h
  rw [e, List.append_assoc, List.append_assoc]
  exact List.take_left' rfl

private theorem not_valid_of_canon {P : Params} {s v t : List Nat} (e : s = preamble P ++ v ++ [1] ++ t) (h1 : 1 ∉ v)
    (hn : ¬ (v ≠ [] ∧ digits v ∧ 1 ≤ decVal v ∧ decVal v ≤ P.maxMsgLen - P.bg - P.chksumSz)) : ¬ ValidPreamble P s := by
  rintro ⟨ds, tail, e2, a, b, c, d⟩
  rw [e] at e2
  simp only [List.append_assoc, List.singleton_append, List.append_cancel_left_eq] at e2
  obtain ⟨e3, _⟩ := split_unique v t ds tail e2 h1 (digits_no_one b)
  exact hn (e3 ▸ ⟨a, b, c, d⟩)

def xs (n : Nat) : List Nat := List.replicate n 120
def trailer : List Nat := [49, 48, 61, 48, 48, 48, 1]

/-- `8=FIX.4.2|9=:5|` + 105 bytes + trailer: ':' is read as 10, the length as 105 -/
def wColon : List Nat := preamble (asFound bs42) ++ [58, 53] ++ [1] ++ (xs 105 ++ trailer)
/-- `9=4294967301`: 2^32 + 5 is read as 5 -/
def wWrap : List Nat := preamble (asFound bs42) ++ [52, 50, 57, 52, 57, 54, 55, 51, 48, 49] ++ [1] ++ (xs 5 ++ trailer)
/-- `9=-4294967291`: the negative branch of fast_atoi, wrapped to 5 -/
def wMinus : List Nat := preamble (asFound bs42) ++ [45, 52, 50, 57, 52, 57, 54, 55, 50, 57, 49] ++ [1] ++ (xs 5 ++ trailer)
/-- `80=FIX.4.2|9=5|`, `8=FIX.4.2<NUL>|9=5|`, `8=FIX.4.2|90=5|` -/
def wTag8 : List Nat := [56, 48, 61] ++ bs42 ++ [1, 57, 61] ++ [53] ++ [1] ++ (xs 5 ++ trailer)
def wNul : List Nat := [56, 61] ++ bs42 ++ [0, 1, 57, 61] ++ [53] ++ [1] ++ (xs 5 ++ trailer)
def wTag9 : List Nat := [56, 61] ++ bs42 ++ [1, 57, 48, 61] ++ [53] ++ [1] ++ (xs 5 ++ trailer)
/-- forty digits and an SOH; a correct "8=FIX.4.2|9=" followed by 2048 digits and an SOH -/
def wTagOverflow : List Nat := List.replicate 40 49 ++ [1]
def wValOverflow : List Nat := preamble (asFound bs42) ++ List.replicate 2048 49 ++ [1]

/-- class `first-length-char`: a corrupt preamble (non-numeric BodyLength) is accepted and 105 bytes of whatever
follows are handed on as a message -/
theorem C15_finding_first_char :
    ¬ ValidPreamble (asFound bs42) wColon ∧ FirstCharClass (asFound bs42) wColon ∧
      readAllF (asFound bs42) wColon = ⟨[wColon], .err .peerReset, 0⟩ ∧
    ¬ ValidPreamble (asFound bs42) wMinus ∧ FirstCharClass (asFound bs42) wMinus ∧
      readAllF (asFound bs42) wMinus = ⟨[wMinus], .err .peerReset, 0⟩ := by
  have r1 : readAllF (asFound bs42) wColon = ⟨[wColon], .err .peerReset, 0⟩ := by decide +kernel
  have r2 : readAllF (asFound bs42) wMinus = ⟨[wMinus], .err .peerReset, 0⟩ := by decide +kernel
  exact ⟨not_valid_of_canon (v := [58, 53]) rfl (by decide) (by decide),
    ⟨58, [53], xs 105 ++ trailer, rfl, by decide, by decide⟩, r1,
    not_valid_of_canon (v := [45, 52, 50, 57, 52, 57, 54, 55, 50, 57, 49]) rfl (by decide) (by decide),
    ⟨45, [52, 50, 57, 52, 57, 54, 55, 50, 57, 49], xs 5 ++ trailer, rfl, by decide, by decide⟩, r2⟩

/-- class `length-wraps`: an oversized BodyLength (4294967301) is accepted as 5 -/
theorem C15_finding_length_wraps :
    ¬ ValidPreamble (asFound bs42) wWrap ∧ WrapClass (asFound bs42) wWrap ∧
      readAllF (asFound bs42) wWrap = ⟨[wWrap], .err .peerReset, 0⟩ := by
  have r1 : readAllF (asFound bs42) wWrap = ⟨[wWrap], .err .peerReset, 0⟩ := by decide +kernel
  exact ⟨not_valid_of_canon (v := [52, 50, 57, 52, 57, 54, 55, 51, 48, 49]) rfl (by decide) (by decide),
    ⟨[52, 50, 57, 52, 57, 54, 55, 51, 48, 49], xs 5 ++ trailer, rfl, by decide, by decide⟩, r1⟩

/-- class `shifted-preamble`: malformed first / second field accepted -/
theorem C15_finding_shifted :
    ¬ ValidPreamble (asFound bs42) wTag8 ∧ ShiftedClass (asFound bs42) wTag8 ∧
      readAllF (asFound bs42) wTag8 = ⟨[wTag8], .err .peerReset, 0⟩ ∧
    ¬ ValidPreamble (asFound bs42) wNul ∧ ShiftedClass (asFound bs42) wNul ∧
      readAllF (asFound bs42) wNul = ⟨[wNul], .err .peerReset, 0⟩ ∧
    ¬ ValidPreamble (asFound bs42) wTag9 ∧ ShiftedClass (asFound bs42) wTag9 ∧
      readAllF (asFound bs42) wTag9 = ⟨[wTag9], .err .peerReset, 0⟩ := by
  have r1 : readAllF (asFound bs42) wTag8 = ⟨[wTag8], .err .peerReset, 0⟩ := by decide +kernel
  have r2 : readAllF (asFound bs42) wNul = ⟨[wNul], .err .peerReset, 0⟩ := by decide +kernel
  have r3 : readAllF (asFound bs42) wTag9 = ⟨[wTag9], .err .peerReset, 0⟩ := by decide +kernel
  exact ⟨not_valid_of_prefix (by decide), ⟨48, [53], xs 5 ++ trailer, by decide, Or.inl ⟨by decide, rfl⟩⟩, r1,
    not_valid_of_prefix (by decide), ⟨0, [53], xs 5 ++ trailer, by decide, Or.inr (Or.inl rfl)⟩, r2,
    not_valid_of_prefix (by decide), ⟨48, [53], xs 5 ++ trailer, by decide, Or.inr (Or.inr ⟨by decide, rfl⟩)⟩, r3⟩

/-- class `header-overflow`: `tag[32]` is written at index 32 by a run of digits, `val[2048]` at index 2048 by a long
BodyLength text (the guard of `C15_tagval_inbounds` is not vacuous) -/
theorem C15_finding_tag_overflow : readAllF (asFound bs42) wTagOverflow = ⟨[], .oob .tag 32, 0⟩ := by decide +kernel

theorem C15_finding_val_overflow : readF (asFound bs42) wValOverflow = .oob .val 2048 := by decide +kernel

/-- the same inputs on the repaired form: every one is refused in the header stage, nothing is handed on -/
theorem C15_repaired_refuses :
    readAllF (repaired bs42) wColon = ⟨[], .err .illegalMessage, 114⟩ ∧
    readAllF (repaired bs42) wMinus = ⟨[], .err .illegalMessage, 23⟩ ∧
    readAllF (repaired bs42) wWrap = ⟨[], .err .illegalMessage, 13⟩ ∧
    readAllF (repaired bs42) wTag8 = ⟨[], .err .illegalMessage, 14⟩ ∧
    readAllF (repaired bs42) wNul = ⟨[], .err .illegalMessage, 14⟩ ∧
    readAllF (repaired bs42) wTag9 = ⟨[], .err .illegalMessage, 14⟩ ∧
    readAllF (repaired bs42) wTagOverflow = ⟨[], .err .illegalMessage, 19⟩ ∧
    readAllF (repaired bs42) wValOverflow = ⟨[], .err .illegalMessage, 2039⟩ := by
  refine ⟨by decide +kernel, by decide +kernel, by decide +kernel, by decide +kernel, by decide +kernel, by decide +kernel,
    by decide +kernel, by decide +kernel⟩

/-- with the bounds tests alone the two overflow inputs end in IllegalMessage (nothing stored out of range), the other
classes are unchanged -/
theorem C15_bounded_only :
    readAllF (boundedOnly bs42) wTagOverflow = ⟨[], .err .illegalMessage, 0⟩ ∧
    readAllF (boundedOnly bs42) wValOverflow = ⟨[], .err .illegalMessage, 0⟩ ∧
    readAllF (boundedOnly bs42) wColon = ⟨[wColon], .err .peerReset, 0⟩ := by
  refine ⟨by decide +kernel, by decide +kernel, by decide +kernel⟩

end Fix8Model.Props.C15
