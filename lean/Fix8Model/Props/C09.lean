import Fix8Model.Time.Lemmas
/-!
C09 – Date/time field codecs are calendar-correct inverses.
`civilFromDays` stands for libc `gmtime_r`; the harness compares the two on every day of the range.
-/
namespace Fix8Model.Props.C09
open Fix8Model.Time Fix8Model.Gen

/-- 2100-01-01T00:00:00Z -/
def tMax : Nat := 4102444800

theorem day_facts (t : Nat) (ht : t < tMax) :
    let c := civilFromDays (t / 86400)
    daysOfCivil c = t / 86400 ∧ 1970 ≤ c.year ∧ c.year ≤ 2099 ∧ 1 ≤ c.mon ∧ c.mon ≤ 12 ∧ 1 ≤ c.day ∧ c.day ≤ 31
      ∧ civilFromDays (daysOfCivil ⟨c.year, c.mon, 1⟩) = ⟨c.year, c.mon, 1⟩ := by
  have hz : t / 86400 < 47482 := by unfold tMax at ht; omega
  have := day_ok _ hz
  simp only [dayOK, Bool.and_eq_true, beq_iff_eq, decide_eq_true_eq] at this
  obtain ⟨⟨⟨⟨⟨⟨⟨h1, h2⟩, h3⟩, h4⟩, h5⟩, h6⟩, h7⟩, h8⟩ := this
  exact ⟨h1, h2, h3, h4, h5, h6, h7, h8⟩

/-- UTCTimestamp: the text of every instant 1970-01-01 … 2100-01-01 at millisecond precision parses
back to the same instant (milliseconds since the epoch) -/
theorem C09_timestamp (t ms : Nat) (ht : t < tMax) (hms : ms < 1000) :
    dateTimeParse (dateTimeFormat t ms .withMs) = some (ms + t * 1000) := by
  obtain ⟨hd, hy1, hy2, hm1, hm2, hd1, hd2, -⟩ := day_facts t ht
  have hs : t % 86400 < 86400 := Nat.mod_lt _ (by omega)
  rw [fmt_withMs, dateTimeParse_21 _ _ _ _ _ _ _ (by omega) (by omega) (by omega) (by omega) (by omega)
    (by omega) (by omega)]
  simp only [timeToEpoch, hd, secsPerDay, secsPerHour, secsPerMin]
  refine congrArg some ?_
  omega

/-- UTCTimeOnly (HH:MM:SS.sss): round trip of the time of day in milliseconds -/
theorem C09_timeonly (t ms : Nat) (hms : ms < 1000) :
    timeParseOnly (dateTimeFormat t ms .timeWithMs) = some (ms + (t % 86400) * 1000) := by
  have hs : t % 86400 < 86400 := Nat.mod_lt _ (by omega)
  rw [fmt_timeWithMs, timeParseOnly_12 _ _ _ _ (by omega) (by omega) (by omega) (by omega)]
  refine congrArg some ?_
  omega

/-- UTCDateOnly / LocalMktDate (YYYYMMDD): parses back to midnight of the same day -/
theorem C09_dateonly (t ms : Nat) (ht : t < tMax) :
    dateParse (dateTimeFormat t ms .dateOnly) = (t / 86400) * 86400 := by
  obtain ⟨hd, hy1, hy2, hm1, hm2, hd1, hd2, -⟩ := day_facts t ht
  rw [fmt_dateOnly, dateParse_8 _ _ _ (by omega) (by omega) (by omega)]
  unfold timeToEpoch
  rw [hd]
  simp only [secsPerDay, secsPerHour, secsPerMin]
  omega

/-- MonthYear in its 6-character form (YYYYMM): the text parses to the first day of that month and
that instant renders as the same text -/
theorem C09_monthyear (t ms : Nat) (ht : t < tMax) :
    dateTimeFormat (dateParse (dateTimeFormat t ms .shortDateOnly)) 0 .shortDateOnly
      = dateTimeFormat t ms .shortDateOnly := by
  obtain ⟨hd, hy1, hy2, hm1, hm2, hd1, hd2, h1st⟩ := day_facts t ht
  rw [fmt_shortDateOnly t ms, dateParse_6 _ _ (by omega) (by omega)]
  generalize (civilFromDays (t / 86400)).year = y at *
  generalize (civilFromDays (t / 86400)).mon = m at *
  unfold timeToEpoch
  generalize daysOfCivil ⟨y, m, 1⟩ = D at *
  have hq : (D * secsPerDay + 0 * secsPerHour + 0 * secsPerMin + 0) / 86400 = D := by
    simp only [secsPerDay, secsPerHour, secsPerMin]; omega
  rw [fmt_shortDateOnly, hq, h1st]

/-- log stamp: the seconds field is the two digits of `t % 60`, hence always 00..59 -/
theorem C09_logstamp_secs (t ns dp : Nat) :
    (parseDec 2 (logStampSecs t ns dp)).1 = t % 60 ∧ t % 60 < 60 := by
  have h : t % 60 < 10 ^ 2 := by have := Nat.mod_lt t (by omega : 0 < 60); omega
  refine ⟨?_, Nat.mod_lt _ (by omega)⟩
  simp only [logStampSecs]
  split
  · simp only [List.append_assoc]; rw [parseDec_format0 2 _ _ h]
  · have h2 := parseDec_format0 2 (t % 60) [] h
    rw [List.append_nil] at h2; rw [h2]

/-- non-vacuity / sanity: 2040-01-01T00:00:00.000Z lies beyond the 2038 limit of the unfixed code -/
example : (2208988800 : Nat) < tMax ∧ civilFromDays (2208988800 / 86400) = ⟨2040, 1, 1⟩ := by decide

end Fix8Model.Props.C09
