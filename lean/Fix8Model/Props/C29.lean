import Fix8Model.Store.RotationLemmas
/-!
C29 – Log and store rotation keeps generations and stays in bounds.
`n = min rotnum max_rotation` generations are managed; `Name.gen 0 k` is `path.k` (`k = 0`: the live
file), `Name.gen 1 k` the persister's index chain, `Name.other _` any other file; `d.get name` is the
content of a file (`none` = does not exist).
-/
namespace Fix8Model.Props.C29
open Fix8Model.Store.Rotation Fix8Model

/-- rotation never indexes outside its name lists, whatever the configured count -/
theorem C29_log_inbounds (d : Dir) (r : Nat) (a f : Bool) : (logRotate d r a f).oob = false := by
  unfold logRotate
  split
  · have := (down_single r ((nameList 0 r).length - 1) (by rw [nameList_length]; omega) d false).1
    simpa using this
  · rfl

theorem C29_purge_inbounds (d : Dir) (r : Nat) : (purgeRotate d r).oob = false := by
  unfold purgeRotate
  split
  · have := (down_double r ((nameList 0 r).length - 1) (by rw [nameList_length]; omega) d false).1
    simpa using this
  · rfl

/-- the loop part of `logRotate` -/
def logLoop (d : Dir) (r : Nat) (a f : Bool) : LoopSt :=
  if r > 0 ∧ (!a || f) then down [nameList 0 r] (min r Gen.maxRotation) ⟨d, false⟩ else ⟨d, false⟩

theorem logRotate_get (d : Dir) (r : Nat) (a f : Bool) (x : Name) :
    (logRotate d r a f).dir.get x =
      if x = Name.gen 0 0 then some (if a then ((logLoop d r a f).dir.get (Name.gen 0 0)).getD 0 else 0)
      else (logLoop d r a f).dir.get x := by
  unfold logRotate logLoop
  simp only [nameList_length, Nat.add_sub_cancel, get_set]

def purgeLoop (d : Dir) (r : Nat) : LoopSt :=
  if r > 0 then down [nameList 0 r, nameList 1 r] (min r Gen.maxRotation) ⟨d, false⟩ else ⟨d, false⟩

theorem purgeRotate_get (d : Dir) (r : Nat) (x : Name) :
    (purgeRotate d r).dir.get x =
      if x = Name.gen 1 0 then some 0 else if x = Name.gen 0 0 then some 0 else (purgeLoop d r).dir.get x := by
  unfold purgeRotate purgeLoop
  simp only [nameList_length, Nat.add_sub_cancel, get_set]

private theorem gen_ne_live (g k : Nat) (h : k ≠ 0 ∨ g ≠ 0) : ¬ (Name.gen g k = Name.gen 0 0) := by
  intro hh; injection hh; omega

private theorem rot_cond (r : Nat) (a f : Bool) (hr : 0 < r) (hrot : a = false ∨ f = true) :
    (r > 0 ∧ (!a || f) = true) := by
  refine ⟨hr, ?_⟩
  rcases hrot with h | h <;> simp [h]

/-- a rotating logger shifts every existing generation up by one: `path.k` holds what `path.(k-1)` held
(1 ≤ k ≤ n; `path.0` is the live file) -/
theorem C29_log_shift (d : Dir) (r : Nat) (a f : Bool) (hr : 0 < r) (hrot : a = false ∨ f = true)
    (k c : Nat) (hk1 : 1 ≤ k) (hk : k ≤ min r Gen.maxRotation) (hprev : d.get (.gen 0 (k - 1)) = some c) :
    (logRotate d r a f).dir.get (.gen 0 k) = some c := by
  rw [logRotate_get, if_neg (gen_ne_live 0 k (by omega))]
  unfold logLoop
  rw [if_pos (rot_cond r a f hr hrot)]
  have h2 := (down_single r (min r Gen.maxRotation) (Nat.le_refl _) d false).2.1
  have h3 := congrFun h2 k
  have hv : ∀ k, view 0 d k = d.get (.gen 0 k) := fun _ => rfl
  have : ¬ k = 0 := by omega
  change _ = shiftedV (view 0 d) (min r Gen.maxRotation) k at h3
  change (down [nameList 0 r] (min r Gen.maxRotation) ⟨d, false⟩).dir.get (.gen 0 k) = _ at h3
  rw [h3]; unfold shiftedV
  simp [this, hk, hv, hprev]

/-- where the predecessor did not exist the generation below the top is left empty (its own content
moved up), so no content is ever duplicated -/
theorem C29_log_holes (d : Dir) (r : Nat) (a f : Bool) (hr : 0 < r) (hrot : a = false ∨ f = true)
    (k : Nat) (hk1 : 1 ≤ k) (hk : k < min r Gen.maxRotation) (hprev : d.get (.gen 0 (k - 1)) = none) :
    (logRotate d r a f).dir.get (.gen 0 k) = none := by
  rw [logRotate_get, if_neg (gen_ne_live 0 k (by omega))]
  unfold logLoop
  rw [if_pos (rot_cond r a f hr hrot)]
  have h2 := (down_single r (min r Gen.maxRotation) (Nat.le_refl _) d false).2.1
  have h3 := congrFun h2 k
  have hv : ∀ k, view 0 d k = d.get (.gen 0 k) := fun _ => rfl
  change (down [nameList 0 r] (min r Gen.maxRotation) ⟨d, false⟩).dir.get (.gen 0 k) = _ at h3
  rw [h3]; unfold shiftedV
  have h0 : ¬ k = 0 := by omega
  have h1 : k ≤ min r Gen.maxRotation := by omega
  have h4 : ¬ k = min r Gen.maxRotation := by omega
  simp [h0, h1, h4, hv, hprev]

/-- at most `n = min rotnum max_rotation` generations are managed: names above `n`, the other
chain and every other file are untouched -/
theorem C29_log_untouched (d : Dir) (r : Nat) (a f : Bool) :
    (∀ k, min r Gen.maxRotation < k → (logRotate d r a f).dir.get (.gen 0 k) = d.get (.gen 0 k)) ∧
    (∀ g k, g ≠ 0 → (logRotate d r a f).dir.get (.gen g k) = d.get (.gen g k)) ∧
    (∀ i, (logRotate d r a f).dir.get (.other i) = d.get (.other i)) := by
  have hoth : ∀ i, ¬ (Name.other i = Name.gen 0 0) := by intro i h; cases h
  obtain ⟨_, h2, h3, h4⟩ := down_single r (min r Gen.maxRotation) (Nat.le_refl _) d false
  refine ⟨?_, ?_, ?_⟩
  · intro k hk
    rw [logRotate_get, if_neg (gen_ne_live 0 k (by omega))]
    unfold logLoop
    split
    · have h5 := congrFun h2 k
      change (down [nameList 0 r] (min r Gen.maxRotation) ⟨d, false⟩).dir.get (.gen 0 k) = _ at h5
      rw [h5]; unfold shiftedV
      have h0 : ¬ k = 0 := by omega
      have h1 : ¬ k ≤ min r Gen.maxRotation := by omega
      simp only [h0, h1, if_false]; rfl
    · rfl
  · intro g k hg
    rw [logRotate_get, if_neg (gen_ne_live g k (by omega))]
    unfold logLoop
    split
    · exact congrFun (h3 g hg) k
    · rfl
  · intro i
    rw [logRotate_get, if_neg (hoth i)]
    unfold logLoop
    split
    · exact h4 i
    · rfl

/-- append-mode logs are not rotated unless forced (and a count of 0 never rotates): every name keeps its content,
the live file is created empty only if it did not exist -/
theorem C29_log_no_rotation (d : Dir) (r : Nat) (a f : Bool) (h : r = 0 ∨ (a = true ∧ f = false)) (n : Name) :
    (logRotate d r a f).dir.get n =
      if n = Name.gen 0 0 then (if a then some ((d.get n).getD 0) else some 0) else d.get n := by
  have hc : ¬ (r > 0 ∧ (!a || f) = true) := by
    rcases h with h | ⟨h1, h2⟩
    · omega
    · simp [h1, h2]
  rw [logRotate_get]
  unfold logLoop
  rw [if_neg hc]
  by_cases hn : n = Name.gen 0 0
  · subst hn; cases a <;> simp
  · simp [hn]

/-- the live file of a non-append logger is new and empty after the rotation -/
theorem C29_log_live (d : Dir) (r : Nat) (f : Bool) : (logRotate d r false f).dir.get (.gen 0 0) = some 0 := by
  rw [logRotate_get]; simp

/-- file store purge: both chains (data and index) are shifted the same way -/
theorem C29_purge_shift (d : Dir) (r : Nat) (hr : 0 < r) (fam : Nat) (hf : fam = 0 ∨ fam = 1)
    (k c : Nat) (hk1 : 1 ≤ k) (hk : k ≤ min r Gen.maxRotation) (hprev : d.get (.gen fam (k - 1)) = some c) :
    (purgeRotate d r).dir.get (.gen fam k) = some c := by
  have hne0 : ¬ (Name.gen fam k = Name.gen 0 0) := by intro h; injection h; omega
  have hne1 : ¬ (Name.gen fam k = Name.gen 1 0) := by intro h; injection h; omega
  rw [purgeRotate_get, if_neg hne1, if_neg hne0]
  unfold purgeLoop
  rw [if_pos hr]
  obtain ⟨_, h2, h3, _, _⟩ := down_double r (min r Gen.maxRotation) (Nat.le_refl _) d false
  have h0 : ¬ k = 0 := by omega
  have hv : ∀ g k, view g d k = d.get (.gen g k) := fun _ _ => rfl
  rcases hf with hf | hf <;> subst hf
  · have h5 := congrFun h2 k
    change (down [nameList 0 r, nameList 1 r] (min r Gen.maxRotation) ⟨d, false⟩).dir.get (.gen 0 k) = _ at h5
    rw [h5]; unfold shiftedV
    simp [h0, hk, hv, hprev]
  · have h5 := congrFun h3 k
    change (down [nameList 0 r, nameList 1 r] (min r Gen.maxRotation) ⟨d, false⟩).dir.get (.gen 1 k) = _ at h5
    rw [h5]; unfold shiftedV
    simp [h0, hk, hv, hprev]

theorem C29_purge_untouched (d : Dir) (r : Nat) :
    (∀ fam k, min r Gen.maxRotation < k → (purgeRotate d r).dir.get (.gen fam k) = d.get (.gen fam k)) ∧
    (∀ i, (purgeRotate d r).dir.get (.other i) = d.get (.other i)) := by
  obtain ⟨_, h2, h3, h4, h5⟩ := down_double r (min r Gen.maxRotation) (Nat.le_refl _) d false
  refine ⟨?_, ?_⟩
  · intro fam k hk
    have hne0 : ¬ (Name.gen fam k = Name.gen 0 0) := by intro h; injection h; omega
    have hne1 : ¬ (Name.gen fam k = Name.gen 1 0) := by intro h; injection h; omega
    rw [purgeRotate_get, if_neg hne1, if_neg hne0]
    unfold purgeLoop
    split
    · have h0 : ¬ k = 0 := by omega
      have h1 : ¬ k ≤ min r Gen.maxRotation := by omega
      by_cases hf0 : fam = 0
      · subst hf0
        have h6 := congrFun h2 k
        change (down [nameList 0 r, nameList 1 r] (min r Gen.maxRotation) ⟨d, false⟩).dir.get (.gen 0 k) = _ at h6
        rw [h6]; unfold shiftedV; simp only [h0, h1, if_false]; rfl
      · by_cases hf1 : fam = 1
        · subst hf1
          have h6 := congrFun h3 k
          change (down [nameList 0 r, nameList 1 r] (min r Gen.maxRotation) ⟨d, false⟩).dir.get (.gen 1 k) = _ at h6
          rw [h6]; unfold shiftedV; simp only [h0, h1, if_false]; rfl
        · exact congrFun (h4 fam hf0 hf1) k
    · rfl
  · intro i
    have hne0 : ¬ (Name.other i = Name.gen 0 0) := by intro h; cases h
    have hne1 : ¬ (Name.other i = Name.gen 1 0) := by intro h; cases h
    rw [purgeRotate_get, if_neg hne1, if_neg hne0]
    unfold purgeLoop
    split
    · exact h5 i
    · rfl

/-- non-vacuity: live file and generations 1, 3, 7 exist, count 3: 1 ← live, 2 ← old 1, 3 (top, predecessor
missing) keeps its own content, 7 and the other file are untouched -/
def sampleDir : Dir := [(.gen 0 0, 100), (.gen 0 1, 101), (.gen 0 3, 103), (.gen 0 7, 107), (.other 2, 9)]

example : let s := logRotate sampleDir 3 false false
    s.dir.get (.gen 0 0) = some 0 ∧ s.dir.get (.gen 0 1) = some 100 ∧ s.dir.get (.gen 0 2) = some 101 ∧ s.dir.get (.gen 0 3) = some 103 ∧
    s.dir.get (.gen 0 7) = some 107 ∧ s.dir.get (.other 2) = some 9 ∧ s.oob = false := by decide

end Fix8Model.Props.C29
