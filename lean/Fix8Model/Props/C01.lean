import Fix8Model.Codec.TokenLemmas
import Fix8Model.Props.C08
/-!
C01 – Message encode/decode round trip preserves every field.
(token layer and typed-value layer; the message layer follows below as it is proved)
-/
namespace Fix8Model.Props.C01
open Fix8Model Fix8Model.Codec Fix8Model.Digits

/-- every rendered field `tag=value<SOH>` is tokenised back into exactly its tag text and value, whatever follows
(any tag below 10^31, any value without SOH shorter than the value buffer – it may contain '=') -/
theorem C01_token_roundtrip (t : Nat) (v rest : Bytes)
    (hv : ∀ c ∈ v, c ≠ SOH) (hlen : v.length < Gen.maxFldLength) (ht : t < 10 ^ 31) :
    extractElement (renderField t v ++ rest) = some (renderTag t, v, rest) :=
  extractElement_render t v rest hv hlen ht

/-- the tag number read back from a rendered tag is the tag (all 16-bit tags) -/
theorem C01_tag_roundtrip (t : Nat) (h : t < 65536) : tagNum (renderTag t) = t := tagNum_render t h

/-- integer fields: the text printed for any 32-bit value parses back to the value and prints identically
(negative values, INT_MIN and INT_MAX included) -/
theorem C01_int_value_roundtrip (v : Int) (hv : inInt32 v) : canon .int (itoa v) = some (itoa v) := by
  have hrep := itoa_eq v
  have hz : atoiZ (itoa v) = v := by
    rw [hrep]
    unfold decimalRepr
    split
    · -- negative
      rename_i hneg
      unfold atoiZ
      have hd : ∀ (l : List Nat) (r : Int), (∀ c ∈ l, c < 128) →
          l.foldl (fun r c => r * 10 - (schar c - 48)) r = l.foldl (atoiStep true) r := by
        intro l
        induction l with
        | nil => intro r _; rfl
        | cons c cs ih =>
          intro r hc
          simp only [List.foldl_cons]
          rw [schar_digit c (hc c (by simp))]
          have : atoiStep true r c = r * 10 - ((c : Int) - 48) := by simp [atoiStep]
          rw [← this]
          exact ih _ (fun z hz => hc z (by simp [hz]))
      simp only
      rw [hd _ _ (by
        intro c hc
        have := natDigits_isDigit v.natAbs c hc
        simp [isDigit] at this; omega)]
      rw [foldl_neg]; omega
    · rename_i hnn
      rw [atoiZ_natDigits]; omega
  have hc : ∀ c ∈ itoa v, c ≠ 0 := by
    intro c hc
    rw [hrep] at hc
    unfold decimalRepr at hc
    split at hc
    · simp at hc
      rcases hc with hc | hc
      · omega
      · have := natDigits_isDigit _ c hc; simp [isDigit] at this; omega
    · have := natDigits_isDigit _ c hc; simp [isDigit] at this; omega
  have hcs : cstr (itoa v) = itoa v := by
    unfold cstr
    exact takeWhile_all _ _ (by intro c hc'; have := hc c hc'; simp [this])
  unfold canon
  simp only [hcs, hz]
  have : wrapInt32 v = v := by
    unfold wrapInt32
    unfold inInt32 at hv
    omega
  rw [this]

/-- non-vacuity -/
example : extractElement (renderField 58 [97, 61, 98] ++ renderField 10 [48, 48, 48]) = some (renderTag 58, [97, 61, 98], renderField 10 [48, 48, 48]) :=
  C01_token_roundtrip 58 [97, 61, 98] _ (by decide) (by decide) (by decide)

end Fix8Model.Props.C01
