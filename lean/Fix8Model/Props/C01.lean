import Fix8Model.Codec.TokenLemmas
import Fix8Model.Codec.RoundTripMsg
import Fix8Model.Codec.RoundTripNorm
import Fix8Model.Codec.SchemaUTESTWF
import Fix8Model.Codec.SchemaFIX44WF
import Fix8Model.Props.C08
/-!
C01 – Message encode/decode round trip preserves every field.
(token layer, typed-value layer, then the message layer: single decoder steps, sections, repeating groups of any depth,
the whole message through `Message::factory`, and the generated FIX42UTEST schema)
-/
namespace Fix8Model.Props.C01
open Fix8Model Fix8Model.Codec Fix8Model.Codec.RT Fix8Model.Digits

/-- every rendered field `tag=value<SOH>` is tokenised back into exactly its tag text and value, whatever follows
(any tag below 10^31, any value without SOH shorter than the value buffer – it may contain '=') -/
theorem C01_token_roundtrip (t : Nat) (v rest : Bytes)
    (hv : ∀ c ∈ v, c ≠ SOH) (hlen : v.length < Gen.maxFldLength) (ht : t < 10 ^ 31) :
    extractElement (renderField t v ++ rest) = some (renderTag t, v, rest) :=
  extractElement_render t v rest hv hlen ht

/-- the tag number read back from a rendered tag is the tag (all 16-bit tags) -/
theorem C01_tag_roundtrip (t : Nat) (h : t < 65536) : tagNum (renderTag t) = t := tagNum_render t h

/-- integer fields: the text printed for any 32-bit value parses back to the value and prints identically
(negative values, INT_MIN and INT_MAX included) -/
theorem C01_int_value_roundtrip (v : Int) (hv : inInt32 v) : canon .int (itoa v) = some (itoa v) := by
  have hrep := itoa_eq v
  have hz : atoiZ (itoa v) = v := by
    rw [hrep]
    unfold decimalRepr
    split
    · -- negative
      rename_i hneg
      unfold atoiZ
      have hd : ∀ (l : List Nat) (r : Int), (∀ c ∈ l, c < 128) →
          l.foldl (fun r c => r * 10 - (schar c - 48)) r = l.foldl (atoiStep true) r := by
        intro l
        induction l with
        | nil => intro r _; rfl
        | cons c cs ih =>
          intro r hc
          simp only [List.foldl_cons]
          rw [schar_digit c (hc c (by simp))]
          have : atoiStep true r c = r * 10 - ((c : Int) - 48) := by simp [atoiStep]
          rw [← this]
          exact ih _ (fun z hz => hc z (by simp [hz]))
      simp only
      rw [hd _ _ (by
        intro c hc
        have := natDigits_isDigit v.natAbs c hc
        simp [isDigit] at this; omega)]
      rw [foldl_neg]; omega
    · rename_i hnn
      rw [atoiZ_natDigits]; omega
  have hc : ∀ c ∈ itoa v, c ≠ 0 := by
    intro c hc
    rw [hrep] at hc
    unfold decimalRepr at hc
    split at hc
    · simp at hc
      rcases hc with hc | hc
      · omega
      · have := natDigits_isDigit _ c hc; simp [isDigit] at this; omega
    · have := natDigits_isDigit _ c hc; simp [isDigit] at this; omega
  have hcs : cstr (itoa v) = itoa v := by
    unfold cstr
    exact takeWhile_all _ _ (by intro c hc'; have := hc c hc'; simp [this])
  unfold canon
  simp only [hcs, hz]
  have : wrapInt32 v = v := by
    unfold wrapInt32
    unfold inInt32 at hv
    omega
  rw [this]

/-- non-vacuity -/
example : extractElement (renderField 58 [97, 61, 98] ++ renderField 10 [48, 48, 48]) = some (renderTag 58, [97, 61, 98], renderField 10 [48, 48, 48]) :=
  C01_token_roundtrip 58 [97, 61, 98] _ (by decide) (by decide) (by decide)

/-! ## message level

Hypotheses are Boolean functions (`… = true`): `SchemaWF S` (trait tables), `Conforms S ts m` (message), `secOk`
(section items), `elemsOk` (group elements), `stopOk D next` (the input after a group / section is exhausted or starts
with a token whose tag is outside the tag set `D`).  `C = deepTable S` is the table of all tags at or below each
group definition. -/

/-! ### layer 1: single decoder steps -/

/-- `MessageBase::decode` consumes one rendered plain field (trait found, tag not yet seen, in the field table,
canonical value, not a positive-count group, not a Length field) and continues with the item appended -/
theorem C01_section_step (S : Schema) (ts : List Trait) (perm : Bool) (fuel : Nat) (t : Nat) (v rest : Bytes)
    (items : List Item) (seen : List Nat) (unk : Bytes) (fu : Option (Bytes × Nat)) (tr : Trait)
    (htr : findTrait ts t = some tr) (hseen : seen.contains t = false) (hft : S.fieldTable.contains t = true)
    (ht : t < 65536) (hv : valOk v = true) (hcanon : canon tr.kind v = some v)
    (hng : (tr.group && countPositive v) = false) (hnl : (tr.kind == .length && t != 9) = false) :
    decodeSection S ts perm (fuel + 1) (renderField t v ++ rest) items seen unk fu =
      decodeSection S ts perm fuel rest (.fld t v :: items) (t :: seen) unk fu :=
  decodeSection_step_fld S ts perm fuel t v rest items seen unk fu tr htr hseen hft ht hv hcanon hng hnl

/-- strict mode: the section loop ends in front of a token whose tag the section does not define, or when no further
token can be extracted, provided no mandatory field is missing; nothing is consumed -/
theorem C01_section_finish (S : Schema) (ts : List Trait) (fuel : Nat) (next : Bytes)
    (items : List Item) (seen : List Nat) (unk : Bytes) (fu : Option (Bytes × Nat))
    (hstop : ∀ tv, peekTag next = some tv → findTrait ts tv = none) (hmiss : findMissing ts seen = none) :
    decodeSection S ts false (fuel + 1) next items seen unk fu = .ok ⟨items.reverse, seen, unk, next⟩ :=
  decodeSection_finish S ts fuel next items seen unk fu hstop hmiss

/-- the field loop of `decode_group` consumes one rendered plain field of the group and continues -/
theorem C01_elem_step (S : Schema) (fieldOk : Nat → Bool) (gts : List Trait) (fuel : Nat) (t : Nat) (v rest : Bytes)
    (items : List Item) (seen : List Nat) (tr : Trait)
    (htr : findTrait gts t = some tr) (hseen : seen.contains t = false) (hpos : (!seen.isEmpty || tr.pos == 1) = true)
    (hfo : fieldOk t = true) (ht : t < 65536) (hv : valOk v = true) (hcanon : canon tr.kind v = some v)
    (hng : (tr.group && countPositive v) = false) :
    decodeElem S fieldOk gts (fuel + 1) (renderField t v ++ rest) items seen =
      decodeElem S fieldOk gts fuel rest (.fld t v :: items) (t :: seen) :=
  decodeElem_step_fld S fieldOk gts fuel t v rest items seen tr htr hseen hpos hfo ht hv hcanon hng

/-- the field loop of one element stops in front of a token whose tag the element already has (`more = true`: next
element) or that the group does not define (`more = false`: end of the group), or when no token can be extracted -/
theorem C01_elem_finish (S : Schema) (fieldOk : Nat → Bool) (gts : List Trait) (fuel : Nat) (next : Bytes)
    (items : List Item) (seen : List Nat) (hne : seen ≠ [])
    (hstop : ∀ tv, peekTag next = some tv → seen.contains tv = false → findTrait gts tv = none) :
    decodeElem S fieldOk gts (fuel + 1) next items seen = .ok (items, seen, next, moreFlag seen next) :=
  decodeElem_stop S fieldOk gts fuel next items seen hne hstop

/-! ### layers 2–4: sections and repeating groups -/

/-- **repeating groups nested to any depth**: for a well-formed schema, the element loop of `decode_group` run on the
bytes `encode_group` wrote for conforming elements `els` of group definition `i` (each element starts with the
position-1 field, distinct tags of the group, canonical values, nested groups conforming recursively with a positive
count and at least one element) followed by ANY `next` that is empty or starts with a token whose tag is neither a
tag of the group nor of anything nested in it, returns exactly `els` and `next` -/
theorem C01_group_roundtrip (S : Schema) (hS : SchemaWF S = true) (fieldOk : Nat → Bool)
    (hfo : ∀ t, S.fieldTable.contains t = true → fieldOk t = true)
    (i : Nat) (els : List (List Item)) (next : Bytes) (fuel : Nat)
    (hne : els ≠ []) (hok : elemsOk S (S.group i) els = true) (hstop : stopOk ((deepTable S).getD i []) next = true)
    (hfuel : (encodeElems (S.group i) S els ++ next).length + 2 ≤ fuel) :
    decodeGroup S fieldOk (S.group i) fuel (encodeElems (S.group i) S els ++ next) [] = .ok (els, next) :=
  decodeGroup_roundtrip (wf_of_schemaWF hS).groups hfo i els next fuel hne hok hstop hfuel

/-- **one section** (here: the body of message type `mt`; `decodeSection_roundtrip` is the same statement for any trait
list with `SectionWF`): strict-mode `MessageBase::decode` run on the bytes written for conforming items `its` (plain
fields, Length/data pairs, groups of any depth) followed by `next` (empty, or starting with a token whose tag is
neither a tag of the section nor of any group below it) returns `its` in order, appended to what was decoded before,
and stops exactly in front of `next` -/
theorem C01_section_roundtrip (S : Schema) (hS : SchemaWF S = true) (mt : Bytes) (ts : List Trait)
    (hmsg : S.msgs.find? (·.1 == mt) = some (mt, ts))
    (fuel : Nat) (its : List Item) (next : Bytes) (items : List Item) (seen : List Nat) (unk : Bytes)
    (fu : Option (Bytes × Nat))
    (hok : secOk S ts seen its = true) (hstop : stopOk (tagsOf ts ++ belowOf (deepTable S) ts) next = true)
    (hfuel : (encodeItems ts S its ++ next).length < fuel) :
    decodeSection S ts false fuel (encodeItems ts S its ++ next) items seen unk fu =
      .ok ⟨items.reverse ++ its, seenAfter seen its, unk, next⟩ :=
  decodeSection_roundtrip (wf_of_schemaWF hS).groups ((wf_of_schemaWF hS).body (mt, ts) (List.mem_of_find?_eq_some hmsg))
    fuel its next items seen unk fu hok hstop hfuel

/-! ### layer 5: the whole message -/

/-- **explicit form**: `Message::factory` (checksum verified) on `Message::encode` of a conforming message returns the
message with BodyLength set to the decimal payload length and CheckSum to the three checksum digits (the CheckSum
item at index `chkIndex S` of the trailer, where the decoder's position map leaves it) -/
theorem C01_roundtrip_explicit (S : Schema) (ts : List Trait) (m : Msg) (hS : SchemaWF S = true)
    (hmsg : S.msgs.find? (·.1 == m.msgType) = some (m.msgType, ts)) (hm : Conforms S ts m = true) :
    factory S false (encodeMsg S ts m) = .ok (decodedOf S ts m) :=
  factory_encodeMsg hS ts m hmsg hm

/-- **C01, message level**: for every schema satisfying `SchemaWF` and every message conforming to it (any message
type, any subset of fields, canonical values, Length/data pairs with arbitrary NUL-free content in header and body,
repeating groups nested to any depth), decoding the encoded bytes gives the message back – same type, same header,
body and trailer items in the same order with the same values and group elements, except for the values of
BodyLength (9) and CheckSum (10), which `encode` computes (see `SameContent`) – and re-encoding the decoded message
gives byte-identical output -/
theorem C01_roundtrip (S : Schema) (mt : Bytes) (ts : List Trait) (m : Msg) (hS : SchemaWF S = true)
    (hmsg : S.msgs.find? (·.1 == mt) = some (mt, ts)) (hm : Conforms S ts m = true) (hmt : m.msgType = mt) :
    ∃ m', factory S false (encodeMsg S ts m) = .ok m' ∧ SameContent m m' ∧ encodeMsg S ts m' = encodeMsg S ts m := by
  subst hmt
  exact ⟨decodedOf S ts m, factory_encodeMsg hS ts m hmsg hm, sameContent_decodedOf S ts m, encodeMsg_decodedOf hS ts m hm⟩

/-- the same with the look-up of the message type as Boolean hypotheses (`hasMsg S mt`: the schema defines the type,
`bodyOf S mt`: its body trait list) -/
theorem C01_roundtrip_by_type (S : Schema) (m : Msg) (hS : SchemaWF S = true) (hmt : hasMsg S m.msgType = true)
    (hm : Conforms S (bodyOf S m.msgType) m = true) :
    ∃ m', factory S false (encodeMsg S (bodyOf S m.msgType) m) = .ok m' ∧ SameContent m m' ∧
      encodeMsg S (bodyOf S m.msgType) m' = encodeMsg S (bodyOf S m.msgType) m :=
  C01_roundtrip S m.msgType _ m hS (find_msg hmt) hm rfl

/-- group items without elements (`.grp t v []`: a count field set through the API with no element added) are written
exactly like the plain field `.fld t v`, which is what the decoder returns for them.  `normMsg` rewrites them (at any
depth) to plain fields; a message that conforms after this rewriting round-trips to its rewritten form -/
theorem C01_roundtrip_norm (S : Schema) (mt : Bytes) (ts : List Trait) (m : Msg) (hS : SchemaWF S = true)
    (hmsg : S.msgs.find? (·.1 == mt) = some (mt, ts)) (hm : Conforms S ts (normMsg m) = true) (hmt : m.msgType = mt) :
    ∃ m', factory S false (encodeMsg S ts m) = .ok m' ∧ SameContent (normMsg m) m' ∧
      encodeMsg S ts m' = encodeMsg S ts m := by
  subst hmt
  refine ⟨decodedOf S ts (normMsg m), factory_encodeMsg_norm hS ts m hmsg hm, sameContent_decodedOf S ts (normMsg m), ?_⟩
  rw [encodeMsg_decodedOf hS ts (normMsg m) hm, encodeMsg_norm]

/-! ### layer 6: the generated FIX42UTEST schema -/

/-- the trait tables f8c generated for FIX42UTEST (extracted from the compiled C++ on every run) are well formed -/
theorem C01_utest_wf : SchemaWF utest = true := utest_wf

/-- C01 for the real schema: no schema hypothesis left -/
theorem C01_roundtrip_utest (mt : Bytes) (ts : List Trait) (m : Msg)
    (hmsg : utest.msgs.find? (·.1 == mt) = some (mt, ts)) (hm : Conforms utest ts m = true) (hmt : m.msgType = mt) :
    ∃ m', factory utest false (encodeMsg utest ts m) = .ok m' ∧ SameContent m m' ∧
      encodeMsg utest ts m' = encodeMsg utest ts m :=
  C01_roundtrip utest mt ts m utest_wf hmsg hm hmt

/-- the same with the look-up of the message type as a Boolean hypothesis (`hasMsg`, `bodyOf`) -/
theorem C01_roundtrip_utest_by_type (m : Msg) (hmt : hasMsg utest m.msgType = true)
    (hm : Conforms utest (bodyOf utest m.msgType) m = true) :
    ∃ m', factory utest false (encodeMsg utest (bodyOf utest m.msgType) m) = .ok m' ∧ SameContent m m' ∧
      encodeMsg utest (bodyOf utest m.msgType) m' = encodeMsg utest (bodyOf utest m.msgType) m :=
  C01_roundtrip utest m.msgType _ m utest_wf (find_msg hmt) hm rfl

/-! ### non-vacuity: a concrete message with a nested group and a data field holding SOH and '=' -/

/-- the body trait list of message type `J` (Allocation) of the generated FIX42UTEST schema -/
def tsJ : List Trait := bodyOf utest [74]

/-- an Allocation message: `49=A 56=B 34=7 52=20240102-03:04:05.678` and an XmlDataLen/XmlData pair (212/213) whose
content `a<SOH>b=c` holds SOH and '=' in the header; `70 71 54 55 53 6 75` and the NoAllocs group (78) with two elements
`79 80`, the first of which holds a nested NoMiscFees group (136) with one element `137 138 139`, in the body -/
def exMsg : Msg :=
  { msgType := [74]
    header := [.fld 8 [70, 73, 88, 46, 52, 46, 50], .fld 9 [48], .fld 35 [74], .fld 49 [65], .fld 56 [66], .fld 34 [55], .fld 52 [50, 48, 50, 52, 48, 49, 48, 50, 45, 48, 51, 58, 48, 52, 58, 48, 53, 46, 54, 55, 56], .fld 212 [53], .fld 213 [97, 1, 98, 61, 99]]
    body := [.fld 70 [73, 68, 49], .fld 71 [48], .fld 54 [49], .fld 55 [73, 66, 77], .fld 53 [49, 48, 48, 46, 48], .fld 6 [49, 50, 46, 53], .fld 75 [50, 48, 50, 52, 48, 49, 48, 50], .grp 78 [50] [[.fld 79 [65, 67, 67, 49], .fld 80 [54, 48, 46, 48], .grp 136 [49] [[.fld 137 [49, 46, 53], .fld 138 [85, 83, 68], .fld 139 [49]]]], [.fld 79 [65, 67, 67, 50], .fld 80 [52, 48, 46, 48]]]]
    trailer := [.fld 10 []] }

/-- the two NoAllocs elements of `exMsg` -/
def exElems : List (List Item) := [[.fld 79 [65, 67, 67, 49], .fld 80 [54, 48, 46, 48], .grp 136 [49] [[.fld 137 [49, 46, 53], .fld 138 [85, 83, 68], .fld 139 [49]]]], [.fld 79 [65, 67, 67, 50], .fld 80 [52, 48, 46, 48]]]

example : utest.msgs.find? (·.1 == [74]) = some ([74], tsJ) := find_msg (by decide +kernel)
example : Conforms utest tsJ exMsg = true := by decide +kernel

/-- the hypotheses of `C01_roundtrip` are satisfiable on `exMsg`, so its conclusion holds for it -/
example : ∃ m', factory utest false (encodeMsg utest tsJ exMsg) = .ok m' ∧ SameContent exMsg m' ∧
    encodeMsg utest tsJ m' = encodeMsg utest tsJ exMsg :=
  C01_roundtrip_utest [74] tsJ exMsg (find_msg (by decide +kernel)) (by decide +kernel) rfl

/-- `exMsg` with an element-less NoOrders group item `73=0` added through the API: conforms after normalisation -/
def exMsg0 : Msg := { exMsg with body := exMsg.body ++ [.grp 73 [48] []] }

example : Conforms utest tsJ (normMsg exMsg0) = true := by decide +kernel

example : ∃ m', factory utest false (encodeMsg utest tsJ exMsg0) = .ok m' ∧ SameContent (normMsg exMsg0) m' ∧
    encodeMsg utest tsJ m' = encodeMsg utest tsJ exMsg0 :=
  C01_roundtrip_norm utest [74] tsJ exMsg0 utest_wf (find_msg (by decide +kernel)) (by decide +kernel) rfl

/-- the hypotheses of `C01_group_roundtrip` are satisfiable: the NoAllocs group (definition 19) with a nested
NoMiscFees group, followed by a `10=…` token -/
example : decodeGroup utest (fun t => utest.fieldTable.contains t) (utest.group 19) 1000
    (encodeElems (utest.group 19) utest exElems ++ renderField 10 [48, 48, 48]) [] = .ok (exElems, renderField 10 [48, 48, 48]) :=
  C01_group_roundtrip utest utest_wf _ (fun _ h => h) 19 exElems _ 1000 (by decide) (by decide +kernel) (by decide +kernel)
    (by decide +kernel)


end Fix8Model.Props.C01

/-! ### the stock FIX44 schema -/
namespace Fix8Model.Props.C01
open Fix8Model Fix8Model.Codec Fix8Model.Codec.RT

/-- the FIX44 tables dumped from the code generated by the freshly built f8c (two passes) satisfy `SchemaWF` -/
theorem C01_fix44_wf : SchemaWF fix44 = true := fix44_wf

/-- C01 for every conforming message of the stock FIX44 schema -/
theorem C01_roundtrip_fix44 (mt : Bytes) (ts : List Trait) (m : Msg)
    (hmsg : fix44.msgs.find? (·.1 == mt) = some (mt, ts)) (hm : Conforms fix44 ts m = true) (hmt : m.msgType = mt) :
    ∃ m', factory fix44 false (encodeMsg fix44 ts m) = .ok m' ∧ SameContent m m' ∧ encodeMsg fix44 ts m' = encodeMsg fix44 ts m :=
  C01_roundtrip fix44 mt ts m fix44_wf hmsg hm hmt

end Fix8Model.Props.C01
