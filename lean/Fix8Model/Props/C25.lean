import Fix8Model.Conc.WriterExtra
/-!
C25 – Concurrent senders get unique consecutive sequence numbers.

Model: `Fix8Model.Conc.Writer` – any number of threads calling `write(msg)` / `write_batch(msgs)` on one connection,
`pl = false`: thread model (pm_thread, pm_coro: every call takes the spin lock `_con_spl` around `send_process`),
`pl = true`: pipelined model (`write` pushes to the MPMC queue WITHOUT the lock, `write_batch` pushes under the lock, one
writer thread pops and runs `send_process`).  The queue is the embedded C30 model with `n ≥ 1` slots; `send_process` is
three micro-steps on the `Sess` of the session model whose composition is its `sendProcess` (`C25_critical_section`).
`Reachable pl n s0 σ`: σ is reached from a session state `s0` (`Start s0`: batch buffer empty, persister keys below the
next send number) by ANY interleaving of calls and micro-steps of ANY number of threads; no fairness, no bounds.

`frames σ` = frames written to the socket, in order, followed by the frames still in `_batchmsgs_buffer`;
`lin σ` = (submitting thread, message) in the order `send_process` was entered.

Clauses and theorems (all for every reachable state):
* unique and consecutive numbers: `C25_numbers`, `C25_wire_numbers`, `C25_unique`;
* each message exactly once, each thread's messages in its submission order: `C25_frames_are_lin` (frame k is the
  order of the k-th entry of `lin`, built as `send_process` builds it), `C25_thread_order` / `C25_thread_order_pipelined`
  (what a thread has got through is a prefix of what it submitted, in order), `C25_complete` / `C25_complete_pipelined`
  (when all calls have returned – and, pipelined, the writer thread has drained the queue – it is ALL it submitted, and
  `lin` is a permutation of everything submitted: `C25_exactly_once`);
* stored = transmitted: `C25_stored`, `C25_stored_quiescent`;
* batches: thread model `C25_batch_contiguous` (`lin` is a prefix of the concatenation of whole calls in lock order);
  pipelined `C25_batch_contiguous_pipelined` (the ticket order restricted to messages pushed inside `write_batch` is
  the concatenation of whole batches; single `write`s may fall in between: `C25_finding_single_inside_batch`);
* lock discipline: `C25_mutex`, `C25_lock_discipline`, `C25_no_access_outside_critical_section`,
  `C25_batch_push_under_lock`.

* nothing stays behind: `C25_buffer_empty` / `C25_buffer_empty_pipelined` (when no call is in progress the batch buffer is
  empty, so every frame produced is on the wire), `C25_exactly_once_pipelined`, `C25_writer_alive`.

NOT proved here (partial, see NOTES): absence of data races in the sense of the C++ memory model (carried by the TSan
build of the correspondence); progress (that a call returns, that the writer thread eventually pops) is not claimed.
-/
namespace Fix8Model.Props.C25
open Fix8Model.Session Fix8Model.Store Fix8Model.Conc.Writer

/-- the three micro-steps of the critical section are `sendProcess` of the session model (C16–C19) for a new
application message on the fixed code -/
theorem C25_critical_section (s : Sess) (x : Item) (hc : s.code.tailFromBuffer = false) :
    incStep (putStep (encSess s x) (frameOf s x.1)) = (sendProcess s { m := mkOrder s x.1, eob := x.2 }).1 ∧
    (encWire s x).map Out.wire = (sendProcess s { m := mkOrder s x.1, eob := x.2 }).2 :=
  micro_eq_sendProcess s x hc

/-! ### sequence numbers -/

/-- the frames produced, in order, carry the numbers `s0.ns, s0.ns + 1, …` without holes or repeats -/
theorem C25_numbers {pl : Bool} {n : Nat} {s0 : Sess} {σ : State} (h0 : Start s0) (r : Reachable pl n s0 σ) :
    (frames σ).map (·.seq) = List.range' s0.ns (frames σ).length :=
  (sinv_reachable h0 r).seqs

/-- the same for what is already on the wire -/
theorem C25_wire_numbers {pl : Bool} {n : Nat} {s0 : Sess} {σ : State} (h0 : Start s0) (r : Reachable pl n s0 σ) :
    σ.wire.map (·.seq) = List.range' s0.ns σ.wire.length := by
  have h := C25_numbers h0 r
  unfold frames at h
  rw [List.map_append, List.length_append, ← List.range'_append] at h
  exact List.append_inj_left h (by simp)

theorem C25_unique {pl : Bool} {n : Nat} {s0 : Sess} {σ : State} (h0 : Start s0) (r : Reachable pl n s0 σ) :
    ((frames σ).map (·.seq)).Nodup := by
  rw [C25_numbers h0 r]; exact List.nodup_range' 1

/-! ### every message once, in each thread's order -/

/-- frame k is the order with the payload of the k-th entry of `lin`, and is exactly what `send_process` builds -/
theorem C25_frames_are_lin {pl : Bool} {n : Nat} {s0 : Sess} {σ : State} (h0 : Start s0) (r : Reachable pl n s0 σ) :
    (frames σ).map (·.pid) = σ.lin.map (fun x => some x.2.1) ∧
    ∀ m ∈ frames σ, m = { mkOrder s0 (m.pid.getD 0) with seq := m.seq, st := s0.now } :=
  ⟨(sinv_reachable h0 r).pids, (sinv_reachable h0 r).shape⟩

/-- thread model: what thread `t` has brought into `send_process`, in that order, followed by what it still holds is what it
submitted, in submission order -/
theorem C25_thread_order {n : Nat} {s0 : Sess} {σ : State} (r : Reachable false n s0 σ) (t : Tid) :
    linOf σ t ++ pend (σ.pc t) = submitted σ t ∧ linOf σ t <+: submitted σ t := by
  have h := (tinv_reachable r).acct t
  exact ⟨h, by rw [← h]; exact List.prefix_append _ _⟩

/-- pipelined model: what has entered `send_process` is the first part of the ticket order of the queue (`plog`, C30),
and a sender's entries in it are a prefix of what it submitted, in submission order -/
theorem C25_thread_order_pipelined {n : Nat} (hn : 0 < n) {s0 : Sess} {σ : State} (r : Reachable true n s0 σ) (t : Tid) (ht : t ≠ W) :
    σ.lin = (σ.plog.take σ.lin.length).map (fun e => (e.1, e.2.1)) ∧
    plogOf σ t ++ inflight (σ.q.pc t) ++ pend (σ.pc t) = submitted σ t ∧
    linOf σ t <+: submitted σ t := by
  have inv := pinv_reachable hn r
  refine ⟨inv.linOk, inv.acct t ht, ?_⟩
  have h1 : linOf σ t <+: plogOf σ t := by
    unfold linOf plogOf
    rw [inv.linOk, List.filter_map, List.map_map]
    exact ((List.take_prefix _ _).filter _).map _
  rw [← inv.acct t ht, List.append_assoc]
  exact h1.trans (List.prefix_append _ _)

/-- thread model, all calls returned: every thread got through exactly what it submitted -/
theorem C25_complete {n : Nat} {s0 : Sess} {σ : State} (r : Reachable false n s0 σ) (hq : ∀ t, σ.pc t = .idle) (t : Tid) :
    linOf σ t = submitted σ t := by
  have h := (tinv_reachable r).acct t
  rw [hq t] at h; simpa [pend] using h

/-- pipelined model, all calls returned and the writer thread has processed every ticket -/
theorem C25_complete_pipelined {n : Nat} (hn : 0 < n) {s0 : Sess} {σ : State} (r : Reachable true n s0 σ)
    (hq : ∀ t, t ≠ W → σ.pc t = .idle) (hd : σ.lin.length = σ.plog.length) (t : Tid) (ht : t ≠ W) :
    linOf σ t = submitted σ t := by
  have inv := pinv_reachable hn r
  have h := inv.acct t ht
  have hqt : σ.q.pc t = .idle := inv.qidle t (by rw [hq t ht]; intro _ _ e; cases e) (by rw [hq t ht]; intro e; cases e)
  rw [hq t ht, hqt] at h
  simp only [pend, inflight, List.append_nil] at h
  rw [← h]
  unfold linOf plogOf
  rw [inv.linOk, hd, List.take_length, List.filter_map, List.map_map]
  rfl

/-- **exactly once** (thread model): when all calls have returned, the messages that went through `send_process` – and
by `C25_frames_are_lin` the frames produced – are a permutation of ALL messages submitted (with multiplicity) -/
theorem C25_exactly_once {n : Nat} {s0 : Sess} {σ : State} (r : Reachable false n s0 σ) (hq : ∀ t, σ.pc t = .idle) :
    σ.lin.Perm (allSubmitted σ) := by
  apply perm_of_threads
  intro t
  apply filter_eq_of_map_snd
  rw [filter_allSubmitted]
  exact C25_complete r hq t

/-- **exactly once** (pipelined model): when all calls have returned and the writer thread has processed every ticket, the
messages that went through `send_process` are a permutation of ALL messages submitted -/
theorem C25_exactly_once_pipelined {n : Nat} (hn : 0 < n) {s0 : Sess} {σ : State} (r : Reachable true n s0 σ)
    (hq : ∀ t, t ≠ W → σ.pc t = .idle) (hd : σ.lin.length = σ.plog.length) : σ.lin.Perm (allSubmitted σ) := by
  apply perm_of_threads
  intro t
  apply filter_eq_of_map_snd
  rw [filter_allSubmitted]
  by_cases ht : t = W
  · subst ht
    have := linOf_writer hn r
    unfold linOf at this
    rw [this, (pinv_reachable hn r).noCallW]
  · exact C25_complete_pipelined hn r hq hd t ht

/-- pipelined: the writer thread never pops a null pointer, i.e. never leaves its loop -/
theorem C25_writer_alive {n : Nat} (hn : 0 < n) {s0 : Sess} {σ : State} (r : Reachable true n s0 σ) : σ.pc W ≠ .wdead :=
  (xinv_reachable hn r).alive

/-! ### nothing is left in the batch buffer -/

/-- thread model: whenever the lock is free (in particular when all calls have returned) `_batchmsgs_buffer` is empty:
every frame produced is on the wire -/
theorem C25_buffer_empty {n : Nat} {s0 : Sess} {σ : State} (h0 : Start s0) (r : Reachable false n s0 σ) (hl : σ.lock = none) :
    σ.sess.buf = [] ∧ frames σ = σ.wire := by
  have inv := tinv_reachable r
  apply buf_empty_of_last (sinv_reachable h0 r)
  rw [← inv.grantsFree hl]
  apply flatMap_expand_last
  intro g hg
  obtain ⟨c, _, hc⟩ := inv.whole g hg
  rw [hc]; exact items_last c

/-- pipelined model: when all calls have returned and the writer thread has processed every ticket, the buffer is empty
(even when a single write fell inside a batch) -/
theorem C25_buffer_empty_pipelined {n : Nat} (hn : 0 < n) {s0 : Sess} {σ : State} (h0 : Start s0) (r : Reachable true n s0 σ)
    (hq : ∀ t, t ≠ W → σ.pc t = .idle) (hd : σ.lin.length = σ.plog.length) : σ.sess.buf = [] ∧ frames σ = σ.wire := by
  have inv := pinv_reachable hn r
  have x := xinv_reachable hn r
  have linv := linv_reachable r
  have hl : σ.lock = none := by
    cases hl : σ.lock with
    | none => rfl
    | some t =>
      obtain ⟨htw, todo, hp⟩ := holder_push linv hl
      rw [hq t htw] at hp; cases hp
  apply buf_empty_of_last (sinv_reachable h0 r)
  have hlin : σ.lin = σ.plog.map (fun e => (e.1, e.2.1)) := by
    have := inv.linOk; rw [hd, List.take_length] at this; exact this
  rw [hlin]
  rcases List.eq_nil_or_concat σ.plog with hp | ⟨ys, e, hp⟩
  · left; rw [hp]; rfl
  · right
    rw [hp, List.concat_eq_append]
    obtain ⟨et, ⟨ep, ee⟩, eh⟩ := e
    refine ⟨ys.map (fun e => (e.1, e.2.1)), et, ep, ?_⟩
    have hmem : (et, (ep, ee), eh) ∈ σ.plog := by rw [hp]; simp
    have hee : ee = true := by
      cases eh with
      | false => exact x.singleLog _ hmem rfl
      | true =>
        have hg := inv.grantsFree hl
        unfold heldLog at hg
        rw [hp, List.concat_eq_append, List.filter_append, List.map_append] at hg
        simp only [List.filter_cons, List.filter_nil, ↓reduceIte, List.map_cons, List.map_nil] at hg
        have := flatMap_expand_last σ.grants (fun g hg' => by
          obtain ⟨c, _, hc⟩ := inv.whole g hg'
          rw [hc]; exact items_last c)
        rw [hg] at this
        rcases this with h | ⟨zs, t, p, h⟩
        · simp at h
        · have := List.append_inj_right' h (by simp)
          simp at this
          exact this.2.2
    subst hee
    simp

/-! ### stored = transmitted -/

/-- every frame produced is retrievable from the persister under its own MsgSeqNum as exactly that frame, except the one
frame (the last) whose `send_process` stands between the socket write and `_persist->put` -/
theorem C25_stored {pl : Bool} {n : Nat} {s0 : Sess} {σ : State} (h0 : Start s0) (r : Reachable pl n s0 σ) :
    ∃ st, σ.sess.store = some st ∧ ∀ m ∈ frames σ,
      st.get m.seq = some (Rec.frame m) ∨ (σ.unstored = 1 ∧ (frames σ).getLast? = some m) := by
  have inv := sinv_reachable h0 r
  obtain ⟨st, hst, _, hfr⟩ := inv.store
  refine ⟨st, hst, fun m hm => ?_⟩
  have hseq : 1 ≤ m.seq := by
    have : m.seq ∈ (frames σ).map (·.seq) := List.mem_map_of_mem hm
    rw [inv.seqs] at this
    have := (List.mem_range'_1.mp this).1
    have := inv.one
    omega
  rw [Fix8Model.Props.C17.lookup_get st m.seq hseq]
  exact hfr m hm

/-- … and when no thread is inside `send_process`, every frame is stored -/
theorem C25_stored_quiescent {pl : Bool} {n : Nat} {s0 : Sess} {σ : State} (h0 : Start s0) (r : Reachable pl n s0 σ)
    (hq : ∀ t, inCS (σ.pc t) = false) :
    ∃ st, σ.sess.store = some st ∧ ∀ m ∈ frames σ, st.get m.seq = some (Rec.frame m) := by
  obtain ⟨st, hst, h⟩ := C25_stored h0 r
  have hz := ((linv_reachable r).free hq).2
  refine ⟨st, hst, fun m hm => ?_⟩
  rcases h m hm with h | ⟨h, _⟩
  · exact h
  · rw [hz] at h; cases h

/-! ### batches -/

/-- thread model: the order of entering `send_process` is a prefix of the concatenation of WHOLE calls in the order the
lock was granted (complete when the lock is free): a batch is never interleaved with anything -/
theorem C25_batch_contiguous {n : Nat} {s0 : Sess} {σ : State} (r : Reachable false n s0 σ) :
    (∃ rest, σ.grants.flatMap expand = σ.lin ++ rest ∧ (σ.lock = none → rest = [])) ∧
    ∀ g ∈ σ.grants, ∃ c, (g.1, c) ∈ σ.calls ∧ g.2 = c.items := by
  have inv := tinv_reachable r
  refine ⟨?_, inv.whole⟩
  cases hl : σ.lock with
  | none => exact ⟨[], by rw [List.append_nil]; exact inv.grantsFree hl, fun _ => rfl⟩
  | some t => exact ⟨_, inv.grantsHeld t hl, fun h => by cases h⟩

/-- pipelined model: the ticket order restricted to the messages pushed inside `write_batch` (`heldLog`) is a prefix of
the concatenation of WHOLE batches in lock order (complete when the lock is free): two batches never interleave.
Messages of single `write`s are not in `heldLog`: they may hold any ticket (`C25_finding_single_inside_batch`). -/
theorem C25_batch_contiguous_pipelined {n : Nat} (hn : 0 < n) {s0 : Sess} {σ : State} (r : Reachable true n s0 σ) :
    (∃ rest, σ.grants.flatMap expand = heldLog σ ++ rest ∧ (σ.lock = none → rest = [])) ∧
    (∀ g ∈ σ.grants, ∃ c, (g.1, c) ∈ σ.calls ∧ g.2 = c.items) ∧
    σ.lin = (σ.plog.take σ.lin.length).map (fun e => (e.1, e.2.1)) := by
  have inv := pinv_reachable hn r
  refine ⟨?_, inv.whole, inv.linOk⟩
  cases hl : σ.lock with
  | none => exact ⟨[], by rw [List.append_nil]; exact inv.grantsFree hl, fun _ => rfl⟩
  | some t => exact ⟨_, inv.grantsHeld t hl, fun h => by cases h⟩

/-! ### lock discipline -/

/-- at most one thread is inside `send_process` -/
theorem C25_mutex {pl : Bool} {n : Nat} {s0 : Sess} {σ : State} (r : Reachable pl n s0 σ) (t u : Tid)
    (ht : inCS (σ.pc t) = true) (hu : inCS (σ.pc u) = true) : t = u :=
  mutex (linv_reachable r) ht hu

/-- whoever is inside `send_process` holds `_con_spl` (thread model) / is the writer thread (pipelined) -/
theorem C25_lock_discipline {pl : Bool} {n : Nat} {s0 : Sess} {σ : State} (r : Reachable pl n s0 σ) (t : Tid)
    (ht : inCS (σ.pc t) = true) : if pl then t = W else σ.lock = some t := by
  have inv := linv_reachable r
  have h1 := inv.pcOk t
  cases hp : σ.pc t <;> rw [hp] at ht h1 <;> simp [inCS] at ht
  cases pl with
  | true => simp only [PcOk] at h1; simpa using (h1.1 trivial).1
  | false => simpa using inv.holder t (by rw [hp]; rfl)

/-- a step of a thread that is NOT inside `send_process` neither reads nor writes the session's shared variables
(`_next_send_seq`, `_batchmsgs_buffer`, the persister): it commutes with replacing them by anything -/
theorem C25_no_access_outside_critical_section (pl : Bool) (n : Nat) (σ : State) (t : Tid) (h : inCS (σ.pc t) = false)
    (s' : Sess) : next pl n { σ with sess := s' } t = { next pl n σ t with sess := s' } := by
  cases hp : σ.pc t with
  | idle => simp [next, hp]
  | wdead => simp [next, hp]
  | rel => simp [next, hp]
  | cs cur stage rest => rw [hp] at h; simp [inCS] at h
  | acq todo => cases hl : σ.lock <;> simp [next, hp, hl]
  | push todo held =>
    cases hq : σ.q.pc t with
    | idle => cases todo <;> simp [next, hp, hq]
    | _ => simp [next, hp, hq]
  | wpop => cases hq : σ.q.pc t <;> simp [next, hp, hq]

/-- pipelined: a sender inside `write_batch` (pushing with `held`) holds `_con_spl` -/
theorem C25_batch_push_under_lock {n : Nat} {s0 : Sess} {σ : State} (r : Reachable true n s0 σ) (t : Tid) (todo : List Item)
    (h : σ.pc t = .push todo true) : σ.lock = some t :=
  (linv_reachable r).holder t (by rw [h]; rfl)

/-! ### non-vacuity, a thread-model run, and the pipelined witness -/

/-- a session after `start()` over a fresh persister: Logon sent as number 1, next send number 2 -/
def s1 : Sess := ((Sess.init ⟨true, 1, 2⟩ Code.fixed true).step (.start 0 0)).1

theorem start_s1 : Start s1 :=
  ⟨by rfl, by decide, ⟨[], some (2, 1)⟩, by rfl, by intro k r h; simp [lookup] at h⟩

example : s1.code.tailFromBuffer = false := by rfl

def runN (t : Tid) (k : Nat) : List Cmd := List.replicate k (.run t)

/-- thread model, threads 1 and 2: thread 1 takes the lock for a batch of two, thread 2 spins (three failed attempts
in the middle of the batch), then sends its single message -/
def schedT : List Cmd :=
  [.call 1 (.batch [10, 11]), .call 2 (.write 30), .run 1, .run 2, .run 1, .run 1, .run 2, .run 1, .run 1, .run 2] ++
  runN 1 4 ++ runN 2 5

def stT : State := (exec false 1 (init false s1) schedT).getD (init false s1)

theorem stT_reachable : Reachable false 1 s1 stT := reachable_exec (cs := schedT) .init (by rfl)

example : stT.wire.map (·.seq) = [2, 3, 4] ∧ stT.wire.map (·.pid) = [some 10, some 11, some 30] ∧
    stT.lin = [(1, (10, false)), (1, (11, true)), (2, (30, true))] ∧ stT.lock = none ∧ stT.sess.ns = 5 ∧ stT.sess.buf = [] := by
  decide

/-- pipelined model on a 2-slot queue: thread 1 is inside `write_batch([10, 11])` (lock held, first push complete) when
thread 2 pushes its single message 30 without the lock; then thread 1 pushes 11 and the writer thread (0) drains -/
def schedP : List Cmd :=
  [.call 1 (.batch [10, 11]), .run 1, .run 1] ++ runN 1 5 ++
  [.call 2 (.write 30), .run 2] ++ runN 2 5 ++ [.run 2] ++
  [.run 1] ++ runN 1 5 ++ [.run 1] ++
  runN 0 30

def stP : State := (exec true 2 (init true s1) schedP).getD (init true s1)

theorem stP_reachable : Reachable true 2 s1 stP := reachable_exec (cs := schedP) .init (by rfl)

/-- WITNESS (permitted by the code, not a violation of uniqueness/consecutiveness): in the pipelined model `write` does not
take the lock that `write_batch` holds, so a single message can get a ticket between two messages of a batch and appears
inside the batch on the wire – numbers still consecutive, every message once, the batch is split over two socket writes
(`[10, 30]` then `[11]`). -/
theorem C25_finding_single_inside_batch :
    ∃ σ, Reachable true 2 s1 σ ∧ σ.wire.map (·.pid) = [some 10, some 30, some 11] ∧ σ.wire.map (·.seq) = [2, 3, 4] ∧
      σ.calls = [(1, .batch [10, 11]), (2, .write 30)] ∧ σ.lock = none ∧ (∀ t, t < 3 → t ≠ W → σ.pc t = .idle) ∧
      σ.sess.buf = [] ∧ heldLog σ = [(1, (10, false)), (1, (11, true))] :=
  ⟨stP, stP_reachable, by decide, by decide, by decide, by decide, by decide, by decide, by decide⟩

end Fix8Model.Props.C25
