import Fix8Model.Time.ScheduleLemmas
/-!
C24 – Session activation follows the configured schedule.

Model (`Time/Schedule.lean`): `test c clock prev` = `Schedule::test(prev)` with the clock reading as an input
(`none` = a signed overflow, i.e. undefined behaviour, was executed), `run c init ts` = the states after each check when
`Session::activation_service` polls it at the instants `ts` starting from state `init`, `createSchedule` =
`Configuration::create_schedule`, `decodeDow` = `decode_dow`.
Specification (`Time/ScheduleSpec.lean`, independent of the model): `localTime`, `tod`, `wday`, `inDaily s e l`
(time of day within [s, e]), `inWeekly sd s ed e l` (inside a window from weekday `sd` at `s` to weekday `ed` at `e`),
`uniquePrefix d`, `namesDay s d`.

Clauses:
1. daily  – `C24_daily_step`, `C24_daily`: full statement, every state, every trace, no polling condition needed.
2. weekly – the full statement ("for every trace of checks at most a minute apart the state after each check is
   `inWeekly`") is FALSE of the code.  `C24_weekly` proves it outside five explicit classes (`Excluded`), each class has
   a witness theorem `C24_finding_*` (replayed on the real code by corpus/C24), and `C24_same_day_stuck`,
   `C24_wrap_adjacent_latches`, `C24_wrap_closes_a_day_late` say exactly what the code does instead on the day-pair classes.
3. decode_dow – `C24_decode_dow`, `C24_decode_dow_range`: full statement for all strings.
-/
namespace Fix8Model.Props.C24
open Fix8Model.Gen Fix8Model.Time.Schedule Fix8Model.Time.ScheduleSpec

/-! ## 1. daily schedules -/

/-- a daily schedule (`start_day` not given): whatever the previous state, the state after a check is exactly
"local time of day within [start, end]" -/
theorem C24_daily_step (c : Sched) (wf : c.WF) (hd : c.startDay < 0) (clock : Int) (ok : InstOK c clock) (prev : Bool) :
    test c clock prev = some (inDaily c.start c.endT (localTime c.utcOff clock)) := by
  have : localTime c.utcOff clock = clock + c.toffset := by unfold localTime; rw [wf.2.2.2.2]
  rw [this]
  exact test_daily c wf hd clock ok prev

/-- … and so along every trace of checks, from either initial state, whatever the distances between the checks -/
theorem C24_daily (c : Sched) (wf : c.WF) (hd : c.startDay < 0) (init : Bool) (ts : List Int) (ok : ∀ t ∈ ts, InstOK c t) :
    run c init ts = some (ts.map (fun t => inDaily c.start c.endT (localTime c.utcOff t))) := by
  have : (fun t => inDaily c.start c.endT (localTime c.utcOff t)) = (fun x => inDaily c.start c.endT (x + c.toffset)) := by
    funext t; unfold localTime; rw [wf.2.2.2.2]
  rw [this]
  exact run_daily c wf hd ts init ok

/-- 08:00–17:00 at utc+10h, polled across the utc date change (22:00 utc = 08:00 local next day) -/
example : let c : Sched := ⟨28800000000000, 61200000000000, 0, 600, -1, -1, 36000000000000⟩
    c.WF ∧ c.startDay < 0 ∧ (∀ t ∈ [1704146370000000000, 1704146400000000000], InstOK c t) ∧
    run c true [1704146370000000000, 1704146400000000000] = some [false, true] := by decide

/-- FINDING (open-ended schedule): with neither `end_time` nor `duration`, `create_schedule` stores `errorticks` as the
end and `test` adds it to today's midnight: signed overflow (undefined behaviour) on every check of a daily schedule -/
theorem C24_finding_open_end :
    createSchedule ⟨some 32400000000000, none, 0, 0, none, none⟩ = .ok ⟨32400000000000, errorTicks, 0, 0, -1, -1, 0⟩ ∧
    test ⟨32400000000000, errorTicks, 0, 0, -1, -1, 0⟩ 1704099570000000000 false = none := by decide

/-! ## 2. weekly schedules -/

/-- the specification of the weekly clause for a schedule: inside a window from the start day at the start time to the
end day at the end time, in local time -/
def inWindow (c : Sched) (clock : Int) : Bool :=
  inWeekly c.startDay c.start c.endDay c.endT (localTime c.utcOff clock)

/-- domain of the weekly clause: a weekly schedule as `create_schedule` can produce it (weekdays 0..6, start before end),
checks in time order at most `g` apart, readings that do not overflow -/
def WeeklyDom (c : Sched) (g : Int) (ts : List Int) : Prop :=
  c.WF ∧ 0 ≤ c.startDay ∧ c.startDay ≤ 6 ∧ 0 ≤ c.endDay ∧ c.endDay ≤ 6 ∧ c.start < c.endT ∧ 0 ≤ g ∧
    (∀ t ∈ ts, InstOK c t) ∧ gapsOK g ts = true
instance (c : Sched) (g : Int) (ts : List Int) : Decidable (WeeklyDom c g ts) := by unfold WeeklyDom; exact inferInstance

/-! the known-finding classes -/

/-- class `weekly-same-day`: start and end on the same weekday (what `create_schedule` produces when only `start_day` is given) -/
def sameDay (c : Sched) : Prop := c.startDay = c.endDay
instance (c : Sched) : Decidable (sameDay c) := by unfold sameDay; exact inferInstance
/-- class `weekly-wrap-around`: the window runs over the end of the week -/
def wrapAround (c : Sched) : Prop := c.startDay > c.endDay
instance (c : Sched) : Decidable (wrapAround c) := by unfold wrapAround; exact inferInstance
/-- class `weekly-range-shorter-than-gap`: the daily hours [start, end] are shorter than the polling distance, so the first
check inside a window can already be past the end time of the start day -/
def rangeShorterThanGap (c : Sched) (g : Int) : Prop := c.endT < c.start + g
instance (c : Sched) (g : Int) : Decidable (rangeShorterThanGap c g) := by unfold rangeShorterThanGap; exact inferInstance
/-- class `weekly-end-near-midnight`: the end time is less than a polling distance before midnight, so the first check
after the window closes can fall on the next day -/
def endNearMidnight (c : Sched) (g : Int) : Prop := tickDay ≤ c.endT + g
instance (c : Sched) (g : Int) : Decidable (endNearMidnight c g) := by unfold endNearMidnight; exact inferInstance
/-- class `weekly-first-check`: the trace starts active outside a window (and not in the closing condition of the end
day), or inactive inside a window but outside the daily hours -/
def badFirstCheck (c : Sched) (init : Bool) (ts : List Int) : Prop :=
  match ts with
  | [] => False
  | t0 :: _ =>
    (init = true ∧ inWindow c t0 = false ∧ ¬ (wday (localTime c.utcOff t0) ≥ c.endDay ∧ tod (localTime c.utcOff t0) > c.endT)) ∨
    (init = false ∧ inWindow c t0 = true ∧ ¬ (c.start ≤ tod (localTime c.utcOff t0) ∧ tod (localTime c.utcOff t0) ≤ c.endT))
instance (c : Sched) (init : Bool) (ts : List Int) : Decidable (badFirstCheck c init ts) := by
  unfold badFirstCheck; split <;> exact inferInstance

def Excluded (c : Sched) (g : Int) (init : Bool) (ts : List Int) : Prop :=
  sameDay c ∨ wrapAround c ∨ rangeShorterThanGap c g ∨ endNearMidnight c g ∨ badFirstCheck c init ts
instance (c : Sched) (g : Int) (init : Bool) (ts : List Int) : Decidable (Excluded c g init ts) := by
  unfold Excluded; exact inferInstance

/-- exact characterisation of one check of a weekly schedule (any weekdays, any state): what `test` returns as a
function of the local weekday and time of day -/
theorem C24_weekly_step (c : Sched) (wf : c.WF) (hd : 0 ≤ c.startDay) (clock : Int) (ok : InstOK c clock) (prev : Bool) :
    test c clock prev = some (weeklyStep c (localTime c.utcOff clock) prev) := by
  have : localTime c.utcOff clock = clock + c.toffset := by unfold localTime; rw [wf.2.2.2.2]
  rw [this]
  exact test_weekly c wf hd clock ok prev

private theorem map_local (c : Sched) (wf : c.WF) (spec : Int → Bool) (ts : List Int) :
    ts.map (fun x => spec (x + c.toffset)) = ts.map (fun t => spec (localTime c.utcOff t)) := by
  have : (fun x => spec (x + c.toffset)) = (fun t => spec (localTime c.utcOff t)) := by
    funext t; unfold localTime; rw [wf.2.2.2.2]
  rw [this]

/-- THE WEEKLY CLAUSE, outside the known-finding classes: for every weekly schedule, every polling distance `g`, every
initial state and every trace of checks at most `g` apart, the state after each check is "inside a window" -/
theorem C24_weekly (c : Sched) (g : Int) (init : Bool) (ts : List Int)
    (dom : WeeklyDom c g ts) (hex : ¬ Excluded c g init ts) :
    run c init ts = some (ts.map (inWindow c)) := by
  obtain ⟨wf, hsd, _, _, hed, hse, hg, hok, hgaps⟩ := dom
  unfold Excluded sameDay wrapAround rangeShorterThanGap endNearMidnight at hex
  have hlt : c.startDay < c.endDay := by omega
  have hC1 : c.start + g ≤ c.endT := by omega
  have hC2 : c.endT + g < tickDay := by omega
  have hs0 : 0 ≤ c.start := wf.1
  have hoff := wf.2.2.2.2
  match ts, hok, hgaps, hex with
  | [], _, _, _ => rfl
  | t0 :: r, hok, hgaps, hex =>
    have hb : ¬ badFirstCheck c init (t0 :: r) := fun h => hex (Or.inr (Or.inr (Or.inr (Or.inr h))))
    have hl : localTime c.utcOff t0 = t0 + c.toffset := by unfold localTime; rw [hoff]
    simp only [badFirstCheck, inWindow, hl] at hb
    unfold run
    rw [test_weekly c wf hsd t0 (hok t0 (by simp))]
    rw [weeklyStep_first c hlt hs0 (by omega) (by omega) (t0 + c.toffset) init
      (fun a b => Classical.byContradiction (fun hn => hb (Or.inl ⟨a, b, hn⟩)))
      (fun a b => Classical.byContradiction (fun hn => hb (Or.inr ⟨a, b, hn⟩)))]
    simp only [bind, Option.bind]
    rw [run_tracks c wf hsd g (inWeekly c.startDay c.start c.endDay c.endT)
      (fun l' l a b => weeklyStep_ok c g hsd hlt hed hs0 hC1 hC2 hg l' l a b) r t0 hgaps (fun x hx => hok x (by simp [hx]))]
    rw [map_local c wf (inWeekly c.startDay c.start c.endDay c.endT)]
    rw [← hl]
    rfl

/-- the clause as the property words it: checks at least once a minute -/
theorem C24_weekly_minute (c : Sched) (init : Bool) (ts : List Int)
    (dom : WeeklyDom c tickMinute ts) (hex : ¬ Excluded c tickMinute init ts) :
    run c init ts = some (ts.map (inWindow c)) := C24_weekly c tickMinute init ts dom hex

/-- a trace that starts inactive outside every window is never in the class `weekly-first-check` -/
theorem C24_first_check_from_outside (c : Sched) (t0 : Int) (r : List Int) (h : inWindow c t0 = false) :
    ¬ badFirstCheck c false (t0 :: r) := by
  unfold badFirstCheck; simp [h]

/-- non-vacuity: Monday–Friday 09:00–17:00, polled every 30 s across Monday 09:00 (2024-01-01): the premises hold, the
state goes inactive → active → active -/
example : let c : Sched := ⟨32400000000000, 61200000000000, 0, 0, 1, 5, 0⟩
    let ts : List Int := [1704099570000000000, 1704099600000000000, 1704099630000000000]
    WeeklyDom c tickMinute ts ∧ ¬ Excluded c tickMinute false ts ∧ run c false ts = some [false, true, true] := by decide

/-- non-vacuity at the closing edge, with a utc offset of −5 h: Friday 17:00 local is 22:00 utc (2024-01-05) -/
example : let c : Sched := ⟨32400000000000, 61200000000000, 0, -300, 1, 5, -18000000000000⟩
    let ts : List Int := [1704491970000000000, 1704492000000000000, 1704492000000000001, 1704492030000000000]
    WeeklyDom c tickMinute ts ∧ ¬ Excluded c tickMinute true ts ∧ run c true ts = some [true, true, false, false] := by decide

/-! ### what the code does on the day-pair classes -/

/-- `start_day = end_day`: a check never changes the state – such a schedule never activates a session that is
inactive and never deactivates one that is active -/
theorem C24_same_day_stuck (c : Sched) (wf : c.WF) (hd : 0 ≤ c.startDay) (h : sameDay c) (clock : Int) (ok : InstOK c clock)
    (prev : Bool) : test c clock prev = some prev := by
  rw [test_weekly c wf hd clock ok prev, weeklyStep_same_day c h]

/-- `start_day = end_day + 1` (e.g. Monday to Sunday): the state latches – it becomes active at the first check inside the
daily hours of any day and never becomes inactive again -/
theorem C24_wrap_adjacent_latches (c : Sched) (wf : c.WF) (hd : 0 ≤ c.startDay) (h : c.startDay = c.endDay + 1) (clock : Int)
    (ok : InstOK c clock) (prev : Bool) :
    test c clock prev = some (prev || inDaily c.start c.endT (localTime c.utcOff clock)) := by
  have : localTime c.utcOff clock = clock + c.toffset := by unfold localTime; rw [wf.2.2.2.2]
  rw [this, test_weekly c wf hd clock ok prev, weeklyStep_adjacent c h]

/-- `start_day > end_day + 1`: the code implements, exactly, the window that closes one day late (on the day after
`end_day` at the end time): from a first state that agrees with that window, every later state agrees with it -/
theorem C24_wrap_closes_a_day_late (c : Sched) (g : Int) (t0 : Int) (ts : List Int)
    (dom : WeeklyDom c g (t0 :: ts)) (h : c.startDay > c.endDay + 1)
    (hC1 : ¬ rangeShorterThanGap c g) (hC2 : ¬ endNearMidnight c g) :
    run c (inWeekly c.startDay c.start (c.endDay + 1) c.endT (localTime c.utcOff t0)) ts =
      some (ts.map (fun t => inWeekly c.startDay c.start (c.endDay + 1) c.endT (localTime c.utcOff t))) := by
  obtain ⟨wf, hsd, hsd6, hed0, _, _, hg, hok, hgaps⟩ := dom
  unfold rangeShorterThanGap at hC1
  unfold endNearMidnight at hC2
  have hl : localTime c.utcOff t0 = t0 + c.toffset := by unfold localTime; rw [wf.2.2.2.2]
  rw [hl, run_tracks c wf hsd g (inWeekly c.startDay c.start (c.endDay + 1) c.endT)
    (fun l' l a b => weeklyStepW_ok c g hed0 (by omega) hsd6 wf.1 (by omega) (by omega) hg l' l a b) ts t0 hgaps
    (fun x hx => hok x (by simp [hx]))]
  rw [map_local c wf (inWeekly c.startDay c.start (c.endDay + 1) c.endT)]

/-! ### witnesses: the weekly clause is false of the code in each class
(2024-01-01 00:00 utc = 1704067200 s is a Monday; every witness satisfies the domain and lies in exactly one class) -/

/-- Monday-only 09:00–17:00 (`start_day="mo"`, no `end_day`): never becomes active -/
theorem C24_finding_same_day :
    ∃ (c : Sched) (ts : List Int), WeeklyDom c tickMinute ts ∧ sameDay c ∧ ¬ wrapAround c ∧ ¬ rangeShorterThanGap c tickMinute ∧
      ¬ endNearMidnight c tickMinute ∧ ¬ badFirstCheck c false ts ∧
      run c false ts = some [false, false, false] ∧ ts.map (inWindow c) = [false, true, true] :=
  ⟨⟨32400000000000, 61200000000000, 0, 0, 1, 1, 0⟩, [1704099570000000000, 1704099600000000000, 1704099630000000000], by decide⟩

/-- `create_schedule` produces exactly this class when only `start_day` is configured -/
theorem C24_finding_same_day_is_the_default :
    createSchedule ⟨some 32400000000000, some 61200000000000, 0, 0, some [109, 111], none⟩ =
      .ok ⟨32400000000000, 61200000000000, 0, 0, 1, 1, 0⟩ := by decide

/-- Friday 09:00 to Monday 17:00: still active after Monday 17:00 -/
theorem C24_finding_wrap_around :
    ∃ (c : Sched) (ts : List Int), WeeklyDom c tickMinute ts ∧ ¬ sameDay c ∧ wrapAround c ∧ ¬ rangeShorterThanGap c tickMinute ∧
      ¬ endNearMidnight c tickMinute ∧ ¬ badFirstCheck c true ts ∧
      run c true ts = some [true, true, true] ∧ ts.map (inWindow c) = [true, true, false] :=
  ⟨⟨32400000000000, 61200000000000, 0, 0, 5, 1, 0⟩, [1704128370000000000, 1704128400000000000, 1704128430000000000], by decide⟩

/-- Monday–Wednesday 10:00:00–10:00:30 polled every 50 s: the check at Monday 10:00:40 is inside the window but stays inactive -/
theorem C24_finding_range_shorter_than_gap :
    ∃ (c : Sched) (ts : List Int), WeeklyDom c tickMinute ts ∧ ¬ sameDay c ∧ ¬ wrapAround c ∧ rangeShorterThanGap c tickMinute ∧
      ¬ endNearMidnight c tickMinute ∧ ¬ badFirstCheck c false ts ∧
      run c false ts = some [false, false] ∧ ts.map (inWindow c) = [false, true] :=
  ⟨⟨36000000000000, 36030000000000, 0, 0, 1, 3, 0⟩, [1704103190000000000, 1704103240000000000], by decide⟩

/-- Monday–Wednesday 09:00–23:59:30 polled every 50 s: the first check after the window closes falls on Thursday 00:00:10
and the state stays active (until Thursday 23:59:30) -/
theorem C24_finding_end_near_midnight :
    ∃ (c : Sched) (ts : List Int), WeeklyDom c tickMinute ts ∧ ¬ sameDay c ∧ ¬ wrapAround c ∧ ¬ rangeShorterThanGap c tickMinute ∧
      endNearMidnight c tickMinute ∧ ¬ badFirstCheck c true ts ∧
      run c true ts = some [true, true] ∧ ts.map (inWindow c) = [true, false] :=
  ⟨⟨32400000000000, 86370000000000, 0, 0, 1, 3, 0⟩, [1704326360000000000, 1704326410000000000], by decide⟩

/-- Monday–Friday 09:00–17:00: a session that starts in the active state (as `Session::atomic_init` sets it) on Sunday
noon stays active; one that starts inactive on Tuesday 20:00 (inside the window) stays inactive -/
theorem C24_finding_first_check :
    ∃ (c : Sched) (ts ts' : List Int), WeeklyDom c tickMinute ts ∧ WeeklyDom c tickMinute ts' ∧ ¬ sameDay c ∧ ¬ wrapAround c ∧
      ¬ rangeShorterThanGap c tickMinute ∧ ¬ endNearMidnight c tickMinute ∧ badFirstCheck c true ts ∧ badFirstCheck c false ts' ∧
      run c true ts = some [true, true] ∧ ts.map (inWindow c) = [false, false] ∧
      run c false ts' = some [false, false] ∧ ts'.map (inWindow c) = [true, true] :=
  ⟨⟨32400000000000, 61200000000000, 0, 0, 1, 5, 0⟩, [1704024000000000000, 1704024030000000000],
    [1704225600000000000, 1704225630000000000], by decide⟩

/-! ## create_schedule -/

/-- a weekday attribute: decoded when present, otherwise the default -/
def dayOf (x : Option (List Nat)) (dflt : Int) : Int := match x with | some s => decodeDow s | none => dflt

/-- with both times given: `end ≤ start` is rejected; otherwise the schedule carries the two times, the utc offset and the
decoded weekdays, and `end_day` defaults to `start_day` when absent (to −1 = "daily" when that is absent or undecodable) -/
theorem C24_create (st e : Int) (dur : Nat) (utc : Int) (sd ed : Option (List Nat))
    (hst : st ≠ errorTicks) (he : e ≠ errorTicks) (hfit : fits64 (utc * tickMinute)) :
    createSchedule ⟨some st, some e, dur, utc, sd, ed⟩ =
      if e ≤ st then .configError
      else .ok ⟨st, e, dur, utc, dayOf sd (-1), dayOf ed (if dayOf sd (-1) < 0 then -1 else dayOf sd (-1)), utc * tickMinute⟩ := by
  unfold createSchedule dayOf
  simp only [hst, he, if_false]
  by_cases h : e ≤ st
  · simp [h]
  · cases sd <;> cases ed <;> simp [h, Sched.make, mulT, hfit]

/-! ## 3. decode_dow -/

/-- the unique prefixes, computed from the `day_names` table of the source -/
theorem C24_unique_prefixes : (List.range 7).map uniquePrefix =
    [some [115, 117], some [109], some [116, 117], some [119], some [116, 104], some [102], some [115, 97]] := by decide

/-- for ALL strings: `decode_dow` returns weekday `d` exactly when the string is the digit `d` or its lower-cased text begins
with the unique one- or two-letter prefix of day `d` … -/
theorem C24_decode_dow (s : List Nat) (d : Nat) (hd : d < 7) : decodeDow s = (d : Int) ↔ namesDay s d := by
  rw [decodeDow_direct]
  exact dowDirect_iff s d hd

/-- … and nothing else: every other string decodes to −1 -/
theorem C24_decode_dow_range (s : List Nat) : decodeDow s = -1 ∨ ∃ d : Nat, d < 7 ∧ decodeDow s = (d : Int) := by
  rw [decodeDow_direct]
  exact dowDirect_range _

example : decodeDow [83, 65, 84] = 6 ∧ namesDay [83, 65, 84] 6 := by
  refine ⟨by decide, Or.inr ⟨[115, 97], by decide, by decide⟩⟩

end Fix8Model.Props.C24
