import Fix8Model.Session.InboundLemmas
import Fix8Model.Session.Scan
import Fix8Model.Session.ScanLemmas
/-!
C19 – Inbound messages reach the application only when in sequence.

Model: `Session::process` with `enforce` / `sequence_check` / `compid_check` (Fix8Model/Session/Step.lean), the application
being the pattern of every sample application (`enforce(seqnum, msg) || deliver`).  All statements are for EVERY state `s` of the
session (hence for the state reached by every history, see `C19_history`), every inbound frame (`scan` = what the `34=` search
of `process` extracts from the raw bytes, `dec` = what `Message::factory` makes of them).

`process` compares the SCANNED number, the property speaks of the MsgSeqNum FIELD: the two are tied by `ScanFaithful`.
On the base commit the scan took the first "34=" substring (DESIGN section 8 row 15, fixed: `C19_fixed_scan_*`); after the fix
(search for SOH "34=") they can still differ when a data field (SecureData 91, preceded by its length 90) that contains
SOH "34=" comes before tag 34 – known finding `seqnum-from-data-field` (`C19_finding_data_field`).
Second known finding `logoff-without-logout`: the session is torn down (`stop()`) WITHOUT a Logout message unless the
state is `logon_received` (`C19_finding_no_logout`).
-/
namespace Fix8Model.Props.C19
open Fix8Model.Session

/-- the acceptance condition of the property on the decoded MsgSeqNum field -/
def InSeqOrDup (expected : Nat) (m : Msg) : Prop :=
  m.seq = expected ∨ (m.seq < expected ∧ m.possDup = some true ∧ ∀ o, m.ost = some o → o ≤ m.st)

/-- ¬ Excluded: the number `process` scanned out of the raw bytes is the decoded MsgSeqNum -/
def ScanFaithful (scan : Option Nat) (dec : Dec) : Prop := ∀ m, dec = .ok m → scan = some m.seq

/-- a frame of the given type among the outputs -/
def SentType (outs : List Out) (t : MT) : Prop := ∃ m, Out.wire m ∈ outs ∧ m.mtype = t

private theorem deliver_of_dispatch {s : Sess} {sq : Nat} {m : Msg} {raw : Nat} {m' : Msg}
    (h : Out.deliver raw m' ∈ (dispatch s sq m).outs) :
    (∃ c, m.mtype = .app c) ∧ raw = sq ∧ m' = m ∧ (dispatch s sq m).exc = none ∧ (enforce s sq m).2 = false ∧ (enforce s sq m).1.exc = none := by
  by_cases hc : ∃ c, m.mtype = .app c
  · obtain ⟨c, hc⟩ := hc
    refine ⟨⟨c, hc⟩, ?_⟩
    unfold dispatch at h ⊢
    rw [hc] at h ⊢
    simp only [handleApplication] at h ⊢
    split at h
    · rename_i x hx
      exact absurd h (fun hh => (enforce_onlyWire s sq m).noDeliver _ hh raw m' rfl)
    · rename_i hx
      split at h
      · exact absurd h (fun hh => (enforce_onlyWire s sq m).noDeliver _ hh raw m' rfl)
      · rename_i h2
        rcases List.mem_append.mp h with hh | hh
        · exact absurd hh (fun hh => (enforce_onlyWire s sq m).noDeliver _ hh raw m' rfl)
        · simp at hh
          simp [hx, h2, hh.1, hh.2]
  · exfalso
    have := dispatch_onlyWire s sq m (fun c hcc => hc ⟨c, hcc⟩)
    exact this.noDeliver _ h raw m' rfl

private theorem deliver_of_process {s : Sess} {scan : Option Nat} {dec : Dec} {raw : Nat} {m' : Msg}
    (h : Out.deliver raw m' ∈ (process s scan dec).2) :
    ∃ sq m, scan = some sq ∧ dec = .ok m ∧ Out.deliver raw m' ∈ (dispatch s sq m).outs := by
  unfold process at h
  split at h
  · obtain ⟨w, hw, he⟩ := softReject_outs s 0 []
    rw [he] at h; simp at h
    exact absurd h (fun hh => hw.noDeliver _ hh raw m' rfl)
  · rename_i sq
    split at h
    · cases h
    · obtain ⟨w, hw, he⟩ := logoff_outs s []
      rw [he] at h; simp at h
      exact absurd h (fun hh => hw.noDeliver _ hh raw m' rfl)
    · obtain ⟨w, hw, he⟩ := softReject_outs s sq []
      rw [he] at h; simp at h
      exact absurd h (fun hh => hw.noDeliver _ hh raw m' rfl)
    · rename_i m
      refine ⟨sq, m, rfl, rfl, ?_⟩
      have hpre : ∀ x, x ∈ (if m.admin then [Out.admin sq] else []) → x ≠ Out.deliver raw m' := by
        intro x hx; split at hx
        · simp at hx; rw [hx]; intro hh; cases hh
        · cases hx
      simp only [] at h
      split at h
      · obtain ⟨w, hw, he⟩ := logoff_outs (dispatch s sq m).s ((if m.admin then [Out.admin sq] else []) ++ (dispatch s sq m).outs)
        rw [he] at h
        rcases List.mem_append.mp h with hh | hh
        · rcases List.mem_append.mp hh with h3 | h3
          · exact absurd rfl (hpre _ h3)
          · exact h3
        · exact absurd hh (fun hh => hw.noDeliver _ hh raw m' rfl)
      · obtain ⟨w, hw, he⟩ := softReject_outs (dispatch s sq m).s sq ((if m.admin then [Out.admin sq] else []) ++ (dispatch s sq m).outs)
        rw [he] at h
        rcases List.mem_append.mp h with hh | hh
        · rcases List.mem_append.mp hh with h3 | h3
          · exact absurd rfl (hpre _ h3)
          · exact h3
        · exact absurd hh (fun hh => hw.noDeliver _ hh raw m' rfl)
      · rcases List.mem_append.mp h with h3 | h3
        · exact absurd rfl (hpre _ h3)
        · exact h3

/-- **C19, delivery**: in every state, an inbound frame reaches the application only if it decoded, the session is
established, its CompIDs pass when enforcement is on, and its MsgSeqNum equals the expected number or is lower with
PossDupFlag=Y and OrigSendingTime not after SendingTime. -/
theorem C19_delivery (s : Sess) (scan : Option Nat) (dec : Dec) (raw : Nat) (m : Msg)
    (hx : ScanFaithful scan dec) (h : Out.deliver raw m ∈ (process s scan dec).2) :
    dec = .ok m ∧ raw = m.seq ∧ InSeqOrDup s.nr m ∧ s.state.established = true ∧
    ¬ (s.state ≠ .logonReceived ∧ compidBad s m) := by
  obtain ⟨sq, m0, hs, hd, hdel⟩ := deliver_of_process h
  obtain ⟨_, hraw, hm, _, hen, hexc⟩ := deliver_of_dispatch hdel
  subst hm
  have hsq : sq = m.seq := by have := hx m hd; rw [hs] at this; exact Option.some.inj this
  subst hraw
  refine ⟨hd, hsq, ?_⟩
  rw [hsq] at hen hexc
  unfold enforce at hen hexc
  split at hen
  · rename_i hest
    split at hen
    · simp at hen
    · rename_i hcomp
      split at hen
      · simp only [Bool.not_eq_eq_eq_not, Bool.not_false] at hen
        simp only [] at hexc
        refine ⟨?_, hest, hcomp⟩
        unfold sequenceCheck at hen hexc
        unfold InSeqOrDup
        split at hen
        · split at hen <;> simp at hen
        · split at hen
          · rename_i h1 h2
            split at hen
            · simp at hen
            · rename_i hpd
              right
              refine ⟨h2, by simpa using hpd, ?_⟩
              intro o ho
              rw [ho] at hen hexc
              simp only [] at hen hexc
              split at hen
              · simp at hen
              · omega
          · left; omega
      · simp at hen
  · simp at hen

/-- **C19, too high**: an application message above the expected number in the `continuous` state is not delivered and
exactly one frame goes out: a ResendRequest whose BeginSeqNo is the expected number (EndSeqNo 0). -/
theorem C19_too_high (s : Sess) (m : Msg) (c : Nat) (hb : s.buf = [])
    (hst : s.state = .continuous) (ht : m.mtype = .app c) (hc : ¬ compidBad s m) (hhi : m.seq > s.nr) :
    (process s (some m.seq) (.ok m)).2 =
      (if m.admin then [Out.admin m.seq] else []) ++
        [Out.wire { mkResend s s.nr 0 with seq := s.ns, st := s.now }] ∧
    (process s (some m.seq) (.ok m)).1.state = .resendRequestSent ∧
    NoDeliver (process s (some m.seq) (.ok m)).2 := by
  have hout := sendProcess_outs s { m := mkResend s s.nr 0 } hb rfl
  have key : (process s (some m.seq) (.ok m)).2 =
      (if m.admin then [Out.admin m.seq] else []) ++ [Out.wire { mkResend s s.nr 0 with seq := s.ns, st := s.now }] ∧
      (process s (some m.seq) (.ok m)).1.state = .resendRequestSent := by
    simp only [process, dispatch, ht, handleApplication, enforce, hst, St.established, sequenceCheck, hhi, hc,
      if_true, and_false, if_false, ne_eq, reduceCtorEq, not_false_eq_true, Bool.not_false, updatePersist]
    simp [hout.1, builtFrame]
  refine ⟨key.1, key.2, ?_⟩
  rw [key.1]
  intro o ho raw m' he
  rcases List.mem_append.mp ho with h | h
  · split at h
    · simp at h; rw [h] at he; cases he
    · cases h
  · simp at h; rw [h] at he; cases he

/-- **C19, in sequence (converse)**: an application message that satisfies the acceptance condition in an established
state with acceptable CompIDs IS delivered, nothing is written and the expected number advances. -/
theorem C19_accepted_delivered (s : Sess) (m : Msg) (c : Nat)
    (hest : s.state.established = true) (ht : m.mtype = .app c)
    (hc : ¬ (s.state ≠ .logonReceived ∧ compidBad s m)) (hacc : InSeqOrDup s.nr m) :
    (process s (some m.seq) (.ok m)).2 = (if m.admin then [Out.admin m.seq] else []) ++ [Out.deliver m.seq m] ∧
    (process s (some m.seq) (.ok m)).1.nr = s.nr + 1 := by
  have hd : dispatch s m.seq m = ⟨s, [Out.deliver m.seq m], none⟩ := by
    simp only [dispatch, ht, handleApplication, enforce, hest, if_true, hc, if_false]
    rcases hacc with h | ⟨h1, h2, h3⟩
    · simp [sequenceCheck, h, R.ok]
    · have hgt : ¬ m.seq > s.nr := by omega
      cases ho : m.ost with
      | none => simp [sequenceCheck, hgt, h1, h2, ho, R.ok]
      | some o =>
        have hot : ¬ o > m.st := by have := h3 o ho; omega
        simp [sequenceCheck, hgt, h1, h2, ho, hot, R.ok]
  simp only [process, hd, ht, updatePersist]
  simp

/-- the forced-logoff exit of `process`: the session is shut down, nothing is delivered, and a Logout frame is written
exactly when the state at that moment is `logon_received` -/
theorem logoff_spec (s : Sess) (pre : List Out) (hb : s.buf = []) :
    (logoff s pre).1.shutdown = true ∧
    (s.state = .logonReceived → (logoff s pre).2 = pre ++ [Out.wire { mkLogout s with seq := s.ns, st := s.now }]) ∧
    (s.state ≠ .logonReceived → (logoff s pre).2 = pre) := by
  unfold logoff
  split
  · rename_i h
    have := sendProcess_outs { s with state := .terminated } { m := mkLogout s, noInc := true } hb rfl
    refine ⟨rfl, fun _ => ?_, fun h2 => absurd h h2⟩
    simp only []
    rw [this.1]
    simp [builtFrame, mkLogout, Sess.fresh]
  · rename_i h
    exact ⟨rfl, fun h2 => absurd h2 h, fun _ => rfl⟩

/-- **C19, too low / bad CompID / bad OrigSendingTime**: an application message below the expected number without
PossDupFlag=Y (or with OrigSendingTime after SendingTime), or with wrong CompIDs when enforcement is on, or above the expected
number outside the `continuous` state, is not delivered and the session is shut down.  No Logout frame is written
(the state is not `logon_received` while an application message is being handled after logon) – known finding. -/
theorem C19_logoff_path (s : Sess) (m : Msg) (c : Nat) (hb : s.buf = [])
    (hest : s.state.established = true) (ht : m.mtype = .app c)
    (hbad : (s.state ≠ .logonReceived ∧ compidBad s m) ∨
            (m.seq < s.nr ∧ m.possDup ≠ some true) ∨
            (m.seq < s.nr ∧ ∃ o, m.ost = some o ∧ o > m.st) ∨
            (m.seq > s.nr ∧ s.state ≠ .continuous)) :
    (process s (some m.seq) (.ok m)).1.shutdown = true ∧
    NoDeliver (process s (some m.seq) (.ok m)).2 ∧
    (s.state ≠ .logonReceived →
      (process s (some m.seq) (.ok m)).2 = (if m.admin then [Out.admin m.seq] else [])) := by
  have hthrow : (dispatch s m.seq m).exc = some true ∧ (dispatch s m.seq m).s = s ∧ (dispatch s m.seq m).outs = [] := by
    simp only [dispatch, ht, handleApplication, enforce, hest, if_true]
    by_cases h1 : s.state ≠ .logonReceived ∧ compidBad s m
    · simp [h1, R.throw]
    · rcases hbad with hb1 | hb2 | hb3 | hb4
      · exact absurd hb1 h1
      · have : ¬ m.seq > s.nr := by omega
        simp [h1, ht, sequenceCheck, this, hb2.1, hb2.2, R.throw]
      · obtain ⟨hlt, o, ho, hgt⟩ := hb3
        have : ¬ m.seq > s.nr := by omega
        by_cases hpd : m.possDup = some true
        · simp [h1, ht, sequenceCheck, this, hlt, hpd, ho, hgt, R.throw]
        · simp [h1, ht, sequenceCheck, this, hlt, hpd, R.throw]
      · simp [h1, ht, sequenceCheck, hb4.1, hb4.2, R.throw]
  obtain ⟨he, hs, ho⟩ := hthrow
  have hp : process s (some m.seq) (.ok m) = logoff s ((if m.admin then [Out.admin m.seq] else []) ++ []) := by
    simp only [process, he, hs, ho]
  rw [hp]
  obtain ⟨h1, h2, h3⟩ := logoff_spec s ((if m.admin then [Out.admin m.seq] else []) ++ []) hb
  refine ⟨h1, ?_, fun hne => by rw [h3 hne]; simp⟩
  obtain ⟨w, hw, hwe⟩ := logoff_outs s ((if m.admin then [Out.admin m.seq] else []) ++ [])
  rw [hwe]
  apply NoDeliver.append _ hw.noDeliver
  intro o hoo raw m' heq
  rw [List.append_nil] at hoo
  split at hoo
  · simp at hoo; rw [hoo] at heq; cases heq
  · cases hoo

/-- **C19, undecodable**: a frame the codec rejects (any f8Exception without force_logoff: bad checksum, bad body, missing
mandatory field, unknown type ...) is never delivered and is answered by exactly one Reject whose RefSeqNum is the scanned
number; the expected number advances. -/
theorem C19_undecodable (s : Sess) (sq : Nat) (hb : s.buf = []) :
    (process s (some sq) (.throws false)).2 = [Out.wire { mkReject s sq with seq := s.ns, st := s.now }] ∧
    (process s (some sq) (.throws false)).1.nr = s.nr + 1 ∧
    (process s (some sq) (.throws false)).1.shutdown = s.shutdown := by
  have := sendProcess_outs s { m := mkReject s sq } hb rfl
  simp only [process, softReject, List.nil_append]
  rw [this.1]
  simp [builtFrame, mkReject, Sess.fresh, updatePersist]

/-- a frame without any MsgSeqNum for the scan: Reject with RefSeqNum 0, no delivery -/
theorem C19_no_seqnum (s : Sess) (dec : Dec) (hb : s.buf = []) :
    (process s none dec).2 = [Out.wire { mkReject s 0 with seq := s.ns, st := s.now }] := by
  have := sendProcess_outs s { m := mkReject s 0 } hb rfl
  simp only [process, softReject, List.nil_append]
  rw [this.1]
  simp [builtFrame, mkReject, Sess.fresh]

/-- a frame the codec rejects with force_logoff (wrong BeginString): not delivered, session shut down -/
theorem C19_undecodable_forced (s : Sess) (sq : Nat) (hb : s.buf = []) :
    (process s (some sq) (.throws true)).1.shutdown = true ∧ NoDeliver (process s (some sq) (.throws true)).2 := by
  have hp : process s (some sq) (.throws true) = logoff s [] := rfl
  rw [hp]
  refine ⟨(logoff_spec s [] hb).1, ?_⟩
  obtain ⟨w, hw, he⟩ := logoff_outs s []
  rw [he]; simpa using hw.noDeliver

/-- **C19, the scan is faithful**: for a frame `f0 pre… 34=<digits><SOH> post` in which no tag or value in front of the
MsgSeqNum field contains SOH (every field except length-prefixed data) and no earlier field has tag 34, the number
`process` extracts (fixed code) is the decimal value of the MsgSeqNum field – whatever else those values contain, e.g. the text
`34=`.  This discharges `ScanFaithful` for such frames (the codec's `seq` being the value of the first tag-34 field). -/
theorem C19_scan_faithful (f0 : Fld) (pre : List Fld) (digits post : List Nat)
    (h0 : f0.WF) (hpre : ∀ f ∈ pre, f.WF ∧ f.tag ≠ tag34)
    (hd : ∀ d ∈ digits, 48 ≤ d ∧ d ≤ 57) (hv : decimal digits < 4294967296) :
    scanSeq true (f0.render ++ (renderAll pre ++ (tag34 ++ 61 :: (digits ++ 1 :: post)))) = some (decimal digits) :=
  scan_fields f0 pre digits post h0 hpre hd hv

/-- non-vacuity: `8=FIX.4.2 | 115=A34=9 | 34=2 | …` scans as 2 -/
example : scanSeq true ((⟨[56], [70, 73, 88]⟩ : Fld).render ++ (renderAll [⟨[49, 49, 53], [65, 51, 52, 61, 57]⟩] ++ (tag34 ++ 61 :: ([50] ++ 1 :: [53, 50, 61, 120, 1])))) = some 2 := by
  decide

/-! ### every history -/

/-- the run of a history as the list of (state before the event, event, outputs of the event) -/
def trace (s : Sess) : List Ev → List (Sess × Ev × List Out)
  | [] => []
  | ev :: rest => (s, ev, (s.step ev).2) :: trace (s.step ev).1 rest

private theorem sendBatch_onlyWire : ∀ (pids : List Nat) (s : Sess), OnlyWire (sendBatch s pids).2
  | [], _ => OnlyWire.nil
  | [_], s => sendProcess_onlyWire _ _
  | p :: q :: rest, s => by
    simp only [sendBatch]
    exact (sendProcess_onlyWire _ _).append (sendBatch_onlyWire (q :: rest) _)

/-- **C19 over histories**: in the run of EVERY history from EVERY initial world, each delivery to the application was
caused by an inbound event that decoded to exactly that message, and (when the scan is faithful) its MsgSeqNum satisfied
the acceptance condition against the expected number of the state the session was in at that moment. -/
theorem C19_history (init : Sess) (h : List Ev) :
    ∀ e ∈ trace init h, ∀ raw m, Out.deliver raw m ∈ e.2.2 →
      ∃ scan, e.2.1 = .inbound scan (.ok m) ∧ (ScanFaithful scan (.ok m) → raw = m.seq ∧ InSeqOrDup e.1.nr m) := by
  induction h generalizing init with
  | nil => intro e he; cases he
  | cons ev rest ih =>
    intro e he raw m hd
    simp only [trace, List.mem_cons] at he
    rcases he with he | he
    · subst he
      simp only [] at hd ⊢
      cases ev with
      | clock ms => simp [Sess.step] at hd
      | start ss rs =>
        exfalso
        have : OnlyWire (init.step (.start ss rs)).2 := by
          show OnlyWire (startSession init ss rs).2
          unfold startSession; dsimp only; exact sendProcess_onlyWire _ _
        exact this.noDeliver _ hd raw m rfl
      | appSend p c n =>
        exfalso
        simp only [Sess.step] at hd
        split at hd
        · exact (sendProcess_onlyWire _ _).noDeliver _ hd raw m rfl
        · cases hd
      | admSend c n =>
        exfalso
        simp only [Sess.step] at hd
        split at hd
        · exact (sendProcess_onlyWire _ _).noDeliver _ hd raw m rfl
        · cases hd
      | batch pids =>
        exfalso
        simp only [Sess.step] at hd
        split at hd
        · exact (sendBatch_onlyWire _ _).noDeliver _ hd raw m rfl
        · cases hd
      | inbound scan dec =>
        simp only [Sess.step] at hd
        split at hd
        · obtain ⟨sq, m0, hs, hdd, hdel⟩ := deliver_of_process hd
          obtain ⟨_, _, hm, _⟩ := deliver_of_dispatch hdel
          subst hm
          refine ⟨scan, by rw [hdd], fun hx => ?_⟩
          have := C19_delivery init scan dec raw m (by rw [hdd]; exact hx) hd
          exact ⟨this.2.1, this.2.2.1⟩
        · cases hd
    · exact ih _ e he raw m hd

/-! ### non-vacuity -/

/-- a session in the `continuous` state expecting 5 -/
def s5 : Sess := { cfg := ⟨true, 1, 2⟩, started := true, state := .continuous, ns := 7, nr := 5, store := some ⟨[], none⟩ }
def order (seq : Nat) : Msg := { mtype := .app 68, seq := seq, snd := 2, tgt := 1, pid := some 9, admin := false }

/-- in sequence: delivered -/
example : (process s5 (some 5) (.ok (order 5))).2 = [Out.deliver 5 (order 5)] := by decide
/-- a possible duplicate below the expected number with OrigSendingTime ≤ SendingTime: delivered -/
example : (process s5 (some 3) (.ok { order 3 with possDup := some true, st := 10, ost := some 9 })).2
    = [Out.deliver 3 { order 3 with possDup := some true, st := 10, ost := some 9 }] := by decide
/-- the hypotheses of `C19_too_high` and `C19_logoff_path` are satisfiable -/
example : s5.buf = [] ∧ s5.state = .continuous ∧ (order 9).mtype = .app 68 ∧ ¬ compidBad s5 (order 9) ∧ (order 9).seq > s5.nr := by decide
example : s5.state.established = true ∧ (order 2).seq < s5.nr ∧ (order 2).possDup ≠ some true := by decide
example : ScanFaithful (some 5) (.ok (order 5)) := by intro m h; cases h; rfl

/-! ### findings -/

/-- the frame `8=FIX.4.2|9=..|35=D|49=SRV|56=CLI|115=A34=9|34=2|52=...` (only the part up to tag 52 matters for the scan) -/
def witnessFrame : List Nat :=
  [56,61,70,73,88,46,52,46,50,1, 57,61,49,48,48,1, 51,53,61,68,1, 52,57,61,83,82,86,1, 53,54,61,67,76,73,1,
   49,49,53,61,65,51,52,61,57,1, 51,52,61,50,1, 53,50,61,50,48,50,48,1]

/-- finding (fixed by a `fix:` commit, DESIGN section 8 row 15): the base commit's search for "34=" takes 9 out of
`115=A34=9`; with 2 expected the in-sequence message 2 is not delivered and a ResendRequest goes out. -/
theorem C19_finding_first_substring :
    scanSeq false witnessFrame = some 9 ∧
    ¬ ScanFaithful (scanSeq false witnessFrame) (.ok (order 2)) ∧
    (process { s5 with nr := 2 } (scanSeq false witnessFrame) (.ok (order 2))).2
      = [Out.wire { mkResend s5 2 0 with seq := 7 }] := by
  refine ⟨by decide, ?_, by decide⟩
  intro h; have := h (order 2) rfl; revert this; decide

/-- after the fix (search for SOH "34=") the same frame is scanned as 2 and delivered -/
theorem C19_fixed_scan_witness :
    scanSeq true witnessFrame = some 2 ∧
    (process { s5 with nr := 2 } (scanSeq true witnessFrame) (.ok (order 2))).2 = [Out.deliver 2 (order 2)] := by
  constructor <;> decide

/-- `...|90=6|91=Z<SOH>34=9|34=2|...`: SecureData (a length-prefixed data field of the header) containing SOH "34=" -/
def witnessData : List Nat :=
  [56,61,70,73,88,46,52,46,50,1, 57,61,49,48,48,1, 51,53,61,68,1, 52,57,61,83,82,86,1, 53,54,61,67,76,73,1,
   57,48,61,54,1, 57,49,61,90,1,51,52,61,57,1, 51,52,61,50,1, 53,50,61,50,48,50,48,1]

/-- KNOWN finding `seqnum-from-data-field`: also the fixed scan is fooled by SOH "34=" inside a data field before tag 34 -/
theorem C19_finding_data_field :
    scanSeq true witnessData = some 9 ∧
    NoDeliver (process { s5 with nr := 2 } (scanSeq true witnessData) (.ok (order 2))).2 := by
  refine ⟨by decide, ?_⟩
  have : (process { s5 with nr := 2 } (scanSeq true witnessData) (.ok (order 2))).2 = [Out.wire { mkResend s5 2 0 with seq := 7 }] := by decide
  rw [this]; intro o ho raw m he; simp at ho; rw [ho] at he; cases he

/-- KNOWN finding `logoff-without-logout`: a too-low message without PossDupFlag in the `continuous` state shuts the
session down and NO Logout (nor anything else) is written. -/
theorem C19_finding_no_logout :
    (process s5 (some 2) (.ok (order 2))).2 = [] ∧ (process s5 (some 2) (.ok (order 2))).1.shutdown = true := by
  constructor <;> decide

/-- ...whereas during logon (`logon_received`) the Logout is written: the Logon reply with a number above the expected one -/
example : (process { s5 with state := .logonSent } (some 9) (.ok { order 9 with mtype := .logon, admin := true })).2
    = [Out.admin 9, Out.wire { mkLogout s5 with seq := 7 }] := by decide

end Fix8Model.Props.C19
