import Fix8Model.Xml.FindLemmas
import Fix8Model.Xml.AttrsLemmas
import Fix8Model.Xml.ParseLemmas
import Fix8Model.Xml.RoundTrip
/-!
C32 – XML configuration parser preserves element trees (`runtime/xml.cpp`, `include/fix8/xml.hpp`).

Everything here is about the models in `Fix8Model/Xml/*` with `XmlElement::flags_ = {noextensions}`
(no `${ENV}` / `!{cmd}` expansion, no `/* */` attribute comments), `nocase` off, default delimiter `/`.
Bytes are `Nat`s, strings are `List Nat`.  Clauses of the property:

(a) arbitrary input bytes: the parser is total (`C32_parse_total`, `C32_inbounds`);
(b) references are decoded: `C32_xlate_roundtrip` (FALSE in general: `C32_finding_double_decoding`), `C32_xlate_fixpoint`;
(c) attribute maps: `C32_attrs_roundtrip` (`C32_finding_docpath`: the name `docpath` is reserved);
(d) element trees: `C32_parse_roundtrip`, `C32_depth_limit`;
(e) path lookups: `C32_find_all`, `C32_find_first`, `C32_find_root_based`.
-/
namespace Fix8Model.Props.C32
open Fix8Model Fix8Model.Xml

/-! ### (a) totality -/

/-- `parseDoc` is defined by structural recursion on a fuel argument (`2 * length + 8`); the fuel is never
what ends the run: on EVERY byte string the result is a tree or one of the parse errors of the code. -/
theorem C32_parse_total (s : Bytes) : parseDoc s ≠ .error .fuel := by
  unfold parseDoc
  have hn : need {} { rest := s } ≤ docFuel s := by
    have := need_le {} { rest := s }
    simp [docFuel] at this ⊢; omega
  have h1 := parseLoop_fuel_ok (docFuel s) 0 0 {} { rest := s } hn
  cases h : parseLoop (docFuel s) 0 0 {} { rest := s } with
  | error e => simp only; intro he; injection he with he; subst he; exact h1 h
  | ok x =>
    simp only
    intro he
    exact finishElem_no_fuel x.1 he

/-- the model never indexes: the stream is a list consumed from the front.  The read position stays
inside the document whatever the bytes are – `putback` never moves before the start, nothing is read
after the end (at the end `get` fails and sets `eofbit|failbit`). -/
theorem C32_inbounds (f d lc : Nat) (fr fr' : Frame) (s s' : Stream) (h : parseLoop f d lc fr s = .ok (fr', s')) :
    s'.rest.length ≤ s.rest.length :=
  (parseLoop_progress f d lc fr s fr' s' h).1

/-! ### (b) references -/

/-- text without NUL whose own bytes contain no `&name;` and no `&#n;` / `&#xh;` (the excluded class) -/
def RefFree (s : Bytes) : Prop := findNamed s = none ∧ findNum s = none

/-- writing `& < > " '` as `&amp; &lt; &gt; &quot; &apos;` and decoding gives the text back – for every string
without NUL outside the known-finding class (text that after decoding still contains a reference) -/
theorem C32_xlate_roundtrip (s : Bytes) (h0 : 0 ∉ s) (h : RefFree s) : xlate (escape s) = s :=
  xlate_escape s h0 h.1 h.2

example : (0 ∉ ([97, 38, 60, 62, 34, 39, 32, 59, 35, 38, 120] : Bytes)) ∧ RefFree [97, 38, 60, 62, 34, 39, 32, 59, 35, 38, 120] := by
  refine ⟨by decide, by decide, by decide⟩

/-- KNOWN FINDING double-decoding: both loops search again from the start of the string after every
replacement.  `&amp;lt;` (the text `&lt;`) decodes to `<`; `&amp;#65;` (the text `&#65;`) to `A`;
the element text `t&amp;gt;` to `t>`. -/
theorem C32_finding_double_decoding :
    xlate (escape [38, 108, 116, 59]) = [60] ∧ ¬ RefFree [38, 108, 116, 59] ∧
    xlate (escape [38, 35, 54, 53, 59]) = [65] ∧ ¬ RefFree [38, 35, 54, 53, 59] ∧
    xlate [116, 38, 97, 109, 112, 59, 103, 116, 59] = [116, 62] := by
  refine ⟨by decide, by unfold RefFree; decide, by decide, by unfold RefFree; decide, by decide⟩

/-- the excluded class is not wider than "contains a reference": whenever the named-reference half of `RefFree` fails,
the string literally contains `&` name `;` (name = two or more of `a-z`, then any of `1-4`) with no NUL before it -/
theorem C32_class_exact (s pre nm suf : Bytes) (h : findNamed s = some (pre, nm, suf)) :
    s = pre ++ 38 :: nm ++ 59 :: suf ∧ 0 ∉ pre :=
  findNamed_shape s pre nm suf h

/-- the two loops of `InplaceXlate` end because nothing is left to replace, never because of the model's fuel:
after the first loop no named reference is left, in the result no numeric reference is left -/
theorem C32_xlate_fixpoint (s : Bytes) :
    findNamed (xlateNamed (s.length + 1) s) = none ∧ findNum (xlate s) = none :=
  ⟨xlateNamed_done _ s (by omega), xlateNum_done _ _ (by omega)⟩

/-! ### (c) attributes -/

/-- `ParseAttrs` reads back every attribute map (ordered by key like the `std::map`) printed as ` name="value"`:
names non-empty, not starting with `/`, free of white space and of `= " ' \`, not the reserved name `docpath`;
values any bytes except NUL outside the double-decoding class, markup characters written as references -/
theorem C32_attrs_roundtrip (m : Attrs) (hs : m.Pairwise (fun a b => bytesLt a.1 b.1 = true))
    (hok : ∀ a ∈ m, NameOK a.1 ∧ 0 ∉ a.2 ∧ RefFree a.2) : parseAttrs (printAttrs m) = .ok m :=
  parseAttrs_printAttrs m hs (fun a ha => ⟨(hok a ha).1, (hok a ha).2.1, (hok a ha).2.2.1, (hok a ha).2.2.2⟩)

example : ∃ m : Attrs, m.length = 2 ∧ m.Pairwise (fun a b => bytesLt a.1 b.1 = true) ∧ (∀ a ∈ m, NameOK a.1 ∧ 0 ∉ a.2 ∧ RefFree a.2) :=
  ⟨[([105, 100], [49, 60, 38]), ([110, 47, 97], [34, 32, 39])], rfl, by decide,
   by
    intro a ha
    simp at ha
    rcases ha with rfl | rfl
    · exact ⟨⟨by decide, 105, [100], rfl, by decide, by decide⟩, by decide, by decide, by decide⟩
    · exact ⟨⟨by decide, 110, [47, 97], rfl, by decide, by decide⟩, by decide, by decide, by decide⟩⟩

/-- the attribute name `docpath` is reserved: it is dropped without an error (minor, by design of the code) -/
theorem C32_finding_docpath : parseAttrs (printAttrs [(docpath, [49])]) = .ok [] := by rfl

/-! ### (d) element trees -/

/-- `parse (print t) = t` for EVERY well-formed element tree of any width and of nesting up to `MaxDepth` (128 levels below
the root): tags printable without white space and without `= \ " ' > / <`, not starting with `?`/`!`, not `xi:include`;
attribute maps ordered by key with printable names (no white space, none of `= " ' \ >`, not starting with `/`, not
`docpath`); attribute values and text printable and outside the double-decoding class, text not blank; no declaration.
`print` writes `& < > " '` as references, an element without text and children as `<tag attrs/>`, otherwise
`<tag attrs>text children</tag>`.  Same tags, same attribute maps, same text, same child order. -/
theorem C32_parse_roundtrip (e : Elem) (hwf : wfElem e = true) (hd : height e ≤ maxDepth) : parseDoc (print e) = .ok e := by
  have run := elemRun e hwf 0 [] (by omega) 0
  simp only [List.append_nil] at run
  have hn : need {} (S (print e)) ≤ docFuel (print e) := by
    have := need_le {} (S (print e))
    simp [docFuel, S] at this ⊢; omega
  have res := Run.result 0 0 {} (S (print e)) _ run (by simp) (docFuel (print e)) hn
  unfold parseDoc
  have e1 : ({ rest := print e } : Stream) = S (print e) := rfl
  rw [e1, res]
  simp only
  exact finishElem_finalFrame e hwf

/-- `<cfg id="1&amp;2"><a n="x"/>t &lt; u<a><b/></a></cfg>` as a tree: the premises are satisfiable on a tree with same-tag
siblings, attributes and text that need escaping, nesting 2 -/
example :
    let t : Elem := ⟨[99, 102, 103], [([105, 100], [49, 38, 50])], some [116, 32, 60, 32, 117], none,
      [⟨[97], [([110], [120])], none, none, []⟩, ⟨[97], [], none, none, [⟨[98], [], none, none, []⟩]⟩]⟩
    wfElem t = true ∧ height t = 2 ∧ height t ≤ maxDepth := by
  decide

example : maxDepth = 128 := rfl

/-- the nesting limit as coded: an element at depth `MaxDepth` cannot get a child – any `<` in its content that is not
followed by `/` (an element, but also a comment) raises "maximum depth exceeded" -/
theorem C32_depth_limit (lc : Nat) (fr : Frame) (p : Nat) (r : Bytes) (hv : fr.state = .value) (hp : p ≠ 47) :
    step maxDepth lc fr (S (60 :: p :: r)) = .fail .depth := by
  simp [step, S, Stream.good, Stream.get, Stream.peek, hv, hp]

/-! ### (e) path lookups -/

/-- find-all returns exactly the elements matched by the path components, in document order: for a lookup
that is not root based the matches below the element it is called on (`p` is that element's own path) -/
theorem C32_find_all (root cur : Elem) (p : Path) (what : Bytes) (flt : Filter)
    (hroot : tagsOK root = true) (hcur : tagsOK cur = true) :
    findN root cur p what flt =
      match stripRoot what with
      | some _ => matchPaths flt root (splitPath (stripAll what))
      | none => (matchPaths flt cur (splitPath what)).map (p ++ ·) :=
  findAll_full root flt hroot what.length (what.length + 1) cur p what (Nat.le_refl _) hcur (by omega)

/-- find-first returns the first element (document order) of find-all, `none` iff there is no match;
no hypothesis on the tree or the path -/
theorem C32_find_first (root cur : Elem) (p : Path) (what : Bytes) (flt : Filter) :
    find1 root cur p what flt = (findN root cur p what flt).head? :=
  findFirst_head _ root cur p what flt

/-- a lookup starting with `//` is the lookup of the remainder at the root, wherever it is called -/
theorem C32_find_root_based (root cur : Elem) (p : Path) (w : Bytes) (flt : Filter) (hroot : tagsOK root = true) :
    findN root cur p (47 :: 47 :: w) flt = findN root root [] w flt := by
  unfold findN
  rw [show (47 :: 47 :: w : Bytes).length + 1 = (w.length + 2) + 1 from rfl, findAll_root]
  rw [findAll_full root flt hroot w.length (w.length + 2) root [] w (Nat.le_refl _) hroot (by omega),
      findAll_full root flt hroot w.length (w.length + 1) root [] w (Nat.le_refl _) hroot (by omega)]

/-- `<root><a id="1"><c/></a><a id="2"><b/></a></root>`: the lookup `root/a/b` finds the `b` below the SECOND `a` -/
example :
    let t : Elem := ⟨[114], [], none, none,
      [⟨[97], [([105, 100], [49])], none, none, [⟨[99], [], none, none, []⟩]⟩,
       ⟨[97], [([105, 100], [50])], none, none, [⟨[98], [], none, none, []⟩]⟩]⟩
    tagsOK t = true ∧ find1 t t [] [114, 47, 97, 47, 98] none = some [1, 0] ∧
      findN t t [] [114, 47, 97] (some ([105, 100], [50])) = [[1]] := by
  decide

end Fix8Model.Props.C32
