import Fix8Model.Props.C16Base
import Fix8Model.Props.C16X
/-!
C16 – Outbound sequence numbers are consecutive and persisted.

`C16Base.lean`: the statements for the events of `Sess.step` (sends, batches, administrative and inbound traffic, restarts).
`C16X.lean`: the same statements for the extended event set of `Sess.stepX` (application retransmissions alone and inside
batches, failing socket writes).  Both live in the namespace `Fix8Model.Props.C16`.
-/
