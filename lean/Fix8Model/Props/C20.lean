import Fix8Model.Session.PeerInv
/-!
C20 – Sequence gaps are recovered with a conformant counterparty.

Objects (Fix8Model/Session/Peer.lean): the session step function `Sess.step` of C16–C19 (unchanged; code after the `fix:` commits,
file/memory persister = the C26 store specification, initiator, no SessionConfig) composed with an independent model of a
FIX-conformant counterparty `Peer` (numbers consecutively; answers ResendRequest [b,0] with the retransmission of every
application message of b.. (original number, PossDupFlag=Y, OrigSendingTime) and ONE SequenceReset-GapFill per run of
administrative messages, then continues with its next number; `trailing`: closes the replay with a gap fill that burns one
number, as fix8's own replay does; its Logon carries its next number).  A history is a list of `CEv`
(`connect`, `lose k`, `peer k infl`, `sess pid`, `tick ms`); `infl` are the frames the counterparty has in flight when the
session's reaction to `k` reaches it.

The FULL property (every history of the composition: never terminated, every application message delivered, expected number =
the counterparty's next) is FALSE of the code.  Three classes, each with a witness below that is replayed on the real
session by the check (known findings, DESIGN section 8 row 16):
* `BareReplay`  (replay-without-gap-fill): `process` counts the too-high frame that revealed the gap (`++_next_receive_seq`
  after `sequence_check` returned false), so during the replay the session is one ahead; only a SequenceReset re-aligns it
  (`handle_sequence_reset` sets the number and leaves resend_request_sent).  A replay that consists of retransmissions only –
  the missing messages were all application messages, and the counterparty does not burn a number – leaves it one ahead
  and still in resend_request_sent: the next new message is "too low" without PossDup -> MsgSequenceTooLow -> stop().
* `InFlight`    (frames-in-flight): any further new frame while in resend_request_sent is too high again ->
  InvalidMsgSequence -> stop().
* `LogonAhead`  (logon-ahead): a Logon above the expected number -> InvalidMsgSequence in logon_received -> Logout, stop().

PROVED for every history outside the three classes (`Clean`): `C20_recovery`, `C20_caught_up`, `C20_requests_missing_range`.
The assumption on the counterparty that the proof needs is exactly `¬ BareReplay` at each gap: the answer contains AT LEAST
ONE gap fill, anywhere – weaker than "ends every replay with a gap fill of one number"; for the fix8-style counterparty
(`trailing = true`) it holds by construction (`C20_trailing_never_bare`, `C20_recovery_trailing`).
-/
namespace Fix8Model.Props.C20
open Fix8Model.Session

/-! ### bookkeeping of the ghost field -/

theorem answerAll_dlv : ∀ (l : List (Nat × Nat)) (c : Comp), (c.answerAll l).1.dlv = c.dlv ++ dlvOf (outsOf (c.answerAll l).2) := by
  intro l
  induction l with
  | nil => intro c; simp [Comp.answerAll, outsOf, dlvOf]
  | cons be r ih =>
    intro c
    obtain ⟨b, e⟩ := be
    simp only [Comp.answerAll]
    rw [ih, outsOf_append, dlvOf_append, List.append_assoc]

theorem step_dlv (c : Comp) (ev : CEv) : (c.step ev).1.dlv = c.dlv ++ dlvOf (outsOf (c.step ev).2) := by
  cases ev with
  | tick ms => simp [Comp.step, outsOf, dlvOf]
  | connect => simp [Comp.step, outsOf_cons]
  | lose k => simp [Comp.step, outsOf, dlvOf]
  | peer k infl =>
    simp only [Comp.step]
    rw [answerAll_dlv]
    simp only [outsOf_append, dlvOf_append, List.append_assoc]
  | sess pid => simp [Comp.step, outsOf]

/-- the ghost field `dlv` is what the outputs say: the ClOrdIDs of all `deliver` outputs of the run, in order -/
theorem run_dlv : ∀ (h : List CEv) (c : Comp), (c.run h).1.dlv = c.dlv ++ dlvOf (outsOf (c.run h).2) := by
  intro h
  induction h with
  | nil => intro c; simp [Comp.run, outsOf, dlvOf]
  | cons ev r ih =>
    intro c
    simp only [Comp.run]
    rw [ih, step_dlv, outsOf_append, dlvOf_append, List.append_assoc]

theorem inv_step {c : Comp} (h : Inv c) (ev : CEv) (h1 : ¬ LogonAhead c ev) (h2 : ¬ InFlight c ev) (h3 : ¬ BareReplay c ev) :
    Inv (c.step ev).1 := by
  cases ev with
  | tick ms => exact inv_tick h ms
  | connect => exact (inv_connect h h1).1
  | lose k => exact inv_lose h k
  | peer k infl => exact (inv_peer h k infl h2 h3).1
  | sess pid => exact inv_sess h pid

theorem inv_run : ∀ (h : List CEv) (c : Comp), Inv c → Clean c h → Inv (c.run h).1 := by
  intro h
  induction h with
  | nil => intro c hi _; exact hi
  | cons ev r ih =>
    intro c hi hc
    obtain ⟨h1, h2, h3, h4⟩ := hc
    exact ih _ (inv_step hi ev h1 h2 h3) h4

/-! ### the property, for every history outside the three classes -/

/-- **C20, recovery.**  For every history of the composition that stays outside the three known classes – whatever the
counterparty sends, whatever is lost, however often the connection is re-established, with enforcement of CompIDs on or
off, for both styles of counterparty:
the session is not terminated; the ClOrdIDs delivered to the application are exactly the application messages the
counterparty sent with a number below the session's expected number – each once, in sending order (so nothing is delivered
twice, out of order, or skipped); the expected number never exceeds the counterparty's next number; and every ResendRequest
the session raised was answered (none was raised while an answer or a Logon was being consumed). -/
theorem C20_recovery (enforce trailing : Bool) (t0 : Nat) (h : List CEv) (hc : Clean (Comp.init enforce trailing t0) h) :
    let r := (Comp.init enforce trailing t0).run h
    r.1.s.shutdown = false ∧
    dlvOf (outsOf r.2) = appsOf (r.1.p.log.take (r.1.s.nr - 1)) ∧
    r.1.s.nr ≤ r.1.p.ns ∧ r.1.unanswered = 0 ∧
    (r.1.s.started = true → r.1.s.state = .continuous) := by
  have hi := inv_run h _ (inv_init enforce trailing t0) hc
  refine ⟨hi.alive, ?_, hi.nrle, hi.unans, fun hs => (hi.live hs).2.1⟩
  have := run_dlv h (Comp.init enforce trailing t0)
  rw [hi.dlv] at this
  simpa [Comp.init] using this.symm

/-- **C20, after recovery the session expects exactly the counterparty's next number.**  Whenever the last event of a
clean history is a (re)connection, or a frame of the counterparty that arrived at a running session – in particular the
frame that revealed a gap of any size, after the resend request, the replay and the gap fills – the session's expected number
equals the counterparty's next number, it is continuous, and EVERY application message the counterparty has ever sent
(lost ones included) has been delivered exactly once, in order. -/
theorem C20_caught_up (enforce trailing : Bool) (t0 : Nat) (h : List CEv) (ev : CEv)
    (hc : Clean (Comp.init enforce trailing t0) (h ++ [ev]))
    (hev : ev = .connect ∨ ∃ k infl, ev = .peer k infl ∧ ((Comp.init enforce trailing t0).run h).1.s.started = true) :
    let r := (Comp.init enforce trailing t0).run (h ++ [ev])
    r.1.s.nr = r.1.p.ns ∧ r.1.s.state = .continuous ∧ r.1.s.shutdown = false ∧ dlvOf (outsOf r.2) = appsOf r.1.p.log := by
  have hsplit : ∀ (a : List CEv) (c : Comp), Clean c (a ++ [ev]) → Clean c a ∧ ¬ LogonAhead (c.run a).1 ev ∧ ¬ InFlight (c.run a).1 ev ∧ ¬ BareReplay (c.run a).1 ev := by
    intro a
    induction a with
    | nil => intro c hc; exact ⟨trivial, hc.1, hc.2.1, hc.2.2.1⟩
    | cons x xs ih =>
      intro c hc
      obtain ⟨h1, h2, h3, h4⟩ := hc
      obtain ⟨i1, i2⟩ := ih _ h4
      exact ⟨⟨h1, h2, h3, i1⟩, i2⟩
  have hrun : ∀ (a : List CEv) (c : Comp), (c.run (a ++ [ev])).1 = ((c.run a).1.step ev).1 := by
    intro a
    induction a with
    | nil => intro c; simp [Comp.run]
    | cons x xs ih => intro c; simp [Comp.run, ih]
  obtain ⟨hca, n1, n2, n3⟩ := hsplit h _ hc
  have hi := inv_run h _ (inv_init enforce trailing t0) hca
  have hfin := inv_run (h ++ [ev]) _ (inv_init enforce trailing t0) hc
  have hd := run_dlv (h ++ [ev]) (Comp.init enforce trailing t0)
  have key : ((Comp.init enforce trailing t0).run (h ++ [ev])).1.s.nr = ((Comp.init enforce trailing t0).run (h ++ [ev])).1.p.ns ∧
      ((Comp.init enforce trailing t0).run (h ++ [ev])).1.s.started = true := by
    rw [hrun]
    rcases hev with hev | ⟨k, infl, hev, hst⟩
    · subst hev; exact (inv_connect hi n1).2
    · subst hev
      obtain ⟨_, a, b⟩ := inv_peer hi k infl n2 n3
      exact ⟨a hst, b.trans hst⟩
  refine ⟨key.1, (hfin.live key.2).2.1, hfin.alive, ?_⟩
  rw [hfin.dlv, key.1] at hd
  have e1 : ((Comp.init enforce trailing t0).run (h ++ [ev])).1.p.ns - 1 = ((Comp.init enforce trailing t0).run (h ++ [ev])).1.p.log.length := by
    simp [Peer.ns]
  rw [e1, List.take_length] at hd
  simpa [Comp.init] using hd.symm

/-- **C20, the session requests the missing range.**  In every state reached by a clean history, with a running session that is
behind the counterparty, the arrival of the next frame makes the session send exactly one ResendRequest, from the first
missing number to infinity (and deliver nothing before the answer). -/
theorem C20_requests_missing_range (enforce trailing : Bool) (t0 : Nat) (h : List CEv) (hc : Clean (Comp.init enforce trailing t0) h)
    (k : PKind) :
    let c := ((Comp.init enforce trailing t0).run h).1
    c.s.started = true → c.s.nr < c.p.ns →
    rrOf (outsOf (feed c.s [(c.p.emit k).2]).2) = [(c.s.nr, 0)] ∧ dlvOf (outsOf (feed c.s [(c.p.emit k).2]).2) = [] := by
  intro c hs hlt
  have hi := inv_run h _ (inv_init enforce trailing t0) hc
  obtain ⟨_, a, b⟩ := trigger_behind (hi.live hs) hlt k
  exact ⟨a, b⟩

/-! ### the fix8-style counterparty: the class `BareReplay` is empty -/

theorem step_trailing (c : Comp) (ev : CEv) : (c.step ev).1.p.trailing = c.p.trailing := by
  have hans : ∀ (l : List (Nat × Nat)) (c : Comp), (c.answerAll l).1.p.trailing = c.p.trailing := by
    intro l
    induction l with
    | nil => intro c; rfl
    | cons be r ih =>
      intro c
      obtain ⟨b, e⟩ := be
      simp only [Comp.answerAll]
      rw [ih]
      simp only [Peer.answer]
      split <;> rfl
  cases ev with
  | tick ms => rfl
  | connect => rfl
  | lose k => exact (emit_me c.p k).2.2.2
  | peer k infl =>
    simp only [Comp.step]
    rw [hans]
    exact (emitAll_me _ infl).2.2.2.trans (emit_me c.p k).2.2.2
  | sess pid => rfl

/-- with a counterparty that closes every replay with a gap fill, no reachable gap is answered by a bare replay -/
theorem C20_trailing_never_bare {c : Comp} (hi : Inv c) (ht : c.p.trailing = true) (ev : CEv) : ¬ BareReplay c ev := by
  rintro ⟨k, infl, rfl, be, hbe, hall⟩
  cases hs : c.s.started with
  | false =>
    rw [(feed_dead c.s _ (Or.inl hs)).2] at hbe
    simp [rrOf] at hbe
  | true =>
    by_cases hstep : c.s.nr = c.p.ns
    · obtain ⟨s1, ⟨_, _, r3⟩, _⟩ := trigger_instep (p := c.p) (by rw [← hstep]; exact hi.live hs) k
      rw [r3] at hbe; cases hbe
    · have hlt : c.s.nr < c.p.ns := by have := hi.nrle; omega
      rw [(trigger_behind (hi.live hs) hlt k).2.1] at hbe
      simp at hbe
      subst hbe
      have htr : ((c.p.emit k).1.emitAll infl).1.trailing = true := ((emitAll_me _ infl).2.2.2.trans (emit_me c.p k).2.2.2).trans ht
      have hhi : ((c.p.emit k).1.emitAll infl).1.hiOf 0 = ((c.p.emit k).1.emitAll infl).1.ns - 1 := by simp [Peer.hiOf]
      refine hall (((c.p.emit k).1.emitAll infl).1.fFill ((c.p.emit k).1.emitAll infl).1.ns (((c.p.emit k).1.emitAll infl).1.ns + 1)) ?_ rfl
      simp [Peer.answer, htr, hhi]

/-- a history that never meets `logon-ahead` or `frames-in-flight` -/
def Clean2 : Comp → List CEv → Prop
  | _, [] => True
  | c, ev :: r => ¬ LogonAhead c ev ∧ ¬ InFlight c ev ∧ Clean2 (c.step ev).1 r

instance : (c : Comp) → (h : List CEv) → Decidable (Clean2 c h)
  | _, [] => isTrue trivial
  | c, ev :: r => by
    unfold Clean2
    have := instDecidableClean2 (c.step ev).1 r
    infer_instance

/-- **C20 for the counterparty that closes every replay with a gap fill of one number** (fix8's own replay): the two classes
`logon-ahead` and `frames-in-flight` are the only exclusions. -/
theorem C20_recovery_trailing (enforce : Bool) (t0 : Nat) (h : List CEv) (hc : Clean2 (Comp.init enforce true t0) h) :
    Clean (Comp.init enforce true t0) h := by
  have : ∀ (h : List CEv) (c : Comp), Inv c → c.p.trailing = true → Clean2 c h → Clean c h := by
    intro h
    induction h with
    | nil => intro _ _ _ _; trivial
    | cons ev r ih =>
      intro c hi ht hc
      obtain ⟨h1, h2, h3⟩ := hc
      have hb := C20_trailing_never_bare hi ht ev
      exact ⟨h1, h2, hb, ih _ (inv_step hi ev h1 h2 hb) ((step_trailing c ev).trans ht) h3⟩
  exact this h _ (inv_init enforce true t0) rfl hc

/-! ### non-vacuity: clean histories with real gaps -/

/-- application messages lost, counterparty burns a number: 1002 delivered, 1003/1004 lost, 1005 reveals the gap,
replay 1003 1004 1005 + gap fill, then 1006 -/
def exTrailing : List CEv :=
  [.connect, .peer (.app 1002) [], .lose (.app 1003), .lose (.app 1004), .peer (.app 1005) [], .sess 7, .peer (.app 1006) [.hb], .tick 5, .connect, .peer (.app 1007) []]

example : Clean (Comp.init true true) exTrailing := by decide
example : dlvOf (outsOf ((Comp.init true true).run exTrailing).2) = [1002, 1003, 1004, 1005, 1006, 1007] := by decide
example : ((Comp.init true true).run exTrailing).1.s.nr = 11 ∧ ((Comp.init true true).run exTrailing).1.p.ns = 11 := by decide

/-- a plain conformant counterparty: the lost range contains an administrative message, so the replay contains a gap fill -/
def exPlain : List CEv :=
  [.connect, .peer (.app 1002) [], .lose (.app 1003), .lose .hb, .lose (.app 1005), .peer (.app 1006) [], .peer (.app 1007) []]

example : Clean (Comp.init true false) exPlain := by decide
example : dlvOf (outsOf ((Comp.init true false).run exPlain).2) = [1002, 1003, 1005, 1006, 1007] := by decide
example : Clean2 (Comp.init false true) exTrailing := by decide

/-! ### the full property is false: one witness per class (each is replayed on the real session by the check) -/

/-- the full statement of C20 for one history: not terminated, every application message the counterparty sent delivered,
expected number = the counterparty's next -/
def FullProperty (c0 : Comp) (h : List CEv) : Prop :=
  (c0.run h).1.s.shutdown = false ∧ dlvOf (outsOf (c0.run h).2) = appsOf (c0.run h).1.p.log ∧ (c0.run h).1.s.nr = (c0.run h).1.p.ns

instance (c0 : Comp) (h : List CEv) : Decidable (FullProperty c0 h) := by unfold FullProperty; infer_instance

/-- finding `replay-without-gap-fill`: 3 lost, 4 reveals the gap, the conformant replay is 3 4 (PossDup), the next new message 5
is taken for "too low": the session stops, 5 is never delivered -/
def witBare : List CEv := [.connect, .peer (.app 1002) [], .lose (.app 1003), .peer (.app 1004) [], .peer (.app 1005) []]

theorem C20_finding_bare_replay :
    ¬ FullProperty (Comp.init true false) witBare ∧
    ((Comp.init true false).run witBare).1.s.shutdown = true ∧
    dlvOf (outsOf ((Comp.init true false).run witBare).2) = [1002, 1003, 1004] ∧
    BareReplay ((Comp.init true false).run (witBare.take 3)).1 (.peer (.app 1004) []) ∧
    Clean (Comp.init true false) (witBare.take 3) := by decide

/-- the same history with the fix8-style counterparty is fine -/
theorem C20_bare_replay_masked_by_trailing_fill : FullProperty (Comp.init true true) witBare ∧ Clean (Comp.init true true) witBare := by decide

/-- finding `frames-in-flight`: 3 lost, 4 reveals the gap, 5 was already on its way: InvalidMsgSequence, the session stops -/
def witInFlight : List CEv := [.connect, .peer (.app 1002) [], .lose (.app 1003), .peer (.app 1004) [.app 1005]]

theorem C20_finding_in_flight :
    ¬ FullProperty (Comp.init true true) witInFlight ∧
    ((Comp.init true true).run witInFlight).1.s.shutdown = true ∧
    dlvOf (outsOf ((Comp.init true true).run witInFlight).2) = [1002] ∧
    InFlight ((Comp.init true true).run (witInFlight.take 3)).1 (.peer (.app 1004) [.app 1005]) ∧
    Clean (Comp.init true true) (witInFlight.take 3) := by decide

/-- finding `logon-ahead`: a message sent while the connection was down; the Logon of the reconnection carries 4, 3 is expected:
the session answers with a Logout and stops instead of requesting a resend -/
def witLogon : List CEv := [.connect, .peer (.app 1002) [], .lose (.app 1003), .connect]

theorem C20_finding_logon_ahead :
    ¬ FullProperty (Comp.init true true) witLogon ∧
    ((Comp.init true true).run witLogon).1.s.shutdown = true ∧
    ((Comp.init true true).run witLogon).1.s.state = .logoffSent ∧
    LogonAhead ((Comp.init true true).run (witLogon.take 3)).1 .connect ∧
    Clean (Comp.init true true) (witLogon.take 3) := by decide

end Fix8Model.Props.C20
