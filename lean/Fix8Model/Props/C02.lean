import Fix8Model.Codec.EncodeLemmas
import Fix8Model.Basic.DigitsLemmas
/-!
C02 – Encoded messages are well-formed FIX on the wire (statements about the encoder model
`encodeMsg` / `encodeItems` / `placeAll`).
-/
namespace Fix8Model.Props.C02
open Fix8Model Fix8Model.Codec Fix8Model.Digits

/-- the bytes between the BodyLength field and the CheckSum field -/
def payload (S : Schema) (ts : List Trait) (m : Msg) : Bytes :=
  encodeItems S.header S m.header ++ m.hUnknown ++ encodeItems ts S m.body ++ m.bUnknown ++
    encodeItems S.trailer S m.trailer ++ m.tUnknown

/-- every encoded message is `8=BeginString|9=<n>|` + payload + `10=<ccc>|`, where the payload is the header
fields, then the body fields, then the trailer fields -/
theorem C02_frame (S : Schema) (ts : List Trait) (m : Msg) :
    encodeMsg S ts m =
      renderField 8 S.beginStr ++ renderField 9 (itoa (payload S ts m).length) ++ payload S ts m ++
        renderField 10 (fmt3 (byteSum (renderField 8 S.beginStr ++ renderField 9 (itoa (payload S ts m).length) ++ payload S ts m) % 256)) := by
  unfold encodeMsg payload
  simp only [List.append_assoc]

/-- BodyLength is the canonical decimal text of exactly the number of payload bytes -/
theorem C02_body_length (S : Schema) (ts : List Trait) (m : Msg) :
    itoa ((payload S ts m).length : Int) = natDigits (payload S ts m).length := by
  rw [itoa_eq]
  unfold decimalRepr
  have : ¬ ((payload S ts m).length : Int) < 0 := by omega
  simp [this]

/-- CheckSum is three decimal digits whose value is the sum of all preceding bytes modulo 256 -/
theorem C02_checksum (front : Bytes) :
    let c := byteSum front % 256
    fmt3 c = [48 + c / 100, 48 + c / 10 % 10, 48 + c % 10] ∧ c / 100 < 10 ∧
      100 * (c / 100) + 10 * (c / 10 % 10) + c % 10 = c := by
  intro c
  have hc : c < 256 := Nat.mod_lt _ (by omega)
  refine ⟨?_, by omega, by omega⟩
  unfold fmt3
  have : c / 100 % 10 = c / 100 := by omega
  rw [this]

/-- a field is rendered as decimal tag, '=', value, SOH -/
theorem C02_fields_rendered (S : Schema) (ts : List Trait) (t : Nat) (v : Bytes) (rest : List Item)
    (hns : (findTrait ts t).any (·.suppress) = false) :
    encodeItems ts S (.fld t v :: rest) = natDigits t ++ [EQ] ++ v ++ [SOH] ++ encodeItems ts S rest := by
  rw [encodeItems]
  simp [hns, renderField, renderTag]

/-- a repeating group is its count field followed by its elements in order, each rendered as a field list -/
theorem C02_group_rendered (S : Schema) (ts : List Trait) (t : Nat) (v : Bytes) (els : List (List Item)) (rest : List Item)
    (hns : (findTrait ts t).any (·.suppress) = false) (hc : countPositive v = true) :
    encodeItems ts S (.grp t v els :: rest) =
      renderField t v ++ (els.map (encodeItems (S.group ((findTrait ts t).map (·.sub) |>.getD 0)) S)).flatten ++ encodeItems ts S rest := by
  rw [encodeItems]
  simp only [hns, hc, Bool.false_eq_true, if_false, if_true]
  congr 2
  generalize (S.group ((findTrait ts t).map (·.sub) |>.getD 0)) = g
  induction els with
  | nil => rw [encodeElems]; rfl
  | cons e es ih => rw [encodeElems, ih]; simp

/-- whatever the insertion order, the fields of a section built through `add_field` are held in non-decreasing
schema position (hence encoded in that order) -/
theorem C02_sorted_by_position (ts : List Trait) (items : List Item) (out : List (Nat × Item))
    (h : placeAll ts [] items = .ok out) :
    out.Pairwise (fun a b => a.1 ≤ b.1) ∧ ∀ e ∈ out, ∃ tr, findTrait ts e.2.tag = some tr ∧ e.1 = tr.pos := by
  have := placeAll_inv ts items [] out (by simp [SortedPos]) (by intro e he; simp at he) h
  exact ⟨this.1, this.2⟩

/-- two insertion orders of the same fields (no tag twice, distinct tags have distinct schema positions)
give the same section, hence the same bytes -/
theorem C02_insertion_order_irrelevant (ts : List Trait) (l1 l2 : List Item) (o1 o2 : List (Nat × Item))
    (hp : l1.Perm l2) (hnd : (l1.map (·.tag)).Nodup)
    (hinj : ∀ a b, a ∈ l1 → b ∈ l1 → ∀ ta tb, findTrait ts a.tag = some ta → findTrait ts b.tag = some tb → ta.pos = tb.pos → a = b)
    (h1 : placeAll ts [] l1 = .ok o1) (h2 : placeAll ts [] l2 = .ok o2) : o1 = o2 := by
  have hnd2 : (l2.map (·.tag)).Nodup := (hp.map _).nodup_iff.mp hnd
  obtain ⟨k1, p1, m1, c1⟩ := placeAll_perm ts l1 [] o1 (by intro _ _ e he; simp at he) hnd h1
  obtain ⟨k2, p2, m2, c2⟩ := placeAll_perm ts l2 [] o2 (by intro _ _ e he; simp at he) hnd2 h2
  have s1 := (placeAll_inv ts l1 [] o1 (by simp [SortedPos]) (by intro e he; simp at he) h1).1
  have s2 := (placeAll_inv ts l2 [] o2 (by simp [SortedPos]) (by intro e he; simp at he) h2).1
  simp only [List.append_nil] at p1 p2
  -- an entry is determined by its item
  have key1 : ∀ e ∈ k1, ∀ e' ∈ k2, e.2 = e'.2 → e = e' := by
    intro e he e' he' heq
    obtain ⟨t1, f1, q1⟩ := c1 e he
    obtain ⟨t2, f2, q2⟩ := c2 e' he'
    rw [heq] at f1
    rw [f1] at f2
    injection f2 with f2
    subst f2
    exact Prod.ext (by rw [q1, q2]) heq
  have hk : k1.Perm k2 := by
    -- both are the keyed images of permutations of the same items
    have hm : (k1.map (·.2)).Perm (k2.map (·.2)) := by
      rw [m1, m2]
      exact (List.reverse_perm l1).trans (hp.trans (List.reverse_perm l2).symm)
    -- recover the entries from their items through the (functional) keying
    let f : Item → Nat × Item := fun it => (((findTrait ts it.tag).map (·.pos)).getD 0, it)
    have e1 : k1 = (k1.map (·.2)).map f := by
      rw [List.map_map]
      conv => lhs; rw [← List.map_id k1]
      apply List.map_congr_left
      intro e he
      obtain ⟨t1, f1, q1⟩ := c1 e he
      simp only [Function.comp, f, f1, Option.map, Option.getD, id]
      exact Prod.ext q1 rfl
    have e2 : k2 = (k2.map (·.2)).map f := by
      rw [List.map_map]
      conv => lhs; rw [← List.map_id k2]
      apply List.map_congr_left
      intro e he
      obtain ⟨t1, f1, q1⟩ := c2 e he
      simp only [Function.comp, f, f1, Option.map, Option.getD, id]
      exact Prod.ext q1 rfl
    rw [e1, e2]
    exact hm.map f
  have hperm : o1.Perm o2 := p1.trans (hk.trans p2.symm)
  refine List.Perm.eq_of_pairwise (le := fun (a b : Nat × Item) => a.1 ≤ b.1) ?_ s1 s2 hperm
  intro a b ha hb hab hba
  have hkey : a.1 = b.1 := by omega
  have ha1 : a ∈ k1 := p1.mem_iff.mp ha
  have hb1 : b ∈ k1 := hk.mem_iff.mpr (p2.mem_iff.mp hb)
  obtain ⟨ta, fa, qa⟩ := c1 a ha1
  obtain ⟨tb, fb, qb⟩ := c1 b hb1
  have hal : a.2 ∈ l1 := by
    have : a.2 ∈ k1.map (·.2) := List.mem_map.mpr ⟨a, ha1, rfl⟩
    rw [m1] at this; simpa using this
  have hbl : b.2 ∈ l1 := by
    have : b.2 ∈ k1.map (·.2) := List.mem_map.mpr ⟨b, hb1, rfl⟩
    rw [m1] at this; simpa using this
  have := hinj a.2 b.2 hal hbl ta tb fa fb (by rw [← qa, ← qb, hkey])
  exact Prod.ext hkey this

/-- MsgType is the third field: with `8` and `9` suppressed in the header section, a header whose first three
entries are the pre-set `8`, `9`, `35` renders starting with `35=<MsgType>` -/
theorem C02_msgtype_third (S : Schema) (v8 v9 mt : Bytes) (rest : List Item)
    (h8 : (findTrait S.header 8).any (·.suppress) = true) (h9 : (findTrait S.header 9).any (·.suppress) = true)
    (h35 : (findTrait S.header 35).any (·.suppress) = false) :
    encodeItems S.header S (.fld 8 v8 :: .fld 9 v9 :: .fld 35 mt :: rest) = renderField 35 mt ++ encodeItems S.header S rest := by
  rw [encodeItems, encodeItems, encodeItems]
  simp [h8, h9, h35]

/-- non-vacuity: two insertion orders of three fields -/
def demoTs : List Trait :=
  [⟨11, .string, 1, true, false, false, false, false, 0⟩, ⟨55, .string, 4, true, false, false, false, false, 0⟩,
   ⟨54, .char, 3, true, false, false, false, false, 0⟩]

example : placeAll demoTs [] [.fld 55 [65], .fld 11 [66], .fld 54 [49]] = placeAll demoTs [] [.fld 54 [49], .fld 55 [65], .fld 11 [66]] := by
  rfl

end Fix8Model.Props.C02
